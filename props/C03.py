"""C03 - X.509 chain validation succeeds only for a genuinely signed path to a trust anchor,
and accepts chains that meet the rules.

Theorems: coq/Properties/Properties_C03.v (model coq/Chain/ChainModel.v, spec ChainSpec.v).
Tie: harness/h_chain.c builds certificate graphs out of freshly parsed testkeys certificates (real
sigHash / signature / public keys) with every validator-visible field overridden per case and runs
matrixValidateCertsExt / psX509AuthenticateCert / psX509ParseCert of the freshly built library;
ocaml/drv_c03.ml runs the extracted model on the same lines with sig_ok instantiated from the
generator's ground truth (who really signed which TBS).
Search oracle (Impl vs Spec): genuine()/supported() below, an independent transcription of
ChainSpec.v evaluated on the generator's own knowledge of the graph.
"""
import base64, calendar, hashlib, json, os, re
import vlib
import c03crl

# ---------------------------------------------------------------- certificate table
# (path under testkeys, role, path of the CA that signed it)
TABLE = [
    ("RSA/1024_RSA", "leaf", "RSA/1024_RSA_CA"), ("RSA/1024_RSA_CA", "ca", None),
    ("RSA/2048_RSA", "leaf", "RSA/2048_RSA_CA"), ("RSA/2048_RSA_CA", "ca", None), ("RSA/2048_RSA_CA_SIGN", "ca", None),
    ("RSA/3072_RSA", "leaf", "RSA/3072_RSA_CA"), ("RSA/3072_RSA_CA", "ca", None),
    ("RSA/4096_RSA", "leaf", "RSA/4096_RSA_CA"), ("RSA/4096_RSA_CA", "ca", None),
    ("RSA/2048_RSA_SHA512", "leaf", "RSA/2048_RSA_SHA512_CA"), ("RSA/2048_RSA_SHA512_CA", "ca", None),
    ("RSA/2048_RSA_PSS", "leaf", "RSA/2048_RSA_PSS_CA"), ("RSA/2048_RSA_PSS_CA", "ca", None),
    ("EC/192_EC", "leaf", "EC/192_EC_CA"), ("EC/192_EC_CA", "ca", None),
    ("EC/224_EC", "leaf", "EC/224_EC_CA"), ("EC/224_EC_CA", "ca", None),
    ("EC/256_EC", "leaf", "EC/256_EC_CA"), ("EC/256_EC_CA", "ca", None),
    ("EC/384_EC", "leaf", "EC/384_EC_CA"), ("EC/384_EC_CA", "ca", None),
    ("EC/521_EC", "leaf", "EC/521_EC_CA"), ("EC/521_EC_CA", "ca", None),
    ("EC/384_EC_SHA384", "leaf", "EC/384_EC_CA_SHA384"), ("EC/384_EC_CA_SHA384", "ca", None),
    ("EC/521_EC_SHA512", "leaf", "EC/521_EC_CA_SHA512"), ("EC/521_EC_CA_SHA512", "ca", None),
    ("EC/ED25519", "leaf", "EC/ED25519_CA"), ("EC/ED25519_CA", "ca", None),
    ("ECDH_RSA/256_ECDH-RSA", "leaf", "ECDH_RSA/1024_ECDH-RSA_CA"), ("ECDH_RSA/1024_ECDH-RSA_CA", "ca", None),
    ("ECDH_RSA/521_ECDH-RSA", "leaf", "ECDH_RSA/2048_ECDH-RSA_CA"), ("ECDH_RSA/2048_ECDH-RSA_CA", "ca", None),
    # Ed25519-SIGNED certificates (corpus/C03/fixtures, see README there): a three-level hierarchy
    ("@ed25519_leaf", "leaf", "@ed25519_i2"), ("@ed25519_i2", "ca", "@ed25519_i1"), ("@ed25519_i1", "ca", "@ed25519_root"), ("@ed25519_root", "ca", None),
    ("@decoy_rsa2048_ca", "ca", None),       # same subject name as RSA/2048_RSA_CA, another RSA-2048 key
]   # append only: corpus/C03/*.case lines refer to entries by index
# used by the parse-gate stream only (SHA-1 signed)
SHA1_CERTS = ["RSA/2048_RSA_SHA1", "RSA/2048_RSA_SHA1_CA", "EC/256_EC_SHA1", "EC/256_EC_SHA1_CA"]

WRAPS = ["psGetBrokenDownGMTime", "psCRL_determineRevokedStatus", "_psTrace", "_psTraceInt", "_psTraceStr", "_psTracePtr"]
FIELDS = "b k hs ss co alg subj iss ver ca pl ku eku crit akl akv skl skv fl0 st0 nb na rev".split()
PASS = 1
CA_TRUE = 255
REVOKED = 9
DATE_FLAG = 8
P3 = {0: 0, 1: 1, 2: -1, 3: 0, 4: -1}      # issuedBefore(RFC_3280) for the notBefore variants of h_chain.c


# ---------------------------------------------------------------- minimal DER
def tlv(b, i):
    tag = b[i]; l = b[i + 1]
    if l < 0x80: return tag, i + 2, l
    n = l & 0x7f
    return tag, i + 2 + n, int.from_bytes(b[i + 2:i + 2 + n], "big")

def enc(tag, content):
    l = len(content)
    if l < 0x80: return bytes([tag, l]) + content
    lb = l.to_bytes((l.bit_length() + 7) // 8, "big")
    return bytes([tag, 0x80 | len(lb)]) + lb + content

def kids(b):
    out = []; i = 0
    while i < len(b):
        tag, s, l = tlv(b, i)
        out.append((tag, b[s:s + l])); i = s + l
    return out

class Der:
    """the parts of a certificate the checks mutate or read"""
    def __init__(self, der):
        self.der = der
        (_, cert), = kids(der)
        (t0, tbs), (t1, alg_out), (t2, sig) = kids(cert)
        self.tbs_full = enc(t0, tbs); self.sig = sig[1:]
        self.alg_out = alg_out
        k = kids(tbs)
        self.k = k
        self.ver = k[0][1][2] if k[0][0] == 0xa0 else 0
        o = 1 if k[0][0] == 0xa0 else 0
        self.o = o
        self.alg_in = k[o + 1][1]
        self.issuer, self.validity, self.subject, self.spki = k[o + 2][1], k[o + 3][1], k[o + 4][1], k[o + 5][1]
        self.spki_full = enc(k[o + 5][0], k[o + 5][1])
        self.exts = []
        for tag, c in k[o + 6:]:
            if tag == 0xa3:
                (_, seq), = kids(c)
                for _, e in kids(seq):
                    parts = kids(e)
                    crit = len(parts) == 3 and parts[1][1] != b"\x00"
                    self.exts.append([parts[0][1], crit, parts[-1][1]])

    @staticmethod
    def cn(name):
        for _, rdn in kids(name):
            for _, atv in kids(rdn):
                (_, oid), (vt, val) = kids(atv)
                if oid == bytes([0x55, 0x04, 0x03]): return val
        return None

    @staticmethod
    def set_cn(name, new):
        out = b""
        for t, rdn in kids(name):
            r2 = b""
            for t2, atv in kids(rdn):
                (to, oid), (vt, val) = kids(atv)
                if oid == bytes([0x55, 0x04, 0x03]): val = new
                r2 += enc(t2, enc(to, oid) + enc(vt, val))
            out += enc(t, r2)
        return out

    def rebuild(self, ver=None, alg_in=None, alg_out=None, subject=None, issuer=None, exts=None):
        k = list(self.k); o = self.o
        if ver is not None: k[0] = (0xa0, enc(2, bytes([ver])))
        if alg_in is not None: k[o + 1] = (0x30, alg_in)
        if issuer is not None: k[o + 2] = (0x30, issuer)
        if subject is not None: k[o + 4] = (0x30, subject)
        if exts is not None:
            k = [x for x in k if x[0] != 0xa3]
            seq = b""
            for oid, crit, val in exts:
                # crit: False = field absent, True = DER TRUE (FF), an int = that BOOLEAN content octet (0 = explicit FALSE)
                cb = None if crit is False else (0xff if crit is True else int(crit))
                seq += enc(0x30, enc(6, oid) + (enc(1, bytes([cb])) if cb is not None else b"") + enc(4, val))
            k.append((0xa3, enc(0x30, seq)))
        tbs = b"".join(enc(t, c) for t, c in k)
        return enc(0x30, enc(0x30, tbs) + enc(0x30, alg_out if alg_out is not None else self.alg_out) + enc(3, b"\x00" + self.sig))

def asn_time(tag, s):
    s = s.decode()
    if tag == 0x17:
        y = int(s[:2]); y += 1900 if y >= 50 else 2000; s = s[2:]
    else:
        y = int(s[:4]); s = s[4:]
    return calendar.timegm((y, int(s[0:2]), int(s[2:4]), int(s[4:6]), int(s[6:8]), int(s[8:10]), 0, 0, 0))

def rsa_pub(spki):
    (_, alg), (_, bits) = kids(spki)
    (_, seq), = kids(bits[1:])
    (_, n), (_, e) = kids(seq)
    return int.from_bytes(n, "big"), int.from_bytes(e, "big")

DIGESTINFO = {"sha256": bytes.fromhex("3031300d060960864801650304020105000420"), "sha512": bytes.fromhex("3051300d060960864801650304020305000440")}
def rsa_pkcs1_verify(n, e, sig, msg, h):
    k = (n.bit_length() + 7) // 8
    if len(sig) != k: return False
    em = pow(int.from_bytes(sig, "big"), e, n).to_bytes(k, "big")
    t = DIGESTINFO[h] + hashlib.new(h, msg).digest()
    return em == b"\x00\x01" + b"\xff" * (k - len(t) - 3) + b"\x00" + t

def load_der(repo, rel):
    path = os.path.join(vlib.VERIF, "corpus", "C03", "fixtures", rel[1:] + ".pem") if rel.startswith("@") else os.path.join(repo, "testkeys", rel + ".pem")
    t = open(path).read()
    m = re.search(r"-----BEGIN CERTIFICATE-----(.*?)-----END CERTIFICATE-----", t, re.S)
    return base64.b64decode(m.group(1))

def gen_consts():
    out = {}
    for f in ("Consts.v", "ConstsChain.v"):
        for m in re.finditer(r"Definition ([cn]_[A-Za-z0-9_]+) : [ZN] := \((-?\d+)\)", open(os.path.join(vlib.COQ, "Gen", f)).read()):
            out[m.group(1)] = int(m.group(2))
    return out


class Universe:
    def __init__(self, repo):
        self.names = [t[0] for t in TABLE]
        self.ders = [load_der(repo, n) for n in self.names]
        self.d = [Der(x) for x in self.ders]
        spkis = []
        self.key_id = []
        for d in self.d:
            if d.spki_full not in spkis: spkis.append(d.spki_full)
            self.key_id.append(1 + spkis.index(d.spki_full))
        self.signer_cert = [self.names.index(t[2]) if t[2] else i for i, t in enumerate(TABLE)]
        self.signer_id = [self.key_id[s] for s in self.signer_cert]
        self.role = [t[1] for t in TABLE]
        self.alg = [0] * len(TABLE)          # the library's OID number of each body, filled from the harness
        self.ok = [False] * len(TABLE)
        self.siglen = [len(d.sig) for d in self.d]
        self.is_rsa_key = [b"\x2a\x86\x48\x86\xf7\x0d\x01\x01" in d.spki[:20] for d in self.d]
        # bodies whose signature is over the TBSCertificate itself (Ed25519): no sigHash to graft
        self.nohash = [kids(d.alg_out)[0][1] == bytes([0x2b, 0x65, 0x70]) for d in self.d]
        self.ecdsa = [kids(d.alg_out)[0][1][:6] == bytes.fromhex("2a8648ce3d04") for d in self.d]
        self.pkcs1 = [kids(d.alg_out)[0][1].hex() in ("2a864886f70d01010b", "2a864886f70d01010c", "2a864886f70d01010d") for d in self.d]

    def cross_check(self):
        """pure-Python RSA PKCS#1 v1.5 verification of the naming-convention ground truth (all pairs)"""
        bad = []
        n_checked = 0
        for i, d in enumerate(self.d):
            h = {bytes.fromhex("2a864886f70d01010b"): "sha256", bytes.fromhex("2a864886f70d01010d"): "sha512"}.get(kids(d.alg_out)[0][1])
            if h is None: continue
            for j, dj in enumerate(self.d):
                if not self.is_rsa_key[j]: continue
                n, e = rsa_pub(dj.spki)
                got = rsa_pkcs1_verify(n, e, d.sig, d.tbs_full, h)
                want = self.signer_id[i] == self.key_id[j]
                n_checked += 1
                if got != want: bad.append((self.names[i], self.names[j], got, want))
        return n_checked, bad


# ---------------------------------------------------------------- nodes, lines
def node(U, b, **kw):
    n = dict(b=b, k=-1, hs=-1, ss=-1, co=0, alg=U.alg[b], subj=1, iss=1, ver=2, ca=0, pl=-1, ku=0, eku=0, crit=0,
             akl=0, akv=0, skl=0, skv=0, fl0=0, st0=0, nb=0, na=0, rev=6, serial=None)
    n.update(kw)
    return n

def tbs_of(n): return n["hs"] if n["hs"] >= 0 else n["b"]
def sig_of(n): return 2 * (n["ss"] if n["ss"] >= 0 else n["b"]) + (1 if n["co"] == 1 else 0)
def date_now(n): return -1 if (n["nb"] == 4 or n["na"] == 2) else (1 if (n["nb"] == 3 or n["na"] == 1) else 0)

def true_alg(U, t):
    """the sigAlgorithm under which the signature over TBS t verifies; 0 = any (ECDSA verification does not look at the OID)"""
    return 0 if U.ecdsa[t] else U.alg[t]

def node_tok(U, n):
    t = tbs_of(n)
    kf = U.key_id[n["k"] if n["k"] >= 0 else n["b"]]
    return (":".join(str(n[f]) for f in FIELDS) + ":%d:%d:%d:%d:%d" % (U.signer_id[t], kf, true_alg(U, t), P3[n["nb"]], date_now(n)) +
            ("" if n.get("serial") is None else ":" + c03crl.shex(n["serial"])))

def vc_line(U, rv, chain, anchors):
    return "vc %d %d %d %s" % (rv, len(chain), len(anchors), " ".join(node_tok(U, n) for n in chain + anchors))

def ac_line(U, chain, issuer):
    return "ac %d %d %s" % (len(chain), 1 if issuer else 0, " ".join(node_tok(U, n) for n in chain + ([issuer] if issuer else [])))

def vk_line(U, P, rv, chain, anchors, ktoks):
    return "vk %d %d %d %d %s" % (rv, len(chain), len(anchors), len(ktoks), " ".join([node_tok(U, n) for n in chain + anchors] + [c03crl.crl_tok(P, k) for k in ktoks]))

def ak_line(U, P, chain, issuer, ktoks):
    return "ak %d %d %d %s" % (len(chain), 1 if issuer else 0, len(ktoks), " ".join([node_tok(U, n) for n in chain + ([issuer] if issuer else [])] + [c03crl.crl_tok(P, k) for k in ktoks]))

def parse_vc(U, line):
    """-> rv, chain, anchors, CRL tokens"""
    t = line.split()
    isvc, hask = t[0][0] == "v", t[0][1] == "k"
    rv = int(t[1]) if isvc else 0
    nc, na = (int(t[2]), int(t[3])) if isvc else (int(t[1]), int(t[2]))
    nk = int(t[4 if isvc else 3]) if hask else 0
    base = (4 if isvc else 3) + (1 if hask else 0)
    nodes = []
    for tok in t[base:base + nc + na]:
        f = tok.split(":")
        n = dict(zip(FIELDS, [int(x) for x in f[:23]]))
        n["serial"] = (b"" if f[28] == "e" else bytes.fromhex(f[28])) if len(f) > 28 and f[28] != "-" else bytes([255, 255, n["b"]])
        nodes.append(n)
    return rv, nodes[:nc], nodes[nc:nc + na], [c03crl.parse_ktok(x) for x in t[base + nc + na:base + nc + na + nk]]


# ---------------------------------------------------------------- independent spec oracle (ChainSpec.v)
class Oracle:
    def __init__(self, U):
        self.U = U
        self.K = []                       # the cache the current case loaded (c03crl.CacheOracle.load)
        self.CO = c03crl.CacheOracle(self)
    def key(self, n): return self.U.key_id[n["k"] if n["k"] >= 0 else n["b"]]
    def sig_true(self, sc, ic):
        """the generator's ground truth: sc's signature bytes are the untouched signature over the TBS it
        carries, made by the key ic carries, with the algorithm sc declares"""
        t = tbs_of(sc)
        return sig_of(sc) == 2 * t and self.U.signer_id[t] == self.key(ic) and true_alg(self.U, t) in (0, sc["alg"])
    def issued_by(self, sc, ic):
        return (sc["iss"] == ic["subj"] and self.sig_true(sc, ic) and ic["ca"] == CA_TRUE and
                (ic["ku"] == 0 or (ic["ku"] & 4) != 0) and not self.CO.revoked_in(self.K, sc))
    def same_cert(self, sc, ic): return tbs_of(sc) == tbs_of(ic) and sig_of(sc) == sig_of(ic)
    def step(self, sc, ic): return self.issued_by(sc, ic) or self.same_cert(sc, ic)
    def pathlen_ok(self, sc, ic, k):
        d = k - 1 if (self.same_cert(sc, ic) and k > 0) else k
        return ic["pl"] < 0 or d <= ic["pl"]
    def valid_now(self, rv, c): return (c["fl0"] & DATE_FLAG) == 0 and (not rv or date_now(c) == 0)
    def path_to(self, rv, chain, a):
        p = chain + [a]
        return (all(self.step(p[i], p[i + 1]) for i in range(len(p) - 1)) and
                all(self.pathlen_ok(p[i], p[i + 1], i) for i in range(len(p) - 1)) and
                all(self.valid_now(rv, c) for c in chain))
    def genuine(self, rv, chain, anchors): return any(self.path_to(rv, chain, a) for a in anchors)
    def self_contained(self, chain):
        top = chain[-1]
        return (all(self.step(chain[i], chain[i + 1]) for i in range(len(chain) - 1)) and
                top["iss"] == top["subj"] and self.sig_true(top, top))
    # ---- converse
    def aki_ok(self, sc, ic):
        return ((sc["akl"] == 0 and ic["skl"] == 0) or (sc["akl"] == ic["skl"] and sc["akv"] == ic["skv"]) or
                (sc["akl"] == 0 and sig_of(sc) == sig_of(ic)))
    def ku_supported(self, ic): return (ic["ku"] & 4) != 0 or (ic["ku"] == 0 and P3[ic["nb"]] > 0)
    def link_supported(self, sc, ic): return self.issued_by(sc, ic) and self.aki_ok(sc, ic) and self.ku_supported(ic)
    def claims(self, top, a): return (top["iss"] == a["subj"] and self.sig_true(top, a)) or self.same_cert(top, a)
    def supported(self, rv, chain, anchors):
        """index of an anchor for which ChainSpec.supported_path holds, or None"""
        leaf, top = chain[0], chain[-1]
        if leaf["st0"] != 0: return None
        if leaf["crit"] and not (leaf["eku"] & 6): return None
        if not all(self.link_supported(chain[i], chain[i + 1]) for i in range(len(chain) - 1)): return None
        if not all(self.valid_now(rv, c) for c in chain): return None
        if not all(self.CO.not_listed(self.K, c) for c in chain): return None
        for j, a in enumerate(anchors):
            p = chain + [a]
            top_ok = self.link_supported(top, a) or (self.same_cert(top, a) and top["iss"] != a["subj"] and a["ca"] == CA_TRUE)
            if (top_ok and all(self.pathlen_ok(p[i], p[i + 1], i) for i in range(len(p) - 1)) and
                    (not rv or self.valid_now(rv, a)) and not any(self.claims(top, x) for x in anchors[:j])):
                return j
        return None


# ---------------------------------------------------------------- generator
class Gen:
    def __init__(self, U, r):
        self.U, self.r = U, r
        ok = [i for i in range(len(TABLE)) if U.ok[i]]
        self.cas = [i for i in ok if U.role[i] == "ca"]
        self.signed_by = {}
        for i in ok: self.signed_by.setdefault(U.signer_id[i], []).append(i)
        self.ca_of_key = {}
        for i in self.cas: self.ca_of_key.setdefault(U.key_id[i], i)
        self.keys = sorted(self.ca_of_key)
        self.kw = [1.0 if U.is_rsa_key[self.ca_of_key[k]] else 0.12 for k in self.keys]

    def pick_key(self): return self.r.choices(self.keys, self.kw)[0]

    def good(self, n, nanch):
        """a genuinely signed, rule-abiding leaf-first chain of n certificates and nanch anchors, the right one at a random place"""
        U, r = self.U, self.r
        K = [None] + [self.pick_key() for _ in range(n)]          # K[i] = key carried by chain[i] (i>=1); K[n] = anchor key
        ski = r.random() < 0.7
        chain = []
        for i in range(n):
            body = r.choice(self.signed_by[K[i + 1]])
            nd = node(U, body, subj=100 + i, iss=101 + i, ca=(0 if i == 0 else CA_TRUE))
            if i > 0:
                cak = self.ca_of_key[K[i]]
                nd["k"] = -1 if U.key_id[body] == K[i] else cak
                nd["ku"] = r.choice([4, 6, 6, 0x86])
                nd["pl"] = r.choice([-1, -1, i - 1, i, 3])
            else:
                nd["ku"] = r.choice([0, 0xE0, 0xA0]); nd["eku"] = r.choice([0, 6, 2, 4, 7]); nd["crit"] = 1 if (nd["eku"] & 6 and r.random() < 0.3) else 0
            if ski:
                nd["skl"], nd["skv"], nd["akl"], nd["akv"] = 20, 50 + i, 20, 51 + i
            chain.append(nd)
        anchors = []
        right = None
        if nanch > 0:
            cak = self.ca_of_key[K[n]]
            a = node(U, cak, subj=100 + n, iss=100 + n, ca=CA_TRUE, ku=r.choice([4, 6]), pl=r.choice([-1, -1, n - 1, n, 4]))
            if ski: a["skl"], a["skv"], a["akl"], a["akv"] = 20, 50 + n, 20, 50 + n
            right = r.randrange(nanch)
            for j in range(nanch):
                if j == right: anchors.append(a); continue
                kk = self.pick_key()
                anchors.append(node(U, self.ca_of_key[kk], subj=200 + j, iss=200 + j, ca=CA_TRUE, ku=6, skl=20, skv=90 + j, akl=20, akv=90 + j))
        else:
            # chain-only call: let the top be a genuine self-signed root most of the time
            if r.random() < 0.7:
                top = chain[-1]
                kk = K[n] if n > 1 else self.pick_key()
                cak = self.ca_of_key[kk] if n == 1 else None
                if n == 1:
                    top["b"] = cak; top["alg"] = U.alg[cak]; top["k"] = -1
                else:
                    # top must carry K[n-1] and be signed by it
                    top["b"] = self.ca_of_key[K[n - 1]]; top["alg"] = U.alg[top["b"]]; top["k"] = -1
                top["iss"] = top["subj"]; top["ca"] = CA_TRUE; top["ku"] = 6
                if ski: top["akl"], top["akv"] = top["skl"], top["skv"]
        return chain, anchors, right

    def other_body(self, same_siglen_as=None):
        c = [i for i in range(len(TABLE)) if self.U.ok[i] and (same_siglen_as is None or self.U.siglen[i] == self.U.siglen[same_siglen_as])]
        return self.r.choice(c)

    def mutate(self, rv, chain, anchors):
        """one targeted change; returns rv"""
        U, r = self.U, self.r
        alln = chain + anchors
        nd = r.choice(alln)
        other = r.choice(alln)
        m = r.randrange(30)
        if m == 0: nd["co"] = 1
        elif m == 1: nd["ss"] = other["b"] if other["ss"] < 0 else other["ss"]
        elif m == 2: nd["ss"] = self.other_body(nd["b"])
        elif m == 3:
            if not U.nohash[nd["b"]] and not U.nohash[tbs_of(other)]: nd["hs"] = tbs_of(other)
        elif m == 4:
            if not U.nohash[nd["b"]] and not U.nohash[tbs_of(other)]:
                nd["hs"] = tbs_of(other); nd["ss"] = (other["b"] if other["ss"] < 0 else other["ss"]); nd["co"] = other["co"]
        elif m == 5: nd["k"] = self.ca_of_key[self.pick_key()]
        elif m == 6: nd["k"] = r.choice([i for i in self.cas if U.siglen[i] == U.siglen[nd["b"]]] or self.cas)
        elif m == 7:
            # another RSA algorithm on a PKCS#1 v1.5 signed body (ECDSA verification does not look at the OID)
            if U.pkcs1[tbs_of(nd)] and U.pkcs1[nd["b"]]:
                nd["alg"] = r.choice(sorted(set(U.alg[i] for i in range(len(TABLE)) if U.ok[i] and U.pkcs1[i])) + [U.alg[nd["b"]] + 1])
        elif m == 8: nd["iss"] = r.choice([other["subj"], other["iss"], 999, nd["subj"]])
        elif m == 9: nd["subj"] = r.choice([other["subj"], other["iss"], 998])
        elif m == 10: nd["ca"] = r.choice([0, 127, 255, 1])
        elif m == 11: nd["ver"] = r.choice([0, 1, 2, 3])
        elif m == 12: nd["pl"] = r.choice([-1, 0, 0, 1, 2, 3, -2])
        elif m == 13: nd["ku"] = r.choice([0, 2, 0x80, 0xE0, 4, 6, 0x8000])
        elif m == 14: nd["ku"] = 0; nd["nb"] = r.choice([0, 1, 2, 4])
        elif m == 15: chain[0]["crit"] = 1; chain[0]["eku"] = r.choice([0, 1, 8, 16, 2, 4, 6, 9])
        elif m == 16: nd["akl"], nd["akv"] = r.choice([(0, 0), (20, 77), (8, nd["akv"]), (20, other["skv"])])
        elif m == 17: nd["skl"], nd["skv"] = r.choice([(0, 0), (20, 78), (8, nd["skv"]), (20, other["akv"])])
        elif m == 18: nd["fl0"] = r.choice([8, 8, 1, 2, 4, 16, 9])
        elif m == 19: rv = 1; nd["na"] = r.choice([1, 1, 2])
        elif m == 20: rv = 1; nd["nb"] = r.choice([3, 3, 4, 2, 1])
        elif m == 21: rv = 1
        elif m == 22: pass                   # (was: injected CRL verdict; revocation now comes from real CRLs, c03crl.gen_cache)
        elif m == 23: nd["st0"] = r.choice([1, 1, -34, -37, -33, 5])
        elif m == 24 and len(chain) < 6:
            # a certificate repeated in the chain (with or without a consistent issuer name)
            i = r.randrange(len(chain)); cp = dict(chain[i])
            if r.random() < 0.5: cp["iss"] = r.choice([cp["subj"], 997])
            chain.insert(i + 1, cp)
        elif m == 25 and anchors and len(chain) < 6:
            # the peer also sends (a copy of) the trust anchor
            a = r.choice(anchors); cp = dict(a); chain.append(cp)
            if r.random() < 0.3:
                # ... and the application's copy differs in the signature field only: not the same certificate for the path-length rule
                if r.random() < 0.5: a["co"] = 1
                else: a["ss"] = self.other_body(a["b"])
        elif m == 26 and anchors:
            # the application trusts the chain's top certificate directly (intermediate as root)
            cp = dict(chain[-1]); cp["st0"] = 0
            if r.random() < 0.5: cp["ca"] = CA_TRUE
            anchors.insert(r.randrange(len(anchors) + 1), cp)
        elif m == 27 and anchors and len(anchors) < 4:
            # decoy: same name as an anchor, another key (same key size when possible), placed before it
            j = r.randrange(len(anchors)); cp = dict(anchors[j])
            cp["k"] = r.choice([i for i in self.cas if U.siglen[i] == U.siglen[cp["b"]] and U.key_id[i] != U.key_id[cp["b"]]] or self.cas)
            anchors.insert(j if r.random() < 0.8 else j + 1, cp)
        elif m == 28 and anchors:
            # the known attack: signature bytes of a trust anchor grafted onto a certificate with a foreign issuer name
            a = r.choice(anchors); t = r.choice(chain)
            t["ss"] = a["b"] if a["ss"] < 0 else a["ss"]; t["co"] = a["co"]
            if r.random() < 0.8: t["iss"] = 996
            if r.random() < 0.3 and not U.nohash[t["b"]] and not U.nohash[tbs_of(a)]: t["hs"] = tbs_of(a); t["co"] = r.choice([0, 1])
        elif m == 29 and anchors:
            anchors.pop(r.randrange(len(anchors)))
        return rv

    def case(self):
        r = self.r
        n = r.choice([1, 1, 2, 2, 3, 3, 4, 5])
        na = r.choice([0, 1, 1, 1, 2, 2, 3])
        chain, anchors, _ = self.good(n, na)
        rv = 1 if r.random() < 0.2 else 0
        for _ in range(r.choice([0, 0, 1, 1, 1, 2, 2, 3])):
            rv = self.mutate(rv, chain, anchors)
        return rv, chain, anchors


def single_field_sweep(U, G, r, nbases):
    """every single-field change (values from the interesting sets) of a few genuine chains"""
    vals = dict(co=[1], ca=[0, 127], ver=[0, 1, 3], pl=[0, 1, -1], ku=[0, 2, 4, 0xE0], fl0=[8, 1], st0=[1, -34],
                akl=[0, 8], akv=[77], skl=[0, 8], skv=[78], nb=[1, 2, 3, 4], na=[1, 2], iss=[999], subj=[998], crit=[1], eku=[0, 8])
    out = []
    for _ in range(nbases):
        n = r.choice([1, 2, 3]); na = r.choice([1, 2])
        chain, anchors, _ = G.good(n, na)
        for rv in (0, 1):
            out.append((rv, [dict(x) for x in chain], [dict(x) for x in anchors]))
            for idx in range(len(chain) + len(anchors)):
                for f, vs in vals.items():
                    for v in vs:
                        c2 = [dict(x) for x in chain]; a2 = [dict(x) for x in anchors]
                        (c2 + a2)[idx][f] = v
                        out.append((rv, c2, a2))
    return out


# ---------------------------------------------------------------- parse-gate stream
OID_RSA = {"sha256": "2a864886f70d01010b", "sha384": "2a864886f70d01010c", "sha512": "2a864886f70d01010d", "sha1": "2a864886f70d010105",
           "md5": "2a864886f70d010104", "md2": "2a864886f70d010102", "sha224": "2a864886f70d01010e"}
OID_EC = {"sha256": "2a8648ce3d040302", "sha384": "2a8648ce3d040303", "sha512": "2a8648ce3d040304", "sha1": "2a8648ce3d0401", "sha224": "2a8648ce3d040301"}
CONST_OF = {("rsa", "sha256"): "n_OID_SHA256_RSA_SIG", ("rsa", "sha384"): "n_OID_SHA384_RSA_SIG", ("rsa", "sha512"): "n_OID_SHA512_RSA_SIG",
            ("rsa", "sha1"): "n_OID_SHA1_RSA_SIG", ("rsa", "md5"): "n_OID_MD5_RSA_SIG", ("rsa", "md2"): "n_OID_MD2_RSA_SIG", ("rsa", "sha224"): "n_OID_SHA224_RSA_SIG",
            ("ec", "sha256"): "n_OID_SHA256_ECDSA_SIG", ("ec", "sha384"): "n_OID_SHA384_ECDSA_SIG", ("ec", "sha512"): "n_OID_SHA512_ECDSA_SIG",
            ("ec", "sha1"): "n_OID_SHA1_ECDSA_SIG", ("ec", "sha224"): "n_OID_SHA224_ECDSA_SIG"}
CRIT_OCTETS = [0xff, 0x01, 0x80, 0x7f, 0xfe, 0x00]
NAME_CONSTRAINTS = bytes.fromhex("300ba009300782056" + "12e636f6d")      # permittedSubtrees: dNSName a.com
UNHANDLED_EXT = [bytes([0x55, 0x1d, 99]), bytes([0x55, 0x1d, 54]), bytes([0x55, 0x1d, 9]), bytes([0x2b, 6, 1, 4, 1, 0x82, 0x37, 99])]
PIN_DATES = [(2010, 6, 15), (2017, 3, 15), (2017, 3, 16), (2017, 3, 17), (2017, 3, 18), (2020, 6, 15), (2027, 3, 16), (2027, 3, 17), (2027, 3, 18), (2027, 3, 19), (2030, 6, 15)]

def alg_kind(algseq):
    oid = kids(algseq)[0][1].hex()
    for fam, tbl in (("rsa", OID_RSA), ("ec", OID_EC)):
        for h, o in tbl.items():
            if o == oid: return fam, h
    return None, None

def mk_alg(fam, h):
    oid = bytes.fromhex((OID_RSA if fam == "rsa" else OID_EC)[h])
    return enc(6, oid) + (b"\x05\x00" if fam == "rsa" else b"")

def ps_cases(repo, U, r, consts, budget):
    srcs = [(n, d) for n, d in zip(U.names, U.d)] + [(n, Der(load_der(repo, n))) for n in SHA1_CERTS]
    srcs = [(n, d) for n, d in srcs if alg_kind(d.alg_in)[0]]            # PKCS#1 v1.5 and ECDSA certificates (PSS keeps its parameters)
    out = []
    prio = []             # always kept (not subject to the shuffle / budget cut)
    def emit(d, date=(2020, 6, 15), **kw):
        der = d.rebuild(**kw)
        fam_i, h_i = alg_kind(kw.get("alg_in", d.alg_in)); fam_o, h_o = alg_kind(kw.get("alg_out", d.alg_out))
        ver = kw.get("ver", d.ver)
        subj, iss = kw.get("subject", d.subject), kw.get("issuer", d.issuer)
        cs, ci = Der.cn(subj) or b"", Der.cn(iss) or b""
        exts = kw.get("exts", d.exts)
        known = {bytes([0x55, 0x1d, x]) for x in (35, 14, 15, 17, 18, 19, 37, 31)} | {bytes.fromhex("2b06010505070101")}
        # critical = the BOOLEAN is present and its content octet is non-zero (BER: any non-zero octet is TRUE; the parser says so
        # itself for basicConstraints cA, OpenSSL reads it the same way); a critical nameConstraints is refused as unsupported too
        def is_crit(c): return (c is True) or (c is not False and int(c) != 0)
        unk = any(is_crit(c) and (o not in known or o == bytes([0x55, 0x1d, 30])) for o, c, _ in exts)
        (t1, nb), (t2, na) = kids(d.validity)
        now = calendar.timegm((date[0], date[1], date[2], 12, 0, 0, 0, 0, 0))
        ids = {}
        desc = [ver, consts[CONST_OF[(fam_i, h_i)]], consts[CONST_OF[(fam_o, h_o)]], len(cs), 1, len(ci), (1 if cs == ci else 2), 1 if unk else 0,
                now, asn_time(t1, nb), asn_time(t2, na)]
        out.append("ps %04d%02d%02d %s %s" % (date[0], date[1], date[2], der.hex(), " ".join(str(x) for x in desc)))
    for name, d in srcs:
        fam, h = alg_kind(d.alg_in)
        emit(d)
        for dt in PIN_DATES: emit(d, date=dt)
        for v in (0, 1, 3): emit(d, ver=v)
        for h2 in (OID_RSA if fam == "rsa" else OID_EC):
            emit(d, alg_out=mk_alg(fam, h2))                            # outer algorithm differs from the signed one
            emit(d, alg_in=mk_alg(fam, h2), alg_out=mk_alg(fam, h2))    # both say h2 (the signature itself is not looked at by the parser)
        # SHA-1 rule: subject / issuer common names equal, same length but different, different lengths
        cs, ci = Der.cn(d.subject), Der.cn(d.issuer)
        if cs and ci:
            variants = [Der.set_cn(d.subject, ci), Der.set_cn(d.subject, ci[:-1] + bytes([ci[-1] ^ 1])), Der.set_cn(d.subject, ci + b"x"), Der.set_cn(d.subject, ci[:-1])]
            for sv in variants:
                emit(d, subject=sv)
                emit(d, subject=sv, alg_in=mk_alg(fam, "sha1"), alg_out=mk_alg(fam, "sha1"))
        # extensions: an unhandled one, critical or not; a handled one losing / gaining criticality
        for o in UNHANDLED_EXT:
            for crit in (False, True):
                emit(d, exts=d.exts + [[o, crit, b"\x04\x02\x01\x02"]])
        # the `critical` BOOLEAN in every spelling of TRUE (and explicit FALSE as the control): an unrecognised extension,
        # nameConstraints (refused when critical), and a handled extension (basicConstraints / keyUsage keep parsing)
        for cb in CRIT_OCTETS:
            prio_mark = len(out)
            emit(d, exts=d.exts + [[UNHANDLED_EXT[0], cb, b"\x04\x02\x01\x02"]])
            emit(d, exts=d.exts + [[bytes([0x55, 0x1d, 30]), cb, NAME_CONSTRAINTS]])
            if d.exts:
                e2 = [list(x) for x in d.exts]; e2[0][1] = cb
                if e2[0][0] != bytes([0x55, 0x1d, 30]): emit(d, exts=e2)
            prio.extend(out[prio_mark:]); del out[prio_mark:]
        if d.exts:
            i = r.randrange(len(d.exts))
            e2 = [list(x) for x in d.exts]; e2[i][1] = not e2[i][1]
            if e2[i][0] not in (bytes([0x55, 0x1d, 30]),): emit(d, exts=e2)
    r.shuffle(out)
    r.shuffle(prio)
    return prio[:max(400, budget // 3)] + out[:budget]


# ---------------------------------------------------------------- run
POOL = [None]

def c03pki_crl(der):
    import c03pki
    return c03pki.Crl(der)

def corpus_cases():
    out = []
    p = os.path.join(vlib.VERIF, "corpus", "C03")
    if os.path.isdir(p):
        for f in sorted(os.listdir(p)):
            if not f.endswith(".case"): continue
            for l in open(os.path.join(p, f)):
                l = l.strip()
                if l and not l.startswith("#"): out.append(l)
    return out

def accepted(out):
    m = re.match(r"rc=(-?\d+) found=(\S+) st=(\S+) fl=(\S+)( |$)", out)
    if not m: return None
    return int(m.group(1)) == 0 and all(int(x) == PASS for x in m.group(3).split(","))

def why_no_path(O, rv, chain, top_issuer):
    """which rule the path the implementation claims (chain up to the issuer it reports) breaks"""
    p = chain + ([top_issuer] if top_issuer is not None else [])
    for i in range(len(p) - 1):
        sc, ic = p[i], p[i + 1]
        if not O.step(sc, ic):
            if O.CO.revoked_in(O.K, sc): return "revoked:" + c03crl.shape(sc["serial"])
            if sc["iss"] != ic["subj"] and sig_of(sc) == sig_of(ic): return "equal-signature-bytes-foreign-issuer"
            if sc["iss"] != ic["subj"] and tbs_of(sc) == tbs_of(ic): return "equal-digest-foreign-issuer"
            if sc["iss"] != ic["subj"]: return "foreign-issuer"
            if not O.sig_true(sc, ic): return "bad-signature"
            return "issuer-not-entitled"
        if not O.pathlen_ok(sc, ic, i):
            return "pathlen" + ("-nohash" if O.U.nohash[tbs_of(sc)] and O.U.nohash[tbs_of(ic)] else "")
    for c in chain:
        if not O.valid_now(rv, c): return "validity"
    return "no-such-anchor"

def found_anchor(out, anchors):
    m = re.search(r"found=a(\d+)", out)
    return anchors[int(m.group(1))] if m and int(m.group(1)) < len(anchors) else None

def setup(ck):
    R = ck.build_repo()
    U = Universe(R)
    h = ck.cc("h_chain.c", wraps=WRAPS)
    certlines = ["cert %d %s" % (i, d.hex()) for i, d in enumerate(U.ders)]
    rc, out, err = ck.run_lines(h, certlines)
    for i, l in enumerate(out[:len(certlines)]):
        m = re.match(r"cert %d ok alg=(\d+)" % i, l)
        if m: U.ok[i] = True; U.alg[i] = int(m.group(1))
    return R, U, h, certlines

def spec_check(ck, U, O, line, out, model=None):
    """Impl vs Spec on one vc / vk line"""
    rv, chain, anchors, ktoks = parse_vc(U, line)
    acc = accepted(out)
    if acc is None or line[:3] not in ("vc ", "vk "): return
    if any(n["ver"] != 2 for n in chain + anchors):
        ck.count("spec:outside-parse-gate"); return
    rep = {"harness": "h_chain", "case": line, "observed": out, "model": model}
    if ktoks and POOL[0] is not None:
        rep["crl_lines"] = ["crl %d %s" % (i, POOL[0].entries[i][0].hex()) for i in sorted(set([k["ci"] for k in ktoks] + [k["ss"] for k in ktoks if k["ss"] >= 0])) if i < len(POOL[0].entries)]
    O.K = O.CO.load(ktoks, chain + anchors)
    if ktoks:
        if any(O.CO.encoding_matters(O.K, c) for c in chain):
            # a CRL entry and a serial number that are the same NUMBER in different octets: one of them is not DER
            # (assumption of ChainSpec.revoked_in); the library compares octets - correspondence only
            ck.count("crl:non-DER-serial-involved"); return
        ck.count("crl:cache-" + ("tidy" if O.CO.tidy(O.K) else "untidy"))
        m = re.search(r" rl=(\S+)", out)
        for x in (m.group(1).split(",") if m and m.group(1) != "-" else []): ck.count("crl:status-%s" % x)
        if acc and line.startswith("vk "):
            # the literal clause beyond the cache rule (open findings): a certificate on a signed link of the accepted path is listed in an
            # authenticated loaded CRL of its issuer name that the cache passes over
            path = chain + ([found_anchor(out, anchors)] if found_anchor(out, anchors) is not None else [])
            for i in range(len(path) - 1):
                ex = O.CO.literal_exception(O.K, path[i]) if path[i]["iss"] == path[i + 1]["subj"] else None
                if ex:
                    ck.count("crl:accepted-" + ex)
                    ck.spec_violation("revoked-accepted:%s:graph" % ex,
                                      {"shadowed": "a certificate listed in an authenticated loaded CRL is accepted: an earlier cached CRL with the same issuer name shadows it (only the first CRL per issuer name is consulted)",
                                       "stale": "a certificate listed in an authenticated loaded CRL is accepted: the CRL is past nextUpdate, CRL_CHECK_CRL_EXPIRED is reported and the revocation is not applied"}[ex],
                                      dict(rep, expected_by_spec="reject (literal clause: no certificate revoked by an authenticated CRL the application loaded)"))
                    break
    if not anchors:
        # chain-only call: success must mean an internally signed chain ending in a genuinely self-signed certificate
        ok = O.self_contained(chain) and all(O.valid_now(rv, c) for c in chain)
        ck.count("spec:noanchor-accept" if acc else "spec:noanchor-reject")
        if acc and not ok:
            top = chain[-1]
            why = "top-not-self-signed" if not (top["iss"] == top["subj"] and O.sig_true(top, top)) else why_no_path(O, rv, chain, None)
            ck.spec_violation("accept-without-path:noanchor:" + why,
                              "validation without trust anchors reports success for a chain that is not signed up to a self-signed certificate (%s)" % why,
                              dict(rep, expected_by_spec="reject"))
        return
    g = O.genuine(rv, chain, anchors)
    fresh = chain[0]["st0"] == 0
    ck.count("spec:" + ("accept" if acc else "reject") + ("+path" if g else "-path"))
    if acc and not g and fresh:
        why = why_no_path(O, rv, chain, found_anchor(out, anchors))
        ck.spec_violation("accept-without-path:" + why,
                          "matrixValidateCertsExt reports success (rc 0, every authStatus PASS) although no genuinely signed, rule-abiding path leads from the leaf to any trust anchor (%s)" % why,
                          dict(rep, expected_by_spec="reject"))
    if not acc:
        j = O.supported(rv, chain, anchors)
        if j is not None:
            ck.count("spec:supported-path")
            m = re.match(r"rc=(-?\d+) found=(\S+) st=(\S+)", out)
            bad = [x for x in m.group(3).split(",") if x != "1"]
            ck.spec_violation("reject-genuine:rc=%s:st=%s" % (m.group(1), bad[0] if bad else "1"),
                              "matrixValidateCertsExt rejects a chain that is genuinely signed up to trust anchor %d and uses only supported features" % j,
                              dict(rep, expected_by_spec="accept"))
    elif O.supported(rv, chain, anchors) is not None:
        ck.count("spec:supported-path")


def run(ck):
    ck.trusted += ["Coq 8.16.1 kernel (vm_compute only in witnesses / Examples)",
                   "tools/srcgen/consts.c + consts_chain.c translators (C compiler evaluates header constants)",
                   "extraction (ExtrOcamlBasic only) + ocaml/drv_c03.ml + harness/h_chain.c correspondence glue",
                   "modelled, not verified: psX509AuthenticateCert, matrixValidateCertsExt (expectedName = NULL), checkPathLenConstraint, the parse-time gate "
                   "(version / algorithm / SHA-1 rule / unknown critical extension / date flag) are hand-written Gallina (coq/Chain/ChainModel.v) compared with the library on every run",
                   "psVerifySig is the section variable sig_ok; in the runs it is the library's own verification on real testkeys signatures, on the model side the generator's "
                   "ground truth (naming convention of testkeys/readme.txt, cross-checked for RSA PKCS#1 v1.5 by a pure-Python verification of every body/key pair)",
                   "DER -> psX509Cert_t parser beyond the gate rules (C09)",
                   "revocation: crl.c (psCRL_determineRevokedStatus, internalGetCrlForCert, internalCrlIsRevoked, psX509AuthenticateCRL, psCRL_Insert/Update) is hand-written Gallina "
                   "compared with the library on CRLs parsed from DER made by tools/c03pki.py (pure-Python DER + RSA signing with the testkeys CA keys); "
                   "psX509ParseCRL itself is tied by those runs and by the DER-level oracle only"]
    ck.assumptions += ["every certificate reached the validator through psX509ParseCert (v3, no unknown critical extension, enabled algorithm)",
                       "the leaf's authStatus is 0 when validation starts (freshly parsed)",
                       "TBS digest and signature value identify a certificate (collision resistance): a copy of a certificate stands for it",
                       "an extension is critical when its `critical` BOOLEAN is present with a non-zero content octet (BER reading; it is the parser's own reading of "
                       "basicConstraints cA and OpenSSL's reading): FF, 01, 80, 7F, FE all mean TRUE, 00 means FALSE",
                       "revocation: serial numbers are DER (minimal INTEGER octets) in certificates and CRL entries; the literal clause (no authenticated loaded CRL lists the certificate) "
                       "is proved for a tidy cache - one CRL per issuer name, none past nextUpdate (c03_revocation); the two exceptions (c03_revocation_shadowed_refuted, c03_revocation_stale_refuted) "
                       "are listed open findings C03-crl-shadowed / C03-crl-stale (signatures revoked-accepted:shadowed:* / revoked-accepted:stale:*), emitted whenever a run meets them; "
                       "the CRL of the top certificate's issuer must have been authenticated by the application (only chain parents authenticate on the fly)",
                       "converse direction: supported features as in ChainSpec.supported_path (CA keyUsage present or pre-RFC3280, key identifiers agree, "
                       "critical EKU allows TLS, the first trust anchor that answers for the top certificate is the genuine one)"]
    R, U, h, certlines = setup(ck)
    ck.regen([("consts.sh",)])
    ck.coq_properties()
    drv = ck.ocaml_driver("drv_c03", extract_vo="Extract/Extract_C03.vo", gen_ml=["m_c03"])
    if drv is None:
        return
    consts = gen_consts()
    nchk, bad = U.cross_check()
    ck.cov["ground_truth_rsa_pairs_cross_checked"] = nchk
    if bad:
        ck.violation("generator ground truth (who signed what) disagrees with a pure-Python RSA verification: %r" % (bad[:3],),
                     {"stage": "ground-truth", "broken": "correspondence ground truth"}, found_input=False)
    r = ck.rng("gen")
    G = Gen(U, r)
    O = Oracle(U)
    corp = corpus_cases()
    corpus_crl = [l for l in corp if l.startswith("crl ")]          # fixed CRL table entries 90.. used by corpus lines
    corpus_rv = [l for l in corp if l.startswith("rv ")]
    corpus_nonext = [l for l in corp if l.startswith(("vk ", "ak ")) and any(x.split(":")[5] == "3" for x in l.split()[-int(l.split()[4 if l[0] == "v" else 3]):])]
    cases = [l for l in corp if l not in corpus_crl and l not in corpus_rv and l not in corpus_nonext]
    ncorp = len(cases)
    seen = set(cases)
    def add(l):
        if l not in seen: seen.add(l); cases.append(l)
    for rv, c, a in single_field_sweep(U, G, ck.rng("sweep"), ck.budget(2, 50)):
        add(vc_line(U, rv, c, a))
    n = ck.budget(8000, 200000)
    while len(cases) < n + ncorp:
        rv, c, a = G.case()
        add(vc_line(U, rv, c, a))
        if r.random() < 0.12: add(ac_line(U, c, None) if (not a or r.random() < 0.3) else ac_line(U, [c[-1]], r.choice(a)))
    # revocation, graph level: the same graphs with serial numbers and a CRL cache (CRLs made and signed here)
    keys = c03crl.Keys(R)
    P = c03crl.CrlPool(U, keys, ck.rng("crlpool"), consts["n_OID_SHA256_RSA_SIG"])
    crllines = P.lines() + corpus_crl
    POOL[0] = P
    rk = ck.rng("crl")
    nk = ck.budget(3500, 60000)
    kcases = []
    while len(kcases) < nk:
        nch = rk.choice([1, 1, 2, 2, 3, 4]); nan = rk.choice([1, 1, 1, 2, 3, 0])
        c, a, right = G.good(nch, nan)
        rvk = 1 if rk.random() < 0.1 else 0
        kt = c03crl.gen_cache(G, P, rk, c, a, right)
        if rk.random() < 0.25: rvk = G.mutate(rvk, c, a)
        for n_ in c + a:
            if n_.get("serial") is None: n_["serial"] = rk.choice(c03crl.SERIALS)
        kt = [k_ for k_ in kt if k_["ap"] < len(c) + len(a)]
        if rk.random() < 0.9: l = vk_line(U, P, rvk, c, a, kt)
        else:
            iss_ = a[0] if a and rk.random() < 0.6 else None
            l = ak_line(U, P, c, iss_, [dict(k_, ap=(k_["ap"] if k_["ap"] < len(c) + (1 if iss_ else 0) else -1)) for k_ in kt])
        if l not in seen: seen.add(l); kcases.append(l)
    # a CRL without nextUpdate (nu=3) crashed the unrepaired library: own batch, so that a crash there is reported for what it is
    ncases = list(corpus_nonext)
    for l in kcases[:ck.budget(150, 2000)]:
        t_ = l.split(); nkk = int(t_[4 if t_[0] == "vk" else 3])
        if nkk:
            toks = t_[-nkk:]; f = toks[0].split(":"); f[5] = "3"; toks[0] = ":".join(f)
            ncases.append(" ".join(t_[:-nkk] + toks))
    cases += kcases
    pcases = ps_cases(R, U, ck.rng("ps"), consts, ck.budget(1500, 100000))
    certlines = certlines + crllines
    t = vlib.time.time()
    rc, impl, err = ck.run_lines(h, certlines + cases + pcases)
    ck.log("harness: %d lines in %.1fs" % (len(cases) + len(pcases), vlib.time.time() - t))
    rc2, model, err2 = ck.run_lines(drv, certlines + cases + pcases)
    k = len(certlines)
    impl_c, model_c = impl[k:k + len(cases)], model[k:k + len(cases)]
    impl_p, model_p = impl[k + len(cases):], model[k + len(cases):]
    ck.rules.append("revocation: the same graphs with serial numbers of every shape (1 octet, zero, top bit set = leading 00, negative, 20 and 40 octets, non-minimal, empty, near misses of "
                    "listed serials) and 0-3 cached CRLs parsed from DER signed here with the testkeys CA keys (right / other signer, tampered signature, entry and CRL extensions, duplicates), "
                    "flags and loading varied (authenticated or not, psX509AuthenticateCRL by the issuer or by another certificate, expired, nextUpdate past / unparsable / absent, Insert or Update, "
                    "same issuer name twice); DER level: re-issued certificates and CRLs through the public API only")
    ck.rules.append("structure-aware: a genuinely signed rule-abiding chain (length 1..5, anchor sets 0..3, real RSA-1024..4096 / P-192..521 / PSS bodies and keys mixed per node) "
                    "plus 0-3 of 30 targeted changes (signature corrupted / copied from another certificate / from a trust anchor / TBS digest copied, wrong key, wrong algorithm, names, CA flag, "
                    "version, pathLen, keyUsage, issue date, EKU, key identifiers, date flags and re-validation, CRL verdict, stale authStatus, repeated certificate, anchor sent by the peer, "
                    "intermediate trusted as root, same-name decoy anchor, anchor removed); all single-field changes of base chains; corpus witnesses first; "
                    "parse gate: DER rebuilt with version / inner+outer algorithm / commonName / extension / calendar changes; a case is non-trivial when the first link's signature is checked")
    ck.correspond("validate/auth_api(model) vs matrixValidateCertsExt/psX509AuthenticateCert(impl)", cases, impl_c, model_c,
                  nontrivial=lambda c, o: o.startswith("rc=") and not re.search(r" st=-3[23]\b", o))   # the first link got as far as its signature
    ck.correspond("parse_gate/date_flag(model) vs psX509ParseCert(impl)", pcases, impl_p, model_p)
    for i, c in enumerate(cases):
        if i < len(impl_c):
            ck.count(c[:2] + ":" + (impl_c[i].split()[0] if impl_c[i] else "?"))
            spec_check(ck, U, O, c, impl_c[i], model_c[i] if i < len(model_c) else None)
    # parse gate against the property directly: a certificate signed with a disabled algorithm (SHA-1 on a non-root, MD5, MD2),
    # of a version other than 3, or carrying an unknown critical extension must not parse
    for i, c in enumerate(pcases):
        if i >= len(impl_p): break
        t_ = c.split(); d = [int(x) for x in t_[3:]]
        ver, ain, aout, csl, cs, cil, ci, unk = d[:8]
        sha1 = ain in (consts["n_OID_SHA1_RSA_SIG"], consts["n_OID_SHA1_ECDSA_SIG"])
        sha2 = ain in [consts[x] for x in ("n_OID_SHA256_RSA_SIG", "n_OID_SHA384_RSA_SIG", "n_OID_SHA512_RSA_SIG", "n_OID_SHA256_ECDSA_SIG", "n_OID_SHA384_ECDSA_SIG", "n_OID_SHA512_ECDSA_SIG")]
        root_by_cn = (csl == cil and cs == ci)
        must_reject = ver != 2 or unk == 1 or ain != aout or not (sha2 or (sha1 and root_by_cn))
        ok = impl_p[i].startswith("parse=ok")
        ck.count("ps:" + ("ok" if ok else "fail"))
        if ok and must_reject:
            why = "sha1-nonroot" if (sha1 and not root_by_cn and ver == 2 and not unk and ain == aout) else "other"
            ck.spec_violation("parse-accepts:" + why, "psX509ParseCert accepts a certificate the configuration does not allow "
                              "(version %d, algorithm %d/%d, unknown critical extension %d, SHA-1 on a certificate whose subject and issuer common names differ: %s)" % (ver, ain, aout, unk, sha1 and not root_by_cn),
                              {"harness": "h_chain", "case": c[:60] + "...", "full_case": c, "observed": impl_p[i], "expected_by_spec": "parse=fail"})
        if not ok and not must_reject:
            ck.spec_violation("parse-rejects-supported", "psX509ParseCert rejects a v3 certificate with a supported algorithm and no unknown critical extension",
                              {"harness": "h_chain", "case": c[:60] + "...", "full_case": c, "observed": impl_p[i], "expected_by_spec": "parse=ok"})
    # same parsed structures validated twice (signature buffer must not be consumed by verification)
    tw = ["tw %d %d" % (i, U.signer_cert[i]) for i in range(len(TABLE)) if U.ok[i] and U.role[i] == "leaf"]
    rc3, tout, _ = ck.run_lines(h, certlines + tw)
    for l, o in zip(tw, tout[k:]):
        m = re.match(r"first=(-?\d+)/(-?\d+) second=(-?\d+)/(-?\d+) sigbuf_changed=(\d)", o)
        ck.count("tw:" + ("same" if m and m.group(1, 2) == m.group(3, 4) else "differs"))
        if not m or m.group(1, 2) != ("0", "1") or m.group(3, 4) != ("0", "1"):
            ck.spec_violation("revalidate-same-struct", "validating the same parsed certificate a second time gives a different verdict "
                              "(psVerifySig consumes the const signature buffer)", {"harness": "h_chain", "case": l, "cert": U.names[int(l.split()[1])], "observed": o,
                                                                                   "expected_by_spec": "first=0/1 second=0/1"})
    # CRLs without nextUpdate (model: never stale)
    if ncases:
        rcn, nimpl, _ = ck.run_lines(h, certlines + ncases)
        _, nmodel, _ = ck.run_lines(drv, certlines + ncases)
        if rcn != 0 or len(nimpl) != len(certlines) + len(ncases):
            ck.spec_violation("crl-without-nextupdate-crash", "the harness died (rc %d) while validating against a cached CRL that has no nextUpdate field" % rcn,
                              {"harness": "h_chain", "case": ncases[min(len(ncases) - 1, max(0, len(nimpl) - len(certlines)))], "observed": "process exit %d after %d of %d cases" % (rcn, max(0, len(nimpl) - len(certlines)), len(ncases)),
                               "expected_by_spec": "a verdict"})
        else:
            ck.correspond("validate(model) vs matrixValidateCertsExt(impl), cached CRL without nextUpdate", ncases, nimpl[len(certlines):], nmodel[len(certlines):])
            for c, o, mo in zip(ncases, nimpl[len(certlines):], nmodel[len(certlines):]): spec_check(ck, U, O, c, o, mo)
    # revocation, DER level: nothing overridden, public API only, independent oracle on the DER
    W = c03crl.DerWorld(R, keys)
    DO = c03crl.DerOracle()
    dcases = [(l, c03crl.meta_from_rv_line(l)) for l in corpus_rv] + c03crl.der_cases(W, ck.rng("der"), ck.budget(1200, 20000))
    for batch, name in (([d for d in dcases if not d[1]["has_absent"]], "rv"), ([d for d in dcases if d[1]["has_absent"]], "rv-no-nextupdate")):
        if not batch: continue
        rcd, dout, _ = ck.run_lines(h, [l for l, _ in batch])
        ck.cov["evaluations"] += len(batch)
        if rcd != 0 or len(dout) != len(batch):
            ck.spec_violation("crl-without-nextupdate-crash" if name != "rv" else "der-level-crash",
                              "the harness died (rc %d) in the DER-level revocation batch '%s'" % (rcd, name),
                              {"harness": "h_chain", "case": batch[min(len(dout), len(batch) - 1)][0][:300] + "...", "full_case": batch[min(len(dout), len(batch) - 1)][0],
                               "observed": "process exit %d after %d of %d cases" % (rcd, len(dout), len(batch)), "expected_by_spec": "a verdict"})
            continue
        for (l, meta), o in zip(batch, dout):
            m = re.match(r"rc=(-?\d+) st=(\S+) rs=(\S+) au=(\S+)$", o)
            if not m:
                ck.spec_violation("der-level-unexpected", "unexpected answer in the DER-level revocation batch", {"harness": "h_chain", "case": l[:300] + "...", "full_case": l, "observed": o}); continue
            acc = int(m.group(1)) == 0 and all(x == "1" for x in m.group(2).split(","))
            v = DO.verdict(meta)
            ck.add_distinct("rv" + l[:0] + str(hash(l)))
            ck.count("rv:" + ("accept" if acc else "reject") + ("/revoked" if v["revoked"] else "/clear") + ("" if v["tidy"] else "/untidy") + ("/" + v["exception"] if v["exception"] else ""))
            if v["nonminimal"]:
                ck.count("rv:non-DER-serial-involved"); continue
            rep = {"harness": "h_chain", "case": l[:300] + "...", "full_case": l, "observed": o,
                   "chain_serials": [c.serial.hex() for c in meta["chain"]], "crls": [[s.hex() for s in c03pki_crl(d).serials] + [by, mode] for d, by, mode in meta["crls"]]}
            if acc and not v["revoked"] and v["exception"]:
                ck.count("rv:accepted-" + v["exception"])
                ck.spec_violation("revoked-accepted:%s:der" % v["exception"],
                                  {"shadowed": "matrixValidateCerts accepts a certificate listed in an authenticated loaded CRL: an earlier cached CRL with the same issuer name shadows it",
                                   "stale": "matrixValidateCerts accepts a certificate listed in an authenticated loaded CRL: the CRL is past nextUpdate (status 11 reported, revocation not applied)"}[v["exception"]],
                                  dict(rep, expected_by_spec="reject (literal clause)"))
                continue
            if acc and v["revoked"]:
                ck.spec_violation("revoked-accepted:" + "+".join(sorted(set(v["shapes"]))),
                                  "matrixValidateCerts accepts a chain although an authenticated CRL the application loaded under the issuer's name lists the certificate's serial number",
                                  dict(rep, expected_by_spec="reject"))
            if not acc and not v["revoked"]:
                ck.spec_violation("unrevoked-rejected:rc=%s" % m.group(1),
                                  "matrixValidateCerts rejects a genuinely signed chain none of whose certificates is listed in an authenticated CRL",
                                  dict(rep, expected_by_spec="accept"))
    # DER level: the `critical` BOOLEAN spelled with every non-zero octet (and explicit FALSE), leaf and intermediate
    xc = c03crl.crit_cases(W)
    rcx, xout, _ = ck.run_lines(h, [l for l, _, _, _ in xc])
    ck.cov["evaluations"] += len(xc)
    for (l, kind, cb, bad), o in zip(xc, xout + ["?"] * len(xc)):
        m = re.match(r"rc=(-?\d+) st=(\S+) ", o)
        acc = bool(m) and int(m.group(1)) == 0 and all(x == "1" for x in m.group(2).split(","))
        ck.count("critical-octet:%s:%s" % ("accepted" if acc else "refused", "true" if bad else "false"))
        ck.add_distinct("xc" + kind + str(cb))
        rep = {"harness": "h_chain", "case": l[:200] + "...", "full_case": l, "observed": o, "extension": kind, "critical_octet": "%02X" % cb}
        if acc and bad:
            ck.spec_violation("critical-extension-accepted:%s:%02X" % (kind, cb),
                              "a chain is accepted although a certificate carries %s marked critical (BOOLEAN content octet %02X, non-zero = TRUE)" % (kind, cb),
                              dict(rep, expected_by_spec="not accepted"))
        if not acc and not bad:
            ck.spec_violation("noncritical-extension-refused:%s" % kind,
                              "a genuinely signed chain is refused because of an extension explicitly marked NOT critical (%s, BOOLEAN 00)" % kind,
                              dict(rep, expected_by_spec="accepted"))
    # public API, untouched certificates: the order of two same-named trust anchors must not decide
    ix = U.names.index
    pv = ["pv %d %d %d" % (ix("RSA/2048_RSA"), ix("RSA/2048_RSA_CA"), ix("@decoy_rsa2048_ca")),
          "pv %d %d %d" % (ix("RSA/2048_RSA"), ix("@decoy_rsa2048_ca"), ix("RSA/2048_RSA_CA")),
          "pv %d %d" % (ix("RSA/2048_RSA"), ix("@decoy_rsa2048_ca"))]
    rc4, pout, _ = ck.run_lines(h, certlines + pv)
    pout = pout[k:]
    ck.count("pv:" + "/".join(pout))
    if pout[:2] != ["rc=0 st=1", "rc=0 st=1"] or (len(pout) > 2 and pout[2].startswith("rc=0")):
        ck.spec_violation("anchor-order-decides", "matrixValidateCerts on the untouched testkeys 2048 leaf with trust anchors {2048_RSA_CA, same-named CA with another RSA-2048 key}: "
                          "the verdict depends on the order of the anchors (expected accept / accept / reject for [CA, decoy] / [decoy, CA] / [decoy])",
                          {"harness": "h_chain", "case": pv[1], "cases": pv, "observed": pout, "expected_by_spec": ["rc=0 st=1", "rc=0 st=1", "rc<0"]})
    ck.cov["exhaustive"] = False
    ck.cov["table_certs_parsed"] = sum(U.ok)


def replay(ck, path):
    rp = json.load(open(path))["replay"]
    R, U, h, certlines = setup(ck)
    O = Oracle(U)
    c = rp.get("full_case") or rp["case"]
    certlines = certlines + [l for l in corpus_cases() if l.startswith("crl ")] + rp.get("crl_lines", [])
    rc, out, err = ck.run_lines(h, certlines + [c])
    o = out[len(certlines)] if len(out) > len(certlines) else "?"
    print("case:", c[:300])
    print("  impl:", o)
    if c[:3] in ("vc ", "vk "):
        rv, chain, anchors, ktoks = parse_vc(U, c)
        O.K = O.CO.load(ktoks, chain + anchors)
        if anchors:
            print("  spec: genuine_path=%s supported_anchor=%s -> expected %s" % (O.genuine(rv, chain, anchors), O.supported(rv, chain, anchors),
                  "accept" if O.genuine(rv, chain, anchors) else "reject"))
        else:
            print("  spec (no anchors): self_contained=%s" % O.self_contained(chain))
    else:
        print("  spec:", rp.get("expected_by_spec"))
