"""C13 - big-integer arithmetic (crypto/math/pstm*.c) is exact for all operands, also under aliasing,
or reports an error; never silently a wrong value.

Theorems: coq/Properties/Properties_C13.v (model coq/Big/BigModel.v, spec BigSpec.v, proofs BigProofs.v).
Tie: harness/h_pstm.c drives the pstm_* functions of the freshly built libcrypt_s.a on the same generated
case lines as the extracted model (ocaml/drv_c13.ml).  A second build of the harness (-DH_PSTM_STATIC,
crypto/math/pstm.c of the same scratch tree compiled into the harness) reaches the static functions
pstm_mul_2d / pstm_mod_2d / s_pstm_add.
Search / spec oracle (Impl vs Spec): exact Python integers, independent of the Gallina model.
"""
import json, os, sys
import vlib

DIGIT_BIT = 64          # re-read from coq/Gen/Consts.v in run()
MAXN = 192
W = 1 << DIGIT_BIT

PS_MEM, PS_LIMIT, PS_ARG, PS_FAIL = -8, -9, -6, -1

# ops modelled in Gallina (correspondence impl <-> model); everything else is explored impl-vs-Python only
MODELLED = {"add", "sub", "sub_s", "s_add", "add_d", "sub_d", "mul_d", "mul_2", "div_2", "mul_2d", "mod_2d", "div_2d",
            "lshd", "rshd", "2expt", "cmp", "cmp_mag", "cmp_d", "count_bits", "copy", "abs", "clamp", "zero", "set",
            "mul", "sqr", "read_bin", "to_bin", "mont_setup", "mont_norm", "mont_reduce", "bin_size"}
STATIC_OPS = {"mul_2d", "mod_2d", "s_add"}
EXPLORED_ONLY = ["div", "mod", "mulmod", "exptmod", "invmod"]


# ------------------------------------------------------------------------------------------ operand helpers
def ndig(v):
    v = abs(v)
    return (v.bit_length() + DIGIT_BIT - 1) // DIGIT_BIT

def opnd(v, alloc=None, used=None, negzero=False):
    """operand token: <sign><hex>/<alloc>[/<used>]"""
    n = ndig(v)
    if alloc is None:
        alloc = max(n, 1)
    alloc = max(alloc, n, 1, used or 0)
    s = "%s%x/%d" % ("-" if v < 0 else "+", abs(v), alloc)
    if used is not None and used > n:
        s += "/%d" % used
    return s

def parse_opnd(t):
    """-> (value, alloc, used)"""
    if t == "-":
        return (0, 1, 0)
    f = t.split("/")
    v = int(f[0][1:], 16)
    n = ndig(v)
    alloc = max(int(f[1]), n, 1)
    used = n
    if len(f) > 2:
        used = max(n, int(f[2])); alloc = max(alloc, used)
    return (-v if f[0][0] == "-" else v, alloc, used)

def parse_out(line):
    """result line -> dict: rc, r, and per object (value, alloc, used, z) or '=' (unchanged)"""
    d = {}
    for tok in line.split():
        if "=" not in tok:
            d.setdefault("flags", []).append(tok); continue
        k, v = tok.split("=", 1)
        if k in ("rc", "r", "n", "guard"):
            d[k] = int(v)
        elif k == "rho":
            d[k] = int(v, 16)
        elif k == "out":
            d[k] = b"" if v == "-" else bytes.fromhex(v)
        elif k in "abcd":
            if v == "=":
                d[k] = "="
            else:
                f = v.split("/")
                try:
                    mag = int(f[0][1:], 16)
                    d[k] = (-mag if f[0][0] == "-" else mag, int(f[1]), int(f[2]), int(f[3]), f[0][0])
                except Exception:
                    d[k] = ("BAD", v)
    return d

def parse_alias(s):
    """-> pointer table [0..3] of object index or None"""
    p = [0, 1, 2, 3]
    if s != "-":
        for e in s.split(","):
            x = "abcd".index(e[0])
            p[x] = None if e[2] == "0" else p["abcd".index(e[2])]
    return p


# ------------------------------------------------------------------------------------------ exact oracle
def tdiv(a, b):
    q = abs(a) // abs(b)
    return -q if (a < 0) != (b < 0) else q

def sgn_mag(sign_of, mag):
    return -mag if sign_of < 0 else mag

def egcd_inv(a, m):
    try:
        return pow(a, -1, m)
    except ValueError:
        return None

class Expect:
    """what exact arithmetic demands of a successful call: values of result objects / scalar; which error codes are
    acceptable and when an error is the ONLY acceptable outcome (result not representable)."""
    def __init__(self):
        self.vals = {}          # pointer name -> exact value (after call), compared when rc >= 0
        self.mags = {}          # pointer name -> exact magnitude (sign not specified by the function)
        self.r = None
        self.out = None
        self.rho = None
        self.must_fail = False  # result not representable / documented refusal: success is a violation
        self.may_fail = set()   # acceptable error codes
        self.cong = None        # (modulus, residue, name) congruence-only demand
        self.pre = True         # documented precondition holds (else: skip spec comparison)
        self.inv = None         # (a, m, name): name*a == 1 mod m, |name| < m

def spec(op, alias, K, ops):
    """ops: [(val, alloc, used)]*4 for A,B,C,D.  Returns Expect."""
    P = parse_alias(alias)
    def val(i):                 # value behind pointer i
        return ops[P[i]][0]
    e = Expect()
    lim = W ** MAXN
    def fits(v):
        return abs(v) < lim
    def result(name, v, needs=None):
        # needs: number of digits the function insists on having room for (may be more than the value needs)
        if not fits(v) or (needs is not None and needs > MAXN):
            e.must_fail = not fits(v)
            e.may_fail |= {PS_MEM, PS_LIMIT}
            if needs is not None and needs > MAXN:
                e.may_fail |= {PS_MEM, PS_LIMIT}
        e.vals[name] = v
    k = 0
    if K != "-":
        k = int(K, 0)
    a = val(0)
    b = val(1) if P[1] is not None else None
    ua = ops[P[0]][2] if P[0] is not None else 0
    ub = ops[P[1]][2] if P[1] is not None else 0
    if op in ("add", "s_add"):
        if op == "s_add":
            e.mags["c"] = abs(a) + abs(b)
            if not fits(abs(a) + abs(b)): e.must_fail = True; e.may_fail |= {PS_MEM, PS_LIMIT}
        else:
            result("c", a + b)
    elif op == "sub":
        result("c", a - b)
    elif op == "sub_s":
        if ub > ua: e.must_fail = True; e.may_fail |= {PS_LIMIT}
        elif abs(a) < abs(b): e.pre = False        # documented: ||a|| >= ||b|| ALWAYS
        else: e.mags["c"] = abs(a) - abs(b)
    elif op == "add_d":
        result("c", a + k)
    elif op == "sub_d":
        result("c", a - k)
    elif op == "mul_d":
        result("c", a * k, needs=ua + 1)
    elif op == "mul_2":
        result("c", 2 * a, needs=ua + 1)
    elif op == "div_2":
        e.vals["c"] = sgn_mag(a, abs(a) // 2)
    elif op == "mul_2d":
        result("c", a << k, needs=ua + k // DIGIT_BIT)
    elif op == "mod_2d":
        e.vals["c"] = 0 if k <= 0 else sgn_mag(a, abs(a) % (1 << k))
    elif op == "div_2d":
        e.vals["c"] = a if k <= 0 else sgn_mag(a, abs(a) >> k)
        if P[3] is not None:
            e.vals["d"] = 0 if k <= 0 else sgn_mag(a, abs(a) % (1 << k))
    elif op == "lshd":
        result("a", a * W ** k if k > 0 else a, needs=(ua + k) if k > 0 else None)
    elif op == "rshd":
        e.vals["a"] = sgn_mag(a, abs(a) // W ** k)
    elif op == "2expt":
        if k < 0: e.vals["a"] = 0
        elif k // DIGIT_BIT >= MAXN: e.must_fail = True; e.may_fail |= {PS_LIMIT, PS_MEM}
        else: e.vals["a"] = 1 << k
    elif op == "cmp":
        e.r = (a > b) - (a < b)
    elif op == "cmp_mag":
        e.r = (abs(a) > abs(b)) - (abs(a) < abs(b))
    elif op == "cmp_d":
        e.r = (a > k) - (a < k)
    elif op == "count_bits":
        e.r = abs(a).bit_length()
    elif op == "bin_size":
        e.r = (abs(a).bit_length() + 7) // 8
    elif op == "copy":
        e.vals["c"] = a
    elif op == "abs":
        e.vals["c"] = abs(a)
    elif op == "clamp":
        e.vals["a"] = a
    elif op == "zero":
        e.vals["a"] = 0
    elif op == "set":
        e.vals["a"] = k
    elif op == "mul":
        result("c", a * b, needs=ua + ub)
    elif op == "sqr":
        result("c", a * a, needs=2 * ua)
    elif op == "to_bin":
        m = abs(a)
        e.out = m.to_bytes((m.bit_length() + 7) // 8, "big")
    elif op == "mont_setup":
        if a % 2 == 0: e.must_fail = True; e.may_fail |= {PS_ARG}
        else: e.rho = (-pow(abs(a) % W, -1, W)) % W
    elif op == "mont_norm":
        if abs(b) <= 1 or b % 2 == 0: e.pre = False  # Montgomery form needs an odd modulus > 1
        else: e.vals["a"] = pow(W, ub, abs(b))
    elif op == "mont_reduce":
        m = b
        if m % 2 == 0: e.must_fail = True; e.may_fail |= {PS_ARG}
        elif m <= 0 or a < 0: e.pre = False
        elif ops[P[0]][1] < ub + 1 or ua > 2 * ub:
            e.must_fail = True; e.may_fail |= {PS_LIMIT}      # pa+1 digits are written back; scratch holds 2*pa+1 digits
        else:
            R = W ** ub
            if a < m * R:
                e.vals["a"] = (a * pow(R, -1, m)) % m
            else:
                e.cong = (m, (a * pow(R, -1, m)) % m, "a")
            e.may_fail |= {PS_LIMIT}
    elif op == "div":
        if b == 0: e.must_fail = True; e.may_fail |= {PS_LIMIT}
        else:
            q = tdiv(a, b)
            if P[2] is not None: e.vals["c"] = q
            if P[3] is not None: e.vals["d"] = a - q * b
    elif op == "mod":
        if b == 0: e.must_fail = True; e.may_fail |= {PS_LIMIT}
        elif b < 0: e.pre = False                    # documented range 0 <= c < b
        else: e.vals["c"] = a % b
    elif op == "mulmod":
        m = val(2)
        if m == 0: e.must_fail = True; e.may_fail |= {PS_LIMIT, PS_MEM}
        elif m < 0: e.pre = False
        else:
            e.vals["d"] = (a * b) % m
            if ua + ub + 1 > MAXN: e.may_fail |= {PS_MEM, PS_LIMIT}
    elif op == "exptmod":
        p = val(2)
        if p <= 0 or p.bit_length() not in (512, 1024, 1536, 2048, 3072, 4096):
            e.must_fail = True; e.may_fail |= {PS_FAIL, PS_ARG}
        elif b < 0 or a < 0: e.pre = False
        elif p % 2 == 0: e.may_fail |= {PS_ARG}; e.vals["d"] = pow(a, b, p)
        else: e.vals["d"] = pow(a, b, p)
    elif op == "invmod":
        if b <= 0: e.must_fail = True; e.may_fail |= {PS_LIMIT}
        elif b == 1: e.pre = False
        else:
            inv = egcd_inv(a % b, b)
            if inv is None: e.must_fail = True; e.may_fail |= {PS_FAIL, PS_LIMIT}
            else:
                e.inv = (a, b, "c"); e.may_fail |= {PS_LIMIT}      # iteration cap 4096 -> PS_LIMIT_FAIL (an error, never a wrong value)
    return e

def spec_read_bin(bs):
    e = Expect()
    v = int.from_bytes(bs, "big")
    e.vals["c"] = v
    if len(bs) // 8 + 2 > MAXN:
        e.may_fail |= {PS_MEM, PS_LIMIT}
        if v >= W ** MAXN: e.must_fail = True
    return e


def check_against_spec(ck, case, out, where):
    """Impl vs exact integers.  Returns 'ok' | 'viol' | 'skip'."""
    t = case.split()
    op, alias, K = t[0], t[1], t[2]
    d = parse_out(out)
    if "rc" not in d:
        ck.spec_violation("harness-output:%s" % op, "harness produced no result for %s" % op,
                          {"harness": where, "case": case, "observed": out})
        return "viol"
    if op == "read_bin":
        e = spec_read_bin(vlib.unhex(t[3]))
        ops = [(0, 1, 0)] + [parse_opnd(x) for x in t[4:7]]
    else:
        ops = [parse_opnd(x) for x in t[3:7]]
        e = spec(op, alias, K, ops)
    if not e.pre:
        return "skip"
    rc = d["rc"]
    P = parse_alias(alias)
    def viol(kind, what, exp):
        sig = "%s:%s:alias=%s" % (op, kind, "none" if alias == "-" else alias)
        ck.spec_violation(sig, "%s: %s" % (op, what),
                          {"harness": where, "case": case[:6000], "observed": out[:3000], "expected_by_spec": str(exp)[:3000]})
        return "viol"
    if rc < 0:
        if rc in e.may_fail:
            ck.count("spec:error-justified")
            return "ok"
        return viol("spurious-error", "returned error %d although the exact result is representable and no documented refusal applies" % rc, "success")
    if e.must_fail:
        return viol("success-on-unrepresentable", "returned success although the exact result does not fit / the call must be refused", "an error from %s" % sorted(e.may_fail))
    # objects
    def objval(name):
        i = P["abcd".index(name)]
        if i is None: return None
        o = d.get("abcd"[i])
        if o is None or o == "=":
            return ops[i][0] if o == "=" else (0 if ops[i] == (0, 1, 0) else None)
        return o
    for name, want in e.vals.items():
        o = objval(name)
        got = o if isinstance(o, int) else (o[0] if o else None)
        if got != want:
            return viol("wrong-value", "success with a wrong value in %s" % name, "%s=%s%x" % (name, "-" if want < 0 else "+", abs(want)))
        if not isinstance(o, int) and o is not None:
            if o[3] != 1: return viol("dirty-high-digits", "digits above used are not zero in %s" % name, "z=1")
            if o[2] != ndig(o[0]): return viol("not-normalised", "used count of %s is not minimal" % name, "used=%d" % ndig(o[0]))
            if o[0] == 0 and o[4] != "+": return viol("negative-zero", "zero result with negative sign in %s" % name, "+0")
    for name, want in e.mags.items():
        o = objval(name)
        got = o if isinstance(o, int) else (o[0] if o else None)
        if got is None or abs(got) != want:
            return viol("wrong-value", "success with a wrong magnitude in %s" % name, "|%s|=%x" % (name, want))
    if e.cong is not None:
        m, res, name = e.cong
        o = objval(name); got = o if isinstance(o, int) else o[0]
        if got % m != res:
            return viol("wrong-value", "result not congruent", "%s = %x mod m" % (name, res))
    if e.inv is not None:
        a, m, name = e.inv
        o = objval(name); got = o if isinstance(o, int) else o[0]
        if (got * a) % m != 1 or abs(got) >= m or (a >= 0 and got < 0):
            return viol("wrong-value", "result is not the inverse in [0,m)", "%x" % pow(a % m, -1, m))
    if e.r is not None and d.get("r") != e.r:
        return viol("wrong-value", "wrong scalar result %s" % d.get("r"), "r=%d" % e.r)
    if e.out is not None and (d.get("out") != e.out or d.get("guard") != 1):
        return viol("wrong-value", "wrong byte string / wrote past the announced size", e.out.hex())
    if e.rho is not None and d.get("rho") != e.rho:
        return viol("wrong-value", "wrong rho", "%x" % e.rho)
    # frame: inputs that are not a destination must be unchanged
    dests = set(e.vals) | set(e.mags) | ({e.cong[2]} if e.cong else set()) | ({e.inv[2]} if e.inv else set())
    dest_objs = {P["abcd".index(n)] for n in dests}
    for i in range(4):
        if i in dest_objs: continue
        o = d.get("abcd"[i])
        if o is not None and o != "=" and op not in ("mod",):     # pstm_mod exchanges buffers with its temporary: alloc of c may change only
            return viol("input-modified", "operand %s was modified" % "abcd"[i], "%s==" % "abcd"[i])
    ck.count("spec:exact")
    return "ok"


# ------------------------------------------------------------------------------------------ generators
SIZES_SMALL = [0, 1, 1, 2, 2, 3, 4, 5, 6, 7, 8, 9]
SIZES_EDGE = [15, 16, 17, 23, 24, 25, 31, 32, 33, 47, 48, 49, 63, 64, 65, 95, 96, 97]

def gen_size(r, cap=MAXN):
    k = r.random()
    if k < 0.62: n = r.choice(SIZES_SMALL)
    elif k < 0.85: n = r.choice(SIZES_EDGE)
    elif k < 0.93: n = r.choice([MAXN - 2, MAXN - 1, MAXN, MAXN, MAXN // 2 - 1, MAXN // 2, MAXN // 2 + 1])
    else: n = r.randrange(0, MAXN + 1)
    return min(n, cap)

def gen_mag(r, n):
    """magnitude with exactly <= n digits, structured"""
    if n == 0: return 0
    k = r.randrange(14)
    top = W ** n
    if k == 0: return top - 1                                   # all ones
    if k == 1: return W ** (n - 1)                              # 2^k, single top bit of lowest position
    if k == 2: return 1 << r.randrange((n - 1) * DIGIT_BIT, n * DIGIT_BIT)
    if k == 3: return max((1 << r.randrange((n - 1) * DIGIT_BIT, n * DIGIT_BIT)) - 1, 0)
    if k == 4: return min((1 << r.randrange((n - 1) * DIGIT_BIT, n * DIGIT_BIT)) + 1, top - 1)
    if k == 5: return top - 1 - r.randrange(3)
    if k == 6: return W ** (n - 1) + r.randrange(3)             # zeros in the middle, tiny low part
    if k == 7:                                                   # digits drawn from {0, 1, W-1, W-2, 2^63, random}
        v = 0
        for i in range(n):
            v |= r.choice([0, 0, 1, W - 1, W - 1, W - 2, 1 << (DIGIT_BIT - 1), r.getrandbits(DIGIT_BIT)]) << (i * DIGIT_BIT)
        return v | (r.choice([1, W - 1, 1 << (DIGIT_BIT - 1)]) << ((n - 1) * DIGIT_BIT))
    if k == 8: return r.getrandbits(DIGIT_BIT) << ((n - 1) * DIGIT_BIT) or W ** (n - 1)   # only the top digit non-zero
    if k == 9: return (top - 1) ^ ((W - 1) << (r.randrange(n) * DIGIT_BIT))                # all ones with one zero digit
    if k == 10: return r.choice([1, 2, 3, W - 1, W, W + 1]) % top
    v = r.getrandbits(n * DIGIT_BIT)
    return v | (1 << (n * DIGIT_BIT - 1 - r.randrange(DIGIT_BIT)))

def gen_val(r, n, neg_p=0.3):
    m = gen_mag(r, n)
    return -m if (m and r.random() < neg_p) else m

def related(r, v):
    """a second operand related to v: equal, differing in top/bottom digit, +-1, negation, complement to all-ones"""
    k = r.randrange(9)
    n = ndig(v)
    if k == 0: return v
    if k == 1: return -v
    if k == 2: return v + r.choice([1, -1])
    if k == 3 and n: return v ^ (1 << ((n - 1) * DIGIT_BIT + r.randrange(DIGIT_BIT))) if v > 0 else v
    if k == 4: return v ^ 1 if v > 0 else v
    if k == 5 and n: return (W ** n - 1) - abs(v)                # sum is all ones
    if k == 6 and n: return W ** n - abs(v)                      # sum carries through every digit
    if k == 7 and n: return abs(v) % (W ** max(n - 1, 1))        # same low digits, shorter
    return gen_val(r, gen_size(r))

def clip(v):
    lim = W ** MAXN
    return v if abs(v) < lim else (lim - 1 if v > 0 else -(lim - 1))

def gen_alloc(r, v, minimum=1):
    n = max(ndig(v), minimum, 1)
    k = r.randrange(6)
    if k == 0: return n
    if k == 1: return min(n + 1, MAXN)
    if k == 2: return min(n + r.randrange(1, 8), MAXN)
    if k == 3: return MAXN
    if k == 4: return min(max(n, 48), MAXN)
    return min(2 * n + 3, MAXN)

def dest(r):
    """pre-sized destination with an old value (exercises grow and the zeroing of stale digits)"""
    k = r.randrange(5)
    if k == 0: return opnd(0, 1)
    n = gen_size(r) if k > 2 else r.choice([1, 2, 3, 8, 48])
    v = gen_val(r, n)
    return opnd(v, gen_alloc(r, v))

ALIAS3 = ["-", "-", "-", "c=a", "c=a", "c=b", "c=b", "b=a", "b=a,c=a"]

def gen_binary(r, op):
    na = gen_size(r)
    a = gen_val(r, na)
    b = clip(related(r, a)) if r.random() < 0.55 else gen_val(r, gen_size(r))
    if op == "sub_s" and abs(a) < abs(b): a, b = b, a
    if op in ("sub_s", "s_add", "cmp_mag") and r.random() < 0.5: a, b = abs(a), abs(b)
    al = r.choice(ALIAS3)
    if al.startswith("b=a"): b = a
    return "%s %s - %s %s %s -" % (op, al, opnd(a, gen_alloc(r, a)), opnd(b, gen_alloc(r, b)), dest(r))

def gen_mul(r, big):
    if big:
        na = r.choice([40, 64, 95, 96, 97, 120, 191, 192]); nb = r.choice([1, 2, MAXN - na, MAXN - na, MAXN - na + 1, 96])
        nb = max(0, min(nb, MAXN))
    elif r.random() < 0.18:
        na = nb = r.choice([16, 16, 32])             # the unrolled 16x16 / 32x32 digit code paths (exactly these used counts)
    else:
        na = r.choice([0, 1, 1, 2, 3, 4, 5, 7, 8, 9, 12, 15, 16, 17, 24]); nb = r.choice([0, 1, 2, 3, 4, 5, 8, 9, 15, 16, 17, 20])
    a = gen_val(r, na); b = clip(related(r, a)) if r.random() < 0.3 else gen_val(r, nb)
    al = r.choice(ALIAS3)
    if al.startswith("b=a"): b = a
    return "mul %s %d %s %s %s -" % (al, r.choice([0, 0, 1, 1, 2]), opnd(a, gen_alloc(r, a)), opnd(b, gen_alloc(r, b)), dest(r))

def gen_sqr(r, big):
    na = r.choice([48, 64, 95, 96, 97, 192]) if big else r.choice([0, 1, 1, 2, 3, 4, 5, 7, 8, 9, 15, 16, 16, 16, 17, 24, 31, 32, 32, 33])
    a = gen_val(r, na)
    return "sqr %s %d %s - %s -" % (r.choice(["-", "-", "c=a"]), r.choice([0, 0, 1, 1, 2]), opnd(a, gen_alloc(r, a)), dest(r))

def gen_digit(r):
    return r.choice([0, 1, 2, 3, 10, 255, W - 1, W - 2, 1 << (DIGIT_BIT - 1), (1 << (DIGIT_BIT // 2)) - 1, r.getrandbits(DIGIT_BIT)])

def gen_unary_d(r, op):
    a = gen_val(r, gen_size(r))
    return "%s %s 0x%x %s - %s -" % (op, r.choice(["-", "-", "c=a"]), gen_digit(r), opnd(a, gen_alloc(r, a)), dest(r))

def gen_shift_bits(r, a):
    n = ndig(a)
    room = (MAXN - n) * DIGIT_BIT
    return r.choice([0, 1, 7, 8, 9, 63, 64, 65, 127, 128, 129, r.randrange(0, 200), max(room - 1, 0), room, room + 1,
                     max(room - 64, 0), room + 63, min(room + 64, 32767), (n * DIGIT_BIT) % 32768, max(n * DIGIT_BIT - 1, 0)])

def gen_unary(r, op):
    a = gen_val(r, gen_size(r))
    al = r.choice(["-", "-", "c=a"])
    if op in ("mul_2", "div_2", "copy", "abs"):
        return "%s %s - %s - %s -" % (op, al, opnd(a, gen_alloc(r, a)), dest(r))
    if op in ("mul_2d", "mod_2d"):
        k = gen_shift_bits(r, a)
        return "%s %s %d %s - %s -" % (op, al, k, opnd(a, gen_alloc(r, a)), dest(r))
    if op == "div_2d":
        k = r.choice([gen_shift_bits(r, a), -1, 0, 1, 64, 65, r.randrange(0, 130)])
        al = r.choice(["-", "c=a", "d=0", "d=0,c=a", "d=0", "d=a"])
        return "div_2d %s %d %s - %s %s" % (al, k, opnd(a, gen_alloc(r, a)), dest(r), "-" if "d=" in al else dest(r))
    if op in ("lshd", "rshd"):
        n = ndig(a)
        k = r.choice([0, 1, 2, 3, n, max(n - 1, 0), n + 1, MAXN - n, max(MAXN - n - 1, 0), MAXN - n + 1, MAXN, r.randrange(0, 2 * MAXN)])
        return "%s - %d %s - - -" % (op, k, opnd(a, gen_alloc(r, a)))
    if op == "2expt":
        k = r.choice([-1, 0, 1, 63, 64, 65, MAXN * DIGIT_BIT - 1, MAXN * DIGIT_BIT, MAXN * DIGIT_BIT + 1, r.randrange(0, MAXN * DIGIT_BIT), 32767])
        return "2expt - %d %s - - -" % (k, opnd(a, gen_alloc(r, a)))
    if op in ("count_bits", "bin_size", "zero", "to_bin"):
        return "%s - - %s - - -" % (op, opnd(a, gen_alloc(r, a)))
    if op == "set":
        return "set - 0x%x %s - - -" % (gen_digit(r), opnd(a, gen_alloc(r, a)))
    if op == "cmp_d":
        k = r.choice([gen_digit(r), abs(a) % W, (abs(a) + 1) % W])
        return "cmp_d - 0x%x %s - - -" % (k, opnd(a, gen_alloc(r, a)))
    if op == "clamp":
        n = ndig(a); al = gen_alloc(r, a)
        return "clamp - - %s - - -" % opnd(a, al, used=r.randrange(n, al + 1))
    if op == "mont_setup":
        return "mont_setup - - %s - - -" % opnd(a | r.choice([0, 1, 1, 1]) if a >= 0 else a, gen_alloc(r, a))
    raise KeyError(op)

def gen_read_bin(r):
    k = r.random()
    if k < 0.6: n = r.randrange(0, 40)
    elif k < 0.9: n = r.choice([63, 64, 65, 127, 128, 129, 255, 256, 257, 511, 512, 513])
    else: n = r.choice([8 * MAXN - 17, 8 * MAXN - 16, 8 * MAXN - 9, 8 * MAXN - 8, 8 * MAXN - 7, 8 * MAXN - 1, 8 * MAXN, 8 * MAXN + 1, 8 * MAXN + 40])
    m = r.randrange(4)
    bs = bytes(r.getrandbits(8) for _ in range(n)) if m == 0 else (b"\xff" * n if m == 1 else (bytes(r.randrange(0, 9)) + bytes(r.getrandbits(8) for _ in range(n)))[:n] if m == 2 else b"\x00" * max(n - 1, 0) + b"\x01" * min(n, 1))
    return "read_bin - - %s - %s -" % (vlib.hexs(bs), dest(r))

def gen_modulus(r, n, odd=None):
    m = gen_mag(r, max(n, 1)) or 1
    if odd is True: m |= 1
    if odd is False: m &= ~1
    return m or 2

def gen_mont(r, op):
    n = r.choice([1, 1, 2, 3, 4, 5, 6, 7, 8, 9, 10, 15, 16, 17, 23, 24, 25, 32, 33, 48, 64, 95])
    if op == "mont_reduce" and r.random() < 0.08: n = r.choice([94, 95])
    m = gen_modulus(r, n, odd=(r.random() < 0.93))
    n = ndig(m)
    if op == "mont_norm":
        a = gen_val(r, r.choice([0, 1, 2]), 0)
        return "mont_norm - - %s %s - -" % (opnd(a, max(n + 1, r.choice([1, 2, n + 1, 2 * n + 1]))), opnd(m, gen_alloc(r, m)))
    R = W ** n
    k = r.randrange(8)
    if k == 0: a = 0
    elif k == 1: a = m * R - 1
    elif k == 2: a = (m - 1) * (m - 1)
    elif k == 3: a = gen_mag(r, r.randrange(0, 2 * n + 1)) % (m * R)
    elif k == 4: a = (R - 1) * m % (m * R)
    elif k == 5: a = min(W ** (2 * n) - 1, MAXN and W ** (2 * n) - 1)      # a >= m*R unless m is all ones: congruence-only
    else: a = r.randrange(0, m * R)
    alloc = max(ndig(a), n + 1, r.choice([n + 1, n + 2, 2 * n + 1, 2 * n + 3]))
    if alloc > MAXN:
        return None
    return "mont_reduce - %d %s %s - -" % (r.choice([0, 0, 1, 1, 2]), opnd(a, alloc), opnd(m, gen_alloc(r, m)))

def gen_div(r, op, big):
    na = r.choice([96, 128, 191, 192]) if big else r.choice([0, 1, 1, 2, 2, 3, 4, 5, 8, 9, 16, 17, 32, 33])
    nb = r.choice([1, 2, na // 2, na, max(na - 1, 1)]) if big else r.choice([0, 1, 1, 2, 2, 3, 4, 8, 16])
    a = gen_val(r, na); b = gen_val(r, nb)
    if r.random() < 0.3 and b: a = clip(b * gen_val(r, max(na - nb, 0)) + r.choice([0, 0, 1, -1, b - 1 if b > 0 else 0]))
    if r.random() < 0.1: b = clip(related(r, a))
    if op == "div":
        al = r.choice(["-", "-", "c=a", "d=a", "c=b", "d=b", "c=0", "d=0", "b=a"])
        if al == "b=a": b = a
        return "div %s - %s %s %s %s" % (al, opnd(a, gen_alloc(r, a)), opnd(b, gen_alloc(r, b)), "-" if al == "c=0" else dest(r), "-" if al == "d=0" else dest(r))
    if op == "mod":
        if r.random() < 0.9: b = abs(b)
        al = r.choice(["-", "-", "c=a", "c=b", "b=a"])
        if al == "b=a": b = a
        return "mod %s - %s %s %s -" % (al, opnd(a, gen_alloc(r, a)), opnd(b, gen_alloc(r, b)), dest(r))
    if op == "mulmod":
        m = abs(b) or r.choice([0, 1, 3])
        x = gen_val(r, min(na, MAXN // 2)); y = clip(related(r, x)) if r.random() < 0.3 else gen_val(r, min(gen_size(r), MAXN // 2))
        al = r.choice(["-", "-", "d=a", "d=b", "d=c", "b=a", "b=a,d=a"])
        if al.startswith("b=a"): y = x
        return "mulmod %s - %s %s %s %s" % (al, opnd(x, gen_alloc(r, x)), opnd(y, gen_alloc(r, y)), opnd(m, gen_alloc(r, m)), dest(r))
    if op == "invmod":
        m = abs(b) or 1
        if r.random() < 0.7: m |= 1
        al = r.choice(["-", "-", "c=a", "c=b"])
        x = a if r.random() < 0.8 else a * m + 1
        x = clip(x)
        return "invmod %s - %s %s %s -" % (al, opnd(x, gen_alloc(r, x)), opnd(m, gen_alloc(r, m)), dest(r))
    raise KeyError(op)

def gen_exptmod(r, bits):
    k = r.randrange(10)
    if k == 0: bits += r.choice([-1, 1, -64, 64])               # refused sizes
    p = r.getrandbits(bits) | (1 << (bits - 1)) | (1 if r.random() < 0.85 else 0)
    if r.random() < 0.15: p = (1 << bits) - r.choice([1, 3, 5, 2])
    if r.random() < 0.1 and p % 2: p = ((1 << (bits - 1)) | 1)
    g = r.choice([0, 1, 2, p - 1, p, p + 1, r.randrange(0, p), r.randrange(0, p), r.getrandbits(bits + 64), gen_mag(r, ndig(p))])
    x = r.choice([0, 1, 2, 3, 65537, r.getrandbits(49), r.getrandbits(50), r.getrandbits(64), r.getrandbits(65), (1 << 64) - 1, 1 << 64,
                  r.getrandbits(160), r.randrange(0, p) if bits <= 1024 else r.getrandbits(256)])
    al = r.choice(["-", "-", "d=a", "d=b", "b=a"])
    if al == "b=a": x = g
    return "exptmod %s - %s %s %s %s" % (al, opnd(g, gen_alloc(r, g)), opnd(x, gen_alloc(r, x)), opnd(p, gen_alloc(r, p)), dest(r))


def limit_cases():
    """deterministic boundary cases at PSTM_MAX_SIZE: every way a result can need one digit too many"""
    F = W ** MAXN - 1
    out = []
    for al in ("-", "c=a", "c=b"):
        out.append("add %s - %s %s %s -" % (al, opnd(F, MAXN), opnd(1, 1), opnd(0, 1)))
        out.append("add %s - %s %s %s -" % (al, opnd(1, 1), opnd(F, MAXN), opnd(0, MAXN)))
        out.append("add %s - %s %s %s -" % (al, opnd(-F, MAXN), opnd(-1, 1), opnd(5, 3)))
        out.append("sub %s - %s %s %s -" % (al, opnd(F, MAXN), opnd(-1, 1), opnd(0, 1)))
        out.append("sub %s - %s %s %s -" % (al, opnd(-F, MAXN), opnd(F, MAXN), opnd(0, 1)))
        out.append("add %s - %s %s %s -" % (al, opnd(F - 1, MAXN), opnd(1, 1), opnd(0, 1)))          # fits exactly
        out.append("add %s - %s %s %s -" % (al, opnd(W ** (MAXN - 1) - 1, MAXN - 1), opnd(1, 1), opnd(0, 1)))  # grows to MAXN digits
    out.append("add b=a,c=a - %s - - -" % opnd(F, MAXN))
    out.append("add b=a - %s - %s -" % (opnd(1 << (MAXN * DIGIT_BIT - 1), MAXN), opnd(0, 1)))
    out.append("add_d - 0x1 %s - %s -" % (opnd(F, MAXN), opnd(0, 1)))
    out.append("add_d c=a 0x%x %s - - -" % (W - 1, opnd(F, MAXN)))
    out.append("sub_d - 0x1 %s - %s -" % (opnd(-F, MAXN), opnd(0, 1)))
    for n in (MAXN - 2, MAXN - 1, MAXN):
        top = 1 << (n * DIGIT_BIT - 1)
        for al in ("-", "c=a"):
            out.append("mul_2 %s - %s - %s -" % (al, opnd(top, n), opnd(0, 1)))
            out.append("mul_2 %s - %s - %s -" % (al, opnd(W ** n - 1, MAXN), opnd(7, 3)))
            out.append("mul_2 %s - %s - %s -" % (al, opnd(top - 1, n), opnd(0, 1)))
            out.append("mul_d %s 0x2 %s - %s -" % (al, opnd(top, n), opnd(0, 1)))
            out.append("mul_d %s 0x%x %s - %s -" % (al, W - 1, opnd(W ** n - 1, n), opnd(0, 1)))
            out.append("mul_d %s 0x1 %s - %s -" % (al, opnd(W ** n - 1, n), opnd(0, 1)))
            for k in (1, 8, 63, 64, 65, 128):
                out.append("mul_2d %s %d %s - %s -" % (al, k, opnd(top, n), opnd(0, 1)))
                out.append("mul_2d %s %d %s - %s -" % (al, k, opnd(W ** n - 1, n), opnd(0, MAXN)))
                out.append("mul_2d %s %d %s - %s -" % (al, k, opnd((W ** n - 1) >> k, n), opnd(0, 1)))   # fits exactly
        for k in (0, 1, 2, MAXN - n, MAXN - n + 1):
            out.append("lshd - %d %s - - -" % (k, opnd(W ** n - 1, n)))
            out.append("lshd - %d %s - - -" % (k, opnd(1, MAXN)))
    for na, nb in ((96, 96), (96, 97), (97, 96), (191, 1), (192, 1), (192, 0), (1, 192), (100, 92), (100, 93), (191, 2)):
        for al in ("-", "c=a", "c=b"):
            out.append("mul %s 0 %s %s %s -" % (al, opnd(W ** na - 1, na), opnd(W ** nb - 1, max(nb, 1)), opnd(0, 1)))
    for na in (95, 96, 97, 192):
        for al in ("-", "c=a"):
            out.append("sqr %s 0 %s - %s -" % (al, opnd(W ** na - 1, na), opnd(0, 1)))
            out.append("sqr %s 1 %s - %s -" % (al, opnd(-(W ** na - 1), na), opnd(-3, 1)))
    for n in (8 * MAXN - 16, 8 * MAXN - 9, 8 * MAXN - 8, 8 * MAXN - 7, 8 * MAXN, 8 * MAXN + 1, 8 * MAXN + 8):
        out.append("read_bin - - %s - %s -" % ("ff" * n, opnd(0, 1)))
        out.append("read_bin - - %s - %s -" % ("00" * (n - 1) + "01", opnd(0, MAXN)))
    for k in (MAXN * DIGIT_BIT - 1, MAXN * DIGIT_BIT, 32767, -1, -32768):
        out.append("2expt - %d %s - - -" % (k, opnd(5, 1)))
    # pstm_montgomery_reduce: destination too small for pa+1 digits / operand longer than 2*pa digits
    for n in (1, 4, 8, 9):
        m = (W ** n - 1) | 1
        out.append("mont_reduce - 0 %s %s - -" % (opnd(5, n), opnd(m, n)))
        out.append("mont_reduce - 1 %s %s - -" % (opnd(W ** (2 * n + 1) - 1, 2 * n + 3), opnd(m, n)))
        out.append("mont_reduce - 0 %s %s - -" % (opnd(W ** (2 * n) - 1, 2 * n + 1), opnd(m, n)))
        out.append("mont_reduce - 2 %s %s - -" % (opnd(m * W ** n - 1, n + 1 if 2 * n <= n + 1 else 2 * n), opnd(m, n)))
    # borrow travelling through zero digits beyond the shorter operand
    for nz in (1, 2, 3, 10):
        a = W ** (nz + 1) * 0x100
        for al in ("-", "c=a", "c=b"):
            out.append("sub %s - %s %s %s -" % (al, opnd(a, nz + 2), opnd(1, 1), opnd(0, 1)))
            out.append("add %s - %s %s %s -" % (al, opnd(a, nz + 2), opnd(-1, 1), opnd(0, 1)))
            out.append("sub_s %s - %s %s %s -" % (al, opnd(a, nz + 2), opnd(W - 1, 1), opnd(0, 1)))
        out.append("sub_d - 0x1 %s - %s -" % (opnd(a, nz + 2), opnd(0, 1)))
    return out


OPS_WEIGHT = [("add", 14), ("sub", 14), ("sub_s", 6), ("s_add", 4), ("cmp", 5), ("cmp_mag", 5), ("cmp_d", 2), ("clamp", 3),
              ("mul_2d", 6), ("div_2d", 6), ("mod_2d", 4), ("lshd", 3), ("rshd", 3), ("mul_d", 4), ("add_d", 3), ("sub_d", 3),
              ("mul_2", 3), ("div_2", 3), ("2expt", 1), ("count_bits", 1), ("bin_size", 1), ("copy", 2), ("abs", 1), ("zero", 1), ("set", 1),
              ("mul", 7), ("sqr", 4), ("read_bin", 3), ("to_bin", 3), ("mont_setup", 2), ("mont_norm", 2), ("mont_reduce", 6),
              ("div", 5), ("mod", 4), ("mulmod", 3), ("invmod", 3)]

def gen_case(r, op):
    if op in ("add", "sub", "sub_s", "s_add", "cmp", "cmp_mag"):
        if op in ("cmp", "cmp_mag"):
            l = gen_binary(r, op).split()
            l[1] = r.choice(["-", "-", "b=a"]); l[5] = "-"
            if l[1] == "b=a": l[4] = l[3]
            return " ".join(l)
        return gen_binary(r, op)
    if op in ("add_d", "sub_d", "mul_d"): return gen_unary_d(r, op)
    if op == "mul": return gen_mul(r, r.random() < 0.02)
    if op == "sqr": return gen_sqr(r, r.random() < 0.03)
    if op == "read_bin": return gen_read_bin(r)
    if op in ("mont_norm", "mont_reduce"): return gen_mont(r, op)
    if op in ("div", "mod", "mulmod", "invmod"): return gen_div(r, op, r.random() < 0.01)
    return gen_unary(r, op)


def corpus_cases():
    out = []
    p = os.path.join(vlib.VERIF, "corpus", "C13")
    if os.path.isdir(p):
        for f in sorted(os.listdir(p)):
            for l in open(os.path.join(p, f)):
                l = l.strip()
                if l and not l.startswith("#"):
                    out.append(l)
    return out


def read_consts():
    global DIGIT_BIT, MAXN, W
    import re
    txt = open(os.path.join(vlib.COQ, "Gen", "Consts.v")).read()
    DIGIT_BIT = int(re.search(r"c_DIGIT_BIT : Z := \((-?\d+)\)", txt).group(1))
    MAXN = int(re.search(r"c_PSTM_MAX_SIZE : Z := \((-?\d+)\)", txt).group(1))
    W = 1 << DIGIT_BIT


def build_cases(ck):
    r = ck.rng("gen")
    cases = corpus_cases()
    ck.cov["corpus_cases"] = len(cases)
    cases += limit_cases()
    n = ck.budget(6000, 120000)
    ops = [o for o, w in OPS_WEIGHT for _ in range(w)]
    seen = set(cases)
    tries = 0
    while len(cases) < n and tries < 10 * n:
        tries += 1
        c = gen_case(r, r.choice(ops))
        if c is None or c in seen: continue
        seen.add(c); cases.append(c)
    for bits in [512] * ck.budget(10, 300) + [1024] * ck.budget(4, 100) + [2048] * ck.budget(1, 30) + [4096] * ck.budget(0, 6):
        cases.append(gen_exptmod(r, bits))
    return cases


def run_split(ck, h, hs, cases):
    """run every case on the right harness binary; returns the impl output list aligned with cases"""
    idx_s = [i for i, c in enumerate(cases) if c.split()[0] in STATIC_OPS]
    idx_l = [i for i, c in enumerate(cases) if c.split()[0] not in STATIC_OPS]
    out = [""] * len(cases)
    for exe, idx in ((h, idx_l), (hs, idx_s)):
        if not idx: continue
        rc, o, err = ck.run_lines(exe, [cases[i] for i in idx])
        if len(o) != len(idx):
            ck.log("harness %s: %d results for %d cases (rc=%s) %s" % (os.path.basename(exe), len(o), len(idx), rc, err[-300:]))
            if len(o) < len(idx):
                ck.spec_violation("harness-crash", "pstm harness died (rc=%s) on the case after %d results" % (rc, len(o)),
                                  {"harness": os.path.basename(exe), "case": cases[idx[len(o)]][:6000], "observed": "process exit %s %s" % (rc, err[-300:])})
        for j, i in enumerate(idx):
            out[i] = o[j] if j < len(o) else "NO-OUTPUT"
    return out


def run(ck):
    ck.trusted += ["Coq 8.16.1 kernel (coqc; vm_compute only in Examples)",
                   "tools/srcgen/consts.c translator (the C compiler evaluates DIGIT_BIT, PSTM_MAX_SIZE, PSTM_*, PS_* from the headers)",
                   "extraction (ExtrOcamlBasic only) + ocaml/drv_c13.ml + harness/h_pstm.c correspondence glue",
                   "modelled, not verified: coq/Big/BigModel.v is a hand-written Gallina transcription of pstm.c / pstm_mul_comba.c / "
                   "pstm_sqr_comba.c / pstm_montgomery_reduce.c (x86-64 asm macros MULADD, SQRADD, SQRADD2, INNERMUL, INNERMUL8, PROPCARRY by their "
                   "add-with-carry meaning) compared with the library on every run",
                   "static functions pstm_mul_2d, pstm_mod_2d, s_pstm_add are exercised from a copy of crypto/math/pstm.c of the same tree compiled "
                   "into the harness at -O1 (all other calls go to the library object built with the repo's own flags)",
                   "Python integer arithmetic as independent spec oracle"]
    ck.assumptions += ["operands are well formed pstm_int values (used <= alloc <= PSTM_MAX_SIZE, digits above used are zero, top digit non-zero, zero is positive)",
                       "the allocator does not fail (allocation failure paths belong to C19); pstm_grow fails exactly when size > PSTM_MAX_SIZE",
                       "distinct pstm_int objects own distinct digit buffers; aliasing happens only through equal pointers",
                       "pstm_sub_s is called with |a| >= |b| (documented precondition); pstm_mod / pstm_mulmod / pstm_invmod with a positive modulus"]
    R = ck.build_repo()
    ck.regen([("consts.sh",)])
    read_consts()
    ck.coq_properties()
    drv = ck.ocaml_driver("drv_c13", extract_vo="Extract/Extract_C13.vo", gen_ml=["m_c13"])
    h = ck.cc("h_pstm.c")
    hs = ck.cc("h_pstm.c", out=os.path.join(ck.scratch, "h_pstm-static"), defines=["H_PSTM_STATIC"],
               extra=["-include", os.path.join(R, "crypto/math/pstm.c")])
    cases = build_cases(ck)
    impl = run_split(ck, h, hs, cases)
    ck.rules.append("structure-aware generator: operand sizes 0..PSTM_MAX_SIZE digits (small, unroll boundaries 7/8/9.., default alloc 47/48/49, "
                    "MAX/2+-1, MAX-2..MAX); magnitudes 0, 1, 2^k, 2^k+-1, all-ones, all-ones with one zero digit, only top digit, digits drawn from "
                    "{0,1,W-1,W-2,2^63,random}, random; second operand related to the first (equal, negated, +-1, top/bottom bit flipped, "
                    "complement to all-ones, carry through every digit); every aliasing mode (c=a, c=b, b=a, a=b=c, NULL outputs for div/div_2d); "
                    "destinations pre-sized smaller/larger than needed with stale contents; deterministic PSTM_MAX_SIZE boundary table; "
                    "a case is non-trivial when the call succeeded on operands of at least two digits or exercised an error return")
    # ---- Impl vs Spec (independent oracle) on every case
    nviol = 0
    for c, o in zip(cases, impl):
        op = c.split()[0]
        ck.count("op:" + op)
        v = check_against_spec(ck, c, o, "h_pstm-static" if op in STATIC_OPS else "h_pstm")
        if v == "viol": nviol += 1
        if v == "skip": ck.count("spec:skipped-precondition")
        if o.startswith("rc=-"): ck.count("outcome:error")
        else: ck.count("outcome:success")
        al = c.split()[1]
        ck.count("alias:" + ("none" if al == "-" else al))
    ck.cov["spec_oracle_cases"] = len(cases)
    ck.cov["spec_oracle_violating_cases"] = nviol
    ck.cov["explored_only"] = {op: sum(1 for c in cases if c.split()[0] == op) for op in EXPLORED_ONLY}
    ck.cov["exhaustive"] = False
    ck.cov["proved_for_all_operands"] = ["pstm_add", "pstm_sub", "s_pstm_add", "pstm_sub_s", "pstm_cmp", "pstm_cmp_mag", "pstm_clamp", "pstm_mul_d",
                                         "pstm_add_d", "pstm_sub_d", "pstm_mul_2", "pstm_copy", "pstm_lshd", "pstm_rshd", "pstm_mul_comba (generic)",
                                         "pstm_sqr_comba (generic)"]
    ck.cov["modelled_correspondence_only"] = ["pstm_div_2 (totality proved)", "pstm_mul_2d", "pstm_mod_2d", "pstm_div_2d", "pstm_2expt", "pstm_cmp_d",
                                              "pstm_count_bits", "pstm_unsigned_bin_size", "pstm_abs", "pstm_zero", "pstm_set", "pstm_read_unsigned_bin",
                                              "pstm_to_unsigned_bin", "pstm_montgomery_setup", "pstm_montgomery_calc_normalization",
                                              "pstm_montgomery_reduce", "unrolled pstm_mul_comba16/32 and pstm_sqr_comba16/32 (against the generic model)"]
    # ---- Impl vs Model
    if drv is None:
        return
    mi = [i for i, c in enumerate(cases) if c.split()[0] in MODELLED]
    mcases = [cases[i] for i in mi]
    rc2, model, err2 = ck.run_lines(drv, mcases, timeout=3000)
    def nontrivial(c, o):
        t = c.split()
        return o.startswith("rc=-") or any(ndig(parse_opnd(x)[0]) >= 2 for x in t[3:5] if x != "-" and "/" in x) or t[0] == "read_bin"
    ck.correspond("pstm model (BigModel.v) vs libcrypt_s.a", mcases, [impl[i] for i in mi], model, nontrivial=nontrivial)


def replay(ck, path):
    rp = json.load(open(path))["replay"]
    R = ck.build_repo()
    ck.regen([("consts.sh",)])
    read_consts()
    h = ck.cc("h_pstm.c")
    hs = ck.cc("h_pstm.c", out=os.path.join(ck.scratch, "h_pstm-static"), defines=["H_PSTM_STATIC"],
               extra=["-include", os.path.join(R, "crypto/math/pstm.c")])
    cs = rp.get("cases") or [rp["case"]]
    out = run_split(ck, h, hs, cs)
    class Dummy:
        def __init__(s): s.v = []
        def spec_violation(s, sig, what, rep): s.v.append((sig, what, rep.get("expected_by_spec"))); return "new"
        def count(s, k, n=1): pass
    for c, o in zip(cs, out):
        dm = Dummy()
        verdict = check_against_spec(dm, c, o, "h_pstm")
        print("case:", c[:300] + ("..." if len(c) > 300 else ""))
        print("  impl:", o[:300])
        print("  spec:", verdict, dm.v[:1])
