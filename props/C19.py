"""C19 - allocation failure yields a clean error, never a crash or a skipped check (PARTIAL).

Theorem part  : coq/Properties/Properties_C19.v over the translator-generated table of all allocation
                sites (tools/srcgen/gen_allocsites.py -> coq/Gen/AllocSites.v): every site outside
                `known_open` is NULL-guarded before its first use, and a guarded site never faults and
                takes its error edge when the allocator returns NULL (coq/Res/ResModel.v, ResProofs.v).
Search / tie  : harness/h_fault.c - exhaustive single-fault injection (fork at every library allocation
                of every scenario, the k-th allocation returns NULL in the child), random multi-fault in the
                thorough tier.  Verdict per child: no crash / sanitizer report, documented return codes, no
                handshake complete after a failed verification-path allocation, no live library block after
                the application deleted everything.  Every failing allocation is mapped back to its site
                (addr2line) and compared with the translator's classification (validates the translator).
NOT a theorem : unwinding correctness / leak freedom / error propagation in the callers (explored only).
"""
import json, os, re, subprocess, sys, time, glob, shutil
import vlib

VERIF = vlib.VERIF
WRAPS = ["malloc", "calloc", "realloc", "free", "psGetBrokenDownGMTime", "psGetEntropy", "psGetPrngLocked", "psGetTime"]
SAN = ["-fsanitize=address,undefined", "-fno-omit-frame-pointer", "-no-pie"]
# scenario -> expected fault-free shape: resumption pattern of the server per connection (positive scenarios)
POSITIVE = {"keys": "", "tls12": "01", "tls12-ticket-renew": "0101", "tls13": "01", "tls12-cauth": "01", "tls13-cauth": "01",
            "tls12-ec-cauth": "01", "tls13-ec-cauth": "01", "tls11": "01", "tls12-rsa-cbc": "01", "tls12-cbc-sha384": "01",
            "tls13-chacha": "01", "tls13-psk": "11",
            # DTLS 1.2 / 1.0 (own allocation sites: save-aside copies for retransmits, flight buffers, fragment reassembly, cookie, resend)
            "dtls12": "01", "dtls12-ticket": "01", "dtls12-cauth": "01", "dtls12-ec-cauth": "01", "dtls10-cbc": "01", "dtls12-frag": "01",
            "dtls12-lost1": "01", "dtls12-lost2": "01", "dtls12-cauth-lost5": "01", "dtls12-lost6": "01"}
NEGATIVE = ["neg12-name", "neg13-name", "neg12-ca", "neg13-ca", "neg12-clientcert", "neg13-clientcert", "neg12-cb", "neg13-cb",
            "neg13-psk", "neg12-ec-name", "negd12-name", "negd12-ca", "negd12-clientcert"]
# quick tier: the scenarios of the property's quantifier with deterministic subsampling (first QUICK_OCC executions of every
# (call stack, API call, phase) combination are fault points); thorough: every scenario, every k
QUICK_SCEN = ["keys", "tls12", "tls12-ticket-renew", "tls12-ticket-renew+del", "tls13", "tls13+del", "tls12-cauth", "tls13-cauth", "tls13-cauth+del",
              "tls12-ec-cauth", "tls13-psk", "tls12-cbc-sha384",
              "neg12-name", "neg13-name", "neg12-ca", "neg13-ca", "neg12-clientcert", "neg13-clientcert", "neg12-cb", "neg13-cb", "neg13-psk",
              "dtls12-ticket", "dtls12-ec-cauth", "dtls12-ec-cauth+del", "dtls10-cbc", "dtls12-frag", "dtls12-lost1", "dtls12-lost2", "dtls12-cauth-lost5", "dtls12-lost6",
              "negd12-name", "negd12-ca", "negd12-clientcert"]
QUICK_OCC = 10
# "<scenario>+del": the application deletes its objects right after the connection in which the allocation failed
ALL_SCEN = list(POSITIVE) + NEGATIVE + [s_ + "+del" for s_ in POSITIVE if s_ != "keys"]
NEG_WHAT = {"neg12-name": "expectedName does not match the server certificate", "neg13-name": "expectedName does not match the server certificate",
            "neg12-ec-name": "expectedName does not match the server certificate",
            "neg12-ca": "server chain does not lead to the client's CA", "neg13-ca": "server chain does not lead to the client's CA",
            "neg12-clientcert": "client certificate is not trusted by the server", "neg13-clientcert": "client certificate is not trusted by the server",
            "neg12-cb": "the client's certificate callback rejects", "neg13-cb": "the client's certificate callback rejects",
            "neg13-psk": "the two sides hold different PSKs (and the certificate fallback has a wrong name)",
            "negd12-name": "DTLS: expectedName does not match the server certificate", "negd12-ca": "DTLS: server chain does not lead to the client's CA",
            "negd12-clientcert": "DTLS: client certificate is not trusted by the server"}
PHASE_CONN = {"handshake": 0, "handshake-resumed": 1, "handshake-renewal": 2, "handshake-resumed2": 3}
# functions whose presence in the failing allocation's call stack makes it a verification-path allocation
VERIFY_FUNCS = re.compile(r"^(matrixValidateCerts\w*|psX509AuthenticateCert|psX509ParseCert\w*|parse_single_cert|psVerifySig|psVerify\w*|"
                          r"psRsaVerify\w*|psEccDsaVerify\w*|psEccVerify\w*|pubRsaDecryptSignedElement\w*|psRsaDecryptPub\w*|validateDateRange|"
                          r"tls13ParseCertificateVerify|tls13ParseCertificate|tls13VerifyFinished|tls13ParseFinished|parseCertificateVerify|"
                          r"parseCertificate|parseFinished|parseServerKeyExchange|matrixSslParseServerKeyExchange\w*|sslCheckFinished\w*|"
                          r"psX509ValidateGeneralName|matrixUserCertValidator|checkCertificate\w*|tlsVerify\w*|tls13Verify\w*|psHmac\w*Validate)$")
NPAR = 8


# ----------------------------------------------------------------------------------------- build
def build_fault_variant(ck):
    """ASan + (recoverable) UBSan build of the working tree.  The shared "asan" variant is compiled with
    -fno-sanitize-recover=undefined: four pre-existing, allocation-independent UB sites of the fault-free path
    (aesGCM.c:322 `1 << 31`, psbuf.h:505, memcpy(.., NULL, 0) in psbuf.h:174 / tls.c:968) abort every TLS handshake
    there, so this check builds its own variant in which UB is reported but not fatal; UB that shows up only
    after an injected failure is still a finding, UB of the fault-free run is listed in the evidence notes."""
    if "fault" in ck.builds:
        return ck.builds["fault"]
    dest = os.path.join(ck.scratch, "repo-fault")
    t = time.time()
    rc, o, e = vlib.sh(["nice", "-n", "5", os.path.join(VERIF, "tools/c19/build_fault.sh"), dest], timeout=1800)
    if rc != 0:
        ck.log("repo build (fault variant) failed:\n" + (o + e)[-3000:])
        ck.violation("the working tree of /repo does not build (ASan variant for fault injection)",
                     {"stage": "build", "log_tail": (o + e)[-2000:]}, found_input=False)
        ck.finish()
    ck.log("built /repo working tree (fault: ASan + recoverable UBSan) in %.1fs" % (time.time() - t))
    ck.builds["fault"] = dest
    return dest


# ----------------------------------------------------------------------------------------- symbolisation
class Sym:
    def __init__(self, exe):
        self.exe, self.cache = exe, {}

    def resolve(self, addrs):
        """addrs: iterable of ints (return addresses) -> fills cache addr -> [(func, file, line)] innermost first"""
        need = sorted(set(a for a in addrs if a not in self.cache))
        for i in range(0, len(need), 4000):
            chunk = need[i:i + 4000]
            p = subprocess.run(["addr2line", "-f", "-i", "-a", "-e", self.exe] + ["0x%x" % (a - 1) for a in chunk],
                               stdout=subprocess.PIPE, stderr=subprocess.DEVNULL, text=True, errors="replace")
            cur = None
            lines = p.stdout.split("\n")
            j = 0
            while j < len(lines):
                l = lines[j]
                if l.startswith("0x"):
                    cur = int(l, 16) + 1
                    self.cache[cur] = []
                    j += 1
                    continue
                if cur is not None and j + 1 < len(lines) and l:
                    fn = l.strip(); loc = lines[j + 1].strip()
                    m = re.match(r"(.*?):(\d+)", loc)
                    f, ln = (m.group(1), int(m.group(2))) if m else (loc, 0)
                    self.cache[cur].append((fn, f, ln))
                    j += 2
                    continue
                j += 1
        return self.cache

    def frames(self, a):
        return self.cache.get(a) or [("??", "??", 0)]


_REPO_FILES = []

def index_repo_files(root):
    """repo-relative paths of all sources of the built tree (to normalise the paths printed by the debug info)"""
    global _REPO_FILES
    out = []
    for top in ("core", "crypto", "matrixssl"):
        for d, _, files in os.walk(os.path.join(root, top)):
            for f in files:
                if f.endswith((".c", ".h")):
                    out.append(os.path.relpath(os.path.join(d, f), root))
    _REPO_FILES = out

_REL_CACHE = {}

def rel_of(path):
    """path as printed by the debugger / sanitizer -> repo-relative file (core/.., crypto/.., matrixssl/..)"""
    if path in _REL_CACHE:
        return _REL_CACHE[path]
    p = os.path.normpath(path.replace("\\", "/"))
    m = re.search(r"(?:^|/)(?:repo-[a-z]+/|wtb/|rec/)((?:core|crypto|matrixssl)/.*)$", p) or re.search(r"^((?:core|crypto|matrixssl)/.*)$", p)
    r = None
    if m and (not _REPO_FILES or m.group(1) in _REPO_FILES):
        r = m.group(1)
    else:
        # compile-directory relative ("keyformat/x509.c", "../core/makefiles/../include/psbuf.h", "src/psbuf.c"): unique suffix match
        tail = p
        while tail.startswith("../"):
            tail = tail[3:]
        c = [f for f in _REPO_FILES if f == tail or f.endswith("/" + tail)]
        if len(c) != 1:
            b = os.path.basename(p)
            c2 = [f for f in _REPO_FILES if os.path.basename(f) == b]
            c = c if len(c) == 1 else (c2 if len(c2) == 1 else c)
        r = c[0] if len(c) == 1 else (m.group(1) if m else p)
    _REL_CACHE[path] = r
    return r


class SiteIndex:
    def __init__(self, sites):
        self.sites = sites
        self.by_base = {}
        for s in sites:
            if s.get("derived"):
                continue
            self.by_base.setdefault(os.path.basename(s["file"]), []).append(s)

    def lookup(self, func, path, line):
        """allocation site whose allocator call is on `line` of file `path` (or within the same statement: +-3 lines, same function)"""
        base = os.path.basename(path)
        rel = rel_of(path)
        cands = [s for s in self.by_base.get(base, []) if s["file"] == rel]
        if not cands:
            cands = self.by_base.get(base, [])
        best = None
        for s in cands:
            d = abs(s["line"] - line)
            fn = re.sub(r"~\d+$", "", s["func"])
            if d <= 3 and (fn == func or d == 0):
                if best is None or d < best[0]:
                    best = (d, s)
        return best[1] if best else None


# ----------------------------------------------------------------------------------------- sanitizer reports
FRAME_RE = re.compile(r"#(\d+) 0x[0-9a-f]+ in (\S+) (\S+?)(?::(\d+))?(?::\d+)?\s*$")
UB_RE = re.compile(r"^(\S+?):(\d+):\d+: runtime error: (.*)$")

def is_lib_path(p):
    return ("/harness/" not in p) and not p.startswith("(") and ("/lib/" not in p) and ("libsanitizer" not in p) and ("sysdeps" not in p) \
        and ("csu/" not in p) and p != "??"

def parse_report(txt, baseline_ub=frozenset()):
    """-> dict(kind, file, func, line, summary, ub=[(file,line,msg,func)])"""
    out = {"kind": None, "ub": []}
    lines = txt.split("\n")
    i = 0
    while i < len(lines):
        l = lines[i]
        m = UB_RE.match(l.strip())
        if m:
            f, ln, msg = rel_of(m.group(1)), int(m.group(2)), m.group(3)
            fn = "?"
            for j in range(i + 1, min(i + 4, len(lines))):
                fm = FRAME_RE.search(lines[j])
                if fm:
                    fn = fm.group(2); break
            if (os.path.basename(f), ln) not in baseline_ub:
                out["ub"].append((f, ln, msg, fn))
        m = re.search(r"ERROR: AddressSanitizer: (attempting \S+|\S+)", l)
        if m and out["kind"] is None:
            out["kind"] = m.group(1).replace("attempting ", "")
            # first frame inside the library
            for j in range(i + 1, min(i + 60, len(lines))):
                fm = FRAME_RE.search(lines[j])
                if fm and is_lib_path(fm.group(3)):
                    out["func"], out["file"], out["line"] = fm.group(2), rel_of(fm.group(3)), int(fm.group(4) or 0)
                    break
                if fm is None and lines[j].startswith("SUMMARY"):
                    break
        if l.startswith("SUMMARY:") and "summary" not in out:
            out["summary"] = l.strip()[:300]
        i += 1
    return out


def baseline_ub_locs(txt):
    s = set()
    for l in txt.split("\n"):
        m = UB_RE.match(l.strip())
        if m:
            s.add((os.path.basename(m.group(1)), int(m.group(2))))
    return s


# ----------------------------------------------------------------------------------------- running the injector
def kv(line):
    d = {}
    for tok in line.split()[1:]:
        if "=" in tok:
            k, v = tok.split("=", 1); d[k] = v
    return d


SESSTAB = {}      # exe -> address of the static server session table (hex), see session_table_address()

def session_table_address(exe):
    """matrixssl.c keeps the server's session cache in a static array; the harness (linked non-PIE) reads the entry of the
    session that just ended through its address from the symbol table"""
    try:
        out = subprocess.run(["nm", exe], stdout=subprocess.PIPE, text=True).stdout
        for l in out.split("\n"):
            t = l.split()
            if len(t) == 3 and t[2] == "g_sessionTable":
                SESSTAB[exe] = t[0]
    except OSError:
        pass
    return SESSTAB.get(exe)


def run_scenario(exe, scen, outdir, nshards, perchild, maxocc, multi, seed, timeout=3000, lsan=False):
    """starts all shards of one scenario; returns the process list for collect().
    lsan: every child additionally asks LeakSanitizer (__lsan_do_recoverable_leak_check) after teardown - about twice as slow;
    the harness's own live-block table (every library block must be freed) is the stricter check and always on."""
    env = dict(os.environ, ASAN_OPTIONS="detect_leaks=%d:exitcode=66:allocator_may_return_null=1:handle_abort=1" % (1 if lsan else 0),
               UBSAN_OPTIONS="print_stacktrace=1")
    if SESSTAB.get(exe):
        env["H_FAULT_SESSTAB"] = SESSTAB[exe]
    if lsan:
        env["H_FAULT_LSAN"] = "1"
    else:
        env.pop("H_FAULT_LSAN", None)
    procs = []
    for sh in range(nshards):
        res = os.path.join(outdir, "%s.m%d.%d.res" % (scen, multi, sh))
        errp = open(res + ".parent.err", "w")
        p = subprocess.Popen(["nice", "-n", "10", exe, scen, res, str(sh), str(nshards), str(perchild), str(maxocc), str(multi), str(seed)],
                             stdout=subprocess.DEVNULL, stderr=errp, env=env)
        procs.append((p, res, errp))
    return procs


def collect(procs, timeout=3000):
    A, F, V, R, B, E = {}, {}, {}, {}, [], []
    perr = ""
    t0 = time.time()
    for p, res, errp in procs:
        try:
            rc = p.wait(timeout=max(5, timeout - (time.time() - t0)))
        except subprocess.TimeoutExpired:
            p.kill(); rc = -9
        errp.close()
        perr += open(res + ".parent.err", errors="replace").read()
        if rc != 0:
            E.append("parent of %s ended with rc=%s" % (os.path.basename(res), rc))
        if not os.path.exists(res):
            continue
        for l in open(res, errors="replace"):
            if not l.endswith("\n"):
                continue
            c = l[0]
            if c == "A":
                t = l.split(); A[int(t[1])] = [int(x, 16) for x in t[2:]]
            elif c == "F":
                d = kv(l); d["res"] = res; F[int(d["k"])] = d
            elif c == "V":
                d = kv(l); V[int(d["k"])] = d
            elif c == "R":
                d = kv(l); d["res"] = res; R[int(d["k"])] = d
            elif c == "B":
                B.append(kv(l))
            elif c == "E":
                E.append(l.strip())
    return {"A": A, "F": F, "V": V, "R": R, "B": B, "E": E, "parent_err": perr}


def leak_sites_of(v):
    """-> [(k, [return addresses innermost first])] of the blocks still live after teardown"""
    ls = v.get("leak_sites", "-")
    if ls in ("-", ""):
        return []
    out = []
    for t in ls.split(","):
        f = t.split(":")
        out.append((int(f[0]), [int(x, 16) for x in f[1:]]))
    return out


GENERIC_ALLOC = re.compile(r"(^|/)(psbuf\.c|psbuf\.h|pstm[\w]*\.c|psUtil\.c|osdep\.c|corelib_\w+\.c)$")

def owner_of(sym, stack):
    """the function that owns a block: innermost frame that is not a generic container/bignum allocator"""
    last = None
    for a in stack:
        for (fn, f, ln) in sym.frames(a):
            last = (fn, f, ln)
            if "/harness/" in f or fn in ("main", "??"):
                return last if last else (fn, f, ln)
            if not GENERIC_ALLOC.search(f.replace("\\", "/")):
                return (fn, f, ln)
    return last or ("??", "??", 0)



def parse_fp(txt):
    """'cp{a=1,b=2,};cp2{..};' -> {cp: {a: '1', ...}}"""
    out = {}
    if not txt or txt == "-":
        return out
    for m in re.finditer(r"([^;{}]+)\{([^}]*)\}", txt):
        d = {}
        for kvp in m.group(2).split(","):
            if "=" in kvp:
                a, b = kvp.split("=", 1); d[a] = b
        out[m.group(1)] = d
    return out


def fp_lost(base, child):
    """fields of objects the child still HAS whose content is missing / different from the fault-free run.
    An object that is absent altogether (no PSK, no ticket, no cache entry: the library dropped it and will do a full
    handshake) is not a loss of content; an object that exists with a part missing is."""
    lost = []
    for cp, c in child.items():
        b = base.get(cp)
        if b is None:
            continue
        if cp.startswith("keys."):
            fields = [f for f in b if b[f] != c.get(f)]
        elif cp.startswith("sid@"):
            fields = []
            if c.get("npsk", "0") != "0" and b.get("npsk", "0") != "0":
                fields += [f for f in ("pskLen", "pskIdLen", "res", "params", "sni", "alpn", "ver", "pcipher", "med", "life") if b.get(f) != c.get(f)]
            if c.get("idLen", "0") != "0" and b.get("idLen", "0") != "0":
                fields += [f for f in ("cid", "ms") if b.get(f) != c.get(f)]
            if c.get("tick", "0") != "0" and b.get("tick", "0") != "0":
                fields += [f for f in ("cid", "ms", "hint", "tickptr") if b.get(f) != c.get(f) and f not in fields]
            if c.get("tick", "0") == "0" and c.get("tickptr") == "1":
                fields.append("tickptr-dangling")          # length says "no ticket" but the pointer is still set
        elif cp.startswith("cache@"):
            fields = [f for f in ("ms", "cipher", "ver", "ems") if b.get(f) != c.get(f)]
        else:
            fields = []
        for f in fields:
            if f == "tickptr-dangling":
                lost.append("%s.%s(sessionTicketLen=0 but sessionTicket still points to a block)" % (cp, f))
            else:
                lost.append("%s.%s(%s->%s)" % (cp, f, b.get(f), c.get(f)))
    return lost



def _nominal_ignoring_leaks(b, scen, neg):
    b2 = dict(b, leaks="0")
    if scen.split("+")[0] in POSITIVE:
        pat = POSITIVE[scen.split("+")[0]]
        return (b2["ok"] == "1" and b2["undoc"] == "-" and b2.get("cfglost", "-") == "-" and b2.get("resumed", "")[:len(pat)] == pat and
                b2.get("cdone", "")[:len(pat)] == "1" * len(pat) and b2.get("sdone", "")[:len(pat)] == "1" * len(pat))
    return (neg != 0 and b2["undoc"] == "-" and b2.get("cfglost", "-") == "-" and b2["app_c"] == "0" and b2["app_s"] == "0" and
            not ((neg & 1) and b2["cdone"][0] == "1") and not ((neg & 2) and b2["sdone"][0] == "1"))


def analyse(ck, exe, scen, data, sidx, sym, multi, report, seed_used=1):
    """report: callable(sig, what, replay).  Returns per-site observations {key: {"reached":n,"crashed":n}}"""
    A, F, V, R, Bs = data["A"], data["F"], data["V"], data["R"], data["B"]
    obs = {}
    if not Bs:
        report("harness:%s" % scen, "fault-free run of scenario %s did not finish (%s)" % (scen, "; ".join(data["E"])[:300]),
               {"scenario": scen, "parent_stderr": data["parent_err"][-1500:]})
        return obs, {}
    b = Bs[0]
    if len(set(x["allocs"] for x in Bs)) != 1:
        # every shard re-runs the scenario: allocation index k must denote the same allocation in all of them
        report("harness-nondeterministic:%s" % scen, "the fault-free run of scenario %s is not deterministic: allocation counts per shard %s" %
               (scen, [x["allocs"] for x in Bs]), {"scenario": scen, "baselines": Bs})
    for e_ in data["E"]:
        ck.notes.append("%s: %s" % (scen, e_))
    base_ub = baseline_ub_locs(data["parent_err"])
    nalloc = int(b["allocs"])
    if base_ub:
        note = "UB reported by UBSan in the FAULT-FREE run (independent of allocation failure, not a C19 finding): " + ", ".join("%s:%d" % x for x in sorted(base_ub))
        if note not in ck.notes:
            ck.notes.append(note)
    # fault-free run must itself be nominal
    neg = int(b.get("neg", "0"))
    base_fp = parse_fp(b.get("fp", "-"))
    base_x = b.get("xname", "-")
    if scen.split("+")[0] in POSITIVE:
        pat = POSITIVE[scen.split("+")[0]]
        nominal = (b["ok"] == "1" and b["leaks"] == "0" and b["undoc"] == "-" and b.get("cfglost", "-") == "-" and
                   b.get("resumed", "")[:len(pat)] == pat and b.get("cdone", "")[:len(pat)] == "1" * len(pat) and b.get("sdone", "")[:len(pat)] == "1" * len(pat))
    else:
        # negative twin: the verification step under test refuses the handshake; nobody listed in `neg` completes, no data flows
        nominal = (neg != 0 and b["leaks"] == "0" and b["undoc"] == "-" and b.get("cfglost", "-") == "-" and b["app_c"] == "0" and b["app_s"] == "0" and
                   not ((neg & 1) and b["cdone"][0] == "1") and not ((neg & 2) and b["sdone"][0] == "1"))
    base_leak_owners = {}
    if b["leaks"] != "0":
        # blocks still live after teardown in the FAULT-FREE run: a leak that needs no allocation failure.  Reported once by its
        # owner (not per scenario); children that leak exactly the same blocks do not repeat it
        bl = leak_sites_of(b)
        sym.resolve(set(a_ for _, st_ in bl for a_ in st_))
        for _, st_ in bl:
            g = owner_of(sym, st_)
            base_leak_owners["%s:%s" % (rel_of(g[1]), g[0])] = base_leak_owners.get("%s:%s" % (rel_of(g[1]), g[0]), 0) + 1
        top = sorted(base_leak_owners.items(), key=lambda x: (-x[1], x[0]))[0][0]
        report("leak:%s" % top, "memory leaked WITHOUT any allocation failure: in the fault-free run of scenario %s %s block(s) stay allocated after the application deleted sessions, session id and keys and called matrixSslClose (owners: %s)" %
               (scen, b["leaks"], ", ".join("%s x%d" % kv_ for kv_ in sorted(base_leak_owners.items()))),
               {"harness": "h_fault", "scenario": scen, "k": 0, "multi": 0, "seed": seed_used, "fault_free": True, "observed": "%s live library blocks after teardown" % b["leaks"],
                "leaked_blocks_owned_by": base_leak_owners, "expected_by_spec": "nothing leaked"})
    if not nominal and not (b["leaks"] != "0" and _nominal_ignoring_leaks(b, scen, neg)):
        report("baseline:%s" % scen, "fault-free run of scenario %s is not nominal: %s" % (scen, {k_: b.get(k_) for k_ in ("ok", "leaks", "undoc", "cfglost", "resumed", "cdone", "sdone", "neg", "app_c", "app_s")}),
               {"scenario": scen, "baseline": b})
    # symbolise everything we need in one go
    addrs = set()
    for k, a in A.items():
        addrs.update(a[:1])
    for k, f in F.items():
        addrs.update(int(x, 16) for x in f.get("bt", "").split(",") if x)
    for k, v in V.items():
        for _, st in leak_sites_of(v):
            addrs.update(st)
    sym.resolve(addrs)
    k2site = {}
    unmapped = {}
    for k, a in A.items():
        if not a:
            continue
        fr = sym.frames(a[0])[0]
        s = sidx.lookup(fr[0], fr[1], fr[2])
        if s is None:
            unmapped[(fr[0], os.path.basename(fr[1]), fr[2])] = unmapped.get((fr[0], os.path.basename(fr[1]), fr[2]), 0) + 1
        k2site[k] = (s, fr)
    stats = {"allocs": nalloc, "injected": len(F), "clean": 0, "crash": 0, "leak": 0, "tolerated": 0, "errors": 0, "alerts": 0, "ub": 0,
             "unmapped": unmapped, "complete_after_verify_fault": 0, "hang": 0, "undoc": 0}
    for k in sorted(F):
        f = F[k]
        s, fr = k2site.get(k, (None, ("??", "??", 0)))
        if s is None and f.get("bt"):
            a0 = int(f["bt"].split(",")[0], 16)
            fr = sym.frames(a0)[0]
            s = sidx.lookup(fr[0], fr[1], fr[2])
        key = s["key"] if s else "?%s:%s" % (os.path.basename(fr[1]), fr[0])
        o = obs.setdefault(key, {"reached": 0, "crashed": 0, "crash_in_func": 0, "site": s, "ks": []})
        o["reached"] += 1
        if len(o["ks"]) < 4: o["ks"].append(k)
        bt_funcs = []
        for x in f.get("bt", "").split(","):
            if x:
                bt_funcs += [g[0] for g in sym.frames(int(x, 16))]
        replay = {"harness": "h_fault", "scenario": scen, "k": k, "multi": multi, "seed": seed_used, "failing_allocation": "%s:%d in %s" % (rel_of(fr[1]), fr[2], fr[0]),
                  "site_key": key, "api_in_progress": f.get("api"), "phase": f.get("phase"), "stack": bt_funcs[:10]}
        r = R.get(k)
        v = V.get(k)
        errfile = f["res"] + ".err.%d" % k
        etxt = open(errfile, errors="replace").read() if os.path.exists(errfile) else ""
        rep = parse_report(etxt, base_ub) if etxt else {"kind": None, "ub": []}
        crashed = (r is None) or ("sig" in r) or (r.get("exit") != "0") or v is None
        if crashed:
            stats["crash"] += 1
            o["crashed"] += 1
            if r is not None and r.get("sig") == "14":
                stats["hang"] += 1
                report("hang:%s" % key, "scenario %s does not terminate after allocation %d (%s) fails" % (scen, k, replay["failing_allocation"]),
                       dict(replay, observed="child killed by SIGALRM after 60 s", expected_by_spec="error return"))
                continue
            cf, cfn, cl = rep.get("file"), rep.get("func"), rep.get("line", 0)
            if not cf and rep["ub"]:
                cf, cl, _, cfn = rep["ub"][0]
            if not cf:
                cf, cfn = "?", "?"
            if s and re.sub(r"~\d+$", "", s["func"]) == cfn:
                o["crash_in_func"] += 1
            sig = "crash:%s:%s" % (cf, cfn)
            what = ("allocation failure crashes the library: %s:%d (%s) returns NULL in scenario %s [%s, allocation #%d] -> %s at %s:%s in %s" %
                    (rel_of(fr[1]), fr[2], fr[0], scen, f.get("phase"), k, rep.get("kind") or ("UB" if rep["ub"] else "abnormal exit"), cf, cl, cfn))
            report(sig, what, dict(replay, observed=(rep.get("summary") or (rep["ub"][0][2] if rep["ub"] else str(r))), crash_at="%s:%s" % (cf, cl),
                                   expected_by_spec="the API call in progress returns an error", report_tail=etxt[-1200:]))
            continue
        stats["clean"] += 1
        # ---- UB reported although the child survived (recoverable UBSan)
        for (uf, ul, msg, ufn) in rep["ub"]:
            stats["ub"] += 1
            report("ub:%s:%s" % (uf, ufn), "undefined behaviour after allocation failure: %s:%d (%s) returns NULL in %s -> %s:%d %s" %
                   (rel_of(fr[1]), fr[2], fr[0], scen, uf, ul, msg), dict(replay, observed=msg, ub_at="%s:%d" % (uf, ul), expected_by_spec="no undefined behaviour"))
        # ---- return code of the API call in progress
        frc = v.get("fault_rc", "?0")
        rc_known = not frc.startswith("?")
        rc = int(frc.lstrip("?") or 0)
        if v.get("undoc", "-") != "-":
            stats["undoc"] += 1
            report("undocumented-rc:%s" % v["undoc"].split(",")[0].split(":")[0], "API call returns an undocumented status after allocation failure at %s: %s" %
                   (replay["failing_allocation"], v["undoc"]), dict(replay, observed=v["undoc"], expected_by_spec="error code or documented status"))
        if rc_known and rc < 0:
            stats["errors"] += 1
        elif v.get("ok") == "0":
            stats["alerts"] += 1          # call returned a status, but the connection ended (alert / no completion)
        else:
            stats["tolerated"] += 1
            o["tolerated"] = o.get("tolerated", 0) + 1
        # ---- handshake reported complete although a verification-path allocation failed on that side
        side = f.get("side", "-")
        if f.get("phase", "").startswith("handshake") and side in "cs" and any(VERIFY_FUNCS.match(g) for g in bt_funcs):
            idx = PHASE_CONN.get(f["phase"], 0)
            done = v.get("cdone" if side == "c" else "sdone", "00000000")
            if done[idx] == "1":
                stats["complete_after_verify_fault"] += 1
                vf = [g for g in bt_funcs if VERIFY_FUNCS.match(g)][0]
                report("complete-after-failed-alloc:%s:%s" % (scen, vf),
                       "handshake reported complete on the %s although an allocation inside %s failed (%s, scenario %s, allocation #%d)" %
                       ("client" if side == "c" else "server", vf, replay["failing_allocation"], scen, k),
                       dict(replay, observed="matrixSslHandshakeIsComplete = 1 on that side", expected_by_spec="handshake fails (alert / error return)"))
        # ---- negative twin: the verification step under test must refuse the handshake under EVERY fault
        vneg = int(v.get("neg", "0"))
        if vneg:
            who = []
            if (vneg & 1) and "1" in v.get("cdone", ""): who.append("client")
            if (vneg & 2) and "1" in v.get("sdone", ""): who.append("server")
            if int(v.get("app_c", "0")) or int(v.get("app_s", "0")): who.append("application data delivered")
            if who:
                stats["verification_skipped"] = stats.get("verification_skipped", 0) + 1
                report("verification-skipped:%s:%s" % (scen, key),
                       "handshake reported complete with a verification step skipped: in scenario %s (a handshake that MUST fail: %s) the %s completed after %s:%d (%s) returned NULL [%s, allocation #%d, call in progress %s -> rc %s]" %
                       (scen, NEG_WHAT.get(scen, scen), " and ".join(who), rel_of(fr[1]), fr[2], fr[0], f.get("phase"), k, f.get("api"), v.get("fault_rc")),
                       dict(replay, observed="cdone=%s sdone=%s app_c=%s app_s=%s" % (v.get("cdone"), v.get("sdone"), v.get("app_c"), v.get("app_s")),
                            expected_by_spec="no side reports HANDSHAKE_COMPLETE: " + NEG_WHAT.get(scen, "")))
        # ---- negative twin across connections: a session for a DIFFERENT server name on the same session id must not
        #      complete unless it also does in the fault-free run (TLS <= 1.2 / external PSK: resumption is not bound to a name)
        vx = v.get("xname", "-")
        if ("C" in vx or "c" in vx) and not ("C" in base_x or "c" in base_x):
            stats["verification_skipped"] = stats.get("verification_skipped", 0) + 1
            report("verification-skipped:%s:xname:%s" % (scen, key),
                   "handshake reported complete with a verification step skipped, two sessions apart: after %s:%d (%s) returned NULL in scenario %s [%s, allocation #%d, call in progress %s -> rc %s] "
                   "a NEW client session for a different server name (other.example.com) on the same application-owned session id was accepted and completed%s; the fault-free run refuses it (probe results %s vs %s)" %
                   (rel_of(fr[1]), fr[2], fr[0], scen, f.get("phase"), k, f.get("api"), v.get("fault_rc"), " as a resumption - no certificate was checked" if "C" in vx else "", vx, base_x),
                   dict(replay, observed="different-name probe: %s (C = completed resumed, c = completed, R = refused by matrixSslNewClientSession, F = handshake failed)" % vx,
                        expected_by_spec="refused or failed, as in the fault-free run (%s)" % base_x))
        # ---- swallowed failure: content of the objects the calls produced / updated, against the fault-free run
        lost = fp_lost(base_fp, parse_fp(v.get("fp", "-")))
        if lost:
            stats["config_lost"] = stats.get("config_lost", 0) + 1
            obj, fld = lost[0].split("(")[0].rsplit(".", 1)
            report("config-lost:%s:%s.%s" % (f.get("api"), obj.split("@")[0], fld),
                   "allocation failure swallowed: %s:%d (%s) returned NULL during %s in scenario %s [%s, allocation #%d], the call reported %s and the run went on, but the object it produced/updated "
                   "differs from the fault-free run in security-relevant content: %s" % (rel_of(fr[1]), fr[2], fr[0], f.get("api"), scen, f.get("phase"), k, v.get("fault_rc"), ", ".join(lost[:6])),
                   dict(replay, observed="; ".join(lost[:10]), expected_by_spec="an error / alert, or the object is complete, or it is dropped as a whole"))
        # ---- an API call reported success but the security-relevant configuration it was asked to install is missing
        if v.get("cfglost", "-") != "-":
            stats["config_lost"] = stats.get("config_lost", 0) + 1
            first = v["cfglost"].split(",")[0]
            report("config-lost:%s" % first,
                   "API call reports success after an allocation failure but did not install what it was asked to: %s missing after %s:%d (%s) returned NULL in scenario %s [%s, allocation #%d] (NULL there means 'not requested': the check is silently off)" %
                   (v["cfglost"], rel_of(fr[1]), fr[2], fr[0], scen, f.get("phase"), k),
                   dict(replay, observed="missing: " + v["cfglost"], expected_by_spec="error return, or the configuration is in place"))
        # ---- leaks
        nl = int(v.get("leaks", "0"))
        if nl:
            stats["leak"] += 1
            o["leaked"] = o.get("leaked", 0) + 1
            ls = leak_sites_of(v)
            where = {}
            for kk, st in ls:
                g = owner_of(sym, st)
                where["%s:%s" % (rel_of(g[1]), g[0])] = where.get("%s:%s" % (rel_of(g[1]), g[0]), 0) + 1
            if base_leak_owners:
                # what the fault-free run leaks anyway is already reported; only the surplus counts here
                for ow, n_ in base_leak_owners.items():
                    if where.get(ow, 0) <= n_: where.pop(ow, None)
                    else: where[ow] -= n_
                nl = sum(where.values())
                if not where:
                    stats["leak"] -= 1
                    continue
            top = sorted(where.items(), key=lambda x: (-x[1], x[0]))[0][0] if where else "?"
            sig = "leak:%s" % top
            report(sig, "memory leaked after the application deleted all objects: %d block(s) owned by %s stay allocated when %s:%d (%s) returns NULL in scenario %s [%s, allocation #%d]%s" %
                   (nl, top, rel_of(fr[1]), fr[2], fr[0], scen, f.get("phase"), k, ("; all owners: " + ", ".join("%s x%d" % kv_ for kv_ in sorted(where.items())[:6])) if len(where) > 1 else ""),
                   dict(replay, observed="%d live library blocks after DeleteSession/DeleteKeys/Close" % nl, leaked_blocks_owned_by=where,
                        expected_by_spec="nothing leaked"))
        if v.get("lsan") not in (None, "-1", "0"):
            report("lsan:%s" % scen, "LeakSanitizer reports unreachable blocks after teardown (scenario %s, allocation #%d)" % (scen, k), replay)
    return obs, stats


def write_replay_hint(d):
    return d


# ----------------------------------------------------------------------------------------- the check
def run(ck):
    ck.trusted += ["tools/srcgen/gen_allocsites.py (lexical allocation-site scanner; its classification of every site reached by a scenario is validated by fault injection on each run)",
                   "coqc 8.16 kernel + vm_compute", "gcc AddressSanitizer/UBSan runtime, addr2line (search engine only)",
                   "harness/h_fault.c + harness/sess.h (scenario driver, allocation interposer)"]
    ck.assumptions += ["every dynamic allocation of the library goes through the psMalloc macro family of core/include/psmalloc.h, i.e. libc malloc/calloc/realloc in this configuration (the translator also lists direct Malloc/malloc calls)",
                       "configuration = configs/default as built by tools/c19/build_fault.sh",
                       "single allocator outcome per site execution: a fresh block or NULL"]
    thorough = ck.tier == "thorough"
    t0 = time.time()
    # ---- 1. table + theorems
    ck.regen([("gen_allocsites.py", "--json", os.path.join(ck.scratch, "sites.json"))])
    sites = json.load(open(os.path.join(ck.scratch, "sites.json")))
    hist = {}
    for s in sites:
        c = s["cls"] + (":" + s["kind"] if s["cls"] == "UsedUnguarded" else "")
        hist[c] = hist.get(c, 0) + 1
        ck.count("site-class:" + c)
    ck.log("allocation sites: %d  %s" % (len(sites), " ".join("%s=%d" % x for x in sorted(hist.items()))))
    # statically visible sites that use the result without a test are findings whether or not the configuration builds them: each
    # is reported by its own signature (an entry of known_findings.json may list it as open: then it prints as KNOWN-FINDING)
    # GuardedButSwallowed sites are violations unless coq/Res/ResModel.v lists them as reviewed-benign (the table theorem uses
    # the same list; it is read here only to give each unreviewed site its own finding)
    mm = re.search(r"Definition benign_swallowed_keys.*?:=\s*\[(.*?)\]\.", re.sub(r"\(\*.*?\*\)", "", open(os.path.join(vlib.COQ, "Res/ResModel.v")).read(), flags=re.S), re.S)
    benign = set(re.findall(r'"([^"]+)"', mm.group(1))) if mm else set()
    ck.cov["guarded_but_swallowed"] = [{"site": s["key"], "line": s.get("line"), "benign": s["key"] in benign, "why": s.get("why")} for s in sites if s["cls"] == "GuardedButSwallowed"]
    for s in sites:
        if s["cls"] == "GuardedButSwallowed" and s["key"] not in benign:
            ck.spec_violation("swallowed:%s:%s" % (s["file"], s["key"].split(":", 1)[-1]),
                              "allocation failure is swallowed at %s:%s in %s (%s): the NULL test exists, but the failing branch neither leaves the function nor records an error - the function carries on with a partially built object (%s) and its caller is told nothing; not on the reviewed benign list of coq/Res/ResModel.v" %
                              (s["file"], s.get("line", "?"), s.get("func", "?"), s.get("why"), s.get("lhs")),
                              {"site": s["key"], "class": s["cls"], "found_by": "translator table (static)", "why": s.get("why")})
    for s in sites:
        if s["cls"] in ("UsedUnguarded", "StoredUnchecked", "Unknown"):
            ck.spec_violation("crash:%s:%s" % (s["file"], s["key"].split(":", 1)[-1]),
                              "allocation result used without a NULL test (%s %s) at %s:%s in %s" % (s["cls"], s.get("kind", ""), s["file"], s.get("line", "?"), s.get("func", "?")),
                              {"site": s["key"], "class": s["cls"], "kind": s.get("kind"), "found_by": "translator table (static)", "why": s.get("why")})
    coq_ok = ck.coq_properties()
    if hasattr(ck, "_model_unlock"):
        ck._model_unlock()  # no extraction in this check: the shared coq/ tree is not needed any more
    # ---- 2. fault sweep
    R = build_fault_variant(ck)
    exe = ck.cc("h_fault.c", variant="fault", wraps=WRAPS, extra=SAN)
    index_repo_files(R)
    session_table_address(exe)
    sidx = SiteIndex(sites)
    sym = Sym(exe)
    outdir = os.path.join(ck.scratch, "fault")
    os.makedirs(outdir, exist_ok=True)
    scen = ALL_SCEN if thorough else QUICK_SCEN
    findings = {}
    def report(sig, what, replay):
        if sig in findings:
            findings[sig]["count"] += 1
            return
        findings[sig] = {"what": what, "replay": replay, "count": 1}
    allobs = {}
    totals = {}
    unmapped_all = {}
    occ = 0 if thorough else QUICK_OCC
    plans = [(s, 0, occ) for s in scen]
    if thorough:
        plans += [(s, 40, 0) for s in scen if s != "keys" and "+" not in s] + [(s, 400, 0) for s in POSITIVE] + [(s, 7, 0) for s in QUICK_SCEN]
    for (s, multi, maxocc) in plans:
        t1 = time.time()
        procs = run_scenario(exe, s, outdir, 4, 2, maxocc, multi, ck.seed + (multi * 1000), lsan=(thorough and multi == 0 and "+" not in s))
        data = collect(procs, timeout=3000)
        obs, st = analyse(ck, exe, s, data, sidx, sym, multi, report, seed_used=ck.seed + (multi * 1000))
        for key, o in obs.items():
            a = allobs.setdefault(key, {"reached": 0, "crashed": 0, "crash_in_func": 0, "site": o["site"], "tolerated": 0, "leaked": 0, "scen": set()})
            for f in ("reached", "crashed", "crash_in_func"):
                a[f] += o[f]
            a["tolerated"] += o.get("tolerated", 0); a["leaked"] += o.get("leaked", 0); a["scen"].add(s)
        for k_, v_ in st.items():
            if isinstance(v_, int):
                totals[k_] = totals.get(k_, 0) + v_
        if st:
            ck.cov["evaluations"] += st.get("injected", 0)
            ck.cov["traces_validated_against_impl"] += st.get("injected", 0)
            ck.count("scenario:%s%s" % (s, ":multi%d" % multi if multi else ""), st.get("injected", 0))
            ck.log("fault sweep %-16s multi=%-3d allocations=%d injected=%d clean=%d crash=%d leak=%d error-rc=%d ended-with-alert=%d tolerated=%d  (%.1fs)" % (
                s, multi, st["allocs"], st["injected"], st["clean"], st["crash"], st["leak"], st["errors"], st["alerts"], st["tolerated"], time.time() - t1))
            for u, n_ in st["unmapped"].items():
                unmapped_all[u] = unmapped_all.get(u, 0) + n_
        for f in glob.glob(os.path.join(outdir, "*")):
            try: os.remove(f)
            except OSError: pass
    # ---- 3. translator validation: classification vs observed behaviour of every reached site
    reached_sites = [k for k, o in allobs.items() if o["site"] is not None]
    disagree = []
    for key, o in sorted(allobs.items()):
        s = o["site"]
        if s is None:
            continue
        ck.add_distinct("site:" + key)
        if s["cls"] == "GuardedBeforeUse" and o["crash_in_func"] > 0:
            disagree.append("%s classified GuardedBeforeUse but %d/%d failures crash inside %s" % (key, o["crash_in_func"], o["reached"], s["func"]))
        if s["cls"] == "UsedUnguarded" and o["crashed"] == 0:
            disagree.append("%s classified UsedUnguarded(%s) but none of its %d failures crashes" % (key, s.get("kind"), o["reached"]))
        if s["cls"] == "Unknown":
            disagree.append("%s is Unknown to the translator (reached %d times, crashed %d)" % (key, o["reached"], o["crashed"]))
    for (fn, f, ln), n_ in sorted(unmapped_all.items(), key=lambda x: -x[1]):
        disagree.append("library allocation at %s:%d (%s), executed %d times, is not in the translator's table" % (f, ln, fn, n_))
    ck.corr.append({"name": "translator classification vs fault injection (reached sites)", "cases": len(reached_sites), "disagreements": len(disagree),
                    "first": [{"case": d} for d in disagree[:8]]})
    ck.log("translator validation: %d table sites reached by the scenarios (of %d), %d disagreements" % (len(reached_sites), len(sites), len(disagree)))
    for d in disagree:
        ck.log("  DISAGREE: " + d)
    # histogram for the evidence
    for key, o in allobs.items():
        s = o["site"]
        ck.count("reached:" + (s["cls"] if s else "not-a-table-site"))
    dtls_sites = [s_["key"] for s_ in sites if s_.get("dtls_only")]
    dtls_reached = sorted(k_ for k_ in dtls_sites if k_ in allobs)
    ck.cov["dtls_only_sites"] = {"in_table": len(dtls_sites), "reached": dtls_reached, "not_reached": sorted(set(dtls_sites) - set(dtls_reached))}
    ck.log("DTLS-only allocation sites (#ifdef USE_DTLS / dtls.c): %d in the table, %d reached: %s" % (len(dtls_sites), len(dtls_reached), " ".join(dtls_reached)))
    ck.cov["sites_total"] = len(sites)
    ck.cov["sites_reached"] = len(reached_sites)
    ck.cov["site_classes"] = hist
    ck.cov["sweep_totals"] = totals
    ck.cov["exhaustive"] = False
    ck.cov["exhaustive_single_fault_scenarios"] = scen
    tol = sorted(((k, o["tolerated"]) for k, o in allobs.items() if o["tolerated"]), key=lambda x: -x[1])
    ck.cov["tolerated_failures_by_site"] = tol[:40]
    ck.cov["explored_only"] = [
        "unwinding correctness after a failed allocation (no leak, no double free, no stale pointer in application-owned objects) outside the table lemma: explored by fault injection over the scenarios (thorough: every allocation of every scenario; quick: the first %d executions of every (call stack, API call, phase) combination), not proved" % QUICK_OCC,
        "error propagation in the CALLERS of a guarded site (the error edge reaches the API boundary as an error code / alert): explored, not proved",
        "'no handshake reported complete with a verification step skipped': explored by the negative-twin scenarios (a handshake that must fail - wrong name, wrong CA, untrusted client certificate, rejecting callback, wrong PSK - must fail under every fault position) and by the installed-configuration check after every successful API call; not a theorem",
        "swallowed failures: the translator finds NULL tests whose failing branch carries on (GuardedButSwallowed) lexically; the sweep compares the content of session id, keys and server cache entry with the fault-free run at checkpoints and probes a different-name session on the same session id - fields outside those fingerprints are not compared",
        "TLS <= 1.2 / external-PSK resumption is not bound to a server name by the library: the different-name probe completes in the fault-free run there and carries no oracle",
        "sites not reached by any scenario (%d of %d): covered by the table theorem only, their classification is not cross-checked by execution" % (len(sites) - len(reached_sites), len(sites)),
        "the translator finds allocation wrappers lexically (pointer-returning functions whose return value is an allocation result); a wrapper that hands its block back through an out-parameter is covered through the caller's test of the status code only",
        "GuardedBeforeUse says that a NULL test precedes every use on the text the scanner follows; that the tested branch really leaves the function is explored, not proved",
        "allocations made by libc on behalf of the library (fopen, getline, ...) are outside the interposer; DTLS: one lost flight per scenario at the flight boundaries only (resend in the middle of a flight is an open C16 finding), no reordering / duplication",
    ]
    ck.rules.append("scenarios: " + ", ".join(scen))
    ck.rules.append("fault points: thorough = EVERY library allocation k of each scenario's fault-free run (exhaustive single fault, fork at the allocation) + random multi-fault "
                    "(after the first failure each later allocation fails with p=1/40, 1/400, 1/7); quick = deterministic subsample: the first %d executions of every (call stack, API call, phase) combination; "
                    "oracles per fault: no crash/sanitizer report, documented return codes, configuration installed after a successful call, negative twins never complete, "
                    "no live library block after the application deleted sessions, session id and keys; non-trivial = distinct table site driven to failure" % QUICK_OCC)
    # ---- 4. findings
    order = sorted(findings.items(), key=lambda x: (0 if x[0].startswith("crash") else 1 if x[0].startswith("complete") else 2, x[0]))
    for sig, f in order:
        f["replay"]["occurrences_in_this_run"] = f["count"]
        r = ck.spec_violation(sig, f["what"], f["replay"])
        ck.log("%s %s (x%d)" % ("KNOWN " if r == "known" else "FINDING", sig, f["count"]))
    ck.cov["samples"] = [{"finding": sig, "what": f["what"][:300]} for sig, f in order[:6]] + \
                        [{"site": k, "class": o["site"]["cls"], "failures_injected": o["reached"], "crashed": o["crashed"], "leaked": o["leaked"]}
                         for k, o in sorted(allobs.items())[:6] if o["site"]]
    ck.log("C19 total %.1fs" % (time.time() - t0))


def replay(ck, path):
    """re-run one recorded fault: scenario + allocation index k (+ multi/seed), with the same oracles as the sweep"""
    rp = json.load(open(path))["replay"]
    if rp.get("harness") != "h_fault":
        print("replay: nothing executable recorded (obligation failure?)"); print(json.dumps(rp, indent=1)[:2000]); return
    R = build_fault_variant(ck)
    exe = ck.cc("h_fault.c", variant="fault", wraps=WRAPS, extra=SAN)
    index_repo_files(R)
    vlib.sh([sys.executable, os.path.join(VERIF, "tools/srcgen/gen_allocsites.py"), "--no-write", "--json", os.path.join(ck.scratch, "sites.json")],
            env=dict(os.environ, VERIF_REPO=vlib.REPO))
    sites = json.load(open(os.path.join(ck.scratch, "sites.json")))
    outdir = os.path.join(ck.scratch, "replay"); os.makedirs(outdir, exist_ok=True)
    res = os.path.join(outdir, "r.res")
    env = dict(os.environ, ASAN_OPTIONS="detect_leaks=0:exitcode=66:allocator_may_return_null=1", UBSAN_OPTIONS="print_stacktrace=1")
    if session_table_address(exe):
        env["H_FAULT_SESSTAB"] = SESSTAB[exe]
    k = int(rp["k"]); multi = int(rp.get("multi", 0)); seed = int(rp.get("seed", 1))
    errp = open(res + ".parent.err", "w")
    p = subprocess.Popen([exe, rp["scenario"], res, str(k), "100000000", "1", "0", str(multi), str(seed)], env=env, stdout=subprocess.DEVNULL, stderr=errp)
    data = collect([(p, res, errp)], timeout=600)
    txt = open(res).read() if os.path.exists(res) else ""
    print("\n".join(l[:600] for l in txt.split("\n") if l[:1] in "FVRB"))
    ef = res + ".err.%d" % k
    if os.path.exists(ef):
        print(open(ef, errors="replace").read()[-3000:])
    found = {}
    def report(sig, what, replay_):
        found.setdefault(sig, (what, replay_))
    analyse(ck, exe, rp["scenario"], data, SiteIndex(sites), Sym(exe), multi, report, seed_used=seed)
    for sig, (what, r_) in found.items():
        print("REPLAYED: %s\n  %s" % (sig, what))
        ck.violation("replayed fault still violates C19: " + what, dict(r_, signature=sig), found_input=True)
    if not found:
        print("replay: the recorded fault no longer violates the property")
