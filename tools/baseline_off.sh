#!/bin/bash
# Baseline with the verification guard OFF: scratch copy of /repo's working tree, plain `make`,
# run the five crypto test programs; print their output (the 106 named cases).
set -e
B=/var/tmp/mv-baseline.$$
trap 'rm -rf "$B"' EXIT
mkdir -p "$B"
rsync -a --exclude .git --exclude '*.o' --exclude '*.a' /repo/ "$B"/
cd "$B"
make -j16 > "$B/build.log" 2>&1 || { tail -40 "$B/build.log"; exit 2; }
fail=0
for t in algorithmTest eccTest rsaTest hmacTest cryptoOpen; do
  echo "== $t"
  (cd crypto/test && timeout 900 ./$t) || fail=1
done
exit $fail
