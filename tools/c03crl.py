"""C03, revocation clause: CRL pools, case generators and the independent oracles.

Two levels, both through the library's public CRL API (psX509ParseCRL, psX509AuthenticateCRL,
psCRL_Update / psCRL_Insert, the consultation inside psX509AuthenticateCert):

  graph level  (harness ops vk / ak, compared with the extracted model and with Oracle.revoked_in):
      certificate graphs as in the rest of C03 (fields overridden on parsed testkeys certificates,
      serial numbers included), CRLs parsed from DER made here and signed with the testkeys CA keys;
  DER level    (harness op rv, compared with DerOracle only): nothing overridden - certificates
      re-issued here under the testkeys CAs with serial numbers of every shape, real CRLs, the public
      matrixValidateCerts.

Everything here is independent of the library: DER and RSA come from tools/c03pki.py."""
import os
from c03pki import (Cert, Crl, RsaKey, make_crl, pem_blocks, kids, int_value, is_minimal_int,
                    OID_KU, OID_BC, BC_CA_NOLIMIT, KU_SIGN_CRL, KU_SIGN_ONLY)

# CA certificates of props/C03.TABLE whose private key testkeys ships as PKCS#1
SIGNERS = {"RSA/1024_RSA_CA": "RSA/1024_RSA_CA_KEY", "RSA/2048_RSA_CA": "RSA/2048_RSA_CA_KEY", "RSA/3072_RSA_CA": "RSA/3072_RSA_CA_KEY",
           "RSA/4096_RSA_CA": "RSA/4096_RSA_CA_KEY", "EC/ED25519_CA": "EC/ED25519_CA_KEY",
           "ECDH_RSA/1024_ECDH-RSA_CA": "ECDH_RSA/1024_ECDH-RSA_CA_KEY", "ECDH_RSA/2048_ECDH-RSA_CA": "ECDH_RSA/2048_ECDH-RSA_CA_KEY"}

H = bytes.fromhex
TOP20 = H("00") + H("9a") + bytes(range(1, 19)) + H("77")          # 20-octet value with the top bit set: DER prepends 00
LOW20 = H("5b") + bytes(range(30, 49))
SERIALS = [H("01"), H("00"), H("7f"), H("0080"), H("00c4a10001"), H("c4a10001"), H("ff"), H("80"), H("44a10002"),
           TOP20, LOW20, H("00ff") + bytes(38), H("1001"), H("00f31651f547286f03")]
NONMINIMAL = [H("0001"), H("00007f"), H("ffff"), H("0000c4a10001"), b""]

def near_misses(s):
    out = []
    if len(s) > 1 and s[0] == 0: out.append(s[1:])          # the sign octet dropped: another number (negative)
    out.append(b"\x00" + s)                                  # one more leading zero: same number, not DER (or 0 -> 00 00)
    if s: out += [s[:-1] + bytes([s[-1] ^ 1]), s[:-1], s + b"\x00"]
    return [x for x in out if x != s]

def shape(s):
    if len(s) == 0: return "empty"
    if not is_minimal_int(s): return "nonminimal"
    if s[0] == 0 and len(s) > 1: return "topbit"
    if s[0] & 0x80: return "negative"
    if int_value(s) == 0: return "zero"
    return "long" if len(s) >= 16 else "small"

def shex(s): return s.hex() if s else "e"


class Keys:
    def __init__(self, repo):
        self.k = {}
        for ca, kf in SIGNERS.items():
            self.k[ca] = RsaKey(open(os.path.join(repo, "testkeys", kf + ".pem")).read())


# ---------------------------------------------------------------- graph level
class CrlPool:
    """CRLs for the vk / ak lines: (DER, signer table index, serial list)"""
    def __init__(self, U, keys, r, alg_number):
        self.U, self.alg = U, alg_number
        self.entries = []
        allser = SERIALS + NONMINIMAL
        lists = [[], [H("01")], [H("00c4a10001"), H("44a10002"), TOP20], [H("c4a10001")], list(SERIALS), [H("01"), H("01"), H("7f")], NONMINIMAL[:4] + [H("01")]]
        for _ in range(6):
            base = r.sample(allser, r.choice([1, 2, 3, 5]))
            lists.append([x if r.random() < 0.7 else r.choice(near_misses(x) or [x]) for x in base])
        signers = [(U.names.index(ca), keys.k[ca]) for ca in SIGNERS if ca in U.names and U.ok[U.names.index(ca)]]
        self.signers = [i for i, _ in signers]
        for si, (ci, key) in enumerate(signers):
            mine = lists if si < 3 else r.sample(lists, 4)
            for L in mine:
                if len(self.entries) >= 90: break
                if len(key.n.to_bytes(key.k, "big")) >= 512 and len(L) > 3: continue     # keep RSA-4096 signing rare
                issuer = Cert(U.ders[ci]).subject
                der = make_crl(issuer, key, L, entry_ext=(None if r.random() < 0.7 else H("300a0603551d1504030a0101")),
                               crl_ext=(None if r.random() < 0.5 else H("300a0603551d140403020105")), gen_time=r.random() < 0.2)
                self.entries.append((der, ci, list(L)))
        self.by_signer = {}
        for i, (_, ci, _) in enumerate(self.entries): self.by_signer.setdefault(U.key_id[ci], []).append(i)

    def lines(self): return ["crl %d %s" % (i, e[0].hex()) for i, e in enumerate(self.entries)]
    def serials(self, ci): return self.entries[ci][2]
    def signer_id(self, ci): return self.U.key_id[self.entries[ci][1]]

KFIELDS = "ci iss au ap ex nu co ss up".split()

def crl_tok(P, k):
    ser = ".".join(shex(s) for s in P.serials(k["ci"])) or "-"
    return ":".join(str(k[f]) for f in KFIELDS) + ":%d:%d:%s" % (P.signer_id(k["ci"]), P.alg, ser)

def gen_cache(G, P, r, chain, anchors, right):
    """serial numbers for every node and a CRL cache aimed at the chain"""
    U = G.U
    allser = SERIALS + NONMINIMAL
    for n in chain + anchors: n["serial"] = r.choice(allser)
    toks = []
    for _ in range(r.choice([0, 1, 1, 1, 2, 2, 3])):
        t = r.randrange(len(chain))
        issuer_idx = t + 1 if t + 1 < len(chain) else (len(chain) + right if right is not None else None)
        nodes = chain + anchors
        want_key = None
        if issuer_idx is not None:
            isn = nodes[issuer_idx]
            want_key = U.key_id[isn["k"] if isn["k"] >= 0 else isn["b"]]
        cands = P.by_signer.get(want_key) if (want_key in P.by_signer and r.random() < 0.75) else None
        ci = r.choice(cands) if cands else r.randrange(len(P.entries))
        L = P.serials(ci)
        if L and r.random() < 0.6:
            s = r.choice(L)
            chain[t]["serial"] = s if r.random() < 0.65 else r.choice(near_misses(s) or [s])
        k = dict(ci=ci, iss=chain[t]["iss"] if r.random() < 0.88 else r.choice([chain[t]["subj"], 777]),
                 au=1 if r.random() < 0.4 else 0,
                 ap=(issuer_idx if (issuer_idx is not None and r.random() < 0.7) else r.randrange(len(nodes))) if r.random() < 0.4 else -1,
                 ex=1 if r.random() < 0.05 else 0, nu=r.choice([0] * 9 + [1, 2]), co=1 if r.random() < 0.08 else 0,
                 ss=r.randrange(len(P.entries)) if r.random() < 0.05 else -1, up=1 if r.random() < 0.5 else 0)
        if issuer_idx is not None and r.random() < 0.5:
            nodes[issuer_idx]["ku"] = r.choice([6, 6, 6, 2, 0x86, 4, 0])          # cRLSign present / absent on the CRL issuer
        toks.append(k)
    return toks

def parse_ktok(tok):
    f = tok.split(":")
    k = dict(zip(KFIELDS, [int(x) for x in f[:9]]))
    k["sf"] = int(f[9]); k["serials"] = [] if f[11] == "-" else [(b"" if h == "e" else bytes.fromhex(h)) for h in f[11].split(".")]
    return k


class CacheOracle:
    """ChainSpec.revoked_in / not_listed on the cache the case loads (independent transcription of
    psX509AuthenticateCRL's conditions and of Insert / Update)"""
    def __init__(self, O): self.O = O
    def crl_sig_true(self, k, node):
        return k["co"] == 0 and k["ss"] in (-1, k["ci"]) and k["sf"] == self.O.key(node)
    def authenticates(self, k, node):
        return (node["ku"] & 2) != 0 and k["iss"] == node["subj"] and self.crl_sig_true(k, node)
    def load(self, ktoks, nodes):
        K = []
        for k in ktoks:
            e = dict(k); e["auth"] = bool(k["au"])
            if k["ap"] >= 0: e["auth"] = self.authenticates(k, nodes[k["ap"]])
            if k["up"]:
                for i, x in enumerate(K):
                    if x["iss"] == e["iss"]: del K[i]; break
            K.append(e)
        return K
    @staticmethod
    def first(K, c):
        for e in K:
            if e["iss"] == c["iss"]: return e
        return None
    @staticmethod
    def current(e): return not e["ex"] and e["nu"] not in (1, 2)
    def revoked_in(self, K, c):
        e = self.first(K, c)
        return e is not None and e["auth"] and self.current(e) and c["serial"] in e["serials"]
    def not_listed(self, K, c):
        e = self.first(K, c)
        return e is None or c["serial"] not in e["serials"]
    def tidy(self, K): return len(set(e["iss"] for e in K)) == len(K) and all(self.current(e) for e in K)
    def literally_revoked(self, K, c):
        return any(e["iss"] == c["iss"] and e["auth"] and c["serial"] in e["serials"] for e in K)
    def literal_exception(self, K, c):
        """the certificate is listed in an authenticated loaded CRL of its issuer name that the cache rule does not apply:
        'shadowed' - that CRL is not the first one cached under the name;  'stale' - it is the first one but past nextUpdate"""
        first = self.first(K, c)
        for e in K:
            if e["iss"] == c["iss"] and e["auth"] and c["serial"] in e["serials"]:
                if e is not first: return "shadowed"
                if not self.current(e): return "stale"
        return None
    @staticmethod
    def encoding_matters(K, c):
        """some entry names the same NUMBER as the certificate's serial with other octets (non-DER encodings involved)"""
        return any(e["iss"] == c["iss"] and any(s != c["serial"] and int_value(s) == int_value(c["serial"]) and (s or c["serial"]) for s in e["serials"]) for e in K)


# ---------------------------------------------------------------- DER level
def ku_has_crlsign(cert):
    for oid, _, val in cert.exts:
        if oid == OID_KU:
            bits = kids(val)[0][1]
            return len(bits) >= 2 and (bits[1] & 0x02) != 0
    return False

class DerWorld:
    """re-issued certificates and CRLs over two CAs:  A = testkeys 2048 CA (trust anchor, pathLen lifted),
    I = testkeys 3072 CA re-issued under A as an intermediate with cRLSign"""
    LEAF_SER = [H("01"), H("00c4a10001"), H("c4a10001"), H("44a10002"), TOP20, LOW20, H("00"), H("7f"), H("0080"), H("ff")]
    INT_SER = [H("009a77"), H("1a77"), TOP20, H("02")]
    def __init__(self, repo, keys):
        def der(p): return pem_blocks(open(os.path.join(repo, "testkeys", p + ".pem")).read(), "CERTIFICATE")[0]
        self.kA, self.kI, self.kX = keys.k["RSA/2048_RSA_CA"], keys.k["RSA/3072_RSA_CA"], keys.k["RSA/1024_RSA_CA"]
        self.A = Cert(Cert(der("RSA/2048_RSA_CA")).reissue(self.kA, ext={OID_BC: BC_CA_NOLIMIT}))
        ca3, self.leafA0, self.leafI0 = Cert(der("RSA/3072_RSA_CA")), Cert(der("RSA/2048_RSA")), Cert(der("RSA/3072_RSA"))
        self.I = {s: Cert(ca3.reissue(self.kA, serial=s, issuer=self.A.subject, aki=self.A.ski(), ext={OID_KU: KU_SIGN_CRL, OID_BC: BC_CA_NOLIMIT})) for s in self.INT_SER}
        self.I_nocrlsign = Cert(ca3.reissue(self.kA, serial=H("009a77"), issuer=self.A.subject, aki=self.A.ski(), ext={OID_KU: KU_SIGN_ONLY, OID_BC: BC_CA_NOLIMIT}))
        self.leafA = {s: Cert(self.leafA0.reissue(self.kA, serial=s)) for s in self.LEAF_SER}
        self.leafI = {s: Cert(self.leafI0.reissue(self.kI, serial=s)) for s in self.LEAF_SER}
        self.crl_cache = {}
    def crl(self, who, serials, signer="own", next_update=(2030, 1, 1), tamper=False):
        key = (who, tuple(serials), signer, next_update, tamper)
        if key not in self.crl_cache:
            name = self.A.subject if who == "A" else next(iter(self.I.values())).subject
            k = {"own": self.kA if who == "A" else self.kI, "other": self.kX, "swap": self.kI if who == "A" else self.kA}[signer]
            self.crl_cache[key] = make_crl(name, k, list(serials), next_update=next_update, tamper=tamper)
        return self.crl_cache[key]

def der_cases(W, r, n):
    """(line, meta) for the rv op"""
    out = []
    for _ in range(n):
        two = r.random() < 0.5
        if two:
            si, sl = r.choice(W.INT_SER), r.choice(W.LEAF_SER)
            inter = W.I_nocrlsign if r.random() < 0.08 else W.I[si]
            chain = [W.leafI[sl], inter]
        else:
            chain = [W.leafA[r.choice(W.LEAF_SER)]]
        anchors = [W.A]
        crls = []
        for _ in range(r.choice([0, 1, 1, 1, 2, 2, 3])):
            who = r.choice(["A", "I"]) if two else r.choice(["A", "A", "A", "I"])
            target = chain[-1] if who == "A" else chain[0]
            pool = W.LEAF_SER + W.INT_SER
            L = []
            for _ in range(r.choice([0, 1, 1, 2, 3])):
                s = r.choice(pool)
                L.append(s if r.random() < 0.7 else r.choice(near_misses(s) or [s]))
            if r.random() < 0.55:
                s = target.serial
                L.insert(r.randrange(len(L) + 1), s if r.random() < 0.7 else r.choice(near_misses(s)))
            signer = r.choice(["own"] * 7 + ["other", "swap"])
            nu = r.choice([(2030, 1, 1)] * 8 + [(2019, 1, 1), None])
            der = W.crl(who, L, signer, nu, tamper=(r.random() < 0.06 and len(L) > 0))
            by = r.choice(["a0", "a0", "-"]) if who == "A" else r.choice(["c1", "-", "-", "a0"])
            if not two and by == "c1": by = "-"
            crls.append((der, by, r.choice("ui")))
        has_absent = any(Crl(d).next_update is None for d, _, _ in crls)
        line = "rv 20200615 %d %d %d %s" % (len(chain), len(anchors), len(crls),
               " ".join([c.der.hex() for c in chain + anchors] + ["%s:%s:%s" % (d.hex(), by, m) for d, by, m in crls]))
        out.append((line, dict(chain=chain, anchors=anchors, crls=crls, has_absent=has_absent)))
    return out

CRIT_OCTETS = [0xff, 0x01, 0x80, 0x7f, 0xfe, 0x00]
OID_UNKNOWN, OID_NC, OID_EKU = bytes([0x55, 0x1d, 99]), bytes([0x55, 0x1d, 30]), bytes([0x55, 0x1d, 37])
EKU_CODESIGN_ONLY = bytes.fromhex("300a06082b06010505070303")
NAME_CONSTRAINTS = bytes.fromhex("300ba00930078205612e636f6d")

def crit_cases(W):
    """DER level, no CRLs: the `critical` BOOLEAN of an extension in every spelling of TRUE (any non-zero content octet - BER,
    the parser's own reading for basicConstraints cA, OpenSSL's reading) and explicit FALSE as the control, on the leaf and on
    an intermediate.  -> (rv line, kind, octet, must_not_be_accepted)"""
    out = []
    H = bytes.fromhex
    inter0 = W.I[H("009a77")]
    for cb in CRIT_OCTETS:
        bad = cb != 0
        def rv(chain): return "rv 20200615 %d 1 0 %s" % (len(chain), " ".join(x.hex() for x in chain + [W.A.der]))
        out.append((rv([W.leafA0.reissue(W.kA, serial=H("21"), add_ext=[(OID_UNKNOWN, cb, H("04020102"))])]), "leaf-unrecognised", cb, bad))
        out.append((rv([W.leafA0.reissue(W.kA, serial=H("22"), add_ext=[(OID_NC, cb, NAME_CONSTRAINTS)])]), "leaf-nameConstraints", cb, bad))
        out.append((rv([W.leafA0.reissue(W.kA, serial=H("23"), ext={OID_EKU: EKU_CODESIGN_ONLY}, crit={OID_EKU: cb})]), "leaf-eku-not-for-tls", cb, bad))
        i1 = inter0.reissue(W.kA, add_ext=[(OID_UNKNOWN, cb, H("04020102"))])
        out.append((rv([W.leafI[H("01")].der, i1]), "intermediate-unrecognised", cb, bad))
        i2 = inter0.reissue(W.kA, add_ext=[(OID_NC, cb, NAME_CONSTRAINTS)])
        out.append((rv([W.leafI[H("01")].der, i2]), "intermediate-nameConstraints", cb, bad))
    return out

def meta_from_rv_line(line):
    """rebuild the description of an rv line (corpus / replay) from its DER"""
    t = line.split()
    nc, na, nk = int(t[2]), int(t[3]), int(t[4])
    certs = [Cert(bytes.fromhex(h)) for h in t[5:5 + nc + na]]
    crls = []
    for tok in t[5 + nc + na:5 + nc + na + nk]:
        h, by, mode = tok.split(":")
        crls.append((bytes.fromhex(h), by, mode))
    return dict(chain=certs[:nc], anchors=certs[nc:], crls=crls, has_absent=any(Crl(d).next_update is None for d, _, _ in crls))

class DerOracle:
    """the property's clause read off the DER: a certificate of the presented path is revoked when an authenticated
    CRL the application loaded under its issuer's name lists its serial number (INTEGER value).  'revoked' = the CRL
    that does so is the one the cache consults (first under the name, not stale); 'exception' = it is one the cache
    passes over (open findings C03-crl-shadowed / C03-crl-stale).  Only the first CRL of a name is ever offered to the
    chain parent for authentication on the fly; the others count when the application authenticated them."""
    NOW = 1592222400          # 2020-06-15 12:00:00 UTC, the pinned calendar
    @staticmethod
    def auth_by(crl, cert):
        return cert is not None and cert.subject == crl.issuer and ku_has_crlsign(cert) and crl.signed_by(cert.spki)
    def verdict(self, meta):
        chain, anchors = meta["chain"], meta["anchors"]
        loaded = []                                   # cache order after Update / Insert
        for der, by, mode in meta["crls"]:
            c = Crl(der)
            bycert = anchors[int(by[1:])] if by[0] == "a" else chain[int(by[1:])] if by[0] == "c" else None
            e = dict(crl=c, explicit=self.auth_by(c, bycert))
            if mode == "u":
                for i, x in enumerate(loaded):
                    if x["crl"].issuer == c.issuer: del loaded[i]; break
            loaded.append(e)
        def is_stale(e): return e["crl"].next_update is not None and e["crl"].next_update + 86400 < self.NOW
        names = [e["crl"].issuer for e in loaded]
        tidy = len(set(names)) == len(names) and not any(is_stale(e) for e in loaded)
        revoked, exception, nonminimal, shapes = False, None, False, []
        for i, c in enumerate(chain):
            parent = chain[i + 1] if i + 1 < len(chain) else None
            first = next((e for e in loaded if e["crl"].issuer == c.issuer), None)
            for e in loaded:
                if e["crl"].issuer != c.issuer: continue
                # (a stale first CRL is reported as expired before anybody is asked to authenticate it)
                authenticated = e["explicit"] or (e is first and not is_stale(e) and parent is not None and self.auth_by(e["crl"], parent))
                for s in e["crl"].serials:
                    if s == c.serial:
                        if not authenticated: continue
                        if e is first and not is_stale(e): revoked = True; shapes.append(shape(s))       # the cache rule applies it
                        elif exception is None: exception = "shadowed" if e is not first else "stale"      # the literal clause only
                    elif (s or c.serial) and int_value(s) == int_value(c.serial):
                        nonminimal = True
        return dict(revoked=revoked, exception=exception, tidy=tidy, nonminimal=nonminimal, shapes=shapes)
