"""Minimal PKI workshop for props/C03.py: DER helpers, RSA PKCS#1 v1.5 signing / verification in pure
Python, CRL construction and re-issuing of certificates (new serial number / names) under the
testkeys CA private keys.  Independent of the library under test: nothing here calls MatrixSSL."""
import base64, calendar, hashlib, re


# ---------------------------------------------------------------- DER
def tlv(b, i):
    tag = b[i]; l = b[i + 1]
    if l < 0x80: return tag, i + 2, l
    n = l & 0x7f
    return tag, i + 2 + n, int.from_bytes(b[i + 2:i + 2 + n], "big")

def enc(tag, content):
    l = len(content)
    if l < 0x80: return bytes([tag, l]) + content
    lb = l.to_bytes((l.bit_length() + 7) // 8, "big")
    return bytes([tag, 0x80 | len(lb)]) + lb + content

def kids(b):
    out = []; i = 0
    while i < len(b):
        tag, s, l = tlv(b, i)
        out.append((tag, b[s:s + l])); i = s + l
    return out

def pem_blocks(text, label):
    return [base64.b64decode(m) for m in re.findall(r"-----BEGIN %s-----(.*?)-----END %s-----" % (label, label), text, re.S)]

def int_content(v):
    """DER INTEGER content octets of a (possibly negative) integer"""
    n = max(1, (v.bit_length() + 8) // 8) if v >= 0 else max(1, ((-v - 1).bit_length() + 8) // 8)
    return v.to_bytes(n, "big", signed=True)

def int_value(content):
    """value of INTEGER content octets (two's complement); b"" is malformed, treated as 0"""
    return int.from_bytes(content, "big", signed=True) if content else 0

def is_minimal_int(content):
    if len(content) == 0: return False
    if len(content) == 1: return True
    return not ((content[0] == 0x00 and content[1] < 0x80) or (content[0] == 0xff and content[1] >= 0x80))

def utctime(y, mo, d, h=0, mi=0, s=0):
    return enc(0x17, b"%02d%02d%02d%02d%02d%02dZ" % (y % 100, mo, d, h, mi, s))

def gentime(y, mo, d, h=0, mi=0, s=0):
    return enc(0x18, b"%04d%02d%02d%02d%02d%02dZ" % (y, mo, d, h, mi, s))

def time_value(tag, s):
    s = s.decode()
    if tag == 0x17:
        y = int(s[:2]); y += 1900 if y >= 50 else 2000; s = s[2:]
    else:
        y = int(s[:4]); s = s[4:]
    return calendar.timegm((y, int(s[0:2]), int(s[2:4]), int(s[4:6]), int(s[6:8]), int(s[8:10]), 0, 0, 0))


# ---------------------------------------------------------------- RSA
SHA256_RSA = bytes.fromhex("2a864886f70d01010b")
DIGESTINFO = {"sha256": bytes.fromhex("3031300d060960864801650304020105000420"),
              "sha512": bytes.fromhex("3051300d060960864801650304020305000440")}

class RsaKey:
    def __init__(self, pem_text):
        (der,) = pem_blocks(pem_text, "RSA PRIVATE KEY")
        (_, seq), = kids(der)
        v = [int.from_bytes(c, "big") for _, c in kids(seq)]
        self.n, self.e, self.d, self.p, self.q, self.dp, self.dq, self.qinv = v[1:9]
        self.k = (self.n.bit_length() + 7) // 8
    def sign(self, msg, h="sha256"):
        t = DIGESTINFO[h] + hashlib.new(h, msg).digest()
        em = int.from_bytes(b"\x00\x01" + b"\xff" * (self.k - len(t) - 3) + b"\x00" + t, "big")
        m1 = pow(em % self.p, self.dp, self.p); m2 = pow(em % self.q, self.dq, self.q)
        s = m2 + self.q * ((self.qinv * (m1 - m2)) % self.p)
        assert pow(s, self.e, self.n) == em
        return s.to_bytes(self.k, "big")

def rsa_pub(spki_content):
    (_, alg), (_, bits) = kids(spki_content)
    (_, seq), = kids(bits[1:])
    (_, n), (_, e) = kids(seq)
    return int.from_bytes(n, "big"), int.from_bytes(e, "big")

def rsa_verify(n, e, sig, msg, h="sha256"):
    k = (n.bit_length() + 7) // 8
    if len(sig) != k: return False
    em = pow(int.from_bytes(sig, "big"), e, n).to_bytes(k, "big")
    t = DIGESTINFO[h] + hashlib.new(h, msg).digest()
    return em == b"\x00\x01" + b"\xff" * (k - len(t) - 3) + b"\x00" + t


# ---------------------------------------------------------------- certificates
OID_AKI, OID_SKI, OID_KU, OID_BC = bytes([0x55, 0x1d, 0x23]), bytes([0x55, 0x1d, 0x0e]), bytes([0x55, 0x1d, 0x0f]), bytes([0x55, 0x1d, 0x13])
BC_CA_NOLIMIT = bytes.fromhex("30030101ff")            # cA TRUE, no pathLenConstraint
KU_SIGN_CRL = bytes.fromhex("03020106")                # keyCertSign | cRLSign
KU_SIGN_ONLY = bytes.fromhex("03020204")               # keyCertSign
class Cert:
    """the parts of a certificate the checks read or rewrite"""
    def __init__(self, der):
        self.der = der
        (_, cert), = kids(der)
        (t0, tbs), (t1, alg_out), (t2, sig) = kids(cert)
        self.tbs_full = enc(t0, tbs); self.sig = sig[1:]; self.alg_out = alg_out
        k = kids(tbs)
        self.k = k
        o = 1 if k[0][0] == 0xa0 else 0
        self.o = o
        self.serial = k[o][1]
        self.alg_in = k[o + 1][1]
        self.issuer, self.validity, self.subject, self.spki = k[o + 2][1], k[o + 3][1], k[o + 4][1], k[o + 5][1]
        self.exts = []                      # [oid, critical, extnValue content]
        for tag, c in k[o + 6:]:
            if tag == 0xa3:
                (_, seq), = kids(c)
                for _, e in kids(seq):
                    parts = kids(e)
                    self.exts.append([parts[0][1], len(parts) == 3 and parts[1][1] != b"\x00", parts[-1][1]])

    def ski(self):
        for oid, _, val in self.exts:
            if oid == bytes([0x55, 0x1d, 0x0e]): return kids(val)[0][1]
        return None

    def reissue(self, key, serial=None, issuer=None, subject=None, alg=SHA256_RSA, aki=None, ext=None, crit=None, add_ext=None):
        """same certificate with another serial / names / authorityKeyIdentifier / extension values
        (ext: {oid octets: new extnValue content, or None to drop the extension}), signed afresh by `key`
        (sha256WithRSAEncryption).  crit: {oid octets: BOOLEAN content octet of `critical`, None = field absent};
        add_ext: [(oid octets, critical octet or None, extnValue content)] appended."""
        k = list(self.k); o = self.o
        algid = enc(6, alg) + b"\x05\x00"
        if serial is not None: k[o] = (2, serial)
        k[o + 1] = (0x30, algid)
        if issuer is not None: k[o + 2] = (0x30, issuer)
        if subject is not None: k[o + 4] = (0x30, subject)
        if aki is not None or ext or crit or add_ext:
            ext = dict(ext or {}); crit = dict(crit or {})
            if aki is not None: ext[OID_AKI] = enc(0x30, enc(0x80, aki))
            k = [x for x in k if x[0] != 0xa3]
            seq = b""
            for oid, crit_, val in self.exts:
                if oid in ext:
                    if ext[oid] is None: continue
                    val = ext[oid]
                cb = crit[oid] if oid in crit else (0xff if crit_ else None)
                seq += enc(0x30, enc(6, oid) + (enc(1, bytes([cb])) if cb is not None else b"") + enc(4, val))
            for oid, cb, val in (add_ext or []):
                seq += enc(0x30, enc(6, oid) + (enc(1, bytes([cb])) if cb is not None else b"") + enc(4, val))
            k.append((0xa3, enc(0x30, seq)))
        tbs = enc(0x30, b"".join(enc(t, c) for t, c in k))
        return enc(0x30, tbs + enc(0x30, algid) + enc(3, b"\x00" + key.sign(tbs)))


# ---------------------------------------------------------------- CRLs
def make_crl(issuer_name, key, serials, this_update=(2020, 1, 1), next_update=(2030, 1, 1), version2=True,
             entry_ext=None, crl_ext=None, rev_date=(2019, 6, 1), tamper=False, gen_time=False, alg=SHA256_RSA):
    """CertificateList DER.  issuer_name: content octets of the Name SEQUENCE; serials: list of INTEGER
    content octets (written as given, also when not minimal); next_update None = field absent."""
    tm = gentime if gen_time else utctime
    algid = enc(6, alg) + b"\x05\x00"
    body = (enc(2, b"\x01") if version2 else b"") + enc(0x30, algid) + enc(0x30, issuer_name) + tm(*this_update)
    if next_update is not None: body += tm(*next_update)
    if serials:
        ents = b""
        for s in serials:
            e = enc(2, s) + tm(*rev_date)
            if entry_ext is not None: e += enc(0x30, entry_ext)
            ents += enc(0x30, e)
        body += enc(0x30, ents)
    if crl_ext is not None: body += enc(0xa0, enc(0x30, crl_ext))
    tbs = enc(0x30, body)
    sig = key.sign(tbs)
    if tamper:
        # change the list after signing: flip one bit in the last entry's serial (or in thisUpdate)
        ne = [x for x in serials if len(x) > 0]
        i = tbs.rfind(enc(2, ne[-1])) + 2 + len(ne[-1]) - 1 if ne else tbs.find(b"Z") - 1     # last serial octet, or a digit of thisUpdate
        tbs = tbs[:i] + bytes([tbs[i] ^ 0x01]) + tbs[i + 1:]
    return enc(0x30, tbs + enc(0x30, algid) + enc(3, b"\x00" + sig))

class Crl:
    """independent reading of a CertificateList"""
    def __init__(self, der):
        (_, cl), = kids(der)
        (t0, tbs), (_, alg_out), (_, sig) = kids(cl)
        self.tbs_full = enc(t0, tbs); self.sig = sig[1:]; self.alg_out = alg_out
        k = kids(tbs); i = 0
        if k[i][0] == 2: i += 1
        self.alg_in = k[i][1]; self.issuer = k[i + 1][1]
        self.this_update = time_value(k[i + 2][0], k[i + 2][1]); i += 3
        self.next_update = None
        if i < len(k) and k[i][0] in (0x17, 0x18):
            self.next_update = time_value(k[i][0], k[i][1]); i += 1
        self.serials = []
        if i < len(k) and k[i][0] == 0x30:
            for _, e in kids(k[i][1]): self.serials.append(kids(e)[0][1])
    def signed_by(self, spki_content):
        try:
            n, e = rsa_pub(spki_content)
        except Exception:
            return False
        return kids(self.alg_out)[0][1] == SHA256_RSA and rsa_verify(n, e, self.sig, self.tbs_full)
