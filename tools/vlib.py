#!/usr/bin/env python3
"""Shared machinery for /verif checks (see DESIGN.md section 2.2).

One Check object = one run of one property:
  1. build the implementation from /repo's current working tree into a scratch directory
  2. regenerate coq/Gen/*.v from the source, rebuild the property's Coq closure, collect obligations
  3. build the extracted OCaml model driver
  4. correspondence (property specific, implemented in props/<id>.py)
  5. decide, write evidence/<id>.json, print KNOWN-FINDING / VIOLATION lines, exit 0/1
"""
import atexit, fcntl, hashlib, json, os, random, re, shutil, subprocess, sys, time

VERIF = os.path.dirname(os.path.dirname(os.path.abspath(__file__)))
REPO = os.environ.get("VERIF_REPO", "/repo")
COQ = os.path.join(VERIF, "coq")
SCRATCH_ROOT = os.environ.get("VERIF_SCRATCH", "/var/tmp")
NPROC = str(os.cpu_count() or 4)

INC = ["", "matrixssl", "core/config", "core/include", "core/osdep/include", "core/include/sfzcl", "crypto"]
LIBS = ["matrixssl/libssl_s.a", "crypto/libcrypt_s.a", "core/libcore_s.a"]


def sh(cmd, timeout=3600, cwd=None, env=None, inp=None, check=False):
    """Run a command (list or string); return (rc, stdout, stderr)."""
    p = subprocess.run(cmd, shell=isinstance(cmd, str), cwd=cwd, env=env, input=inp,
                       stdout=subprocess.PIPE, stderr=subprocess.PIPE, timeout=timeout,
                       text=True, errors="replace")
    if check and p.returncode != 0:
        raise RuntimeError("command failed (%d): %s\n%s\n%s" % (p.returncode, cmd, p.stdout[-3000:], p.stderr[-3000:]))
    return p.returncode, p.stdout, p.stderr


class Rng:
    """Deterministic PRNG; every random choice of a run derives from VERIF_SEED."""
    def __init__(self, seed, label=""):
        h = hashlib.sha256(("%d/%s" % (seed, label)).encode()).digest()
        self.r = random.Random(int.from_bytes(h[:8], "big"))
    def __getattr__(self, k):
        return getattr(self.r, k)


class Check:
    def __init__(self, pid, tier, seed):
        self.pid, self.tier, self.seed = pid, tier, seed
        self.t0 = time.time()
        self.scratch = os.path.join(SCRATCH_ROOT, "mv-%s.%d" % (pid, os.getpid()))
        shutil.rmtree(self.scratch, ignore_errors=True)
        os.makedirs(self.scratch)
        atexit.register(self._cleanup)
        self.builds = {}
        self.obligations = []      # list of dict(name, ok, assumptions, detail)
        self.corr = []             # list of dict(name, cases, disagreements, detail)
        self.violations = []       # list of dict(what, replay, found_input)
        self.known_seen = []
        self.cov = {"evaluations": 0, "distinct_nontrivial": 0, "samples": [], "input_histogram": {},
                    "traces_validated_against_impl": 0}
        self.rules = []
        self.assumptions = []
        self.trusted = []
        self.checker_cmds = []
        self.notes = []
        self._distinct = set()
        self.kf = json.load(open(os.path.join(VERIF, "known_findings.json")))
        rd = os.path.join(VERIF, "replays")
        if os.path.isdir(rd) and "--replay" not in sys.argv:
            for f in os.listdir(rd):
                if f.startswith(pid + "-") and f.endswith(".json"):
                    try: os.remove(os.path.join(rd, f))
                    except OSError: pass
        self.finished = False

    # ------------------------------------------------------------------ misc
    def _cleanup(self):
        shutil.rmtree(self.scratch, ignore_errors=True)

    def log(self, *a):
        print("[%s %6.1fs]" % (self.pid, time.time() - self.t0), *a, flush=True)

    def rng(self, label=""):
        return Rng(self.seed, self.pid + "/" + label)

    def budget(self, quick, thorough):
        return thorough if self.tier == "thorough" else quick

    # ------------------------------------------------------------------ 1. implementation
    def build_repo(self, variant="plain"):
        if variant in self.builds:
            return self.builds[variant]
        dest = os.path.join(self.scratch, "repo-" + variant)
        t = time.time()
        rc, out, err = sh([os.path.join(VERIF, "tools/build_repo.sh"), dest, variant], timeout=1800)
        if rc != 0:
            self.log("repo build failed:\n" + out[-3000:] + err[-3000:])
            self.violation("the working tree of /repo does not build (%s variant)" % variant,
                           {"stage": "build", "log_tail": (out + err)[-2000:]}, found_input=False)
            self.finish()
        self.log("built /repo working tree (%s) in %.1fs" % (variant, time.time() - t))
        self.builds[variant] = dest
        return dest

    def cc(self, src, out=None, variant="plain", wraps=(), extra=(), libs=True, defines=()):
        """Compile a harness (path relative to /verif/harness or absolute) against the scratch build."""
        R = self.build_repo(variant)
        if not os.path.isabs(src):
            src = os.path.join(VERIF, "harness", src)
        if out is None:
            out = os.path.join(self.scratch, os.path.splitext(os.path.basename(src))[0] + "-" + variant)
        cc = "cc"
        cmd = [cc, "-O1", "-g", "-w", "-DMATRIXSSL_VERIF", "-DVERIF_REPO_DIR=\"%s\"" % R]
        cmd += ["-D" + d for d in defines]
        if variant == "asan":
            cmd += ["-fsanitize=address,undefined", "-fno-sanitize-recover=undefined", "-fno-omit-frame-pointer"]
        if variant == "tsan":
            cmd += ["-fsanitize=thread"]
        cmd += ["-I" + os.path.join(VERIF, "harness")]
        cmd += ["-I" + os.path.join(R, i) for i in INC]
        cmd += [src] + list(extra)
        if wraps:
            cmd += ["-Wl," + ",".join("--wrap=" + w for w in wraps)]
        if libs:
            cmd += [os.path.join(R, l) for l in LIBS]
        cmd += ["-lpthread", "-lm", "-o", out]
        rc, o, e = sh(cmd, timeout=600)
        if rc != 0:
            self.log("harness compile failed: " + " ".join(cmd) + "\n" + (o + e)[-4000:])
            self.violation("correspondence harness %s no longer compiles against /repo" % os.path.basename(src),
                           {"stage": "harness-compile", "harness": os.path.basename(src), "log_tail": (o + e)[-2000:],
                            "broken": "correspondence " + os.path.basename(src)}, found_input=False)
            self.finish()
        return out

    # ------------------------------------------------------------------ 2. Coq
    # coq/Gen/*.v, the .vo files and ocaml/gen/* are shared by all checks: a run holds this lock from the moment it regenerates
    # Gen until it starts executing its (private, scratch) copies of harness and driver, so that concurrent checks built from
    # different trees cannot swap generated tables under each other.
    def _model_lock(self):
        if getattr(self, "_mlock", None) is None:
            os.makedirs(COQ, exist_ok=True)
            self._mlock = open(os.path.join(COQ, ".lock"), "w")
            fcntl.flock(self._mlock, fcntl.LOCK_EX)

    def _model_unlock(self):
        if getattr(self, "_mlock", None) is not None:
            try:
                fcntl.flock(self._mlock, fcntl.LOCK_UN); self._mlock.close()
            except Exception:
                pass
            self._mlock = None

    def regen(self, gens):
        self._model_lock()
        """Run translators: each is (script relative to tools/srcgen, [args]); they write coq/Gen/*.v
        only when the content changed (so unchanged sources do not trigger Coq rebuilds)."""
        for g in gens:
            script, args = g[0], list(g[1:])
            p = os.path.join(VERIF, "tools/srcgen", script)
            env = dict(os.environ, VERIF_REPO=REPO, VERIF_BUILD=self.builds.get("plain", ""))
            rc, o, e = sh([sys.executable if p.endswith(".py") else "bash", p] + args, timeout=600, env=env)
            if rc != 0:
                self.log("translator failed: %s\n%s" % (script, (o + e)[-3000:]))
                self.obligation("translator:" + script, False, detail=(o + e)[-1500:])
            else:
                self.log("translator %s ok %s" % (script, o.strip()[-200:]))

    def coq_build(self, targets, timeout=3000):
        """make the given .vo targets (relative to coq/), serialised by a lock."""
        os.makedirs(COQ, exist_ok=True)
        held = getattr(self, "_mlock", None) is not None
        self._model_lock()
        try:
            sh([os.path.join(VERIF, "tools/mkproject.sh")], check=True)
            if not os.path.exists(os.path.join(COQ, "Makefile.coq")) or \
               os.path.getmtime(os.path.join(COQ, "Makefile.coq")) < os.path.getmtime(os.path.join(COQ, "_CoqProject")):
                sh("coq_makefile -f _CoqProject -o Makefile.coq", cwd=COQ, check=True)
            cmd = ["make", "-f", "Makefile.coq", "-k", "-j" + NPROC] + list(targets)
            t = time.time()
            rc, o, e = sh(cmd, cwd=COQ, timeout=timeout)
            self.checker_cmds.append("cd coq && " + " ".join(cmd))
            self.log("coq make %s rc=%d %.1fs" % (" ".join(targets), rc, time.time() - t))
            return rc, o + e
        finally:
            if not held:
                self._model_unlock()

    def coq_properties(self, fname=None, deps=()):
        """Build the property file's closure, then run coqc on the Properties file itself to collect
        the theorems it states and the `Print Assumptions` answer for each.  Every theorem is one
        obligation."""
        fname = fname or ("Properties/Properties_%s.v" % self.pid)
        src = open(os.path.join(COQ, fname)).read()
        self.grep_gate()
        theorems = re.findall(r"^\s*(?:Theorem|Lemma|Corollary)\s+([A-Za-z0-9_']+)", src, re.M)
        vo = fname[:-2] + ".vo"
        rc, out = self.coq_build([vo] + list(deps))
        if rc != 0:
            # find which files / theorems failed
            self.log(out[-3000:])
            m = re.findall(r'File "([^"]+)", line (\d+)', out)
            for t in theorems:
                self.obligation(t, False, detail="Coq build failed: %s" % (m[-1] if m else out[-300:],))
            self.coq_fail_log = out[-4000:]
            return False
        # re-run coqc on the (small) properties file to capture Print Assumptions
        cmd = "coqc -q -Q . MV %s" % fname
        held = getattr(self, "_mlock", None) is not None
        self._model_lock()
        try:
            rc, o, e = sh("timeout 900 " + cmd, cwd=COQ, timeout=1000)
        finally:
            if not held:
                self._model_unlock()
        self.checker_cmds.append("cd coq && " + cmd)
        if rc != 0:
            for t in theorems:
                self.obligation(t, False, detail=(o + e)[-500:])
            return False
        # parse answers: sequence of "Closed under the global context" / "Axioms:\n..." blocks
        blocks = re.split(r"(?m)^(?=Closed under the global context|Axioms:)", o)
        blocks = [b for b in blocks if b.startswith("Closed") or b.startswith("Axioms:")]
        printed = re.findall(r"Print Assumptions\s+([A-Za-z0-9_']+)", src)
        ans = dict(zip(printed, blocks))
        ok_all = True
        for t in theorems:
            a = ans.get(t)
            if a is None:
                self.obligation(t, False, detail="no Print Assumptions answer for this theorem")
                ok_all = False
                continue
            a = " ".join(a.split())
            bad = [w for w in re.findall(r"([A-Za-z0-9_.']+) :", a) if not self._axiom_allowed(w)]
            self.obligation(t, not bad, assumptions=a[:400], detail=("non-library axiom: %s" % bad) if bad else "")
            ok_all = ok_all and not bad
        return ok_all

    ALLOWED_AX = ("functional_extensionality", "proof_irrelevance", "classic", "JMeq_eq", "eq_rect_eq",
                  "propositional_extensionality", "constructive_indefinite_description")

    def _axiom_allowed(self, name):
        return any(name.split(".")[-1].startswith(a) for a in self.ALLOWED_AX)

    def grep_gate(self):
        pat = re.compile(r"\b(Admitted|admit|Axiom|Axioms|Parameter|Parameters|Conjecture|Abort All)\b|Unset Guard|bypass_check|type-in-type|impredicative-set|Admit Obligations")
        bad = []
        for root, _, files in os.walk(COQ):
            for f in files:
                if f.endswith(".v"):
                    p = os.path.join(root, f)
                    txt = open(p, errors="replace").read()
                    txt = re.sub(r"\(\*.*?\*\)", "", txt, flags=re.S)
                    for i, line in enumerate(txt.split("\n")):
                        if pat.search(line):
                            bad.append("%s:%d:%s" % (os.path.relpath(p, COQ), i + 1, line.strip()[:80]))
        pj = open(os.path.join(COQ, "_CoqProject")).read()
        if re.search(r"type-in-type|impredicative-set|-vos|-vok", pj):
            bad.append("_CoqProject: forbidden flag")
        self.obligation("grep_gate:no_admit_axiom_parameter", not bad, detail="; ".join(bad[:10]))
        return not bad

    def obligation(self, name, ok, assumptions="", detail=""):
        self.obligations.append({"name": name, "ok": bool(ok), "assumptions": assumptions, "detail": detail})
        if not ok:
            self.log("OBLIGATION FAILED: %s %s" % (name, detail[:300]))

    # ------------------------------------------------------------------ 3. extraction
    def ocaml_driver(self, name, extract_vo=None, gen_ml=None):
        """Build ocaml/<name>.ml (+ extracted module) into the scratch dir; returns exe path.
        The extracted module is produced by coq/Extract/Extract_<X>.v into ocaml/gen/."""
        if extract_vo:
            rc, out = self.coq_build([extract_vo])
            if rc != 0:
                self.obligation("extraction:" + extract_vo, False, detail=out[-800:])
                return None
        gen = os.path.join(VERIF, "ocaml/gen")
        mods = gen_ml if gen_ml else []
        exe = os.path.join(self.scratch, name)
        bd = os.path.join(self.scratch, "ocaml-" + name)
        os.makedirs(bd, exist_ok=True)
        srcs = []
        for m in mods:
            for ext in (".mli", ".ml"):
                shutil.copy(os.path.join(gen, m + ext), bd)
                srcs.append(m + ext)
        drv = open(os.path.join(VERIF, "ocaml", name + ".ml")).read()
        for inc in ("conv", "convz", "convn", "convp", "convzz"):
            drv = drv.replace("(*#include %s*)" % inc, open(os.path.join(VERIF, "ocaml", inc + ".inc")).read())
        open(os.path.join(bd, name + ".ml"), "w").write(drv)
        srcs.append(name + ".ml")
        rc, o, e = sh(["ocamlfind", "ocamlopt", "-O3", "-w", "-a", "-package", "str", "-linkpkg"] + srcs + ["-o", exe], cwd=bd, timeout=900)
        if rc != 0:
            rc, o, e = sh(["ocamlfind", "ocamlopt", "-w", "-a", "-package", "str", "-linkpkg"] + srcs + ["-o", exe], cwd=bd, timeout=900)
        if rc != 0:
            self.obligation("ocaml-driver:" + name, False, detail=(o + e)[-800:])
            return None
        return exe

    # ------------------------------------------------------------------ 4. correspondence helpers
    def run_lines(self, exe, lines, timeout=1800, env=None, args=()):
        """Feed one case per line on stdin, expect one result line per case on stdout."""
        self._model_unlock()        # from here on the run uses its private copies only
        inp = "\n".join(lines) + "\n"
        rc, o, e = sh([exe] + list(args), inp=inp, timeout=timeout, env=env)
        return rc, o.split("\n")[:-1] if o.endswith("\n") else o.split("\n"), e

    def correspond(self, name, cases, impl_out, model_out, nontrivial=None, describe=None):
        """Compare per-case canonical result lines; returns list of disagreeing indices."""
        dis = []
        n = len(cases)
        if len(impl_out) != n or len(model_out) != n:
            self.log("correspondence %s: line count mismatch cases=%d impl=%d model=%d" % (name, n, len(impl_out), len(model_out)))
            dis = list(range(min(len(impl_out), len(model_out)), n)) or [0]
        for i in range(min(n, len(impl_out), len(model_out))):
            if impl_out[i].strip() != model_out[i].strip():
                dis.append(i)
        self.cov["evaluations"] += n
        self.cov["traces_validated_against_impl"] += n
        for i in range(min(n, len(impl_out))):
            if nontrivial is None or nontrivial(cases[i], impl_out[i]):
                self._distinct.add(hashlib.sha1((name + cases[i]).encode()).digest()[:10])
        self.corr.append({"name": name, "cases": n, "disagreements": len(dis),
                          "first": [{"case": cases[i] if i < n else None, "impl": impl_out[i] if i < len(impl_out) else None,
                                     "model": model_out[i] if i < len(model_out) else None} for i in dis[:5]]})
        if cases and len(self.cov["samples"]) < 12:
            k = min(3, n)
            for i in [0, n // 2, n - 1][:k]:
                self.cov["samples"].append({"correspondence": name, "case": cases[i][:400],
                                            "impl": impl_out[i][:200] if i < len(impl_out) else None,
                                            "model": model_out[i][:200] if i < len(model_out) else None})
        self.log("correspondence %s: %d cases, %d disagreements" % (name, n, len(dis)))
        return sorted(set(dis))

    def count(self, key, n=1):
        h = self.cov["input_histogram"]
        h[key] = h.get(key, 0) + n

    def add_distinct(self, key):
        self._distinct.add(hashlib.sha1(str(key).encode()).digest()[:10])

    def sample(self, s):
        if len(self.cov["samples"]) < 24:
            self.cov["samples"].append(s)

    # ------------------------------------------------------------------ 5. verdict
    def spec_violation(self, sig, what, replay):
        """A concrete input on which the IMPLEMENTATION violates the property's spec.
        sig: signature string matched against known_findings.json (open entries only)."""
        for k in self.kf.get("findings", []):
            if k["property"] == self.pid and k["status"] == "open" and re.fullmatch(k["signature"], sig):
                if k["id"] not in [x["id"] for x in self.known_seen]:
                    self.known_seen.append({"id": k["id"], "what": k["what_fails"], "sig": sig})
                return "known"
        self.violation(what, dict(replay, signature=sig), found_input=True)
        return "new"

    def violation(self, what, replay, found_input=True):
        # one replay file per distinct signature / text
        key = replay.get("signature", what)
        for v in self.violations:
            if v["key"] == key:
                return
        self.violations.append({"key": key, "what": what, "replay": replay, "found_input": found_input})

    def finish(self, write_evidence=True):
        if self.finished:
            return
        self.finished = True
        self._model_unlock()
        ob_fail = [o for o in self.obligations if not o["ok"]]
        corr_fail = [c for c in self.corr if c["disagreements"]]
        # A broken obligation or correspondence with no concrete failing input found
        concrete = [v for v in self.violations if v["found_input"]]
        if (ob_fail or corr_fail) and not concrete:
            broken = ["theorem/obligation " + o["name"] for o in ob_fail] + \
                     ["correspondence " + c["name"] for c in corr_fail]
            self.violation("property no longer shown to hold: " + "; ".join(broken[:6]),
                           {"broken": broken, "obligation_details": ob_fail[:6], "correspondence_details": corr_fail[:6],
                            "coq_log": getattr(self, "coq_fail_log", "")[-2500:]}, found_input=False)
        os.makedirs(os.path.join(VERIF, "replays"), exist_ok=True)
        os.makedirs(os.path.join(VERIF, "evidence"), exist_ok=True)
        for k in self.known_seen:
            print("KNOWN-FINDING: property=%s %s" % (self.pid, k["what"]))
        lines = []
        if len(self.violations) > 12:
            self.notes.append("%d distinct violations found; only the first 12 are reported" % len(self.violations))
        for i, v in enumerate(self.violations[:12]):
            tag = "%s-%d" % (self.pid, i) if v["found_input"] else "%s-unproved-%d" % (self.pid, i)
            path = os.path.join(VERIF, "replays", tag + ".json")
            json.dump({"property": self.pid, "seed": self.seed, "tier": self.tier, "what": v["what"],
                       "found_failing_input": v["found_input"], "replay": v["replay"]},
                      open(path, "w"), indent=1, default=str)
            lines.append("VIOLATION property=%s replay=%s%s" % (self.pid, path, "" if v["found_input"] else " no-failing-input-found"))
        self.cov["distinct_nontrivial"] = len(self._distinct)
        nob = len(self.obligations)
        cov = dict(self.cov)
        cov.update({
            "obligations": nob,
            "discharged": nob - len(ob_fail),
            "obligation_list": [{"name": o["name"], "ok": o["ok"], "assumptions": o["assumptions"]} for o in self.obligations],
            "checker_cmd": " && ".join(dict.fromkeys(self.checker_cmds)) or "none run",
            "trusted_base": self.trusted,
            "rule": " | ".join(self.rules),
            "correspondence": self.corr,
            "known_findings_seen": self.known_seen,
            "notes": self.notes,
        })
        if not cov["samples"]:
            cov["samples"] = [o["name"] for o in self.obligations[:5]]
        ev = {"property_id": self.pid, "tier": self.tier, "seed": self.seed, "level": "proof",
              "coverage": cov, "assumptions": self.assumptions, "wall_s": round(time.time() - self.t0, 2),
              "violations": len(self.violations)}
        if write_evidence:       # a --replay run re-executes one recorded input; it must not replace the run's evidence
            # evidence/<id>.json describes runs against /repo itself; a run against another tree (VERIF_REPO: mutants, seeded changes)
            # keeps its record apart
            foreign = os.path.realpath(REPO) != os.path.realpath("/repo")
            sub = os.path.join(VERIF, "evidence", ".other-tree") if foreign else os.path.join(VERIF, "evidence")
            os.makedirs(sub, exist_ok=True)
            json.dump(ev, open(os.path.join(sub, self.pid + ".json"), "w"), indent=1, default=str)
        for l in lines:
            print(l)
        self.log("done: obligations %d/%d, correspondences %d (%d disagree), evaluations %d, violations %d, known %d" % (
            nob - len(ob_fail), nob, len(self.corr), len(corr_fail), self.cov["evaluations"], len(self.violations), len(self.known_seen)))
        sys.stdout.flush()
        self._cleanup()
        os._exit(1 if self.violations else 0)


def hexs(b):
    return bytes(b).hex() if b else "-"


def unhex(s):
    return b"" if s == "-" else bytes.fromhex(s)
