#!/bin/bash
# tools/run_mutants.sh Cxx [patch...]  - apply each mutant (default: mutants/Cxx/*.patch) to a scratch worktree of /repo HEAD,
# run ./check Cxx against it (VERIF_REPO) and report whether the check fires (exit 1 expected).
cd "$(dirname "$0")/.."
P="$1"; shift
PATCHES=("$@"); [ ${#PATCHES[@]} -eq 0 ] && PATCHES=(mutants/$P/*.patch mutants/$P/*.diff)
WT=/var/tmp/mut-$P.$$
for m in "${PATCHES[@]}"; do
  [ -e "$m" ] || continue
  git -C /repo worktree add -q --detach "$WT" HEAD || exit 2
  if ! git -C "$WT" apply "$(realpath "$m")" 2>/dev/null; then echo "MUTANT $m: DOES-NOT-APPLY"; git -C /repo worktree remove --force "$WT"; continue; fi
  VERIF_REPO="$WT" ./check "$P" > "$WT.log" 2>&1; rc=$?
  n=$(grep -c '^VIOLATION' "$WT.log")
  echo "MUTANT $m: exit=$rc violations=$n $(grep -m1 '^VIOLATION' "$WT.log" | grep -o 'no-failing-input-found')"
  git -C /repo worktree remove --force "$WT"; rm -f "$WT.log"
done
