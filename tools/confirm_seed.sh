#!/bin/bash
# tools/confirm_seed.sh <pid> <n> <seedout-dir> "<needs>"  : independently confirm a seeded change in a scratch worktree and
# store it under /verif/seeded/<pid>-<n>/ (patch.diff, demonstration, meta.json).
#   1. demo passes on the unmodified tree   2. patch applies, everything builds   3. the 5 baseline test programs pass with the change
#   4. demo fails with the change           (the check's own verdict is recorded separately by tools/try_seed.sh)
P="$1"; N="$2"; D="$3"; NEEDS="$4"
WT=/var/tmp/cs-$P-$N.$$
OUT=/verif/seeded/$P-$N; mkdir -p "$OUT"
LOG="$OUT/confirm.log"; : > "$LOG"
git -C /repo worktree add -q --detach "$WT" HEAD || exit 2
trap 'git -C /repo worktree remove --force "$WT" >/dev/null 2>&1' EXIT
WRAPS=$(grep -h -o -- '-Wl,--wrap[^ `]*' "$D/README.md" | head -1)
for f in "$D"/*; do case "$(basename "$f")" in README.md|patch.diff|*.log|*.out|*.txt) ;; *) [ -f "$f" ] && cp "$f" "$WT"/ ;; esac; done
# SEED_ASAN=1: the demonstration observes the fault through AddressSanitizer: the libraries are (re)built with ASan for the two
# demo runs only; the baseline test programs run on the plain build
ASANF=""; [ -n "$SEED_ASAN" ] && ASANF="-fsanitize=address -fno-omit-frame-pointer"
libs() { if [ -n "$SEED_ASAN" ]; then (cd "$WT" && make clean >/dev/null 2>&1; make libs -j8 CFLAGS_EXTRA="$ASANF" LDFLAGS=-fsanitize=address); else (cd "$WT" && make libs -j8); fi; }
build_demo() { (cd "$WT" && ASAN_OPTIONS=detect_leaks=0 cc -O1 -g -w $ASANF $DEMO_CFLAGS demo.c -I. -Imatrixssl -Icore/config -Icore/include -Icore/osdep/include -Icore/include/sfzcl -Icrypto $WRAPS matrixssl/libssl_s.a crypto/libcrypt_s.a core/libcore_s.a -lpthread -o demo_bin) >> "$LOG" 2>&1; }
libs >> "$LOG" 2>&1 || { echo "clean build failed" >> "$LOG"; }
export ASAN_OPTIONS=detect_leaks=0
build_demo; (cd "$WT" && timeout 600 ./demo_bin ${DEMO_ARGS//@WT@/$WT}) > "$OUT/demo.clean.out" 2>&1; RC_CLEAN=$?
APPLY=ok; git -C "$WT" apply "$D/patch.diff" >> "$LOG" 2>&1 || APPLY=fail
[ -n "$SEED_ASAN" ] && (cd "$WT" && make clean) >> "$LOG" 2>&1
(cd "$WT" && make -j8) >> "$LOG" 2>&1; RC_MAKE=$?
TESTS=""; TFAIL=0
for t in algorithmTest eccTest rsaTest hmacTest cryptoOpen; do
  (cd "$WT/crypto/test" && timeout 900 ./$t) > "$OUT/test-$t.out" 2>&1; r=$?; TESTS="$TESTS $t=$r"; [ $r -ne 0 ] && TFAIL=1
  tail -3 "$OUT/test-$t.out" > "$OUT/test-$t.tail"; rm -f "$OUT/test-$t.out"
done
[ -n "$SEED_ASAN" ] && libs >> "$LOG" 2>&1
build_demo; (cd "$WT" && timeout 600 ./demo_bin ${DEMO_ARGS//@WT@/$WT}) > "$OUT/demo.seeded.out" 2>&1; RC_SEED=$?
cp "$D/patch.diff" "$OUT/"; for f in "$D"/*; do [ -f "$f" ] && [ $(stat -c %s "$f") -lt 400000 ] && case "$(basename "$f")" in demo|demo_*|*.log|*.out) ;; *) cp "$f" "$OUT"/ ;; esac; done
python3 - "$P" "$N" "$NEEDS" "$RC_CLEAN" "$APPLY" "$RC_MAKE" "$TESTS" "$TFAIL" "$RC_SEED" "$WRAPS" <<'PY'
import json, sys, subprocess
p, n, needs, rcc, ap, rcm, tests, tf, rcs, wraps = sys.argv[1:11]
head = subprocess.check_output(["git", "-C", "/repo", "log", "--format=%h", "-1"]).decode().strip()
meta = {"property": p, "seed": "%s-%s" % (p, n), "needs_to_manifest": needs, "repo_head_when_confirmed": head,
        "confirmed": {"demo_exit_unmodified": int(rcc), "patch_applies": ap, "make_exit_with_change": int(rcm),
                      "baseline_tests_with_change": tests.strip(), "baseline_tests_all_pass": tf == "0", "demo_exit_with_change": int(rcs)},
        "what_was_run": ["git worktree of /repo HEAD under /var/tmp", "make libs; cc demo.c %s ...; ./demo (unmodified)" % wraps,
                         "git apply patch.diff; make -j8; crypto/test/{algorithmTest,eccTest,rsaTest,hmacTest,cryptoOpen}", "cc demo.c; ./demo (with change)"],
        "valid_seed": (int(rcc) == 0 and ap == "ok" and int(rcm) == 0 and tf == "0" and int(rcs) != 0)}
json.dump(meta, open("/verif/seeded/%s-%s/meta.json" % (p, n), "w"), indent=1)
print("SEED %s-%s valid=%s clean=%s seeded=%s tests_ok=%s apply=%s" % (p, n, meta["valid_seed"], rcc, rcs, tf == "0", ap))
PY
