#!/bin/bash
# build_fault.sh <dest>   (C19 only)
# Same as tools/build_repo.sh, but the sanitizer variant used by the allocation-failure injector:
# AddressSanitizer + UBSan in *recoverable* mode.  The shared "asan" variant is built with
# -fno-sanitize-recover=undefined; four allocation-independent UB sites on the fault-free TLS path
# (aesGCM.c:322, psbuf.h:174/505, tls.c:968) then abort every handshake before a single fault is injected.
# Frame pointers are kept (the release flags add -fomit-frame-pointer after CFLAGS_EXTRA) so that the
# injector can record the call stack of every live block cheaply.
set -e
DEST="$1"
REPO="${VERIF_REPO:-/repo}"
mkdir -p "$DEST"
rsync -a --delete --exclude '.git' --exclude '*.o' --exclude '*.a' --exclude '*.map' \
      --exclude '/apps/ssl/client' --exclude '/apps/ssl/server' --exclude '/apps/dtls/dtlsClient' \
      --exclude '/apps/dtls/dtlsServer' --exclude '/crypto/test/*Test' --exclude '/crypto/test/cryptoOpen' \
      --exclude '/matrixssl/test/sslTest' --exclude '/matrixssl/test/certValidate' \
      "$REPO"/ "$DEST"/
cd "$DEST"
EXTRA="-DMATRIXSSL_VERIF -fsanitize=address,undefined -fno-omit-frame-pointer -g"
make check-config >/dev/null 2>&1 || true
if ! make libs -j8 CFLAGS_EXTRA="$EXTRA" CFLAGS_OMIT_FRAMEPOINTER= > "$DEST/verif-build.log" 2>&1; then
  echo "BUILD FAILED (see $DEST/verif-build.log)"; tail -30 "$DEST/verif-build.log"; exit 2
fi
test -f matrixssl/libssl_s.a && test -f crypto/libcrypt_s.a && test -f core/libcore_s.a
