#!/usr/bin/env python3
"""coordinator helper: register a check in MANIFEST.json / add known-finding entries.
usage: reg.py check <pid> <engine> <tech> <design_ref> <text-file> <note-file>
       reg.py fixed <pid> <id> <commit> <sig-regex> <what>
       reg.py open  <pid> <id> <sig-regex> <what>"""
import json, sys, os
V = os.path.dirname(os.path.dirname(os.path.abspath(__file__)))
a = sys.argv[1:]
if a[0] == "check":
    pid, engine, tech, ref, tf, nf = a[1:7]
    m = json.load(open(V + "/MANIFEST.json"))
    m["checks"] = [c for c in m["checks"] if c["property_id"] != pid]
    m["checks"].append({"property_id": pid, "quick_cmd": "./check %s --tier quick" % pid, "thorough_cmd": "./check %s --tier thorough" % pid,
                        "evidence_file": "evidence/%s.json" % pid, "replay_cmd_template": "./check %s --replay {path}" % pid, "engine": engine,
                        "level_claimed": {"category": "proof", "text": open(tf).read().strip(), "design_ref": ref},
                        "level_note": open(nf).read().strip(), "technique": tech})
    m["checks"].sort(key=lambda c: c["property_id"])
    m["not_applicable"] = [n for n in m["not_applicable"] if n["property_id"] != pid]
    if not any(e["name"] == engine for e in m["engines"]):
        m["engines"].append({"name": engine, "path": engine, "serves_properties": [pid], "kind_free_text": "Gallina model + Coq proofs + extracted OCaml driver + C correspondence harness"})
    else:
        for e in m["engines"]:
            if e["name"] == engine and pid not in e["serves_properties"]:
                e["serves_properties"].append(pid)
    json.dump(m, open(V + "/MANIFEST.json", "w"), indent=1)
elif a[0] in ("fixed", "open"):
    k = json.load(open(V + "/known_findings.json"))
    if a[0] == "fixed":
        pid, fid, commit, sig, what = a[1:6]
        k["findings"].append({"property": pid, "id": fid, "status": "fixed", "commit": commit, "line": "fixed: property=%s %s %s" % (pid, commit, what), "signature": sig, "what_fails": what})
    else:
        pid, fid, sig, what = a[1:5]
        k["findings"].append({"property": pid, "id": fid, "status": "open", "signature": sig, "what_fails": what})
    json.dump(k, open(V + "/known_findings.json", "w"), indent=1)
