#!/usr/bin/env python3
"""Translator for C20: lock/access control-flow trees  ->  coq/Gen/LockPaths.v

Reads the library sources of $VERIF_BUILD (scratch copy of the working tree incl. generated config
headers; falls back to $VERIF_REPO, default /repo), preprocesses every compiled .c file with the
build's include path (so #ifdef USE_MULTITHREADING etc. are decided by the compiler), tokenises the
part of each translation unit that comes from the .c file itself and parses every function body at
STATEMENT level (blocks, if/else, switch/case, while/do/for, return, break/continue, goto/labels).
Expressions are opaque token strings that are scanned, in textual order, for
    psLockMutex(&M) / psUnlockMutex(&M)                    -> Lock m / Unlock m
    mentions of the shared roots (table SHARED below)      -> Acc shared rw
    dereferences of pointers that may point into a shared structure (flow-insensitive taint from the
    roots through assignments, declarations, out-parameters, return values and call arguments, plus
    two element types that only exist inside shared structures)                    -> Acc shared rw
    pointers into shared structures passed to callees whose (transitive, lexical) summary says the
    parameter is dereferenced / written                                            -> Acc shared rw
    calls to functions that are themselves in the table, or that may (transitively, lexical call
    graph) take a mutex                                                            -> Call f
A goto is eliminated by inlining the statements that follow its (function-level, forward) label.

Output: one Coq record per function (kind Entry / Helper / Setup / Summary / Waived) with its tree, the
tables mutex_of / rank, and the indicator `ticket_pin` (how getTicketKeys pins a ticket key across the
user callback: flag assignment or reference count).  `--json FILE` additionally dumps the function and
shared-state census used by props/C20.py to validate the translator against ThreadSanitizer reports.
"""
import json, os, re, subprocess, sys
from concurrent.futures import ThreadPoolExecutor

VERIF = os.path.dirname(os.path.dirname(os.path.dirname(os.path.abspath(__file__))))
REPO = os.environ.get("VERIF_BUILD") or os.environ.get("VERIF_REPO", "/repo")
if not os.path.isdir(os.path.join(REPO, "matrixssl")):
    REPO = os.environ.get("VERIF_REPO", "/repo")
INC = ["", "matrixssl", "core/config", "core/include", "core/osdep/include", "core/include/sfzcl", "crypto"]

# ---------------------------------------------------------------------------------------------- tables
# mutexes: (coq id, name, regex over the argument text of psLockMutex/psUnlockMutex, rank in the lock order)
MUTEXES = [
    ("m_sess_table",  r"g_sessionTableLock"),
    ("m_sess_ticket", r"g_sessTicketLock"),
    ("m_crl",         r"g_crlTableLock"),
    ("m_ecdhe",       r"cache\.lock"),
    ("m_corelib",     r"corelibMutex"),
    ("m_prng",        r"prngLock"),
]
# shared objects: name, guarding mutex (None = written only during single-threaded set-up), root patterns
#   ident:<name>      any mention of the global <name>
#   field:<name>      any mention of  ->name / .name
#   cachefield        ->cache.<x> / .cache.<x>  with x != lock
SHARED = [
    ("sh_sess_table",  "m_sess_table",  ["ident:g_sessionTable"]),
    ("sh_sess_chron",  "m_sess_table",  ["ident:g_sessionChronList"]),
    ("sh_ticket_keys", "m_sess_ticket", ["field:sessTickets"]),
    ("sh_crl_list",    "m_crl",         ["ident:g_CRL"]),
    ("sh_ecdhe_cache", "m_ecdhe",       ["cachefield"]),
    ("sh_prng",        "m_prng",        ["ident:gMatrixPrng"]),
    ("sh_prng_init",   None,            ["ident:gPrngInit"]),
    ("sh_ticket_cb",   None,            ["field:ticket_cb"]),
    ("sh_ca_list",     None,            ["field:CAcerts"]),
    ("sh_identity",    None,            ["field:identity"]),
]
# element types that exist only inside a shared structure: a `T *v` is a pointer into it
TYPE_SHARED = {"psSessionTicketKeys_t": "sh_ticket_keys", "sslSessionEntry_t": "sh_sess_table"}
# single-threaded set-up / tear-down by API contract (exempt from the discipline, still listed)
SETUP_RE = re.compile(r"^(matrixSslOpenWithConfig|matrixSslOpen|matrixSslClose|psOpenPrng|psClosePrng|psCrlOpen|psCrlClose|"
                      r"psCoreOpen|psCoreClose|psCryptoOpen|psCryptoClose|matrixSslNewKeys|matrixSslDeleteKeys|"
                      r"initSessionEntryChronList|matrixSslSetSessionTicketCallback|"
                      r"matrixSslLoad(?!SessionTicketKeys)\w*|matrixSslAddTrustAnchors\w*|matrixSslLoadKeyMaterial\w*|"
                      r"matrixSslAddIdentity\w*|matrixSslDelIdentity\w*|sslLoad\w*|matrixSslFreeKeys\w*)$")
# alias exemptions of the flow-insensitive taint: (function, lhs, rhs) assignments that do NOT make lhs point into what rhs
# points into, with the reason (trusted; validated dynamically by the TSan runs on the paths they exercise)
NOFLOW = {
    ("psX509AuthenticateCert", "sc", "ic"): "chain walk `sc = ic` is only reached when issuerCert == NULL (ic is set to NULL after the single test with a given issuer)",
    ("psOcspResponseValidate", "subject", "curr"): "`subject = curr` is inside the loop over response->OCSPResponseCert; curr is re-used later for the trusted list",
}
# lock wrapper functions (their definitions are primitives, not table entries)
LOCK_WRAP = {"psCoreLibInternalLock": "m_corelib"}
UNLOCK_WRAP = {"psCoreLibInternalUnlock": "m_corelib"}
# user callbacks reached through a function pointer: what they may do (documented in the source)
CALLBACK_MAY_LOCK = {"ticket_cb": ["m_sess_ticket"]}
# library / libc routines that write through their first argument
WRITE_ARG0 = {"memcpy", "memset", "memmove", "Memcpy", "Memset", "Memmove", "memzero_s", "free", "psFree", "psFreeNoPool",
              "strncpy", "Strncpy", "snprintf", "Snprintf", "__builtin_memcpy", "__builtin_memset", "__builtin___memcpy_chk",
              "__builtin___memset_chk", "__memcpy_chk", "__memset_chk"}
KEYWORDS = {"if", "else", "while", "do", "for", "switch", "case", "default", "return", "break", "continue", "goto", "sizeof",
            "struct", "union", "enum", "const", "volatile", "static", "extern", "register", "unsigned", "signed", "int", "char",
            "short", "long", "void", "float", "double", "inline", "__inline", "__inline__", "typedef", "__attribute__",
            "__extension__", "__restrict", "restrict", "_Bool", "__asm__", "asm", "__volatile__", "auto"}
ASSIGN_OPS = {"=", "+=", "-=", "*=", "/=", "%=", "&=", "|=", "^=", "<<=", ">>="}

TOK_RE = re.compile(r"""
    (?P<ws>\s+)
  | (?P<str>"(?:\\.|[^"\\])*")
  | (?P<chr>'(?:\\.|[^'\\])*')
  | (?P<num>(?:0[xX][0-9a-fA-F]+|\d+\.?\d*(?:[eE][-+]?\d+)?)[uUlLfF]*)
  | (?P<id>[A-Za-z_]\w*)
  | (?P<op><<=|>>=|\.\.\.|->|\+\+|--|<<|>>|<=|>=|==|!=|&&|\|\||\+=|-=|\*=|/=|%=|&=|\|=|\^=|[-+*/%&|^~!<>=?:;,.(){}\[\]\#])
""", re.X)


class Tok:
    __slots__ = ("s", "k", "line")
    def __init__(self, s, k, line): self.s, self.k, self.line = s, k, line
    def __repr__(self): return self.s


CMDS = {}        # rel path -> (cwd, argv) taken from the build log (exact flags of the library build)


def preprocess(rel):
    if rel in CMDS:
        cwd, argv = CMDS[rel]
        cmd = argv
    else:
        cwd = None
        cmd = ["cc", "-E", "-DMATRIXSSL_VERIF"] + ["-I" + os.path.join(REPO, i) for i in INC] + \
              ["-I" + os.path.dirname(os.path.join(REPO, rel)), os.path.join(REPO, rel)]
    if cwd is not None:
        p = subprocess.run(" ".join(cmd), shell=True, cwd=cwd, stdout=subprocess.PIPE, stderr=subprocess.PIPE, text=True, errors="replace", timeout=120)
    else:
        p = subprocess.run(cmd, stdout=subprocess.PIPE, stderr=subprocess.PIPE, text=True, errors="replace", timeout=120)
    if p.returncode != 0:
        return None
    return p.stdout


def tokens_of_unit(rel, text):
    """tokens of the lines that come from the .c file itself (headers skipped), with original line numbers"""
    out = []
    me = os.path.join(REPO, rel)
    cur_file, cur_line, keep = me, 1, True
    for ln in text.split("\n"):
        m = re.match(r'#\s*(?:line\s+)?(\d+)\s+"([^"]*)"', ln)
        if m:
            cur_line = int(m.group(1)); cur_file = m.group(2)
            keep = os.path.basename(cur_file) == os.path.basename(me) and (os.path.isabs(cur_file) and os.path.abspath(cur_file) == os.path.abspath(me)
                                                                            or not os.path.isabs(cur_file) and os.path.normpath(me).endswith(os.path.normpath(cur_file).lstrip("./")))
            continue
        if ln.startswith("#"):
            cur_line += 1; continue
        if keep:
            pos = 0
            while pos < len(ln):
                mm = TOK_RE.match(ln, pos)
                if not mm:
                    pos += 1; continue
                pos = mm.end()
                k = mm.lastgroup
                if k == "ws": continue
                out.append(Tok(mm.group(0), k, cur_line))
        cur_line += 1
    return out


# ---------------------------------------------------------------------------------------------- parsing
def match_close(toks, i, op, cl):
    """toks[i] == op; index of the matching close"""
    d = 0
    while i < len(toks):
        s = toks[i].s
        if s == op: d += 1
        elif s == cl:
            d -= 1
            if d == 0: return i
        i += 1
    raise ValueError("unbalanced %s at line %d" % (op, toks[min(i, len(toks) - 1)].line))


class Func:
    def __init__(self, name, file, line, static, params, body_toks):
        self.name, self.file, self.line, self.static, self.params, self.body_toks = name, file, line, static, params, body_toks
        self.locals = {}            # name -> (type string, nptr)
        self.ast = None
        self.taint = {}             # var -> set of sources ("S:<shared>" | "P:<k>")
        self.derefR, self.derefW = set(), set()      # param indices dereferenced / written (transitively)
        self.wwhy = {}              # param index -> (line, how) witness of the first write found
        self.directW = set()        # param indices written by an lvalue of this function itself
        self.out_taint = {}         # param index -> set(sources) assigned to *param
        self.ret_taint = set()
        self.calls = set()          # lexical callees
        self.icalls = set()
        self.direct_locks = set()
        self.key = None


def split_top(toks, sep=","):
    out, cur, d = [], [], 0
    for t in toks:
        if t.s in "([{": d += 1
        elif t.s in ")]}": d -= 1
        if t.s == sep and d == 0:
            out.append(cur); cur = []
        else:
            cur.append(t)
    out.append(cur)
    return out


def parse_declarator(toks):
    """(name, nptr, type tokens) of `type *name[..]` / `type (*name)(..)`"""
    if not toks: return None
    # function pointer
    for i in range(len(toks) - 2):
        if toks[i].s == "(" and toks[i + 1].s == "*" and toks[i + 2].k == "id":
            return toks[i + 2].s, 1, toks[:i]
    # cut at '[' or '='
    end = len(toks)
    for i, t in enumerate(toks):
        if t.s in ("[", "="): end = i; break
    core = toks[:end]
    ids = [i for i, t in enumerate(core) if t.k == "id" and t.s not in KEYWORDS]
    if not ids: return None
    ni = ids[-1]
    nptr = sum(1 for t in core[:ni] if t.s == "*") + (1 if end < len(toks) and toks[end].s == "[" else 0)
    return core[ni].s, nptr, [t for t in core[:ni] if t.s != "*"]


def find_functions(rel, toks):
    funcs = []
    i, n = 0, len(toks)
    stmt_start = 0
    while i < n:
        s = toks[i].s
        if s == ";":
            stmt_start = i + 1; i += 1; continue
        if s == "{":
            # function body iff the previous token is ')' and an identifier precedes the matching '('
            j = i - 1
            isfn = False
            if j >= 0 and toks[j].s == ")":
                # find matching '('
                d, k = 0, j
                while k >= stmt_start:
                    if toks[k].s == ")": d += 1
                    elif toks[k].s == "(":
                        d -= 1
                        if d == 0: break
                    k -= 1
                if k > stmt_start and toks[k - 1].k == "id" and toks[k - 1].s not in KEYWORDS:
                    head = toks[stmt_start:k - 1]
                    if not any(t.s == "=" for t in head):
                        isfn = True
                        name = toks[k - 1].s
                        static = any(t.s == "static" for t in head)
                        ptoks = toks[k + 1:j]
                        params = []
                        if not (len(ptoks) == 1 and ptoks[0].s == "void") and ptoks:
                            for p in split_top(ptoks):
                                d2 = parse_declarator(p)
                                params.append(d2 if d2 else ("_", 0, p))
            e = match_close(toks, i, "{", "}")
            if isfn:
                funcs.append(Func(name, rel, toks[k - 1].line, static, params, toks[i:e + 1]))
            i = e + 1; stmt_start = i
            continue
        i += 1
    return funcs


class P:
    """statement parser over a token list"""
    def __init__(self, toks, fn): self.t, self.i, self.fn = toks, 0, fn
    def peek(self, k=0): return self.t[self.i + k].s if self.i + k < len(self.t) else None
    def eat(self, s):
        if self.peek() != s:
            raise ValueError("%s:%s: expected %r got %r near line %s" % (self.fn.file, self.fn.name, s, self.peek(), self.t[min(self.i, len(self.t) - 1)].line))
        self.i += 1
    def paren(self):
        self.eat("(")
        st, d = self.i, 1
        while d:
            s = self.peek()
            if s is None: raise ValueError("eof in parens")
            if s == "(": d += 1
            elif s == ")": d -= 1
            self.i += 1
        return self.t[st:self.i - 1]
    def until_semi(self):
        st, d = self.i, 0
        while True:
            s = self.peek()
            if s is None: raise ValueError("%s: eof in statement" % self.fn.name)
            if s in "([{": d += 1
            elif s in ")]}": d -= 1
            elif s == ";" and d == 0: break
            self.i += 1
        toks = self.t[st:self.i]; self.i += 1
        return toks
    def block(self):
        self.eat("{"); out = []
        while self.peek() != "}":
            if self.peek() is None: raise ValueError("eof in block")
            out.append(self.stmt())
        self.eat("}")
        return ("block", out)
    def stmt(self):
        s = self.peek(); line = self.t[self.i].line
        if s == "{": return self.block()
        if s == ";": self.i += 1; return ("block", [])
        if s == "if":
            self.i += 1; c = self.paren(); a = self.stmt(); b = ("block", [])
            if self.peek() == "else": self.i += 1; b = self.stmt()
            return ("if", c, a, b, line)
        if s == "while":
            self.i += 1; c = self.paren(); return ("while", c, self.stmt(), line)
        if s == "do":
            self.i += 1; b = self.stmt(); self.eat("while"); c = self.paren(); self.eat(";"); return ("dowhile", b, c, line)
        if s == "for":
            self.i += 1; inner = self.paren(); parts = split_top(inner, ";")
            while len(parts) < 3: parts.append([])
            return ("for", parts[0], parts[1], parts[2], self.stmt(), line)
        if s == "switch":
            self.i += 1; c = self.paren(); return ("switch", c, self.stmt(), line)
        if s == "case":
            self.i += 1
            d = 0
            while not (self.peek() == ":" and d == 0):
                if self.peek() == "?": d += 1
                elif self.peek() == ":": d -= 1
                self.i += 1
            self.i += 1; return ("case", line)
        if s == "default" and self.peek(1) == ":": self.i += 2; return ("case", line)
        if s == "return": self.i += 1; return ("return", self.until_semi(), line)
        if s == "break": self.i += 1; self.eat(";"); return ("break", line)
        if s == "continue": self.i += 1; self.eat(";"); return ("continue", line)
        if s == "goto": self.i += 1; l = self.peek(); self.i += 1; self.eat(";"); return ("goto", l, line)
        if self.t[self.i].k == "id" and s not in KEYWORDS and self.peek(1) == ":" :
            self.i += 2; return ("label", s, line)
        return ("expr", self.until_semi(), line)


def is_decl(toks):
    """declaration statement?  (type tokens, then declarators)"""
    if not toks: return False
    if toks[0].s in ("struct", "union", "enum", "const", "unsigned", "signed", "static", "volatile", "register",
                     "int", "char", "short", "long", "void", "float", "double", "_Bool", "__extension__"):
        return True
    if toks[0].k == "id" and toks[0].s not in KEYWORDS and len(toks) >= 2:
        j = 1
        while j < len(toks) and toks[j].s in ("*", "const", "volatile", "__restrict", "restrict"): j += 1
        if j < len(toks) and toks[j].k == "id" and toks[j].s not in KEYWORDS:
            # `a * b` as an expression statement does not occur; `T *v`, `T v` are declarations
            nxt = toks[j + 1].s if j + 1 < len(toks) else ";"
            return nxt in ("=", ";", ",", "[") or j + 1 == len(toks)
    return False


# ---------------------------------------------------------------------------------------------- expression scan
IDENT_ROOTS, FIELD_ROOTS, CACHE_ROOT = {}, {}, None
for _n, _m, _pats in SHARED:
    for _p in _pats:
        if _p.startswith("ident:"): IDENT_ROOTS[_p[6:]] = _n
        elif _p.startswith("field:"): FIELD_ROOTS[_p[6:]] = _n
        elif _p == "cachefield": CACHE_ROOT = _n


def root_at(toks, i):
    """shared root mentioned at token i -> shared name or None"""
    t = toks[i]
    if t.k != "id": return None
    s = t.s
    if s in IDENT_ROOTS:
        if i == 0 or toks[i - 1].s not in ("->", "."): return IDENT_ROOTS[s]
        return None
    if s in FIELD_ROOTS:
        if i > 0 and toks[i - 1].s in ("->", "."): return FIELD_ROOTS[s]
        return None
    if s == "cache" and CACHE_ROOT and i > 0 and toks[i - 1].s in ("->", ".") and i + 2 < len(toks) and toks[i + 1].s == "." \
       and toks[i + 2].k == "id" and toks[i + 2].s != "lock":
        return CACHE_ROOT
    return None


def lvalue_span_left(toks, j):
    """token index range [a, j) of the lvalue expression ending just before index j"""
    a = j
    while a > 0:
        s = toks[a - 1].s
        if s == "]":
            d, k = 0, a - 1
            while k >= 0:
                if toks[k].s == "]": d += 1
                elif toks[k].s == "[":
                    d -= 1
                    if d == 0: break
                k -= 1
            a = k; continue
        if s == ")":
            d, k = 0, a - 1
            while k >= 0:
                if toks[k].s == ")": d += 1
                elif toks[k].s == "(":
                    d -= 1
                    if d == 0: break
                k -= 1
            a = k; continue
        if toks[a - 1].k == "id" and s not in KEYWORDS: a -= 1; continue
        if s in ("->", "."): a -= 1; continue
        if s == "*" and (a - 1 == 0 or toks[a - 2].s in ("(", ",", "=", ";", "{", "}", "&&", "||", "!", "?", ":") or toks[a - 2].s in ASSIGN_OPS):
            a -= 1; continue
        break
    return a


def lvalue_span_right(toks, j):
    """range (j, b] of the lvalue expression starting right after index j (for prefix ++/--)"""
    b = j + 1
    while b < len(toks) and toks[b].s in ("*", "("): b += 1
    while b < len(toks):
        s = toks[b].s
        if toks[b].k == "id" or s in ("->", "."): b += 1; continue
        if s == "[": b = match_close(toks, b, "[", "]") + 1; continue
        break
    return b


def in_index(toks, a, b, i):
    """is token i (a<=i<b) inside a [...] or (...)-argument group of the span?"""
    d = 0
    for k in range(a, i):
        if toks[k].s in ("[",): d += 1
        elif toks[k].s in ("]",): d -= 1
    return d > 0


class Ctx:
    """per-program tables available to the scanner"""
    def __init__(self): self.funcs = {}


def mutex_of_arg(argtoks):
    txt = "".join(t.s for t in argtoks)
    for name, rx in MUTEXES:
        if re.search(rx, txt): return name
    return "m_unknown:" + txt


def scan_expr(fn, toks, ctx, events, assigns=None):
    """append, in textual order, the events of an opaque expression:
       ('lock', m, line) ('unlock', m, line) ('acc', shared, 'R'|'W', line, why) ('call', f, [argtoks], line) ('icall', field, line)
       and (when assigns is a list) the pointer assignments (lhs var or ('*', var), rhs tokens)"""
    if is_decl(toks):
        # declaration: only the initialisers are expressions (the declarator `T *v` is not a dereference)
        for part in split_top(toks):
            eq = [i for i, t in enumerate(part) if t.s == "="]
            if not eq: continue
            d = parse_declarator(part)
            rhs = part[eq[0] + 1:]
            if assigns is not None and d: assigns.append((d[0], rhs))
            scan_expr(fn, rhs, ctx, events, assigns)
        return
    n = len(toks)
    # write spans
    wspans = []
    for j, t in enumerate(toks):
        if t.s in ASSIGN_OPS:
            a = lvalue_span_left(toks, j)
            if a < j: wspans.append((a, j))
            if assigns is not None and t.s == "=":
                # rhs: to the next top-level ',' or unmatched ')'
                d, k = 0, j + 1
                while k < n:
                    s = toks[k].s
                    if s in "([{": d += 1
                    elif s in ")]}":
                        if d == 0: break
                        d -= 1
                    elif s == "," and d == 0: break
                    k += 1
                lhs = toks[a:j]
                if len(lhs) == 1 and lhs[0].k == "id": assigns.append((lhs[0].s, toks[j + 1:k]))
                elif len(lhs) == 2 and lhs[0].s == "*" and lhs[1].k == "id": assigns.append(("*" + lhs[1].s, toks[j + 1:k]))
        elif t.s in ("++", "--"):
            a = lvalue_span_left(toks, j)
            if a < j: wspans.append((a, j))
            else:
                b = lvalue_span_right(toks, j)
                if b > j + 1: wspans.append((j + 1, b))
    def is_written(i):
        return any(a <= i < b and not in_index(toks, a, b, i) for a, b in wspans)
    # call argument contexts: for every token, the innermost enclosing call (callee, arg index, '&'-prefixed arg?)
    callctx = [None] * n
    stack = []
    for i, t in enumerate(toks):
        if t.s == "(":
            callee = None
            if i > 0 and toks[i - 1].k == "id" and toks[i - 1].s not in KEYWORDS: callee = toks[i - 1].s
            stack.append([callee, 0, i])
        elif t.s == ")":
            if stack: stack.pop()
        elif t.s == "," and stack:
            # only top-level commas of this paren group
            stack[-1][1] += 1
        if stack and stack[-1][0]:
            callctx[i] = (stack[-1][0], stack[-1][1], stack[-1][2])
        elif stack:
            # nested plain parens inside a call argument: inherit
            for fr in reversed(stack):
                if fr[0]: callctx[i] = (fr[0], fr[1], fr[2]); break
    i = 0
    while i < n:
        t = toks[i]
        if t.k == "id" and t.s == "sizeof" and i + 1 < n and toks[i + 1].s == "(":
            i = match_close(toks, i + 1, "(", ")") + 1; continue
        if t.k == "id" and i + 1 < n and toks[i + 1].s == "(" and t.s not in KEYWORDS:
            e = match_close(toks, i + 1, "(", ")")
            args = split_top(toks[i + 2:e]) if e > i + 2 else []
            prev = toks[i - 1].s if i > 0 else ""
            if t.s in ("psLockMutex", "psUnlockMutex") and prev not in ("->", "."):
                events.append(("lock" if t.s == "psLockMutex" else "unlock", mutex_of_arg(args[0] if args else []), t.line))
                i = e + 1; continue
            if t.s in ("psCreateMutex", "psDestroyMutex"):
                events.append(("mutexinit", mutex_of_arg(args[0] if args else []), t.line)); i = e + 1; continue
            if t.s in LOCK_WRAP and prev not in ("->", "."):
                events.append(("lock", LOCK_WRAP[t.s], t.line)); i = e + 1; continue
            if t.s in UNLOCK_WRAP and prev not in ("->", "."):
                events.append(("unlock", UNLOCK_WRAP[t.s], t.line)); i = e + 1; continue
            if prev in ("->", "."):
                events.append(("icall", t.s, t.line))          # call through a function-pointer field (arguments scanned below)
            else:
                events.append(("call", t.s, args, t.line))
            i += 1; continue
        sh = root_at(toks, i)
        if sh:
            rw = "W" if is_written(i) else "R"
            cc = callctx[i]
            if rw == "R" and cc:
                callee, k, pi = cc
                # is this root the base of argument k (possibly behind & and casts)?
                if callee in WRITE_ARG0 and k == 0: rw = "W"
                elif callee in ctx.funcs:
                    f2 = ctx.funcs[callee]
                    if k in f2.derefW: rw = "W"
                elif callee not in WRITE_ARG0 and callee not in ctx.funcs:
                    # unknown (macro-expanded / libc / header-inline) routine given the address of shared storage
                    a0 = pi + 1
                    # find start of this argument
                    d, s0 = 0, pi + 1
                    for q in range(pi + 1, i):
                        if toks[q].s in "([": d += 1
                        elif toks[q].s in ")]": d -= 1
                        elif toks[q].s == "," and d == 0: s0 = q + 1
                    if toks[s0].s == "&" and not callee.lower().startswith(("memcmp", "strcmp", "strncmp", "dllistisempty")) and callee not in ("Memcmp", "memcmpct", "DLListIsEmpty", "DLListGetContainer"):
                        rw = "W"
            events.append(("acc", sh, rw, t.line, "root"))
            i += 1; continue
        if t.k == "id" and t.s in fn.taint and (i == 0 or toks[i - 1].s not in ("->", ".")):
            srcs = fn.taint[t.s]
            nxt = toks[i + 1].s if i + 1 < n else ""
            prev = toks[i - 1].s if i > 0 else ""
            deref = nxt in ("->", "[") or (prev == "*" and (i < 2 or toks[i - 2].k not in ("id", "num") and toks[i - 2].s not in (")", "]")))
            cc = callctx[i]
            if deref:
                rw = "W" if is_written(i) else "R"
                # a nested struct / array member handed to a mutator: memcpy(v->f, ...), g(&v->f) with g writing
                if rw == "R" and cc and cc[0] in WRITE_ARG0 and cc[1] == 0: rw = "W"
                if rw == "R" and cc and cc[0] in ctx.funcs and cc[1] in ctx.funcs[cc[0]].directW: rw = "W"
                for s in sorted(srcs):
                    if s.startswith("S:"): events.append(("acc", s[2:], rw, t.line, "deref " + t.s))
                    else:
                        k = int(s[2:]); fn.derefR.add(k)
                        if rw == "W":
                            if is_written(i): fn.directW.add(k)
                            fn.derefW.add(k); fn.wwhy.setdefault(k, (t.line, "write through " + t.s + ((" in call to " + cc[0]) if cc else "")))
            elif cc and nxt in (",", ")") and prev != "&":
                # the pointer itself is an argument
                callee, k, _pi = cc
                dr = dw = False
                if callee in ctx.funcs:
                    f2 = ctx.funcs[callee]; dr = k in f2.derefR; dw = k in f2.derefW
                elif callee in WRITE_ARG0 and k == 0: dr = dw = True
                elif callee in ("memcmp", "Memcmp", "memcmpct", "strlen", "Strlen", "memcpy", "Memcpy", "__builtin_memcpy", "__builtin___memcpy_chk") : dr = True
                if dr or dw:
                    for s in sorted(srcs):
                        if s.startswith("S:"): events.append(("acc", s[2:], "W" if dw else "R", t.line, "arg %d of %s" % (k, callee)))
                        else:
                            kk = int(s[2:]); fn.derefR.add(kk)
                            if dw:
                                fn.derefW.add(kk); fn.wwhy.setdefault(kk, (t.line, "passed to %s (parameter %d)" % (callee, k)))
        i += 1


# ---------------------------------------------------------------------------------------------- taint
def rhs_sources(fn, rhs, ctx):
    """sources a pointer value computed by `rhs` may point into"""
    out = set()
    n = len(rhs)
    for i, t in enumerate(rhs):
        if t.k != "id": continue
        prev = rhs[i - 1].s if i > 0 else ""
        sh = root_at(rhs, i)
        if sh: out.add("S:" + sh); continue
        if prev in ("->", "."): continue
        if t.s in fn.taint:
            out |= fn.taint[t.s]
        if i + 1 < n and rhs[i + 1].s == "(" and t.s in ctx.funcs:
            f2 = ctx.funcs[t.s]
            if f2.ret_taint:
                e = match_close(rhs, i + 1, "(", ")")
                args = split_top(rhs[i + 2:e]) if e > i + 2 else []
                for s in f2.ret_taint:
                    if s.startswith("S:"): out.add(s)
                    else:
                        k = int(s[2:])
                        if k < len(args): out |= rhs_sources(fn, args[k], ctx)
    return out


def walk(ast, f):
    k = ast[0]
    f(ast)
    if k == "block":
        for s in ast[1]: walk(s, f)
    elif k == "if": walk(ast[2], f); walk(ast[3], f)
    elif k in ("while", "switch"): walk(ast[2], f)
    elif k == "dowhile": walk(ast[1], f)
    elif k == "for": walk(ast[4], f)


def exprs_of(node):
    k = node[0]
    if k == "if": return [node[1]]
    if k in ("while", "switch"): return [node[1]]
    if k == "dowhile": return [node[2]]
    if k == "for": return [node[1], node[2], node[3]]
    if k == "return": return [node[1]]
    if k == "expr": return [node[1]]
    return []


def collect_decls(fn):
    def f(node):
        if node[0] == "expr" and is_decl(node[1]):
            toks = node[1]
            # type tokens up to the first declarator
            parts = split_top(toks)
            first = parse_declarator(parts[0])
            if not first: return
            tystr = " ".join(t.s for t in first[2])
            fn.locals[first[0]] = (tystr, first[1])
            for p in parts[1:]:
                d = parse_declarator(p)
                if d: fn.locals[d[0]] = (tystr, d[1])
        if node[0] == "for" and is_decl(node[1]):
            d = parse_declarator(split_top(node[1])[0])
            if d: fn.locals[d[0]] = (" ".join(t.s for t in d[2]), d[1])
    walk(fn.ast, f)


def is_ptr_var(fn, v):
    if v in fn.locals: return fn.locals[v][1] >= 1
    for (n, nptr, _ty) in fn.params:
        if n == v: return nptr >= 1
    return False


def taint_pass(fn, ctx):
    """one flow-insensitive pass; returns True if anything changed"""
    before = (sum(len(v) for v in fn.taint.values()), len(fn.derefR), len(fn.derefW), len(fn.ret_taint),
              sum(len(v) for v in fn.out_taint.values()), len(fn.taint), len(fn.directW))
    pidx = {n: k for k, (n, _p, _t) in enumerate(fn.params)}
    def add(v, srcs):
        if srcs and is_ptr_var(fn, v):
            fn.taint.setdefault(v, set()).update(srcs)
    def f(node):
        for ex in exprs_of(node):
            ev, asg = [], []
            scan_expr(fn, ex, ctx, ev, asg)
            for lhs, rhs in asg:
                if len(rhs) == 1 and (fn.name, lhs, rhs[0].s) in NOFLOW: continue
                srcs = rhs_sources(fn, rhs, ctx)
                if lhs.startswith("*"):
                    v = lhs[1:]
                    if v in pidx and srcs: fn.out_taint.setdefault(pidx[v], set()).update(srcs)
                else:
                    add(lhs, srcs)
            # out-parameters of callees:  f(..., &v, ...)
            for e in ev:
                if e[0] == "call" and e[1] in ctx.funcs:
                    f2 = ctx.funcs[e[1]]
                    for k, srcs in f2.out_taint.items():
                        if k < len(e[2]):
                            a = e[2][k]
                            if len(a) == 2 and a[0].s == "&" and a[1].k == "id":
                                res = set()
                                for s in srcs:
                                    if s.startswith("S:"): res.add(s)
                                    else:
                                        kk = int(s[2:])
                                        if kk < len(e[2]): res |= rhs_sources(fn, e[2][kk], ctx)
                                add(a[1].s, res)
            if node[0] == "return":
                fn.ret_taint |= rhs_sources(fn, ex, ctx)
    walk(fn.ast, f)
    after = (sum(len(v) for v in fn.taint.values()), len(fn.derefR), len(fn.derefW), len(fn.ret_taint),
             sum(len(v) for v in fn.out_taint.values()), len(fn.taint), len(fn.directW))
    return after != before


def init_taint(fn):
    for k, (n, nptr, ty) in enumerate(fn.params):
        tys = " ".join(t.s for t in ty) if ty and not isinstance(ty, str) else str(ty)
        if nptr >= 1:
            fn.taint.setdefault(n, set()).add("P:%d" % k)
        # (parameters are not tainted by type: what a callee does with a parameter is accounted at the call sites
        #  whose argument points into a shared structure)
    for v, (ty, nptr) in fn.locals.items():
        for T, sh in TYPE_SHARED.items():
            if nptr == 1 and re.search(r"\b%s\b" % T, ty): fn.taint.setdefault(v, set()).add("S:" + sh)


# ---------------------------------------------------------------------------------------------- trees
# tree nodes: ("leaf", kind, ...) | ("skip",) | ("seq", [..]) | ("choice", [..]) | ("loop", t) | ("catch", t) | ("break",) | ("continue",) | ("ret",)
def seq(xs):
    out = []
    for x in xs:
        if x[0] == "skip": continue
        if x[0] == "seq": out.extend(x[1])
        else: out.append(x)
    # drop everything after an unconditional exit
    cut = []
    for x in out:
        cut.append(x)
        if x[0] in ("ret", "break", "continue") or (x[0] == "seq" and False): break
    if not cut: return ("skip",)
    if len(cut) == 1: return cut[0]
    return ("seq", cut)


def choice(xs):
    ys = []
    for x in xs:
        if x not in ys: ys.append(x)
    if len(ys) == 1: return ys[0]
    return ("choice", ys)


def has_exit(t, kinds):
    k = t[0]
    if k in kinds: return True
    if k in ("seq", "choice"): return any(has_exit(x, kinds) for x in t[1])
    if k == "loop": return has_exit(t[1], kinds - {"break", "continue"})
    if k == "catch": return has_exit(t[1], kinds - {"break"})
    return False


def trivial(t):
    """no relevant leaf and no exit: equivalent to skip for the checker"""
    k = t[0]
    if k == "skip": return True
    if k in ("leaf", "ret", "break", "continue"): return False
    if k in ("seq", "choice"): return all(trivial(x) for x in t[1])
    return trivial(t[1])


class Unsupported(Exception):
    pass


class TreeBuilder:
    def __init__(self, fn, ctx, keep_call):
        self.fn, self.ctx, self.keep_call = fn, ctx, keep_call
        self.leaves = []            # census: (kind, what, rw, line, why)
        self.top = None
        self.goto_stack = []
        self.budget = 40000

    def expr_tree(self, toks):
        ev = []
        scan_expr(self.fn, toks, self.ctx, ev)
        out = []
        for e in ev:
            if e[0] in ("lock", "unlock"):
                out.append(("leaf", e[0], e[1], e[2])); self.leaves.append((e[0], e[1], "", e[2], ""))
            elif e[0] == "acc":
                out.append(("leaf", "acc", e[1], e[2], e[3])); self.leaves.append(("acc", e[1], e[2], e[3], e[4]))
            elif e[0] == "call":
                if self.keep_call(e[1]):
                    out.append(("leaf", "call", e[1], e[3])); self.leaves.append(("call", e[1], "", e[3], ""))
            elif e[0] == "icall":
                if self.keep_call("cb:" + e[1]):
                    out.append(("leaf", "call", "cb:" + e[1], e[2])); self.leaves.append(("call", "cb:" + e[1], "", e[2], ""))
        return seq(out)

    def stmts(self, lst, cont_step=None):
        return seq([self.stmt(s, cont_step) for s in lst])

    def stmt(self, node, cont_step=None):
        k = node[0]
        if k == "block": return self.stmts(node[1], cont_step)
        if k == "expr": return self.expr_tree(node[1])
        if k == "return": return seq([self.expr_tree(node[1]), ("ret",)])
        if k == "break": return ("break",)
        if k == "continue": return seq([cont_step, ("continue",)]) if cont_step else ("continue",)
        if k == "label" or k == "case": return ("skip",)
        if k == "goto": return self.goto(node[1], node[2])
        if k == "if":
            c = self.expr_tree(node[1])
            return seq([c, choice([self.stmt(node[2], cont_step), self.stmt(node[3], cont_step)])])
        if k == "while":
            c = self.expr_tree(node[1])
            body = self.stmt(node[2], None)
            # the condition is evaluated once more when the loop is left
            return seq([("loop", seq([c, body])), c])
        if k == "dowhile":
            c = self.expr_tree(node[2])
            ctxt = "".join(t.s for t in node[2])
            body = self.stmt(node[1], None)
            if ctxt == "0":
                inner = seq([body, c])
                if has_exit(body, {"continue"}): raise ValueError("continue inside do{}while(0) in %s" % self.fn.name)
                return ("catch", inner) if has_exit(body, {"break"}) else inner
            return ("loop", seq([body, c]))
        if k == "for":
            init = self.expr_tree(node[1]); c = self.expr_tree(node[2]); step = self.expr_tree(node[3])
            body = self.stmt(node[4], step if not trivial(step) else None)
            return seq([init, ("loop", seq([c, body, step])), c])
        if k == "switch":
            c = self.expr_tree(node[1])
            body = node[2]
            items = body[1] if body[0] == "block" else [body]
            entries = [i for i, s in enumerate(items) if s[0] == "case"]
            has_default = True   # the scanner does not distinguish `default`: always allow "no case taken"
            alts = [("skip",)]
            for e in entries:
                alts.append(self.stmts(items[e:], cont_step))
            return seq([c, ("catch", choice(alts))])
        raise ValueError("unknown node " + k)

    def goto(self, label, line):
        top = self.top
        idx = None
        for i, s in enumerate(top):
            if s[0] == "label" and s[1] == label: idx = i; break
        if idx is None:
            raise Unsupported("%s:%s: goto %s: label is not at function level" % (self.fn.file, self.fn.name, label))
        if label in self.goto_stack:
            raise Unsupported("%s:%s: goto %s: backward / cyclic goto" % (self.fn.file, self.fn.name, label))
        self.budget -= 1 + len(top) - idx
        if self.budget < 0:
            raise Unsupported("%s:%s: goto inlining too large" % (self.fn.file, self.fn.name))
        self.goto_stack.append(label)
        t = seq([self.stmts(top[idx + 1:]), ("ret",)])
        self.goto_stack.pop()
        return t

    def build(self):
        body = self.fn.ast
        self.top = body[1]
        # labels reached by falling through are "being executed": a goto back to them is a cycle
        try:
            parts = []
            for i, s in enumerate(self.top):
                if s[0] == "label": self.goto_stack.append(s[1])
                parts.append(self.stmt(s))
            self.goto_stack = []
            return prune(seq(parts + [("ret",)]))
        except Unsupported as e:
            # Functions WITHOUT lock operations of their own: control flow cannot change the lock state, every path is
            # some sequence of the function's leaves -> sound over-approximation "any leaf, any number of times, any order".
            self.leaves = []; self.goto_stack = []
            ev_leaves = []
            def f(node):
                for ex in exprs_of(node):
                    t = self.expr_tree(ex)
                    if t[0] == "leaf": ev_leaves.append(t)
                    elif t[0] == "seq": ev_leaves.extend(t[1])
            walk(body, f)
            if any(l[1] in ("lock", "unlock") for l in ev_leaves):
                raise ValueError("unsupported control flow in a function with lock operations: %s" % e)
            uniq = []
            for l in ev_leaves:
                key = l[:3] + ((l[3],) if l[1] == "acc" else ())
                if key not in [u[0] for u in uniq]: uniq.append((key, l))
            self.bag = True
            if not uniq: return ("ret",)
            return seq([("loop", choice([u[1] for u in uniq])), ("ret",)])


def prune(t):
    k = t[0]
    if k in ("seq",):
        return seq([prune(x) for x in t[1]])
    if k == "choice":
        ys = [prune(x) for x in t[1]]
        ys2 = []
        for y in ys:
            if y not in ys2: ys2.append(y)
        if all(y[0] == "skip" for y in ys2): return ("skip",)
        return choice(ys2)
    if k == "loop":
        b = prune(t[1])
        if trivial(b): return ("skip",)
        return ("loop", b)
    if k == "catch":
        b = prune(t[1])
        if trivial(b): return ("skip",)
        if not has_exit(b, {"break"}): return b
        return ("catch", b)
    return t


def tree_has(t, pred):
    if t[0] == "leaf": return pred(t)
    if t[0] in ("seq", "choice"): return any(tree_has(x, pred) for x in t[1])
    if t[0] in ("loop", "catch"): return tree_has(t[1], pred)
    return False


# ---------------------------------------------------------------------------------------------- python pre-check
def needs_context(tree, trees, depth=0):
    """does some path reach an Unlock, or an Acc of a mutex-guarded object, without having taken the mutex
       in this function (=> the function is written to be called with the lock held)"""
    guard = {n: m for n, m, _p in SHARED}
    bad = [False]
    memo = {}
    def run(t, held, depth):
        key = (id(t), held, depth > 5)
        if key in memo: return memo[key]
        memo[key] = r = run1(t, held, depth)
        return r
    def run1(t, held, depth):
        k = t[0]
        if k == "leaf":
            if t[1] == "lock": return frozenset([held | {t[2]}])
            if t[1] == "unlock":
                if t[2] not in held: bad[0] = True
                return frozenset([held - {t[2]}])
            if t[1] == "acc":
                m = guard.get(t[2])
                if m and m not in held: bad[0] = True
                return frozenset([held])
            if t[1] == "call":
                if t[2] in trees and depth < 6 and trees[t[2]][0] == "Helper":
                    run(trees[t[2]][1], held, depth + 1)
                return frozenset([held])
        if k == "seq":
            hs = frozenset([held])
            for x in t[1]:
                nh = set()
                for h in hs: nh |= run(x, h, depth)
                hs = frozenset(nh)
                if not hs: break
            return hs
        if k == "choice":
            out = set()
            for x in t[1]: out |= run(x, held, depth)
            return frozenset(out)
        if k in ("loop", "catch"):
            return frozenset(run(t[1], held, depth) | {held})
        if k == "ret": return frozenset()
        return frozenset([held])
    run(tree, frozenset(), 0)
    return bad[0]


def diagnose(entry_key, trees, kinds, rank):
    """Python mirror of ConcModel.run, only to NAME the offending leaf (the verdict is Coq's)"""
    guard = {n: m for n, m, _p in SHARED}
    fails = []
    def fail(why, t):
        fails.append((why, t[3] if t and t[0] == "leaf" and len(t) > 3 else 0))
        raise StopIteration
    def note(why):
        if (why, 0) not in fails: fails.append((why, 0))
    def join(a, b, what):
        if a is None: return b
        if b is None: return a
        if a != b: fails.append(("lock state differs at a join (%s): %s vs %s" % (what, sorted(a), sorted(b)), 0)); raise StopIteration
        return a
    def run(fkey, t, H0, S, depth):
        k = t[0]
        if k == "skip": return (S, None, None)
        if k == "break": return (None, S, None)
        if k == "continue": return (None, None, S)
        if k == "ret":
            if S != H0: fails.append(("return in %s with lock state %s instead of %s" % (fkey, sorted(S), sorted(H0)), 0)); raise StopIteration
            return (None, None, None)
        if k == "leaf":
            if t[1] == "lock":
                if t[2] in S: fail("%s: %s taken while already held (self-deadlock)" % (fkey, t[2]), t)
                if any(rank.get(h, 99) >= rank.get(t[2], -1) for h in S): fail("%s: %s taken while %s held (lock order)" % (fkey, t[2], sorted(S)), t)
                return (S | {t[2]}, None, None)
            if t[1] == "unlock":
                if t[2] not in S: fail("%s: %s released but not held" % (fkey, t[2]), t)
                return (S - {t[2]}, None, None)
            if t[1] == "acc":
                m = guard.get(t[2], "?")
                # access failures are recorded and the walk goes on (all of them are wanted in the report)
                if m is None:
                    if t[3] == "W": note("%s: write to %s (no mutex: set-up only) at line %s" % (fkey, t[2], t[4]))
                elif m not in S: note("%s: %s %s without %s at line %s" % (fkey, "write to" if t[3] == "W" else "read of", t[2], m, t[4]))
                return (S, None, None)
            if t[1] == "call":
                c = t[2]
                if c not in trees:
                    ms = SUMMARY_LOCKS.get(c, [])
                    for m in ms:
                        if m in S: fail("%s: calls %s, which may take %s, while holding it" % (fkey, c, m), t)
                        if any(rank.get(h, 99) >= rank.get(m, -1) for h in S): fail("%s: calls %s (may take %s) while holding %s (lock order)" % (fkey, c, m, sorted(S)), t)
                    return (S, None, None)
                if kinds.get(c) == "Waived": return (S, None, None)
                if depth > 40: fail("%s: call depth exceeded (recursion) at %s" % (fkey, c), t)
                n, b, ct = run(c, trees[c], S, S, depth + 1)
                if b is not None or ct is not None or (n is not None and n != S): fail("%s: callee %s leaves the lock state changed" % (fkey, c), t)
                return (S, None, None)
        if k == "seq":
            cur, bk, ct = S, None, None
            for x in t[1]:
                n, b, c2 = run(fkey, x, H0, cur, depth)
                bk = join(bk, b, "break"); ct = join(ct, c2, "continue")
                cur = n
                if cur is None: break
            return (cur, bk, ct)
        if k == "choice":
            nn = bb = cc = None
            for x in t[1]:
                n, b, c2 = run(fkey, x, H0, S, depth)
                nn = join(nn, n, "if/else"); bb = join(bb, b, "break"); cc = join(cc, c2, "continue")
            return (nn, bb, cc)
        if k == "loop":
            n, b, c2 = run(fkey, t[1], H0, S, depth)
            if (n is not None and n != S) or (c2 is not None and c2 != S):
                fails.append(("%s: a loop iteration changes the lock state %s -> %s" % (fkey, sorted(S), sorted(n if n is not None else c2)), 0)); raise StopIteration
            return (join(S, b, "loop exit"), None, None)
        if k == "catch":
            n, b, c2 = run(fkey, t[1], H0, S, depth)
            return (join(n, b, "switch exit"), None, c2)
        raise ValueError(k)
    try:
        n, b, c = run(entry_key, trees[entry_key], frozenset(), frozenset(), 0)
        if b is not None or c is not None or (n is not None and n != frozenset()):
            fails.append(("%s: falls off the end holding %s" % (entry_key, sorted(n or b or c)), 0))
    except StopIteration:
        pass
    except RecursionError:
        fails.append(("%s: recursion limit in the diagnostic walker" % entry_key, 0))
    return fails


SUMMARY_LOCKS = {}


# ---------------------------------------------------------------------------------------------- main
def source_list():
    log = os.path.join(REPO, "verif-build.log")
    files = []
    if os.path.exists(log):
        cwd = REPO
        for ln in open(log, errors="replace"):
            m = re.match(r"make\[\d+\]: Entering directory '([^']+)'", ln)
            if m: cwd = m.group(1); continue
            if re.match(r"\s*(cc|gcc|clang)\s+-c\b", ln):
                ws = ln.split()
                src = [w for w in ws if w.endswith(".c")]
                if len(src) != 1: continue
                pth = os.path.normpath(os.path.join(cwd, src[0]))
                if not (pth.startswith(REPO) and os.path.exists(pth)): continue
                rel = os.path.relpath(pth, REPO)
                argv, skip = [ws[0], "-E"], False
                for w in ws[1:]:
                    if skip: skip = False; continue
                    if w == "-c": continue
                    if w == "-o": skip = True; continue
                    if w.startswith("-fsanitize") or w.startswith("-O") or w == "-g": continue
                    argv.append(w)
                CMDS[rel] = (cwd, argv)
                files.append(rel)
    # always add the library directories themselves (an incremental build log lists only recompiled files)
    if True:
        for top in ("core/src", "core/osdep/POSIX", "crypto", "matrixssl"):
            for root, _d, fs in os.walk(os.path.join(REPO, top)):
                if "/test" in root or "/apps" in root: continue
                for f in fs:
                    if f.endswith(".c"): files.append(os.path.relpath(os.path.join(root, f), REPO))
    return sorted(set(files))


def public_api_names():
    names = set()
    for root, _d, fs in os.walk(REPO):
        if "/test" in root or "/apps" in root or "/.git" in root: continue
        for f in fs:
            if f.endswith(".h"):
                try: txt = open(os.path.join(root, f), errors="replace").read()
                except OSError: continue
                for m in re.finditer(r"PSPUBLIC[^;(]*?\b([A-Za-z_]\w*)\s*\(", txt): names.add(m.group(1))
    return names


def coq_str(s): return '"' + s.replace('"', '""') + '"'


def main():
    json_out = None
    if "--json" in sys.argv: json_out = sys.argv[sys.argv.index("--json") + 1]
    waived_rx = []
    try:
        kf = json.load(open(os.path.join(VERIF, "known_findings.json")))
        for k in kf.get("findings", []):
            if k.get("property") == "C20" and k.get("status") == "open": waived_rx.append(re.compile(k["signature"]))
    except Exception:
        pass
    files = source_list()
    with ThreadPoolExecutor(max_workers=4) as ex:
        texts = list(ex.map(preprocess, files))
    ctx = Ctx()
    allf = []
    skipped = []
    for rel, txt in zip(files, texts):
        if txt is None: skipped.append(rel); continue
        toks = tokens_of_unit(rel, txt)
        for fn in find_functions(rel, toks):
            if fn.name in LOCK_WRAP or fn.name in UNLOCK_WRAP or fn.name in ("psLockMutex", "psUnlockMutex", "psCreateMutex", "psDestroyMutex"):
                continue
            try:
                fn.ast = P(fn.body_toks, fn).block()
            except ValueError as e:
                skipped.append("%s:%s (%s)" % (rel, fn.name, e)); continue
            fn.key = fn.name
            if fn.name in ctx.funcs:        # two statics with the same name in different files: keep both under distinct keys
                fn.key = fn.name + "@" + os.path.basename(rel)
            ctx.funcs[fn.key] = fn
            allf.append(fn)
    for fn in allf:
        collect_decls(fn); init_taint(fn)
    # simple lock wrappers:  void f(void) { psLockMutex(&M); }   ->  calls to f are Lock M leaves
    for fn in list(allf):
        body = fn.ast[1]
        real = [st for st in body if not (st[0] == "return" and not st[1])]
        if len(real) == 1 and real[0][0] == "expr":
            ev = []
            scan_expr(fn, real[0][1], ctx, ev)
            if len(ev) == 1 and ev[0][0] in ("lock", "unlock") and not ev[0][1].startswith("m_unknown"):
                (LOCK_WRAP if ev[0][0] == "lock" else UNLOCK_WRAP)[fn.name] = ev[0][1]
    for fn in list(allf):
        if fn.name in LOCK_WRAP or fn.name in UNLOCK_WRAP:
            allf.remove(fn); ctx.funcs.pop(fn.key, None)
    # inter-procedural fixpoint of taints and parameter summaries (worklist over the lexical call graph)
    def lexical_calls(fn):
        out = set()
        bt = fn.body_toks
        for i in range(len(bt) - 1):
            if bt[i].k == "id" and bt[i + 1].s == "(" and bt[i].s not in KEYWORDS: out.add(bt[i].s)
        return out
    lex_callers = {}
    for fn in allf:
        for c in lexical_calls(fn): lex_callers.setdefault(c, set()).add(fn.key)
    work = list(allf)
    for _round in range(40):
        changed = set()
        for fn in work:
            if taint_pass(fn, ctx): changed.add(fn.key)
        if not changed: break
        nxt = set(changed)
        for k in changed:
            nxt |= lex_callers.get(ctx.funcs[k].name, set())
            # out-parameter / return taints flow to callers, argument summaries are read by callers: callers only
        work = [ctx.funcs[k] for k in sorted(nxt)]
    # lexical call graph, direct locks
    for fn in allf:
        def f(node, fn=fn):
            for ex in exprs_of(node):
                ev = []
                scan_expr(fn, ex, ctx, ev)
                for e in ev:
                    if e[0] == "call": fn.calls.add(e[1])
                    elif e[0] == "icall": fn.icalls.add(e[1])
                    elif e[0] == "lock": fn.direct_locks.add(e[1])
        walk(fn.ast, f)
    may_lock = {k: set(f.direct_locks) for k, f in ctx.funcs.items()}
    for cb, ms in CALLBACK_MAY_LOCK.items(): may_lock["cb:" + cb] = set(ms)
    ch = True
    while ch:
        ch = False
        for k, f in ctx.funcs.items():
            for c in f.calls:
                if c in may_lock and not may_lock[c] <= may_lock[k]:
                    may_lock[k] |= may_lock[c]; ch = True
            for c in f.icalls:
                if "cb:" + c in may_lock and not may_lock["cb:" + c] <= may_lock[k]:
                    may_lock[k] |= may_lock["cb:" + c]; ch = True
    callers = {}
    for k, f in ctx.funcs.items():
        for c in f.calls: callers.setdefault(c, set()).add(k)

    # first pass trees with every call kept, to find the functions with direct leaves
    def build(fn, keep):
        tb = TreeBuilder(fn, ctx, keep)
        return tb.build(), tb.leaves
    direct = {}
    errors = []
    for fn in allf:
        try:
            t, leaves = build(fn, lambda c: False)
        except ValueError as e:
            # only fatal if the function is relevant; decide below by a raw text test
            txt = " ".join(tok.s for tok in fn.body_toks)
            if re.search(r"psLockMutex|psUnlockMutex|g_sessionTable|g_sessionChronList|sessTickets|g_CRL|gMatrixPrng|cache\s*\.\s*ecc", txt):
                errors.append(str(e))
            continue
        if any(l[0] in ("lock", "unlock", "acc") for l in leaves):
            direct[fn.key] = True
    if errors:
        print("translator: unsupported control flow in a relevant function:\n  " + "\n  ".join(errors)); sys.exit(3)
    api = public_api_names()
    # table = functions with direct leaves; then: callers of helpers (closure); summaries for lock-taking callees
    table = dict(direct)
    kinds, trees, census = {}, {}, {}
    def reaches(src, dst, seen=None):
        """lexical call-graph reachability restricted to the table"""
        seen = seen if seen is not None else set()
        for c in ctx.funcs[src].calls:
            for k2 in (c,):
                if k2 == dst: return True
                if k2 in table and k2 not in seen:
                    seen.add(k2)
                    if reaches(k2, dst, seen): return True
        return False
    def lockfree(k): return not ctx.funcs[k].direct_locks
    def keep_call_for(fnkey):
        f = ctx.funcs[fnkey]
        holds = bool(f.direct_locks) or tree_kind_hint.get(fnkey) == "Helper"
        def keep(c):
            if c.startswith("cb:"):
                return holds
            if c in table:
                # recursion among functions WITHOUT lock operations of their own: the lock state at the recursive call
                # is the state at entry, the recursive instance adds no new lock behaviour -> the back edge is dropped
                if lockfree(fnkey) and (c == fnkey or reaches(c, fnkey)) and lockfree(c): return False
                return True
            if holds and may_lock.get(c): return True
            return False
        return keep
    tree_kind_hint = {}
    for _it in range(8):
        kinds_prev = dict(kinds); table_prev = set(table)
        # build with current knowledge
        for key in list(table):
            fn = ctx.funcs[key]
            t, leaves = build(fn, keep_call_for(key))
            trees[key] = t; census[key] = leaves
        # classify
        tmp = {k: ("Helper", trees[k]) for k in trees}
        for key in list(table):
            fn = ctx.funcs[key]
            sig = "unlocked:%s:%s" % (fn.file, fn.name)
            if SETUP_RE.match(fn.name): kinds[key] = "Setup"
            elif any(rx.fullmatch(sig) for rx in waived_rx): kinds[key] = "Waived"
            else:
                has_callers = bool(callers.get(fn.name)) or bool(callers.get(key))
                ctxneed = needs_context(trees[key], {k: (kinds.get(k, "Entry"), trees[k]) for k in trees})
                if ctxneed and has_callers and fn.name not in api: kinds[key] = "Helper"
                else: kinds[key] = "Entry"
            tree_kind_hint[key] = kinds[key]
        # callers of helpers must be in the table
        for key in list(table):
            if kinds[key] == "Helper":
                fn = ctx.funcs[key]
                for c in (callers.get(fn.name, set()) | callers.get(key, set())):
                    if c not in table: table[c] = True
        if kinds == kinds_prev and set(table) == table_prev: break
    # summaries for callees outside the table that may lock
    summaries = {}
    for key in table:
        def f(t):
            if t[0] == "leaf" and t[1] == "call" and t[2] not in table: summaries[t[2]] = sorted(may_lock.get(t[2], []))
            return False
        tree_has(trees[key], f)

    # --------------------------------------------------------------------------------- ids and emission
    order = sorted(table, key=lambda k: (ctx.funcs[k].file, ctx.funcs[k].line))
    fid = {}
    for k in order: fid[k] = len(fid)
    for k in sorted(summaries): fid[k] = len(fid)
    mid = {n: i for i, (n, _r) in enumerate(MUTEXES)}
    sid = {n: i for i, (n, _m, _p) in enumerate(SHARED)}
    unknown_mutex = set()

    def emit(t, ind):
        k = t[0]
        if k == "leaf":
            if t[1] == "lock" or t[1] == "unlock":
                if t[2] not in mid: unknown_mutex.add(t[2]); return "TLeaf (Lock 99)" if t[1] == "lock" else "TLeaf (Unlock 99)"
                return "TLeaf (%s %s)" % ("Lock" if t[1] == "lock" else "Unlock", t[2])
            if t[1] == "acc": return "TLeaf (Acc %s %s)" % (t[2], t[3])
            if t[1] == "call": return "TLeaf (Call %d (* %s *))" % (fid[t[2]], t[2].replace("*", ""))
        if k == "skip": return "TSkip"
        if k == "ret": return "TLeaf Ret"
        if k == "break": return "TBreak"
        if k == "continue": return "TContinue"
        if k == "loop": return "TLoop (%s)" % emit(t[1], ind + 1)
        if k == "catch": return "TCatch (%s)" % emit(t[1], ind + 1)
        if k in ("seq", "choice"):
            cons = "TSeq" if k == "seq" else "TChoice"
            xs = t[1]
            s = emit(xs[-1], ind + 1)
            for x in reversed(xs[:-1]):
                s = "%s (%s)\n%s(%s)" % (cons, emit(x, ind + 1), "  " * ind, s)
            return s
        raise ValueError(k)

    out = ["(* GENERATED by tools/srcgen/gen_lockpaths.py from the preprocessed library sources - do not edit *)",
           "From Coq Require Import List String NArith.", "Import ListNotations.", "From MV Require Import Conc.ConcModel.",
           "Open Scope string_scope.", ""]
    for n, i in mid.items(): out.append("Definition %s : mutex := %d." % (n, i))
    for n, i in sid.items(): out.append("Definition %s : shared := %d." % (n, i))
    out.append("")
    out.append("Definition mutex_names : list (mutex * string) := [%s]." % "; ".join("(%s, %s)" % (n, coq_str(n)) for n in mid))
    out.append("Definition shared_names : list (shared * string) := [%s]." % "; ".join("(%s, %s)" % (n, coq_str(n)) for n in sid))
    out.append("(* guarding mutex of every shared object; None = written only by single-threaded set-up *)")
    out.append("Definition mutex_of_tab : list (shared * option mutex) := [%s]." %
               "; ".join("(%s, %s)" % (n, "Some " + m if m else "None") for n, m, _p in SHARED))
    out.append("(* lock order: a mutex may only be taken while mutexes of strictly smaller rank are held *)")
    out.append("Definition mutex_rank_tab : list (mutex * nat) := [%s]." % "; ".join("(%s, %d)" % (n, i) for n, i in mid.items()))
    out.append("")
    nleaf = {"lock": 0, "unlock": 0, "acc": 0, "call": 0}
    names = []
    for k in order:
        fn = ctx.funcs[k]
        for l in census[k]: nleaf[l[0]] += 1
        nm = "fn_%d" % fid[k]
        names.append(nm)
        out.append("(* %s:%d %s *)" % (fn.file, fn.line, fn.name))
        out.append("Definition %s : fn_decl := {| fn_id := %d; fn_name := %s; fn_file := %s; fn_line := %d%%N; fn_kind := K%s; fn_body :=\n  %s |}." %
                   (nm, fid[k], coq_str(fn.name), coq_str(fn.file), fn.line, kinds[k], emit(trees[k], 1)))
    for k in sorted(summaries):
        nm = "fn_%d" % fid[k]; names.append(nm)
        ms = [m for m in summaries[k] if m in mid]
        body = "TSkip"
        for m in ms: body = "TSeq (TChoice TSkip (TSeq (TLeaf (Lock %s)) (TLeaf (Unlock %s)))) (%s)" % (m, m, body)
        out.append("(* summary: %s may (transitively) take %s *)" % (k, ", ".join(ms) or "no mutex"))
        out.append("Definition %s : fn_decl := {| fn_id := %d; fn_name := %s; fn_file := \"\"; fn_line := 0%%N; fn_kind := KSummary; fn_body :=\n  %s |}." %
                   (nm, fid[k], coq_str(k), body))
    out.append("")
    out.append("Definition paths : list fn_decl := [%s]." % "; ".join(names))
    # how a ticket key is pinned while g_sessTicketLock is dropped around the user callback
    pin = "PinNone"
    g = ctx.funcs.get("getTicketKeys")
    u = ctx.funcs.get("matrixUnlockSessionTicket")
    if g:
        gt = " ".join(t.s for t in g.body_toks); ut = " ".join(t.s for t in u.body_toks) if u else ""
        flag_set = len(re.findall(r"-> inUse = 1", gt)); cnt_inc = len(re.findall(r"-> inUse \+\+|-> inUse \+= 1|\+\+ \w+ -> inUse", gt))
        flag_clr = len(re.findall(r"-> inUse = 0", gt + " " + ut)); cnt_dec = len(re.findall(r"-> inUse --|-> inUse -= 1|-- \w+ -> inUse", gt + " " + ut))
        if cnt_inc >= 1 and flag_set == 0 and flag_clr == 0 and cnt_dec >= 1: pin = "PinCounter"
        elif flag_set >= 1: pin = "PinFlag"
    out.append("Definition ticket_pin : pin_mode := %s." % pin)
    s = "\n".join(out) + "\n"
    p = os.path.join(VERIF, "coq/Gen/LockPaths.v")
    os.makedirs(os.path.dirname(p), exist_ok=True)
    if not os.path.exists(p) or open(p).read() != s:
        open(p, "w").write(s); st = "updated"
    else:
        st = "unchanged"
    SUMMARY_LOCKS.update(summaries)
    rank = {n: i for i, (n, _r) in enumerate(MUTEXES)}
    static_failures = []
    sys.setrecursionlimit(20000)
    for k in order:
        if kinds[k] == "Entry":
            for why, line in diagnose(k, trees, kinds, rank):
                if why not in [x["why"] for x in static_failures]:
                    static_failures.append({"function": ctx.funcs[k].name, "file": ctx.funcs[k].file, "why": why})
    if json_out:
        js = {"repo": REPO, "files_scanned": len(files), "functions_parsed": len(allf), "skipped": skipped, "ticket_pin": pin,
              "mutexes": [n for n, _ in MUTEXES], "shared": [{"name": n, "mutex": m, "roots": p2} for n, m, p2 in SHARED],
              "unknown_mutex": sorted(unknown_mutex), "static_failures": static_failures, "alias_exemptions": ["%s: %s = %s  (%s)" % (a, b, c, d) for (a, b, c), d in NOFLOW.items()],
              "functions": [{"id": fid[k], "name": ctx.funcs[k].name, "file": ctx.funcs[k].file, "line": ctx.funcs[k].line, "kind": kinds[k],
                             "leaves": [list(l) for l in census[k]]} for k in order],
              "summaries": summaries,
              "indirect_calls_in_lock_holders": sorted(set((ctx.funcs[k].name, c) for k in order for c in ctx.funcs[k].icalls if ctx.funcs[k].direct_locks)),
              "writers_through_params": sorted((f.name, sorted(f.derefW)) for f in allf if f.derefW and f.key in table),
              "write_witness": {f.name: {str(k): [f.file, v[0], v[1]] for k, v in f.wwhy.items()} for f in allf if f.wwhy}}
        json.dump(js, open(json_out, "w"), indent=1)
    if unknown_mutex:
        print("translator: mutex expression(s) not in the table: %s" % sorted(unknown_mutex)); sys.exit(4)
    print("LockPaths.v %s: %d files, %d functions parsed, %d in table (%s), %d summaries, leaves %s, ticket_pin=%s, skipped=%d" % (
        st, len(files), len(allf), len(order), ",".join("%s=%d" % (kd, sum(1 for k in order if kinds[k] == kd)) for kd in ("Entry", "Helper", "Setup", "Waived")),
        len(summaries), nleaf, pin, len(skipped)))


if __name__ == "__main__":
    main()
