#!/bin/bash
# Regenerate coq/Gen/*.v from the scratch build of /repo's working tree ($VERIF_BUILD):
# every tools/srcgen/consts*.c is compiled against the repo's own headers/flags and run;
# consts.c -> Gen/Consts.v, consts_big.c -> Gen/ConstsBig.v, ...   Files are rewritten only when changed.
set -e
HERE="$(cd "$(dirname "$0")" && pwd)"; VERIF="$(cd "$HERE/../.." && pwd)"
R="${VERIF_BUILD:?VERIF_BUILD not set}"
T="$(mktemp -d "$R/srcgen.XXXX")"
mkdir -p "$VERIF/coq/Gen"
for src in "$HERE"/consts*.c; do
  b="$(basename "$src" .c)"                      # consts or consts_xyz
  suf="${b#consts}"; suf="${suf#_}"
  name="Consts$(echo "${suf:0:1}" | tr a-z A-Z)${suf:1}"
  cc -w -DMATRIXSSL_VERIF -I"$R" -I"$R/matrixssl" -I"$R/core/config" -I"$R/core/include" -I"$R/core/osdep/include" \
     -I"$R/core/include/sfzcl" -I"$R/crypto" "$src" "$R/matrixssl/libssl_s.a" "$R/crypto/libcrypt_s.a" "$R/core/libcore_s.a" -lpthread -o "$T/$b"
  "$T/$b" > "$T/$name.v"
  if ! cmp -s "$T/$name.v" "$VERIF/coq/Gen/$name.v"; then cp "$T/$name.v" "$VERIF/coq/Gen/$name.v"; echo "$name.v updated"; else echo "$name.v unchanged"; fi
done
rm -rf "$T"
