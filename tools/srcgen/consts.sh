#!/bin/bash
# Regenerate coq/Gen/Consts.v from the scratch build of /repo's working tree ($VERIF_BUILD).
set -e
HERE="$(cd "$(dirname "$0")" && pwd)"; VERIF="$(cd "$HERE/../.." && pwd)"
R="${VERIF_BUILD:?VERIF_BUILD not set}"
T="$(mktemp -d "$R/srcgen.XXXX")"
cc -w -DMATRIXSSL_VERIF -I"$R" -I"$R/matrixssl" -I"$R/core/config" -I"$R/core/include" -I"$R/core/osdep/include" \
   -I"$R/core/include/sfzcl" -I"$R/crypto" "$HERE/consts.c" -o "$T/consts"
"$T/consts" > "$T/Consts.v"
mkdir -p "$VERIF/coq/Gen"
if ! cmp -s "$T/Consts.v" "$VERIF/coq/Gen/Consts.v"; then cp "$T/Consts.v" "$VERIF/coq/Gen/Consts.v"; echo "Consts.v updated"; else echo "Consts.v unchanged"; fi
rm -rf "$T"
