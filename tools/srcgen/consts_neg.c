/* Translator (C07): negotiation constants and tables, evaluated by the C compiler against /repo's headers and
   read out of the built library -> Gen/ConstsNeg.v
     - version bit identifiers and the combinations the negotiation code tests
     - psVerFromEncoding as a table (all 65536 encodings queried)
     - the "forbidden version" arrays of checkSupportedVersions exactly as the compiler sees them
     - TLS 1.3 downgrade sentinels
     - the compiled-in cipher suite table in table order (ident, type, flags), obtained by querying
       sslGetDefinedCipherSpec for every 16-bit ident and ordering by address; isTls13Ciphersuite as a list */
#include "matrixssl/matrixsslImpl.h"
#include <stdio.h>
#include <stdlib.h>
#include <stddef.h>
#define N(n) printf("Definition c_%s : N := %llu.\n", #n, (unsigned long long)(n));
#define NN(name, v) printf("Definition c_%s : N := %llu.\n", name, (unsigned long long)(v));
#define FON(n) printf("Definition f_%s : bool := true.\n", #n);
#define FOFF(n) printf("Definition f_%s : bool := false.\n", #n);
extern psBool_t isTls13Ciphersuite(uint16_t suite);

typedef struct { const sslCipherSpec_t *p; } ent_t;
static int cmp(const void *a, const void *b) { const ent_t *x = a, *y = b; return (x->p > y->p) - (x->p < y->p); }

int main(void)
{
    printf("(* GENERATED from /repo headers and libraries by tools/srcgen/consts_neg.c - do not edit *)\n");
    printf("From Coq Require Import NArith List Bool.\nImport ListNotations.\nLocal Open Scope N_scope.\n");
    N(v_undefined) N(v_ssl_3_0) N(v_tls_1_0) N(v_tls_1_1) N(v_dtls_1_0) N(v_tls_1_2) N(v_dtls_1_2)
    N(v_tls_1_3_draft_22) N(v_tls_1_3_draft_23) N(v_tls_1_3_draft_24) N(v_tls_1_3_draft_26) N(v_tls_1_3_draft_28) N(v_tls_1_3)
    N(v_tls_negotiated) N(v_tls_1_3_draft_any) N(v_tls_1_3_any) N(v_tls_any) N(v_dtls_any) N(v_tls_legacy)
    N(v_tls_sha2) N(v_tls_no_sha2) N(v_tls_with_unsupported_extension_alert) N(v_compiled_in)
    N(VER_MAX_BIT) NN("VER_RAW_MASK", VER_GET_RAW(0xffffffffu))
    printf("Definition c_all_versions : list N := [%u; %u; %u; %u; %u; %u; %u; %u; %u; %u; %u; %u].\n",
           v_ssl_3_0, v_tls_1_0, v_tls_1_1, v_dtls_1_0, v_tls_1_2, v_dtls_1_2, v_tls_1_3_draft_22, v_tls_1_3_draft_23,
           v_tls_1_3_draft_24, v_tls_1_3_draft_26, v_tls_1_3_draft_28, v_tls_1_3);
    /* psVerFromEncoding */
    printf("Definition c_ver_enc : list (N * N) := [");
    { int first = 1; for (unsigned e = 0; e < 65536; e++) { unsigned v = psVerFromEncoding((uint16_t) e); if (v) { printf("%s(%u, %u)", first ? "" : "; ", e, v); first = 0; } } }
    printf("].\n");
    /* the arrays built in checkSupportedVersions (hsNegotiateVersion.c): values as written there */
    printf("Definition c_forbidden_no13suite : list N := [%u; %u; %u; %u; %u; %u].\n", (unsigned) TLS_1_3_DRAFT_22_VER, (unsigned) TLS_1_3_DRAFT_23_VER,
           (unsigned) TLS_1_3_DRAFT_24_VER, (unsigned) TLS_1_3_DRAFT_26_VER, (unsigned) TLS_1_3_DRAFT_28_VER, (unsigned) TLS_1_3_VER);
#ifdef USE_TLS_1_3_DRAFT_SPEC
    printf("Definition c_forbidden_drafts : list N := [].\n");
#else
    printf("Definition c_forbidden_drafts : list N := [%u; %u; %u; %u; %u].\n", (unsigned) TLS_1_3_DRAFT_22_VER, (unsigned) TLS_1_3_DRAFT_23_VER,
           (unsigned) TLS_1_3_DRAFT_24_VER, (unsigned) TLS_1_3_DRAFT_26_VER, (unsigned) TLS_1_3_DRAFT_28_VER);
#endif
    /* sentinels */
    { const unsigned char *a = (const unsigned char *) TLS13_DOWNGRADE_PROT_TLS12, *b = (const unsigned char *) TLS13_DOWNGRADE_PROT_TLS11_OR_BELOW;
      printf("Definition c_sentinel_tls12 : list N := ["); for (int i = 0; i < 8; i++) printf("%s%u", i ? "; " : "", a[i]); printf("].\n");
      printf("Definition c_sentinel_tls11 : list N := ["); for (int i = 0; i < 8; i++) printf("%s%u", i ? "; " : "", b[i]); printf("].\n"); }
    /* alerts, suites, extension ids */
    N(SSL_ALERT_HANDSHAKE_FAILURE) N(SSL_ALERT_ILLEGAL_PARAMETER) N(SSL_ALERT_DECODE_ERROR) N(SSL_ALERT_PROTOCOL_VERSION)
    N(SSL_ALERT_INAPPROPRIATE_FALLBACK) N(SSL_ALERT_UNSUPPORTED_EXTENSION) N(SSL_ALERT_UNEXPECTED_MESSAGE) N(SSL_ALERT_INTERNAL_ERROR) N(SSL_ALERT_NONE)
    N(TLS_FALLBACK_SCSV) N(TLS_EMPTY_RENEGOTIATION_INFO_SCSV) N(SSL_NULL_WITH_NULL_NULL)
    N(CS_NULL) N(CS_RSA) N(CS_DHE_RSA) N(CS_DH_ANON) N(CS_DHE_PSK) N(CS_PSK) N(CS_ECDHE_ECDSA) N(CS_ECDHE_RSA) N(CS_ECDH_ECDSA) N(CS_ECDH_RSA) N(CS_TLS13)
    N(CRYPTO_FLAGS_SHA1) N(CRYPTO_FLAGS_SHA2) N(CRYPTO_FLAGS_SHA3) N(CRYPTO_FLAGS_MD5) N(CRYPTO_FLAGS_3DES) N(CRYPTO_FLAGS_GCM) N(CRYPTO_FLAGS_CHACHA)
    NN("CRYPTO_FLAGS_ARC4INIT", CRYPTO_FLAGS_ARC4INITE | CRYPTO_FLAGS_ARC4INITD)
    N(SSL_MAX_DISABLED_CIPHERS) N(TLS_MAX_SUPPORTED_VERSIONS) N(TLS_1_3_MAX_GROUPS)
#ifdef USE_MD5
    FON(USE_MD5)
#else
    FOFF(USE_MD5)
#endif
#ifdef USE_SHA1
    FON(USE_SHA1)
#else
    FOFF(USE_SHA1)
#endif
#if defined(USE_SHA256) || defined(USE_SHA384)
    FON(USE_SHA2)
#else
    FOFF(USE_SHA2)
#endif
#ifdef USE_ARC4
    FON(USE_ARC4)
#else
    FOFF(USE_ARC4)
#endif
#ifdef USE_3DES
    FON(USE_3DES)
#else
    FOFF(USE_3DES)
#endif
#ifdef USE_TLS_1_3_DRAFT_SPEC
    FON(USE_TLS_1_3_DRAFT_SPEC)
#else
    FOFF(USE_TLS_1_3_DRAFT_SPEC)
#endif
#ifdef USE_SEC_CONFIG
    FON(USE_SEC_CONFIG)
#else
    FOFF(USE_SEC_CONFIG)
#endif
#ifdef USE_CS_FALLBACK
    FON(USE_CS_FALLBACK)
#else
    FOFF(USE_CS_FALLBACK)
#endif
    /* ---- (D)TLS <= 1.2 ECDHE curves: matrixCurveIdFlag[] read through curveIdToFlag, compiled-in curves in eccCurves[] order,
       the library default curve, the groups psIsEcdheGroup recognises */
    {
        extern int32 curveIdToFlag(int32 id); extern uint32_t compiledInEcFlags(void);
        printf("Definition c_curve_flags : list (N * N) := [");
        { int first = 1; for (int id = 0; id < 65536; id++) { int32 f = curveIdToFlag(id); if (f) { printf("%s(%d, %u)", first ? "" : "; ", id, (unsigned) f); first = 0; } } }
        printf("].\n");
        N(IS_RECVD_EXT) NN("compiled_ec_flags", compiledInEcFlags())
        unsigned char ids[64]; uint8_t l = sizeof ids; psGetEccCurveIdList(ids, &l);
        printf("Definition c_ecc_curve_ids : list N := ["); for (int i = 0; i + 1 < l; i += 2) printf("%s%u", i ? "; " : "", (ids[i] << 8) | ids[i+1]); printf("].\n");
        const psEccCurve_t *cv = NULL; getEccParamById(0, &cv); NN("default_curve", cv ? cv->curveId : 0)
        printf("Definition c_ecdhe_groups : list N := ["); { int first = 1; for (unsigned id = 0; id < 65536; id++) if (psIsEcdheGroup((uint16_t) id)) { printf("%s%u", first ? "" : "; ", id); first = 0; } } printf("].\n");
        NN("namedgroup_x25519", namedgroup_x25519)
    }
    /* ---- TLS 1.2 SignatureAndHashAlgorithm handling */
    N(OID_MD2_RSA_SIG) N(OID_MD5_RSA_SIG) N(OID_SHA1_RSA_SIG) N(OID_SHA256_RSA_SIG) N(OID_SHA384_RSA_SIG) N(OID_SHA512_RSA_SIG)
    N(OID_SHA1_ECDSA_SIG) N(OID_SHA256_ECDSA_SIG) N(OID_SHA384_ECDSA_SIG) N(OID_SHA512_ECDSA_SIG) N(OID_RSA_KEY_ALG) N(OID_ECDSA_KEY_ALG)
    N(HASH_SIG_MD5_RSA_MASK) N(HASH_SIG_SHA1_RSA_MASK) N(HASH_SIG_SHA256_RSA_MASK) N(HASH_SIG_SHA384_RSA_MASK) N(HASH_SIG_SHA512_RSA_MASK)
    N(HASH_SIG_SHA1_ECDSA_MASK) N(HASH_SIG_SHA256_ECDSA_MASK) N(HASH_SIG_SHA384_ECDSA_MASK) N(HASH_SIG_SHA512_ECDSA_MASK) N(HASH_SIG_RSA)
    N(SSL_ALERT_DECRYPT_ERROR)
    {
        extern int32_t tlsSigAlgToMatrix(uint16_t alg); extern psResSize_t tlsSigAlgToHashLen(uint16_t alg); extern psBool_t tlsIsSupportedRsaSigAlg(int32_t alg);
        printf("(* tlsSigAlgToMatrix / tlsSigAlgToHashLen / tlsIsSupportedRsaSigAlg over every 16-bit SignatureScheme *)\n");
        printf("Definition c_tls_sigalg_oid : list (N * N) := ["); { int first = 1; for (unsigned a = 0; a < 65536; a++) { int32_t o = tlsSigAlgToMatrix((uint16_t) a); if (o >= 0) { printf("%s(%u, %d)", first ? "" : "; ", a, o); first = 0; } } } printf("].\n");
        printf("Definition c_tls_sigalg_hashlen : list (N * N) := ["); { int first = 1; for (unsigned a = 0; a < 65536; a++) { int h = (int) tlsSigAlgToHashLen((uint16_t) a); if (h > 0) { printf("%s(%u, %d)", first ? "" : "; ", a, h); first = 0; } } } printf("].\n");
        printf("Definition c_tls_rsa_sigalgs : list N := ["); { int first = 1; for (unsigned a = 0; a < 65536; a++) if (tlsIsSupportedRsaSigAlg((int32_t) a)) { printf("%s%u", first ? "" : "; ", a); first = 0; } } printf("].\n");
        int oids[] = { OID_MD2_RSA_SIG, OID_MD5_RSA_SIG, OID_SHA1_RSA_SIG, OID_SHA256_RSA_SIG, OID_SHA384_RSA_SIG, OID_SHA512_RSA_SIG,
                       OID_SHA1_ECDSA_SIG, OID_SHA256_ECDSA_SIG, OID_SHA384_ECDSA_SIG, OID_SHA512_ECDSA_SIG };
        printf("Definition c_oid_hashlen : list (N * N) := ["); for (int i = 0; i < 10; i++) printf("%s(%d, %d)", i ? "; " : "", oids[i], (int) psSigAlgToHashLen(oids[i])); printf("].\n");
    }
#ifdef USE_SHA512
    FON(USE_SHA512)
#else
    FOFF(USE_SHA512)
#endif
#ifdef USE_SHA384
    FON(USE_SHA384)
#else
    FOFF(USE_SHA384)
#endif
#ifdef USE_SHA256
    FON(USE_SHA256)
#else
    FOFF(USE_SHA256)
#endif
    /* cipher suite table, in table order; the terminator (ident 0) is the last entry of supportedCiphers[] */
    {
        static ent_t e[65536]; int n = 0;
        for (unsigned id = 1; id < 65536; id++) { const sslCipherSpec_t *p = sslGetDefinedCipherSpec((uint16_t) id); if (p) e[n++].p = p; }
        qsort(e, (size_t) n, sizeof e[0], cmp);
        printf("(* (ident, type, flags) *)\nDefinition c_suites : list (N * N * N) := [");
        for (int i = 0; i < n; i++) printf("%s(%u, %u, %u)", i ? "; " : "", (unsigned) e[i].p->ident, (unsigned) e[i].p->type, (unsigned) e[i].p->flags);
        printf("].\n");
        /* consecutive entries => the table has no holes we could not see (duplicates of an ident would hide one) */
        int contiguous = 1; for (int i = 1; i < n; i++) if (e[i].p != e[i-1].p + 1) contiguous = 0;
        printf("Definition c_suites_contiguous : bool := %s.\n", contiguous ? "true" : "false");
        printf("Definition c_tls13_suite_ids : list N := [");
        { int first = 1; for (unsigned id = 0; id < 65536; id++) if (isTls13Ciphersuite((uint16_t) id)) { printf("%s%u", first ? "" : "; ", id); first = 0; } }
        printf("].\n");
    }
    return 0;
}
