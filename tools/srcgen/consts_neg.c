/* Translator (C07): negotiation constants and tables, evaluated by the C compiler against /repo's headers and
   read out of the built library -> Gen/ConstsNeg.v
     - version bit identifiers and the combinations the negotiation code tests
     - psVerFromEncoding as a table (all 65536 encodings queried)
     - the "forbidden version" arrays of checkSupportedVersions exactly as the compiler sees them
     - TLS 1.3 downgrade sentinels
     - the compiled-in cipher suite table in table order (ident, type, flags), obtained by querying
       sslGetDefinedCipherSpec for every 16-bit ident and ordering by address; isTls13Ciphersuite as a list */
#include "matrixssl/matrixsslImpl.h"
#include <stdio.h>
#include <stdlib.h>
#include <stddef.h>
#define N(n) printf("Definition c_%s : N := %llu.\n", #n, (unsigned long long)(n));
#define NN(name, v) printf("Definition c_%s : N := %llu.\n", name, (unsigned long long)(v));
#define FON(n) printf("Definition f_%s : bool := true.\n", #n);
#define FOFF(n) printf("Definition f_%s : bool := false.\n", #n);
extern psBool_t isTls13Ciphersuite(uint16_t suite);

typedef struct { const sslCipherSpec_t *p; } ent_t;
static int cmp(const void *a, const void *b) { const ent_t *x = a, *y = b; return (x->p > y->p) - (x->p < y->p); }

int main(void)
{
    printf("(* GENERATED from /repo headers and libraries by tools/srcgen/consts_neg.c - do not edit *)\n");
    printf("From Coq Require Import NArith List Bool.\nImport ListNotations.\nLocal Open Scope N_scope.\n");
    N(v_undefined) N(v_ssl_3_0) N(v_tls_1_0) N(v_tls_1_1) N(v_dtls_1_0) N(v_tls_1_2) N(v_dtls_1_2)
    N(v_tls_1_3_draft_22) N(v_tls_1_3_draft_23) N(v_tls_1_3_draft_24) N(v_tls_1_3_draft_26) N(v_tls_1_3_draft_28) N(v_tls_1_3)
    N(v_tls_negotiated) N(v_tls_1_3_draft_any) N(v_tls_1_3_any) N(v_tls_any) N(v_dtls_any) N(v_tls_legacy)
    N(v_tls_sha2) N(v_tls_no_sha2) N(v_tls_with_unsupported_extension_alert) N(v_compiled_in)
    N(VER_MAX_BIT) NN("VER_RAW_MASK", VER_GET_RAW(0xffffffffu))
    printf("Definition c_all_versions : list N := [%u; %u; %u; %u; %u; %u; %u; %u; %u; %u; %u; %u].\n",
           v_ssl_3_0, v_tls_1_0, v_tls_1_1, v_dtls_1_0, v_tls_1_2, v_dtls_1_2, v_tls_1_3_draft_22, v_tls_1_3_draft_23,
           v_tls_1_3_draft_24, v_tls_1_3_draft_26, v_tls_1_3_draft_28, v_tls_1_3);
    /* psVerFromEncoding */
    printf("Definition c_ver_enc : list (N * N) := [");
    { int first = 1; for (unsigned e = 0; e < 65536; e++) { unsigned v = psVerFromEncoding((uint16_t) e); if (v) { printf("%s(%u, %u)", first ? "" : "; ", e, v); first = 0; } } }
    printf("].\n");
    /* the arrays built in checkSupportedVersions (hsNegotiateVersion.c): values as written there */
    printf("Definition c_forbidden_no13suite : list N := [%u; %u; %u; %u; %u; %u].\n", (unsigned) TLS_1_3_DRAFT_22_VER, (unsigned) TLS_1_3_DRAFT_23_VER,
           (unsigned) TLS_1_3_DRAFT_24_VER, (unsigned) TLS_1_3_DRAFT_26_VER, (unsigned) TLS_1_3_DRAFT_28_VER, (unsigned) TLS_1_3_VER);
#ifdef USE_TLS_1_3_DRAFT_SPEC
    printf("Definition c_forbidden_drafts : list N := [].\n");
#else
    printf("Definition c_forbidden_drafts : list N := [%u; %u; %u; %u; %u].\n", (unsigned) TLS_1_3_DRAFT_22_VER, (unsigned) TLS_1_3_DRAFT_23_VER,
           (unsigned) TLS_1_3_DRAFT_24_VER, (unsigned) TLS_1_3_DRAFT_26_VER, (unsigned) TLS_1_3_DRAFT_28_VER);
#endif
    /* sentinels */
    { const unsigned char *a = (const unsigned char *) TLS13_DOWNGRADE_PROT_TLS12, *b = (const unsigned char *) TLS13_DOWNGRADE_PROT_TLS11_OR_BELOW;
      printf("Definition c_sentinel_tls12 : list N := ["); for (int i = 0; i < 8; i++) printf("%s%u", i ? "; " : "", a[i]); printf("].\n");
      printf("Definition c_sentinel_tls11 : list N := ["); for (int i = 0; i < 8; i++) printf("%s%u", i ? "; " : "", b[i]); printf("].\n"); }
    /* alerts, suites, extension ids */
    N(SSL_ALERT_HANDSHAKE_FAILURE) N(SSL_ALERT_ILLEGAL_PARAMETER) N(SSL_ALERT_DECODE_ERROR) N(SSL_ALERT_PROTOCOL_VERSION)
    N(SSL_ALERT_INAPPROPRIATE_FALLBACK) N(SSL_ALERT_UNSUPPORTED_EXTENSION) N(SSL_ALERT_UNEXPECTED_MESSAGE) N(SSL_ALERT_INTERNAL_ERROR) N(SSL_ALERT_NONE)
    N(TLS_FALLBACK_SCSV) N(TLS_EMPTY_RENEGOTIATION_INFO_SCSV) N(SSL_NULL_WITH_NULL_NULL)
    N(CS_NULL) N(CS_RSA) N(CS_DHE_RSA) N(CS_DH_ANON) N(CS_DHE_PSK) N(CS_PSK) N(CS_ECDHE_ECDSA) N(CS_ECDHE_RSA) N(CS_ECDH_ECDSA) N(CS_ECDH_RSA) N(CS_TLS13)
    N(CRYPTO_FLAGS_SHA1) N(CRYPTO_FLAGS_SHA2) N(CRYPTO_FLAGS_SHA3) N(CRYPTO_FLAGS_MD5) N(CRYPTO_FLAGS_3DES) N(CRYPTO_FLAGS_GCM) N(CRYPTO_FLAGS_CHACHA)
    NN("CRYPTO_FLAGS_ARC4INIT", CRYPTO_FLAGS_ARC4INITE | CRYPTO_FLAGS_ARC4INITD)
    N(SSL_MAX_DISABLED_CIPHERS) N(TLS_MAX_SUPPORTED_VERSIONS) N(TLS_1_3_MAX_GROUPS)
#ifdef USE_MD5
    FON(USE_MD5)
#else
    FOFF(USE_MD5)
#endif
#ifdef USE_SHA1
    FON(USE_SHA1)
#else
    FOFF(USE_SHA1)
#endif
#if defined(USE_SHA256) || defined(USE_SHA384)
    FON(USE_SHA2)
#else
    FOFF(USE_SHA2)
#endif
#ifdef USE_ARC4
    FON(USE_ARC4)
#else
    FOFF(USE_ARC4)
#endif
#ifdef USE_3DES
    FON(USE_3DES)
#else
    FOFF(USE_3DES)
#endif
#ifdef USE_TLS_1_3_DRAFT_SPEC
    FON(USE_TLS_1_3_DRAFT_SPEC)
#else
    FOFF(USE_TLS_1_3_DRAFT_SPEC)
#endif
#ifdef USE_SEC_CONFIG
    FON(USE_SEC_CONFIG)
#else
    FOFF(USE_SEC_CONFIG)
#endif
#ifdef USE_CS_FALLBACK
    FON(USE_CS_FALLBACK)
#else
    FOFF(USE_CS_FALLBACK)
#endif
    /* cipher suite table, in table order; the terminator (ident 0) is the last entry of supportedCiphers[] */
    {
        static ent_t e[65536]; int n = 0;
        for (unsigned id = 1; id < 65536; id++) { const sslCipherSpec_t *p = sslGetDefinedCipherSpec((uint16_t) id); if (p) e[n++].p = p; }
        qsort(e, (size_t) n, sizeof e[0], cmp);
        printf("(* (ident, type, flags) *)\nDefinition c_suites : list (N * N * N) := [");
        for (int i = 0; i < n; i++) printf("%s(%u, %u, %u)", i ? "; " : "", (unsigned) e[i].p->ident, (unsigned) e[i].p->type, (unsigned) e[i].p->flags);
        printf("].\n");
        /* consecutive entries => the table has no holes we could not see (duplicates of an ident would hide one) */
        int contiguous = 1; for (int i = 1; i < n; i++) if (e[i].p != e[i-1].p + 1) contiguous = 0;
        printf("Definition c_suites_contiguous : bool := %s.\n", contiguous ? "true" : "false");
        printf("Definition c_tls13_suite_ids : list N := [");
        { int first = 1; for (unsigned id = 0; id < 65536; id++) if (isTls13Ciphersuite((uint16_t) id)) { printf("%s%u", first ? "" : "; ", id); first = 0; } }
        printf("].\n");
    }
    return 0;
}
