/* Translator for C10 (TLS key derivation): size constants and the cipher suite table of THIS build (sslGetCipherSpec
   over all identifiers: macSize, keySize, ivSize, blockSize, SHA-384 PRF flag), printed as coq/Gen/ConstsTls.v */
#include "matrixssl/matrixsslImpl.h"
#include <stdio.h>
#define C(n) printf("Definition t_%s : nat := %lld.\n", #n, (long long)(n));
int main(void)
{
    printf("(* GENERATED from /repo by tools/srcgen/consts_tls.c - do not edit *)\n");
    printf("From Coq Require Import NArith List.\nImport ListNotations.\n");
    C(SSL_MAX_KEY_BLOCK_SIZE) C(SSL_HS_MASTER_SIZE) C(SSL_HS_RANDOM_SIZE) C(TLS_HS_FINISHED_SIZE) C(MD5SHA1_HASHLEN)
    C(SHA256_HASH_SIZE) C(SHA384_HASH_SIZE) C(MD5_HASH_SIZE) C(SHA1_HASH_SIZE) C(TLS_GCM_AAD_LEN) C(TLS_GCM_TAG_LEN)
    C(TLS_EXPLICIT_NONCE_LEN) C(TLS_AEAD_SEQNB_LEN) C(TLS_CHACHA20_POLY1305_IETF_AAD_LEN) C(CHACHA20POLY1305_IETF_IV_FIXED_LENGTH)
    C(SSL_RECORD_TYPE_APPLICATION_DATA)
    printf("Definition t_SSL_MAX_PLAINTEXT_LEN : N := %d%%N.\n", (int) SSL_MAX_PLAINTEXT_LEN);
    if (matrixSslOpen() < 0) return 2;
    {
        static ssl_t s; int first = 1;
        /* (ident, (macSize, keySize, ivSize, blockSize, sha384 flag, aead: 0 none 1 gcm 2 chacha)) */
        printf("Definition t_cipher_table : list (N * (nat * nat * nat * nat * bool * nat)) := [");
        for (unsigned id = 1; id < 0x10000; id++) {
            const sslCipherSpec_t *c = sslGetDefinedCipherSpec((uint16_t) id);
            if (!c) continue;
            printf("%s\n  (%u%%N, (%d, %d, %d, %d, %s, %d))", first ? "" : ";", id, (int) c->macSize, (int) c->keySize, (int) c->ivSize, (int) c->blockSize,
                   (c->flags & CRYPTO_FLAGS_SHA3) ? "true" : "false", (c->flags & CRYPTO_FLAGS_GCM) ? 1 : (c->flags & CRYPTO_FLAGS_CHACHA) ? 2 : 0);
            first = 0;
        }
        printf("].\n");
    }
    return 0;
}
