/* Translator (C16): DTLS constants evaluated by the C compiler against /repo's headers -> Gen/ConstsDtls.v */
#include "matrixssl/matrixsslImpl.h"
#include <stdio.h>
#include <stddef.h>
#define CZ(n) printf("Definition c_%s : Z := (%lld)%%Z.\n", #n, (long long)(n));
#define CN(name, v) printf("Definition c_%s : N := (%llu)%%N.\n", name, (unsigned long long)(v));
int main(void)
{
    printf("(* GENERATED from /repo headers by tools/srcgen/consts_dtls.c - do not edit *)\n");
    printf("From Coq Require Import ZArith NArith.\n");
    CZ(DTLS_RETRANSMIT)
    CZ(DTLS_MUST_FRAG)
    CZ(MAX_FRAGMENTS)
    CZ(DTLS_COOKIE_SIZE)
    /* width of the replay bitmap (ssl_t.dtlsBitmap is an `unsigned long`) and of the counters */
    CN("dtls_bitmap_bits", 8 * sizeof(((ssl_t *) 0)->dtlsBitmap))
    CN("dtls_rsn_bytes", sizeof(((ssl_t *) 0)->lastRsn))
    CN("dtls_epoch_bytes", sizeof(((ssl_t *) 0)->expectedEpoch))
    return 0;
}
