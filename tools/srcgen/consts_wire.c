/* Translator (C08): framing constants and the record-version table evaluated by the C compiler / the
   library itself against /repo's headers -> Gen/ConstsWire.v */
#include "matrixssl/matrixsslImpl.h"
#include <stdio.h>
#include <stddef.h>
#define CZ(n) printf("Definition c_%s : Z := (%lld)%%Z.\n", #n, (long long)(n));
#define CZV(name, v) printf("Definition c_%s : Z := (%lld)%%Z.\n", name, (long long)(v));
int main(void)
{
    printf("(* GENERATED from /repo headers by tools/srcgen/consts_wire.c - do not edit *)\n");
    printf("From Coq Require Import ZArith List.\nImport ListNotations.\n");
    CZ(SSL3_HEADER_LEN) CZ(DTLS_HEADER_LEN) CZ(SSL3_HANDSHAKE_HEADER_LEN) CZ(DTLS_HEADER_ADD_LEN)
    CZ(TLS_REC_HDR_LEN) CZ(TLS_HS_HDR_LEN) CZ(TLS_GCM_TAG_LEN)
    CZ(TLS_1_3_MAX_CIPHERTEXT_LEN) CZ(TLS_1_3_MAX_PLAINTEXT_FRAGMENT_LEN)
    CZ(v_dtls_any) CZ(v_tls_1_3_any) CZ(v_tls_negotiated) CZ(v_tls_explicit_iv)
    CZ(PS_OUTPUT_LENGTH)
    CZV("sizeof_size_t", sizeof(size_t))
    CZ(PS_TIMEOUT_FAIL) CZ(PS_INTERRUPT_FAIL) CZ(PS_DISABLED_FEATURE_FAIL)
#ifdef SSL_DEFAULT_IN_HS_SIZE_CLIENT_HELLO
    CZV("hsLenMax_client_hello", SSL_DEFAULT_IN_HS_SIZE_CLIENT_HELLO)
#else
    CZV("hsLenMax_client_hello", 1024)
#endif
#ifdef SSL_DEFAULT_IN_HS_SIZE
    CZV("hsLenMax", SSL_DEFAULT_IN_HS_SIZE)
#else
    CZV("hsLenMax", 65536)
#endif
    /* sizes of the counters the arithmetic runs in */
    CZV("sizeof_psSize_t", sizeof(psSize_t))
    CZV("sizeof_rec_len", sizeof(((ssl_t *) 0)->rec.len))
    CZV("sizeof_inlen", sizeof(((ssl_t *) 0)->inlen))
    /* psVerFromEncoding over all 65536 encodings: (encoding, version bit) for the recognised ones */
    printf("Definition c_ver_table : list (Z * Z) := [");
    int first = 1;
    for (unsigned e = 0; e < 65536; e++) {
        psProtocolVersion_t v = psVerFromEncoding((uint16_t) e);
        if (v != v_undefined) { printf("%s(%u, %llu)%%Z", first ? "" : "; ", e, (unsigned long long) v); first = 0; }
    }
    printf("].\n");
    return 0;
}
