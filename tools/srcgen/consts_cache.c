/* Translator for C14 (session cache / session tickets): constants of the repo's headers and the
   values of a few exported functions, printed as coq/Gen/ConstsCache.v */
#include "matrixssl/matrixsslImpl.h"
#include "testkeys/RSA/2048_RSA.h"
#include "testkeys/RSA/2048_RSA_KEY.h"
#include <stdio.h>
#include <stddef.h>
#define C(n) printf("Definition k_%s : Z := (%lld)%%Z.\n", #n, (long long)(n));
int main(void)
{
    printf("(* GENERATED from /repo by tools/srcgen/consts_cache.c - do not edit *)\n");
    printf("From Coq Require Import ZArith List.\nImport ListNotations.\n");
    C(SSL_HS_MASTER_SIZE) C(SSL_HS_RANDOM_SIZE) C(SSL_MAX_SESSION_ID_SIZE) C(SSL_SESSION_TABLE_SIZE) C(SSL_SESSION_ENTRY_LIFE)
    C(SSL_SESSION_TICKET_LIST_LEN) C(AES_BLOCKLEN) C(AES_IVLEN) C(SHA256_HASHLEN)
    C(SESS_TICKET_STATE_INIT) C(SESS_TICKET_STATE_RECVD_EXT) C(SESS_TICKET_STATE_USING_TICKET)
    C(PS_SUCCESS) C(PS_FAILURE) C(PS_ARG_FAIL) C(PS_LIMIT_FAIL) C(PS_MEM_FAIL)
    C(MATRIXSSL_ERROR) C(SSL_ALERT_HANDSHAKE_FAILURE) C(SSL_ALERT_NONE) C(TLS_1_3_TICKET_LIFETIME)
    if (matrixSslOpen() < 0) return 2;
    printf("Definition k_matrixSessionTicketLen : Z := (%d)%%Z.\n", (int) matrixSessionTicketLen());
    printf("Definition k_psPadLenPwr2_57_16 : Z := (%d)%%Z.\n", (int) psPadLenPwr2(SSL_HS_MASTER_SIZE + 2 + 2 + 4 + 1, 16));
    /* wire encoding of the protocol versions the harness uses (token 31..34) */
    {
        psProtocolVersion_t v[4] = { v_tls_1_0, v_tls_1_1, v_tls_1_2, v_tls_1_3 };
        printf("Definition k_versions : list (Z * (Z * Z)) := [");
        for (int i = 0; i < 4; i++) printf("%s(%d, (%d, %d))%%Z", i ? "; " : "", 31 + i, (int) psEncodeVersionMaj(v[i] | v_tls_negotiated), (int) psEncodeVersionMin(v[i] | v_tls_negotiated));
        printf("].\n");
    }
    /* suites sslGetCipherSpec returns for a TLS 1.2 server holding an RSA identity (what h_cache fabricates) */
    {
        static ssl_t s; sslKeys_t *k = NULL; int first = 1;
        matrixSslNewKeys(&k, NULL);
        if (matrixSslLoadRsaKeysMem(k, RSA2048, sizeof(RSA2048), RSA2048KEY, sizeof(RSA2048KEY), NULL, 0) < 0) return 3;
        s.flags = SSL_FLAGS_SERVER; s.keys = k; SET_NGTD_VER(&s, v_tls_1_2);
        printf("Definition k_suites_rsa_tls12 : list Z := [");
        for (unsigned id = 1; id < 0x10000; id++) if (sslGetCipherSpec(&s, (uint16_t) id)) { printf("%s%u", first ? "" : "; ", id); first = 0; }
        printf("]%%Z.\n");
    }
    return 0;
}
