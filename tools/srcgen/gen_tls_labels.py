#!/usr/bin/env python3
"""Translator (C10): the label / context strings the TLS key derivation code passes at each DERIVATION SITE
-> coq/Gen/TlsLabels.v (+ TlsLabels.json for the run-time tie).

A site is a call (psHkdfExpandLabel, tls13DeriveSecret, tls13Sign/tls13Verify, the Memcpy of a PRF label) classified
by what it derives (destination / enclosing function), never by the label it uses.  For every site the argument
expressions (label, length) are RESOLVED: string literals, `#define X "..."`, `[static] [const] char *x = "..."`,
`char x[] = "..."`, conditional expressions, locals assigned in branches; lengths: integer literals, #defines, initialised
integer variables, sizeof(x) (array: with the terminating NUL, pointer: 8), strlen-style calls, + - *.  The table carries
the EXACT bytes handed over: the first `length` bytes of the string, including the NUL when the length covers it.
A harmless refactor (same bytes through a named constant) therefore generates the same table; a changed label or a
length that includes the terminator generates a different one, the `model = spec` lemmas break and the live tie finds the
session on which the derived value differs.  Sites that cannot be resolved statically fall back to a RUN-TIME capture
(argv[1]: JSON {site: [hex, ..]} recorded by harness/h_tlskeys.c on a few live sessions before the Coq build).
The code-shaped models (coq/Tls/TlsModel.v) use THESE, the RFC transcription (coq/Tls/TlsSpec.v) has its own literals."""
import json, os, re, sys
REPO = os.environ.get("VERIF_REPO", "/repo")
VERIF = os.path.dirname(os.path.dirname(os.path.dirname(os.path.abspath(__file__))))
CAPTURE = {}
if len(sys.argv) > 1 and os.path.exists(sys.argv[1]):
    try: CAPTURE = json.load(open(sys.argv[1]))
    except Exception: CAPTURE = {}

SITES = ["master", "ext_master", "key_block", "client_finished", "server_finished",
         "derived", "res_binder", "ext_binder", "c_e_traffic", "c_hs_traffic", "s_hs_traffic", "c_ap_traffic", "s_ap_traffic",
         "res_master", "finished", "key", "iv", "resumption", "cv_server", "cv_client"]
found = {s: [] for s in SITES}          # site -> list of (bytes | None, provenance)
notes = []

def read(f):
    txt = open(os.path.join(REPO, f), errors="replace").read()
    txt = re.sub(r"/\*.*?\*/", lambda m: re.sub(r"[^\n]", " ", m.group(0)), txt, flags=re.S)     # comments -> blanks (keeps offsets/lines)
    return re.sub(r"//[^\n]*", "", txt)

STR = r'"((?:[^"\\]|\\.)*)"'
def unescape(s): return bytes(s, "latin1").decode("unicode_escape").encode("latin1")

class Unit:
    def __init__(self, f):
        self.f, self.txt = f, read(f)
        t = self.txt
        self.strs = {}          # name -> (bytes, kind, declared array size | None)
        for m in re.finditer(r'^[ \t]*#[ \t]*define[ \t]+(\w+)[ \t]+((?:%s[ \t]*)+)$' % STR, t, re.M):
            self.strs[m.group(1)] = (b"".join(unescape(x) for x in re.findall(STR, m.group(2))), "define", None)
        for m in re.finditer(r'\bchar\s*\*\s*(?:const\s+)?(\w+)\s*=\s*((?:%s\s*)+);' % STR, t):
            self.strs[m.group(1)] = (b"".join(unescape(x) for x in re.findall(STR, m.group(2))), "ptr", None)
        for m in re.finditer(r'\bchar\s+(\w+)\s*\[\s*(\d*)\s*\]\s*=\s*((?:%s\s*)+);' % STR, t):
            self.strs[m.group(1)] = (b"".join(unescape(x) for x in re.findall(STR, m.group(3))), "array", int(m.group(2)) if m.group(2) else None)
        self.ints = {}          # name -> expression text
        for m in re.finditer(r'^[ \t]*#[ \t]*define[ \t]+(\w+)[ \t]+([^"\n]+?)[ \t]*$', t, re.M):
            self.ints.setdefault(m.group(1), m.group(2))
        for m in re.finditer(r'\b(?:psSize_t|psSizeL_t|size_t|int|unsigned|uint\d+_t|int\d+_t|uint\d+|int\d+)\s+(\w+)\s*=\s*([^;{]+);', t):
            self.ints.setdefault(m.group(1), m.group(2))
        # function bodies: (name, parameter names, start, end)
        self.funcs = []
        for m in re.finditer(r'^[A-Za-z_][^;{}()#]*?\b(\w+)\s*\(([^{};]*?)\)\s*\{', t, re.M | re.S):
            depth, i = 1, m.end()
            while i < len(t) and depth:
                depth += (t[i] == "{") - (t[i] == "}"); i += 1
            params = [re.findall(r"\w+", p)[-1] for p in m.group(2).split(",") if re.findall(r"\w+", p)]
            self.funcs.append((m.group(1), params, m.start(), i))
    def func_at(self, pos):
        for f in self.funcs:
            if f[2] <= pos < f[3]: return f
        return None
    def calls(self, fname):
        """(position, [argument texts]) of every call of fname (definitions / prototypes skipped)"""
        out = []
        for m in re.finditer(r'\b%s\s*\(' % fname, self.txt):
            i = m.end(); depth = 1; args = [""]; instr = False
            while i < len(self.txt) and depth:
                c = self.txt[i]
                if instr:
                    args[-1] += c
                    if c == "\\": args[-1] += self.txt[i + 1]; i += 1
                    elif c == '"': instr = False
                elif c == '"': instr = True; args[-1] += c
                elif c in "([": depth += 1; args[-1] += c
                elif c in ")]":
                    depth -= 1
                    if depth: args[-1] += c
                elif c == "," and depth == 1: args.append("")
                else: args[-1] += c
                i += 1
            args = [" ".join(a.split()) for a in args]
            if any(re.match(r"^(const\s+)?\w+\s*\*?\s*\w+$", a) and not re.match(r"^\w+$", a) for a in args[:2]): continue   # a declaration
            out.append((m.start(), args))
        return out

    # ---- expression resolution
    def split_ternary(self, e):
        """c ? a : b at top level -> (c, a, b) else None"""
        depth = 0; q = None
        for i, ch in enumerate(e):
            if ch in "([": depth += 1
            elif ch in ")]": depth -= 1
            elif ch == "?" and depth == 0 and q is None: q = i
            elif ch == ":" and depth == 0 and q is not None: return e[:q].strip(), e[q + 1:i].strip(), e[i + 1:].strip()
        return None
    def strip(self, e):
        e = e.strip()
        while True:
            m = re.match(r"^\(\s*(?:const\s+)?(?:unsigned\s+)?(?:char|psSize_t|psSizeL_t|size_t|int|uint\d+_t|int\d+_t|uint32|int32)\s*\*?\s*\)\s*(.*)$", e)    # casts
            if m: e = m.group(1).strip(); continue
            if e.startswith("(") and e.endswith(")"):
                depth = 0; ok = True
                for i, ch in enumerate(e):
                    depth += (ch == "(") - (ch == ")")
                    if depth == 0 and i < len(e) - 1: ok = False; break
                if ok: e = e[1:-1].strip(); continue
            return e
    def local_assignments(self, name, pos):
        f = self.func_at(pos)
        if not f: return []
        body = self.txt[f[2]:f[3]]
        return [m.group(1).strip() for m in re.finditer(r'(?<![\w.>])%s\s*=\s*([^;=][^;]*);' % re.escape(name), body)]
    def str_candidates(self, e, pos):
        """list of (bytes, kind, declared size) the expression may denote; None entries = unresolved"""
        e = self.strip(e)
        t = self.split_ternary(e)
        if t: return self.str_candidates(t[1], pos) + self.str_candidates(t[2], pos)
        if re.match(r'^(%s\s*)+$' % STR, e): return [(b"".join(unescape(x) for x in re.findall(STR, e)), "literal", None)]
        if re.match(r"^\w+$", e):
            f = self.func_at(pos)
            if f and e in f[1]: return [("param", e, None)]
            la = self.local_assignments(e, pos)
            if e in self.strs and not la: return [self.strs[e]]
            if la:
                out = []
                for a in la: out += self.str_candidates(a, pos)
                return out
        return [None]
    def int_value(self, e, pos, strv=None, seen=()):
        """integer value of a length expression (strv: the string it is paired with, for sizeof/strlen of the same object)"""
        e = self.strip(e)
        def sz(m):
            x = self.strip(m.group(1))
            c = self.str_candidates(x, pos)
            if len(c) != 1 or c[0] is None or c[0][0] == "param": raise ValueError("sizeof(%s)" % x)
            b, kind, decl = c[0]
            if kind == "ptr": return "8"
            return str(decl if decl is not None else len(b) + 1)
        def sl(m):
            c = self.str_candidates(m.group(1), pos)
            if len(c) != 1 or c[0] is None or c[0][0] == "param": raise ValueError("strlen(%s)" % m.group(1))
            return str(len(c[0][0].split(b"\0")[0]))
        e2 = re.sub(r'\bsizeof\s*\(((?:[^()]|\([^()]*\))*)\)', sz, e)
        e2 = re.sub(r'\b(?:[Ss]trlen|psStrlen|Strnlen)\s*\(\s*((?:[^(),]|\([^()]*\))*)(?:,[^()]*)?\)', sl, e2)
        e2 = re.sub(r'\(\s*(?:psSize_t|psSizeL_t|size_t|int|uint\d+_t|int\d+_t|unsigned)\s*\)', '', e2)
        def ident(m):
            n = m.group(0)
            if n in seen: raise ValueError("cyclic " + n)
            la = self.local_assignments(n, pos)
            src = la[0] if len(la) == 1 else self.ints.get(n) if not la else None
            if src is None: raise ValueError("unresolved " + n)
            return "(%d)" % self.int_value(src, pos, strv, seen + (n,))
        e3 = re.sub(r'\b[A-Za-z_]\w*\b', ident, e2)
        e3 = re.sub(r'\b(\d+)[uUlL]+\b', r'\1', e3)
        if not re.match(r'^[\d\s+\-*()]+$', e3): raise ValueError("not constant: " + e)
        return int(eval(e3))

def effective(b, n):
    """the n bytes read from a NUL-terminated string literal b"""
    if n <= len(b): return b[:n]
    if n == len(b) + 1: return b + b"\0"
    return None

def resolve(u, site_of, lab_e, len_e, pos, where):
    """resolve one call site; site_of(i, n_candidates, cond) -> site id"""
    labs = u.str_candidates(lab_e, pos)
    if any(c is not None and c[0] == "param" for c in labs): return      # the label is passed through from the caller
    t = u.split_ternary(u.strip(len_e))
    len_es = [t[1], t[2]] if t and len(labs) == 2 else None
    if len_es is None:
        la = u.local_assignments(u.strip(len_e), pos) if re.match(r"^\w+$", u.strip(len_e)) else []
        len_es = la if len(la) == len(labs) and len(la) > 1 else [len_e] * len(labs)
    tl = u.split_ternary(u.strip(lab_e))
    for i, (c, le) in enumerate(zip(labs, len_es)):
        site = site_of(i, len(labs), tl[0] if tl else "")
        if site is None: continue
        if c is None:
            found[site].append((None, "%s: label expression `%s` not resolved" % (where, lab_e))); continue
        try: n = u.int_value(le, pos, c)
        except Exception as ex:
            found[site].append((None, "%s: length expression `%s` not resolved (%s)" % (where, le, ex))); continue
        eff = effective(c[0], n)
        if eff is None: found[site].append((None, "%s: length %d reads past the terminator of \"%s\"" % (where, n, c[0].decode("latin1"))))
        else: found[site].append((eff, "%s: %s, %s" % (where, lab_e if len(labs) == 1 else "%s [%d]" % (lab_e, i), le)))

def line_of(u, pos): return u.txt.count("\n", 0, pos) + 1

# ---------------------------------------------------------------- TLS 1.0-1.2: Memcpy(seed, LABEL, SIZE) in tls.c / hsHash.c
u = Unit("matrixssl/tls.c")
F12 = {"genKeyBlock": "key_block", "tlsDeriveKeys": "master", "tlsExtendedDeriveKeys": "ext_master"}
for pos, a in u.calls("Memcpy") + u.calls("memcpy"):
    f = u.func_at(pos)
    if not f or f[0] not in F12 or len(a) != 3: continue
    if not re.match(r"^\w+$", a[0]) or "Random" in a[1] or a[1].strip() == "hash": continue           # only the copy to the start of the seed buffer
    resolve(u, lambda i, n, c, s=F12[f[0]]: s, a[1], a[2], pos, "tls.c:%d %s" % (line_of(u, pos), f[0]))
u = Unit("matrixssl/hsHash.c")
for pos, a in u.calls("Memcpy") + u.calls("memcpy"):
    f = u.func_at(pos)
    if not f or f[0] != "tlsGenerateFinishedHash" or len(a) != 3 or not re.match(r"^\w+$", a[0]): continue
    # (senderFlag & SSL_FLAGS_SERVER) ? <server> : <client>
    resolve(u, lambda i, n, c: (["server_finished", "client_finished"][i] if n == 2 and "SERVER" in c else None), a[1], a[2], pos,
            "hsHash.c:%d tlsGenerateFinishedHash" % line_of(u, pos))

# ---------------------------------------------------------------- TLS 1.3: by destination
def site13(out, fname):
    o = out.replace(" ", "")
    for pat, s in (("tls13HsTrafficSecretClient", "c_hs_traffic"), ("tls13HsTrafficSecretServer", "s_hs_traffic"), ("tls13AppTrafficSecretClient", "c_ap_traffic"),
                   ("tls13AppTrafficSecretServer", "s_ap_traffic"), ("tls13ResumptionMasterSecret", "res_master"), ("tls13EarlyTrafficSecretClient", "c_e_traffic"),
                   ("tls13ExtBinderSecret", "binder"), ("derivedSecret", "derived")):
        if o.endswith(pat): return s
    if re.search(r"Key(Out)?$", o) and ("Finished" in o or "inder" in o): return "finished"
    if re.search(r"(Read|Write|Data)Key$", o): return "key"
    if re.search(r"(Read|Write|Data)Iv$", o): return "iv"
    if fname == "tls13DeriveResumptionPsk": return "resumption"
    return None
for fn in ("matrixssl/tls13KeySchedule.c", "matrixssl/tls13Resume.c"):
    u = Unit(fn); base = os.path.basename(fn)
    for callee, li, oi in (("tls13DeriveSecret", 4, 8), ("psHkdfExpandLabel", 4, 9)):
        for pos, a in u.calls(callee):
            if len(a) <= oi: continue
            f = u.func_at(pos); s = site13(a[oi], f[0] if f else "")
            where = "%s:%d %s -> %s" % (base, line_of(u, pos), f[0] if f else "?", a[oi])
            if s == "binder":        # if (psk->isResumptionPsk) label = <res> else label = <ext>
                resolve(u, lambda i, n, c: (["res_binder", "ext_binder"][i] if n == 2 else None), a[li], a[li + 1], pos, where)
            elif s: resolve(u, lambda i, n, c, s=s: s if n == 1 else None, a[li], a[li + 1], pos, where)
            elif not (f and a[li] in f[1]): notes.append("unclassified site " + where)
# CertificateVerify context strings: the signer uses its own role, the verifier the peer's
for fn, first in (("matrixssl/tls13Encode.c", ["cv_server", "cv_client"]), ("matrixssl/tls13Decode.c", ["cv_client", "cv_server"])):
    u = Unit(fn); base = os.path.basename(fn)
    for callee, li in (("tls13Sign", 5), ("tls13Verify", 7)):
        for pos, a in u.calls(callee):
            if len(a) <= li + 1: continue
            resolve(u, lambda i, n, c, first=first: (first[i] if n == 2 and "IS_SERVER" in c else None), a[li], a[li + 1], pos,
                    "%s:%d %s" % (base, line_of(u, pos), callee))

# ---------------------------------------------------------------- lengths of the all-zero inputs of the TLS 1.3 schedule
# RFC 8446 7.1: a missing PSK / (EC)DHE input and the Master Secret's IKM are Hash.length zero bytes, the Early Secret's
# salt likewise.  The code passes (pointer to zeros, length): the LENGTH expression of each such psHkdfExtract argument is
# resolved symbolically in the hash length h (variables fed by psGetOutputBlockLength / tls13GetCipherHashSize /
# tls13GetPskHashLen -> h; sizeof(local array) and literals -> numbers) and emitted as  zlen_<site> (h : nat) : nat.
HASHLEN_CALLS = ("psGetOutputBlockLength", "tls13GetCipherHashSize", "tls13GetPskHashLen")
_hdr_cache = {}
def global_define(name, seen=()):
    if name in seen: return None
    if not _hdr_cache:
        for d in ("matrixssl", "crypto", "crypto/digest", "core/include"):
            dd = os.path.join(REPO, d)
            if not os.path.isdir(dd): continue
            for f in os.listdir(dd):
                if f.endswith(".h"):
                    try: t = open(os.path.join(dd, f), errors="replace").read()
                    except Exception: continue
                    for m in re.finditer(r'^[ \t]*#[ \t]*define[ \t]+(\w+)[ \t]+\(?\s*([\w\s+\-*()]+?)\s*\)?[ \t]*(?:/\*.*)?$', t, re.M):
                        _hdr_cache.setdefault(m.group(1), m.group(2))
    e = _hdr_cache.get(name)
    if e is None: return None
    def ident(m):
        v = global_define(m.group(0), seen + (name,))
        if v is None: raise ValueError(m.group(0))
        return str(v)
    try:
        e2 = re.sub(r'\b[A-Za-z_]\w*\b', ident, e)
        return int(eval(e2)) if re.match(r'^[\d\s+\-*()]+$', e2) else None
    except Exception:
        return None

def sym_len(u, e, pos, seen=()):
    """'h' | int | None for a length expression inside the function at pos"""
    e = u.strip(e)
    if re.match(r"^\d+[uUlL]*$", e): return int(re.sub(r"[uUlL]", "", e))
    m = re.match(r"^sizeof\s*\(\s*(\w+)\s*\)$", e)
    f = u.func_at(pos); body = u.txt[f[2]:f[3]] if f else ""
    if m:
        d = re.search(r'\bunsigned\s+char\s+%s\s*\[\s*([^\]]+)\]' % re.escape(m.group(1)), body) or re.search(r'\bchar\s+%s\s*\[\s*([^\]]+)\]' % re.escape(m.group(1)), body)
        if not d: return None
        x = d.group(1).strip()
        if re.match(r"^\d+$", x): return int(x)
        try: return u.int_value(x, pos)
        except Exception: return global_define(x)
    if any(re.match(r"^%s\s*\(" % c, e) for c in HASHLEN_CALLS): return "h"
    if re.match(r"^\w+$", e) and e not in seen and f:
        # assignments / initialisers of the variable that precede the use: all agree, else the nearest one decides
        srcs = [(f[2] + m.start(), m.group(1)) for m in re.finditer(r'(?<![\w.>])%s\s*=\s*([^;=][^;]*);' % re.escape(e), body) if f[2] + m.start() < pos]
        if not srcs: return None
        vals = [sym_len(u, a, p_, seen + (e,)) for p_, a in srcs]
        return vals[0] if len(set(vals)) == 1 else vals[-1]
    return None

zsites = {}          # site -> (value 'h' | int | None, provenance)
u = Unit("matrixssl/tls13KeySchedule.c")
for pos, a in u.calls("psHkdfExtract"):
    f = u.func_at(pos)
    if not f or len(a) < 7: continue
    where = "tls13KeySchedule.c:%d %s" % (line_of(u, pos), f[0])
    body = u.txt[f[2]:f[3]]
    if f[0] == "tls13GenerateEarlySecret":
        zsites["early_salt"] = (sym_len(u, a[2], pos), "%s: psHkdfExtract(.., %s, %s, ..)" % (where, a[1], a[2]))
        m = re.search(r'pskVal\s*=\s*dummyPsk\s*;(.*?)\}', body, re.S)
        mm = re.search(r'pskValLen\s*=\s*([^;]+);', m.group(1)) if m else None
        zsites["dummy_psk"] = (sym_len(u, mm.group(1), pos) if mm else None, "%s: pskVal = dummyPsk; pskValLen = %s" % (where, mm.group(1).strip() if mm else "?"))
    elif f[0] == "tls13DeriveHandshakeTrafficSecrets":
        m = re.search(r'psk_keyex_mode_psk_ke\s*\)\s*\{(.*?)\n    \}', body, re.S)
        mm = re.search(r'sharedSecretLen\s*=\s*([^;]+);', m.group(1)) if m else None
        zsites["pskke_ikm"] = (sym_len(u, mm.group(1), pos) if mm else None, "%s: psk_ke: sharedSecretLen = %s" % (where, mm.group(1).strip() if mm else "?"))
    elif f[0] == "tls13DeriveAppTrafficSecrets":
        zsites["master_ikm"] = (sym_len(u, a[4], pos), "%s: psHkdfExtract(.., %s, %s, ..)" % (where, a[3], a[4]))

# ---------------------------------------------------------------- output
def blist(b): return "[" + "; ".join(str(x) for x in b) + "]%N"
out = ["(* GENERATED by tools/srcgen/gen_tls_labels.py: (bytes, length) the TLS key derivation code passes at each derivation site - do not edit *)",
       "From Coq Require Import NArith List.", "Import ListNotations.",
       "(* every definition lists the DISTINCT byte strings passed at the sites of that role: a well-formed tree has exactly one *)"]
table = {}
for s in SITES:
    vals = []; prov = []
    for b, w in found[s]:
        prov.append(w)
        if b is not None and b not in vals: vals.append(b)
    unresolved = [w for b, w in found[s] if b is None]
    if (unresolved or not found[s]) and s in CAPTURE:
        for hx in CAPTURE[s]:
            b = bytes.fromhex(hx)
            if b not in vals: vals.append(b)
        prov.append("completed from the run-time capture (%s)" % (unresolved[0] if unresolved else "no site found statically"))
    elif unresolved or not found[s]:
        prov.append("NOT RESOLVED and not exercised by the run-time capture")
    table[s] = [v.hex() for v in vals]
    out.append("Definition lbl_%s : list (list N) := [%s].   (* %s *)" % (s, "; ".join(blist(v) for v in vals),
               " | ".join(repr(v.decode("latin1"))[1:-1] for v in vals).replace("*)", "* )")))
    for w in prov: out.append("  (* %s *)" % w.replace("*)", "* )").replace("(*", "( *"))
txt = read("crypto/digest/hkdf.c")
m = re.search(r'psDynBufAppendStr\(&labelBuf,\s*"([^"]*)"\)', txt)
out.append("Definition s_hkdf_prefix : list N := %s.   (* \"%s\" *)" % (blist(m.group(1).encode()), m.group(1)) if m else "Definition s_hkdf_prefix : list N := [].   (* not found *)")
table["hkdf_prefix"] = [m.group(1).encode().hex()] if m else []
# the hard-coded digests of the empty string used by tls13DeriveSecret for an empty context
txt = read("matrixssl/tls13KeySchedule.c")
for nm in ("sha256OfEmptyInput", "sha384OfEmptyInput"):
    m = re.search(r"%s\s*\[\s*\d*\s*\]\s*=\s*\{([^}]*)\}" % nm, txt)
    out.append("Definition s_%s : list N := [%s]%%N." % (nm, "; ".join(str(int(x, 16)) for x in re.findall(r"0x[0-9a-fA-F]+", m.group(1))) if m else ""))
for zs in ("early_salt", "dummy_psk", "pskke_ikm", "master_ikm"):
    v, w = zsites.get(zs, (None, "site not found"))
    cap = CAPTURE.get("zlen_" + zs)
    if v is None and cap:           # {"32": [lengths seen with a 32-byte hash], "48": [..]}
        body = " ".join("if Nat.eqb h %s then %d else" % (k, sorted(x)[0]) for k, x in sorted(cap.items()) if x) + " h"
        out.append("Definition zlen_%s (h : nat) : nat := %s.   (* %s; completed from the run-time capture *)" % (zs, body, w.replace("*)", "* )")))
        table["zlen_" + zs] = {k: sorted(x)[0] for k, x in cap.items() if x}
    else:
        out.append("Definition zlen_%s (h : nat) : nat := %s.   (* %s%s *)" % (zs, "h" if v in ("h", None) else str(v), w.replace("*)", "* )"),
                                                                         "" if v is not None else "; NOT RESOLVED and not exercised by the run-time capture"))
        table["zlen_" + zs] = "h" if v in ("h", None) else v
for n in notes: out.append("(* %s *)" % n.replace("*)", "* )"))
s = "\n".join(out) + "\n"
p = os.path.join(VERIF, "coq/Gen/TlsLabels.v")
json.dump(table, open(os.path.join(VERIF, "coq/Gen/TlsLabels.json"), "w"), indent=1, sort_keys=True)
if not os.path.exists(p) or open(p).read() != s:
    open(p, "w").write(s); print("TlsLabels.v updated")
else:
    print("TlsLabels.v unchanged")
