#!/usr/bin/env python3
"""Translator (trusted base of C19): allocation sites of the library -> coq/Gen/AllocSites.v

Lexical / brace-level scan of every .c file under core/src, core/osdep/POSIX, crypto/, matrixssl/
(test/ and apps/ skipped).  For every call of an allocator one Coq record is emitted.  Allocators are the macro
family of core/include/psmalloc.h and what it expands to, PLUS - found mechanically, to a fixpoint - every library
function with a pointer return type whose return value is such a result (`return psMalloc(..)`, `return p;` for an
alias p of a result, tested inside or not: it returns NULL when the allocation fails): psStrdupN, psBufInit,
psDynBufInit, psDynBufDetach(PsSize), psBufDetach, tls13NewPsk, matrixSslMakeIdentity, eccNewPoint, ...  (`--wrappers`
prints the list).  Calls of those are sites of the table with alloc = the wrapper's name and key
"<file>:<function>@<wrapper>#<ordinal>".  Per site:

    file, function, ordinal of the site inside the function (key = "<file>:<function>#<ordinal>" is
    independent of line numbers), line (for people and for the fault injector's addr2line match),
    allocator, assigned lvalue, classification of what the code does between the allocation and the
    first use of the result along the text the scanner can follow.

Classes
    GuardedBeforeUse how   a NULL test of the result (or of an alias) precedes every use
                            how = GInline  `if ((p = psMalloc(..)) == NULL)`
                                  GTest    `if (!p)`, `if (p == NULL)`, `p ? :`, `if (!a || !b)` ...
                                  GAlias   the test is made on an alias (`a = b = psMalloc`, `x = p;`)
                                  GCallee  a local that is only handed to library functions which themselves test that
                                           parameter for NULL before using it (and to psFree)
    GuardedButSwallowed    a NULL test exists, but the branch taken when the allocation failed neither leaves the function
                            (return/goto/break) nor records an error: the function carries on with a partially built
                            object (`if (p == NULL) { /* trace */ }`, `if (p != NULL) { fill }` without else).  Not clean
                            unless coq/Res/ResModel.v lists the key in benign_swallowed with a reason
    Returned               handed unchecked to the caller (`return psMalloc(..)` / `return p`)
    Discarded              `f(..);` - the value of an allocating function is dropped (psDynBufInit style: the failure is
                            latched by the callee's own test); nothing at the site can use it
    StoredUnchecked        stored in a structure field / out-parameter and neither tested nor used before the function
                            ends: NULL in that field is read by other code as "not requested" (expectedName, ticket, ...),
                            so a failed allocation silently changes meaning.  NEVER counts as guarded; the places that test
                            the field are listed in s_consumers for the reader
    UsedUnguarded kind     dereferenced / written through before any test
                            kind = UField (p->f) | UIndex (p[i]) | UDeref (*p) | UMemDest (Memcpy/Memset..
                                   destination) | UStrDest (Strcpy/Snprintf.. destination) | UArg (passed to a
                                   function that is not known to accept NULL)
    Unknown                anything the scanner cannot follow (listed on stdout)

`--dump` prints one line per site (for reviewing the classification), `--json FILE` writes the table
for the fault injector (props/C19.py).
"""
import json, os, re, sys

REPO = os.environ.get("VERIF_REPO", "/repo")
VERIF = os.path.dirname(os.path.dirname(os.path.dirname(os.path.abspath(__file__))))
DIRS = ["core/src", "core/osdep/POSIX", "crypto", "matrixssl"]
BASE_ALLOC = ["psMalloc", "psCalloc", "psRealloc", "psMallocNoPool", "psMallocN", "psCallocN", "psZallocN",
              "Malloc", "Calloc", "Realloc", "malloc", "calloc", "realloc"]
# functions that accept a NULL pointer argument (no dereference): passing an untested result is not a use
NULL_SAFE = {"psFree", "psFreeN", "psFreeNoPool", "Free", "free", "psFreeFRR", "psAssert", "PS_VARIABLE_SET_BUT_UNUSED",
             "PS_POOL_USED", "sizeof", "psTraceCrypto", "psTraceInfo", "psTraceStrCrypto", "psTraceIntCrypto", "psTraceStrInfo",
             "psTraceIntInfo", "psTraceErrr", "psError", "psErrorStr", "psErrorInt", "memset_s", "memzero_s",
             "psRealloc", "Realloc", "realloc"}
MEM_DEST = {"Memcpy", "Memset", "Memmove", "memcpy", "memset", "memmove", "Memcpyz", "Memsetz", "psMemcpy", "Memzero", "memzero"}
STR_DEST = {"Strcpy", "Strncpy", "Strcat", "Strncat", "Snprintf", "Sprintf", "strcpy", "strncpy", "strcat", "snprintf", "sprintf",
            "Vsnprintf", "vsnprintf", "Strlcpy"}
KEYWORDS = {"if", "while", "for", "switch", "return", "sizeof", "do", "else", "case", "goto"}


# ----------------------------------------------------------------------------- lexing helpers
_LEX = re.compile(r"/\*.*?\*/|//[^\n]*|\"(?:\\.|[^\"\\\n])*\"|'(?:\\.|[^'\\\n])*'", re.S)
def strip_comments_strings(txt):
    """comments, string and char literals -> spaces (newlines kept, so offsets and lines stay)"""
    def blank(m):
        g = m.group(0)
        if g[0] in "\"'":
            return g[0] + " " * (len(g) - 2) + g[0] if len(g) >= 2 else g
        return "".join(ch if ch == "\n" else " " for ch in g)
    return _LEX.sub(blank, txt)


def blank_directives(txt):
    """preprocessor lines -> spaces; returns (text, events) where events = [(offset, 'if'|'else'|'endif'|'if0')]
    `#if 0 ... #endif` regions are blanked completely."""
    lines = txt.split("\n")
    out, events = [], []
    off = 0
    cont = False
    skip0 = 0          # nesting depth inside an `#if 0`
    stack = []         # per open #if: True when it is the `#if 0` that started skipping
    for ln in lines:
        s = ln.lstrip()
        is_dir = cont or s.startswith("#")
        if is_dir:
            if not cont:
                m = re.match(r"#\s*(\w+)\s*(.*)", s)
                kw, rest = (m.group(1), m.group(2)) if m else ("", "")
                if kw in ("if", "ifdef", "ifndef"):
                    zero = (kw == "if" and re.fullmatch(r"0\s*", rest) is not None)
                    if skip0:
                        skip0 += 1; stack.append(False)
                    elif zero:
                        skip0 = 1; stack.append(True)
                    else:
                        stack.append(False); events.append((off, "if"))
                elif kw in ("else", "elif"):
                    if skip0 == 1 and stack and stack[-1]:
                        skip0 = 0; stack[-1] = False; events.append((off, "if"))   # the #else of `#if 0` is live code
                    elif not skip0:
                        events.append((off, "else"))
                elif kw == "endif":
                    if skip0:
                        skip0 -= 1
                        if stack: stack.pop()
                    else:
                        if stack: stack.pop()
                        events.append((off, "endif"))
            cont = ln.rstrip().endswith("\\")
            out.append(" " * len(ln))
        else:
            out.append(" " * len(ln) if skip0 else ln)
        off += len(ln) + 1
    return "\n".join(out), events



def dtls_regions(txt):
    """[(start, end)] offsets of the text that is only compiled with USE_DTLS (#ifdef USE_DTLS / #if defined(USE_DTLS) ..,
    up to the matching #else / #endif)"""
    regs = []; stack = []; off = 0
    for ln in txt.split("\n"):
        st = ln.lstrip()
        if st.startswith("#"):
            m = re.match(r"#\s*(\w+)\s*(.*)", st)
            kw, rest = (m.group(1), m.group(2)) if m else ("", "")
            if kw in ("if", "ifdef", "ifndef"):
                pos = kw != "ifndef" and re.search(r"\bUSE_DTLS\b", rest) is not None and not re.search(r"!\s*defined\s*\(?\s*USE_DTLS", rest)
                stack.append([pos, off + len(ln) + 1])
            elif kw in ("else", "elif") and stack:
                if stack[-1][0]: regs.append((stack[-1][1], off))
                stack[-1] = [False, off]
            elif kw == "endif" and stack:
                pos, a = stack.pop()
                if pos: regs.append((a, off))
        off += len(ln) + 1
    return regs


_DTLS = {}
def in_dtls_only(rel, offset):
    if os.path.basename(rel) == "dtls.c":
        return True
    if rel not in _DTLS:
        _DTLS[rel] = dtls_regions(open(os.path.join(REPO, rel), errors="replace").read())
    return any(a <= offset < b for a, b in _DTLS[rel])


def match_paren(t, i, open_c="(", close_c=")"):
    """t[i] == open_c; returns index of the matching close (or len(t))"""
    d = 0
    n = len(t)
    while i < n:
        if t[i] == open_c: d += 1
        elif t[i] == close_c:
            d -= 1
            if d == 0: return i
        i += 1
    return n


RET_PTR = {}        # (function name, body offset) -> the definition's return type is a pointer


def find_functions(t, events):
    """[(name, body_start, body_end)] - body offsets of the outermost braces of every function definition.
    Brace depth is restored at #else/#elif to the depth seen at the matching #if (both branches balanced)."""
    funcs = []
    depth = 0
    ev = {o: k for o, k in events}
    ifstack = []
    cur = None
    line_starts = [0] + [m.end() for m in re.finditer("\n", t)]
    ls = set(line_starts)
    for i, c in enumerate(t):
        if i in ls and i in ev:
            k = ev[i]
            if k == "if": ifstack.append(depth)
            elif k == "else":
                if ifstack: depth = ifstack[-1]
            elif k == "endif":
                if ifstack: ifstack.pop()
        if c == "{":
            if depth == 0:
                # function definition?  previous non-space is ')' and the matching '(' is preceded by a name
                j = i - 1
                while j >= 0 and t[j].isspace(): j -= 1
                name = None; params = []
                if j >= 0 and t[j] == ")":
                    d = 0; k2 = j
                    while k2 >= 0:
                        if t[k2] == ")": d += 1
                        elif t[k2] == "(":
                            d -= 1
                            if d == 0: break
                        k2 -= 1
                    m = re.search(r"([A-Za-z_]\w*)\s*$", t[max(0, k2 - 200):k2])
                    if m and m.group(1) not in KEYWORDS:
                        name = m.group(1)
                        # declaration specifiers in front of the name: does the function return a pointer?
                        ns = max(0, k2 - 200) + m.start(1)
                        decl = t[max(0, ns - 160):ns]
                        decl = re.split(r"[;}]", decl)[-1]
                        RET_PTR[(name, i)] = "*" in decl
                        d2 = 0; curp = ""
                        for ch in t[k2 + 1:j] + ",":
                            if ch in "([": d2 += 1
                            elif ch in ")]": d2 -= 1
                            if ch == "," and d2 == 0:
                                mp = re.search(r"\(\s*\*\s*(\w+)\s*\)\s*\(", curp) or re.search(r"([A-Za-z_]\w*)\s*(?:\[[^\]]*\]\s*)*$", curp)
                                params.append(mp.group(1) if mp else ""); curp = ""
                            else:
                                curp += ch
                cur = (name, i, params)
            depth += 1
        elif c == "}":
            depth -= 1
            if depth < 0: depth = 0
            if depth == 0 and cur:
                if cur[0]:
                    funcs.append((cur[0], cur[1], i, cur[2]))
                cur = None
    return funcs


# ----------------------------------------------------------------------------- expression helpers
def alias_re(a):
    """regex matching the lvalue text `a` with flexible white space, not inside a longer identifier/field path"""
    toks = re.findall(r"\w+|->|\S", a)
    body = r"\s*".join(re.escape(x) for x in toks)
    pre = r"(?<![\w\.>])" if re.match(r"\w", a) else ""
    return pre + body + r"(?!\w)"


def split_aliases(prefix):
    """prefix = statement text before the allocator call.  Returns (aliases, kind) with kind in
    'assign' | 'return' | 'arg' | 'other'."""
    p = prefix
    p = re.sub(r"\(\s*(?:const\s+|unsigned\s+|struct\s+)*[A-Za-z_]\w*(?:\s+[A-Za-z_]\w*)*\s*\**\s*\)\s*$", "", p)   # trailing cast
    p = p.rstrip()
    # conditional expression `x = cond ? psMalloc(..) : NULL` / `(cond) ? ... `
    aliases = []
    while True:
        m = re.search(r"(?<![=!<>+\-*/|&^])=\s*\(*\s*$", p)
        if not m:
            break
        lhs_part = p[:m.start()].rstrip()
        # the lvalue is the maximal trailing run of lvalue characters (balanced)
        j = len(lhs_part)
        depth = 0
        while j > 0:
            ch = lhs_part[j - 1]
            if ch in ")]": depth += 1
            elif ch in "([":
                if depth == 0: break
                depth -= 1
            elif ch in ";{},?:&|!" and depth == 0: break
            elif ch == "=" and depth == 0: break
            j -= 1
        lv = lhs_part[j:].strip()
        if not lv: break
        # declaration `type *name` / `type name`
        md = re.fullmatch(r"(?:[A-Za-z_]\w*\s+)+\**\s*([A-Za-z_]\w*)|(?:[A-Za-z_]\w*\s*)\*+\s*([A-Za-z_]\w*)", lv)
        if md:
            lv = md.group(1) or md.group(2)
        lv = re.sub(r"\s+", "", lv)
        aliases.append(lv)
        p = lhs_part[:j]
        if not p.rstrip().endswith("="):
            p = lhs_part[:j]
            # continue only for chains `a = b = `
            if not re.search(r"(?<![=!<>+\-*/|&^])=\s*\(*\s*$", p):
                break
    if aliases:
        return aliases, "assign"
    if re.search(r"\breturn\s*\(*\s*$", p):
        return [], "return"
    if re.search(r"[,(]\s*$", p):
        return [], "arg"
    return [], "other"


def first_test(text, aliases):
    """earliest NULL test of an alias in text: (pos, alias) or None"""
    best = None
    for a in aliases:
        A = alias_re(a)
        NUL = r"(?:NULL|0|\(\s*void\s*\*\s*\)\s*0|PS_NULL|MATRIX_NO_POOL)\b"
        pats = [
            r"!\s*\(?\s*" + A + r"\s*\)?(?!\s*(?:->|\[|\(|\.))",
            A + r"\s*\)?\s*[=!]=\s*" + NUL,
            NUL + r"\s*[=!]=\s*\(?\s*" + A + r"(?!\s*(?:->|\[|\(|\.))",
            r"(?:&&|\|\||\b(?:if|while)\s*\(|^)\s*" + A + r"\s*(?=$|&&|\|\||\))",
        ]
        for p in pats:
            m = re.search(p, text)
            if m and (best is None or m.start() < best[0]):
                best = (m.start(), a)
    return best


GUARDING_CALLEES = []     # filled by first_use: callees that received the value and test it for NULL before using it


def first_use(text, aliases):
    """earliest dereferencing use of an alias in text: (pos, kind, detail) or None"""
    best = None
    def upd(pos, kind, det=""):
        nonlocal best
        if best is None or pos < best[0]:
            best = (pos, kind, det)
    for a in aliases:
        A = alias_re(a)
        for m in re.finditer(r"\(?\s*" + A + r"\s*\)?\s*->", text): upd(m.start(), "UField")
        for m in re.finditer(A + r"\s*\[", text): upd(m.start(), "UIndex")
        for m in re.finditer(r"(?:^|[=(,;!&|?:{}+\-<>]|\breturn\b)\s*\*\s*\(?\s*(?:\([^()]*\)\s*)?" + A + r"(?!\s*(?:->|\[))", text):
            if not a.startswith("*"): upd(m.start(), "UDeref")
        # alias that itself is `*x`: a second star dereferences it
        if a.startswith("*"):
            for m in re.finditer(r"\*\s*\(?\s*" + A, text): upd(m.start(), "UDeref")
        # function-call arguments
        for m in re.finditer(r"\b([A-Za-z_]\w*)\s*\(", text):
            fn = m.group(1)
            if fn in KEYWORDS and fn != "sizeof": continue
            close = match_paren(text, m.end() - 1)
            args = text[m.end():close]
            # split top-level args
            parts, d, cur, pos0, starts = [], 0, "", m.end(), []
            st = m.end()
            for k, ch in enumerate(args):
                if ch in "([{": d += 1
                elif ch in ")]}": d -= 1
                if ch == "," and d == 0:
                    parts.append((st, cur)); cur = ""; st = m.end() + k + 1
                else:
                    cur += ch
            parts.append((st, cur))
            for idx, (ps, arg) in enumerate(parts):
                am = re.fullmatch(r"\s*(?:\(\s*[\w\s]+\**\s*\)\s*)?\(?\s*" + A + r"\s*\)?\s*(?:\+[^,]*)?", arg)
                if not am: continue
                if fn in NULL_SAFE: continue
                if fn in MEM_DEST and idx == 0: upd(ps, "UMemDest", fn)
                elif fn in STR_DEST and idx == 0: upd(ps, "UStrDest", fn)
                elif fn in MEM_DEST or fn in STR_DEST: upd(ps, "UMemDest", fn)      # NULL source is equally fatal
                else:
                    c = callee_param(fn, idx)
                    if c == "guards": GUARDING_CALLEES.append(fn)
                    if c == "uses": upd(ps, "UArg", fn)
                    elif c is None: upd(ps, "UArg", fn + "?")       # definition not found: assume the worst
                    # "guards" / "nouse": the callee tests the parameter before using it, or never touches it
    return best


def reassigned(text, aliases):
    """alias = <something>;  returns (alias, rhs) for the first plain reassignment"""
    for a in aliases:
        m = re.search(r"(?:^|[;{}(])\s*" + alias_re(a) + r"\s*=(?!=)\s*(.*)", text, re.S)
        if m:
            return a, m.group(1)
    return None



# ----------------------------------------------------------------------------- what the failing branch of a guard does
LEAVES = re.compile(r"\b(?:return|goto|break|continue|exit|abort)\b")
SETS_ERR = re.compile(r"(?:\b\w*(?:err|Err|rc|ret|res|status|fail|result|rv)\w*\s*(?:=(?!=)|\+\+|\|=)|->\s*err\s*(?:=(?!=)|\+\+))")

def cond_polarity(cond, aliases):
    """'pos': the condition is true when the pointer is NULL (the if-body is the failing branch),
       'neg': true when it is not NULL (the else part / the code after the block is the failing branch), None: cannot tell"""
    NUL = r"(?:NULL|0|PS_NULL)\b"
    pos = neg = False
    for a in aliases:
        A = alias_re(a)
        if re.search(r"!\s*\(?\s*" + A + r"\s*\)?(?!\s*(?:->|\[|\(|\.))", cond) or re.search(A + r"\s*\)*\s*==\s*" + NUL, cond) or \
           re.search(NUL + r"\s*==\s*\(?\s*" + A, cond):
            pos = True
        if re.search(A + r"\s*\)*\s*!=\s*" + NUL, cond) or re.search(NUL + r"\s*!=\s*\(?\s*" + A, cond) or \
           re.search(r"(?:&&|\|\||^|\()\s*" + A + r"\s*(?=$|&&|\|\||\))", cond):
            neg = True
    if pos and neg: return None
    if pos: return None if "&&" in cond else "pos"       # `p == NULL && x`: only part of the failing paths
    if neg: return None if "||" in cond else "neg"
    return None


def block_after(t, i, fend):
    """statement or block starting at t[i:] (after an if-head or `else`): returns (text, end offset)"""
    j = i
    while j < fend and t[j].isspace(): j += 1
    if j < fend and t[j] == "{":
        e = match_paren(t, j, "{", "}")
        return t[j + 1:e], e + 1
    e = j; pd = 0
    while e < fend:
        if t[e] == "(": pd += 1
        elif t[e] == ")": pd -= 1
        elif t[e] == ";" and pd <= 0: break
        e += 1
    return t[j:e + 1], e + 1


def swallowed(t, head_end, fend, pol):
    """t[head_end] is just behind the `)` that closes the if-condition.  Does the branch taken when the allocation failed
    neither leave the function nor record an error?  Returns a reason string or None."""
    body, e = block_after(t, head_end, fend)
    if pol == "pos":
        if LEAVES.search(body) or SETS_ERR.search(body):
            return None
        return "the NULL branch neither leaves the function nor records an error"
    # pol == neg: the failing path is the else part, or simply what follows the guarded block
    m = re.match(r"\s*else\b", t[e:fend])
    if m:
        eb, _ = block_after(t, e + m.end(), fend)
        if LEAVES.search(eb) or SETS_ERR.search(eb) or re.match(r"\s*if\b", eb):
            return None
        return "the else branch taken on NULL neither leaves the function nor records an error"
    # what follows the guarded block inside the enclosing block
    k = e; d = 0
    while k < fend:
        if t[k] == "{": d += 1
        elif t[k] == "}":
            if d == 0: break
            d -= 1
        k += 1
    tail = t[e:k].strip()
    first = re.split(r";", tail, 1)[0] if tail else ""
    if not tail and k >= fend - 1:
        return None                       # nothing follows: the function ends here
    if tail and (re.match(r"\s*(?:return|goto|break|continue)\b", first) or SETS_ERR.search(first)):
        return None                       # `if (p) { .. }  return status;`  /  `ctx->err = 1;`
    if not tail:
        # the enclosing block ends; look one level further out for an immediate leave
        rest = t[k + 1:fend].strip()
        if not rest or re.match(r"(?:return|goto|break|continue)\b", rest) or rest.startswith("}"):
            return None
    return "the guarded block is skipped on NULL and the function carries on (no else branch)"

# ----------------------------------------------------------------------------- per-site analysis
class Site:
    pass


def chunks(t, start, end):
    """yield (kind, text, s, e) for statement-level chunks of t[start:end]:
       kind ';' simple statement, '{' block head (text up to the brace), '}' block end."""
    i = start
    cs = start
    pd = 0
    while i < end:
        c = t[i]
        if c == "(": pd += 1
        elif c == ")": pd = max(0, pd - 1)
        elif pd == 0 and c in ";{}":
            yield (c, t[cs:i], cs, i)
            cs = i + 1
        elif c == ":" and pd == 0:
            # label / case: treat as chunk boundary when it is `ident:` or `case X:` at statement start
            seg = t[cs:i].strip()
            if re.fullmatch(r"(?:case\b[^;?]*|default|[A-Za-z_]\w*)", seg) and not (i + 1 < end and t[i + 1] == ":"):
                cs = i + 1
        i += 1


def split_head(stmt):
    """`if (cond) rest` / `while (cond) rest` / `for (a;b;c) rest` / `switch (x) rest` -> (kw, cond, rest) else None"""
    m = re.match(r"\s*(?:else\s+)?(if|while|for|switch)\s*\(", stmt)
    if not m:
        return None
    o = stmt.index("(", m.start(1))
    c = match_paren(stmt, o)
    return m.group(1), stmt[o + 1:c], stmt[c + 1:]


def analyse(t, fstart, fend, call_s, call_e, allocs_re):
    """classification of the allocation call t[call_s:call_e] (call_e = index after the closing paren)"""
    # statement start: previous ; { } (paren depth 0 backwards is approximated by scanning back to one of these)
    j = call_s
    pd = 0
    while j > fstart:
        ch = t[j - 1]
        if ch == ")": pd += 1
        elif ch == "(":
            pd -= 1
        elif ch in ";{}" and pd <= 0:
            break
        j -= 1
    stmt_s = j
    prefix = t[stmt_s:call_s]
    # drop labels in front
    prefix = re.sub(r"^\s*(?:case\b[^:]*|default|[A-Za-z_]\w*)\s*:(?!:)", "", prefix)
    # end of the statement chunk
    k = call_e
    pd = 0
    # paren depth of the call inside the statement
    opened = prefix.count("(") - prefix.count(")")
    pd = opened
    while k < fend:
        ch = t[k]
        if ch == "(": pd += 1
        elif ch == ")": pd -= 1
        elif ch in ";{}" and pd <= 0:
            break
        k += 1
    stmt_e = k
    suffix = t[call_e:stmt_e]
    head = re.match(r"\s*(?:else\s+)?(if|while|for|switch)\b", prefix)
    aliases, kind = split_aliases(prefix if not head else prefix)
    res = {"lhs": aliases[0] if aliases else "", "aliases": list(aliases)}
    if kind == "return":
        res["cls"] = "Returned"; res["why"] = "return <alloc>"
        return res
    if kind != "assign":
        # the value is compared with NULL where it is produced:  if (f(..) == NULL)   x = (f(..) == NULL);   if (!f(..))
        if re.match(r"\s*\)*\s*[=!]=\s*(?:NULL|0)\b", suffix) or re.search(r"!\s*\(*\s*$", prefix):
            res["cls"] = "GuardedBeforeUse"; res["how"] = "GInline"; res["why"] = "result compared with NULL in place"
            return res
        if re.match(r"\s*\)*\s*\?", suffix) and kind in ("other", "arg"):
            res["cls"] = "GuardedBeforeUse"; res["how"] = "GInline"; res["why"] = "result compared with NULL in place"
            return res
        # expression statement `f(..);` : the value is dropped - nothing at this site can use it.  (For the psDynBuf
        # family this is the documented style: the failure is latched in the buffer's err flag by the callee's own test.)
        if kind == "other" and prefix.strip() in ("", "(void)") and re.match(r"\s*$", suffix):
            res["cls"] = "Discarded"; res["why"] = "return value dropped (callee's own test is the only consumer)"
            return res
        res["cls"] = "Unknown"; res["why"] = "result not assigned (%s)" % kind
        return res
    primary = aliases[0]
    # ---- inline test in the same statement
    if head:
        m1 = re.match(r"\s*\)+\s*([=!]=)\s*(?:NULL|0|\(\s*void\s*\*\s*\)\s*0)\b", suffix)
        m2 = re.search(r"!\s*\(\s*" + alias_re(aliases[-1]) + r"\s*=\s*(?:\([^()]*\)\s*)?$", prefix)
        m3 = re.match(r"\s*\)\s*(?:\)|&&|\|\|)", suffix) and re.search(r"(?:\bif|\bwhile|&&|\|\|)\s*\(\s*\(\s*" + alias_re(aliases[-1]) + r"\s*=\s*(?:\([^()]*\)\s*)?$", prefix)
        if m1 or m2 or m3:
            res["cls"] = "GuardedBeforeUse"; res["how"] = "GInline"; res["why"] = "test in the allocating condition"
            if head.group(1) == "if" and stmt_e < fend and t[stmt_e] in "{;":
                # end of the condition = the `)` matching the `(` that follows `if`
                o = t.index("(", stmt_s + head.end(1) - 0) if "(" in t[stmt_s:stmt_e] else -1
                c = match_paren(t, o) if o >= 0 else -1
                cond = t[o + 1:c] if c > o else ""
                pol = ("pos" if m1.group(1) == "==" else "neg") if m1 else ("pos" if m2 else "neg")
                if ("&&" in cond and pol == "pos") or ("||" in cond and pol == "neg"):
                    pol = None
                if pol and c > 0:
                    why = swallowed(t, c + 1, fend, pol)
                    if why:
                        res["cls"] = "GuardedButSwallowed"; res["why"] = why
            return res
        res["cls"] = "Unknown"; res["why"] = "allocation inside a condition without a recognised test"
        return res
    if re.match(r"\s*\?", suffix) and not head:
        # x = f(..) ? A : B;  the pointer itself is not kept: it only selects a value
        res["cls"] = "GuardedBeforeUse"; res["how"] = "GInline"; res["why"] = "result only tested in place (selects a status)"
        res["lhs"] = ""; res["aliases"] = []
        return res
    if suffix.strip():
        # e.g.  p = psMalloc(n) + 1;   p = psMalloc(..) ? .. : ..
        if re.match(r"\s*\)*\s*$", suffix) is None:
            res["cls"] = "Unknown"; res["why"] = "allocation is part of a larger expression"
            return res
    pos = stmt_e + 1 if stmt_e < fend and t[stmt_e] == ";" else stmt_e
    return walk(t, pos, fend, aliases, res, allocs_re)


def walk(t, pos, fend, aliases, res, allocs_re):
    """follow the text from pos to the end of the function; fills res["cls"] ..."""
    primary = aliases[0]
    depth = 0
    it = chunks(t, pos, fend)
    skipping = 0                # >0: inside an else-branch that paths from the site cannot enter
    pending_else_skip = False
    for (ck, text, cs, ce) in it:
        if skipping:
            if ck == "{": skipping += 1
            elif ck == "}":
                skipping -= 1
                if skipping == 0:
                    pending_else_skip = True          # `else if {..} else {..}` chains
            continue
        stripped = text.strip()
        if pending_else_skip:
            if re.match(r"else\b", stripped):
                if ck == "{": skipping = 1; pending_else_skip = False
                # `else stmt;` : skip this single statement, chain ends
                elif ck == ";": pending_else_skip = False
                continue
            pending_else_skip = False
        if ck == "}":
            depth -= 1
            if depth < 0:
                pending_else_skip = True
            continue
        body = re.sub(r"\bpsAssert\s*\(", "PSASSERT(", text)
        # psAssert(...) is compiled to nothing / a trace in this configuration: neither a guard nor a use
        while True:
            m = re.search(r"PSASSERT\(", body)
            if not m: break
            c = match_paren(body, m.end() - 1)
            body = body[:m.start()] + " " * (c + 1 - m.start()) + body[c + 1:]
        hd = split_head(body)
        segs = []
        if hd:
            segs.append(("cond", hd[1]))
            if hd[2].strip(): segs.append(("condstmt", hd[2]))
        else:
            segs.append(("stmt", body))
        nested = depth > 0
        for sk, seg in segs:
            # `p ? a : b` selects a value, it is not an error edge: neither guard nor use; what follows in the
            # same expression is covered by it, the walk continues with the next statement
            mt = None
            for a in aliases:
                m = re.search(r"(?:^|[=(,?:]|&&|\|\||\breturn\b)\s*\(?\s*" + alias_re(a) + r"\s*(?:!=\s*NULL\s*)?\)?\s*\?", seg)
                if m and (mt is None or m.start() < mt.start()): mt = m
            if mt:
                u0 = first_use(seg[:mt.start()], aliases)
                if not u0:
                    res["weak"] = "ternary"
                    mret = re.match(r"\s*return\b", seg)
                    if mret and depth <= 0 and sk == "stmt":
                        return finish_path(res, aliases, "function returns")
                    continue
            tst = first_test(seg, aliases)
            del GUARDING_CALLEES[:]
            use = first_use(seg, aliases)
            if GUARDING_CALLEES and not (tst or use):
                res.setdefault("callee_guard", [])
                for g_ in GUARDING_CALLEES:
                    if g_ not in res["callee_guard"]: res["callee_guard"].append(g_)
            # `x = alias;` extends the alias set (the test may be made on x)
            if tst or use:
                res["at"] = t.count("\n", 0, cs + (len(text) - len(text.lstrip()))) + 1
            if tst and (not use or tst[0] <= use[0]):
                res["cls"] = "GuardedBeforeUse"
                res["how"] = "GTest" if tst[1] == primary else "GAlias"
                res["why"] = "test of %s" % tst[1]
                if sk == "cond" and hd and hd[0] == "if":
                    pol = cond_polarity(hd[1], aliases)
                    if pol:
                        # offset of the `)` closing this if-condition inside t
                        mo = re.search(r"\bif\s*\(", t[cs:ce + 1])
                        if mo:
                            o = cs + mo.end() - 1
                            c = match_paren(t, o)
                            why = swallowed(t, c + 1, fend, pol)
                            if why:
                                res["cls"] = "GuardedButSwallowed"; res["why"] = "test of %s: %s" % (tst[1], why)
                return res
            if use:
                res["cls"] = "UsedUnguarded"; res["kind"] = use[1]; res["why"] = ("%s %s" % (use[1], use[2])).strip()
                return res
            if sk in ("stmt", "condstmt"):
                s2 = seg.strip()
                mret = re.match(r"return\b\s*(.*)", s2, re.S)
                if mret:
                    rv = mret.group(1).strip()
                    rv = re.sub(r"^\(\s*[\w\s]+\**\s*\)\s*", "", rv).strip("() \n\t")
                    if any(re.fullmatch(alias_re(a), rv) for a in aliases):
                        res["cls"] = "Returned"; res["why"] = "return of the untested result"
                        return res
                    if not nested and sk == "stmt":
                        return finish_path(res, aliases, "function returns")
                    continue
                if re.match(r"(goto|break|continue)\b", s2):
                    continue
                ra = reassigned(";" + seg, aliases)
                if ra:
                    rhs = ra[1]
                    if allocs_re.search(rhs):
                        continue           # p = psMalloc(a) ... p = psMalloc(b): analysed as its own site; same test serves both
                    res["cls"] = "Unknown"; res["why"] = "%s reassigned before any test" % ra[0]
                    return res
                # alias extension  X = (cast) alias ;
                for a in list(aliases):
                    m = re.fullmatch(r"\s*([\w\->\.\[\]\*\(\)\s]+?)\s*=\s*(?:\(\s*[\w\s]+\**\s*\)\s*)?" + alias_re(a) + r"\s*", seg, re.S)
                    if m:
                        nl = re.sub(r"\s+", "", m.group(1))
                        md = re.fullmatch(r".*?\*?(\w+)", nl)
                        if re.fullmatch(r"[\w]+\*+\w+", nl): nl = re.sub(r"^\w+\*+", "", nl)
                        if nl not in aliases: aliases.append(nl); res["aliases"] = list(aliases)
        if ck == "{":
            depth += 1
    return finish_path(res, aliases, "end of function")


def finish_path(res, aliases, why):
    stored = [a for a in aliases if re.search(r"->|\.|\*|\[", a)]
    if not stored and res.get("callee_guard"):
        # a local that is only ever handed to library functions which test that parameter for NULL before using it
        res["cls"] = "GuardedBeforeUse"; res["how"] = "GCallee"
        res["why"] = "%s; only consumer(s) %s test the parameter for NULL" % (why, ",".join(res["callee_guard"]))
        return res
    if stored:
        res["cls"] = "StoredUnchecked"; res["why"] = "%s with the result in %s, untested" % (why, stored[0]); res["stored"] = stored[0]
    else:
        res["cls"] = "Unknown"; res["why"] = "%s, result in local %s neither tested, used nor returned" % (why, aliases[0])
    return res


# ----------------------------------------------------------------------------- callees
_FUNCS = None
_CALLEE = {}
_NOALLOC = re.compile(r"(?!x)x")
def callee_param(fn, idx, _depth=[0]):
    """what the library function fn does with its idx-th parameter: 'guards' (NULL test before any use),
    'uses' (dereference before any test), 'nouse', or None when no definition is found"""
    global _FUNCS
    if (fn, idx) in _CALLEE:
        return _CALLEE[(fn, idx)]
    if _FUNCS is None:
        _FUNCS = {}
        for rel in list_files():
            t, events, funcs = preprocessed(rel)
            if funcs is None:
                funcs = find_functions(t, events); _PRE[rel] = (t, events, funcs)
            for (name, fs, fe, params) in funcs:
                _FUNCS.setdefault(name, []).append((rel, fs, fe, params))
    defs = _FUNCS.get(fn)
    if not defs:
        _CALLEE[(fn, idx)] = None
        return None
    if _depth[0] >= 3:
        return "uses"
    _CALLEE[(fn, idx)] = "uses"          # recursion: pessimistic
    verdicts = []
    _depth[0] += 1
    try:
        for (rel, fs, fe, params) in defs:
            if idx >= len(params) or not params[idx]:
                verdicts.append("uses"); continue
            r = walk(_PRE[rel][0], fs + 1, fe, [params[idx]], {}, _NOALLOC)
            c = r.get("cls")
            verdicts.append("guards" if c == "GuardedBeforeUse" else "uses" if c == "UsedUnguarded" else "nouse")
    finally:
        _depth[0] -= 1
    v = "uses" if "uses" in verdicts else "guards" if "guards" in verdicts else "nouse"
    _CALLEE[(fn, idx)] = v
    return v


# ----------------------------------------------------------------------------- driver
_FILES = None
def list_files():
    global _FILES
    if _FILES is None:
        _FILES = _list_files()
    return _FILES


def _list_files():
    out = []
    for d in DIRS:
        for root, dirs, files in os.walk(os.path.join(REPO, d)):
            rel = os.path.relpath(root, REPO)
            parts = rel.split(os.sep)
            if "test" in parts or "apps" in parts or "unit_tests" in parts or "testsupp" in parts:
                continue
            for f in sorted(files):
                if f.endswith(".c"):
                    out.append(os.path.join(rel, f))
    return sorted(out)


_PRE = {}
def preprocessed(rel):
    """(clean text, [(function, body_start, body_end)]) of a source file, cached"""
    if rel not in _PRE:
        raw = open(os.path.join(REPO, rel), errors="replace").read()
        t, events = blank_directives(strip_comments_strings(raw))
        _PRE[rel] = (t, events, None)
    return _PRE[rel]


def scan(files, alloc_names, wrapper_defs=frozenset()):
    allocs_re = re.compile(r"\b(" + "|".join(sorted(alloc_names, key=len, reverse=True)) + r")\s*\(")
    sites = []
    for rel in files:
        t, events, funcs = preprocessed(rel)
        if not allocs_re.search(t):
            continue
        if funcs is None:
            funcs = find_functions(t, events)
            _PRE[rel] = (t, events, funcs)
        seen = {}
        for (name, fs, fe, _params) in funcs:
            nth = seen.get(name, 0); seen[name] = nth + 1
            fname = name if nth == 0 else "%s~%d" % (name, nth + 1)     # same name twice in a file (#ifdef variants)
            ordn = 0
            for m in allocs_re.finditer(t, fs, fe):
                an = m.group(1)
                if (rel, name) in wrapper_defs and False:
                    continue
                ce = match_paren(t, m.end() - 1) + 1
                ordn += 1
                r = analyse(t, fs, fe, m.start(), ce, allocs_re)
                r["returns_fresh"] = returns_fresh(t, name, fs, fe, m.start(), ce, r)
                if r.get("cls") == "GuardedButSwallowed" and r["returns_fresh"]:
                    # `if (p) { fill } return p;` : the failing path ends in `return NULL` - the caller is the one who is told
                    r["cls"] = "GuardedBeforeUse"; r["why"] = "test, then the (NULL) result is returned to the caller"
                s = dict(r)
                s["dtls_only"] = in_dtls_only(rel, m.start())
                s.update(file=rel, func=fname, ord=ordn, alloc=an, line=t.count("\n", 0, m.start()) + 1,
                         key="%s:%s#%d" % (os.path.basename(rel), fname, ordn), fstart=fs, fend=fe)
                sites.append(s)
    return sites


def returns_fresh(t, fname, fs, fe, call_s, call_e, r):
    """does the enclosing function hand the freshly allocated block (tested or not) to its caller as its return value?
    Such a function is an allocator itself: it returns NULL when the allocation fails, and its callers are scanned
    like callers of psMalloc.  Lexical: `return <alloc>(..)`, or `return a;` for an alias a of the result, where the
    alias set is closed under plain copies `x = a;` / `x = (T *) a;` found after the allocation."""
    if not RET_PTR.get((fname, fs), False):
        return False          # e.g. an int status that happens to be computed from the pointer
    if r.get("cls") == "Returned":
        return True
    aliases = [a for a in r.get("aliases", []) if a]
    if not aliases:
        return False
    body = t[call_e:fe]
    for _ in range(3):
        grew = False
        for a in list(aliases):
            for m in re.finditer(r"(?:^|[;{}])\s*([A-Za-z_]\w*)\s*=\s*(?:\(\s*[\w\s]+\**\s*\)\s*)?" + alias_re(a) + r"\s*;", body):
                if m.group(1) not in aliases:
                    aliases.append(m.group(1)); grew = True
        if not grew:
            break
    for a in aliases:
        if re.search(r"\breturn\b\s*\(?\s*(?:\(\s*[\w\s]+\**\s*\)\s*)?" + alias_re(a) + r"\s*\)?\s*;", body):
            return True
    return False


def stored_consumers_tested(s, cache):
    """StoredOnly: is there, anywhere in the library, a NULL test of the field the result was stored in?
    (lexical: last component of the stored lvalue, e.g. `->expectedName`)"""
    st = s.get("stored", "")
    m = re.search(r"(?:->|\.)(\w+)(?:\[[^\]]*\])?$", st)
    if not m:
        return False, ""
    fld = m.group(1)
    pat = re.compile(r"(?:!\s*[\w\->\.\(\)]*(?:->|\.)%s\b(?!\s*(?:->|\[|\())|(?:->|\.)%s\s*[=!]=\s*NULL|(?:->|\.)%s\s*(?:&&|\|\||\)))" % (fld, fld, fld))
    hits = []
    for rel, txt in cache.items():
        for mm in pat.finditer(txt):
            hits.append("%s:%d" % (os.path.basename(rel), txt.count("\n", 0, mm.start()) + 1))
            if len(hits) >= 3: break
        if len(hits) >= 3: break
    return bool(hits), ",".join(hits)


def coq_str(s):
    return '"' + s.replace('"', '""') + '"'


def main():
    files = list_files()
    base = scan(files, BASE_ALLOC)
    # second pass: functions that hand the raw allocation to their caller become allocators themselves
    wrappers = {}
    for s in base:
        if s.get("returns_fresh"):
            wrappers.setdefault(re.sub(r"~\d+$", "", s["func"]), []).append(s["key"])
    derived = []
    names = set(wrappers) - set(BASE_ALLOC)
    rounds = 0
    known = set(names)
    while names and rounds < 6:
        d = scan(files, names)
        # a wrapper's own definition line is not a call site (name followed by parameter list at depth 0 is outside bodies anyway)
        new = set()
        for s in d:
            s["derived"] = True
            derived.append(s)
            if s.get("returns_fresh"):
                w = re.sub(r"~\d+$", "", s["func"])
                wrappers.setdefault(w, []).append(s["key"])
                if w not in known and w not in BASE_ALLOC:
                    new.add(w); known.add(w)
        names = new; rounds += 1
    # renumber derived keys so that they do not collide with base keys (ordinal spaces are per allocator family)
    for s in derived:
        s["key"] = "%s:%s@%s#%d" % (os.path.basename(s["file"]), s["func"], s["alloc"], s["ord"])
    allsites = base + derived
    cache = None
    for s in allsites:
        s["callers"] = []
        s["callers_ok"] = False
        if s["cls"] == "Returned":
            w = re.sub(r"~\d+$", "", s["func"])
            cs = [d for d in derived if d["alloc"] == w]
            s["callers"] = [d["key"] for d in cs]
            # every caller site is itself in the table and must be guarded there; a wrapper nobody calls is vacuous
            s["callers_ok"] = True
        elif s["cls"] == "StoredUnchecked":
            # the consumers of the field cannot tell "allocation failed" from "nothing was requested": never a guard.
            # The places that test the field are recorded for the reader (they are what silently changes meaning).
            if cache is None:
                cache = {rel: preprocessed(rel)[0] for rel in files}
            ok, where = stored_consumers_tested(s, cache)
            s["callers_ok"] = False
            s["callers"] = [where] if where else []
    # ---- emit Coq
    kinds = ["UField", "UIndex", "UDeref", "UMemDest", "UStrDest", "UArg"]
    out = []
    out.append("(* GENERATED by tools/srcgen/gen_allocsites.py from the library sources - do not edit *)")
    out.append("From Coq Require Import String List NArith.")
    out.append("Import ListNotations.")
    out.append("Open Scope string_scope.")
    out.append("")
    out.append("Inductive guard_how := GInline | GTest | GAlias | GCallee.")
    out.append("Inductive use_kind := UField | UIndex | UDeref | UMemDest | UStrDest | UArg.")
    out.append("Inductive site_class :=")
    out.append("  | GuardedBeforeUse (h : guard_how)")
    out.append("  | GuardedButSwallowed")
    out.append("  | Returned | Discarded | StoredUnchecked")
    out.append("  | UsedUnguarded (k : use_kind)")
    out.append("  | Unknown.")
    out.append("Record site := mkSite {")
    out.append("  s_key : string;        (* <file>:<function>#<ordinal in function>  - independent of line numbers *)")
    out.append("  s_file : string; s_func : string; s_ord : nat; s_line : N;")
    out.append("  s_alloc : string;      (* allocator called (a wrapper's name for second-pass sites) *)")
    out.append("  s_lhs : string;        (* assigned lvalue *)")
    out.append("  s_class : site_class;")
    out.append("  s_consumers_tested : bool;   (* Returned: the callers are sites of this table (allocator = this function) *)")
    out.append("  s_consumers : list string }.")
    out.append("")
    out.append("Definition sites : list site := [")
    rows = []
    for s in allsites:
        if s["cls"] == "GuardedBeforeUse": c = "GuardedBeforeUse %s" % s["how"]
        elif s["cls"] == "UsedUnguarded": c = "UsedUnguarded %s" % s["kind"]
        else: c = s["cls"]
        rows.append("  mkSite %s %s %s %d %d%%N %s %s (%s) %s [%s]" % (
            coq_str(s["key"]), coq_str(s["file"]), coq_str(s["func"]), s["ord"], s["line"], coq_str(s["alloc"]),
            coq_str(s["lhs"]), c, "true" if s["callers_ok"] else "false", "; ".join(coq_str(x) for x in s["callers"])))
    out.append(";\n".join(rows))
    out.append("].")
    out.append("")
    out.append("Definition n_sites : nat := %d." % len(allsites))
    txt = "\n".join(out) + "\n"
    p = os.path.join(VERIF, "coq/Gen/AllocSites.v")
    changed = not os.path.exists(p) or open(p).read() != txt
    if "--no-write" not in sys.argv:
        if changed:
            os.makedirs(os.path.dirname(p), exist_ok=True)
            open(p, "w").write(txt)
    hist = {}
    for s in allsites:
        k = s["cls"] + (":" + s.get("kind", "") if s["cls"] == "UsedUnguarded" else "")
        hist[k] = hist.get(k, 0) + 1
    if "--json" in sys.argv:
        jp = sys.argv[sys.argv.index("--json") + 1]
        json.dump([{k: v for k, v in s.items() if k not in ("fstart", "fend")} for s in allsites], open(jp, "w"), indent=0)
    if "--dump" in sys.argv:
        for s in allsites:
            print("%-60s %s:%d->%s %-10s lhs=%-28s %s%s  [%s]%s" % (s["key"], s["file"], s["line"], s.get("at", "-"), s["alloc"], s["lhs"], s["cls"],
                  (":" + s.get("kind", s.get("how", ""))) if s.get("kind") or s.get("how") else "", s.get("why", ""),
                  (" consumers=%s ok=%s" % (s["callers"], s["callers_ok"])) if s["cls"] in ("Returned", "StoredUnchecked") else ""))
    notg = [s["key"] for s in allsites if s["cls"] in ("Unknown",)]
    if "--wrappers" in sys.argv:
        print("allocation wrappers (functions returning freshly allocated memory): " + " ".join(sorted(wrappers)))
    if "--dtls" in sys.argv:
        print("DTLS-only sites (#ifdef USE_DTLS / dtls.c): " + " ".join(s_["key"] for s_ in allsites if s_.get("dtls_only")))
    print("AllocSites.v %s: %d sites (%d direct, %d via wrappers) %s%s" % (
        "updated" if changed else "unchanged", len(allsites), len(base), len(derived),
        " ".join("%s=%d" % kv for kv in sorted(hist.items())), (" Unknown: " + ",".join(notg[:8])) if notg else ""))


main()
