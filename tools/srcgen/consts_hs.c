/* Translator for C06 (handshake state machine): constants that coq/Gen/Consts.v does not carry, printed as
   coq/Gen/ConstsHs.v (compiled against the repo's own headers, so the compiler evaluates every enum / macro). */
#include "matrixssl/matrixsslImpl.h"
#include <stdio.h>
#define C(n) printf("Definition h_%s : Z := (%lld)%%Z.\n", #n, (long long)(n));
int main(void)
{
    printf("(* GENERATED from /repo by tools/srcgen/consts_hs.c - do not edit *)\n");
    printf("From Coq Require Import ZArith List.\nImport ListNotations.\n");
    C(SESS_TICKET_STATE_INIT) C(SESS_TICKET_STATE_SENT_EMPTY) C(SESS_TICKET_STATE_SENT_TICKET) C(SESS_TICKET_STATE_RECVD_EXT)
    C(SESS_TICKET_STATE_IN_LIMBO) C(SESS_TICKET_STATE_USING_TICKET)
    C(SSL_HS_ALERT) C(SSL_HS_CCC) C(SSL_HS_NONE) C(SSL_HS_TLS_1_3_WAIT_FLIGHT_2)
    /* build switches the model depends on */
#ifdef SSL_REHANDSHAKES_ENABLED
    printf("Definition h_rehandshakes_enabled : bool := true.\n");
#else
    printf("Definition h_rehandshakes_enabled : bool := false.\n");
#endif
#ifdef USE_OCSP_MUST_STAPLE
    printf("Definition h_ocsp_must_staple : bool := true.\n");
#else
    printf("Definition h_ocsp_must_staple : bool := false.\n");
#endif
#ifdef USE_STATELESS_SESSION_TICKETS
    printf("Definition h_stateless_tickets : bool := true.\n");
#else
    printf("Definition h_stateless_tickets : bool := false.\n");
#endif
#ifdef SERVER_WILL_ACCEPT_EMPTY_CLIENT_CERT_MSG
    printf("Definition h_server_accepts_empty_client_cert : bool := true.\n");
#else
    printf("Definition h_server_accepts_empty_client_cert : bool := false.\n");
#endif
#if defined(USE_PSK_CIPHER_SUITE) && defined(USE_DHE_CIPHER_SUITE)
    printf("Definition h_psk_and_dhe_suites : bool := true.\n");
#else
    printf("Definition h_psk_and_dhe_suites : bool := false.\n");
#endif
    /* pending-fixes/C06-8: a DTLS client takes the ChangeCipherSpec that is the sign of an unacknowledged ticket resumption
       (the repaired tree names the condition); before the repair every ChangeCipherSpec outside FINISHED is skipped */
#ifdef DTLS_CCS_SIGNALS_TICKET_RESUMPTION
    printf("Definition h_dtls_ccs_signals_ticket_resumption : bool := true.\n");
#else
    printf("Definition h_dtls_ccs_signals_ticket_resumption : bool := false.\n");
#endif
    return 0;
}
