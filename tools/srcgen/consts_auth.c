/* Translator for C04 (certificate verdict -> handshake outcome): constants of the repo's headers printed as
   coq/Gen/ConstsAuth.v.  The compiler evaluates every macro with the repo's own configuration. */
#include "matrixssl/matrixsslImpl.h"
#include <stdio.h>
#define C(n) printf("Definition a_%s : Z := (%lld)%%Z.\n", #n, (long long)(n));
#define B(name, v) printf("Definition a_cfg_%s : bool := %s.\n", name, (v) ? "true" : "false");
int main(void)
{
    printf("(* GENERATED from /repo by tools/srcgen/consts_auth.c - do not edit *)\n");
    printf("From Coq Require Import ZArith Bool.\n");
    C(PS_SUCCESS) C(PS_FAILURE) C(PS_ARG_FAIL) C(PS_MEM_FAIL) C(PS_PARSE_FAIL) C(MATRIXSSL_ERROR)
    C(PS_CERT_AUTH_PASS) C(PS_CERT_AUTH_FAIL_BC) C(PS_CERT_AUTH_FAIL_DN) C(PS_CERT_AUTH_FAIL_SIG) C(PS_CERT_AUTH_FAIL_REVOKED)
    C(PS_CERT_AUTH_FAIL) C(PS_CERT_AUTH_FAIL_EXTENSION) C(PS_CERT_AUTH_FAIL_PATH_LEN) C(PS_CERT_AUTH_FAIL_AUTHKEY)
    C(PS_CERT_AUTH_FAIL_KEY_USAGE_FLAG) C(PS_CERT_AUTH_FAIL_EKU_FLAG) C(PS_CERT_AUTH_FAIL_SUBJECT_FLAG) C(PS_CERT_AUTH_FAIL_DATE_FLAG)
    C(PS_CERT_AUTH_FAIL_VERIFY_DEPTH_FLAG)
    C(SSL_ALERT_NONE) C(SSL_ALERT_UNEXPECTED_MESSAGE) C(SSL_ALERT_BAD_RECORD_MAC) C(SSL_ALERT_HANDSHAKE_FAILURE) C(SSL_ALERT_BAD_CERTIFICATE)
    C(SSL_ALERT_UNSUPPORTED_CERTIFICATE) C(SSL_ALERT_CERTIFICATE_REVOKED) C(SSL_ALERT_CERTIFICATE_EXPIRED) C(SSL_ALERT_CERTIFICATE_UNKNOWN)
    C(SSL_ALERT_ILLEGAL_PARAMETER) C(SSL_ALERT_UNKNOWN_CA) C(SSL_ALERT_ACCESS_DENIED) C(SSL_ALERT_DECODE_ERROR) C(SSL_ALERT_DECRYPT_ERROR)
    C(SSL_ALERT_INTERNAL_ERROR) C(SSL_ALLOW_ANON_CONNECTION)
    /* configuration the model depends on */
#ifdef SERVER_WILL_ACCEPT_EMPTY_CLIENT_CERT_MSG
    B("accept_empty_client_cert", 1)
#else
    B("accept_empty_client_cert", 0)
#endif
#ifdef ALLOW_VERSION_1_ROOT_CERT_PARSE
    B("allow_v1_root", 1)
#else
    B("allow_v1_root", 0)
#endif
#ifdef USE_CERT_CHAIN_PARSING
    B("cert_chain_parsing", 1)
#else
    B("cert_chain_parsing", 0)
#endif
    return 0;
}
