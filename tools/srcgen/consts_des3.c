/* Translator (C12): prints the static tables of crypto/symmetric/des3.c as Gallina -> coq/Gen/ConstsDes3.v.
   The source file itself is included, so the values are the ones the compiler sees. */
#include "crypto/symmetric/des3.c"
#include <stdio.h>
static void tab32(const char *name, const uint32_t *t, int n)
{
    printf("Definition des3_%s : list N := [", name);
    for (int i = 0; i < n; i++) printf("%s%lu", i ? "; " : "", (unsigned long) t[i]);
    printf("]%%N.\n");
}
static void tab8(const char *name, const unsigned char *t, int n)
{
    printf("Definition des3_%s : list nat := [", name);
    for (int i = 0; i < n; i++) printf("%s%u", i ? "; " : "", (unsigned) t[i]);
    printf("]%%nat.\n");
}
int main(void)
{
    printf("(* GENERATED from /repo crypto/symmetric/des3.c by tools/srcgen/consts_des3.c - do not edit *)\n");
    printf("From Coq Require Import List NArith.\nImport ListNotations.\n");
#ifdef USE_MATRIX_3DES
    printf("Definition f_USE_MATRIX_3DES : bool := true.\n");
#ifdef PS_3DES_IMPROVE_PERF_INCREASE_CODESIZE
    printf("Definition f_PS_3DES_IMPROVE_PERF_INCREASE_CODESIZE : bool := true.\n");
#else
    printf("Definition f_PS_3DES_IMPROVE_PERF_INCREASE_CODESIZE : bool := false.\n");
#endif
    tab32("bytebit", (const uint32_t *) bytebit, 8);
    tab32("bigbyte", bigbyte, 24);
    tab8("pc1", pc1, 56); tab8("pc2", pc2, 48); tab8("totrot", totrot, 16);
    tab32("SP1", SP1, 64); tab32("SP2", SP2, 64); tab32("SP3", SP3, 64); tab32("SP4", SP4, 64);
    tab32("SP5", SP5, 64); tab32("SP6", SP6, 64); tab32("SP7", SP7, 64); tab32("SP8", SP8, 64);
    printf("Definition c_DES3_KEYLEN : nat := %d.\nDefinition c_DES3_BLOCKLEN : nat := %d.\nDefinition c_DES3_IVLEN : nat := %d.\n",
           (int) DES3_KEYLEN, (int) DES3_BLOCKLEN, (int) DES3_IVLEN);
#else
    printf("Definition f_USE_MATRIX_3DES : bool := false.\n");
#endif
    return 0;
}
