/* Translator (C02): record-layer constants evaluated by the C compiler against /repo's headers -> Gen/ConstsRec.v.
   Lengths are emitted as nat (all small) and, for the limits compared with record lengths, as N. */
#include "matrixssl/matrixsslImpl.h"
#include <stdio.h>
#include <stddef.h>
#define CNAT(n) printf("Definition r_%s : nat := %llu.\n", #n, (unsigned long long)(n));
#define CN(n) printf("Definition rn_%s : N := (%llu)%%N.\n", #n, (unsigned long long)(n));
int main(void)
{
    printf("(* GENERATED from /repo headers by tools/srcgen/consts_rec.c - do not edit *)\n");
    printf("From Coq Require Import ZArith NArith.\n");
    CNAT(TLS_GCM_TAG_LEN)
    CNAT(TLS_EXPLICIT_NONCE_LEN)
    CNAT(TLS_GCM_AAD_LEN)
    CNAT(TLS_CHACHA20_POLY1305_IETF_TAG_LEN)
    CNAT(TLS_CHACHA20_POLY1305_IETF_AAD_LEN)
    CNAT(TLS_AEAD_SEQNB_LEN)
    CNAT(CHACHA20POLY1305_IETF_IV_FIXED_LENGTH)
    CNAT(AES_BLOCKLEN)
    CNAT(SSL3_HEADER_LEN)
    CNAT(TLS_REC_HDR_LEN)
    CNAT(SHA1_HASH_SIZE)
    CNAT(SHA256_HASH_SIZE)
    CNAT(SHA384_HASH_SIZE)
    CN(SSL_MAX_PLAINTEXT_LEN)
    CN(SSL_MAX_RECORD_LEN)
    CN(TLS_1_3_MAX_PLAINTEXT_FRAGMENT_LEN)
    CN(TLS_1_3_MAX_INNER_PLAINTEXT_LEN)
    CN(TLS_1_3_MAX_CIPHERTEXT_LEN)
    /* smallest TLS 1.2 GCM record csAesGcmDecrypt accepts: 1 + tag + explicit nonce */
    printf("Definition r_GCM12_MIN_LEN_expected : nat := %d.\n", 1 + TLS_GCM_TAG_LEN + TLS_EXPLICIT_NONCE_LEN);
    return 0;
}
