#!/bin/bash
# tools/try_seed.sh Cxx <patch.diff> : apply a candidate change to /repo, run the check, undo it straight afterwards.
cd "$(dirname "$0")/.."
P="$1"; D="$(realpath "$2")"
git -C /repo apply --check "$D" || { echo "SEED $D: does not apply"; exit 2; }
git -C /repo apply "$D"
./check "$P" > /var/tmp/seedrun-$P.log 2>&1; rc=$?
git -C /repo checkout -- .
echo "SEED $D: exit=$rc violations=$(grep -c '^VIOLATION' /var/tmp/seedrun-$P.log) $(grep -m1 -o 'no-failing-input-found' /var/tmp/seedrun-$P.log)"
grep '^VIOLATION' /var/tmp/seedrun-$P.log | head -3
