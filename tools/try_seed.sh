#!/bin/bash
# tools/try_seed.sh Cxx <patch.diff> : apply a candidate change to /repo, run the check, undo it straight afterwards.
cd "$(dirname "$0")/.."
P="$1"; D="$(realpath "$2")"
WT=/var/tmp/tryseed-$P.$$
git -C /repo worktree add -q --detach "$WT" HEAD || exit 2
git -C "$WT" apply "$D" || { echo "SEED $D: does not apply"; git -C /repo worktree remove --force "$WT"; exit 2; }
VERIF_REPO="$WT" ./check "$P" > /var/tmp/seedrun-$P.log 2>&1; rc=$?
git -C /repo worktree remove --force "$WT"
echo "SEED $D: exit=$rc violations=$(grep -c '^VIOLATION' /var/tmp/seedrun-$P.log) $(grep -m1 -o 'no-failing-input-found' /var/tmp/seedrun-$P.log)"
grep '^VIOLATION' /var/tmp/seedrun-$P.log | head -3
