#!/bin/bash
# (Re)generate coq/_CoqProject from the .v files present; rewrite only when the list changed.
cd "$(dirname "$0")/../coq"
{ echo "-Q . MV"; find . -name '*.v' -not -path './scratch/*' | sed 's|^\./||' | LC_ALL=C sort; } > _CoqProject.new
if cmp -s _CoqProject.new _CoqProject; then rm _CoqProject.new; else mv _CoqProject.new _CoqProject; fi
