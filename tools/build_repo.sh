#!/bin/bash
# build_repo.sh <dest> [plain|asan|tsan]
# Copies /repo's CURRENT WORKING TREE (minus build products and .git) to <dest> and builds the
# static libraries there with the verification guard on.  The caller removes <dest>.
set -e
DEST="$1"; VAR="${2:-plain}"
REPO="${VERIF_REPO:-/repo}"
mkdir -p "$DEST"
sync_tree() {
rsync -a --delete --exclude '.git' --exclude '*.o' --exclude '*.a' --exclude '*.map' \
      --exclude '/apps/ssl/client' --exclude '/apps/ssl/server' --exclude '/apps/dtls/dtlsClient' \
      --exclude '/apps/dtls/dtlsServer' --exclude '/crypto/test/*Test' --exclude '/crypto/test/cryptoOpen' \
      --exclude '/matrixssl/test/sslTest' --exclude '/matrixssl/test/certValidate' \
      "$REPO"/ "$DEST"/
}
# rsync exit 24 = "some files vanished" (someone edited the tree during the copy): copy again
sync_tree || { rc=$?; if [ $rc -eq 24 ]; then sleep 1; sync_tree || [ $? -eq 24 ]; else exit $rc; fi; }
cd "$DEST"
EXTRA="-DMATRIXSSL_VERIF"
case "$VAR" in
  plain) ;;
  asan)  EXTRA="$EXTRA -fsanitize=address,undefined -fno-sanitize-recover=undefined -fno-omit-frame-pointer -g" ;;
  tsan)  EXTRA="$EXTRA -fsanitize=thread -g" ;;
esac
make check-config >/dev/null 2>&1 || true
if ! make libs -j16 CFLAGS_EXTRA="$EXTRA" > "$DEST/verif-build.log" 2>&1; then
  echo "BUILD FAILED (see $DEST/verif-build.log)"; tail -30 "$DEST/verif-build.log"; exit 2
fi
test -f matrixssl/libssl_s.a && test -f crypto/libcrypt_s.a && test -f core/libcore_s.a
