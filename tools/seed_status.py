#!/usr/bin/env python3
"""Run the registered check(s) against every stored seeded change (applied to /repo, undone straight afterwards) and record the
verdict in seeded/<id>/meta.json.  usage: seed_status.py [seed-id ...]   (extra checks per seed: EXTRA below)"""
import json, os, subprocess, sys, re
V = os.path.dirname(os.path.dirname(os.path.abspath(__file__)))
EXTRA = {"C05-8": ["C04"], "C02-7": ["C16"], "C02-8": ["C16"], "C04-5": ["C03"], "C10-5": ["C02"], "C01-2": ["C02"], "C02-2": ["C16"], "C04-1": ["C06"], "C04-2": ["C03"]}        # seeds that a neighbouring property's check is expected to see as well
ids = sys.argv[1:] or sorted(os.listdir(V + "/seeded"))
for sid in ids:
    d = os.path.join(V, "seeded", sid)
    mp = os.path.join(d, "meta.json")
    if not os.path.exists(mp):
        continue
    meta = json.load(open(mp))
    res = {}
    for prop in [meta["property"]] + EXTRA.get(sid, []):
        # a scratch worktree of /repo HEAD carries the change (other work keeps using /repo undisturbed); removed straight afterwards
        wt = "/var/tmp/seedwt-%s-%d" % (sid, os.getpid())
        subprocess.check_call(["git", "-C", "/repo", "worktree", "add", "-q", "--detach", wt, "HEAD"])
        try:
            if subprocess.call(["git", "-C", wt, "apply", d + "/patch.diff"], stderr=subprocess.DEVNULL) != 0:
                res[prop] = {"applies": False}; continue
            p = subprocess.run([V + "/check", prop], capture_output=True, text=True, timeout=3000, env=dict(os.environ, VERIF_REPO=wt))
        finally:
            subprocess.call(["git", "-C", "/repo", "worktree", "remove", "--force", wt])
        viol = [l for l in p.stdout.splitlines() if l.startswith("VIOLATION")]
        sigs = []
        for l in viol[:3]:
            m = re.search(r"replay=(\S+)", l)
            if m and os.path.exists(m.group(1)):
                rp = json.load(open(m.group(1)))
                sigs.append((rp.get("replay", {}).get("signature") or rp.get("what", ""))[:160])
        res[prop] = {"applies": True, "exit": p.returncode, "violations": len(viol),
                     "no_failing_input_found_only": bool(viol) and all("no-failing-input-found" in l for l in viol), "first_signatures": sigs}
    meta["check_results"] = res
    meta["detected"] = any(r.get("exit") == 1 for r in res.values())
    json.dump(meta, open(mp, "w"), indent=1)
    print(sid, "detected" if meta["detected"] else "MISSED", {k: (v.get("exit"), v.get("violations")) for k, v in res.items()})
