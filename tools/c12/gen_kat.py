#!/usr/bin/env python3
"""One-time generator of coq/Crypto/CryptoKAT.v: the standards' published vectors as `Example ... vm_compute`.
Every expected value is asserted against the published hex string before it is written."""
import hashlib, hmac, sys
def L(b): return "[" + "; ".join(str(x) for x in b) + "]"
def hkdf_expand(h, prk, info, n):
    t=b""; okm=b""; i=1
    while len(okm)<n:
        t=hmac.new(prk, t+info+bytes([i]), h).digest(); okm+=t; i+=1
    return okm[:n]
ex=[]
def E(name, lhs, val, pub=None, wrap="%s"):
    if pub is not None: assert val.hex()==pub, name
    ex.append("Example %s :\n  %s\n  = %s.\nProof. vm_compute. reflexivity. Qed.\n" % (name, lhs, wrap % L(val)))
abc=b"abc"; m56=b"abcdbcdecdefdefgefghfghighijhijkijkljklmklmnlmnomnopnopq"
m112=b"abcdefghbcdefghicdefghijdefghijkefghijklfghijklmghijklmnhijklmnoijklmnopjklmnopqklmnopqrlmnopqrsmnopqrstnopqrstu"
E("kat_sha256_abc", "sha256_spec %s"%L(abc), hashlib.sha256(abc).digest(), "ba7816bf8f01cfea414140de5dae2223b00361a396177a9cb410ff61f20015ad")
E("kat_sha256_empty", "sha256_spec []", hashlib.sha256(b"").digest(), "e3b0c44298fc1c149afbf4c8996fb92427ae41e4649b934ca495991b7852b855")
E("kat_sha256_two_blocks", "sha256_spec %s"%L(m56), hashlib.sha256(m56).digest(), "248d6a61d20638b8e5c026930c3e6039a33ce45964ff2167f6ecedd419db06c1")
E("kat_sha1_abc", "sha1_spec %s"%L(abc), hashlib.sha1(abc).digest(), "a9993e364706816aba3e25717850c26c9cd0d89d")
E("kat_sha1_empty", "sha1_spec []", hashlib.sha1(b"").digest(), "da39a3ee5e6b4b0d3255bfef95601890afd80709")
E("kat_sha1_two_blocks", "sha1_spec %s"%L(m56), hashlib.sha1(m56).digest(), "84983e441c3bd26ebaae4aa1f95129e5e54670f1")
E("kat_sha384_abc", "sha384_spec %s"%L(abc), hashlib.sha384(abc).digest(), "cb00753f45a35e8bb5a03d699ac65007272c32ab0eded1631a8b605a43ff5bed8086072ba1e7cc2358baeca134c825a7")
E("kat_sha384_two_blocks", "sha384_spec %s"%L(m112), hashlib.sha384(m112).digest(), "09330c33f71147e83d192fc782cd1b4753111b173b3b05d22fa08086e3b0f712fcc7c71a557e2db966c3e9fa91746039")
E("kat_sha512_abc", "sha512_spec %s"%L(abc), hashlib.sha512(abc).digest(), "ddaf35a193617abacc417349ae20413112e6fa4e89a97ea20a9eeee64b55d39a2192992a274fc1a836ba3c23a3feebbd454d4423643ce80e2a9ac94fa54ca49f")
E("kat_sha512_two_blocks", "sha512_spec %s"%L(m112), hashlib.sha512(m112).digest(), "8e959b75dae313da8cf4f72814fc143f8f7779c6eb9f7fa17299aeadb6889018501d289e4900f7e4331b99dec4b5433ac7d329eeb6dd26545e96e55b874be909")
E("kat_md5_empty", "md5_spec []", hashlib.md5(b"").digest(), "d41d8cd98f00b204e9800998ecf8427e")
E("kat_md5_abc", "md5_spec %s"%L(abc), hashlib.md5(abc).digest(), "900150983cd24fb0d6963f7d28e17f72")
al=b"abcdefghijklmnopqrstuvwxyz"
E("kat_md5_alphabet", "md5_spec %s"%L(al), hashlib.md5(al).digest(), "c3fcd3d76192e4007dfb496cca67e13b")
k1=b"\x0b"*20; d1=b"Hi There"; k2=b"Jefe"; d2=b"what do ya want for nothing?"
E("kat_hmac_sha256_rfc4231_1", "hmac_sha256_spec %s %s"%(L(k1),L(d1)), hmac.new(k1,d1,"sha256").digest(), "b0344c61d8db38535ca8afceaf0bf12b881dc200c9833da726e9376c2e32cff7")
E("kat_hmac_sha256_rfc4231_2", "hmac_sha256_spec %s %s"%(L(k2),L(d2)), hmac.new(k2,d2,"sha256").digest(), "5bdcc146bf60754e6a042426089575c75a003f089d2739839dec58b964ec3843")
E("kat_hmac_sha384_rfc4231_1", "hmac_sha384_spec %s %s"%(L(k1),L(d1)), hmac.new(k1,d1,"sha384").digest(), "afd03944d84895626b0825f4ab46907f15f9dadbe4101ec682aa034c7cebc59cfaea9ea9076ede7f4af152e8b2fa9cb6")
k6=b"\xaa"*131; d6=b"Test Using Larger Than Block-Size Key - Hash Key First"
E("kat_hmac_sha256_rfc4231_6_long_key", "hmac_sha256_spec (repeat 170 131%%nat) %s"%L(d6), hmac.new(k6,d6,"sha256").digest(), "60e431591ee0b67f0d8a26aacbf5b77f8e0bc6213728c5140546040f0ee37f54")
E("kat_hmac_sha384_rfc4231_6_long_key", "hmac_sha384_spec (repeat 170 131%%nat) %s"%L(d6), hmac.new(k6,d6,"sha384").digest(), "4ece084485813e9088d2c63a041bc5b44f9ef1012a2b588f3cd11f05033ac4c60c2ef6ab4030fe8296248df163f44952")
E("kat_hmac_sha1_rfc2202_1", "hmac_sha1_spec %s %s"%(L(k1),L(d1)), hmac.new(k1,d1,"sha1").digest(), "b617318655057264e28bc0b6fb378c8ef146be00")
k80=b"\xaa"*80
E("kat_hmac_sha1_rfc2202_6_long_key", "hmac_sha1_spec (repeat 170 80%%nat) %s"%L(d6), hmac.new(k80,d6,"sha1").digest(), "aa4ae5e15272d00e95705637ce8a3b55ed402112")
E("kat_hmac_md5_rfc2202_6_long_key", "hmac_md5_spec (repeat 170 80%%nat) %s"%L(d6), hmac.new(k80,d6,"md5").digest(), "6b1ab7fe4bd7bf8f0b62e6ce61b9d0cd")
ikm=b"\x0b"*22; salt=bytes(range(13)); info=bytes(range(0xf0,0xfa))
prk=hmac.new(salt,ikm,"sha256").digest()
E("kat_hkdf_extract_rfc5869_a1", "hkdf_extract_sha256_spec %s %s"%(L(salt),L(ikm)), prk, "077709362c2e32df0ddc3f0dc47bba6390b6c73bb50f9c3122ec844ad7c2b3e5")
E("kat_hkdf_expand_rfc5869_a1", "hkdf_expand_sha256_spec %s %s 42%%nat"%(L(prk),L(info)), hkdf_expand("sha256",prk,info,42), "3cb25f25faacd57a90434f64d0362f2a2d2d0a90cf1a5a4c5db02d56ecc4c5bf34007208d5b887185865")
E("kat_pbkdf2_rfc6070_1", "pbkdf2_sha1_spec %s %s 1%%nat 20%%nat"%(L(b"password"),L(b"salt")), hashlib.pbkdf2_hmac("sha1",b"password",b"salt",1,20), "0c60c80f961f0e71f3a9b524af6012062fe037a6")
E("kat_pbkdf2_rfc6070_2", "pbkdf2_sha1_spec %s %s 2%%nat 20%%nat"%(L(b"password"),L(b"salt")), hashlib.pbkdf2_hmac("sha1",b"password",b"salt",2,20), "ea6c014dc72d6f8ccd1ed92ace1d41f0d8de8957")
pw65=bytes((i*3+5)&255 for i in range(65))
ex.append("(* the (fixed) streaming-HMAC based PBKDF2 model on a 65-byte password - the input that crashes the unfixed library *)")
E("kat_model_pbkdf2_65_byte_password", "pbkdf2_sha1 %s %s 2%%Z 25%%nat"%(L(pw65),L(b"salt")), hashlib.pbkdf2_hmac("sha1",pw65,b"salt",2,25), None, "Ok %s")
EXTRA = open(sys.argv[1]).read() if len(sys.argv) > 1 else ""
print("""(* C12 - known answers from the standards (FIPS 180-4 examples, RFC 1321 A.5, RFC 2202, RFC 4231,
   RFC 5869 A.1, RFC 6070, FIPS 197, SP 800-38A, SP 800-38D test cases, RFC 8439) evaluated on the
   Gallina specifications by the kernel's vm.  Generated by tools/c12/gen_kat.py from the published
   vectors; kept small enough to compile in seconds. *)
From Coq Require Import List NArith ZArith.
From MV Require Import Crypto.CryptoPrims Crypto.CryptoSpec Crypto.CryptoModel.
Import ListNotations.
Local Open Scope N_scope.
""")
print("\n".join(ex))
print(EXTRA)
