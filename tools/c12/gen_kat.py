#!/usr/bin/env python3
"""One-time generator of coq/Crypto/CryptoKAT.v: the standards' published vectors as `Example ... vm_compute`.
Every expected value is asserted against the published hex string before it is written."""
import hashlib, hmac, sys
def L(b): return "[" + "; ".join(str(x) for x in b) + "]"
def hkdf_expand(h, prk, info, n):
    t=b""; okm=b""; i=1
    while len(okm)<n:
        t=hmac.new(prk, t+info+bytes([i]), h).digest(); okm+=t; i+=1
    return okm[:n]
ex=[]
def E(name, lhs, val, pub=None, wrap="%s"):
    if pub is not None: assert val.hex()==pub, name
    ex.append("Example %s :\n  %s\n  = %s.\nProof. vm_compute. reflexivity. Qed.\n" % (name, lhs, wrap % L(val)))
abc=b"abc"; m56=b"abcdbcdecdefdefgefghfghighijhijkijkljklmklmnlmnomnopnopq"
m112=b"abcdefghbcdefghicdefghijdefghijkefghijklfghijklmghijklmnhijklmnoijklmnopjklmnopqklmnopqrlmnopqrsmnopqrstnopqrstu"
E("kat_sha256_abc", "sha256_spec %s"%L(abc), hashlib.sha256(abc).digest(), "ba7816bf8f01cfea414140de5dae2223b00361a396177a9cb410ff61f20015ad")
E("kat_sha256_empty", "sha256_spec []", hashlib.sha256(b"").digest(), "e3b0c44298fc1c149afbf4c8996fb92427ae41e4649b934ca495991b7852b855")
E("kat_sha256_two_blocks", "sha256_spec %s"%L(m56), hashlib.sha256(m56).digest(), "248d6a61d20638b8e5c026930c3e6039a33ce45964ff2167f6ecedd419db06c1")
E("kat_sha1_abc", "sha1_spec %s"%L(abc), hashlib.sha1(abc).digest(), "a9993e364706816aba3e25717850c26c9cd0d89d")
E("kat_sha1_empty", "sha1_spec []", hashlib.sha1(b"").digest(), "da39a3ee5e6b4b0d3255bfef95601890afd80709")
E("kat_sha1_two_blocks", "sha1_spec %s"%L(m56), hashlib.sha1(m56).digest(), "84983e441c3bd26ebaae4aa1f95129e5e54670f1")
E("kat_sha384_abc", "sha384_spec %s"%L(abc), hashlib.sha384(abc).digest(), "cb00753f45a35e8bb5a03d699ac65007272c32ab0eded1631a8b605a43ff5bed8086072ba1e7cc2358baeca134c825a7")
E("kat_sha384_two_blocks", "sha384_spec %s"%L(m112), hashlib.sha384(m112).digest(), "09330c33f71147e83d192fc782cd1b4753111b173b3b05d22fa08086e3b0f712fcc7c71a557e2db966c3e9fa91746039")
E("kat_sha512_abc", "sha512_spec %s"%L(abc), hashlib.sha512(abc).digest(), "ddaf35a193617abacc417349ae20413112e6fa4e89a97ea20a9eeee64b55d39a2192992a274fc1a836ba3c23a3feebbd454d4423643ce80e2a9ac94fa54ca49f")
E("kat_sha512_two_blocks", "sha512_spec %s"%L(m112), hashlib.sha512(m112).digest(), "8e959b75dae313da8cf4f72814fc143f8f7779c6eb9f7fa17299aeadb6889018501d289e4900f7e4331b99dec4b5433ac7d329eeb6dd26545e96e55b874be909")
E("kat_md5_empty", "md5_spec []", hashlib.md5(b"").digest(), "d41d8cd98f00b204e9800998ecf8427e")
E("kat_md5_abc", "md5_spec %s"%L(abc), hashlib.md5(abc).digest(), "900150983cd24fb0d6963f7d28e17f72")
al=b"abcdefghijklmnopqrstuvwxyz"
E("kat_md5_alphabet", "md5_spec %s"%L(al), hashlib.md5(al).digest(), "c3fcd3d76192e4007dfb496cca67e13b")
k1=b"\x0b"*20; d1=b"Hi There"; k2=b"Jefe"; d2=b"what do ya want for nothing?"
E("kat_hmac_sha256_rfc4231_1", "hmac_sha256_spec %s %s"%(L(k1),L(d1)), hmac.new(k1,d1,"sha256").digest(), "b0344c61d8db38535ca8afceaf0bf12b881dc200c9833da726e9376c2e32cff7")
E("kat_hmac_sha256_rfc4231_2", "hmac_sha256_spec %s %s"%(L(k2),L(d2)), hmac.new(k2,d2,"sha256").digest(), "5bdcc146bf60754e6a042426089575c75a003f089d2739839dec58b964ec3843")
E("kat_hmac_sha384_rfc4231_1", "hmac_sha384_spec %s %s"%(L(k1),L(d1)), hmac.new(k1,d1,"sha384").digest(), "afd03944d84895626b0825f4ab46907f15f9dadbe4101ec682aa034c7cebc59cfaea9ea9076ede7f4af152e8b2fa9cb6")
k6=b"\xaa"*131; d6=b"Test Using Larger Than Block-Size Key - Hash Key First"
E("kat_hmac_sha256_rfc4231_6_long_key", "hmac_sha256_spec (repeat 170 131%%nat) %s"%L(d6), hmac.new(k6,d6,"sha256").digest(), "60e431591ee0b67f0d8a26aacbf5b77f8e0bc6213728c5140546040f0ee37f54")
E("kat_hmac_sha384_rfc4231_6_long_key", "hmac_sha384_spec (repeat 170 131%%nat) %s"%L(d6), hmac.new(k6,d6,"sha384").digest(), "4ece084485813e9088d2c63a041bc5b44f9ef1012a2b588f3cd11f05033ac4c60c2ef6ab4030fe8296248df163f44952")
E("kat_hmac_sha1_rfc2202_1", "hmac_sha1_spec %s %s"%(L(k1),L(d1)), hmac.new(k1,d1,"sha1").digest(), "b617318655057264e28bc0b6fb378c8ef146be00")
k80=b"\xaa"*80
E("kat_hmac_sha1_rfc2202_6_long_key", "hmac_sha1_spec (repeat 170 80%%nat) %s"%L(d6), hmac.new(k80,d6,"sha1").digest(), "aa4ae5e15272d00e95705637ce8a3b55ed402112")
E("kat_hmac_md5_rfc2202_6_long_key", "hmac_md5_spec (repeat 170 80%%nat) %s"%L(d6), hmac.new(k80,d6,"md5").digest(), "6b1ab7fe4bd7bf8f0b62e6ce61b9d0cd")
ikm=b"\x0b"*22; salt=bytes(range(13)); info=bytes(range(0xf0,0xfa))
prk=hmac.new(salt,ikm,"sha256").digest()
E("kat_hkdf_extract_rfc5869_a1", "hkdf_extract_sha256_spec %s %s"%(L(salt),L(ikm)), prk, "077709362c2e32df0ddc3f0dc47bba6390b6c73bb50f9c3122ec844ad7c2b3e5")
E("kat_hkdf_expand_rfc5869_a1", "hkdf_expand_sha256_spec %s %s 42%%nat"%(L(prk),L(info)), hkdf_expand("sha256",prk,info,42), "3cb25f25faacd57a90434f64d0362f2a2d2d0a90cf1a5a4c5db02d56ecc4c5bf34007208d5b887185865")
E("kat_pbkdf2_rfc6070_1", "pbkdf2_sha1_spec %s %s 1%%nat 20%%nat"%(L(b"password"),L(b"salt")), hashlib.pbkdf2_hmac("sha1",b"password",b"salt",1,20), "0c60c80f961f0e71f3a9b524af6012062fe037a6")
E("kat_pbkdf2_rfc6070_2", "pbkdf2_sha1_spec %s %s 2%%nat 20%%nat"%(L(b"password"),L(b"salt")), hashlib.pbkdf2_hmac("sha1",b"password",b"salt",2,20), "ea6c014dc72d6f8ccd1ed92ace1d41f0d8de8957")
pw65=bytes((i*3+5)&255 for i in range(65))
ex.append("(* the (fixed) streaming-HMAC based PBKDF2 model on a 65-byte password - the input that crashes the unfixed library *)")
E("kat_model_pbkdf2_65_byte_password", "pbkdf2_sha1 %s %s 2%%Z 25%%nat"%(L(pw65),L(b"salt")), hashlib.pbkdf2_hmac("sha1",pw65,b"salt",2,25), None, "Ok %s")

# ---------------------------------------------------------------- symmetric: published vectors, literal
def H(h): return L(bytes.fromhex(h))
sym=[]
def S(name, lhs, rhs): sym.append("Example %s :\n  %s\n  = %s.\nProof. vm_compute. reflexivity. Qed.\n" % (name, lhs, rhs))
pt197="00112233445566778899aabbccddeeff"
S("kat_aes128_fips197_c1", "aes_encrypt_block %s %s"%(H("000102030405060708090a0b0c0d0e0f"),H(pt197)), H("69c4e0d86a7b0430d8cdb78070b4c55a"))
S("kat_aes192_fips197_c2", "aes_encrypt_block %s %s"%(H("000102030405060708090a0b0c0d0e0f1011121314151617"),H(pt197)), H("dda97ca4864cdfe06eaf70a0ec0d7191"))
S("kat_aes256_fips197_c3", "aes_encrypt_block %s %s"%(H("000102030405060708090a0b0c0d0e0f101112131415161718191a1b1c1d1e1f"),H(pt197)), H("8ea2b7ca516745bfeafc49904b496089"))
S("kat_aes128_inv_fips197_c1", "aes_decrypt_block %s %s"%(H("000102030405060708090a0b0c0d0e0f"),H("69c4e0d86a7b0430d8cdb78070b4c55a")), H(pt197))
S("kat_aes256_inv_fips197_c3", "aes_decrypt_block %s %s"%(H("000102030405060708090a0b0c0d0e0f101112131415161718191a1b1c1d1e1f"),H("8ea2b7ca516745bfeafc49904b496089")), H(pt197))
k38="2b7e151628aed2a6abf7158809cf4f3c"; iv38="000102030405060708090a0b0c0d0e0f"
p38="6bc1bee22e409f96e93d7e117393172aae2d8a571e03ac9c9eb76fac45af8e51"; c38="7649abac8119b246cee98e9b12e9197d5086cb9b507219ee95db113a917678b2"
S("kat_cbc_aes128_sp800_38a_f21", "aes_cbc_encrypt_spec %s %s %s"%(H(k38),H(iv38),H(p38)), H(c38))
S("kat_cbc_aes128_sp800_38a_f22", "aes_cbc_decrypt_spec %s %s %s"%(H(k38),H(iv38),H(c38)), H(p38))
z16="00"*16; z12="00"*12
S("kat_gcm_test_case_1", "aes_gcm_encrypt_spec %s %s [] [] 16%%nat"%(H(z16),H(z12)), "([], %s)"%H("58e2fccefa7e3061367f1d57a4e7455a"))
S("kat_gcm_test_case_2", "aes_gcm_encrypt_spec %s %s [] %s 16%%nat"%(H(z16),H(z12),H(z16)), "(%s, %s)"%(H("0388dace60b6a392f328c2b971b2fe78"),H("ab6e47d42cec13bdf53a67b21257bddf")))
k4="feffe9928665731c6d6a8f9467308308"; iv4="cafebabefacedbaddecaf888"
p4="d9313225f88406e5a55909c5aff5269a86a7a9531534f7da2e4c303d8a318a721c3c0c95956809532fcf0e2449a6b525b16aedf5aa0de657ba637b39"
a4="feedfacedeadbeeffeedfacedeadbeefabaddad2"
c4="42831ec2217774244b7221b784d0d49ce3aa212f2c02a4e035c17e2329aca12e21d514b25466931c7d8f6a5aac84aa051ba30b396a0aac973d58e091"
S("kat_gcm_test_case_4", "aes_gcm_encrypt_spec %s %s %s %s 16%%nat"%(H(k4),H(iv4),H(a4),H(p4)), "(%s, %s)"%(H(c4),H("5bc94fbc3221a5db94fae95ae7121a47")))
S("kat_gcm_test_case_4_decrypt", "aes_gcm_decrypt_spec %s %s %s %s %s"%(H(k4),H(iv4),H(a4),H(c4),H("5bc94fbc3221a5db94fae95ae7121a47")), "Some %s"%H(p4))
S("kat_gcm_test_case_4_decrypt_bad_tag", "aes_gcm_decrypt_spec %s %s %s %s %s"%(H(k4),H(iv4),H(a4),H(c4),H("5bc94fbc3221a5db94fae95ae7121a46")), "None")
kc="000102030405060708090a0b0c0d0e0f101112131415161718191a1b1c1d1e1f"
S("kat_chacha20_block_rfc8439_232", "chacha20_block %s 1 %s"%(H(kc),H("000000090000004a00000000")),
  H("10f1e7e4d13b5915500fdd1fa32071c4c7d1f4c733c068030422aa9ac3d46c4ed2826446079faa0914c2d705d98b02a2b5129cd1de164eb9cbd083e8a2503c4e"))
S("kat_poly1305_rfc8439_252", "poly1305_mac %s %s"%(H("85d6be7857556d337f4452fe42d506a80103808afb0db2fd4abff6af4149f51b"),L(b"Cryptographic Forum Research Group")), H("a8061dc1305136c6c22b8baf0c0127a9"))
sun=b"Ladies and Gentlemen of the class of '99: If I could offer you only one tip for the future, sunscreen would be it."
ka="808182838485868788898a8b8c8d8e8f909192939495969798999a9b9c9d9e9f"; na="070000004041424344454647"; aa="50515253c0c1c2c3c4c5c6c7"
ca="d31a8d34648e60db7b86afbc53ef7ec2a4aded51296e08fea9e2b5a736ee62d63dbea45e8ca9671282fafb69da92728b1a71de0a9e060b2905d6a5b67ecd3b3692ddbd7f2d778b8c9803aee328091b58fab324e4fad675945585808b4831d7bc3ff4def08e4b7a9de576d26586cec64b6116"
S("kat_chachapoly_seal_rfc8439_282", "chachapoly_seal_spec %s %s %s %s"%(H(ka),H(na),H(aa),L(sun)), H(ca+"1ae10b594f09e26a7e902ecbd0600691"))
S("kat_chachapoly_open_rfc8439_282", "chachapoly_open_spec %s %s %s %s"%(H(ka),H(na),H(aa),H(ca+"1ae10b594f09e26a7e902ecbd0600691")), "Some %s"%L(sun))


# ---------------------------------------------------------------- DES / TDEA (FIPS 46-3, SP 800-67, NBS SP 500-20 style sets)
import os as _os
sys.path.insert(0, _os.path.dirname(_os.path.abspath(__file__)))
import des_ref as DR
def T3(k, p, c): return "(%s, %s, %s)" % (L(k), L(p), L(c))
pub = [("133457799BBCDFF1","0123456789ABCDEF","85E813540F0AB405"), ("0101010101010101","8000000000000000","95F8A5E5DD31D900"),
       ("0101010101010101","4000000000000000","DD7F121CA5015619"), ("8001010101010101","0000000000000000","95A8D72813DAA94D"),
       ("1046913489980131","0000000000000000","88D55E54F54C97B4"), ("7CA110454A1A6E57","01A1D6D039776742","690F5B0D9A26939B")]
for k,p_,c in pub: assert DR.des_block(bytes.fromhex(k), bytes.fromhex(p_)).hex().upper() == c
rows = [(bytes.fromhex(k), bytes.fromhex(p_), bytes.fromhex(c)) for k,p_,c in pub]
k01 = bytes([1]*8)
for i in range(64):                                   # variable plaintext known answer test
    pt = (1 << (63 - i)).to_bytes(8, "big"); rows.append((k01, pt, DR.des_block(k01, pt)))
for i in range(64):                                   # variable key known answer test (non-parity bits)
    if i % 8 == 7: continue
    k = bytes(a | b for a, b in zip(k01, (1 << (63 - i)).to_bytes(8, "big"))); rows.append((k, bytes(8), DR.des_block(k, bytes(8))))
import random as _r
rr = _r.Random(12)
for k in ("0101010101010101","FEFEFEFEFEFEFEFE","E0E0E0E0F1F1F1F1","1F1F1F1F0E0E0E0E","01FE01FE01FE01FE","E01FE01FF10EF10E"):   # weak / semi-weak keys
    pt = bytes(rr.getrandbits(8) for _ in range(8)); rows.append((bytes.fromhex(k), pt, DR.des_block(bytes.fromhex(k), pt)))
for _ in range(24):
    k = bytes(rr.getrandbits(8) for _ in range(8)); pt = bytes(rr.getrandbits(8) for _ in range(8)); rows.append((k, pt, DR.des_block(k, pt)))
sym.append("(* single DES: published vectors first (FIPS 46 worked example, NBS variable-plaintext / variable-key / permutation / substitution\n   samples), then the full variable-plaintext and variable-key sets, weak and semi-weak keys and random keys (values from tools/c12/des_ref.py,\n   itself checked against the published ones and the openssl CLI).  Each row is checked in both directions on the FIPS 46-3 specification\n   AND on the code-shaped deskey/cookey/desfunc model - the known-answer tie for the hypothesis single_des_is_fips46 *)")
sym.append("Definition des_kat_rows : list (list N * list N * list N) := [\n  " + ";\n  ".join(T3(*r) for r in rows) + "].\n")
sym.append("""Definition des_kat_row_ok (r : list N * list N * list N) : bool :=
  let '(k, p, c) := r in
  bytes_eqb (des_block false k p) c && bytes_eqb (des_block true k c) p &&
  bytes_eqb (store_block (c_desfunc (c_deskey k false) (load_block p))) c &&
  bytes_eqb (store_block (c_desfunc (c_deskey k true) (load_block c))) p.
Example kat_des_spec_and_model_rows : forallb des_kat_row_ok des_kat_rows = true.
Proof. vm_compute. reflexivity. Qed.
Example kat_des_rows_count : length des_kat_rows = %d%%nat.
Proof. reflexivity. Qed.
""" % len(rows))
k3 = "0123456789ABCDEF23456789ABCDEF01456789ABCDEF0123"
for i,(p_,c) in enumerate((("5468652071756663","A826FD8CE53B855F"),("6B2062726F776E20","CCE21C8112256FE6"),("666F78206A756D70","68D5C05DD9B6B900"))):
    S("kat_tdea_sp800_67_b1_%d"%(i+1), "des3_encrypt_block_spec %s %s"%(H(k3),H(p_)), H(c))
    S("kat_tdea_sp800_67_b1_%d_decrypt"%(i+1), "des3_decrypt_block_spec %s %s"%(H(k3),H(c)), H(p_))
    S("kat_model_tdea_sp800_67_b1_%d"%(i+1), "ps_des3_encrypt_block (ps_des3_init_key %s) %s"%(H(k3),H(p_)), H(c))
    S("kat_model_tdea_sp800_67_b1_%d_decrypt"%(i+1), "ps_des3_decrypt_block (ps_des3_init_key %s) %s"%(H(k3),H(c)), H(p_))
kc = bytes.fromhex("0123456789abcdeffedcba987654321089abcdef01234567"); ivc = bytes.fromhex("1234567890abcdef")
ptc = b"Now is the time for all good men to come to aid."[:48]
ctc = DR.des3_cbc(kc, ivc, ptc)
S("kat_des3_cbc_three_key", "des3_cbc_encrypt_spec %s %s %s"%(L(kc),L(ivc),L(ptc)), L(ctc))
S("kat_des3_cbc_three_key_decrypt", "des3_cbc_decrypt_spec %s %s %s"%(L(kc),L(ivc),L(ctc)), L(ptc))
S("kat_model_des3_cbc_three_key_split_inplace", "fst (ps_des3_decrypt_calls %s true %s [%s; %s])"%(L(kc),L(ivc),L(ctc[:16]),L(ctc[16:])), L(ptc))

EXTRA = "\n".join(sym)
print("""(* C12 - known answers from the standards (FIPS 180-4 examples, RFC 1321 A.5, RFC 2202, RFC 4231,
   RFC 5869 A.1, RFC 6070, FIPS 197, SP 800-38A, SP 800-38D test cases, RFC 8439) evaluated on the
   Gallina specifications by the kernel's vm.  Generated by tools/c12/gen_kat.py from the published
   vectors; kept small enough to compile in seconds. *)
From Coq Require Import List NArith ZArith.
From MV Require Import Crypto.CryptoPrims Crypto.CryptoSpec Crypto.CryptoModel Crypto.CryptoSym
                       Crypto.CryptoDes Crypto.CryptoDesModel.
Import ListNotations.
Local Open Scope N_scope.
""")
print("\n".join(ex))
print(EXTRA)
