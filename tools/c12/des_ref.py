"""Pure-Python DES / TDEA reference (FIPS 46-3, SP 800-67) - the tables are the standard's, written out once here;
used by props/C12.py as the independent oracle and by gen_des.py to print the same tables as Gallina."""
IP = [58,50,42,34,26,18,10,2,60,52,44,36,28,20,12,4,62,54,46,38,30,22,14,6,64,56,48,40,32,24,16,8,
      57,49,41,33,25,17,9,1,59,51,43,35,27,19,11,3,61,53,45,37,29,21,13,5,63,55,47,39,31,23,15,7]
FP = [40,8,48,16,56,24,64,32,39,7,47,15,55,23,63,31,38,6,46,14,54,22,62,30,37,5,45,13,53,21,61,29,
      36,4,44,12,52,20,60,28,35,3,43,11,51,19,59,27,34,2,42,10,50,18,58,26,33,1,41,9,49,17,57,25]
E = [32,1,2,3,4,5,4,5,6,7,8,9,8,9,10,11,12,13,12,13,14,15,16,17,16,17,18,19,20,21,20,21,22,23,24,25,
     24,25,26,27,28,29,28,29,30,31,32,1]
P = [16,7,20,21,29,12,28,17,1,15,23,26,5,18,31,10,2,8,24,14,32,27,3,9,19,13,30,6,22,11,4,25]
PC1 = [57,49,41,33,25,17,9,1,58,50,42,34,26,18,10,2,59,51,43,35,27,19,11,3,60,52,44,36,
       63,55,47,39,31,23,15,7,62,54,46,38,30,22,14,6,61,53,45,37,29,21,13,5,28,20,12,4]
PC2 = [14,17,11,24,1,5,3,28,15,6,21,10,23,19,12,4,26,8,16,7,27,20,13,2,
       41,52,31,37,47,55,30,40,51,45,33,48,44,49,39,56,34,53,46,42,50,36,29,32]
SHIFTS = [1,1,2,2,2,2,2,2,1,2,2,2,2,2,2,1]
SBOX = [
 [14,4,13,1,2,15,11,8,3,10,6,12,5,9,0,7, 0,15,7,4,14,2,13,1,10,6,12,11,9,5,3,8,
  4,1,14,8,13,6,2,11,15,12,9,7,3,10,5,0, 15,12,8,2,4,9,1,7,5,11,3,14,10,0,6,13],
 [15,1,8,14,6,11,3,4,9,7,2,13,12,0,5,10, 3,13,4,7,15,2,8,14,12,0,1,10,6,9,11,5,
  0,14,7,11,10,4,13,1,5,8,12,6,9,3,2,15, 13,8,10,1,3,15,4,2,11,6,7,12,0,5,14,9],
 [10,0,9,14,6,3,15,5,1,13,12,7,11,4,2,8, 13,7,0,9,3,4,6,10,2,8,5,14,12,11,15,1,
  13,6,4,9,8,15,3,0,11,1,2,12,5,10,14,7, 1,10,13,0,6,9,8,7,4,15,14,3,11,5,2,12],
 [7,13,14,3,0,6,9,10,1,2,8,5,11,12,4,15, 13,8,11,5,6,15,0,3,4,7,2,12,1,10,14,9,
  10,6,9,0,12,11,7,13,15,1,3,14,5,2,8,4, 3,15,0,6,10,1,13,8,9,4,5,11,12,7,2,14],
 [2,12,4,1,7,10,11,6,8,5,3,15,13,0,14,9, 14,11,2,12,4,7,13,1,5,0,15,10,3,9,8,6,
  4,2,1,11,10,13,7,8,15,9,12,5,6,3,0,14, 11,8,12,7,1,14,2,13,6,15,0,9,10,4,5,3],
 [12,1,10,15,9,2,6,8,0,13,3,4,14,7,5,11, 10,15,4,2,7,12,9,5,6,1,13,14,0,11,3,8,
  9,14,15,5,2,8,12,3,7,0,4,10,1,13,11,6, 4,3,2,12,9,5,15,10,11,14,1,7,6,0,8,13],
 [4,11,2,14,15,0,8,13,3,12,9,7,5,10,6,1, 13,0,11,7,4,9,1,10,14,3,5,12,2,15,8,6,
  1,4,11,13,12,3,7,14,10,15,6,8,0,5,9,2, 6,11,13,8,1,4,10,7,9,5,0,15,14,2,3,12],
 [13,2,8,4,6,15,11,1,10,9,3,14,5,0,12,7, 1,15,13,8,10,3,7,4,12,5,6,11,0,14,9,2,
  7,11,4,1,9,12,14,2,0,6,10,13,15,3,5,8, 2,1,14,7,4,10,8,13,15,12,9,0,3,5,6,11]]

def _bits(b): return [(x >> (7 - i)) & 1 for x in b for i in range(8)]
def _bytes(bits): return bytes(sum(bits[8 * i + j] << (7 - j) for j in range(8)) for i in range(len(bits) // 8))
def _perm(t, bits): return [bits[i - 1] for i in t]

def subkeys(key):
    cd = _perm(PC1, _bits(key)); c, d = cd[:28], cd[28:]; ks = []
    for s in SHIFTS:
        c, d = c[s:] + c[:s], d[s:] + d[:s]
        ks.append(_perm(PC2, c + d))
    return ks

def _f(r, k):
    x = [a ^ b for a, b in zip(_perm(E, r), k)]; out = []
    for i in range(8):
        b = x[6 * i:6 * i + 6]
        v = SBOX[i][(b[0] * 2 + b[5]) * 16 + (b[1] * 8 + b[2] * 4 + b[3] * 2 + b[4])]
        out += [(v >> 3) & 1, (v >> 2) & 1, (v >> 1) & 1, v & 1]
    return _perm(P, out)

def des_block(key, blk, decrypt=False):
    ks = subkeys(key)
    if decrypt: ks = ks[::-1]
    x = _perm(IP, _bits(blk)); l, r = x[:32], x[32:]
    for k in ks:
        l, r = r, [a ^ b for a, b in zip(l, _f(r, k))]
    return _bytes(_perm(FP, r + l))

def tdea_encrypt_block(key24, blk):
    k1, k2, k3 = key24[:8], key24[8:16], key24[16:24]
    return des_block(k3, des_block(k2, des_block(k1, blk), True))
def tdea_decrypt_block(key24, blk):
    k1, k2, k3 = key24[:8], key24[8:16], key24[16:24]
    return des_block(k1, des_block(k2, des_block(k3, blk, True)), True)

def des3_cbc(key24, iv, data, decrypt=False):
    out = b""
    for i in range(0, len(data), 8):
        b = data[i:i + 8]
        if decrypt:
            out += bytes(x ^ y for x, y in zip(tdea_decrypt_block(key24, b), iv)); iv = b
        else:
            iv = tdea_encrypt_block(key24, bytes(x ^ y for x, y in zip(b, iv))); out += iv
    return out

if __name__ == "__main__":
    import subprocess, os, shutil
    h = bytes.fromhex
    assert des_block(h("133457799BBCDFF1"), h("0123456789ABCDEF")).hex().upper() == "85E813540F0AB405"
    assert des_block(h("0101010101010101"), h("8000000000000000")).hex().upper() == "95F8A5E5DD31D900"
    assert des_block(h("0101010101010101"), h("4000000000000000")).hex().upper() == "DD7F121CA5015619"
    assert des_block(h("8001010101010101"), h("0000000000000000")).hex().upper() == "95A8D72813DAA94D"
    assert des_block(h("1046913489980131"), h("0000000000000000")).hex().upper() == "88D55E54F54C97B4"
    assert des_block(h("7CA110454A1A6E57"), h("01A1D6D039776742")).hex().upper() == "690F5B0D9A26939B"
    assert des_block(h("133457799BBCDFF1"), h("85E813540F0AB405"), True).hex().upper() == "0123456789ABCDEF"
    if shutil.which("openssl"):
        for _ in range(20):
            k, iv, d = os.urandom(24), os.urandom(8), os.urandom(40)
            p = subprocess.run(["openssl", "enc", "-des-ede3-cbc", "-K", k.hex(), "-iv", iv.hex(), "-nopad"], input=d, capture_output=True)
            assert p.returncode == 0 and p.stdout == des3_cbc(k, iv, d), p.stderr
            assert des3_cbc(k, iv, p.stdout, True) == d
        print("openssl agrees")
    print("des_ref self-test ok")
