#!/usr/bin/env python3
"""Small DER toolkit for the parser checks (C09, also usable by h_chain users).

  * encoder:  enc_len / tlv / seq / set_ / integer / oid / ... (lengths may be forced into any
    long form, including non-minimal ones with leading zeros, or the indefinite form)
  * tolerant decoder:  parse(b) -> tree of Node(tag, hdr, content, children) ; Node.encode()
  * certificate skeleton:  cert(extensions=[...], subject=..., issuer=...) builds a v3 certificate
    around arbitrary extension bytes.  The signature is NOT valid (parse tests only).
  * ASN.1-aware mutation:  mutate(rng, der) -> mutated DER
"""
import base64, re

# ------------------------------------------------------------------------------- encoder
def enc_len(n, form=None):
    """form None: minimal.  form k (1..8): long form with exactly k length bytes (leading zeros if
    needed).  form 'indef': 0x80.  form 0: force short form (n & 0x7f)."""
    if form == "indef":
        return b"\x80"
    if form == 0:
        return bytes([n & 0x7F])
    if form is None:
        if n < 0x80:
            return bytes([n])
        k = (n.bit_length() + 7) // 8
        return bytes([0x80 | k]) + n.to_bytes(k, "big")
    return bytes([0x80 | form]) + (n & ((1 << (8 * form)) - 1)).to_bytes(form, "big")

def tlv(tag, content=b"", form=None, length=None):
    """length overrides the encoded length value (content is appended unchanged)"""
    n = len(content) if length is None else length
    return bytes([tag]) + enc_len(n, form) + content

def seq(*parts, **kw):      return tlv(0x30, b"".join(parts), **kw)
def set_(*parts, **kw):     return tlv(0x31, b"".join(parts), **kw)
def octet(b, **kw):         return tlv(0x04, b, **kw)
def null():                 return b"\x05\x00"
def boolean(v):             return b"\x01\x01" + (b"\xff" if v else b"\x00")
def utf8(s, **kw):          return tlv(0x0C, s if isinstance(s, bytes) else s.encode(), **kw)
def printable(s, **kw):     return tlv(0x13, s if isinstance(s, bytes) else s.encode(), **kw)
def ia5(s, **kw):           return tlv(0x16, s if isinstance(s, bytes) else s.encode(), **kw)
def utctime(s):             return tlv(0x17, s.encode())
def bitstr(b, unused=0):    return tlv(0x03, bytes([unused]) + b)
def ctx(n, content, constructed=True, **kw):
    return tlv(0x80 | (0x20 if constructed else 0) | n, content, **kw)

def integer(v):
    if v == 0:
        return b"\x02\x01\x00"
    k = (v.bit_length() + 8) // 8 if v > 0 else ((-v - 1).bit_length() + 8) // 8
    return tlv(0x02, v.to_bytes(k, "big", signed=True))

def oid_body(dotted):
    a = [int(x) for x in dotted.split(".")]
    out = bytearray([a[0] * 40 + a[1]])
    for v in a[2:]:
        chunk = [v & 0x7F]
        v >>= 7
        while v:
            chunk.append(0x80 | (v & 0x7F)); v >>= 7
        out += bytes(reversed(chunk))
    return bytes(out)

def oid(dotted):            return tlv(0x06, oid_body(dotted))

OID = {
    "cn": "2.5.4.3", "serial": "2.5.4.5", "c": "2.5.4.6", "l": "2.5.4.7", "st": "2.5.4.8", "o": "2.5.4.10", "ou": "2.5.4.11",
    "dnq": "2.5.4.46", "dc": "0.9.2342.19200300.100.1.25", "uid": "0.9.2342.19200300.100.1.1",
    "email": "1.2.840.113549.1.9.1",
    "san": "2.5.29.17", "ian": "2.5.29.18", "bc": "2.5.29.19", "ku": "2.5.29.15", "eku": "2.5.29.37",
    "skid": "2.5.29.14", "akid": "2.5.29.35", "nc": "2.5.29.30", "crldp": "2.5.29.31", "aia": "1.3.6.1.5.5.7.1.1",
    "sha256rsa": "1.2.840.113549.1.1.11", "rsa": "1.2.840.113549.1.1.1",
}

def attr(kind, value, strtype=0x0C, **kw):
    """one RelativeDistinguishedName: SET { SEQUENCE { OID, string } }"""
    return set_(seq(oid(OID.get(kind, kind)), tlv(strtype, value if isinstance(value, bytes) else value.encode(), **kw)))

def name(*attrs):           return seq(*attrs)

def general_name(kind, data, form=None, **kw):
    """kind: 0 otherName .. 8 registeredID (context tag number).  data: raw content bytes."""
    constructed = kind in (0, 3, 4, 5)
    return tlv(0x80 | (0x20 if constructed else 0) | kind, data, form, **kw)

def other_name(type_oid, value, strtag=0x0C):
    return general_name(0, oid(type_oid) + ctx(0, tlv(strtag, value)))

def extension(ext_oid, value, critical=None):
    return seq(oid(OID.get(ext_oid, ext_oid)), b"" if critical is None else boolean(critical), octet(value))

def san_ext(names, critical=None, which="san"):
    return extension(which, seq(*names), critical)

# a 2048-bit RSA SubjectPublicKeyInfo (modulus is arbitrary odd number with the top bit set; parse only)
_MOD = int.from_bytes(bytes([0xC3]) + bytes((i * 37 + 11) & 0xFF for i in range(254)) + b"\x01", "big")
SPKI_RSA = seq(seq(oid(OID["rsa"]), null()), bitstr(seq(integer(_MOD), integer(65537))))
ALG_SHA256RSA = seq(oid(OID["sha256rsa"]), null())

def cert(extensions=(), subject=None, issuer=None, serial=0x1001, not_before="170316000000Z", not_after="270316000000Z",
         spki=None, version=2, sig=None, raw_extensions=None, sigalg=None, trailer=b""):
    """v3 certificate skeleton.  `extensions` is a list of encoded Extension values; raw_extensions
    (bytes) replaces the whole [3] EXPLICIT element if given."""
    subject = subject if subject is not None else name(attr("c", "FI", 0x13), attr("o", "Verif"), attr("cn", "leaf.example.com"))
    issuer = issuer if issuer is not None else name(attr("c", "FI", 0x13), attr("o", "Verif"), attr("cn", "Verif CA"))
    sigalg = sigalg if sigalg is not None else ALG_SHA256RSA
    ext = raw_extensions if raw_extensions is not None else (ctx(3, seq(*extensions)) if extensions else b"")
    tbs = seq((ctx(0, integer(version)) if version is not None else b""), integer(serial), sigalg, issuer,
              seq(utctime(not_before), utctime(not_after)), subject, spki if spki is not None else SPKI_RSA, ext)
    sig = sig if sig is not None else bytes((i * 13 + 5) & 0xFF for i in range(256))
    return seq(tbs, sigalg, bitstr(sig)) + trailer

def crl(revoked=((0x1001, "200101000000Z"),), issuer=None, this_update="200101000000Z", next_update="300101000000Z", extensions=b""):
    issuer = issuer if issuer is not None else name(attr("c", "FI", 0x13), attr("o", "Verif"), attr("cn", "Verif CA"))
    rl = seq(*[seq(integer(s), utctime(t)) for s, t in revoked]) if revoked else b""
    tbs = seq(integer(1), ALG_SHA256RSA, issuer, utctime(this_update), utctime(next_update), rl, extensions)
    return seq(tbs, ALG_SHA256RSA, bitstr(bytes((i * 7 + 3) & 0xFF for i in range(256))))

def gentime(s):             return tlv(0x18, s.encode() if isinstance(s, str) else s)
def anytime(s):
    s = s.encode() if isinstance(s, str) else s
    return tlv(0x18 if len(s) >= 15 else 0x17, s)

def crl_entry(serial=b"\x10\x01", date="190601000000Z", ext=None, serial_tag=0x02, seq_len=None, form=None):
    """one revokedCertificates entry; ext = encoded crlEntryExtensions SEQUENCE content (or None); seq_len overrides
    the SEQUENCE length octets (contents unchanged)"""
    body = tlv(serial_tag, serial) + (date if isinstance(date, bytes) and date[:1] in (b"\x17", b"\x18") else anytime(date))
    if ext is not None:
        body += seq(ext)
    return tlv(0x30, body, form, length=seq_len)

ENTRY_EXTS = {
    "reason": lambda: extension("2.5.29.21", tlv(0x0A, b"\x01")),
    "invalidity": lambda: extension("2.5.29.24", gentime("20190101000000Z")),
    "issuer": lambda: extension("2.5.29.29", seq(general_name(4, name(attr("cn", "Indirect CA")))), True),
}
CRL_EXTS = {
    "akid": lambda: extension("akid", seq(ctx(0, bytes(range(20)), False))),
    "crlnumber": lambda: extension("2.5.29.20", integer(4097)),
    "idp": lambda: extension("2.5.29.28", seq(ctx(0, ctx(0, general_name(6, b"http://crl.example.com/ca.crl"))), ctx(1, b"\xff", False)), True),
    "delta": lambda: extension("2.5.29.27", integer(4000), True),
    "ian": lambda: san_ext([general_name(2, b"ca.example.com")], which="ian"),
    "unknown": lambda: extension("1.2.3.4.5", octet(b"x")),
}

def crl_parts(entries=b"", declared=None, version=1, issuer=None, this_update="200101000000Z", next_update="300101000000Z",
              exts=None, sigalg=None, sig=None, junk=b"", revoked_present=True):
    """(CRL DER, offset of the first revoked entry) - `entries` are raw bytes placed inside the revokedCertificates
    SEQUENCE whose length octets say `declared` (default: their real length)"""
    issuer = issuer if issuer is not None else name(attr("c", "FI", 0x13), attr("o", "Verif"), attr("cn", "Verif CA"))
    sigalg = sigalg if sigalg is not None else ALG_SHA256RSA
    head = (integer(version) if version is not None else b"") + sigalg + issuer + anytime(this_update) + \
           (anytime(next_update) if next_update is not None else b"")
    rev_hdr = tlv(0x30, b"", length=len(entries) if declared is None else declared) if revoked_present else b""
    tail = junk + (ctx(0, seq(*exts)) if exts else b"")
    body = head + rev_hdr + (entries if revoked_present else b"") + tail
    tbs = tlv(0x30, body)
    outer_tail = sigalg + bitstr(sig if sig is not None else bytes((i * 7 + 3) & 0xFF for i in range(256)))
    whole = tlv(0x30, tbs + outer_tail)
    off = (len(whole) - len(tbs) - len(outer_tail)) + (len(tbs) - len(body)) + len(head) + len(rev_hdr)
    return whole, off

# ------------------------------------------------------------------------------- PEM
def pem_blocks(text):
    """[(label, der)] for every -----BEGIN x----- block of a PEM text (bytes or str); undecodable blocks skipped"""
    if isinstance(text, bytes):
        text = text.decode("latin-1")
    out = []
    for m in re.finditer(r"-----BEGIN ([A-Z0-9 ]+)-----(.*?)-----END \1-----", text, re.S):
        body = m.group(2)
        if "Proc-Type" in body:
            continue
        try:
            out.append((m.group(1), base64.b64decode("".join(body.split()))))
        except Exception:
            pass
    return out

def pem(label, der, width=64):
    b = base64.b64encode(der).decode()
    return ("-----BEGIN %s-----\n" % label + "\n".join(b[i:i + width] for i in range(0, len(b), width)) + "\n-----END %s-----\n" % label).encode()

# ------------------------------------------------------------------------------- tolerant decoder
class Node:
    __slots__ = ("tag", "lenbytes", "content", "children", "indef")
    def __init__(self, tag, lenbytes, content, children=None, indef=False):
        self.tag, self.lenbytes, self.content, self.children, self.indef = tag, lenbytes, content, children, indef
    def body(self):
        return b"".join(c.encode() for c in self.children) if self.children is not None else self.content
    def encode(self, form=None):
        return tlv(self.tag, self.body(), form)
    def walk(self):
        yield self
        for c in (self.children or ()):
            yield from c.walk()

def _parse_one(b, i, depth):
    if i + 2 > len(b):
        return None
    tag = b[i]
    l0 = b[i + 1]
    j = i + 2
    if l0 < 0x80:
        n = l0
    elif l0 == 0x80 or l0 > 0x84:
        return None
    else:
        k = l0 & 0x7F
        if j + k > len(b):
            return None
        n = int.from_bytes(b[j:j + k], "big"); j += k
    if j + n > len(b):
        return None
    content = b[j:j + n]
    node = Node(tag, b[i + 1:j], content)
    wrap = tag in (0x04, 0x03)          # OCTET STRING / BIT STRING often wrap DER
    if depth < 24 and n >= 2 and ((tag & 0x20) or wrap):
        inner = content[1:] if tag == 0x03 else content
        kids = parse_all(inner, depth + 1)
        if kids is not None and kids and (tag & 0x20):
            node.children = kids
    return node, j + n

def parse_all(b, depth=0):
    out, i = [], 0
    while i < len(b):
        r = _parse_one(b, i, depth)
        if r is None:
            return None
        out.append(r[0]); i = r[1]
    return out

def parse(b):
    r = parse_all(b)
    return r if r is not None else []

def offsets(b, base=0, depth=0, out=None, budget=None):
    """[(start, hdr_len, content_len, tag, depth)] for every TLV found by a tolerant recursive descent
    (also descends into OCTET/BIT STRINGs that contain well-formed DER); at most ~3000 nodes"""
    out = [] if out is None else out
    budget = [3000] if budget is None else budget
    i = 0
    while i < len(b) and budget[0] > 0:
        r = _parse_one(b, i, 99)       # no recursion here; we recurse ourselves
        if r is None:
            break
        node, j = r
        budget[0] -= 1
        hdr = 1 + len(node.lenbytes)
        out.append((base + i, hdr, len(node.content), node.tag, depth))
        if depth < 16 and 2 <= len(node.content) and budget[0] > 0:
            if node.tag & 0x20:
                offsets(node.content, base + i + hdr, depth + 1, out, budget)
            elif node.tag == 0x04 and len(node.content) < 4096 and parse_all(node.content, 99) is not None:
                offsets(node.content, base + i + hdr, depth + 1, out, budget)
            elif node.tag == 0x03 and len(node.content) < 4096 and parse_all(node.content[1:], 99) is not None:
                offsets(node.content[1:], base + i + hdr + 1, depth + 1, out, budget)
        i = j
    return out

# ------------------------------------------------------------------------------- length-consistent rebuilding
# A decoded tree that also looks inside OCTET STRING / BIT STRING wrappers, so that a leaf deep inside an
# extension value can be resized and EVERY enclosing length (SEQUENCEs and the wrappers) is re-encoded to
# match: the parser then really reaches the code that handles the resized element.
class T:
    __slots__ = ("tag", "kids", "content", "wrap")
    def __init__(self, tag, kids, content, wrap):
        self.tag, self.kids, self.content, self.wrap = tag, kids, content, wrap      # wrap: None | "octet" | "bits"
    def enc(self):
        if self.kids is None:
            return tlv(self.tag, self.content)
        body = b"".join(k.enc() for k in self.kids)
        if self.wrap == "bits":
            body = self.content[:1] + body
        return tlv(self.tag, body)

def _tree_list(b, depth, budget):
    out, i = [], 0
    while i < len(b):
        r = _parse_one(b, i, 99)
        if r is None or budget[0] <= 0:
            return None
        node, j = r
        budget[0] -= 1
        kids, wrap = None, None
        c = node.content
        if depth < 24 and len(c) >= 2:
            if node.tag & 0x20:
                kids = _tree_list(c, depth + 1, budget)
            elif node.tag == 0x04 and c[0] in (0x30, 0x31, 0x03, 0x04, 0x02, 0x06) and len(c) < 16384:
                kids = _tree_list(c, depth + 1, budget); wrap = "octet" if kids else None
            elif node.tag == 0x03 and c[0] == 0 and c[1] == 0x30 and len(c) < 16384:
                kids = _tree_list(c[1:], depth + 1, budget); wrap = "bits" if kids else None
        if kids is not None and not kids:
            kids = None
        out.append(T(node.tag, kids, c, wrap if kids is not None else None))
        i = j
    return out

def tree(b):
    """list of T for the TLVs of b, or None when b is not a sequence of well-formed TLVs"""
    return _tree_list(b, 0, [4000])

def leaves(ts, out=None):
    out = [] if out is None else out
    for t in ts or ():
        if t.kids is None:
            out.append(t)
        else:
            leaves(t.kids, out)
    return out

def sized_content(tag, old, n):
    """n content octets in the style of the element: OID arcs stay < 0x80 (a well-formed, just very long, OID),
    strings repeat their text, integers stay positive, everything else repeats its bytes"""
    if n == 0:
        return b""
    if tag == 0x06:
        base = old[:min(len(old), n)] or b"\x2a"
        return (base + b"\x03" * n)[:n - 1] + b"\x03"
    if tag in (0x0C, 0x13, 0x16, 0x14, 0x1E, 0x17, 0x18, 0x86, 0x82, 0x81):
        base = old or b"x"
        return (base * (n // len(base) + 1))[:n]
    if tag == 0x02:
        base = old or b"\x01"
        return (base[:1] if base[0] < 0x80 and base[0] > 0 else b"\x01") + ((base + b"\x5a") * (n // len(base) + 1))[:n - 1]
    if tag == 0x03:
        return b"\x00" + ((old[1:] or b"\xa5") * n)[:n - 1]
    base = old or b"\xa5"
    return (base * (n // len(base) + 1))[:n]

# lengths on both sides of every integer-width / table-size boundary the C code crosses
WIDTH_LENS = sorted(set([0, 1, 2, 29, 30, 31, 32, 33, 126, 127, 128, 129] + list(range(253, 260)) + list(range(256 + 27, 256 + 34)) +
                        list(range(510, 515)) + list(range(512 + 28, 512 + 33)) + [1023, 1024, 1025, 4095, 4096, 4097]))

def resized(ts, leaf, n):
    """DER of the tree with `leaf` given n content octets, all enclosing lengths consistent"""
    old = leaf.content
    leaf.content = sized_content(leaf.tag, old, n)
    try:
        return b"".join(t.enc() for t in ts)
    finally:
        leaf.content = old

def cert_all_extensions():
    """a v3 certificate carrying every extension kind the library parses, each with the OIDs / strings /
    integers its parser copies into fixed-size or 8/16-bit-counted storage"""
    kp = lambda x: oid("1.3.6.1.5.5.7.3.%d" % x)
    exts = [
        extension("bc", seq(boolean(True), integer(3)), True),
        extension("ku", tlv(3, b"\x01\x86"), True),
        extension("eku", seq(kp(1), kp(2), kp(3), kp(4), kp(8), kp(9), oid("2.5.29.37.0"), oid("1.2.3.4.5"))),
        extension("skid", octet(bytes(range(20)))),
        extension("akid", seq(ctx(0, bytes(range(20)), False), ctx(1, general_name(4, name(attr("cn", "akid issuer")))), ctx(2, b"\x10\x01", False))),
        san_ext([general_name(2, b"a.example.com"), general_name(1, b"bob@example.com"), general_name(7, bytes([10, 0, 0, 1])),
                 general_name(6, b"https://a.example.com/x"), other_name("1.3.6.1.4.1.311.20.2.3", b"user@corp"), general_name(4, name(attr("cn", "dir")))]),
        san_ext([general_name(2, b"issuer.example.com")], which="ian"),
        extension("2.5.29.32", seq(seq(oid("2.5.29.32.0"), seq(seq(oid("1.3.6.1.5.5.7.2.1"), ia5("http://cps.example.com/")),
                                                                seq(oid("1.3.6.1.5.5.7.2.2"), seq(seq(utf8("Org"), seq(integer(1), integer(2))), utf8("explicit text"))))),
                                   seq(oid("1.2.3.4")))),
        extension("2.5.29.33", seq(seq(oid("1.2.3.4"), oid("1.2.3.5")), seq(oid("1.2.3.6"), oid("1.2.3.7")))),
        extension("2.5.29.36", seq(ctx(0, b"\x01", False), ctx(1, b"\x02", False))),
        extension("2.5.29.54", integer(2)),
        extension("nc", seq(ctx(0, seq(general_name(2, b".example.com")), True), ctx(1, seq(general_name(2, b"bad.example.com")), True))),
        extension("crldp", seq(seq(ctx(0, ctx(0, general_name(6, b"http://crl.example.com/ca.crl")))))),
        extension("aia", seq(seq(oid("1.3.6.1.5.5.7.48.1"), general_name(6, b"http://ocsp.example.com/")),
                             seq(oid("1.3.6.1.5.5.7.48.2"), general_name(6, b"http://ca.example.com/ca.crt")))),
        extension("2.16.840.1.113730.1.13", ia5("netscape comment")),
        extension("1.2.3.4.5.6.7", octet(b"unknown extension")),
    ]
    subject = name(attr("c", "FI", 0x13), attr("st", "Uusimaa"), attr("o", "Verif"), attr("ou", "unit"), attr("dc", "example", 0x16),
                   attr("serial", "42", 0x13), attr("cn", "leaf.example.com"))
    return cert(exts, subject=subject)

# ------------------------------------------------------------------------------- mutation
BOUNDARY_LENS = [0, 1, 2, 0x7E, 0x7F, 0x80, 0x81, 0xFF, 0x100, 0x101, 0x7FFF, 0x8000, 0xFFFE, 0xFFFF, 0x10000, 0x10005,
                 0xFFFFFF, 0x1000000, 0x7FFFFFFF, 0x80000000, 0xFFFFFFFF]

def mutate(r, der, offs=None):
    """one ASN.1-aware mutation of `der`; returns (kind, bytes)"""
    offs = offs if offs is not None else offsets(der)
    if not offs:
        return "flip", bytes(x ^ (1 << r.randrange(8)) if i == r.randrange(max(1, len(der))) else x for i, x in enumerate(der))
    k = r.randrange(14)
    s, h, n, tag, d = r.choice(offs)
    hdr, body = der[s:s + h], der[s + h:s + h + n]
    if k == 0:      # length +-1 / boundary value, same encoding width when possible
        delta = r.choice([-1, 1, -2, 2, -n, 0x80 - n if n < 0x80 else 1])
        newn = max(0, n + delta)
        return "len-delta", der[:s] + bytes([tag]) + enc_len(newn) + der[s + h:]
    if k == 1:
        return "len-boundary", der[:s] + bytes([tag]) + enc_len(r.choice(BOUNDARY_LENS)) + der[s + h:]
    if k == 2:      # same length, non-minimal long form (leading zeros) with 1..4 (or 5) bytes
        form = r.choice([1, 2, 3, 4, 4, 5])
        if n >= (1 << (8 * form)): form = 4
        return "len-longform", der[:s] + bytes([tag]) + enc_len(n, form) + der[s + h:]
    if k == 3:
        return "len-indef", der[:s] + bytes([tag, 0x80]) + der[s + h:]
    if k == 4:      # truncate anywhere inside this element
        cut = s + r.randrange(h + n + 1)
        return "truncate", der[:cut]
    if k == 5:      # truncate and fix NOTHING, at header boundaries
        return "truncate-hdr", der[:s + r.randrange(h + 1)]
    if k == 6:      # change tag
        return "tag", der[:s] + bytes([r.choice([0, 1, 2, 3, 4, 5, 6, 0x0A, 0x0C, 0x13, 0x16, 0x17, 0x18, 0x1E, 0x30, 0x31, 0x80, 0x82, 0x86, 0x87, 0xA0, 0xA3, 0xFF, tag ^ 0x20])]) + der[s + 1:]
    if k == 7:      # delete element
        return "delete", der[:s] + der[s + h + n:]
    if k == 8:      # duplicate element
        return "dup", der[:s] + der[s:s + h + n] * 2 + der[s + h + n:]
    if k == 9:      # zero / 0xff fill of the content
        return "fill", der[:s + h] + bytes([r.choice([0, 0xFF, 0x80, 0x30])]) * n + der[s + h + n:]
    if k == 10:     # empty content with length 0
        return "empty", der[:s] + bytes([tag, 0]) + der[s + h + n:]
    if k == 11:     # byte flips inside the content
        if n == 0:
            return "noop", der
        b = bytearray(der)
        for _ in range(r.choice([1, 1, 2, 4])):
            idx = s + h + r.randrange(n)
            if idx < len(b):        # an element of a malformed seed may claim more than the buffer holds
                b[idx] = r.choice([0, 0xFF, 0x80, 0x7F, r.randrange(256)])
        return "bytes", bytes(b)
    if k == 12:     # nest: wrap the element into `depth` extra SEQUENCEs
        e = der[s:s + h + n]
        for _ in range(r.choice([1, 3, 30, 200])):
            e = tlv(0x30, e)
        return "nest", der[:s] + e + der[s + h + n:]
    # k == 13: grow the content with junk (enclosing lengths NOT adjusted; see mutate_resize for the consistent form)
    junk = bytes(r.randrange(256) for _ in range(r.choice([1, 2, 127, 128, 300])))
    return "append-junk", der[:s + h + n] + junk + der[s + h + n:]

def mutate_resize(r, der, ts=None):
    """length-CONSISTENT resize of one leaf to a width-boundary length; returns (kind, bytes) or None"""
    ts = ts if ts is not None else tree(der)
    if not ts:
        return None
    ls = leaves(ts)
    if not ls:
        return None
    oids = [l for l in ls if l.tag == 0x06]
    leaf = r.choice(oids) if oids and r.random() < 0.5 else r.choice(ls)
    n = r.choice(WIDTH_LENS)
    return "resize:%02x:%d" % (leaf.tag, n), resized(ts, leaf, n)


if __name__ == "__main__":
    import sys
    c = cert([san_ext([general_name(2, b"a.example.com\x00"), general_name(2, b"b.example.com")])])
    sys.stdout.write(c.hex() + "\n")
