#!/bin/bash
# run every registered check (quick tier) and print its last line
cd "$(dirname "$0")/.."
for p in $(python3 -c "import json; print(' '.join(c['property_id'] for c in json.load(open('MANIFEST.json'))['checks']))"); do
  ./check $p > /var/tmp/runall-$p.log 2>&1; rc=$?
  echo "$p exit=$rc $(grep -c '^VIOLATION' /var/tmp/runall-$p.log)v $(grep -c '^KNOWN-FINDING' /var/tmp/runall-$p.log)k :: $(tail -1 /var/tmp/runall-$p.log | cut -c1-150)"
done
