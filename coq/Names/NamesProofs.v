From MV Require Import Names.NamesSpec.
From Coq Require Import Permutation.
Local Open Scope N_scope.

(* ------------------------------------------------------------------ string comparison lemmas *)
Lemma strcaseeq_ci : forall a b, strcaseeq a b = true <-> ci_eq a b.
Proof.
  unfold ci_eq. induction a as [|x a IH]; intros [|y b]; cbn [strcaseeq map]; split; intro H;
    try reflexivity; try discriminate.
  - apply andb_prop in H. destruct H as [H1 H2]. apply N.eqb_eq in H1. apply IH in H2. congruence.
  - injection H as H1 H2. apply andb_true_intro. split; [apply N.eqb_eq; assumption|apply IH; assumption].
Qed.

Lemma streq_eq : forall a b, streq a b = true <-> a = b.
Proof.
  induction a as [|x a IH]; intros [|y b]; cbn [streq]; split; intro H; try reflexivity; try discriminate.
  - apply andb_prop in H. destruct H as [H1 H2]. apply N.eqb_eq in H1. apply IH in H2. congruence.
  - injection H as H1 H2. apply andb_true_intro. split; [apply N.eqb_eq; assumption|apply IH; assumption].
Qed.

Lemma ci_eq_length : forall a b, ci_eq a b -> length a = length b.
Proof. unfold ci_eq. intros a b H. apply (f_equal (@length N)) in H. rewrite !map_length in H. exact H. Qed.

Lemma ci_eq_refl : forall a, ci_eq a a.
Proof. reflexivity. Qed.

Lemma lower_dot : forall x, lower x = ch_dot -> x = ch_dot.
Proof.
  intros x. unfold lower, ch_dot.
  destruct ((65 <=? x) && (x <=? 90)) eqn:E; [|auto].
  apply andb_prop in E. destruct E as [E1 E2]. apply N.leb_le in E1. apply N.leb_le in E2. lia.
Qed.

Lemma lower_of_dot : lower ch_dot = ch_dot.
Proof. reflexivity. Qed.

Lemma nonul_cstr : forall b, nonul b = true -> cstr b = b.
Proof.
  induction b as [|x b IH]; cbn [nonul forallb cstr]; intro H; [reflexivity|].
  apply andb_prop in H. destruct H as [H1 H2]. destruct (x =? 0); [discriminate|]. f_equal. apply IH. exact H2.
Qed.

Lemma nonul_skipn : forall n b, nonul b = true -> nonul (skipn n b) = true.
Proof.
  induction n as [|n IH]; intros [|x b] H; cbn [skipn]; try assumption.
  apply IH. cbn [nonul forallb] in H. apply andb_prop in H. apply H.
Qed.

(* ------------------------------------------------------------------ Strchr *)
Lemma has_at_false : forall s, has_at s = false <-> ~ In ch_at s.
Proof.
  unfold has_at. intros s. split.
  - intros H Hin. assert (existsb (fun x => x =? ch_at) s = true) as E.
    { apply existsb_exists. exists ch_at. split; [assumption|apply N.eqb_refl]. }
    congruence.
  - intros H. destruct (existsb (fun x => x =? ch_at) s) eqn:E; [|reflexivity].
    apply existsb_exists in E. destruct E as [x [Hx Hx2]]. apply N.eqb_eq in Hx2. subst x. contradiction.
Qed.

Lemma from_dot_some : forall s e, from_dot s = Some e ->
  exists label, s = label ++ e /\ ~ In ch_dot label /\ hd_error e = Some ch_dot.
Proof.
  induction s as [|x s IH]; cbn [from_dot]; intros e H; [discriminate|].
  destruct (x =? ch_dot) eqn:E.
  - injection H as H. subst e. exists []. apply N.eqb_eq in E. subst x. repeat split; auto.
  - apply IH in H. destruct H as [l [H1 [H2 H3]]]. exists (x :: l). subst s. repeat split; auto.
    intros [Hx|Hx]; [apply N.eqb_neq in E; congruence|contradiction].
Qed.

Lemma from_dot_app : forall label e, ~ In ch_dot label -> hd_error e = Some ch_dot ->
  from_dot (label ++ e) = Some e.
Proof.
  induction label as [|x l IH]; intros e Hn He.
  - cbn [app]. destruct e as [|y e]; [discriminate|]. injection He as He. subst y. cbn [from_dot].
    rewrite N.eqb_refl. reflexivity.
  - cbn [app from_dot]. destruct (x =? ch_dot) eqn:E.
    + apply N.eqb_eq in E. subst x. exfalso. apply Hn. left. reflexivity.
    + apply IH; [|assumption]. intro H. apply Hn. right. assumption.
Qed.

(* ------------------------------------------------------------------ wildcardMatch vs dns_match *)
Definition host_ok (h : bytes) : Prop := h <> [] /\ hd_error h <> Some ch_dot.

Lemma wildcard_sound : forall pat host, host_ok host -> wildcard_match pat host = true -> dns_match pat host.
Proof.
  intros pat host [Hne Hnd] H. unfold wildcard_match in H.
  destruct pat as [|c0 c].
  - apply DM_exact; [discriminate|]. apply strcaseeq_ci. exact H.
  - destruct (c0 =? ch_star) eqn:E0.
    + apply N.eqb_eq in E0. subst c0.
      destruct c as [|c1 c]; [discriminate|].
      destruct (c1 =? ch_dot) eqn:E1; [|discriminate].
      apply N.eqb_eq in E1. subst c1.
      destruct (has_at host) eqn:Ea; [discriminate|].
      destruct (from_dot host) as [e|] eqn:Ef; [|discriminate].
      apply from_dot_some in Ef. destruct Ef as [label [Hs [Hl He]]].
      apply (DM_wild _ _ (ch_dot :: c) label e); auto.
      * intro Hl0. subst label. cbn [app] in Hs. subst host. contradiction.
      * apply has_at_false. exact Ea.
      * apply strcaseeq_ci. exact H.
    + apply DM_exact.
      * cbn [hd_error]. intro Hc. injection Hc as Hc. apply N.eqb_neq in E0. contradiction.
      * destruct (c0 =? ch_dot); [discriminate|]. apply strcaseeq_ci. exact H.
Qed.

Lemma wildcard_complete : forall pat host, host_ok host -> dns_match pat host -> wildcard_match pat host = true.
Proof.
  intros pat host [Hne Hnd] H. destruct H as [Hstar Hci | rest label hrest Hp Hr Hh Hl Hdl Hat Hci].
  - unfold wildcard_match. destruct pat as [|c0 c].
    + apply strcaseeq_ci. exact Hci.
    + destruct (c0 =? ch_star) eqn:E0.
      * apply N.eqb_eq in E0. subst c0. exfalso. apply Hstar. reflexivity.
      * destruct (c0 =? ch_dot) eqn:E1.
        -- exfalso. apply N.eqb_eq in E1. subst c0. unfold ci_eq in Hci.
           destruct host as [|h0 host]; [congruence|]. cbn [map] in Hci. injection Hci as H0 _.
           rewrite lower_of_dot in H0. symmetry in H0. apply lower_dot in H0. subst h0. apply Hnd. reflexivity.
        -- apply strcaseeq_ci. exact Hci.
  - subst pat. unfold wildcard_match. rewrite N.eqb_refl.
    destruct rest as [|c1 c]; [discriminate|]. injection Hr as Hr. subst c1. rewrite N.eqb_refl.
    assert (has_at host = false) as Ea by (apply has_at_false; exact Hat). rewrite Ea.
    assert (hd_error hrest = Some ch_dot) as Hhd.
    { unfold ci_eq in Hci. destruct hrest as [|y hr]; [discriminate|]. cbn [map] in Hci. injection Hci as H0 _.
      rewrite lower_of_dot in H0. symmetry in H0. apply lower_dot in H0. subst y. reflexivity. }
    subst host. rewrite from_dot_app by assumption. apply strcaseeq_ci. exact Hci.
Qed.

(* the multi-label / suffix / partial cases: a match fixes the number of labels and the length *)
Fixpoint count_dots (s : bytes) : nat :=
  match s with [] => O | x :: r => Nat.add (if N.eqb x ch_dot then 1%nat else 0%nat) (count_dots r) end.

Lemma count_dots_app : forall a b, count_dots (a ++ b) = (count_dots a + count_dots b)%nat.
Proof. induction a as [|x a IH]; intros b; cbn [app count_dots]; [reflexivity|]. rewrite IH. lia. Qed.

Lemma count_dots_none : forall l, ~ In ch_dot l -> count_dots l = O.
Proof.
  induction l as [|x l IH]; intro H; cbn [count_dots]; [reflexivity|].
  destruct (x =? ch_dot) eqn:E.
  - apply N.eqb_eq in E. subst x. exfalso. apply H. left. reflexivity.
  - rewrite IH; [reflexivity|]. intro Hi. apply H. right. assumption.
Qed.

Lemma lower_dot_iff : forall x, (lower x =? ch_dot) = (x =? ch_dot).
Proof.
  intro x. destruct (x =? ch_dot) eqn:E.
  - apply N.eqb_eq in E. subst x. reflexivity.
  - apply N.eqb_neq. intro H. apply lower_dot in H. apply N.eqb_neq in E. contradiction.
Qed.

Lemma ci_eq_count_dots : forall a b, ci_eq a b -> count_dots a = count_dots b.
Proof.
  unfold ci_eq. induction a as [|x a IH]; intros [|y b] H; try discriminate; [reflexivity|].
  cbn [map] in H. injection H as H1 H2. cbn [count_dots]. rewrite (IH b H2).
  rewrite <- (lower_dot_iff x), <- (lower_dot_iff y), H1. reflexivity.
Qed.

Lemma dns_match_same_label_count : forall pat host, dns_match pat host -> count_dots host = count_dots pat.
Proof.
  intros pat host H. destruct H as [_ Hci | rest label hrest Hp Hr Hh Hl Hdl Hat Hci].
  - symmetry. apply ci_eq_count_dots. exact Hci.
  - subst pat host. rewrite count_dots_app, (count_dots_none label Hdl). cbn [count_dots].
    replace (ch_star =? ch_dot) with false by reflexivity. rewrite (ci_eq_count_dots _ _ Hci). reflexivity.
Qed.

Lemma dns_match_exact_length : forall pat host, hd_error pat <> Some ch_star -> dns_match pat host ->
  length pat = length host.
Proof.
  intros pat host Hs H. destruct H as [_ Hci | rest label hrest Hp _ _ _ _ _ _].
  - apply ci_eq_length. exact Hci.
  - subst pat. exfalso. apply Hs. reflexivity.
Qed.

(* ------------------------------------------------------------------ psX509ValidateGeneralName *)
Lemma alnum_not_dot : forall c, (is_digit c || is_upper c || is_lower c) = true -> c <> ch_dot.
Proof.
  intros c H Hc. subst c. discriminate H.
Qed.

Lemma validate_host_ok : forall e, validate_general_name e = true -> host_ok e.
Proof.
  intros e H. unfold validate_general_name in H. destruct e as [|c0 r]; [discriminate|].
  split; [discriminate|].
  cbn [hd_error]. intro Hc. injection Hc as Hc. subst c0.
  cbn [vgn_loop] in H. cbn in H. destruct r; discriminate H.
Qed.

(* ------------------------------------------------------------------ e-mail *)
Lemma index_at_split : forall s, ~ In ch_at (firstn (index_at s) s) /\
  (skipn (index_at s) s = [] \/ hd_error (skipn (index_at s) s) = Some ch_at).
Proof.
  induction s as [|x s IH]; cbn [index_at].
  - split; [intros []|left; reflexivity].
  - destruct (x =? ch_at) eqn:E.
    + cbn [firstn skipn]. split; [intros []|right]. apply N.eqb_eq in E. subst x. reflexivity.
    + cbn [firstn skipn]. destruct IH as [H1 H2]. split; [|exact H2].
      intros [Hx|Hx]; [apply N.eqb_neq in E; congruence|contradiction].
Qed.

Lemma index_at_app : forall l d, ~ In ch_at l -> (d = [] \/ hd_error d = Some ch_at) -> index_at (l ++ d) = length l.
Proof.
  induction l as [|x l IH]; intros d Hl Hd.
  - cbn [app length]. destruct Hd as [Hd|Hd]; [subst d; reflexivity|].
    destruct d as [|y d]; [discriminate|]. injection Hd as Hd. subst y. cbn [index_at]. rewrite N.eqb_refl. reflexivity.
  - cbn [app index_at length]. destruct (x =? ch_at) eqn:E.
    + apply N.eqb_eq in E. subst x. exfalso. apply Hl. left. reflexivity.
    + f_equal. apply IH; [|assumption]. intro H. apply Hl. right. assumption.
Qed.

Lemma match_email_sound : forall cs data e, nonul data = true ->
  match_email data e cs = true -> email_match cs data e.
Proof.
  intros cs data e Hn H. unfold match_email in H.
  destruct (Nat.eqb (length e) (length data)) eqn:El; [|discriminate]. cbn [negb] in H.
  unfold email_match. destruct cs.
  - apply andb_prop in H. destruct H as [H1 H2].
    rewrite (nonul_cstr data Hn) in H1. rewrite (nonul_cstr _ (nonul_skipn _ _ Hn)) in H2.
    apply streq_eq in H1. apply strcaseeq_ci in H2.
    exists (firstn (index_at data) data), (skipn (index_at data) data), (skipn (index_at data) e).
    destruct (index_at_split data) as [Ha Hb].
    repeat split; auto.
    + symmetry. apply firstn_skipn.
    + rewrite H1. symmetry. apply firstn_skipn.
  - rewrite (nonul_cstr data Hn) in H. apply strcaseeq_ci. exact H.
Qed.

Lemma match_email_complete : forall cs data e, nonul data = true ->
  email_match cs data e -> match_email data e cs = true.
Proof.
  intros cs data e Hn H. unfold match_email, email_match in *. destruct cs.
  - destruct H as [l [d [d' [Hd [He [Hl [Hd2 Hci]]]]]]].
    assert (length e = length data) as Hlen.
    { subst data e. rewrite !app_length. rewrite (ci_eq_length _ _ Hci). reflexivity. }
    rewrite Hlen, Nat.eqb_refl. cbn [negb].
    assert (index_at data = length l) as Hi by (subst data; apply index_at_app; assumption).
    rewrite Hi. rewrite (nonul_cstr data Hn). rewrite (nonul_cstr _ (nonul_skipn _ _ Hn)).
    subst data e. rewrite !firstn_app, !Nat.sub_diag, !firstn_all, !firstn_O, !app_nil_r.
    rewrite !skipn_app, !Nat.sub_diag, !skipn_all. cbn [skipn app].
    apply andb_true_intro. split; [apply streq_eq; reflexivity|apply strcaseeq_ci; exact Hci].
  - rewrite (ci_eq_length _ _ H), Nat.eqb_refl. cbn [negb]. rewrite (nonul_cstr data Hn).
    apply strcaseeq_ci. exact H.
Qed.

(* ------------------------------------------------------------------ iPAddress *)
Lemma ip_sound : forall d e, Nat.eqb (length d) 4 = true -> streq (ip_str d) e = true -> ip_match d e.
Proof.
  intros d e Hl H. apply Nat.eqb_eq in Hl. apply streq_eq in H.
  destruct d as [|a [|b [|c [|x [|y r]]]]]; try discriminate Hl.
  exists a, b, c, x. split; [reflexivity|]. subst e. reflexivity.
Qed.

Lemma ip_complete : forall d e, ip_match d e -> Nat.eqb (length d) 4 = true /\ streq (ip_str d) e = true.
Proof.
  intros d e [a [b [c [x [Hd He]]]]]. subst d e. split; [reflexivity|]. apply streq_eq. reflexivity.
Qed.

(* ------------------------------------------------------------------ the SAN loop *)
Lemma san_loop_spec : forall o e san found,
  san_loop o e san found =
    if existsb (san_entry_match o e) san then (true, true) else (false, found || existsb supported san).
Proof.
  induction san as [|n r IH]; intro found; cbn [san_loop existsb].
  - rewrite orb_false_r. reflexivity.
  - destruct (san_entry_match o e n); cbn [orb]; [reflexivity|].
    rewrite IH. destruct (existsb (san_entry_match o e) r); [reflexivity|]. rewrite orb_assoc. reflexivity.
Qed.

Definition name_check_flat (o : nopts) (san : list gname) (cn : option bytes) (e : bytes) : bool :=
  existsb (san_entry_match o e) san
  || (allows_cn o && (negb (existsb supported san) || o_always_cn o) && wildcard_match_opt (option_map cstr cn) e).

Lemma name_check_flat_eq : forall o san cn e, o_skip o = false ->
  name_check o san cn e = name_check_flat o san cn e.
Proof.
  intros o san cn e Hs. unfold name_check, name_check_flat. rewrite Hs, san_loop_spec.
  destruct (existsb (san_entry_match o e) san); cbn [orb]; [reflexivity|].
  unfold f_ALWAYS_CHECK_SUBJECT_CN_IN_HOSTNAME_VALIDATION.
  destruct (allows_cn o && (negb (existsb supported san) || o_always_cn o)); reflexivity.
Qed.

Lemma is_dns_not_email : forall n, is_dns n = true -> is_email n = false.
Proof. unfold is_dns, is_email, zeq. intros n H. apply Z.eqb_eq in H. rewrite H. reflexivity. Qed.
Lemma is_dns_not_ip : forall n, is_dns n = true -> is_ip n = false.
Proof. unfold is_dns, is_ip, zeq. intros n H. apply Z.eqb_eq in H. rewrite H. reflexivity. Qed.
Lemma is_email_not_dns : forall n, is_email n = true -> is_dns n = false.
Proof. unfold is_dns, is_email, zeq. intros n H. apply Z.eqb_eq in H. rewrite H. reflexivity. Qed.
Lemma is_email_not_ip : forall n, is_email n = true -> is_ip n = false.
Proof. unfold is_ip, is_email, zeq. intros n H. apply Z.eqb_eq in H. rewrite H. reflexivity. Qed.
Lemma is_ip_not_dns : forall n, is_ip n = true -> is_dns n = false.
Proof. unfold is_dns, is_ip, zeq. intros n H. apply Z.eqb_eq in H. rewrite H. reflexivity. Qed.
Lemma is_ip_not_email : forall n, is_ip n = true -> is_email n = false.
Proof. unfold is_email, is_ip, zeq. intros n H. apply Z.eqb_eq in H. rewrite H. reflexivity. Qed.

Lemma entry_sound : forall o e n, host_ok e ->
  ((is_dns n = true \/ is_email n = true) -> nonul (gn_data n) = true) ->
  san_entry_match o e n = true -> entry_spec o e n.
Proof.
  intros o e n He Hclean H. unfold san_entry_match in H. unfold entry_spec.
  destruct (is_dns n) eqn:Ed.
  - left. apply andb_prop in H. destruct H as [H1 H2]. pose proof (Hclean (or_introl eq_refl)) as Hn.
    rewrite (nonul_cstr _ Hn) in H2. repeat split; auto. apply wildcard_sound; assumption.
  - destruct (is_email n) eqn:Ee.
    + right. left. apply andb_prop in H. destruct H as [H1 H2]. pose proof (Hclean (or_intror eq_refl)) as Hn.
      repeat split; auto. apply match_email_sound; assumption.
    + destruct (is_ip n) eqn:Ei; [|discriminate].
      right. right. apply andb_prop in H. destruct H as [H12 H3]. apply andb_prop in H12. destruct H12 as [H1 H2].
      repeat split; auto. apply ip_sound; assumption.
Qed.

Lemma entry_complete : forall o e n, host_ok e -> entry_spec o e n -> san_entry_match o e n = true.
Proof.
  intros o e n He H. unfold san_entry_match.
  destruct H as [[Hd [Ha [Hn Hm]]] | [[Hd [Ha [Hn Hm]]] | [Hd [Ha Hm]]]].
  - rewrite Hd, Ha. cbn [andb]. rewrite (nonul_cstr _ Hn). apply wildcard_complete; assumption.
  - rewrite (is_email_not_dns _ Hd), Hd, Ha. cbn [andb]. apply match_email_complete; assumption.
  - rewrite (is_ip_not_dns _ Hd), (is_ip_not_email _ Hd), Hd, Ha. cbn [andb].
    apply ip_complete in Hm. destruct Hm as [H1 H2]. rewrite H1, H2. reflexivity.
Qed.

(* ------------------------------------------------------------------ main results *)
Theorem name_check_sound : forall o san cn e,
  o_skip o = false -> validate_general_name e = true -> san_clean san -> cn_clean cn ->
  name_check o san cn e = true -> spec_match o san cn e.
Proof.
  intros o san cn e Hs Hv Hsan Hcn H. pose proof (validate_host_ok e Hv) as He.
  rewrite name_check_flat_eq in H by assumption. unfold name_check_flat in H.
  apply orb_prop in H. destruct H as [H|H].
  - left. apply existsb_exists in H. destruct H as [n [Hin Hm]]. exists n. split; [assumption|].
    apply entry_sound; auto.
  - right. apply andb_prop in H. destruct H as [H12 H3]. apply andb_prop in H12. destruct H12 as [H1 H2].
    unfold cn_spec. split; [assumption|]. split.
    + apply orb_prop in H2. destruct H2 as [H2|H2]; [left; apply negb_true_iff; assumption|right; assumption].
    + destruct cn as [c|]; [|discriminate]. exists c. pose proof (Hcn c eq_refl) as Hn.
      cbn [wildcard_match_opt option_map] in H3. rewrite (nonul_cstr _ Hn) in H3.
      repeat split; auto. apply wildcard_sound; assumption.
Qed.

Theorem name_check_complete : forall o san cn e,
  o_skip o = false -> validate_general_name e = true ->
  spec_match o san cn e -> name_check o san cn e = true.
Proof.
  intros o san cn e Hs Hv H. pose proof (validate_host_ok e Hv) as He.
  rewrite name_check_flat_eq by assumption. unfold name_check_flat.
  destruct H as [[n [Hin Hn]] | [Ha [Hf [c [Hc [Hn Hm]]]]]].
  - apply orb_true_intro. left. apply existsb_exists. exists n. split; [assumption|].
    apply entry_complete; assumption.
  - apply orb_true_intro. right. rewrite Ha. cbn [andb].
    apply andb_true_intro. split.
    + destruct Hf as [Hf|Hf]; [rewrite Hf; reflexivity|rewrite Hf; apply orb_true_r].
    + subst cn. cbn [wildcard_match_opt option_map]. rewrite (nonul_cstr _ Hn). apply wildcard_complete; assumption.
Qed.

Lemma existsb_perm : forall (A : Type) (f : A -> bool) l l', Permutation l l' -> existsb f l = existsb f l'.
Proof.
  intros A f l l' H. induction H; cbn [existsb]; try congruence.
  - destruct (f x), (f y); reflexivity.
Qed.

Theorem name_check_order : forall o san san' cn e,
  Permutation san san' -> name_check o san cn e = name_check o san' cn e.
Proof.
  intros o san san' cn e H. unfold name_check. destruct (o_skip o); [reflexivity|].
  rewrite !san_loop_spec. rewrite (existsb_perm _ _ _ _ H), (existsb_perm _ supported _ _ H). reflexivity.
Qed.

(* what "partial, suffix and multi-label-wildcard names never match" means for a DNS entry *)
Theorem dns_entry_shape : forall pat host, host_ok host -> wildcard_match pat host = true ->
  count_dots host = count_dots pat /\ (hd_error pat <> Some ch_star -> length pat = length host).
Proof.
  intros pat host Hh H. apply wildcard_sound in H; [|assumption]. split.
  - apply dns_match_same_label_count. exact H.
  - intro Hs. apply dns_match_exact_length; assumption.
Qed.

(* ------------------------------------------------------------------ non-vacuity *)
Definition s2b (l : list nat) : bytes := map N.of_nat l.
Definition ex_opts := {| o_skip := false; o_always_cn := false; o_email_ci := false; o_type := c_NAME_TYPE_ANY |}.
(* "*.example.com" / "www.Example.com" *)
Definition ex_pat := s2b [42;46;101;120;97;109;112;108;101;46;99;111;109]%nat.
Definition ex_host := s2b [119;119;119;46;69;120;97;109;112;108;101;46;99;111;109]%nat.
Definition ex_bad := s2b [97;46;98;46;101;120;97;109;112;108;101;46;99;111;109]%nat.   (* a.b.example.com *)
Example ex_validate : validate_general_name ex_host = true. Proof. vm_compute. reflexivity. Qed.
Example ex_match : name_check ex_opts [{| gn_id := c_GN_DNS; gn_data := ex_pat |}] None ex_host = true.
Proof. vm_compute. reflexivity. Qed.
Example ex_multi_label_rejected : name_check ex_opts [{| gn_id := c_GN_DNS; gn_data := ex_pat |}] None ex_bad = false.
Proof. vm_compute. reflexivity. Qed.
Example ex_ip : name_check ex_opts [{| gn_id := c_GN_IP; gn_data := [100;100;100;100] |}] None
   (s2b [49;48;48;46;49;48;48;46;49;48;48;46;49;48;48]%nat) = true.
Proof. vm_compute. reflexivity. Qed.
Example ex_ip_prefix_rejected : name_check ex_opts [{| gn_id := c_GN_IP; gn_data := [100;100;100;100] |}] None
   (s2b [49;48;48;46;49;48;48;46;49;48;48;46;49;48]%nat) = false.
Proof. vm_compute. reflexivity. Qed.
