(* Executable, code-shaped model of the expected-name check (property C05).
   C sources: matrixssl/matrixssl.c  wildcardMatch, matchEmail, name section of matrixValidateCertsExt;
              crypto/keyformat/x509.c psX509ValidateGeneralName.
   No proofs here: the model must still run when a proof breaks. *)
From MV Require Export Base.Bytes Gen.Consts.
Local Open Scope N_scope.

(* ---- characters *)
Definition ch_star : N := 42.
Definition ch_dot : N := 46.
Definition ch_dash : N := 45.
Definition ch_at : N := 64.

(* ---- wildcardMatch(wild, s) == 0   (wild and s are C strings) *)
Fixpoint from_dot (s : bytes) : option bytes :=      (* Strchr(s, '.') *)
  match s with
  | [] => None
  | x :: r => if x =? ch_dot then Some s else from_dot r
  end.

Definition has_at (s : bytes) : bool := existsb (fun x => x =? ch_at) s.   (* Strchr(s,'@') != NULL *)

Definition wildcard_match (wild s : bytes) : bool :=
  match wild with
  | c0 :: c =>
      if c0 =? ch_star then
        match c with
        | c1 :: _ =>
            if c1 =? ch_dot then
              if has_at s then false
              else match from_dot s with
                   | None => false
                   | Some e => strcaseeq c e
                   end
            else false
        | [] => false
        end
      else if c0 =? ch_dot then false
      else strcaseeq wild s
  | [] => strcaseeq wild s
  end.

Definition wildcard_match_opt (wild : option bytes) (s : bytes) : bool :=
  match wild with None => false | Some w => wildcard_match w s end.

(* ---- matchEmail(email, emailLen, expected, caseSensitiveLocalPart)
   email is the raw SAN buffer of emailLen bytes (0-terminated after them) *)
Fixpoint index_at (s : bytes) : nat :=               (* first index of '@' within the buffer, or its length *)
  match s with
  | [] => O
  | x :: r => if x =? ch_at then O else S (index_at r)
  end.

Definition match_email (email expected : bytes) (case_sensitive_local : bool) : bool :=
  if negb (Nat.eqb (length expected) (length email)) then false
  else if case_sensitive_local then
    let at_i := index_at email in
    (* Strncmp(email, expected, at_i) == 0 && strcasecmp(email + at_i, expected + at_i) == 0 *)
    streq (firstn at_i (cstr email)) (firstn at_i expected)
    && strcaseeq (cstr (skipn at_i email)) (skipn at_i expected)
  else strcaseeq (cstr email) expected.

(* ---- iPAddress rendering: Snprintf(ip, sizeof(ip), "%u.%u.%u.%u", d0, d1, d2, d3) *)
Definition ip_str (d : bytes) : bytes :=
  match d with
  | a :: b :: c :: e :: _ => dec a ++ [ch_dot] ++ dec b ++ [ch_dot] ++ dec c ++ [ch_dot] ++ dec e
  | _ => []
  end.

(* ---- options as the code reads them *)
Record nopts := {
  o_skip : bool;          (* VCERTS_FLAG_SKIP_EXPECTED_NAME_VALIDATION *)
  o_always_cn : bool;     (* VCERTS_MFLAG_ALWAYS_CHECK_SUBJECT_CN *)
  o_email_ci : bool;      (* VCERTS_MFLAG_SAN_EMAIL_CASE_INSENSITIVE_LOCAL_PART *)
  o_type : Z              (* opts->nameType *)
}.

Definition zeq (a b : Z) : bool := Z.eqb a b.
Definition allows_dns (o : nopts) : bool :=
  zeq (o_type o) c_NAME_TYPE_ANY || zeq (o_type o) c_NAME_TYPE_HOSTNAME || zeq (o_type o) c_NAME_TYPE_SAN_DNS.
Definition allows_email (o : nopts) : bool :=
  zeq (o_type o) c_NAME_TYPE_ANY || zeq (o_type o) c_NAME_TYPE_SAN_EMAIL.
Definition allows_ip (o : nopts) : bool :=
  zeq (o_type o) c_NAME_TYPE_ANY || zeq (o_type o) c_NAME_TYPE_SAN_IP_ADDRESS.
Definition allows_cn (o : nopts) : bool :=
  zeq (o_type o) c_NAME_TYPE_ANY || zeq (o_type o) c_NAME_TYPE_CN || zeq (o_type o) c_NAME_TYPE_HOSTNAME.

Record gname := { gn_id : Z; gn_data : bytes }.       (* dataLen = length gn_data *)

Definition is_dns (n : gname) := zeq (gn_id n) c_GN_DNS.
Definition is_email (n : gname) := zeq (gn_id n) c_GN_EMAIL.
Definition is_ip (n : gname) := zeq (gn_id n) c_GN_IP.
Definition supported (n : gname) : bool := is_dns n || is_email n || is_ip n.

(* one iteration of the switch in the SAN loop: does this entry make the function return success? *)
Definition san_entry_match (o : nopts) (e : bytes) (n : gname) : bool :=
  if is_dns n then allows_dns o && wildcard_match (cstr (gn_data n)) e
  else if is_email n then allows_email o && match_email (gn_data n) e (negb (o_email_ci o))
  else if is_ip n then allows_ip o && Nat.eqb (length (gn_data n)) 4 && streq (ip_str (gn_data n)) e
  else false.

(* the loop itself, with its early return and the foundSupportedSAN accumulator *)
Fixpoint san_loop (o : nopts) (e : bytes) (san : list gname) (found : bool) : bool * bool :=
  match san with
  | [] => (false, found)
  | n :: r => if san_entry_match o e n then (true, true)
              else san_loop o e r (found || supported n)
  end.

(* true = the name section lets validation return rc unchanged; false = PS_CERT_AUTH_FAIL_EXTENSION
   with PS_CERT_AUTH_FAIL_SUBJECT_FLAG *)
Definition name_check (o : nopts) (san : list gname) (cn : option bytes) (e : bytes) : bool :=
  if o_skip o then true
  else
    let '(hit, found) := san_loop o e san false in
    if hit then true
    else if f_ALWAYS_CHECK_SUBJECT_CN_IN_HOSTNAME_VALIDATION then wildcard_match_opt (option_map cstr cn) e
    else if allows_cn o && (negb found || o_always_cn o) then wildcard_match_opt (option_map cstr cn) e
    else false.

(* illegal option combination: matrixValidateCertsExt returns PS_ARG_FAIL before looking at anything *)
Definition opts_legal (o : nopts) : bool :=
  negb (o_always_cn o)
  || zeq (o_type o) c_NAME_TYPE_ANY || zeq (o_type o) c_NAME_TYPE_HOSTNAME || zeq (o_type o) c_NAME_TYPE_CN.

(* ---- psX509ValidateGeneralName(n) == 0 *)
Definition is_digit (c : N) := (48 <=? c) && (c <=? 57).
Definition is_upper (c : N) := (65 <=? c) && (c <=? 90).
Definition is_lower (c : N) := (97 <=? c) && (c <=? 122).
Definition is_sep (c : N) := (c =? ch_dot) || (c =? ch_dash) || (c =? ch_at).

(* loop over the characters; [first] = (c == n); prev = *(c-1); atfound = count so far *)
Fixpoint vgn_loop (first : bool) (prev : N) (atfound : nat) (s : bytes) : option nat :=
  match s with
  | [] => Some atfound
  | c :: r =>
      let last := match r with [] => true | _ => false end in
      if negb first && is_sep c && is_sep prev then None
      else if negb first && negb last && ((c =? ch_dot) || (c =? ch_dash)) then vgn_loop false c atfound r
      else
        let atfound' := if c =? ch_at then S atfound else atfound in
        if (c =? ch_at) && negb first && negb last && Nat.eqb atfound' 1 then vgn_loop false c atfound' r
        else if is_digit c || is_upper c || is_lower c then vgn_loop false c atfound' r
        else None
  end.

Definition validate_general_name (n : bytes) : bool :=
  match n with
  | [] => false
  | c0 :: _ =>
      match vgn_loop true 0 O n with
      | None => false
      | Some atfound => negb (negb (Nat.eqb atfound 0) && is_digit c0)
      end
  end.
