(* What property C05 demands, written declaratively (RFC 6125 style), independent of the code's shape. *)
From MV Require Export Names.NamesModel.
Local Open Scope N_scope.

(* case-insensitive equality of two strings, ASCII letters only *)
Definition ci_eq (a b : bytes) : Prop := map lower a = map lower b.

(* presented DNS-style identifier [pat] matches reference identifier [host] *)
Inductive dns_match (pat host : bytes) : Prop :=
| DM_exact :
    hd_error pat <> Some ch_star ->
    ci_eq pat host ->
    dns_match pat host
| DM_wild : forall rest label hrest,
    pat = ch_star :: rest ->
    hd_error rest = Some ch_dot ->           (* the wildcard is the complete left-most label *)
    host = label ++ hrest ->
    label <> [] ->                           (* it stands for exactly one, non-empty label *)
    ~ In ch_dot label ->
    ~ In ch_at host ->
    ci_eq rest hrest ->                      (* and everything to the right matches exactly *)
    dns_match pat host.

(* rfc822Name: local part exact unless the application asked otherwise; host part case-insensitive *)
Definition email_match (case_sensitive_local : bool) (data e : bytes) : Prop :=
  if case_sensitive_local then
    exists l d d', data = l ++ d /\ e = l ++ d' /\ ~ In ch_at l /\ (d = [] \/ hd_error d = Some ch_at) /\ ci_eq d d'
  else ci_eq data e.

Definition ip_match (data e : bytes) : Prop :=
  exists a b c d, data = [a; b; c; d] /\
    e = dec a ++ [ch_dot] ++ dec b ++ [ch_dot] ++ dec c ++ [ch_dot] ++ dec d.

Definition entry_spec (o : nopts) (e : bytes) (n : gname) : Prop :=
  (is_dns n = true /\ allows_dns o = true /\ nonul (gn_data n) = true /\ dns_match (gn_data n) e) \/
  (is_email n = true /\ allows_email o = true /\ nonul (gn_data n) = true /\ email_match (negb (o_email_ci o)) (gn_data n) e) \/
  (is_ip n = true /\ allows_ip o = true /\ ip_match (gn_data n) e).

(* the subject common name is consulted only when the certificate has no supported subjectAltName
   (or the application set the documented ALWAYS_CHECK_SUBJECT_CN flag) *)
Definition cn_spec (o : nopts) (san : list gname) (cn : option bytes) (e : bytes) : Prop :=
  allows_cn o = true /\ (existsb supported san = false \/ o_always_cn o = true) /\
  exists c, cn = Some c /\ nonul c = true /\ dns_match c e.

Definition spec_match (o : nopts) (san : list gname) (cn : option bytes) (e : bytes) : Prop :=
  (exists n, In n san /\ entry_spec o e n) \/ cn_spec o san cn e.

(* certificates as the parser hands them over: printable-ASCII strings hold no NUL *)
Definition san_clean (san : list gname) : Prop :=
  forall n, In n san -> (is_dns n = true \/ is_email n = true) -> nonul (gn_data n) = true.
Definition cn_clean (cn : option bytes) : Prop := forall c, cn = Some c -> nonul c = true.
