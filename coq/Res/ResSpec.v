(* C19 - what the property demands of one allocation site, independent of how the code is shaped:
   whatever the allocator answers, the site does not dereference NULL and does not store NULL where it
   would be read as "not requested", and when the allocator fails
   the function's error edge is taken (that edge is what becomes PS_MEM_FAIL / SSL_MEM_ERROR / an
   internal_error alert at the API boundary - the propagation itself is explored by fault injection,
   not proved). *)
From Coq Require Import String List Bool.
From MV Require Import Gen.AllocSites Res.ResModel.

Definition alloc_failure_clean (s : site) : Prop :=
  forall orc : oracle,
    (forall k, run_site s orc <> Fault k) /\
    run_site s orc <> SilentNull /\
    (orc = None -> run_site s orc = ErrorEdge).

(* a reviewed swallowed failure: never a NULL dereference, never a silent NULL; when the allocator fails the function goes on
   by design (the reasons are with benign_swallowed_keys in ResModel.v).  NOT clean in the sense of the property text. *)
Definition alloc_failure_swallowed_benign (s : site) : Prop :=
  benign_swallowed s = true /\
  forall orc : oracle,
    (forall k, run_site s orc <> Fault k) /\
    run_site s orc <> SilentNull /\
    (orc = None -> run_site s orc = Swallowed).

(* full-strength table statement; it holds exactly when known_open_keys and benign_swallowed_keys are empty *)
Definition c19_table_statement : Prop := forall s, In s sites -> alloc_failure_clean s.
