(* C19 - the generic lemma about guarded sites, what an unguarded site does, and the proofs over the generated table. *)
From Coq Require Import String List Bool NArith.
From MV Require Import Gen.AllocSites Res.ResModel Res.ResSpec.
Import ListNotations.

Lemma guarded_no_fault : forall s, guarded s = true ->
  forall orc : oracle,
    (forall k, run_site s orc <> Fault k) /\
    run_site s orc <> SilentNull /\
    (orc = None -> run_site s orc = ErrorEdge) /\
    (orc <> None -> run_site s orc = Completed).
Proof.
  intros s G orc. unfold run_site, site_prog, guarded in *.
  destruct (s_class s) eqn:C; try discriminate; try rewrite G;
    destruct orc; cbn; repeat split; intros; try discriminate; try reflexivity; congruence.
Qed.

(* the guard is necessary: a site the table does not call guarded dereferences NULL, silently stores it, or swallows the failure *)
Lemma unguarded_not_clean : forall s, guarded s = false ->
  (exists k, run_site s None = Fault k) \/ run_site s None = SilentNull \/ run_site s None = Swallowed.
Proof.
  intros s G. unfold run_site, site_prog, guarded in *.
  destruct (s_class s) eqn:C; try discriminate; try rewrite G;
    try (left; eexists; reflexivity); try (right; left; reflexivity); right; right; reflexivity.
Qed.

Lemma swallowed_runs : forall s, s_class s = GuardedButSwallowed ->
  forall orc : oracle,
    (forall k, run_site s orc <> Fault k) /\ run_site s orc <> SilentNull /\ (orc = None -> run_site s orc = Swallowed).
Proof.
  intros s C orc. unfold run_site, site_prog. rewrite C.
  destruct orc; cbn; repeat split; intros; try discriminate; try reflexivity; congruence.
Qed.

Lemma accepted_ok : forall s, accepted s = true -> alloc_failure_clean s \/ alloc_failure_swallowed_benign s.
Proof.
  intros s A. unfold accepted in A. apply orb_true_iff in A. destruct A as [G | B].
  - left. intro orc. destruct (guarded_no_fault s G orc) as (a & b & c & _). repeat split; assumption.
  - right. split; [assumption |]. unfold benign_swallowed in B.
    destruct (s_class s) eqn:C; try discriminate. apply swallowed_runs; assumption.
Qed.

Lemma stored_unchecked_is_silent : forall s, s_class s = StoredUnchecked -> run_site s None = SilentNull.
Proof. intros s C. unfold run_site, site_prog. rewrite C. reflexivity. Qed.

(* with a successful allocator no site misbehaves, whatever its class (the model blames only the NULL path) *)
Lemma success_never_faults : forall s b, (forall k, run_site s (Some b) <> Fault k) /\ run_site s (Some b) <> SilentNull.
Proof.
  intros s b. unfold run_site, site_prog.
  destruct (s_class s); try destruct (s_consumers_tested s); cbn; split; intros; discriminate.
Qed.

Lemma forallb_guarded_all : forall l, forallb guarded l = true ->
  forall s, In s l -> alloc_failure_clean s.
Proof.
  intros l H s Hin orc. rewrite forallb_forall in H. specialize (H s Hin).
  destruct (guarded_no_fault s H orc) as (A & B & C & _). repeat split; assumption.
Qed.

(* the sites exempted as open findings are genuinely unclean (the exemption list carries no guarded site) *)
Definition open_sites_unguarded (l : list site) : bool :=
  forallb (fun s => if known_open s then negb (guarded s) else true) l.

Lemma open_sites_unclean : forall l, open_sites_unguarded l = true ->
  forall s, In s l -> known_open s = true ->
  (exists k, run_site s None = Fault k) \/ run_site s None = SilentNull \/ run_site s None = Swallowed.
Proof.
  intros l H s Hin Hk. unfold open_sites_unguarded in H. rewrite forallb_forall in H.
  specialize (H s Hin). rewrite Hk in H. apply unguarded_not_clean.
  destruct (guarded s); [discriminate | reflexivity].
Qed.

(* ---- the generated table (these are the proofs that break when a NULL check disappears from the C sources) *)
Lemma table_wellformed :
  nodup_keys nil sites = true /\ length sites = n_sites /\ 200 <= n_sites /\ known_open_are_unguarded_sites = true /\
  benign_keys_are_swallowed_sites = true.
Proof. vm_compute. repeat split; try reflexivity. repeat constructor. Qed.

Lemma sites_guarded : forallb accepted checked_sites = true.
Proof. vm_compute. reflexivity. Qed.

Lemma no_site_faults : forall s, In s sites -> known_open s = false ->
  alloc_failure_clean s \/ alloc_failure_swallowed_benign s.
Proof.
  intros s Hin Hk. apply accepted_ok.
  pose proof sites_guarded as H. rewrite forallb_forall in H. apply H.
  unfold checked_sites. apply filter_In. split; [assumption | rewrite Hk; reflexivity].
Qed.

(* the sites that are not on the benign list and swallow a failure are NOT accepted: in particular a new one breaks sites_guarded *)
Lemma swallowed_needs_review : forall s, s_class s = GuardedButSwallowed -> benign_swallowed s = false -> accepted s = false.
Proof. intros s C B. unfold accepted, guarded. rewrite C, B. reflexivity. Qed.

Lemma known_open_sites_unclean : forall s, In s sites -> known_open s = true ->
  (exists k, run_site s None = Fault k) \/ run_site s None = SilentNull \/ run_site s None = Swallowed.
Proof. apply open_sites_unclean. vm_compute. reflexivity. Qed.

(* non-vacuity: the classes are inhabited in the model *)
Example ex_guarded : guarded (mkSite "f.c:f#1" "f.c" "f" 1 1%N "psMalloc" "p" (GuardedBeforeUse GTest) false []) = true.
Proof. reflexivity. Qed.
Example ex_unguarded_faults :
  run_site (mkSite "f.c:f#1" "f.c" "f" 1 1%N "psMalloc" "p" (UsedUnguarded UStrDest) false []) None = Fault UStrDest.
Proof. reflexivity. Qed.
Example ex_guarded_error_edge :
  run_site (mkSite "f.c:f#1" "f.c" "f" 1 1%N "psMalloc" "p" (GuardedBeforeUse GInline) false []) None = ErrorEdge.
Proof. reflexivity. Qed.
(* `psk->params->sni = psMalloc(..); if (psk->params->sni != NULL) { copy }` and the PSK is returned without its server name *)
Example ex_swallowed :
  run_site (mkSite "tls13Psk.c:tls13NewPsk#5" "tls13Psk.c" "tls13NewPsk" 5 1%N "psMalloc" "psk->params->sni" GuardedButSwallowed false []) None = Swallowed
  /\ accepted (mkSite "tls13Psk.c:tls13NewPsk#5" "tls13Psk.c" "tls13NewPsk" 5 1%N "psMalloc" "psk->params->sni" GuardedButSwallowed false []) = false.
Proof. split; reflexivity. Qed.
(* `ssl->expectedName = psStrdupN(name);` followed by a success return *)
Example ex_stored_unchecked :
  run_site (mkSite "a.c:f@psStrdupN#1" "a.c" "f" 1 1%N "psStrdupN" "ssl->expectedName" StoredUnchecked false []) None = SilentNull.
Proof. reflexivity. Qed.
