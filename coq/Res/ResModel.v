(* C19 - meaning of an allocation site (no proofs here).

   The table Gen.AllocSites.sites is produced by tools/srcgen/gen_allocsites.py from the C sources:
   one record per call of psMalloc/psCalloc/psRealloc/... (core/include/psmalloc.h) with the
   classification of what the code does with the result before it is first used.

   A site is given a three-instruction program; the allocator is an oracle that yields a fresh
   block or nothing (malloc returning NULL).  Running the program either reaches the function's
   error edge, completes, or dereferences NULL (= Fault). *)
From Coq Require Import String List Bool.
From MV Require Import Gen.AllocSites.
Import ListNotations.
Open Scope string_scope.

Inductive block := Block (id : nat).
Definition oracle := option block.            (* result of THIS execution of the allocator: None = NULL *)

Inductive instr :=
  | IAlloc                (* r := alloc()                                   *)
  | ITestNull             (* if (r == NULL) goto error-edge                 *)
  | ITestCarryOn          (* if (r != NULL) { fill } - and on NULL the function simply goes on *)
  | IUse (k : use_kind)   (* *r, r->f, r[i], Memcpy(r, ..), f(r) ...        *)
  | IHandOver             (* return r : the caller goes on (it is a site of the table itself)            *)
  | IStoreField.          (* x->field = r and nothing else: readers of the field take NULL for "not set" *)

Inductive outcome :=
  | Fault (k : use_kind)  (* NULL dereferenced *)
  | SilentNull            (* NULL was stored where it MEANS something ("no expected name", "no ticket"):
                             no crash, no error - the feature is silently off *)
  | Swallowed             (* the NULL test fired but the failing branch neither leaves nor records an error: the function
                             carries on with a partially built object and its caller is told nothing *)
  | ErrorEdge             (* the NULL test fired: PS_MEM_FAIL / SSL_MEM_ERROR path *)
  | Completed             (* block in use, execution continues normally *)
  | Stuck.                (* ill-formed program (register read before IAlloc) - never produced by site_prog *)

Record cfg := mkCfg { pc : list instr; reg : option (option block) }.

Inductive step_result := Next (c : cfg) | Halt (o : outcome).

Definition step (orc : oracle) (c : cfg) : step_result :=
  match pc c with
  | [] => Halt Completed
  | IAlloc :: rest => Next (mkCfg rest (Some orc))
  | ITestNull :: rest =>
      match reg c with
      | None => Halt Stuck
      | Some None => Halt ErrorEdge
      | Some (Some _) => Next (mkCfg rest (reg c))
      end
  | ITestCarryOn :: rest =>
      match reg c with
      | None => Halt Stuck
      | Some None => Halt Swallowed
      | Some (Some _) => Next (mkCfg rest (reg c))
      end
  | IUse k :: rest =>
      match reg c with
      | None => Halt Stuck
      | Some None => Halt (Fault k)
      | Some (Some _) => Next (mkCfg rest (reg c))
      end
  | IHandOver :: rest => Next (mkCfg rest (reg c))
  | IStoreField :: rest =>
      match reg c with
      | None => Halt Stuck
      | Some None => Halt SilentNull
      | Some (Some _) => Next (mkCfg rest (reg c))
      end
  end.

Fixpoint run (fuel : nat) (orc : oracle) (c : cfg) : outcome :=
  match fuel with
  | O => Stuck
  | S f => match step orc c with Halt o => o | Next c' => run f orc c' end
  end.

(* what the scanner's classification says the code does *)
Definition site_prog (s : site) : list instr :=
  match s_class s with
  | GuardedBeforeUse _ => [IAlloc; ITestNull; IUse UField]
  | GuardedButSwallowed => [IAlloc; ITestCarryOn; IUse UField]
  | UsedUnguarded k    => [IAlloc; IUse k; ITestNull]
  | Returned =>
      (* the raw result leaves the function as its return value: the function is an allocator itself, the
         translator lists every call of it as a site of this same table (s_alloc = this function), and the
         obligation is discharged there *)
      IAlloc :: IHandOver :: (if s_consumers_tested s then [ITestNull; IUse UField] else [IUse UField])
  | Discarded =>
      (* `f(..);` - the value of an allocating function is dropped.  Nothing at this site can dereference it; the
         only consumer is the callee's own NULL test (for the psDynBuf family that test latches the buffer's
         err flag, which the later detach turns into a NULL result - again a site of this table) *)
      [IAlloc; ITestNull]
  | StoredUnchecked =>
      (* stored in a structure field / out-parameter without a test and the function goes on or returns
         success.  The code that reads the field later cannot tell "allocation failed" from "never requested" *)
      [IAlloc; IStoreField]
  | Unknown => [IAlloc; IUse UArg]      (* conservative: an unclassified site is treated as a potential fault *)
  end.

Definition run_site (s : site) (orc : oracle) : outcome :=
  run (S (length (site_prog s))) orc (mkCfg (site_prog s) None).

Definition guarded (s : site) : bool :=
  match s_class s with
  | GuardedBeforeUse _ | Discarded => true
  | Returned => s_consumers_tested s
  | GuardedButSwallowed | StoredUnchecked | UsedUnguarded _ | Unknown => false
  end.

(* GuardedButSwallowed sites reviewed by hand and by fault injection and accepted as benign - each with its reason.
   Everything else of that class counts as a violation: a failure that is swallowed leaves an object whose missing
   part other code reads as "not there" (e.g. a resumption PSK without the server name it was authenticated for). *)
Definition benign_swallowed_keys : list string :=
  [ "sslDecode.c:parseSSLHandshake#4"     (* TLS<=1.2 NewSessionTicket, first ticket: "Don't fail on alloc error. Just won't have
                                              the ticket for next time" - sessionTicketLen is reset to 0 = no ticket, the next
                                              connection does a full handshake (scenario tls12-ticket-renew, every k) *)
  ; "sslDecode.c:parseSSLHandshake#5"     (* same, renewed ticket: old ticket freed, pointer NULL, length 0 (tls12-ticket-renew+del) *)
  ; "x509.c:psSprintAsnOid@asnFormatOid#1" (* diagnostic formatter: prints "(OID cannot be displayed)" instead of the dotted OID *)
  ].

Definition benign_swallowed (s : site) : bool :=
  match s_class s with
  | GuardedButSwallowed => existsb (String.eqb (s_key s)) benign_swallowed_keys
  | _ => false
  end.

(* what the table theorem accepts: guarded, or swallowed-and-reviewed *)
Definition accepted (s : site) : bool := guarded s || benign_swallowed s.

(* no stale entries: every benign key names a site of the current table that really has that class *)
Definition benign_keys_are_swallowed_sites : bool :=
  forallb (fun k => existsb (fun s => String.eqb (s_key s) k && match s_class s with GuardedButSwallowed => true | _ => false end) sites)
          benign_swallowed_keys.

(* Confirmed-but-unrepaired sites (open known findings), by key. *)
Definition known_open_keys : list string :=
  [ "symmetric_libsodium.c:psAesEncryptGCM#1"   (* optional libsodium AES-GCM backend (USE_LIBSODIUM_AES_GCM, not built in configs/default):
                                                    psAesEncryptGCM is void and has no way to report the failed temporary buffer *) ].

Definition known_open (s : site) : bool := existsb (String.eqb (s_key s)) known_open_keys.

Definition checked_sites : list site := filter (fun s => negb (known_open s)) sites.

(* table hygiene, all decided by computation *)
Fixpoint nodup_keys (seen : list string) (l : list site) : bool :=
  match l with
  | [] => true
  | s :: r => negb (existsb (String.eqb (s_key s)) seen) && nodup_keys (s_key s :: seen) r
  end.

(* every key listed as open really names an unguarded site of the current table (a stale entry = failure) *)
Definition known_open_are_unguarded_sites : bool :=
  forallb (fun k => existsb (fun s => String.eqb (s_key s) k && negb (guarded s)) sites) known_open_keys.
