(* C14 - what the property demands, independent of the table layout.

   issued : id -> record of the session this server issued under that identifier (if it is still
   resumable: not evicted, not invalidated by a fatal alert).  A new handshake presents an identifier
   (the bytes and THEIR length), a negotiated version and whether it uses the extended master
   secret.  It may be resumed iff the identifier is one the server issued, the session is still valid,
   not older than LIFE, and version / EMS use match; it then gets exactly that session's secret and suite. *)
From MV Require Import Base.Bytes Gen.ConstsCache Cache.CacheModel.
Local Open Scope Z_scope.

Record srec := mkR {
  r_secret : list N; r_suite : option Z;
  r_maj : Z; r_min : Z; r_ems : Z;          (* 0 / 1: extended master secret used by the original handshake *)
  r_t0 : Z;                                 (* issue time, ms *)
  r_valid : bool }.

Definition issued_map := list N -> option srec.

Record hello := mkH { h_id : list N; h_maj : Z; h_min : Z; h_ems : bool }.

Definition ems_match (r : srec) (h : hello) : bool :=
  negb ((r_ems r =? 0) && h_ems h) && negb ((r_ems r =? 1) && negb (h_ems h)).

Definition spec_resume (issued : issued_map) (now : Z) (h : hello) : option (list N * option Z) :=
  match issued (h_id h) with
  | Some r =>
      if r_valid r && (now - r_t0 r <=? LIFE) && (r_maj r =? h_maj h) && (r_min r =? h_min h) && ems_match r h
      then Some (r_secret r, r_suite r) else None
  | None => None
  end.

(* The identifier a connection presents: the first sessionIdLen bytes of its buffer *)
Definition presented (c : conn) : list N := firstn (Z.to_nat (c_sidlen c)) (c_sid c).
Definition hello_of (c : conn) : hello := mkH (presented c) (c_maj c) (c_min c) (c_ems c).

(* The sessions the cache currently vouches for, read off the table: slot i vouches for the id stored
   in it while its cipher pointer is set (matrixUpdateSession on error and matrixClearSession(remove)
   reset it). *)
Definition abs (st : state) : issued_map := fun id =>
  if Nat.eqb (length id) IDLEN then
    let i := slot_of id in
    if (0 <=? i) && (i <? k_SSL_SESSION_TABLE_SIZE) then
      let e := get st (Z.to_nat i) in
      if beq (e_id e) id then
        match e_cipher e with
        | Some _ => Some (mkR (e_ms e) (e_cipher e) (e_maj e) (e_min e) (e_ems e) (e_start e) true)
        | None => None
        end
      else None
    else None
  else None.

(* ---- tickets: what the server sealed.  A ticket body is name ++ iv ++ ciphertext; the set of
   (MAC key, body) pairs the server produced is the ghost [signed].  Unforgeability of the MAC for the
   ticket under consideration: if its tag verifies under some key, the server MACed exactly this body
   under that key. *)
Definition ticket_body (tk : list N) : list N := firstn (length tk - Z.to_nat k_SHA256_HASHLEN) tk.
Definition ticket_tag (tk : list N) : list N := skipn (length tk - Z.to_nat k_SHA256_HASHLEN) tk.

Definition unforgeable (mac : list N -> list N -> list N) (signed : list (list N * list N)) (tk : list N) : Prop :=
  forall hk, mac hk (ticket_body tk) = ticket_tag tk -> In (hk, ticket_body tk) signed.
