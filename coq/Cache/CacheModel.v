(* C14 - executable model of the server session cache and of RFC 5077 session tickets.

   Source: matrixssl/matrixssl.c  (line numbers of the tree WITH the C14 fixes applied)
     initSessionEntryChronList   1164-1178      matrixRegisterSession   1186-1283
     matrixClearSession          1288-1340      matrixResumeSession     1346-1412
     matrixUpdateSession         1418-1475
     matrixSslDeleteSessionTicketKey 1484-1524  matrixSslLoadSessionTicketKeys 1541-1603
     matrixSessionTicketLen      1609-1620      matrixCreateSessionTicket 1637-1757
     getTicketKeys               1764-1842      matrixUnlockSessionTicket 1846-1975
   callers modelled as composite operations:
     hsDecode.c 515-556 (ClientHello resumption decision, "ticket overrides id")
     extDecode.c 630-690 (session_ticket extension)      matrixssl.c 819-860 (matrixSslDeleteSession)
     sslEncode.c 1120-1153 (fatal alert written by the server)
   core/osdep/POSIX/osdep.c psDiffMsecs (saturating, fix C14-2).

   The model follows the FIXED code (pending-fixes/C14-1..4):
     1 matrixResumeSession compares the full 32-byte id and requires sessionIdLen = 32
     2 psDiffMsecs saturates instead of wrapping at 2^31 ms
     3 a connection carries sessionCacheRef (1 + slot it holds a reference on, 0 = none); Update/Clear
       act on that slot only, never on the slot named by the (client chosen) session id bytes
     4 matrixUpdateSession does not repopulate an entry that was invalidated (cipher = NULL)
   The behaviour of the unfixed code is kept as [resume_orig]/[update_orig]/[clear_orig]/[diff_msecs_orig]
   for the refutation witnesses in CacheProofs.v.

   Conventions: bytes are [list N]; every C integer is a [Z]; the chronological DLList is the list of
   slot indices in list order.  DLListInsertTail of a node that is already linked and DLListRemove of a
   node that is not linked corrupt the C list: the model then sets [s_corrupt] (distinguished result;
   the harness detects the same condition by walking the list and checking every link). *)
From MV Require Import Base.Bytes Gen.ConstsCache.
Local Open Scope Z_scope.

(* ------------------------------------------------------------------ bytes *)
Fixpoint beq (a b : list N) : bool :=
  match a, b with
  | [], [] => true
  | x :: a', y :: b' => N.eqb x y && beq a' b'
  | _, _ => false
  end.

Definition zeros (n : nat) : list N := repeat 0%N n.
Definition bz (b : list N) (i : nat) : Z := Z.of_N (nth i b 0%N).

(* i = (id[3] << 24) + (id[2] << 16) + (id[1] << 8) + id[0], as uint32 *)
Definition slot_of (id : list N) : Z := bz id 0 + 256 * bz id 1 + 65536 * bz id 2 + 16777216 * bz id 3.
Definition le32 (i : Z) : list N :=
  [Z.to_N (i mod 256); Z.to_N ((i / 256) mod 256); Z.to_N ((i / 65536) mod 256); Z.to_N ((i / 16777216) mod 256)].
Definition be32 (i : Z) : list N := rev (le32 i).
Definition be16 (i : Z) : list N := [Z.to_N ((i / 256) mod 256); Z.to_N (i mod 256)].

Definition TBL : nat := Z.to_nat k_SSL_SESSION_TABLE_SIZE.
Definition IDLEN : nat := Z.to_nat k_SSL_MAX_SESSION_ID_SIZE.
Definition MSLEN : nat := Z.to_nat k_SSL_HS_MASTER_SIZE.
Definition LIFE : Z := k_SSL_SESSION_ENTRY_LIFE.

(* ------------------------------------------------------------------ state *)
Record entry := mkE {
  e_id : list N;            (* id[SSL_MAX_SESSION_ID_SIZE] *)
  e_ms : list N;            (* masterSecret[SSL_HS_MASTER_SIZE] *)
  e_cipher : option Z;      (* const sslCipherSpec_t *cipher : None = NULL, Some ident *)
  e_maj : Z; e_min : Z;
  e_ems : Z;                (* short extendedMasterSecret *)
  e_start : Z;              (* startTime, milliseconds of the clock *)
  e_inuse : Z }.

Record conn := mkC {
  c_server : bool; c_closed : bool; c_error : bool; c_resumed : bool;     (* ssl->flags bits *)
  c_sid : list N;           (* ssl->sessionId, always IDLEN bytes *)
  c_sidlen : Z;             (* ssl->sessionIdLen *)
  c_ref : Z;                (* ssl->sessionCacheRef *)
  c_ms : list N;            (* ssl->sec.masterSecret *)
  c_rand : list N;          (* ssl->sec.serverRandom *)
  c_cipher : option Z;      (* ssl->cipher *)
  c_maj : Z; c_min : Z;     (* psEncodeVersionMaj/Min(GET_NGTD_VER(ssl)) *)
  c_ems : bool;             (* ssl->extFlags.extended_master_secret *)
  c_is13 : bool;            (* NGTD_VER(ssl, v_tls_1_3_any) *)
  c_tstate : Z;             (* -1: ssl->sid == NULL, else ssl->sid->sessionTicketState *)
  c_tms : list N;           (* ssl->sid->masterSecret *)
  c_reqems : Z }.           (* ssl->extFlags.require_extended_master_secret (1 bit) *)

Record tkey := mkK { k_name : list N; k_sym : list N; k_symlen : Z; k_hash : list N; k_hashlen : Z; k_inuse : Z }.

Record state := mkS {
  s_tbl : list entry;
  s_chron : list nat;       (* g_sessionChronList, head first *)
  s_now : Z;                (* psGetTime, ms *)
  s_corrupt : bool;
  s_keys : list tkey }.     (* keys->sessTickets *)

Definition entry0 (i : nat) : entry := mkE (le32 (Z.of_nat i) ++ zeros (IDLEN - 4)) (zeros MSLEN) None 0 0 0 0 0.
Definition dummy_entry : entry := mkE [] [] None 0 0 0 0 0.

(* matrixSslOpen: Memset + initSessionEntryChronList *)
Definition init_state (now : Z) : state :=
  mkS (map entry0 (seq 0 TBL)) (seq 0 TBL) now false [].

Definition conn0 : conn :=
  mkC true false false false (zeros IDLEN) 0 0 (zeros MSLEN) (zeros 32) None 3 3 false false (-1) (zeros MSLEN) 0.

Definition get (st : state) (i : nat) : entry := nth i (s_tbl st) dummy_entry.

Fixpoint set_nth {A} (i : nat) (x : A) (l : list A) : list A :=
  match l, i with
  | [], _ => []
  | _ :: r, O => x :: r
  | y :: r, S j => y :: set_nth j x r
  end.

Definition put (st : state) (i : nat) (e : entry) : state :=
  mkS (set_nth i e (s_tbl st)) (s_chron st) (s_now st) (s_corrupt st) (s_keys st).

Definition memb (i : nat) (l : list nat) : bool := existsb (Nat.eqb i) l.

(* DLListInsertTail(&g_sessionChronList, &g_sessionTable[i].chronList) *)
Definition insert_tail (st : state) (i : nat) : state :=
  if memb i (s_chron st)
  then mkS (s_tbl st) (s_chron st) (s_now st) true (s_keys st)
  else mkS (s_tbl st) (s_chron st ++ [i]) (s_now st) (s_corrupt st) (s_keys st).

(* DLListRemove(&g_sessionTable[i].chronList) *)
Definition remove_node (st : state) (i : nat) : state :=
  if memb i (s_chron st)
  then mkS (s_tbl st) (filter (fun j => negb (Nat.eqb i j)) (s_chron st)) (s_now st) (s_corrupt st) (s_keys st)
  else mkS (s_tbl st) (s_chron st) (s_now st) true (s_keys st).

Definition set_chron (st : state) (l : list nat) : state := mkS (s_tbl st) l (s_now st) (s_corrupt st) (s_keys st).
Definition set_keys (st : state) (k : list tkey) : state := mkS (s_tbl st) (s_chron st) (s_now st) (s_corrupt st) k.
Definition tick (st : state) (d : Z) : state := mkS (s_tbl st) (s_chron st) (s_now st + d) (s_corrupt st) (s_keys st).

(* ------------------------------------------------------------------ clock *)
(* psDiffMsecs after fix C14-2: the 64-bit difference saturated to int32 *)
Definition diff_msecs (thn now : Z) : Z :=
  let d := now - thn in
  if d >? 2147483647 then 2147483647 else if d <? -2147483647 then -2147483647 else d.
(* before the fix: (int32) of the difference, i.e. wrap-around *)
Definition wrap_s32 (x : Z) : Z := (x + 2147483648) mod 4294967296 - 2147483648.
Definition diff_msecs_orig (thn now : Z) : Z := wrap_s32 (now - thn).

(* ------------------------------------------------------------------ connection updates *)
Definition c_set_sid (c : conn) (sid : list N) (len : Z) : conn :=
  mkC (c_server c) (c_closed c) (c_error c) (c_resumed c) sid len (c_ref c) (c_ms c) (c_rand c) (c_cipher c)
      (c_maj c) (c_min c) (c_ems c) (c_is13 c) (c_tstate c) (c_tms c) (c_reqems c).
Definition c_set_ref (c : conn) (r : Z) : conn :=
  mkC (c_server c) (c_closed c) (c_error c) (c_resumed c) (c_sid c) (c_sidlen c) r (c_ms c) (c_rand c) (c_cipher c)
      (c_maj c) (c_min c) (c_ems c) (c_is13 c) (c_tstate c) (c_tms c) (c_reqems c).
Definition c_set_flags (c : conn) (closed error resumed : bool) : conn :=
  mkC (c_server c) closed error resumed (c_sid c) (c_sidlen c) (c_ref c) (c_ms c) (c_rand c) (c_cipher c)
      (c_maj c) (c_min c) (c_ems c) (c_is13 c) (c_tstate c) (c_tms c) (c_reqems c).
Definition c_set_secret (c : conn) (ms : list N) (ci : option Z) : conn :=
  mkC (c_server c) (c_closed c) (c_error c) (c_resumed c) (c_sid c) (c_sidlen c) (c_ref c) ms (c_rand c) ci
      (c_maj c) (c_min c) (c_ems c) (c_is13 c) (c_tstate c) (c_tms c) (c_reqems c).
Definition c_set_ticket (c : conn) (ts : Z) (tms : list N) (req : Z) : conn :=
  mkC (c_server c) (c_closed c) (c_error c) (c_resumed c) (c_sid c) (c_sidlen c) (c_ref c) (c_ms c) (c_rand c) (c_cipher c)
      (c_maj c) (c_min c) (c_ems c) (c_is13 c) ts tms req.

(* ------------------------------------------------------------------ matrixRegisterSession *)
(* id[] is an array of SSL_MAX_SESSION_ID_SIZE bytes: keep its first 4, overwrite the rest from serverRandom *)
Definition new_id (old : list N) (rand : list N) : list N :=
  firstn IDLEN (firstn 4 old ++ firstn (IDLEN - 4) rand ++ zeros IDLEN).

Definition register (c : conn) (st : state) : Z * conn * state :=
  if negb (c_server c) then (k_PS_FAILURE, c, st)
  else if c_tstate c =? k_SESS_TICKET_STATE_RECVD_EXT then (k_PS_SUCCESS, c, st)     (* tickets override *)
  else match s_chron st with
  | [] => (k_PS_LIMIT_FAIL, c, st)                                                  (* all in use *)
  | h :: t =>
      let st1 := set_chron st t in                                                  (* DLListGetHead detaches *)
      let i := slot_of (e_id (get st h)) in
      if i >=? k_SSL_SESSION_TABLE_SIZE then (k_PS_LIMIT_FAIL, c, st1)
      else
        let n := Z.to_nat i in
        let e := get st1 n in
        let id := new_id (e_id e) (c_rand c) in
        let e' := mkE id (c_ms c) (c_cipher c) (c_maj c) (c_min c) (if c_ems c then 1 else 0) (s_now st) (e_inuse e + 1) in
        (i, c_set_ref (c_set_sid c id k_SSL_MAX_SESSION_ID_SIZE) (i + 1), put st1 n e')
  end.

(* ------------------------------------------------------------------ matrixClearSession *)
Definition wipe (e : entry) : entry :=
  mkE (firstn IDLEN (firstn 4 (e_id e) ++ zeros IDLEN)) (zeros MSLEN) None (e_maj e) (e_min e) 0 (e_start e) (e_inuse e).

Definition release (st : state) (n : nat) : state :=
  let e := get st n in
  let e' := mkE (e_id e) (e_ms e) (e_cipher e) (e_maj e) (e_min e) (e_ems e) (e_start e) (e_inuse e - 1) in
  let st1 := put st n e' in
  if e_inuse e' =? 0 then insert_tail st1 n else st1.

Definition clear (c : conn) (rm : bool) (st : state) : Z * conn * state :=
  if c_sidlen c <=? 0 then (k_PS_ARG_FAIL, c, st)
  else if c_ref c =? 0 then (k_PS_ARG_FAIL, c, st)
  else
    let i := c_ref c - 1 in
    if i >=? k_SSL_SESSION_TABLE_SIZE then (k_PS_LIMIT_FAIL, c, st)
    else
      let n := Z.to_nat i in
      let st1 := release st n in
      let c1 := c_set_ref c 0 in
      if rm then
        (k_PS_SUCCESS,
         c_set_flags (c_set_sid c1 (zeros IDLEN) 0) (c_closed c1) (c_error c1) false,
         put st1 n (wipe (get st1 n)))
      else (k_PS_SUCCESS, c1, st1).

(* ------------------------------------------------------------------ matrixResumeSession *)
Definition resume (c : conn) (st : state) : Z * conn * state :=
  if negb (c_server c) then (k_PS_ARG_FAIL, c, st)
  else if c_sidlen c <=? 0 then (k_PS_ARG_FAIL, c, st)
  else
    let i := slot_of (c_sid c) in
    if i >=? k_SSL_SESSION_TABLE_SIZE then (k_PS_LIMIT_FAIL, c, st)
    else
      let n := Z.to_nat i in
      let e := get st n in
      match e_cipher e with
      | None => (k_PS_LIMIT_FAIL, c, st)
      | Some _ =>
        if negb (c_sidlen c =? k_SSL_MAX_SESSION_ID_SIZE) || negb (beq (e_id e) (c_sid c))
           || (diff_msecs (e_start e) (s_now st) >? LIFE)
           || negb (e_maj e =? c_maj c) || negb (e_min e =? c_min c)
        then (k_PS_FAILURE, c, st)
        else if (e_ems e =? 0) && c_ems c then (k_PS_FAILURE, c, st)
        else if (e_ems e =? 1) && negb (c_ems c) then (k_PS_FAILURE, c, st)
        else
          let e' := mkE (e_id e) (e_ms e) (e_cipher e) (e_maj e) (e_min e) (e_ems e) (e_start e) (e_inuse e + 1) in
          let st1 := put st n e' in
          let st2 := if e_inuse e' =? 1 then remove_node st1 n else st1 in
          (k_PS_SUCCESS, c_set_ref (c_set_secret c (e_ms e) (e_cipher e)) (i + 1), st2)
      end.

(* ------------------------------------------------------------------ matrixUpdateSession *)
Definition update (c : conn) (st : state) : Z * conn * state :=
  if negb (c_server c) then (k_PS_ARG_FAIL, c, st)
  else if (c_sidlen c =? 0) || (c_ref c =? 0) then (k_PS_LIMIT_FAIL, c, st)
  else
    let i := c_ref c - 1 in
    if i >=? k_SSL_SESSION_TABLE_SIZE then (k_PS_LIMIT_FAIL, c, st)
    else
      let n := Z.to_nat i in
      let '(c1, st1) := if c_closed c then (c_set_ref c 0, release st n) else (c, st) in
      let e := get st1 n in
      if c_error c then
        (k_PS_FAILURE, c1, put st1 n (mkE (e_id e) (zeros MSLEN) None (e_maj e) (e_min e) (e_ems e) (e_start e) (e_inuse e)))
      else match e_cipher e with
      | None => (k_PS_FAILURE, c1, st1)                       (* invalidated entry stays dead (fix 4) *)
      | Some _ =>
        (k_PS_SUCCESS, c1, put st1 n (mkE (e_id e) (c_ms c) (c_cipher c) (e_maj e) (e_min e) (e_ems e) (e_start e) (e_inuse e)))
      end.

(* ------------------------------------------------------------------ callers *)
(* hsDecode.c 515-556; result 1 = no id presented, 2 = ticket in use (standard resumption skipped) *)
Definition client_hello_resume (c : conn) (st : state) : Z * conn * state :=
  if c_sidlen c >? 0 then
    if c_resumed c && (0 <=? c_tstate c) && (c_tstate c =? k_SESS_TICKET_STATE_USING_TICKET) then (2, c, st)
    else
      let '(rc, c1, st1) := resume c st in
      if rc >=? 0 then (rc, c_set_flags c1 (c_closed c1) (c_error c1) true, st1)
      else
        let c2 := c_set_flags c1 (c_closed c1) (c_error c1) false in
        (rc, if c_is13 c2 then c2 else c_set_sid c2 (zeros IDLEN) 0, st1)
  else (1, c, st).

(* matrixSslDeleteSession, cache part; result 1 = matrixUpdateSession not called *)
Definition delete_session (c : conn) (st : state) : Z * conn * state :=
  let c0 := c_set_flags c true (c_error c) (c_resumed c) in
  let '(rc, c1, st1) := if (c_sidlen c0 >? 0) && c_server c0 then update c0 st else (1, c0, st) in
  (rc, c_set_sid (c_set_ticket c1 (-1) (c_tms c1) (c_reqems c1)) (c_sid c1) 0, st1).

(* sslEncodeResponse writing a fatal alert; result 1 = not a server *)
Definition fatal_alert (c : conn) (st : state) : Z * conn * state :=
  let c0 := c_set_flags c (c_closed c) true (c_resumed c) in
  if c_server c0 then clear c0 true st else (1, c0, st).

(* ------------------------------------------------------------------ unfixed code (for refutation witnesses) *)
Fixpoint beq_n (n : nat) (a b : list N) : bool :=                  (* Memcmp(a, b, n) == 0 *)
  match n with
  | O => true
  | S k => match a, b with
           | x :: a', y :: b' => N.eqb x y && beq_n k a' b'
           | _, _ => false
           end
  end.

Definition resume_orig (c : conn) (st : state) : Z * conn * state :=
  if negb (c_server c) then (k_PS_ARG_FAIL, c, st)
  else if c_sidlen c <=? 0 then (k_PS_ARG_FAIL, c, st)
  else
    let i := slot_of (c_sid c) in
    if i >=? k_SSL_SESSION_TABLE_SIZE then (k_PS_LIMIT_FAIL, c, st)
    else
      let n := Z.to_nat i in
      let e := get st n in
      match e_cipher e with
      | None => (k_PS_LIMIT_FAIL, c, st)
      | Some _ =>
        if negb (beq_n (Z.to_nat (Z.min (c_sidlen c) k_SSL_MAX_SESSION_ID_SIZE)) (e_id e) (c_sid c))
           || (diff_msecs_orig (e_start e) (s_now st) >? LIFE)
           || negb (e_maj e =? c_maj c) || negb (e_min e =? c_min c)
        then (k_PS_FAILURE, c, st)
        else if (e_ems e =? 0) && c_ems c then (k_PS_FAILURE, c, st)
        else if (e_ems e =? 1) && negb (c_ems c) then (k_PS_FAILURE, c, st)
        else
          let e' := mkE (e_id e) (e_ms e) (e_cipher e) (e_maj e) (e_min e) (e_ems e) (e_start e) (e_inuse e + 1) in
          let st1 := put st n e' in
          let st2 := if e_inuse e' =? 1 then remove_node st1 n else st1 in
          (k_PS_SUCCESS, c_set_secret c (e_ms e) (e_cipher e), st2)
      end.

(* slot named by the session id bytes of the connection, whoever chose them *)
Definition update_orig (c : conn) (st : state) : Z * conn * state :=
  if negb (c_server c) then (k_PS_ARG_FAIL, c, st)
  else if c_sidlen c =? 0 then (k_PS_LIMIT_FAIL, c, st)
  else
    let i := slot_of (c_sid c) in
    if i >=? k_SSL_SESSION_TABLE_SIZE then (k_PS_LIMIT_FAIL, c, st)
    else
      let n := Z.to_nat i in
      let e0 := get st n in
      let e1 := mkE (e_id e0) (e_ms e0) (e_cipher e0) (e_maj e0) (e_min e0) (e_ems e0) (e_start e0)
                    (e_inuse e0 + (if c_closed c then -1 else 0)) in
      let st0 := put st n e1 in
      let st1 := if e_inuse e1 =? 0 then insert_tail st0 n else st0 in
      let e := get st1 n in
      if c_error c then
        (k_PS_FAILURE, c, put st1 n (mkE (e_id e) (zeros MSLEN) None (e_maj e) (e_min e) (e_ems e) (e_start e) (e_inuse e)))
      else
        (k_PS_SUCCESS, c, put st1 n (mkE (e_id e) (c_ms c) (c_cipher c) (e_maj e) (e_min e) (e_ems e) (e_start e) (e_inuse e))).

Definition clear_orig (c : conn) (rm : bool) (st : state) : Z * conn * state :=
  if c_sidlen c <=? 0 then (k_PS_ARG_FAIL, c, st)
  else
    let i := slot_of (c_sid c) in
    if i >=? k_SSL_SESSION_TABLE_SIZE then (k_PS_LIMIT_FAIL, c, st)
    else
      let n := Z.to_nat i in
      let st1 := release st n in
      if rm then
        (k_PS_SUCCESS, c_set_flags (c_set_sid c (zeros IDLEN) 0) (c_closed c) (c_error c) false, put st1 n (wipe (get st1 n)))
      else (k_PS_SUCCESS, c, st1).

(* ------------------------------------------------------------------ session tickets *)
Section Tickets.
  (* psAesEncryptCBC / psAesDecryptCBC with key (first symkeyLen bytes) and IV; HMAC-SHA256 with key *)
  Variable enc : list N -> list N -> list N -> list N.
  Variable dec : list N -> list N -> list N -> list N.
  Variable mac : list N -> list N -> list N.
  (* sslGetCipherSpec(ssl, id) != NULL *)
  Variable avail : Z -> bool.

  Definition TICKETLEN : Z := k_matrixSessionTicketLen.
  Definition ENCLEN : nat := Z.to_nat (k_SSL_HS_MASTER_SIZE + 2 + 2 + 4 + 1 + k_psPadLenPwr2_57_16).

  (* matrixSslLoadSessionTicketKeys *)
  Definition key_add (name sym : list N) (symlen : Z) (hash : list N) (hashlen : Z) (st : state) : Z * state :=
    if negb (symlen =? 16) && negb (symlen =? 32) then (k_PS_LIMIT_FAIL, st)
    else if negb (hashlen =? 32) then (k_PS_LIMIT_FAIL, st)
    else
      let k := mkK name sym symlen hash hashlen 0 in
      match s_keys st with
      | [] => (k_PS_SUCCESS, set_keys st [k])
      | l => if Z.of_nat (length l) >? k_SSL_SESSION_TICKET_LIST_LEN then (k_PS_LIMIT_FAIL, st)
             else (k_PS_SUCCESS, set_keys st (l ++ [k]))
      end.

  (* matrixSslDeleteSessionTicketKey: first key with inUse == 0 and that name *)
  Fixpoint key_del_list (name : list N) (l : list tkey) : option (list tkey) :=
    match l with
    | [] => None
    | k :: r => if (k_inuse k =? 0) && beq (k_name k) name then Some r
                else match key_del_list name r with Some r' => Some (k :: r') | None => None end
    end.
  Definition key_del (name : list N) (st : state) : Z * state :=
    match key_del_list name (s_keys st) with
    | Some l => (k_PS_SUCCESS, set_keys st l)
    | None => (k_PS_FAILURE, st)
    end.

  Definition now_secs (st : state) : Z := (s_now st / 1000) mod 4294967296.

  (* plaintext under the cipher: version, suite, EMS flag, master secret, timestamp, padding *)
  Definition ticket_plain (c : conn) (suite : Z) (secs : Z) : list N :=
    [Z.to_N (c_maj c); Z.to_N (c_min c)] ++ be16 suite ++ [if c_ems c then 1%N else 0%N] ++ c_ms c ++ be32 secs
    ++ repeat (Z.to_N (k_psPadLenPwr2_57_16 - 1)) (Z.to_nat k_psPadLenPwr2_57_16).

  (* matrixCreateSessionTicket with the first key of the list; None = no key (sslEncode.c never calls it then) *)
  Definition ticket_create (c : conn) (iv : list N) (st : state) : option (list N) :=
    match s_keys st, c_cipher c with
    | k :: _, Some suite =>
        let body := k_name k ++ iv ++ enc (firstn (Z.to_nat (k_symlen k)) (k_sym k)) iv (ticket_plain c suite (now_secs st)) in
        Some (be32 (LIFE / 1000) ++ be16 TICKETLEN ++ body ++ mac (firstn (Z.to_nat (k_hashlen k)) (k_hash k)) body)
    | _, _ => None
    end.

  Fixpoint find_key (name : list N) (l : list tkey) : option tkey :=
    match l with
    | [] => None
    | k :: r => if beq (k_name k) name then Some k else find_key name r
    end.

  Definition skipn_firstn (a n : nat) (l : list N) : list N := firstn n (skipn a l).

  (* matrixUnlockSessionTicket (no ticket callback registered); the key's inUse goes 1 and back to 0 *)
  Definition ticket_unlock (c : conn) (tk : list N) (st : state) : Z * conn :=
    if negb (Z.of_nat (length tk) =? TICKETLEN) then (k_PS_FAILURE, c)
    else match find_key (firstn 16 tk) (s_keys st) with
    | None => (k_PS_FAILURE, c)
    | Some k =>
      let maclen := Z.to_nat k_SHA256_HASHLEN in
      let covered := firstn (length tk - maclen) tk in
      let h := mac (firstn (Z.to_nat (k_hashlen k)) (k_hash k)) covered in
      let iv := skipn_firstn 16 16 tk in
      let pt := dec (firstn (Z.to_nat (k_symlen k)) (k_sym k)) iv (skipn_firstn 32 (length tk - 32 - maclen) tk) in
      if negb (beq h (skipn (length tk - maclen) tk)) then (k_PS_FAILURE, c)
      else if negb (bz pt 0 =? c_maj c) || negb (bz pt 1 =? c_min c) then (k_PS_FAILURE, c)
      else
        let suite := 256 * bz pt 2 + bz pt 3 in
        if negb (avail suite) then (k_PS_FAILURE, c_set_secret c (c_ms c) None)           (* ssl->cipher = NULL *)
        else
          let c1 := c_set_secret c (c_ms c) (Some suite) in
          if (bz pt 4 =? 0) && (c_reqems c1 =? 1) then (k_PS_FAILURE, c1)
          else
            let c2 := c_set_ticket c1 (c_tstate c1) (skipn_firstn 5 MSLEN pt) (bz pt 4 mod 2) in
            let t := 16777216 * bz pt 53 + 65536 * bz pt 54 + 256 * bz pt 55 + bz pt 56 in
            if ((now_secs st - t) mod 4294967296) >? LIFE / 1000 then (k_PS_FAILURE, c2)
            else (k_PS_SUCCESS, c2)
    end.

  (* extDecode.c EXT_SESSION_TICKET with a non-empty ticket *)
  Definition ticket_ext (c : conn) (tk : list N) (st : state) : Z * conn :=
    let c0 := if c_tstate c <? 0 then c_set_ticket c 0 (zeros MSLEN) (c_reqems c) else c in
    let '(rc, c1) := ticket_unlock c0 tk st in
    if rc =? k_PS_SUCCESS then
      (rc, c_set_secret (c_set_flags (c_set_ticket c1 k_SESS_TICKET_STATE_USING_TICKET (c_tms c1) (c_reqems c1)) (c_closed c1) (c_error c1) true)
                        (c_tms c1) (c_cipher c1))
    else
      let c2 := if c_sidlen c1 >? 0 then c_set_sid c1 (zeros IDLEN) 0 else c1 in
      (rc, c_set_ticket c2 (match s_keys st with [] => k_SESS_TICKET_STATE_INIT | _ => k_SESS_TICKET_STATE_RECVD_EXT end)
                        (c_tms c2) (c_reqems c2)).

  (* ---- getTicketKeys with the application's ticket callback (matrixSslSetSessionTicketCallback; matrixssl.c
     1791-1865).  The callback gets the key name and whether the key was found in the local list; it returns
     < 0 (CbReject), >= 0 (CbAccept), or loads a key with matrixSslLoadSessionTicketKeys and returns >= 0 (CbLoad).
     A ticket is honoured only if the callback, when one is registered, did not reject it; when the key was not in
     the list the callback must have appended one of that name (the LAST key of the list is checked). *)
  Inductive cb_verdict := CbAccept | CbReject | CbLoad (name sym : list N) (symlen : Z) (hash : list N) (hashlen : Z).
  Definition cbfun := list N -> bool -> cb_verdict.

  Definition last_key (l : list tkey) : option tkey := match rev l with [] => None | k :: _ => Some k end.

  Definition get_ticket_keys (cb : option cbfun) (name : list N) (st : state) : option tkey * state :=
    match cb with
    | None => (find_key name (s_keys st), st)
    | Some f =>
      let found := find_key name (s_keys st) in
      let v := f name (match found with Some _ => true | None => false end) in
      match v with
      | CbReject => (None, st)
      | _ =>
        let st1 := match v with CbLoad n s sl h hl => snd (key_add n s sl h hl st) | _ => st end in
        match found with
        | Some k => (Some k, st1)                      (* cached key, callback agreed *)
        | None => match last_key (s_keys st1) with     (* "it's been found and added at end of list. confirm this" *)
                  | Some k => if beq (k_name k) name then (Some k, st1) else (None, st1)
                  | None => (None, st1)
                  end
        end
      end
    end.

  (* matrixUnlockSessionTicket with an optional callback: the rest of the function works on the key chosen above *)
  Definition ticket_unlock_cb (cb : option cbfun) (c : conn) (tk : list N) (st : state) : Z * conn * state :=
    if negb (Z.of_nat (length tk) =? TICKETLEN) then (k_PS_FAILURE, c, st)
    else match get_ticket_keys cb (firstn 16 tk) st with
    | (None, st1) => (k_PS_FAILURE, c, st1)
    | (Some k, st1) => let '(rc, c1) := ticket_unlock c tk (set_keys st1 [k]) in (rc, c1, st1)
    end.

  Definition ticket_ext_cb (cb : option cbfun) (c : conn) (tk : list N) (st : state) : Z * conn * state :=
    let c0 := if c_tstate c <? 0 then c_set_ticket c 0 (zeros MSLEN) (c_reqems c) else c in
    let '(rc, c1, st1) := ticket_unlock_cb cb c0 tk st in
    if rc =? k_PS_SUCCESS then
      (rc, c_set_secret (c_set_flags (c_set_ticket c1 k_SESS_TICKET_STATE_USING_TICKET (c_tms c1) (c_reqems c1)) (c_closed c1) (c_error c1) true)
                        (c_tms c1) (c_cipher c1), st1)
    else
      let c2 := if c_sidlen c1 >? 0 then c_set_sid c1 (zeros IDLEN) 0 else c1 in
      (rc, c_set_ticket c2 (match s_keys st1 with [] => k_SESS_TICKET_STATE_INIT | _ => k_SESS_TICKET_STATE_RECVD_EXT end)
                        (c_tms c2) (c_reqems c2), st1).
End Tickets.

(* ------------------------------------------------------------------ TLS 1.3 tickets: the sealed session parameters
   tls13Resume.c: tls13GetCurrSessParams + tls13NewTicket (lifetime, issue time sealed into the ticket) and
   tls13ValidateSessionParams 675-725 (server side, after the ticket was decrypted; fix C14-5 added the lifetime
   test).  Only the parameter handling is modelled: AES-GCM sealing, PSK derivation and binders are not. *)
Record t13params := mkP { p_maj : Z; p_min : Z; p_cipher : Z; p_life : Z (* seconds *); p_stamp : Z (* ms *) }.

(* tls13WriteNewSessionTicket (tls13Encode.c 1415-1490): ticketLifetime = TLS_1_3_TICKET_LIFETIME, timestamp = now *)
Definition tls13_issue (c : conn) (suite : Z) (st : state) : t13params :=
  mkP (c_maj c) (c_min c) suite k_TLS_1_3_TICKET_LIFETIME (s_now st).

(* tls13ValidateSessionParams: (return code, ssl->err) *)
Definition tls13_validate (c : conn) (suite : Z) (p : t13params) (st : state) : Z * Z :=
  if negb ((p_maj p =? c_maj c) && (p_min p =? c_min c)) then (k_MATRIXSSL_ERROR, k_SSL_ALERT_HANDSHAKE_FAILURE)
  else if negb (p_cipher p =? suite) then (k_MATRIXSSL_ERROR, k_SSL_ALERT_HANDSHAKE_FAILURE)
  else if c_server c then
    let age := diff_msecs (p_stamp p) (s_now st) in
    if (age <? 0) || ((age / 1000) mod 4294967296 >? p_life p) then (k_MATRIXSSL_ERROR, k_SSL_ALERT_HANDSHAKE_FAILURE)
    else (k_PS_SUCCESS, k_SSL_ALERT_NONE)
  else (k_PS_SUCCESS, k_SSL_ALERT_NONE).

(* ------------------------------------------------------------------ histories over many connections *)
Inductive op :=
| ONew (k : nat) (c : conn)              (* a fresh connection object takes the place of connection k *)
| OSid (k : nat) (sid : list N) (len : Z) (* ClientHello parser stores the presented id (sid is IDLEN bytes) *)
| OFlag (k : nat) (closed error resumed : bool)
| OReg (k : nat) | ORes (k : nat) | OUpd (k : nat) | OClr (k : nat) (rm : bool)
| OChr (k : nat) | ODel (k : nat) | OAlert (k : nat)
| OTick (d : Z).

Definition getc (cs : list conn) (k : nat) : conn := nth k cs conn0.

Definition lift (f : conn -> state -> Z * conn * state) (k : nat) (cs : list conn) (st : state) : Z * list conn * state :=
  if Nat.ltb k (length cs) then let '(rc, c, st') := f (getc cs k) st in (rc, set_nth k c cs, st') else (-1000, cs, st).

(* matrixSslNewServerSession: Memset(ssl, 0) - no id, no cache reference *)
Definition fresh (c : conn) : conn := c_set_ref (c_set_sid c (zeros IDLEN) 0) 0.

Definition norm_sid (sid : list N) : list N := firstn IDLEN (sid ++ zeros IDLEN).

Definition step (o : op) (cs : list conn) (st : state) : Z * list conn * state :=
  match o with
  | ONew k c => let c' := fresh c in (0, if Nat.ltb k (length cs) then set_nth k c' cs else cs ++ [c'], st)
  | OSid k sid len => lift (fun c s => (0, let c1 := c_set_sid c (norm_sid sid) len in
                                           if len =? 0 then c_set_flags c1 (c_closed c1) (c_error c1) false else c1, s)) k cs st
  | OFlag k a b r => lift (fun c s => (0, c_set_flags c a b r, s)) k cs st
  | OReg k => lift register k cs st
  | ORes k => lift resume k cs st
  | OUpd k => lift update k cs st
  | OClr k rm => lift (fun c s => clear c rm s) k cs st
  | OChr k => lift client_hello_resume k cs st
  | ODel k => lift delete_session k cs st
  | OAlert k => lift fatal_alert k cs st
  | OTick d => (0, cs, tick st d)
  end.

Fixpoint run (ops : list op) (cs : list conn) (st : state) : list conn * state :=
  match ops with
  | [] => (cs, st)
  | o :: r => let '(_, cs', st') := step o cs st in run r cs' st'
  end.
