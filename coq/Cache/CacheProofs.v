(* C14 - proofs about coq/Cache/CacheModel.v against coq/Cache/CacheSpec.v *)
From MV Require Import Base.Bytes Gen.ConstsCache Cache.CacheModel Cache.CacheSpec.
From Coq Require Import Lia ZArith List Bool.
Local Open Scope Z_scope.

(* ------------------------------------------------------------------ bytes *)
Lemma beq_eq : forall a b, beq a b = true <-> a = b.
Proof.
  induction a as [|x a IH]; destruct b as [|y b]; cbn [beq]; split; intro H; try discriminate; auto.
  - apply andb_true_iff in H. destruct H as [H1 H2]. apply N.eqb_eq in H1. apply IH in H2. subst. reflexivity.
  - injection H as -> ->. rewrite N.eqb_refl. cbn. apply IH. reflexivity.
Qed.

Lemma beq_refl : forall a, beq a a = true.
Proof. intro a. apply beq_eq. reflexivity. Qed.

Lemma IDLEN_4 : exists m, IDLEN = S (S (S (S m))).
Proof. eexists. vm_compute. reflexivity. Qed.

Lemma slot_of_app4 : forall l r, (4 <= length l)%nat -> slot_of (firstn IDLEN (firstn 4 l ++ r)) = slot_of l.
Proof.
  intros l r H. destruct IDLEN_4 as [m ->]. destruct l as [|a [|b [|c [|d l]]]]; cbn [length] in H; try lia.
  reflexivity.
Qed.

Lemma zeros_length : forall n, length (zeros n) = n.
Proof. intro. apply repeat_length. Qed.

Lemma length_app4 : forall (l r : list N), (4 <= length l)%nat -> length (firstn IDLEN (firstn 4 l ++ r ++ zeros IDLEN)) = IDLEN.
Proof. intros. rewrite firstn_length, !app_length, firstn_length, zeros_length. lia. Qed.

Lemma IDLEN_ge4 : (4 <= IDLEN)%nat.
Proof. destruct IDLEN_4 as [m ->]. lia. Qed.

(* ------------------------------------------------------------------ set_nth / get / put *)
Lemma set_nth_length : forall A i (x : A) l, length (set_nth i x l) = length l.
Proof. induction i; destruct l; cbn; auto. Qed.

Lemma nth_set_nth : forall A i j (x d : A) l, (i < length l)%nat ->
  nth j (set_nth i x l) d = if Nat.eqb i j then x else nth j l d.
Proof.
  induction i; destruct l; cbn [length set_nth]; intros; try lia.
  - destruct j; reflexivity.
  - destruct j; cbn [nth Nat.eqb]; auto. apply IHi. lia.
Qed.

Lemma nth_set_nth_other : forall A i j (x d : A) l, i <> j -> nth j (set_nth i x l) d = nth j l d.
Proof.
  induction i; destruct l; cbn [set_nth]; intros; auto.
  - destruct j; [lia | reflexivity].
  - destruct j; cbn [nth]; auto.
Qed.

Lemma get_put_same : forall st i e, (i < length (s_tbl st))%nat -> get (put st i e) i = e.
Proof. intros. unfold get, put. cbn [s_tbl]. rewrite nth_set_nth by auto. rewrite Nat.eqb_refl. reflexivity. Qed.

Lemma get_put_other : forall st i j e, i <> j -> get (put st i e) j = get st j.
Proof. intros. unfold get, put. cbn [s_tbl]. apply nth_set_nth_other. auto. Qed.

Lemma memb_In : forall i l, memb i l = true <-> In i l.
Proof.
  intros. unfold memb. rewrite existsb_exists. split.
  - intros [x [H1 H2]]. apply Nat.eqb_eq in H2. subst. auto.
  - intro H. exists i. split; auto. apply Nat.eqb_refl.
Qed.

Lemma memb_false : forall i l, memb i l = false <-> ~ In i l.
Proof. intros. rewrite <- memb_In. destruct (memb i l); split; intro H; try discriminate; auto. exfalso. apply H. reflexivity. Qed.

Lemma NoDup_snoc : forall (l : list nat) x, NoDup l -> ~ In x l -> NoDup (l ++ [x]).
Proof.
  induction l; cbn; intros x Hn Hx.
  - constructor; auto.
  - inversion Hn; subst. constructor.
    + rewrite in_app_iff. cbn. intros [H|[H|[]]]; auto.
    + apply IHl; auto.
Qed.

(* ------------------------------------------------------------------ holders *)
Definition holdsZ (i : nat) (c : conn) : Z := if c_ref c =? Z.of_nat i + 1 then 1 else 0.
Fixpoint holders (cs : list conn) (i : nat) : Z :=
  match cs with [] => 0 | c :: r => holdsZ i c + holders r i end.

Lemma holdsZ_range : forall i c, 0 <= holdsZ i c <= 1.
Proof. intros. unfold holdsZ. destruct (_ =? _); lia. Qed.

Lemma holders_nonneg : forall cs i, 0 <= holders cs i.
Proof. induction cs; cbn [holders]; intros; [lia|]. pose proof (holdsZ_range i a). specialize (IHcs i). lia. Qed.

Lemma holders_set_nth : forall cs k c' i, (k < length cs)%nat ->
  holders (set_nth k c' cs) i = holders cs i - holdsZ i (nth k cs conn0) + holdsZ i c'.
Proof.
  induction cs as [|c cs IH]; cbn [length]; intros; [lia|].
  destruct k; cbn [set_nth holders nth]; [lia|]. rewrite IH by lia. lia.
Qed.

Lemma holders_app1 : forall cs c i, holders (cs ++ [c]) i = holders cs i + holdsZ i c.
Proof. induction cs; cbn [app holders]; intros; [lia|]. rewrite IHcs. lia. Qed.

Lemma holders_member : forall cs k i, (k < length cs)%nat -> holdsZ i (nth k cs conn0) <= holders cs i.
Proof.
  induction cs as [|c cs IH]; cbn [length]; intros; [lia|].
  destruct k; cbn [holders nth].
  - pose proof (holders_nonneg cs i). lia.
  - specialize (IH k i). pose proof (holdsZ_range i c). lia.
Qed.

(* ------------------------------------------------------------------ invariant *)
Lemma TBL_Z : Z.of_nat TBL = k_SSL_SESSION_TABLE_SIZE.
Proof. reflexivity. Qed.

Record TInv (st : state) : Prop := mkTInv {
  I_len : length (s_tbl st) = TBL;
  I_id : forall i, (i < TBL)%nat -> slot_of (e_id (get st i)) = Z.of_nat i /\ length (e_id (get st i)) = IDLEN;
  I_nodup : NoDup (s_chron st);
  I_range : forall i, In i (s_chron st) -> (i < TBL)%nat;
  I_chron : forall i, (i < TBL)%nat -> (In i (s_chron st) <-> e_inuse (get st i) = 0);
  I_ok : s_corrupt st = false }.

Definition HInv (cs : list conn) (st : state) : Prop :=
  Forall (fun c => 0 <= c_ref c) cs /\
  forall i, (i < TBL)%nat -> holders cs i <= e_inuse (get st i).

Definition Inv (cs : list conn) (st : state) : Prop := TInv st /\ HInv cs st.

Lemma inuse_nonneg : forall cs st i, Inv cs st -> (i < TBL)%nat -> 0 <= e_inuse (get st i).
Proof. intros cs st i [_ [_ H]] Hi. specialize (H i Hi). pose proof (holders_nonneg cs i). lia. Qed.

(* an entry is replaced by one with the same in-use count and an id that still names its slot *)
Lemma TInv_put_keep : forall st n e', TInv st -> (n < TBL)%nat ->
  e_inuse e' = e_inuse (get st n) -> slot_of (e_id e') = Z.of_nat n -> length (e_id e') = IDLEN ->
  TInv (put st n e').
Proof.
  intros st n e' [Hl Hid Hnd Hr Hc Hok] Hn Hu Hs H4.
  constructor; cbn [put s_tbl s_chron s_corrupt]; auto.
  - rewrite set_nth_length. auto.
  - intros i Hi. destruct (Nat.eq_dec n i) as [->|Hne].
    + rewrite get_put_same by lia. auto.
    + rewrite get_put_other by auto. auto.
  - intros i Hi. destruct (Nat.eq_dec n i) as [->|Hne].
    + rewrite get_put_same by lia. rewrite Hu. auto.
    + rewrite get_put_other by auto. auto.
Qed.

Definition dec_entry (e : entry) : entry :=
  mkE (e_id e) (e_ms e) (e_cipher e) (e_maj e) (e_min e) (e_ems e) (e_start e) (e_inuse e - 1).
Definition inc_entry (e : entry) : entry :=
  mkE (e_id e) (e_ms e) (e_cipher e) (e_maj e) (e_min e) (e_ems e) (e_start e) (e_inuse e + 1).

Lemma release_get : forall st n j, (n < length (s_tbl st))%nat ->
  get (release st n) j = if Nat.eqb n j then dec_entry (get st n) else get st j.
Proof.
  intros. unfold release. fold (dec_entry (get st n)).
  assert (G : get (put st n (dec_entry (get st n))) j = if Nat.eqb n j then dec_entry (get st n) else get st j).
  { destruct (Nat.eqb_spec n j) as [->|Hne]; [apply get_put_same; auto | apply get_put_other; auto]. }
  destruct (e_inuse (dec_entry (get st n)) =? 0); [|exact G].
  unfold insert_tail. destruct (memb n _); exact G.
Qed.

Lemma release_misc : forall st n, s_now (release st n) = s_now st /\ s_keys (release st n) = s_keys st
  /\ length (s_tbl (release st n)) = length (s_tbl st).
Proof.
  intros. unfold release. destruct (_ =? 0); unfold insert_tail; try destruct (memb _ _); cbn; rewrite ?set_nth_length; auto.
Qed.

Lemma release_chron : forall st n, ~ In n (s_chron st) ->
  s_chron (release st n) = (if e_inuse (get st n) - 1 =? 0 then s_chron st ++ [n] else s_chron st)
  /\ s_corrupt (release st n) = s_corrupt st.
Proof.
  intros st n Hn. unfold release. cbn [e_inuse].
  destruct (e_inuse (get st n) - 1 =? 0); [|cbn; auto].
  unfold insert_tail. cbn [put s_chron].
  assert (M : memb n (s_chron st) = false) by (apply memb_false; exact Hn).
  rewrite M. cbn. auto.
Qed.

Lemma release_TInv : forall st n, TInv st -> (n < TBL)%nat -> 1 <= e_inuse (get st n) -> TInv (release st n).
Proof.
  intros st n T Hn H1. pose proof T as [Hl Hid Hnd Hr Hc Hok].
  assert (Hlen : (n < length (s_tbl st))%nat) by lia.
  assert (Hnot : ~ In n (s_chron st)). { intro Hin. apply Hc in Hin; auto. lia. }
  assert (G : forall j, get (release st n) j = if Nat.eqb n j then dec_entry (get st n) else get st j)
    by (intro; apply release_get; auto).
  destruct (release_misc st n) as [_ [_ Hl']].
  destruct (release_chron st n Hnot) as [Hch Hco].
  constructor.
  - lia.
  - intros i Hi. rewrite G. destruct (Nat.eqb_spec n i) as [->|]; [cbn [dec_entry e_id]|]; apply Hid; auto.
  - rewrite Hch. destruct (_ =? 0); auto. apply NoDup_snoc; auto.
  - rewrite Hch. intros i Hi. destruct (_ =? 0); auto. apply in_app_or in Hi. destruct Hi as [Hi|[<-|[]]]; auto.
  - intros i Hi. rewrite Hch, G. destruct (e_inuse (get st n) - 1 =? 0) eqn:E.
    + apply Z.eqb_eq in E. rewrite in_app_iff. destruct (Nat.eqb_spec n i) as [->|Hne].
      * cbn [dec_entry e_inuse]. split; intro; [exact E | right; left; reflexivity].
      * rewrite <- Hc by auto. split; [intros [H|[H|[]]]; [auto | contradiction] | auto].
    + apply Z.eqb_neq in E. destruct (Nat.eqb_spec n i) as [->|Hne].
      * cbn [dec_entry e_inuse]. split; intro H; contradiction.
      * apply Hc; auto.
  - rewrite Hco. auto.
Qed.

(* ------------------------------------------------------------------ connection k is replaced *)
Lemma Forall_set_nth : forall A (P : A -> Prop) k x l, Forall P l -> P x -> Forall P (set_nth k x l).
Proof. induction k; destruct l; cbn [set_nth]; intros Hf Hx; auto; inversion Hf; subst; constructor; auto. Qed.

Lemma Forall_nth_conn : forall (P : conn -> Prop) cs k, Forall P cs -> (k < length cs)%nat -> P (nth k cs conn0).
Proof. intros. rewrite Forall_forall in H. apply H. apply nth_In. auto. Qed.

Lemma HInv_set : forall cs st st' k c'', HInv cs st -> (k < length cs)%nat -> 0 <= c_ref c'' ->
  (forall j, (j < TBL)%nat -> holders cs j - holdsZ j (nth k cs conn0) + holdsZ j c'' <= e_inuse (get st' j)) ->
  HInv (set_nth k c'' cs) st'.
Proof.
  intros cs st st' k c'' [Hf Hh] Hk H0 H. split.
  - apply Forall_set_nth; auto.
  - intros j Hj. rewrite holders_set_nth by auto. auto.
Qed.

Lemma holdsZ_ref : forall i c c', c_ref c = c_ref c' -> holdsZ i c = holdsZ i c'.
Proof. intros. unfold holdsZ. rewrite H. reflexivity. Qed.

(* nothing but fields other than the cache reference of connection k changed *)
Lemma Inv_same_ref : forall cs st k c'', Inv cs st -> (k < length cs)%nat -> c_ref c'' = c_ref (nth k cs conn0) ->
  Inv (set_nth k c'' cs) st.
Proof.
  intros cs st k c'' [T H] Hk Hr. split; auto.
  pose proof H as [Hf Hh].
  apply HInv_set with (st := st); auto.
  - rewrite Hr. apply (Forall_nth_conn (fun c => 0 <= c_ref c)); auto.
  - intros j Hj. rewrite (holdsZ_ref j c'' (nth k cs conn0)) by auto. specialize (Hh j Hj). lia.
Qed.

Lemma holdsZ_to_nat : forall c, 1 <= c_ref c -> holdsZ (Z.to_nat (c_ref c - 1)) c = 1.
Proof. intros. unfold holdsZ. rewrite Z2Nat.id by lia. replace (c_ref c - 1 + 1) with (c_ref c) by lia. rewrite Z.eqb_refl. reflexivity. Qed.

Lemma holdsZ_other : forall c j, 1 <= c_ref c -> j <> Z.to_nat (c_ref c - 1) -> holdsZ j c = 0.
Proof. intros. unfold holdsZ. destruct (Z.eqb_spec (c_ref c) (Z.of_nat j + 1)); auto. exfalso. apply H0. rewrite e. replace (Z.of_nat j + 1 - 1) with (Z.of_nat j) by lia. rewrite Nat2Z.id. reflexivity. Qed.

Lemma holdsZ_zero : forall c j, c_ref c = 0 -> holdsZ j c = 0.
Proof. intros. unfold holdsZ. rewrite H. destruct (Z.eqb_spec 0 (Z.of_nat j + 1)); auto. lia. Qed.

(* the slot a connection holds is a table slot with a positive count *)
Lemma held_slot : forall cs st k c, Inv cs st -> (k < length cs)%nat -> c_ref c = c_ref (nth k cs conn0) ->
  c_ref c <> 0 -> c_ref c - 1 < k_SSL_SESSION_TABLE_SIZE ->
  1 <= c_ref c /\ (Z.to_nat (c_ref c - 1) < TBL)%nat /\ 1 <= e_inuse (get st (Z.to_nat (c_ref c - 1))).
Proof.
  intros cs st k c [T [Hf Hh]] Hk Hr Hnz Hlt.
  assert (H0 : 0 <= c_ref c). { rewrite Hr. apply (Forall_nth_conn (fun c => 0 <= c_ref c)); auto. }
  assert (H1 : 1 <= c_ref c) by lia.
  assert (Hn : (Z.to_nat (c_ref c - 1) < TBL)%nat). { apply Nat2Z.inj_lt. rewrite Z2Nat.id by lia. rewrite TBL_Z. lia. }
  repeat split; auto.
  specialize (Hh _ Hn). pose proof (holders_member cs k (Z.to_nat (c_ref c - 1)) Hk) as Hm.
  rewrite (holdsZ_ref _ (nth k cs conn0) c) in Hm by auto. rewrite holdsZ_to_nat in Hm by auto. lia.
Qed.

(* releasing the reference held by connection k *)
Lemma release_Inv : forall cs st k c c'', Inv cs st -> (k < length cs)%nat -> c_ref c = c_ref (nth k cs conn0) ->
  c_ref c <> 0 -> c_ref c - 1 < k_SSL_SESSION_TABLE_SIZE -> c_ref c'' = 0 ->
  Inv (set_nth k c'' cs) (release st (Z.to_nat (c_ref c - 1))).
Proof.
  intros cs st k c c'' HI Hk Hr Hnz Hlt H0.
  destruct (held_slot cs st k c HI Hk Hr Hnz Hlt) as [H1 [Hn Hu]].
  destruct HI as [T H]. split.
  - apply release_TInv; auto.
  - pose proof H as [Hf Hh]. apply HInv_set with (st := st); auto; [lia|].
    intros j Hj. rewrite release_get by (rewrite (I_len _ T); auto).
    rewrite (holdsZ_zero c'' j H0). rewrite (holdsZ_ref j (nth k cs conn0) c) by auto.
    destruct (Nat.eqb_spec (Z.to_nat (c_ref c - 1)) j) as [<-|Hne].
    + rewrite holdsZ_to_nat by auto. cbn [dec_entry e_inuse]. specialize (Hh _ Hn). lia.
    + rewrite holdsZ_other by auto. specialize (Hh _ Hj). lia.
Qed.

Lemma Inv_put_keep : forall cs st n e', Inv cs st -> (n < TBL)%nat ->
  e_inuse e' = e_inuse (get st n) -> slot_of (e_id e') = Z.of_nat n -> length (e_id e') = IDLEN ->
  Inv cs (put st n e').
Proof.
  intros cs st n e' [T [Hf Hh]] Hn Hu Hs H4. split; [apply TInv_put_keep; auto|]. split; auto.
  intros j Hj. destruct (Nat.eq_dec n j) as [->|Hne].
  - rewrite get_put_same by (rewrite (I_len _ T); auto). rewrite Hu. auto.
  - rewrite get_put_other by auto. auto.
Qed.

Lemma wipe_keeps : forall st n, TInv st -> (n < TBL)%nat ->
  e_inuse (wipe (get st n)) = e_inuse (get st n) /\ slot_of (e_id (wipe (get st n))) = Z.of_nat n
  /\ length (e_id (wipe (get st n))) = IDLEN.
Proof.
  intros st n T Hn. destruct (I_id _ T n Hn) as [Hs H4]. pose proof IDLEN_ge4. unfold wipe. cbn [e_inuse e_id].
  repeat split; [rewrite slot_of_app4; auto; lia | ].
  rewrite <- (app_nil_l (zeros IDLEN)) at 1. apply length_app4. lia.
Qed.

(* ------------------------------------------------------------------ matrixClearSession *)
Lemma clear_inv : forall cs st k c rm rc c' st',
  Inv cs st -> (k < length cs)%nat -> c_ref c = c_ref (nth k cs conn0) ->
  clear c rm st = (rc, c', st') -> forall c'', c_ref c'' = c_ref c' -> Inv (set_nth k c'' cs) st'.
Proof.
  intros cs st k c rm rc c' st' HI Hk Hr Hc c'' Hr''.
  unfold clear in Hc.
  destruct (c_sidlen c <=? 0). { injection Hc as <- <- <-. apply Inv_same_ref; auto. congruence. }
  destruct (Z.eqb_spec (c_ref c) 0). { injection Hc as <- <- <-. apply Inv_same_ref; auto. congruence. }
  destruct (c_ref c - 1 >=? k_SSL_SESSION_TABLE_SIZE) eqn:E. { injection Hc as <- <- <-. apply Inv_same_ref; auto. congruence. }
  assert (Hlt : c_ref c - 1 < k_SSL_SESSION_TABLE_SIZE) by lia.
  destruct (held_slot cs st k c HI Hk Hr n Hlt) as [H1 [Hn Hu]].
  assert (HR : Inv (set_nth k c'' cs) (release st (Z.to_nat (c_ref c - 1)))).
  { apply release_Inv with (c := c); auto. destruct rm; injection Hc as <- <- <-; rewrite Hr''; reflexivity. }
  destruct rm; injection Hc as <- <- <-; auto.
  destruct HR as [T' H']. destruct (wipe_keeps _ _ T' Hn) as [W1 [W2 W3]].
  apply Inv_put_keep; auto. split; auto.
Qed.

(* ------------------------------------------------------------------ matrixUpdateSession *)
Lemma update_inv : forall cs st k c rc c' st',
  Inv cs st -> (k < length cs)%nat -> c_ref c = c_ref (nth k cs conn0) ->
  update c st = (rc, c', st') -> forall c'', c_ref c'' = c_ref c' -> Inv (set_nth k c'' cs) st'.
Proof.
  intros cs st k c rc c' st' HI Hk Hr Hc c'' Hr''.
  unfold update in Hc.
  destruct (negb (c_server c)). { injection Hc as <- <- <-. apply Inv_same_ref; auto. congruence. }
  destruct (Z.eqb_spec (c_ref c) 0) as [E0|E0].
  { rewrite orb_true_r in Hc. injection Hc as <- <- <-. apply Inv_same_ref; auto. congruence. }
  rewrite orb_false_r in Hc.
  destruct (c_sidlen c =? 0). { injection Hc as <- <- <-. apply Inv_same_ref; auto. congruence. }
  destruct (c_ref c - 1 >=? k_SSL_SESSION_TABLE_SIZE) eqn:E. { injection Hc as <- <- <-. apply Inv_same_ref; auto. congruence. }
  assert (Hlt : c_ref c - 1 < k_SSL_SESSION_TABLE_SIZE) by lia.
  destruct (held_slot cs st k c HI Hk Hr E0 Hlt) as [H1 [Hn Hu]].
  set (n := Z.to_nat (c_ref c - 1)) in *.
  (* the state after the optional release, with connection k already replaced *)
  assert (HR : exists st1 c1, (if c_closed c then (c_set_ref c 0, release st n) else (c, st)) = (c1, st1)
                 /\ forall cx, c_ref cx = c_ref c1 -> Inv (set_nth k cx cs) st1).
  { destruct (c_closed c).
    - eexists; eexists; split; [reflexivity|]. intros cx Hx. apply release_Inv with (c := c); auto.
    - eexists; eexists; split; [reflexivity|]. intros cx Hx. apply Inv_same_ref; auto. congruence. }
  destruct HR as [st1 [c1 [Heq HR]]]. rewrite Heq in Hc.
  assert (Keep : forall e', e_inuse e' = e_inuse (get st1 n) -> e_id e' = e_id (get st1 n) ->
                 forall cx, c_ref cx = c_ref c1 -> Inv (set_nth k cx cs) (put st1 n e')).
  { intros e' Hu' Hid' cx Hx. specialize (HR cx Hx). pose proof HR as [T1 _].
    destruct (I_id _ T1 n Hn) as [Hs H4]. apply Inv_put_keep; auto; rewrite Hid'; auto. }
  destruct (c_error c).
  { injection Hc as <- <- <-. apply Keep; auto. }
  destruct (e_cipher (get st1 n)).
  - injection Hc as <- <- <-. apply Keep; auto.
  - injection Hc as <- <- <-. apply HR; auto.
Qed.

(* ------------------------------------------------------------------ matrixResumeSession *)
Lemma bz_nonneg : forall b i, 0 <= bz b i.
Proof. intros. unfold bz. lia. Qed.

Lemma slot_of_nonneg : forall id, 0 <= slot_of id.
Proof. intro. unfold slot_of. pose proof (bz_nonneg id 0). pose proof (bz_nonneg id 1). pose proof (bz_nonneg id 2). pose proof (bz_nonneg id 3). lia. Qed.

Lemma remove_chron : forall st n, In n (s_chron st) ->
  s_chron (remove_node st n) = filter (fun j => negb (Nat.eqb n j)) (s_chron st) /\ s_corrupt (remove_node st n) = s_corrupt st
  /\ s_tbl (remove_node st n) = s_tbl st.
Proof.
  intros st n Hin. unfold remove_node. assert (M : memb n (s_chron st) = true) by (apply memb_In; auto). rewrite M. cbn. auto.
Qed.

Lemma in_filter_ne : forall n i l, In i (filter (fun j => negb (Nat.eqb n j)) l) <-> In i l /\ n <> i.
Proof.
  intros. rewrite filter_In. split; intros [H1 H2]; split; auto.
  - apply negb_true_iff in H2. apply Nat.eqb_neq in H2. auto.
  - apply negb_true_iff. apply Nat.eqb_neq. auto.
Qed.

(* taking one more reference on slot n *)
Definition acquire (st : state) (n : nat) : state :=
  let st1 := put st n (inc_entry (get st n)) in
  if e_inuse (inc_entry (get st n)) =? 1 then remove_node st1 n else st1.

Lemma acquire_get : forall st n j, (n < length (s_tbl st))%nat ->
  get (acquire st n) j = if Nat.eqb n j then inc_entry (get st n) else get st j.
Proof.
  intros. unfold acquire.
  assert (G : get (put st n (inc_entry (get st n))) j = if Nat.eqb n j then inc_entry (get st n) else get st j).
  { destruct (Nat.eqb_spec n j) as [->|Hne]; [apply get_put_same; auto | apply get_put_other; auto]. }
  destruct (_ =? 1); [|exact G]. unfold remove_node. destruct (memb n _); exact G.
Qed.

Lemma acquire_TInv : forall st n, TInv st -> (n < TBL)%nat -> 0 <= e_inuse (get st n) -> TInv (acquire st n).
Proof.
  intros st n T Hn H0. pose proof T as [Hl Hid Hnd Hr Hc Hok].
  assert (Hlen : (n < length (s_tbl st))%nat) by lia.
  assert (G : forall j, get (acquire st n) j = if Nat.eqb n j then inc_entry (get st n) else get st j)
    by (intro; apply acquire_get; auto).
  assert (S : (e_inuse (get st n) = 0 /\ In n (s_chron st) /\
               s_chron (acquire st n) = filter (fun j => negb (Nat.eqb n j)) (s_chron st) /\ s_corrupt (acquire st n) = s_corrupt st
               /\ length (s_tbl (acquire st n)) = length (s_tbl st))
           \/ (1 <= e_inuse (get st n) /\ s_chron (acquire st n) = s_chron st /\ s_corrupt (acquire st n) = s_corrupt st
               /\ length (s_tbl (acquire st n)) = length (s_tbl st))).
  { unfold acquire. cbn [inc_entry e_inuse]. destruct (Z.eqb_spec (e_inuse (get st n) + 1) 1) as [E|E].
    - left. assert (E0 : e_inuse (get st n) = 0) by lia. assert (Hin : In n (s_chron st)) by (apply Hc; auto).
      destruct (remove_chron (put st n (inc_entry (get st n))) n Hin) as [A [B C]].
      fold (inc_entry (get st n)). rewrite A, B, C. cbn [put s_chron s_corrupt s_tbl]. rewrite set_nth_length. auto.
    - right. cbn [put s_chron s_corrupt s_tbl]. rewrite set_nth_length. repeat split; auto. lia. }
  constructor.
  - destruct S as [[_ [_ [_ [_ L]]]]|[_ [_ [_ L]]]]; lia.
  - intros i Hi. rewrite G. destruct (Nat.eqb_spec n i) as [->|]; [cbn [inc_entry e_id]|]; apply Hid; auto.
  - destruct S as [[_ [_ [A _]]]|[_ [A _]]]; rewrite A; auto. apply NoDup_filter. auto.
  - intros i Hi. destruct S as [[_ [_ [A _]]]|[_ [A _]]]; rewrite A in Hi; auto. apply in_filter_ne in Hi. destruct Hi. auto.
  - intros i Hi. rewrite G. destruct S as [[E0 [Hin [A _]]]|[E1 [A _]]]; rewrite A.
    + rewrite in_filter_ne. destruct (Nat.eqb_spec n i) as [->|Hne].
      * cbn [inc_entry e_inuse]. split; [intros [_ H]; contradiction | lia].
      * rewrite <- Hc by auto. split; [intros [H _]; auto | auto].
    + destruct (Nat.eqb_spec n i) as [->|Hne].
      * cbn [inc_entry e_inuse]. rewrite Hc by auto. lia.
      * apply Hc; auto.
  - destruct S as [[_ [_ [_ [B _]]]]|[_ [_ [B _]]]]; rewrite B; auto.
Qed.

Lemma acquire_Inv : forall cs st k n c'', Inv cs st -> (k < length cs)%nat -> (n < TBL)%nat ->
  c_ref c'' = Z.of_nat n + 1 -> Inv (set_nth k c'' cs) (acquire st n).
Proof.
  intros cs st k n c'' HI Hk Hn Hr. pose proof (inuse_nonneg cs st n HI Hn) as H0. destruct HI as [T H]. split.
  - apply acquire_TInv; auto.
  - pose proof H as [Hf Hh]. apply HInv_set with (st := st); auto; [lia|].
    intros j Hj. rewrite acquire_get by (rewrite (I_len _ T); auto).
    pose proof (holdsZ_range j (nth k cs conn0)). pose proof (holdsZ_range j c''). specialize (Hh j Hj).
    destruct (Nat.eqb_spec n j) as [<-|Hne].
    + cbn [inc_entry e_inuse]. lia.
    + assert (holdsZ j c'' = 0). { unfold holdsZ. rewrite Hr. destruct (Z.eqb_spec (Z.of_nat n + 1) (Z.of_nat j + 1)); auto. lia. }
      lia.
Qed.

Lemma resume_inv : forall cs st k c rc c' st',
  Inv cs st -> (k < length cs)%nat -> c_ref c = c_ref (nth k cs conn0) ->
  resume c st = (rc, c', st') -> forall c'', c_ref c'' = c_ref c' -> Inv (set_nth k c'' cs) st'.
Proof.
  intros cs st k c rc c' st' HI Hk Hr Hc c'' Hr''.
  unfold resume in Hc.
  assert (Same : forall x, (x, c, st) = (rc, c', st') -> Inv (set_nth k c'' cs) st').
  { intros x Hx. injection Hx as <- <- <-. apply Inv_same_ref; auto. congruence. }
  destruct (negb (c_server c)); [eapply Same; eauto|].
  destruct (c_sidlen c <=? 0); [eapply Same; eauto|].
  destruct (slot_of (c_sid c) >=? k_SSL_SESSION_TABLE_SIZE) eqn:E; [eapply Same; eauto|].
  set (n := Z.to_nat (slot_of (c_sid c))) in *.
  destruct (e_cipher (get st n)) eqn:EC; [|eapply Same; eauto].
  destruct (_ || _); [eapply Same; eauto|].
  destruct (_ && _); [eapply Same; eauto|].
  destruct (_ && _); [eapply Same; eauto|].
  rewrite <- EC in Hc. injection Hc as <- <- <-.
  pose proof (slot_of_nonneg (c_sid c)) as H0.
  assert (Hn : (n < TBL)%nat). { apply Nat2Z.inj_lt. unfold n. rewrite Z2Nat.id by lia. rewrite TBL_Z. lia. }
  change (Inv (set_nth k c'' cs) (acquire st n)).
  apply acquire_Inv; auto. rewrite Hr''. cbn [c_set_ref c_ref]. unfold n. rewrite Z2Nat.id by lia. reflexivity.
Qed.

(* ------------------------------------------------------------------ matrixRegisterSession *)
Lemma new_id_slot : forall old rnd, (4 <= length old)%nat -> slot_of (new_id old rnd) = slot_of old /\ length (new_id old rnd) = IDLEN.
Proof. intros. unfold new_id. split; [apply slot_of_app4 | apply length_app4]; auto. Qed.

Lemma get_set_chron : forall st l j, get (set_chron st l) j = get st j.
Proof. reflexivity. Qed.

Lemma register_inv : forall cs st k c rc c' st',
  Inv cs st -> (k < length cs)%nat -> c_ref c = c_ref (nth k cs conn0) ->
  register c st = (rc, c', st') -> forall c'', c_ref c'' = c_ref c' -> Inv (set_nth k c'' cs) st'.
Proof.
  intros cs st k c rc c' st' HI Hk Hr Hc c'' Hr''.
  unfold register in Hc.
  assert (Same : forall x, (x, c, st) = (rc, c', st') -> Inv (set_nth k c'' cs) st').
  { intros x Hx. injection Hx as <- <- <-. apply Inv_same_ref; auto. congruence. }
  destruct (negb (c_server c)); [eapply Same; eauto|].
  destruct (c_tstate c =? _); [eapply Same; eauto|].
  destruct (s_chron st) as [|h t] eqn:Ech; [eapply Same; eauto|].
  pose proof HI as [T [Hf Hh]]. pose proof T as [Hl Hid Hnd Hrg Hcr Hok].
  assert (Hh_in : In h (s_chron st)) by (rewrite Ech; left; reflexivity).
  assert (Hhn : (h < TBL)%nat) by auto.
  destruct (Hid h Hhn) as [Hs H4].
  cbv zeta in Hc. rewrite Hs in Hc. rewrite Nat2Z.id in Hc.
  destruct (Z.of_nat h >=? k_SSL_SESSION_TABLE_SIZE) eqn:E. { exfalso. rewrite <- TBL_Z in E. lia. }
  rewrite get_set_chron in Hc.
  injection Hc as <- <- <-.
  assert (Hu0 : e_inuse (get st h) = 0) by (apply Hcr; auto).
  rewrite Ech in Hnd. inversion Hnd as [|? ? Hnotin Hnd']; subst.
  assert (H4' : (4 <= length (e_id (get st h)))%nat) by (rewrite H4; apply IDLEN_ge4).
  destruct (new_id_slot (e_id (get st h)) (c_rand c) H4') as [Ns N4].
  assert (Hlen1 : (h < length (s_tbl (set_chron st t)))%nat) by (cbn [set_chron s_tbl]; lia).
  split.
  - constructor; cbn [put set_chron s_tbl s_chron s_corrupt]; auto.
    + rewrite set_nth_length. auto.
    + intros i Hi. destruct (Nat.eq_dec h i) as [->|Hne].
      * rewrite get_put_same by auto. cbn [e_id]. rewrite Ns. auto.
      * rewrite get_put_other by auto. apply Hid; auto.
    + intros i Hi. apply Hrg. rewrite Ech. right. auto.
    + intros i Hi. destruct (Nat.eq_dec h i) as [->|Hne].
      * rewrite get_put_same by auto. cbn [e_inuse]. split; [contradiction | lia].
      * rewrite get_put_other by auto. rewrite get_set_chron. rewrite <- Hcr by auto. rewrite Ech. cbn [In].
        split; [auto | intros [H|H]; [contradiction | auto]].
  - apply HInv_set with (st := st); auto; [split; auto | rewrite Hr''; cbn [c_set_ref c_ref]; lia |].
    intros j Hj.
    pose proof (holdsZ_range j (nth k cs conn0)). pose proof (holdsZ_range j c''). specialize (Hh j Hj).
    destruct (Nat.eq_dec h j) as [<-|Hne].
    + rewrite get_put_same by auto. cbn [e_inuse]. pose proof (holders_nonneg cs h). lia.
    + rewrite get_put_other by auto. rewrite get_set_chron. assert (holdsZ j c'' = 0).
      { unfold holdsZ. rewrite Hr''. cbn [c_set_ref c_ref]. destruct (Z.eqb_spec (Z.of_nat h + 1) (Z.of_nat j + 1)); auto. lia. }
      lia.
Qed.

(* ------------------------------------------------------------------ every operation, every history *)
Lemma chr_inv : forall cs st k c rc c' st',
  Inv cs st -> (k < length cs)%nat -> c_ref c = c_ref (nth k cs conn0) ->
  client_hello_resume c st = (rc, c', st') -> Inv (set_nth k c' cs) st'.
Proof.
  intros cs st k c rc c' st' HI Hk Hr Hc. unfold client_hello_resume in Hc.
  destruct (c_sidlen c >? 0); [|injection Hc as <- <- <-; apply Inv_same_ref; auto; congruence].
  destruct (_ && _). { injection Hc as <- <- <-. apply Inv_same_ref; auto. }
  destruct (resume c st) as [[rc1 c1] st1] eqn:ER.
  destruct (rc1 >=? 0); injection Hc as <- <- <-; eapply resume_inv; eauto;
    try reflexivity; try (destruct (c_is13 _); reflexivity).
Qed.

Lemma del_inv : forall cs st k c rc c' st',
  Inv cs st -> (k < length cs)%nat -> c_ref c = c_ref (nth k cs conn0) ->
  delete_session c st = (rc, c', st') -> Inv (set_nth k c' cs) st'.
Proof.
  intros cs st k c rc c' st' HI Hk Hr Hc. unfold delete_session in Hc.
  set (c0 := c_set_flags c true (c_error c) (c_resumed c)) in *.
  destruct (_ && _).
  - destruct (update c0 st) as [[rc1 c1] st1] eqn:EU. injection Hc as <- <- <-.
    eapply update_inv with (c := c0); eauto.
  - injection Hc as <- <- <-. apply Inv_same_ref; auto.
Qed.

Lemma alert_inv : forall cs st k c rc c' st',
  Inv cs st -> (k < length cs)%nat -> c_ref c = c_ref (nth k cs conn0) ->
  fatal_alert c st = (rc, c', st') -> Inv (set_nth k c' cs) st'.
Proof.
  intros cs st k c rc c' st' HI Hk Hr Hc. unfold fatal_alert in Hc.
  set (c0 := c_set_flags c (c_closed c) true (c_resumed c)) in *.
  destruct (c_server c0).
  - eapply clear_inv with (c := c0); eauto.
  - injection Hc as <- <- <-. apply Inv_same_ref; auto.
Qed.

Lemma lift_inv : forall (f : conn -> state -> Z * conn * state) cs st k rc cs' st',
  (forall c rc c' st', (k < length cs)%nat -> c_ref c = c_ref (nth k cs conn0) -> f c st = (rc, c', st') -> Inv (set_nth k c' cs) st') ->
  Inv cs st -> lift f k cs st = (rc, cs', st') -> Inv cs' st'.
Proof.
  intros f cs st k rc cs' st' Hf HI Hl. unfold lift in Hl.
  destruct (Nat.ltb_spec k (length cs)).
  - unfold getc in Hl. destruct (f (nth k cs conn0) st) as [[rc1 c1] st1] eqn:E. injection Hl as <- <- <-.
    eapply Hf; eauto.
  - injection Hl as <- <- <-. auto.
Qed.

Lemma tick_inv : forall cs st d, Inv cs st -> Inv cs (tick st d).
Proof. intros cs st d [[Hl Hid Hnd Hr Hc Hok] H]. split; [constructor; auto | exact H]. Qed.

Lemma step_inv : forall o cs st rc cs' st', Inv cs st -> step o cs st = (rc, cs', st') -> Inv cs' st'.
Proof.
  intros o cs st rc cs' st' HI Hs. destruct o; cbn [step] in Hs.
  - (* ONew *) injection Hs as <- <- <-. destruct HI as [T [Hf Hh]]. split; auto.
    destruct (Nat.ltb_spec k (length cs)).
    + apply HInv_set with (st := st); auto; [split; auto | cbn; lia |].
      intros j Hj. rewrite (holdsZ_zero (fresh c) j) by reflexivity. pose proof (holdsZ_range j (nth k cs conn0)). specialize (Hh j Hj). lia.
    + split.
      * apply Forall_app. split; auto. constructor; auto. cbn. lia.
      * intros j Hj. rewrite holders_app1. rewrite (holdsZ_zero (fresh c) j) by reflexivity. specialize (Hh j Hj). lia.
  - (* OSid *) eapply lift_inv; [|eauto|eauto]. intros c rc0 c' st0 Hk Hr E. injection E as <- <- <-.
    apply Inv_same_ref; auto. rewrite <- Hr. destruct (len =? 0); reflexivity.
  - (* OFlag *) eapply lift_inv; [|eauto|eauto]. intros c rc0 c' st0 Hk Hr E. injection E as <- <- <-.
    apply Inv_same_ref; auto.
  - eapply lift_inv; [|eauto|eauto]. intros c rc0 c' st0 Hk Hr E. eapply register_inv with (c := c) (c' := c'); eauto.
  - eapply lift_inv; [|eauto|eauto]. intros c rc0 c' st0 Hk Hr E. eapply resume_inv with (c := c) (c' := c'); eauto.
  - eapply lift_inv; [|eauto|eauto]. intros c rc0 c' st0 Hk Hr E. eapply update_inv with (c := c) (c' := c'); eauto.
  - eapply lift_inv; [|eauto|eauto]. intros c rc0 c' st0 Hk Hr E. cbv beta in E. eapply clear_inv with (c := c) (c' := c'); eauto.
  - eapply lift_inv; [|eauto|eauto]. intros c rc0 c' st0 Hk Hr E. eapply chr_inv with (c := c); eauto.
  - eapply lift_inv; [|eauto|eauto]. intros c rc0 c' st0 Hk Hr E. eapply del_inv with (c := c); eauto.
  - eapply lift_inv; [|eauto|eauto]. intros c rc0 c' st0 Hk Hr E. eapply alert_inv with (c := c); eauto.
  - injection Hs as <- <- <-. apply tick_inv. auto.
Qed.

Lemma run_inv : forall ops cs st cs' st', Inv cs st -> run ops cs st = (cs', st') -> Inv cs' st'.
Proof.
  induction ops as [|o ops IH]; cbn [run]; intros cs st cs' st' HI Hr.
  - injection Hr as <- <-. auto.
  - destruct (step o cs st) as [[rc cs1] st1] eqn:E. eapply IH; [|eauto]. eapply step_inv; eauto.
Qed.

(* matrixSslOpen *)
Lemma init_ids : forallb (fun i => (slot_of (e_id (entry0 i)) =? Z.of_nat i) && (length (e_id (entry0 i)) =? IDLEN)%nat
                                    && (e_inuse (entry0 i) =? 0)) (seq 0 TBL) = true.
Proof. vm_compute. reflexivity. Qed.

Lemma get_init : forall now i, (i < TBL)%nat -> get (init_state now) i = entry0 i.
Proof.
  intros. unfold get, init_state. cbn [s_tbl].
  rewrite nth_indep with (d' := entry0 0) by (rewrite map_length, seq_length; auto).
  rewrite map_nth with (d := O). rewrite seq_nth by auto. reflexivity.
Qed.

Lemma holders_fresh : forall cs i, Forall (fun c => c_ref c = 0) cs -> holders cs i = 0.
Proof. induction cs; cbn [holders]; intros i H; auto. inversion H; subst. rewrite IHcs by auto. rewrite holdsZ_zero by auto. reflexivity. Qed.

Lemma init_inv : forall now cs, Forall (fun c => c_ref c = 0) cs -> Inv cs (init_state now).
Proof.
  intros now cs Hf.
  assert (A : forall i, (i < TBL)%nat -> slot_of (e_id (entry0 i)) = Z.of_nat i /\ length (e_id (entry0 i)) = IDLEN /\ e_inuse (entry0 i) = 0).
  { intros i Hi. pose proof init_ids as F. rewrite forallb_forall in F. specialize (F i). rewrite in_seq in F.
    assert (H : (0 <= i < 0 + TBL)%nat) by lia. apply F in H. apply andb_true_iff in H. destruct H as [H H3]. apply andb_true_iff in H. destruct H as [H1 H2].
    apply Z.eqb_eq in H1. apply Nat.eqb_eq in H2. apply Z.eqb_eq in H3. auto. }
  split; [constructor|split].
  - cbn. rewrite map_length, seq_length. reflexivity.
  - intros i Hi. rewrite get_init by auto. destruct (A i Hi) as [? [? ?]]. auto.
  - cbn [init_state s_chron]. apply seq_NoDup.
  - cbn [init_state s_chron]. intros i Hi. apply in_seq in Hi. lia.
  - intros i Hi. rewrite get_init by auto. destruct (A i Hi) as [? [? ?]]. cbn [init_state s_chron]. rewrite in_seq. split; auto. lia.
  - reflexivity.
  - eapply Forall_impl; [|exact Hf]. cbn. intros. lia.
  - intros i Hi. rewrite holders_fresh by auto. rewrite get_init by auto. destruct (A i Hi) as [? [? ->]]. lia.
Qed.

(* Invariant for ALL histories over any number of connections *)
Theorem invariant_all_histories : forall ops now cs0 cs st,
  Forall (fun c => c_ref c = 0) cs0 -> run ops cs0 (init_state now) = (cs, st) -> Inv cs st.
Proof. intros. eapply run_inv; [apply init_inv|]; eauto. Qed.

(* ================================================================== resume refines the specification *)
Lemma LIFE_small : 0 <= LIFE < 2147483647.
Proof. vm_compute. split; [discriminate | reflexivity]. Qed.

Lemma diff_msecs_spec : forall t0 now, (diff_msecs t0 now >? LIFE) = negb (now - t0 <=? LIFE).
Proof.
  intros. pose proof LIFE_small. unfold diff_msecs.
  assert (G : forall x, (x >? LIFE) = negb (x <=? LIFE)).
  { intro x. destruct (Z.gtb_spec x LIFE); destruct (Z.leb_spec x LIFE); cbn; auto; lia. }
  destruct (Z.gtb_spec (now - t0) 2147483647).
  - rewrite G. destruct (Z.leb_spec 2147483647 LIFE); destruct (Z.leb_spec (now - t0) LIFE); cbn; auto; lia.
  - destruct (Z.ltb_spec (now - t0) (-2147483647)).
    + rewrite G. destruct (Z.leb_spec (-2147483647) LIFE); destruct (Z.leb_spec (now - t0) LIFE); cbn; auto; lia.
    + apply G.
Qed.

(* a connection as the ClientHello parser leaves it: 32-byte buffer, length 0..32 (hsDecode.c 216-231) *)
Definition wf_conn (c : conn) : Prop := length (c_sid c) = IDLEN /\ 0 <= c_sidlen c <= k_SSL_MAX_SESSION_ID_SIZE.

Lemma IDLEN_Z : Z.of_nat IDLEN = k_SSL_MAX_SESSION_ID_SIZE.
Proof. reflexivity. Qed.

Lemma presented_full : forall c, length (c_sid c) = IDLEN -> c_sidlen c = k_SSL_MAX_SESSION_ID_SIZE -> presented c = c_sid c.
Proof. intros c Hl Hs. unfold presented. rewrite Hs, <- IDLEN_Z, Nat2Z.id, <- Hl. apply firstn_all. Qed.

Lemma presented_length : forall c, wf_conn c -> length (presented c) = Z.to_nat (c_sidlen c).
Proof. intros c [Hl [H0 H1]]. unfold presented. rewrite firstn_length, Hl. rewrite <- IDLEN_Z in H1. lia. Qed.

Definition resume_ok (c : conn) (st : state) : bool :=
  let n := Z.to_nat (slot_of (c_sid c)) in let e := get st n in
  c_server c && (0 <? c_sidlen c) && (slot_of (c_sid c) <? k_SSL_SESSION_TABLE_SIZE)
  && (match e_cipher e with Some _ => true | None => false end)
  && (c_sidlen c =? k_SSL_MAX_SESSION_ID_SIZE) && beq (e_id e) (c_sid c)
  && (s_now st - e_start e <=? LIFE) && (e_maj e =? c_maj c) && (e_min e =? c_min c)
  && negb ((e_ems e =? 0) && c_ems c) && negb ((e_ems e =? 1) && negb (c_ems c)).

(* closed form of matrixResumeSession *)
Lemma resume_cases : forall c st,
  (resume_ok c st = true /\ resume c st =
     (k_PS_SUCCESS,
      c_set_ref (c_set_secret c (e_ms (get st (Z.to_nat (slot_of (c_sid c))))) (e_cipher (get st (Z.to_nat (slot_of (c_sid c))))))
                (slot_of (c_sid c) + 1),
      acquire st (Z.to_nat (slot_of (c_sid c)))))
  \/ (resume_ok c st = false /\ exists rc, rc < 0 /\ resume c st = (rc, c, st)).
Proof.
  intros c st. unfold resume_ok, resume. cbv zeta.
  destruct (c_server c); cbn [negb andb]; [|right; split; auto; eexists; split; [|reflexivity]; reflexivity].
  destruct (Z.leb_spec (c_sidlen c) 0) as [L|L].
  { assert (E : (0 <? c_sidlen c) = false) by (apply Z.ltb_ge; auto). rewrite E. cbn [andb]. right. split; auto. eexists; split; [|reflexivity]; reflexivity. }
  assert (E : (0 <? c_sidlen c) = true) by (apply Z.ltb_lt; auto). rewrite E. cbn [andb].
  destruct (Z.geb_spec (slot_of (c_sid c)) k_SSL_SESSION_TABLE_SIZE) as [G|G].
  { assert (E2 : (slot_of (c_sid c) <? k_SSL_SESSION_TABLE_SIZE) = false) by (apply Z.ltb_ge; lia). rewrite E2. cbn [andb]. right. split; auto. eexists; split; [|reflexivity]; reflexivity. }
  assert (E2 : (slot_of (c_sid c) <? k_SSL_SESSION_TABLE_SIZE) = true) by (apply Z.ltb_lt; lia). rewrite E2. cbn [andb].
  set (e := get st (Z.to_nat (slot_of (c_sid c)))).
  destruct (e_cipher e) eqn:EC; cbn [andb]; [|right; split; auto; eexists; split; [|reflexivity]; reflexivity].
  rewrite diff_msecs_spec.
  destruct (c_sidlen c =? k_SSL_MAX_SESSION_ID_SIZE); cbn [negb orb andb]; [|right; split; auto; eexists; split; [|reflexivity]; reflexivity].
  destruct (beq (e_id e) (c_sid c)); cbn [negb orb andb]; [|right; split; auto; eexists; split; [|reflexivity]; reflexivity].
  destruct (s_now st - e_start e <=? LIFE); cbn [negb orb andb]; [|right; split; auto; eexists; split; [|reflexivity]; reflexivity].
  destruct (e_maj e =? c_maj c); cbn [negb orb andb]; [|right; split; auto; eexists; split; [|reflexivity]; reflexivity].
  destruct (e_min e =? c_min c); cbn [negb orb andb]; [|right; split; auto; eexists; split; [|reflexivity]; reflexivity].
  destruct ((e_ems e =? 0) && c_ems c); cbn [negb orb andb]; [right; split; auto; eexists; split; [|reflexivity]; reflexivity|].
  destruct ((e_ems e =? 1) && negb (c_ems c)); cbn [negb orb andb]; [right; split; auto; eexists; split; [|reflexivity]; reflexivity|].
  left. split; auto. rewrite <- EC. reflexivity.
Qed.

(* the model's acceptance condition is the specification's, over the abstraction of the table *)
Lemma resume_ok_spec : forall c st, TInv st -> wf_conn c -> c_server c = true ->
  let e := get st (Z.to_nat (slot_of (c_sid c))) in
  (resume_ok c st = true -> spec_resume (abs st) (s_now st) (hello_of c) = Some (e_ms e, e_cipher e))
  /\ (resume_ok c st = false -> spec_resume (abs st) (s_now st) (hello_of c) = None).
Proof.
  intros c st T W Hsrv e. pose proof W as [Wl [W0 W1]]. split; intro H.
  - unfold resume_ok in H. fold e in H. rewrite Hsrv in H. cbn [andb] in H.
    repeat (apply andb_true_iff in H; destruct H as [H ?]).
    match goal with X : (c_sidlen c =? _) = true |- _ => apply Z.eqb_eq in X; rename X into Hlen end.
    match goal with X : beq _ _ = true |- _ => apply beq_eq in X; rename X into Hid end.
    match goal with X : (_ <? k_SSL_SESSION_TABLE_SIZE) = true |- _ => rename X into Hslot end.
    unfold spec_resume, hello_of. cbn [h_id h_maj h_min h_ems]. rewrite presented_full by auto.
    unfold abs. rewrite Wl, Nat.eqb_refl.
    assert (S0 : (0 <=? slot_of (c_sid c)) = true) by (apply Z.leb_le; apply slot_of_nonneg).
    rewrite S0, Hslot. cbn [andb]. fold e. rewrite Hid, beq_refl.
    destruct (e_cipher e) eqn:EC; [|discriminate].
    cbn [r_valid r_t0 r_maj r_min r_secret r_suite andb]. unfold ems_match. cbn [r_ems h_ems].
    rewrite H4, H3, H2, H1, H0. reflexivity.
  - unfold spec_resume, hello_of. cbn [h_id h_maj h_min h_ems].
    destruct (abs st (presented c)) as [r|] eqn:EA; [|reflexivity].
    unfold abs in EA.
    destruct (Nat.eqb_spec (length (presented c)) IDLEN) as [El|]; [|discriminate].
    rewrite presented_length in El by auto.
    assert (Hlen : c_sidlen c = k_SSL_MAX_SESSION_ID_SIZE). { rewrite <- IDLEN_Z. lia. }
    rewrite presented_full in EA by auto.
    destruct ((0 <=? slot_of (c_sid c)) && (slot_of (c_sid c) <? k_SSL_SESSION_TABLE_SIZE)) eqn:ES; [|discriminate].
    apply andb_true_iff in ES. destruct ES as [_ ES]. fold e in EA.
    destruct (beq (e_id e) (c_sid c)) eqn:EB; [|discriminate].
    destruct (e_cipher e) eqn:EC; [|discriminate].
    injection EA as <-. cbn [r_valid r_t0 r_maj r_min r_ems r_secret r_suite andb]. unfold ems_match. cbn [r_ems h_ems].
    unfold resume_ok in H. fold e in H. rewrite Hsrv, ES, EC, EB, Hlen in H.
    assert (Hp : (0 <? k_SSL_MAX_SESSION_ID_SIZE) = true) by reflexivity. rewrite Hp, Z.eqb_refl in H. cbn [andb] in H.
    destruct (s_now st - e_start e <=? LIFE); destruct (e_maj e =? c_maj c); destruct (e_min e =? c_min c);
      destruct ((e_ems e =? 0) && c_ems c); destruct ((e_ems e =? 1) && negb (c_ems c)); cbn in H |- *; try reflexivity; discriminate.
Qed.

(* c14_resume_refines, for any state satisfying the invariant *)
Lemma resume_refines_inv : forall c st, TInv st -> wf_conn c -> c_server c = true ->
  forall rc c' st', resume c st = (rc, c', st') ->
  (rc = k_PS_SUCCESS /\ spec_resume (abs st) (s_now st) (hello_of c) = Some (c_ms c', c_cipher c'))
  \/ (rc < 0 /\ spec_resume (abs st) (s_now st) (hello_of c) = None /\ c' = c /\ st' = st).
Proof.
  intros c st T W Hsrv rc c' st' Hr.
  destruct (resume_ok_spec c st T W Hsrv) as [S1 S2].
  destruct (resume_cases c st) as [[Hok Heq]|[Hok [rc0 [Hneg Heq]]]]; rewrite Heq in Hr; injection Hr as <- <- <-.
  - left. split; auto.
  - right. auto.
Qed.

(* ================================================================== statements over all histories *)
Definition fresh_conns (cs : list conn) : Prop := Forall (fun c => c_ref c = 0) cs.

Theorem resume_refines : forall ops now cs0 cs st c,
  fresh_conns cs0 -> run ops cs0 (init_state now) = (cs, st) ->
  wf_conn c -> c_server c = true ->
  forall rc c' st', resume c st = (rc, c', st') ->
  (rc = k_PS_SUCCESS /\ spec_resume (abs st) (s_now st) (hello_of c) = Some (c_ms c', c_cipher c'))
  \/ (rc < 0 /\ spec_resume (abs st) (s_now st) (hello_of c) = None /\ c' = c /\ st' = st).
Proof.
  intros ops now cs0 cs st c Hf Hr W Hs rc c' st' E.
  destruct (invariant_all_histories ops now cs0 cs st Hf Hr) as [T _].
  eapply resume_refines_inv; eauto.
Qed.

(* short or prefix-only identifiers never resume, in any state *)
Theorem short_id_never_resumes : forall c st rc c' st',
  resume c st = (rc, c', st') -> rc = k_PS_SUCCESS ->
  c_sidlen c = k_SSL_MAX_SESSION_ID_SIZE /\ c_sid c = e_id (get st (Z.to_nat (slot_of (c_sid c)))).
Proof.
  intros c st rc c' st' E Hrc.
  destruct (resume_cases c st) as [[Hok Heq]|[Hok [rc0 [Hneg Heq]]]]; rewrite Heq in E; injection E as <- <- <-.
  - unfold resume_ok in Hok. repeat (apply andb_true_iff in Hok; destruct Hok as [Hok ?]).
    match goal with X : (c_sidlen c =? _) = true |- _ => apply Z.eqb_eq in X end.
    match goal with X : beq _ _ = true |- _ => apply beq_eq in X end. split; auto.
  - exfalso. change k_PS_SUCCESS with 0 in Hrc. lia.
Qed.

(* ---- the unfixed code (witnesses; each is replayed on the library by props/C14.py, corpus/C14) *)
Definition cA : conn := mkC true false false false (zeros IDLEN) 0 0 (repeat 161%N MSLEN) (repeat 17%N 32) (Some 49199) 3 3 true false (-1) (zeros MSLEN) 0.
Definition cB : conn := mkC true false false false (zeros IDLEN) 0 0 (repeat 7%N MSLEN) (repeat 34%N 32) (Some 49199) 3 3 true false (-1) (zeros MSLEN) 0.
Definition st_after_A : list conn * state := run [ONew 0 cA; OReg 0; OUpd 0; ODel 0] [] (init_state 1000000).

(* (a) a 4-byte identifier equal to the slot index resumes A's session in the unfixed matrixResumeSession *)
Lemma short_id_orig_witness :
  let st := snd st_after_A in
  let c := c_set_sid cB (zeros IDLEN) 4 in
  fst (fst (resume_orig c st)) = k_PS_SUCCESS /\ c_ms (snd (fst (resume_orig c st))) = c_ms cA
  /\ spec_resume (abs st) (s_now st) (hello_of c) = None.
Proof. vm_compute. auto. Qed.

(* expiry: 2^32 ms later the unfixed psDiffMsecs reads 0 ms *)
Lemma expiry_orig_witness :
  let st := tick (snd st_after_A) 4294967296 in
  let c := c_set_sid cB (le32 0 ++ repeat 17%N 28) 32 in
  fst (fst (resume_orig c st)) = k_PS_SUCCESS
  /\ spec_resume (abs st) (s_now st) (hello_of c) = None.
Proof. vm_compute. auto. Qed.

(* a connection that never registered or resumed (it only carries A's id, e.g. next to its ticket or as a
   TLS 1.3 legacy_session_id) replaces A's master secret when it closes, and drives the count negative *)
Lemma foreign_update_orig_witness :
  let st := snd st_after_A in
  let c := c_set_flags (c_set_sid cB (le32 0 ++ repeat 17%N 28) 32) true false true in
  let st' := snd (update_orig c st) in
  c_ref c = 0 /\ e_ms (get st' 0) = c_ms cB /\ e_ms (get st 0) = c_ms cA /\ e_id (get st' 0) = e_id (get st 0)
  /\ e_inuse (get st' 0) = -1.
Proof. vm_compute. auto. Qed.

(* (b) update(CLOSED) followed by clear on the same connection: -1; a later update(open) of a released
   entry links it twice *)
Lemma negative_inuse_orig_witness :
  let '(cs, st) := run [ONew 0 cA; OReg 0; OUpd 0] [] (init_state 1000000) in
  let c := c_set_flags (getc cs 0) true false false in
  let st1 := snd (update_orig c st) in
  let st2 := snd (clear_orig c false st1) in
  e_inuse (get st2 0) = -1
  /\ s_corrupt (snd (update_orig (getc cs 0) (snd (clear_orig (getc cs 0) false st)))) = true.
Proof. vm_compute. auto. Qed.

(* fix 4: an entry wiped by a fatal alert on a sharing connection is revived by the registrant's close *)
Lemma revival_orig_witness :
  let '(cs, st) := run [ONew 0 cA; OReg 0; OUpd 0; ONew 1 cB; OSid 1 (le32 0 ++ repeat 17%N 28) 32; OChr 1; OAlert 1] [] (init_state 1000000) in
  let st' := snd (update_orig (c_set_flags (getc cs 0) true false false) st) in
  let zid := le32 0 ++ zeros 28 in
  abs st zid = None /\ abs st' zid <> None.
Proof. vm_compute. split; [reflexivity | discriminate]. Qed.

(* ================================================================== who may change what *)
Definition secret_part (e : entry) := (e_id e, e_ms e, e_cipher e, e_maj e, e_min e, e_ems e, e_start e).

Lemma to_nat_lt_TBL : forall x, x < k_SSL_SESSION_TABLE_SIZE -> (Z.to_nat x < TBL)%nat.
Proof. intros x H. destruct (Z.leb_spec 0 x). - apply Nat2Z.inj_lt. rewrite Z2Nat.id by lia. rewrite TBL_Z. lia.
  - replace (Z.to_nat x) with O by lia. unfold TBL. vm_compute. lia. Qed.

Lemma not_held_ne : forall r j, r <> Z.of_nat j + 1 -> r <> 0 -> 0 <= r -> Z.to_nat (r - 1) <> j.
Proof. intros r j H H0 H1 E. apply H. subst j. rewrite Z2Nat.id by lia. lia. Qed.

(* matrixClearSession touches only the slot the connection holds a reference on *)
Lemma clear_frame : forall c rm st rc c' st', TInv st -> 0 <= c_ref c ->
  clear c rm st = (rc, c', st') ->
  forall j, c_ref c <> Z.of_nat j + 1 -> get st' j = get st j.
Proof.
  intros c rm st rc c' st' T H0 E j Hj. unfold clear in E.
  destruct (c_sidlen c <=? 0); [injection E as <- <- <-; auto|].
  destruct (Z.eqb_spec (c_ref c) 0); [injection E as <- <- <-; auto|].
  destruct (c_ref c - 1 >=? k_SSL_SESSION_TABLE_SIZE) eqn:G; [injection E as <- <- <-; auto|].
  assert (Hn : (Z.to_nat (c_ref c - 1) < TBL)%nat) by (apply to_nat_lt_TBL; lia).
  assert (Hne : Z.to_nat (c_ref c - 1) <> j) by (apply not_held_ne; auto).
  assert (R : get (release st (Z.to_nat (c_ref c - 1))) j = get st j).
  { rewrite release_get by (rewrite (I_len _ T); auto). destruct (Nat.eqb_spec (Z.to_nat (c_ref c - 1)) j); [contradiction | reflexivity]. }
  destruct rm; injection E as <- <- <-; auto. rewrite get_put_other by auto. auto.
Qed.

(* ... and after matrixClearSession(remove) that slot no longer vouches for anything *)
Lemma clear_remove_dead : forall c st rc c' st', TInv st ->
  clear c true st = (rc, c', st') -> rc = k_PS_SUCCESS ->
  e_cipher (get st' (Z.to_nat (c_ref c - 1))) = None.
Proof.
  intros c st rc c' st' T E Hrc. unfold clear in E.
  destruct (c_sidlen c <=? 0); [injection E as <- <- <-; discriminate|].
  destruct (Z.eqb_spec (c_ref c) 0); [injection E as <- <- <-; discriminate|].
  destruct (c_ref c - 1 >=? k_SSL_SESSION_TABLE_SIZE) eqn:G; [injection E as <- <- <-; discriminate|].
  assert (Hn : (Z.to_nat (c_ref c - 1) < TBL)%nat) by (apply to_nat_lt_TBL; lia).
  injection E as <- <- <-. rewrite get_put_same; [reflexivity|].
  destruct (release_misc st (Z.to_nat (c_ref c - 1))) as [_ [_ L]]. rewrite L, (I_len _ T). auto.
Qed.

(* matrixUpdateSession: only the held slot; an entry that is dead stays dead; the id never changes *)
Lemma update_frame : forall c st rc c' st', TInv st -> 0 <= c_ref c ->
  update c st = (rc, c', st') ->
  (forall j, c_ref c <> Z.of_nat j + 1 -> get st' j = get st j)
  /\ (forall j, e_id (get st' j) = e_id (get st j) /\ (e_cipher (get st' j) <> None -> e_cipher (get st j) <> None)).
Proof.
  intros c st rc c' st' T H0 E. unfold update in E.
  assert (Triv : forall x, (x, c, st) = (rc, c', st') ->
    (forall j, c_ref c <> Z.of_nat j + 1 -> get st' j = get st j)
    /\ (forall j, e_id (get st' j) = e_id (get st j) /\ (e_cipher (get st' j) <> None -> e_cipher (get st j) <> None))).
  { intros x Hx. injection Hx as <- <- <-. split; auto. }
  destruct (negb (c_server c)); [eapply Triv; eauto|].
  destruct (Z.eqb_spec (c_ref c) 0) as [E0|E0]. { rewrite orb_true_r in E. eapply Triv; eauto. }
  rewrite orb_false_r in E. destruct (c_sidlen c =? 0); [eapply Triv; eauto|].
  destruct (c_ref c - 1 >=? k_SSL_SESSION_TABLE_SIZE) eqn:G; [eapply Triv; eauto|].
  set (n := Z.to_nat (c_ref c - 1)) in *.
  assert (Hn : (n < TBL)%nat) by (apply to_nat_lt_TBL; lia).
  assert (Hlen : (n < length (s_tbl st))%nat) by (rewrite (I_len _ T); auto).
  assert (R : exists c1 st1, (if c_closed c then (c_set_ref c 0, release st n) else (c, st)) = (c1, st1)
              /\ length (s_tbl st1) = length (s_tbl st)
              /\ (forall j, n <> j -> get st1 j = get st j)
              /\ secret_part (get st1 n) = secret_part (get st n)).
  { destruct (c_closed c); eexists; eexists; split; try reflexivity.
    - destruct (release_misc st n) as [_ [_ L]]. split; auto. split.
      + intros j Hj. rewrite release_get by auto. destruct (Nat.eqb_spec n j); [contradiction|reflexivity].
      + rewrite release_get by auto. rewrite Nat.eqb_refl. reflexivity.
    - auto. }
  destruct R as [c1 [st1 [Heq [L1 [O1 S1]]]]]. rewrite Heq in E.
  assert (Hlen1 : (n < length (s_tbl st1))%nat) by lia.
  assert (Sid : e_id (get st1 n) = e_id (get st n)) by (unfold secret_part in S1; congruence).
  assert (Sci : e_cipher (get st1 n) = e_cipher (get st n)) by (unfold secret_part in S1; congruence).
  assert (Fin : forall e', e_id e' = e_id (get st1 n) -> (e_cipher e' <> None -> e_cipher (get st1 n) <> None) ->
     (forall j, c_ref c <> Z.of_nat j + 1 -> get (put st1 n e') j = get st j)
     /\ (forall j, e_id (get (put st1 n e') j) = e_id (get st j) /\ (e_cipher (get (put st1 n e') j) <> None -> e_cipher (get st j) <> None))).
  { intros e' Hid Hci. split.
    - intros j Hj. assert (n <> j) by (apply not_held_ne; auto). rewrite get_put_other by auto. auto.
    - intros j. destruct (Nat.eq_dec n j) as [<-|Hne].
      + rewrite get_put_same by auto. rewrite Hid, Sid. split; auto. rewrite <- Sci. auto.
      + rewrite get_put_other by auto. rewrite O1 by auto. auto. }
  destruct (c_error c).
  { injection E as <- <- <-. apply Fin; cbn [e_id e_cipher]; auto. }
  destruct (e_cipher (get st1 n)) eqn:EC.
  - injection E as <- <- <-. apply Fin; cbn [e_id e_cipher]; auto; try (intros _; try rewrite EC; discriminate).
  - injection E as <- <- <-. split.
    + intros j Hj. assert (n <> j) by (apply not_held_ne; auto). auto.
    + intros j. destruct (Nat.eq_dec n j) as [<-|Hne]; [rewrite Sid, EC; split; auto; congruence | rewrite O1 by auto; auto].
Qed.

(* matrixResumeSession changes in-use counts and list membership only *)
Lemma resume_frame : forall c st rc c' st', TInv st -> resume c st = (rc, c', st') ->
  forall j, secret_part (get st' j) = secret_part (get st j).
Proof.
  intros c st rc c' st' T E j.
  destruct (resume_cases c st) as [[Hok Heq]|[Hok [rc0 [Hneg Heq]]]]; rewrite Heq in E; injection E as <- <- <-; auto.
  unfold resume_ok in Hok. repeat (apply andb_true_iff in Hok; destruct Hok as [Hok ?]).
  match goal with X : (_ <? k_SSL_SESSION_TABLE_SIZE) = true |- _ => apply Z.ltb_lt in X; rename X into Hs end.
  rewrite acquire_get by (rewrite (I_len _ T); apply to_nat_lt_TBL; auto).
  destruct (Nat.eqb_spec (Z.to_nat (slot_of (c_sid c))) j) as [<-|]; reflexivity.
Qed.

(* matrixRegisterSession replaces at most one entry, and only one nobody holds (bounded cache: eviction) *)
Lemma register_frame : forall cs c st rc c' st', Inv cs st -> register c st = (rc, c', st') ->
  forall j, get st' j <> get st j ->
    e_inuse (get st j) = 0 /\ In j (s_chron st) /\ holders cs j = 0 /\ rc = Z.of_nat j /\ e_id (get st' j) = c_sid c' /\ c_ref c' = rc + 1.
Proof.
  intros cs c st rc c' st' HI E j Hj.
  unfold register in E.
  destruct (negb (c_server c)); [injection E as <- <- <-; contradiction|].
  destruct (c_tstate c =? _); [injection E as <- <- <-; contradiction|].
  destruct (s_chron st) as [|h t] eqn:Ech; [injection E as <- <- <-; contradiction|].
  pose proof HI as [T [Hf Hh]]. pose proof T as [Hl Hid Hnd Hrg Hcr Hok].
  assert (Hh_in : In h (s_chron st)) by (rewrite Ech; left; reflexivity).
  assert (Hhn : (h < TBL)%nat) by auto.
  destruct (Hid h Hhn) as [Hs H4]. cbv zeta in E. rewrite Hs in E. rewrite Nat2Z.id in E.
  destruct (Z.of_nat h >=? k_SSL_SESSION_TABLE_SIZE) eqn:G. { exfalso. rewrite <- TBL_Z in G. lia. }
  injection E as <- <- <-.
  destruct (Nat.eq_dec h j) as [<-|Hne].
  - assert (U0 : e_inuse (get st h) = 0) by (apply Hcr; auto).
    repeat split; auto.
    + left; reflexivity.
    + specialize (Hh h Hhn). pose proof (holders_nonneg cs h). lia.
    + rewrite get_put_same by (cbn [set_chron s_tbl]; lia). reflexivity.
  - exfalso. apply Hj. rewrite get_put_other by auto. reflexivity.
Qed.

(* ================================================================== the set of identifiers the cache vouches for *)
Lemma entry_eq_dec : forall a b : entry, {a = b} + {a <> b}.
Proof.
  decide equality; try apply Z.eq_dec; try (apply list_eq_dec; apply N.eq_dec).
  decide equality. apply Z.eq_dec.
Qed.

(* every live entry of st' was live, with the same id, in st - or was written in this step and carries the id [sid] *)
Definition live_mono_except (st st' : state) (sid : option (list N)) : Prop :=
  forall j, e_cipher (get st' j) <> None ->
    (e_id (get st' j) = e_id (get st j) /\ e_cipher (get st j) <> None)
    \/ (sid = Some (e_id (get st' j)) /\ get st' j <> get st j).

Lemma abs_live_mono : forall st st' sid, live_mono_except st st' sid ->
  forall id, abs st' id <> None ->
    abs st id <> None \/ (sid = Some id /\ get st' (Z.to_nat (slot_of id)) <> get st (Z.to_nat (slot_of id))).
Proof.
  intros st st' sid H id Ha. unfold abs in *.
  destruct (Nat.eqb (length id) IDLEN); [|contradiction].
  destruct ((0 <=? slot_of id) && (slot_of id <? k_SSL_SESSION_TABLE_SIZE)); [|contradiction].
  set (j := Z.to_nat (slot_of id)) in *.
  destruct (beq (e_id (get st' j)) id) eqn:B; [|contradiction]. apply beq_eq in B.
  destruct (e_cipher (get st' j)) eqn:C; [|contradiction].
  destruct (H j) as [[Hid Hc]|[Hs Hne]]; [rewrite C; discriminate | | right; rewrite Hs, B; auto].
  left. rewrite <- Hid, B, beq_refl. destruct (e_cipher (get st j)); [discriminate | contradiction].
Qed.

Lemma live_mono_refl : forall st sid, live_mono_except st st sid.
Proof. intros st sid j H. left. auto. Qed.

Lemma clear_live : forall c rm st rc c' st', TInv st -> clear c rm st = (rc, c', st') -> live_mono_except st st' None.
Proof.
  intros c rm st rc c' st' T E j Hj. left. unfold clear in E.
  destruct (c_sidlen c <=? 0); [injection E as <- <- <-; auto|].
  destruct (Z.eqb_spec (c_ref c) 0) as [E0|E0]; [injection E as <- <- <-; auto|].
  destruct (c_ref c - 1 >=? k_SSL_SESSION_TABLE_SIZE) eqn:G; [injection E as <- <- <-; auto|].
  set (n := Z.to_nat (c_ref c - 1)) in *.
  assert (Hn : (n < TBL)%nat) by (apply to_nat_lt_TBL; lia).
  assert (Hlen : (n < length (s_tbl st))%nat) by (rewrite (I_len _ T); auto).
  assert (R : forall j, get (release st n) j = if Nat.eqb n j then dec_entry (get st n) else get st j) by (intro; apply release_get; auto).
  destruct rm; injection E as <- <- <-.
  - destruct (Nat.eq_dec n j) as [<-|Hne].
    + rewrite get_put_same in Hj by (destruct (release_misc st n) as [_ [_ L]]; lia). cbn in Hj. contradiction.
    + rewrite get_put_other in Hj |- * by auto. rewrite R in Hj |- *. destruct (Nat.eqb_spec n j); [contradiction | auto].
  - rewrite R in Hj |- *. destruct (Nat.eqb_spec n j) as [EE|EE]; [rewrite <- EE; cbn [dec_entry e_id e_cipher] in Hj |- *|]; auto.
Qed.

Lemma conn_ref_nonneg : forall cs st k, Inv cs st -> 0 <= c_ref (nth k cs conn0).
Proof.
  intros cs st k [_ [Hf _]]. destruct (Nat.ltb_spec k (length cs)); [apply (Forall_nth_conn (fun c => 0 <= c_ref c)); auto | rewrite nth_overflow by auto; cbn; lia].
Qed.

(* Only matrixRegisterSession makes the cache vouch for a new identifier, and that identifier is the one it
   assigned to the registering connection in this very step. *)
Lemma step_abs_mono : forall o cs st rc cs' st', Inv cs st -> step o cs st = (rc, cs', st') ->
  forall id, abs st' id <> None ->
    abs st id <> None
    \/ (exists k, o = OReg k /\ id = c_sid (getc cs' k) /\ c_ref (getc cs' k) = rc + 1 /\ rc = Z.of_nat (Z.to_nat (slot_of id))).
Proof.
  intros o cs st rc cs' st' HI Hs id Ha. pose proof HI as [T [Hf Hh]].
  assert (Mono : live_mono_except st st' None -> abs st id <> None
            \/ (exists k, o = OReg k /\ id = c_sid (getc cs' k) /\ c_ref (getc cs' k) = rc + 1 /\ rc = Z.of_nat (Z.to_nat (slot_of id)))).
  { intro M. destruct (abs_live_mono st st' None M id Ha) as [H|[H _]]; [left; auto | discriminate]. }
  assert (Lift : forall f k, lift f k cs st = (rc, cs', st') ->
            (forall c rc c' st', c_ref c = c_ref (nth k cs conn0) -> f c st = (rc, c', st') -> live_mono_except st st' None) ->
            live_mono_except st st' None).
  { intros f k Hl Hp. unfold lift in Hl. destruct (Nat.ltb k (length cs)).
    - unfold getc in Hl. destruct (f (nth k cs conn0) st) as [[rc1 c1] st1] eqn:E. injection Hl as <- <- <-. eapply Hp; eauto.
    - injection Hl as <- <- <-. apply live_mono_refl. }
  destruct o; cbn [step] in Hs.
  - injection Hs as <- <- <-. left. auto.
  - apply Mono. eapply Lift; eauto. intros c rc0 c' st0 _ E. injection E as <- <- <-. apply live_mono_refl.
  - apply Mono. eapply Lift; eauto. intros c rc0 c' st0 _ E. injection E as <- <- <-. apply live_mono_refl.
  - (* OReg *) unfold lift in Hs. destruct (Nat.ltb_spec k (length cs)).
    + unfold getc in Hs. destruct (register (nth k cs conn0) st) as [[rc1 c1] st1] eqn:E. injection Hs as <- <- <-.
      assert (M : live_mono_except st st1 (Some (c_sid c1))).
      { intros j Hj. destruct (entry_eq_dec (get st1 j) (get st j)) as [Eq|Ne].
        - left. rewrite Eq in *. auto.
        - right. destruct (register_frame cs _ st _ _ _ HI E j Ne) as [_ [_ [_ [_ [Hid _]]]]]. rewrite Hid. auto. }
      destruct (abs_live_mono st st1 _ M id Ha) as [H1|[H1 H2]]; [left; auto|].
      right. exists k. unfold getc. rewrite nth_set_nth by auto. rewrite Nat.eqb_refl. injection H1 as ->.
      destruct (register_frame cs _ st _ _ _ HI E _ H2) as [_ [_ [_ [Hrc [_ Hrf]]]]]. auto.
    + injection Hs as <- <- <-. left. auto.
  - apply Mono. eapply Lift; eauto. intros c rc0 c' st0 _ E j Hj. left.
    pose proof (resume_frame c st rc0 c' st0 T E j) as S. unfold secret_part in S. injection S as S1 _ S3 _ _ _ _. rewrite S1, <- S3. auto.
  - apply Mono. eapply Lift; eauto. intros c rc0 c' st0 Hr E j Hj. left.
    assert (H0 : 0 <= c_ref c) by (rewrite Hr; eapply conn_ref_nonneg; eauto).
    destruct (update_frame c st rc0 c' st0 T H0 E) as [_ U]. destruct (U j). auto.
  - apply Mono. eapply Lift; eauto. intros c rc0 c' st0 _ E. cbv beta in E. eapply clear_live; eauto.
  - apply Mono. eapply Lift; eauto. intros c rc0 c' st0 _ E j Hj. left.
    assert (S : secret_part (get st0 j) = secret_part (get st j)).
    { unfold client_hello_resume in E. destruct (c_sidlen c >? 0); [|injection E as <- <- <-; auto].
      destruct (_ && _); [injection E as <- <- <-; auto|].
      destruct (resume c st) as [[rc1 c1] st1] eqn:ER.
      destruct (rc1 >=? 0); injection E as <- <- <-; eapply resume_frame; eauto. }
    unfold secret_part in S. injection S as S1 _ S3 _ _ _ _. rewrite S1, <- S3. auto.
  - apply Mono. eapply Lift; eauto. intros c rc0 c' st0 Hr E j Hj. left.
    unfold delete_session in E. set (c0 := c_set_flags c true (c_error c) (c_resumed c)) in *.
    destruct (_ && _).
    + destruct (update c0 st) as [[rc1 c1] st1] eqn:EU. injection E as <- <- <-.
      assert (H0 : 0 <= c_ref c0) by (change (c_ref c0) with (c_ref c); rewrite Hr; eapply conn_ref_nonneg; eauto).
      destruct (update_frame c0 st rc1 c1 st1 T H0 EU) as [_ U]. destruct (U j). auto.
    + injection E as <- <- <-. auto.
  - apply Mono. eapply Lift; eauto. intros c rc0 c' st0 _ E. unfold fatal_alert in E.
    destruct (c_server _); [eapply clear_live; eauto | injection E as <- <- <-; apply live_mono_refl].
  - injection Hs as <- <- <-. left. auto.
Qed.

(* ================================================================== run-level consequences *)
(* identifiers assigned by matrixRegisterSession during a history *)
Fixpoint issued_during (ops : list op) (cs : list conn) (st : state) (id : list N) : Prop :=
  match ops with
  | [] => False
  | o :: r => let '(rc, cs', st') := step o cs st in
      (exists k, o = OReg k /\ id = c_sid (getc cs' k) /\ c_ref (getc cs' k) = rc + 1) \/ issued_during r cs' st' id
  end.

Lemma run_abs_mono : forall ops cs0 st0 cs st id, Inv cs0 st0 -> run ops cs0 st0 = (cs, st) ->
  abs st id <> None -> abs st0 id <> None \/ issued_during ops cs0 st0 id.
Proof.
  induction ops as [|o r IH]; cbn [run issued_during]; intros cs0 st0 cs st id HI Hr Ha.
  - injection Hr as <- <-. left. auto.
  - destruct (step o cs0 st0) as [[rc cs1] st1] eqn:E.
    assert (HI1 : Inv cs1 st1) by (eapply step_inv; eauto).
    destruct (IH cs1 st1 cs st id HI1 Hr Ha) as [H|H]; [|right; right; auto].
    destruct (step_abs_mono o cs0 st0 rc cs1 st1 HI E id H) as [H0|[k [Ho [Hid [Hrf _]]]]]; [left; auto|].
    right. left. exists k. auto.
Qed.

Lemma abs_init : forall now id, abs (init_state now) id = None.
Proof.
  intros. unfold abs. destruct (Nat.eqb _ _); auto. destruct (_ && _) eqn:E; auto.
  apply andb_true_iff in E. destruct E as [E0 E1]. apply Z.leb_le in E0. apply Z.ltb_lt in E1.
  rewrite get_init by (apply to_nat_lt_TBL; auto). destruct (beq _ _); reflexivity.
Qed.

(* the cache vouches only for identifiers this server issued itself *)
Theorem only_issued : forall ops now cs0 cs st id,
  fresh_conns cs0 -> run ops cs0 (init_state now) = (cs, st) -> abs st id <> None ->
  issued_during ops cs0 (init_state now) id.
Proof.
  intros ops now cs0 cs st id Hf Hr Ha.
  destruct (run_abs_mono ops cs0 (init_state now) cs st id (init_inv now cs0 Hf) Hr Ha) as [H|H]; auto.
  rewrite abs_init in H. contradiction.
Qed.

(* a fatal alert written by the server on a connection that holds a cache entry kills that entry ... *)
Lemma fatal_alert_kills : forall cs st k rc c' st', Inv cs st -> (k < length cs)%nat ->
  fatal_alert (getc cs k) st = (rc, c', st') -> rc = k_PS_SUCCESS ->
  abs st' (e_id (get st (Z.to_nat (c_ref (getc cs k) - 1)))) = None.
Proof.
  intros cs st k rc c' st' HI Hk E Hrc. pose proof HI as [T _]. unfold fatal_alert in E.
  set (c := getc cs k) in *. set (c0 := c_set_flags c (c_closed c) true (c_resumed c)) in *.
  destruct (c_server c0); [|injection E as <- <- <-; discriminate].
  pose proof (clear_remove_dead c0 st rc c' st' T E Hrc) as D. change (c_ref c0) with (c_ref c) in D.
  assert (Hlt : c_ref c - 1 < k_SSL_SESSION_TABLE_SIZE).
  { unfold clear in E. destruct (c_sidlen c0 <=? 0); [injection E as <- <- <-; discriminate|].
    destruct (c_ref c0 =? 0); [injection E as <- <- <-; discriminate|].
    change (c_ref c0) with (c_ref c) in E. destruct (Z.geb_spec (c_ref c - 1) k_SSL_SESSION_TABLE_SIZE); [injection E as <- <- <-; discriminate | lia]. }
  set (n := Z.to_nat (c_ref c - 1)) in *.
  assert (Hn : (n < TBL)%nat) by (apply to_nat_lt_TBL; auto).
  destruct (I_id _ T n Hn) as [Hs Hl].
  unfold abs. rewrite Hl, Nat.eqb_refl, Hs. rewrite Nat2Z.id.
  destruct (_ && _); auto. destruct (beq _ _); auto. rewrite D. reflexivity.
Qed.

(* ... and it stays dead: until the server issues that very identifier again, nobody presenting it is resumed *)
Theorem fatal_invalidates : forall cs st k rc c' st' ops cs1 st1 c,
  Inv cs st -> (k < length cs)%nat ->
  fatal_alert (getc cs k) st = (rc, c', st') -> rc = k_PS_SUCCESS ->
  let id0 := e_id (get st (Z.to_nat (c_ref (getc cs k) - 1))) in
  run ops (set_nth k c' cs) st' = (cs1, st1) ->
  ~ issued_during ops (set_nth k c' cs) st' id0 ->
  wf_conn c -> c_server c = true -> presented c = id0 ->
  forall rc1 c1' st1', resume c st1 = (rc1, c1', st1') -> rc1 < 0 /\ c1' = c /\ st1' = st1.
Proof.
  intros cs st k rc c' st' ops cs1 st1 c HI Hk E Hrc id0 Hrun Hni W Hsrv Hp rc1 c1' st1' Er.
  assert (HI' : Inv (set_nth k c' cs) st') by (eapply alert_inv with (c := getc cs k); eauto).
  assert (HI1 : Inv cs1 st1) by (eapply run_inv; eauto).
  assert (Dead : abs st1 id0 = None).
  { destruct (abs st1 id0) eqn:A; auto. exfalso.
    destruct (run_abs_mono ops _ st' cs1 st1 id0 HI' Hrun) as [H|H]; [rewrite A; discriminate | | contradiction].
    apply H. eapply fatal_alert_kills; eauto. }
  destruct HI1 as [T1 _].
  destruct (resume_refines_inv c st1 T1 W Hsrv rc1 c1' st1' Er) as [[_ S]|[Hneg [_ [-> ->]]]]; auto.
  exfalso. unfold spec_resume, hello_of in S. cbn [h_id] in S. rewrite Hp, Dead in S. discriminate.
Qed.

(* bounded cache: registration evicts only an entry nobody uses *)
Theorem eviction_only_unused : forall cs st k rc cs' st', Inv cs st ->
  step (OReg k) cs st = (rc, cs', st') ->
  forall j, get st' j <> get st j -> e_inuse (get st j) = 0 /\ holders cs j = 0 /\ rc = Z.of_nat j.
Proof.
  intros cs st k rc cs' st' HI Hs j Hj. cbn [step] in Hs. unfold lift in Hs.
  destruct (Nat.ltb k (length cs)); [|injection Hs as <- <- <-; contradiction].
  destruct (register (getc cs k) st) as [[rc1 c1] st1] eqn:E. injection Hs as <- <- <-.
  destruct (register_frame cs _ st _ _ _ HI E j Hj) as [H1 [_ [H3 [H4 _]]]]. auto.
Qed.

(* the secret material of a slot (id, master secret, suite, version, EMS flag, start time) is written only
   by an operation of a connection that holds a reference on that slot, or by a registration into an unused slot *)
Theorem secret_written_only_by_holder : forall o cs st rc cs' st', Inv cs st -> step o cs st = (rc, cs', st') ->
  forall j, secret_part (get st' j) <> secret_part (get st j) ->
    (exists k, (o = OUpd k \/ o = ODel k \/ (exists rm, o = OClr k rm) \/ o = OAlert k) /\ c_ref (getc cs k) = Z.of_nat j + 1)
    \/ (exists k, o = OReg k /\ e_inuse (get st j) = 0 /\ holders cs j = 0).
Proof.
  intros o cs st rc cs' st' HI Hs j Hj. pose proof HI as [T _].
  assert (Same : st' = st -> False) by (intros ->; apply Hj; reflexivity).
  assert (L : forall f k, lift f k cs st = (rc, cs', st') -> exists rc1 c1, f (getc cs k) st = (rc1, c1, st')).
  { intros f k Hl. unfold lift in Hl. destruct (Nat.ltb k (length cs)).
    - destruct (f (getc cs k) st) as [[rc1 c1] st1]. injection Hl as <- <- <-. eauto.
    - injection Hl as <- <- <-. exfalso. apply Same. reflexivity. }
  assert (R0 : forall k, 0 <= c_ref (getc cs k)) by (intro; eapply conn_ref_nonneg; eauto).
  destruct o; cbn [step] in Hs.
  - injection Hs as <- <- <-. exfalso. apply Same. reflexivity.
  - destruct (L _ _ Hs) as [rc1 [c1 E]]. injection E as <- <- <-. exfalso. apply Same. reflexivity.
  - destruct (L _ _ Hs) as [rc1 [c1 E]]. injection E as <- <- <-. exfalso. apply Same. reflexivity.
  - right. exists k. split; auto. destruct (L _ _ Hs) as [rc1 [c1 E]].
    assert (Ne : get st' j <> get st j) by (intro Q; apply Hj; rewrite Q; reflexivity).
    destruct (register_frame cs _ st _ _ _ HI E j Ne) as [H1 [_ [H3 _]]]. auto.
  - destruct (L _ _ Hs) as [rc1 [c1 E]]. exfalso. apply Hj. eapply resume_frame; eauto.
  - left. exists k. split; auto. destruct (L _ _ Hs) as [rc1 [c1 E]].
    destruct (Z.eq_dec (c_ref (getc cs k)) (Z.of_nat j + 1)); auto. exfalso. apply Hj.
    destruct (update_frame _ st _ _ _ T (R0 k) E) as [F _]. rewrite F; auto.
  - left. exists k. split; eauto. destruct (L _ _ Hs) as [rc1 [c1 E]]. cbv beta in E.
    destruct (Z.eq_dec (c_ref (getc cs k)) (Z.of_nat j + 1)); auto. exfalso. apply Hj.
    rewrite (clear_frame _ _ st _ _ _ T (R0 k) E); auto.
  - destruct (L _ _ Hs) as [rc1 [c1 E]]. exfalso. apply Hj.
    unfold client_hello_resume in E. destruct (c_sidlen _ >? 0); [|injection E as <- <- <-; reflexivity].
    destruct (_ && _); [injection E as <- <- <-; reflexivity|].
    destruct (resume (getc cs k) st) as [[rc2 c2] st2] eqn:ER.
    destruct (rc2 >=? 0); injection E as <- <- <-; eapply resume_frame; eauto.
  - left. exists k. split; auto. destruct (L _ _ Hs) as [rc1 [c1 E]].
    destruct (Z.eq_dec (c_ref (getc cs k)) (Z.of_nat j + 1)); auto. exfalso. apply Hj.
    unfold delete_session in E. set (c0 := c_set_flags (getc cs k) true _ _) in *.
    destruct (_ && _); [|injection E as <- <- <-; reflexivity].
    destruct (update c0 st) as [[rc2 c2] st2] eqn:EU. injection E as <- <- <-.
    destruct (update_frame c0 st _ _ _ T (R0 k) EU) as [F _]. rewrite F; auto.
  - left. exists k. split; auto. destruct (L _ _ Hs) as [rc1 [c1 E]].
    destruct (Z.eq_dec (c_ref (getc cs k)) (Z.of_nat j + 1)); auto. exfalso. apply Hj.
    unfold fatal_alert in E. set (c0 := c_set_flags (getc cs k) _ true _) in *.
    destruct (c_server c0); [|injection E as <- <- <-; reflexivity].
    rewrite (clear_frame c0 _ st _ _ _ T (R0 k) E); auto.
  - injection Hs as <- <- <-. exfalso. apply Hj. reflexivity.
Qed.

(* ================================================================== session tickets *)
Section TicketProofs.
  Variable enc dec : list N -> list N -> list N -> list N.
  Variable mac : list N -> list N -> list N.
  Variable avail : Z -> bool.

  Notation unlock := (ticket_unlock dec mac avail).
  Definition hkey (k : tkey) : list N := firstn (Z.to_nat (k_hashlen k)) (k_hash k).
  Definition skey (k : tkey) : list N := firstn (Z.to_nat (k_symlen k)) (k_sym k).
  Definition plain_of (k : tkey) (tk : list N) : list N :=
    dec (skey k) (skipn_firstn 16 16 tk) (skipn_firstn 32 (length tk - 32 - Z.to_nat k_SHA256_HASHLEN) tk).

  (* everything an accepted ticket satisfies *)
  Lemma unlock_success : forall c tk st c',
    unlock c tk st = (k_PS_SUCCESS, c') ->
    Z.of_nat (length tk) = TICKETLEN /\
    exists k, find_key (firstn 16 tk) (s_keys st) = Some k
      /\ mac (hkey k) (ticket_body tk) = ticket_tag tk
      /\ let pt := plain_of k tk in
         bz pt 0 = c_maj c /\ bz pt 1 = c_min c
         /\ avail (256 * bz pt 2 + bz pt 3) = true
         /\ c_cipher c' = Some (256 * bz pt 2 + bz pt 3)
         /\ c_tms c' = skipn_firstn 5 MSLEN pt
         /\ c_reqems c' = bz pt 4 mod 2
         /\ ~ (bz pt 4 = 0 /\ c_reqems c = 1)
         /\ (now_secs st - (16777216 * bz pt 53 + 65536 * bz pt 54 + 256 * bz pt 55 + bz pt 56)) mod 4294967296 <= LIFE / 1000.
  Proof.
    intros c tk st c' E. unfold ticket_unlock in E.
    destruct (Z.eqb_spec (Z.of_nat (length tk)) TICKETLEN) as [El|El]; cbn [negb] in E; [|discriminate E].
    split; auto.
    destruct (find_key (firstn 16 tk) (s_keys st)) as [k|] eqn:Ek; [|discriminate E].
    exists k. split; auto. cbv zeta in E.
    fold (hkey k) in E. fold (skey k) in E. fold (ticket_body tk) in E. fold (ticket_tag tk) in E.
    change (dec (skey k) (skipn_firstn 16 16 tk) (skipn_firstn 32 (length tk - 32 - Z.to_nat k_SHA256_HASHLEN) tk)) with (plain_of k tk) in E.
    set (pt := plain_of k tk) in *.
    destruct (beq (mac (hkey k) (ticket_body tk)) (ticket_tag tk)) eqn:Em; cbn [negb] in E; [|discriminate E].
    apply beq_eq in Em. split; auto.
    destruct (Z.eqb_spec (bz pt 0) (c_maj c)); cbn [negb orb] in E; [|discriminate E].
    destruct (Z.eqb_spec (bz pt 1) (c_min c)); cbn [negb orb] in E; [|discriminate E].
    destruct (avail (256 * bz pt 2 + bz pt 3)) eqn:Ea; cbn [negb] in E; [|discriminate E].
    destruct ((bz pt 4 =? 0) && (c_reqems (c_set_secret c (c_ms c) (Some (256 * bz pt 2 + bz pt 3))) =? 1)) eqn:Er; [discriminate E|].
    destruct (Z.gtb_spec ((now_secs st - (16777216 * bz pt 53 + 65536 * bz pt 54 + 256 * bz pt 55 + bz pt 56)) mod 4294967296) (LIFE / 1000)); [discriminate E|].
    injection E as <-. cbn. repeat split; auto.
    intros [A B]. cbn in Er. rewrite A, B in Er. discriminate.
  Qed.

  (* c14_ticket_foreign_key: a ticket naming a key that is not in the server's list is refused *)
  Lemma ticket_foreign_key : forall c tk st, find_key (firstn 16 tk) (s_keys st) = None ->
    fst (unlock c tk st) = k_PS_FAILURE.
  Proof. intros c tk st H. unfold ticket_unlock. destruct (negb _); auto. rewrite H. reflexivity. Qed.

  (* c14_ticket_edit_rejected: under unforgeability of the MAC, an accepted ticket consists of a body the
     server itself MACed, under a key that is still listed and that the ticket names *)
  Lemma ticket_edit_rejected : forall signed c tk st c',
    unforgeable mac signed tk ->
    unlock c tk st = (k_PS_SUCCESS, c') ->
    exists k, find_key (firstn 16 tk) (s_keys st) = Some k /\ In (hkey k, ticket_body tk) signed.
  Proof.
    intros signed c tk st c' Hunf E. destruct (unlock_success c tk st c' E) as [_ [k [Hk [Hm _]]]].
    exists k. split; auto.
  Qed.

  Corollary ticket_forged_rejected : forall signed c tk st,
    unforgeable mac signed tk ->
    (forall k, find_key (firstn 16 tk) (s_keys st) = Some k -> ~ In (hkey k, ticket_body tk) signed) ->
    fst (unlock c tk st) <> k_PS_SUCCESS.
  Proof.
    intros signed c tk st Hunf Hn E. destruct (unlock c tk st) as [rc c'] eqn:U. cbn in E. subst rc.
    destruct (ticket_edit_rejected signed c tk st c' Hunf U) as [k [Hk Hin]]. eapply Hn; eauto.
  Qed.

  (* c14_ticket_expiry + version: an accepted ticket's sealed timestamp is at most LIFE/1000 seconds old and
     its sealed version is the negotiated one; the secret and suite installed are the sealed ones *)
  Lemma ticket_expiry_version : forall c tk st c',
    unlock c tk st = (k_PS_SUCCESS, c') ->
    exists k, find_key (firstn 16 tk) (s_keys st) = Some k /\
      let pt := plain_of k tk in
      (now_secs st - (16777216 * bz pt 53 + 65536 * bz pt 54 + 256 * bz pt 55 + bz pt 56)) mod 4294967296 <= LIFE / 1000
      /\ bz pt 0 = c_maj c /\ bz pt 1 = c_min c
      /\ c_tms c' = skipn_firstn 5 MSLEN pt /\ c_cipher c' = Some (256 * bz pt 2 + bz pt 3).
  Proof.
    intros c tk st c' E. destruct (unlock_success c tk st c' E) as [_ [k [Hk [_ H]]]]. exists k. split; auto.
    cbv zeta in H |- *. destruct H as [A [B [_ [D [F [_ [_ G]]]]]]]. auto.
  Qed.

  (* ---- key rotation *)
  Lemma find_key_app : forall name l k k0, find_key name l = Some k0 -> find_key name (l ++ [k]) = Some k0.
  Proof. induction l as [|a l IH]; cbn [find_key app]; intros k k0 H; [discriminate|]. destruct (beq (k_name a) name); auto. Qed.

  (* adding a key (matrixSslLoadSessionTicketKeys appends) keeps every listed key findable and keeps the
     sealing key (head of the list) *)
  Lemma rotation_add : forall name sym symlen hash hashlen st rc st',
    key_add name sym symlen hash hashlen st = (rc, st') ->
    (forall n k0, find_key n (s_keys st) = Some k0 -> find_key n (s_keys st') = Some k0)
    /\ (forall k r, s_keys st = k :: r -> exists r', s_keys st' = k :: r')
    /\ s_tbl st' = s_tbl st /\ s_chron st' = s_chron st.
  Proof.
    intros name sym symlen hash hashlen st rc st' E. unfold key_add in E.
    destruct (_ && _); [injection E as <- <-; repeat split; eauto|].
    destruct (negb _); [injection E as <- <-; repeat split; eauto|].
    destruct (s_keys st) as [|k0 l] eqn:K.
    - injection E as <- <-. cbn. repeat split; auto; intros; discriminate.
    - destruct (_ >? _); injection E as <- <-; cbn [set_keys s_keys s_tbl s_chron]; rewrite ?K; repeat split; eauto.
      + intros n k1 H. rewrite <- K in H. rewrite K in H. apply (find_key_app n (k0 :: l)). auto.
      + intros k r H. injection H as <- <-. eexists. reflexivity.
  Qed.

  Lemma key_del_find : forall name l l', NoDup (map k_name l) -> key_del_list name l = Some l' -> find_key name l' = None.
  Proof.
    induction l as [|a l IH]; cbn [key_del_list map]; intros l' Hn H; [discriminate|].
    inversion Hn as [|? ? Hnotin Hn']; subst.
    destruct ((k_inuse a =? 0) && beq (k_name a) name) eqn:E.
    - injection H as <-. apply andb_true_iff in E. destruct E as [_ E]. apply beq_eq in E. subst name.
      clear IH Hn. induction l as [|b l IHl]; cbn [find_key]; auto.
      destruct (beq (k_name b) (k_name a)) eqn:B.
      + apply beq_eq in B. exfalso. apply Hnotin. cbn. left. auto.
      + apply IHl. * intro Q. apply Hnotin. cbn. right. auto. * inversion Hn'. auto.
    - destruct (key_del_list name l) as [r'|] eqn:D; [|discriminate]. injection H as <-. cbn [find_key].
      destruct (beq (k_name a) name) eqn:B.
      + (* the first key of that name is in use: it stays, deletion took a later one - impossible with unique names *)
        apply beq_eq in B. subst name. exfalso.
        clear -D Hnotin. revert r' D. induction l as [|b l IHl]; cbn [key_del_list]; intros r' D; [discriminate|].
        destruct ((k_inuse b =? 0) && beq (k_name b) (k_name a)) eqn:E.
        * apply andb_true_iff in E. destruct E as [_ E]. apply beq_eq in E. apply Hnotin. cbn. left. auto.
        * destruct (key_del_list (k_name a) l) eqn:D2; [|discriminate]. eapply IHl; eauto. intro Q. apply Hnotin. cbn. right. auto.
      + apply IH; auto.
  Qed.

  (* removing a key (matrixSslDeleteSessionTicketKey): with distinct key names, every ticket naming it is refused afterwards *)
  Lemma rotation_del : forall name st rc st' c tk,
    NoDup (map k_name (s_keys st)) -> key_del name st = (rc, st') -> rc = k_PS_SUCCESS ->
    firstn 16 tk = name -> fst (unlock c tk st') = k_PS_FAILURE.
  Proof.
    intros name st rc st' c tk Hn E Hrc Hname. unfold key_del in E.
    destruct (key_del_list name (s_keys st)) as [l|] eqn:D; injection E as <- <-; [|discriminate].
    apply ticket_foreign_key. cbn [set_keys s_keys]. rewrite Hname. eapply key_del_find; eauto.
  Qed.
End TicketProofs.

(* ================================================================== non-vacuity *)
(* a full 32-byte identifier issued to A does resume (so the refinement theorem is not about an empty set) *)
Example resume_happens :
  let st := snd st_after_A in
  let c := c_set_sid cB (le32 0 ++ repeat 17%N 28) 32 in
  wf_conn c /\ fst (fst (resume c st)) = k_PS_SUCCESS /\ c_ms (snd (fst (resume c st))) = c_ms cA
  /\ spec_resume (abs st) (s_now st) (hello_of c) = Some (c_ms cA, c_cipher cA).
Proof. vm_compute. repeat split; auto; discriminate. Qed.

(* the same presented with 4 bytes does not (fixed code) *)
Example short_id_rejected :
  fst (fst (resume (c_set_sid cB (zeros IDLEN) 4) (snd st_after_A))) = k_PS_FAILURE.
Proof. vm_compute. reflexivity. Qed.

(* a ticket sealed by ticket_create is accepted by ticket_unlock (identity cipher, a keyed checksum as MAC) *)
Definition toy_enc (k iv p : list N) : list N := p.
Definition toy_mac (k m : list N) : list N := firstn 32 (map (fun x => (x + 1) mod 256)%N (firstn 16 k ++ m) ++ zeros 32).
Definition toy_key : tkey := mkK (repeat 170%N 16) (repeat 17%N 32) 32 (repeat 34%N 32) 32 0.
Example ticket_roundtrip_toy :
  let st := set_keys (init_state 1000000) [toy_key] in
  match ticket_create toy_enc toy_mac cA (repeat 7%N 16) st with
  | Some t => let '(rc, c') := ticket_unlock toy_enc toy_mac (fun _ => true) cB (skipn 6 t) (tick st 86400000) in
              rc = k_PS_SUCCESS /\ c_tms c' = c_ms cA /\ c_cipher c' = c_cipher cA
              /\ fst (ticket_unlock toy_enc toy_mac (fun _ => true) cB (skipn 6 t) (tick st 86401000)) = k_PS_FAILURE
  | None => False
  end.
Proof. vm_compute. auto. Qed.

(* ================================================================== ticket round trip, for any cipher with dec . enc = id *)
Lemma firstn_app_exact : forall A (a b : list A) n, length a = n -> firstn n (a ++ b) = a.
Proof. intros A a b n H. subst n. rewrite firstn_app, Nat.sub_diag, firstn_all. cbn. apply app_nil_r. Qed.

Lemma skipn_app_exact : forall A (a b : list A) n, length a = n -> skipn n (a ++ b) = b.
Proof. intros A a b n H. subst n. rewrite skipn_app, Nat.sub_diag, skipn_all. reflexivity. Qed.

Lemma nth_app_exact : forall (a b : list N) n i, length a = n -> nth (n + i) (a ++ b) 0%N = nth i b 0%N.
Proof. intros a b n i H. subst n. rewrite app_nth2 by lia. f_equal. lia. Qed.

Lemma be16_val : forall s, 0 <= s < 65536 -> 256 * Z.of_N (Z.to_N ((s / 256) mod 256)) + Z.of_N (Z.to_N (s mod 256)) = s.
Proof. intros s H. rewrite !Z2N.id by (apply Z.mod_pos_bound; lia). Ltac Zify.zify_post_hook ::= Z.div_mod_to_equations. lia. Qed.

Lemma be32_val : forall s, 0 <= s < 4294967296 ->
  16777216 * Z.of_N (Z.to_N ((s / 16777216) mod 256)) + 65536 * Z.of_N (Z.to_N ((s / 65536) mod 256))
  + 256 * Z.of_N (Z.to_N ((s / 256) mod 256)) + Z.of_N (Z.to_N (s mod 256)) = s.
Proof. intros s H. rewrite !Z2N.id by (apply Z.mod_pos_bound; lia). lia. Qed.

Section TicketRoundTrip.
  Variable enc dec : list N -> list N -> list N -> list N.
  Variable mac : list N -> list N -> list N.
  Variable avail : Z -> bool.
  Hypothesis Hdec : forall k iv p, dec k iv (enc k iv p) = p.
  Hypothesis Henc_len : forall k iv p, length (enc k iv p) = length p.
  Hypothesis Hmac_len : forall k m, length (mac k m) = 32%nat.

  Theorem ticket_roundtrip : forall c c1 iv st0 st1 k rest suite t,
    s_keys st0 = k :: rest -> length (k_name k) = 16%nat -> length iv = 16%nat -> length (c_ms c) = MSLEN ->
    c_cipher c = Some suite -> 0 <= suite < 65536 -> 0 <= c_maj c < 256 -> 0 <= c_min c < 256 ->
    ticket_create enc mac c iv st0 = Some t ->
    (* the unlocking side: key still listed under its name, same version, suite available, EMS requirement compatible *)
    find_key (k_name k) (s_keys st1) = Some k ->
    c_maj c1 = c_maj c -> c_min c1 = c_min c -> avail suite = true ->
    ~ (c_ems c = false /\ c_reqems c1 = 1) ->
    forall rc c2, ticket_unlock dec mac avail c1 (skipn 6 t) st1 = (rc, c2) ->
      if ((now_secs st1 - now_secs st0) mod 4294967296 <=? LIFE / 1000)
      then rc = k_PS_SUCCESS /\ c_tms c2 = c_ms c /\ c_cipher c2 = Some suite
      else rc = k_PS_FAILURE.
  Proof.
    intros c c1 iv st0 st1 k rest suite t Hk Hn Hiv Hms Hci Hsu Hmaj Hmin Hcr Hfind Emaj Emin Hav Hreq rc c2 U.
    unfold ticket_create in Hcr. rewrite Hk, Hci in Hcr. cbv zeta in Hcr. injection Hcr as <-.
    set (pt := ticket_plain c suite (now_secs st0)) in *.
    set (ct := enc (firstn (Z.to_nat (k_symlen k)) (k_sym k)) iv pt) in *.
    set (body := k_name k ++ iv ++ ct) in *.
    set (tag := mac (firstn (Z.to_nat (k_hashlen k)) (k_hash k)) body) in *.
    assert (Lpt : length pt = 64%nat).
    { unfold pt, ticket_plain. rewrite !app_length, repeat_length, Hms. reflexivity. }
    assert (Lct : length ct = 64%nat) by (unfold ct; rewrite Henc_len; auto).
    assert (Lbody : length body = 96%nat) by (unfold body; rewrite !app_length, Hn, Hiv, Lct; reflexivity).
    assert (Ltag : length tag = 32%nat) by apply Hmac_len.
    cbn [skipn] in U.
    set (tk := body ++ tag) in *.
    assert (Ltk : length tk = 128%nat) by (unfold tk; rewrite app_length, Lbody, Ltag; reflexivity).
    unfold ticket_unlock in U. rewrite Ltk in U.
    change (negb (Z.of_nat 128 =? TICKETLEN)) with false in U. cbv iota in U.
    assert (F16 : firstn 16 tk = k_name k).
    { unfold tk, body. rewrite <- !app_assoc. apply firstn_app_exact. auto. }
    rewrite F16, Hfind in U. cbv zeta in U.
    change (128 - Z.to_nat k_SHA256_HASHLEN)%nat with 96%nat in U.
    change (128 - 32 - Z.to_nat k_SHA256_HASHLEN)%nat with 64%nat in U.
    assert (Fb : firstn 96 tk = body) by (unfold tk; apply firstn_app_exact; auto).
    assert (St : skipn 96 tk = tag) by (unfold tk; apply skipn_app_exact; auto).
    assert (Siv : skipn_firstn 16 16 tk = iv).
    { unfold skipn_firstn, tk, body. rewrite <- !app_assoc. rewrite skipn_app_exact by auto. apply firstn_app_exact. auto. }
    assert (Sct : skipn_firstn 32 64 tk = ct).
    { unfold skipn_firstn, tk, body. rewrite <- !app_assoc.
      rewrite (app_assoc (k_name k) iv). rewrite skipn_app_exact by (rewrite app_length, Hn, Hiv; reflexivity).
      apply firstn_app_exact. auto. }
    rewrite Fb, St, Siv, Sct in U. fold tag in U. rewrite beq_refl in U. cbn [negb] in U.
    unfold ct in U. rewrite Hdec in U.
    (* decode the plaintext *)
    assert (P0 : bz pt 0 = c_maj c) by (unfold bz, pt, ticket_plain; cbn [app nth]; rewrite Z2N.id; lia).
    assert (P1 : bz pt 1 = c_min c) by (unfold bz, pt, ticket_plain; cbn [app nth]; rewrite Z2N.id; lia).
    assert (P23 : 256 * bz pt 2 + bz pt 3 = suite) by (unfold bz, pt, ticket_plain, be16; cbn [app nth]; apply be16_val; auto).
    assert (P4 : bz pt 4 = if c_ems c then 1 else 0) by (unfold bz, pt, ticket_plain, be16; cbn [app nth]; destruct (c_ems c); reflexivity).
    assert (Pms : skipn_firstn 5 MSLEN pt = c_ms c).
    { unfold skipn_firstn, pt, ticket_plain, be16. cbn [app skipn]. apply firstn_app_exact. auto. }
    assert (Pt : 16777216 * bz pt 53 + 65536 * bz pt 54 + 256 * bz pt 55 + bz pt 56 = now_secs st0).
    { assert (B : forall i, (i < 4)%nat -> bz pt (53 + i) = bz (be32 (now_secs st0)) i).
      { intros i Hi. unfold bz, pt, ticket_plain, be16. f_equal. cbn [app].
        change (53 + i)%nat with (S (S (S (S (S (48 + i)))))). cbn [nth].
        rewrite (nth_app_exact (c_ms c) _ 48 i) by auto.
        destruct i as [|[|[|[|i]]]]; try reflexivity. lia. }
      pose proof (B 0%nat ltac:(lia)) as B0. pose proof (B 1%nat ltac:(lia)) as B1.
      pose proof (B 2%nat ltac:(lia)) as B2. pose proof (B 3%nat ltac:(lia)) as B3.
      cbn [Nat.add] in B0, B1, B2, B3. rewrite B0, B1, B2, B3. unfold bz, be32, le32. cbn [rev app nth]. apply be32_val. unfold now_secs. apply Z.mod_pos_bound. lia. }
    rewrite P0, P1, Emaj, Emin, !Z.eqb_refl in U. cbn [negb orb] in U.
    rewrite P23, Hav in U. cbn [negb] in U. rewrite P4, Pms, Pt in U.
    assert (R : ((if c_ems c then 1 else 0) =? 0) && (c_reqems (c_set_secret c1 (c_ms c1) (Some suite)) =? 1) = false).
    { destruct (c_ems c); cbn; auto. destruct (Z.eqb_spec (c_reqems c1) 1); auto. exfalso. apply Hreq. auto. }
    rewrite R in U.
    destruct (Z.leb_spec ((now_secs st1 - now_secs st0) mod 4294967296) (LIFE / 1000)) as [L|L].
    - destruct (Z.gtb_spec ((now_secs st1 - now_secs st0) mod 4294967296) (LIFE / 1000)); [lia|].
      injection U as <- <-. cbn. auto.
    - destruct (Z.gtb_spec ((now_secs st1 - now_secs st0) mod 4294967296) (LIFE / 1000)); [|lia].
      injection U as <- _. reflexivity.
  Qed.
End TicketRoundTrip.

(* ================================================================== invalidation of SHARED entries, every kind of event *)
(* The events that invalidate a cached session, on a connection k that holds a reference on its entry
   (whatever the reference count of the entry is - other connections may share it and stay open):
     OAlert k                     the server writes a fatal alert (sslEncodeResponse -> matrixClearSession(remove))
     OUpd k / ODel k with ERROR   SSL_FLAGS_ERROR is set - fatal alert RECEIVED or local error - when
                                  matrixUpdateSession runs (at once, or from matrixSslDeleteSession) *)
Definition holds_entry (c : conn) : Prop :=
  c_server c = true /\ 0 < c_sidlen c /\ 0 < c_ref c <= k_SSL_SESSION_TABLE_SIZE.

Definition invalidating (o : op) (k : nat) (c : conn) : Prop :=
  o = OAlert k \/ ((o = OUpd k \/ o = ODel k) /\ c_error c = true).

Lemma dead_entry_abs : forall st st' n, TInv st -> (n < TBL)%nat ->
  e_cipher (get st' n) = None -> abs st' (e_id (get st n)) = None.
Proof.
  intros st st' n T Hn D. destruct (I_id _ T n Hn) as [Hs Hl].
  unfold abs. rewrite Hl, Nat.eqb_refl, Hs, Nat2Z.id.
  destruct (_ && _); auto. destruct (beq _ _); auto. rewrite D. reflexivity.
Qed.

Lemma update_error_dead : forall c st rc c' st', TInv st -> holds_entry c -> c_error c = true ->
  update c st = (rc, c', st') -> e_cipher (get st' (Z.to_nat (c_ref c - 1))) = None.
Proof.
  intros c st rc c' st' T [Hsrv [Hlen [Hr0 Hr1]]] He E. unfold update in E.
  rewrite Hsrv in E. cbn [negb] in E.
  assert (E1 : (c_sidlen c =? 0) = false) by (apply Z.eqb_neq; lia).
  assert (E2 : (c_ref c =? 0) = false) by (apply Z.eqb_neq; lia).
  assert (E3 : (c_ref c - 1 >=? k_SSL_SESSION_TABLE_SIZE) = false) by (destruct (Z.geb_spec (c_ref c - 1) k_SSL_SESSION_TABLE_SIZE); auto; lia).
  rewrite E1, E2, E3 in E. cbn [orb] in E.
  set (n := Z.to_nat (c_ref c - 1)) in *.
  assert (Hn : (n < TBL)%nat) by (apply to_nat_lt_TBL; lia).
  assert (L : forall st1 c1, (if c_closed c then (c_set_ref c 0, release st n) else (c, st)) = (c1, st1) ->
              length (s_tbl st1) = length (s_tbl st)).
  { intros st1 c1 Q. destruct (c_closed c); injection Q as <- <-; auto. destruct (release_misc st n) as [_ [_ L]]. auto. }
  destruct (if c_closed c then (c_set_ref c 0, release st n) else (c, st)) as [c1 st1] eqn:Q.
  specialize (L st1 c1 eq_refl). rewrite He in E. injection E as <- <- <-.
  rewrite get_put_same by (rewrite L, (I_len _ T); auto). reflexivity.
Qed.

Lemma clear_remove_holder_dead : forall c st rc c' st', TInv st -> holds_entry c ->
  clear c true st = (rc, c', st') -> e_cipher (get st' (Z.to_nat (c_ref c - 1))) = None.
Proof.
  intros c st rc c' st' T [Hsrv [Hlen [Hr0 Hr1]]] E.
  apply (clear_remove_dead c st rc c' st' T E).
  unfold clear in E.
  assert (E1 : (c_sidlen c <=? 0) = false) by (apply Z.leb_gt; lia).
  assert (E2 : (c_ref c =? 0) = false) by (apply Z.eqb_neq; lia).
  assert (E3 : (c_ref c - 1 >=? k_SSL_SESSION_TABLE_SIZE) = false) by (destruct (Z.geb_spec (c_ref c - 1) k_SSL_SESSION_TABLE_SIZE); auto; lia).
  rewrite E1, E2, E3 in E. injection E as <- _ _. reflexivity.
Qed.

(* one invalidating step kills the entry the connection holds, whoever else shares it *)
Lemma invalidating_step_kills : forall o k cs st rc cs' st', Inv cs st -> (k < length cs)%nat ->
  holds_entry (getc cs k) -> invalidating o k (getc cs k) -> step o cs st = (rc, cs', st') ->
  abs st' (e_id (get st (Z.to_nat (c_ref (getc cs k) - 1)))) = None.
Proof.
  intros o k cs st rc cs' st' HI Hk Hh Hinv Hs. pose proof HI as [T _].
  pose proof Hh as [Hsrv [Hlen [Hr0 Hr1]]].
  assert (Hn : (Z.to_nat (c_ref (getc cs k) - 1) < TBL)%nat) by (apply to_nat_lt_TBL; lia).
  apply dead_entry_abs; auto.
  assert (Lk : Nat.ltb k (length cs) = true) by (apply Nat.ltb_lt; auto).
  destruct Hinv as [->|[[->| ->] He]]; cbn [step] in Hs; unfold lift in Hs; rewrite Lk in Hs.
  - (* fatal alert sent *)
    destruct (fatal_alert (getc cs k) st) as [[rc1 c1] st1] eqn:E. injection Hs as <- <- <-.
    unfold fatal_alert in E. set (c0 := c_set_flags (getc cs k) (c_closed (getc cs k)) true (c_resumed (getc cs k))) in *.
    change (c_server c0) with (c_server (getc cs k)) in E. rewrite Hsrv in E.
    apply (clear_remove_holder_dead c0 st rc1 c1 st1 T); auto.
  - (* error flag seen by matrixUpdateSession *)
    destruct (update (getc cs k) st) as [[rc1 c1] st1] eqn:E. injection Hs as <- <- <-.
    apply (update_error_dead (getc cs k) st rc1 c1 st1 T); auto.
  - (* error flag at matrixSslDeleteSession *)
    destruct (delete_session (getc cs k) st) as [[rc1 c1] st1] eqn:E. injection Hs as <- <- <-.
    unfold delete_session in E. set (c0 := c_set_flags (getc cs k) true (c_error (getc cs k)) (c_resumed (getc cs k))) in *.
    assert (G : (c_sidlen c0 >? 0) && c_server c0 = true).
    { change (c_sidlen c0) with (c_sidlen (getc cs k)). change (c_server c0) with (c_server (getc cs k)). rewrite Hsrv.
      destruct (Z.gtb_spec (c_sidlen (getc cs k)) 0); auto. lia. }
    rewrite G in E. destruct (update c0 st) as [[rc2 c2] st2] eqn:EU. injection E as <- <- <-.
    apply (update_error_dead c0 st rc2 c2 st2 T); auto.
Qed.

(* ... for good: over ANY later interleaving of operations of any connections (the sharers included), nobody
   presenting that identifier is resumed, unless the server issues the very same identifier again *)
Theorem invalidation_shared : forall o k cs st rc cs' st' ops cs1 st1 c,
  Inv cs st -> (k < length cs)%nat ->
  holds_entry (getc cs k) -> invalidating o k (getc cs k) -> step o cs st = (rc, cs', st') ->
  let id0 := e_id (get st (Z.to_nat (c_ref (getc cs k) - 1))) in
  run ops cs' st' = (cs1, st1) ->
  ~ issued_during ops cs' st' id0 ->
  wf_conn c -> c_server c = true -> presented c = id0 ->
  forall rc1 c1' st1', resume c st1 = (rc1, c1', st1') -> rc1 < 0 /\ c1' = c /\ st1' = st1.
Proof.
  intros o k cs st rc cs' st' ops cs1 st1 c HI Hk Hh Hinv Hs id0 Hrun Hni W Hsrv Hp rc1 c1' st1' Er.
  assert (HI' : Inv cs' st') by (eapply step_inv; eauto).
  assert (HI1 : Inv cs1 st1) by (eapply run_inv; eauto).
  assert (Dead : abs st1 id0 = None).
  { destruct (abs st1 id0) eqn:A; auto. exfalso.
    destruct (run_abs_mono ops _ st' cs1 st1 id0 HI' Hrun) as [H|H]; [rewrite A; discriminate | | contradiction].
    apply H. eapply invalidating_step_kills; eauto. }
  destruct HI1 as [T1 _].
  destruct (resume_refines_inv c st1 T1 W Hsrv rc1 c1' st1' Er) as [[_ S]|[Hneg [_ [-> ->]]]]; auto.
  exfalso. unfold spec_resume, hello_of in S. cbn [h_id] in S. rewrite Hp, Dead in S. discriminate.
Qed.

(* non-vacuity with a reference count of 2 and 3: A registers, B (and C) resume; B receives a fatal alert and is
   deleted while A (and C) stay open: in-use count 1 (2) remains, the id no longer resumes - now, after the
   others closed, and after further traffic *)
Example shared_entry_invalidated :
  let idA := le32 0 ++ repeat 17%N 28 in
  let setup := [ONew 0 cA; OReg 0; OUpd 0; ONew 1 cB; OSid 1 idA 32; OChr 1; ONew 2 cB; OSid 2 idA 32; OChr 2] in
  let '(cs, st) := run setup [] (init_state 1000000) in
  e_inuse (get st 0) = 3 /\ holds_entry (getc cs 1) /\ abs st idA <> None /\
  let '(cs', st') := run [OFlag 1 false true true; ODel 1] cs st in
  e_inuse (get st' 0) = 2 /\
  let probe := c_set_sid cB idA 32 in
  fst (fst (resume probe st')) = k_PS_LIMIT_FAIL /\
  fst (fst (resume probe (snd (run [ODel 0; ODel 2; OTick 5] cs' st')))) = k_PS_LIMIT_FAIL.
Proof. vm_compute. repeat split; auto; try discriminate; lia. Qed.

(* ================================================================== statements as exported by Properties_C14.v *)
Theorem cache_invariant_all : forall ops now cs0 cs st,
  fresh_conns cs0 -> run ops cs0 (init_state now) = (cs, st) ->
  Inv cs st /\ s_corrupt st = false /\ (forall i, (i < TBL)%nat -> 0 <= e_inuse (get st i)).
Proof.
  intros ops now cs0 cs st Hf Hr. pose proof (invariant_all_histories ops now cs0 cs st Hf Hr) as HI.
  split; [exact HI | split; [exact (I_ok st (proj1 HI)) | intros i Hi; exact (inuse_nonneg cs st i HI Hi)]].
Qed.

Theorem short_id_orig_refuted : exists c st,
  c_sidlen c = 4 /\ fst (fst (resume_orig c st)) = k_PS_SUCCESS /\ spec_resume (abs st) (s_now st) (hello_of c) = None.
Proof. exists (c_set_sid cB (zeros IDLEN) 4), (snd st_after_A). destruct short_id_orig_witness as [A [_ B]]. split; [reflexivity | split; [exact A | exact B]]. Qed.

Theorem expiry_orig_refuted : exists c st,
  fst (fst (resume_orig c st)) = k_PS_SUCCESS /\ spec_resume (abs st) (s_now st) (hello_of c) = None.
Proof. eexists; eexists. exact expiry_orig_witness. Qed.

Theorem foreign_slot_orig_refuted : exists c st,
  c_ref c = 0 /\ e_ms (get (snd (update_orig c st)) 0) <> e_ms (get st 0)
  /\ e_id (get (snd (update_orig c st)) 0) = e_id (get st 0) /\ e_inuse (get (snd (update_orig c st)) 0) = -1.
Proof.
  eexists; eexists. destruct foreign_update_orig_witness as [A [B [C [D E]]]].
  split; [exact A | split; [rewrite B, C; discriminate | split; [exact D | exact E]]].
Qed.

Theorem negative_inuse_orig_refuted : exists c st,
  e_inuse (get (snd (clear_orig c false (snd (update_orig c st)))) 0) = -1
  /\ exists c2 st2, s_corrupt st2 = false /\ s_corrupt (snd (update_orig c2 (snd (clear_orig c2 false st2)))) = true.
Proof.
  pose proof negative_inuse_orig_witness as W.
  destruct (run [ONew 0 cA; OReg 0; OUpd 0] [] (init_state 1000000)) as [cs st] eqn:E.
  exists (c_set_flags (getc cs 0) true false false), st. destruct W as [A B]. split; [exact A|].
  exists (getc cs 0), st. split; [|exact B].
  assert (H : s_corrupt (snd (run [ONew 0 cA; OReg 0; OUpd 0] [] (init_state 1000000))) = false) by (vm_compute; reflexivity).
  rewrite E in H. exact H.
Qed.

Theorem revival_orig_refuted : exists c st id, abs st id = None /\ abs (snd (update_orig c st)) id <> None.
Proof.
  pose proof revival_orig_witness as W.
  destruct (run [ONew 0 cA; OReg 0; OUpd 0; ONew 1 cB; OSid 1 (le32 0 ++ repeat 17%N 28) 32; OChr 1; OAlert 1] [] (init_state 1000000)) as [cs st].
  eexists; eexists; eexists. exact W.
Qed.

Theorem ticket_edit_rejected_full : forall dec mac avail signed c tk st c',
  unforgeable mac signed tk ->
  ticket_unlock dec mac avail c tk st = (k_PS_SUCCESS, c') ->
  Z.of_nat (length tk) = TICKETLEN /\
  exists k, find_key (firstn 16 tk) (s_keys st) = Some k /\ In (hkey k, ticket_body tk) signed.
Proof.
  intros dec mac avail signed c tk st c' Hunf E.
  split; [exact (proj1 (unlock_success dec mac avail c tk st c' E)) | exact (ticket_edit_rejected dec mac avail signed c tk st c' Hunf E)].
Qed.

Theorem rotation_both : forall dec mac avail,
  (forall name sym symlen hash hashlen st rc st',
     key_add name sym symlen hash hashlen st = (rc, st') ->
     (forall n k0, find_key n (s_keys st) = Some k0 -> find_key n (s_keys st') = Some k0)
     /\ (forall k r, s_keys st = k :: r -> exists r', s_keys st' = k :: r')
     /\ s_tbl st' = s_tbl st /\ s_chron st' = s_chron st)
  /\ (forall name st rc st' c tk,
     NoDup (map k_name (s_keys st)) -> key_del name st = (rc, st') -> rc = k_PS_SUCCESS ->
     firstn 16 tk = name -> fst (ticket_unlock dec mac avail c tk st') = k_PS_FAILURE).
Proof. intros dec mac avail. split; [exact rotation_add | exact (rotation_del dec mac avail)]. Qed.

(* ================================================================== TLS 1.3 ticket parameters *)
(* tls13ValidateSessionParams accepts decrypted ticket parameters iff version and suite are the negotiated ones
   and the sealed issue time is not in the future and at most the sealed lifetime ago (lifetimes below the
   saturation point of psDiffMsecs, 24.8 days; RFC 8446 allows at most 7 days) *)
Theorem tls13_validate_spec : forall c suite p st,
  c_server c = true -> 0 <= p_life p < 2147483 ->
  (fst (tls13_validate c suite p st) = k_PS_SUCCESS <->
   p_maj p = c_maj c /\ p_min p = c_min c /\ p_cipher p = suite /\
   0 <= s_now st - p_stamp p /\ (s_now st - p_stamp p) / 1000 <= p_life p).
Proof.
  intros c suite p st Hsrv Hl. unfold tls13_validate. rewrite Hsrv.
  destruct (Z.eqb_spec (p_maj p) (c_maj c)); destruct (Z.eqb_spec (p_min p) (c_min c)); cbn [andb negb fst];
    try (split; [intro HH; discriminate HH | intros [A [B _]]; contradiction]).
  destruct (Z.eqb_spec (p_cipher p) suite); cbn [negb fst]; [|split; [intro HH; discriminate HH | intros [_ [_ [A _]]]; contradiction]].
  unfold diff_msecs. set (d := s_now st - p_stamp p).
  Ltac Zify.zify_post_hook ::= Z.div_mod_to_equations.
  destruct (Z.gtb_spec d 2147483647).
  - change (2147483647 <? 0) with false. change (2147483647 / 1000) with 2147483. cbn [orb].
    change (2147483 mod 4294967296) with 2147483.
    destruct (Z.gtb_spec 2147483 (p_life p)); cbn [fst]; [|lia].
    split; [intro HH; discriminate HH | intros [_ [_ [_ [A B]]]]; lia].
  - destruct (Z.ltb_spec d (-2147483647)).
    + change (-2147483647 <? 0) with true. cbn [orb fst]. split; [intro HH; discriminate HH | intros [_ [_ [_ [A B]]]]; lia].
    + destruct (Z.ltb_spec d 0); cbn [orb fst]; [split; [intro HH; discriminate HH | intros [_ [_ [_ [A B]]]]; lia]|].
      assert (M : (d / 1000) mod 4294967296 = d / 1000) by (apply Z.mod_small; lia). rewrite M.
      destruct (Z.gtb_spec (d / 1000) (p_life p)); cbn [fst]; split; auto; try (intro HH; discriminate HH); try (intros [_ [_ [_ [A B]]]]; lia).
Qed.

(* a ticket issued by this server (parameters as tls13WriteNewSessionTicket seals them) is honoured exactly for
   TLS_1_3_TICKET_LIFETIME seconds, for the same version and suite *)
Theorem tls13_ticket_lifetime : forall c0 c1 suite0 suite1 st0 st1,
  c_server c1 = true ->
  (fst (tls13_validate c1 suite1 (tls13_issue c0 suite0 st0) st1) = k_PS_SUCCESS <->
   c_maj c0 = c_maj c1 /\ c_min c0 = c_min c1 /\ suite0 = suite1 /\
   0 <= s_now st1 - s_now st0 /\ (s_now st1 - s_now st0) / 1000 <= k_TLS_1_3_TICKET_LIFETIME).
Proof.
  intros. apply (tls13_validate_spec c1 suite1 (tls13_issue c0 suite0 st0) st1); auto.
  cbn. vm_compute. split; [discriminate | reflexivity].
Qed.

(* ================================================================== ticket keys chosen with the application's callback *)
Section TicketCallback.
  Variable dec : list N -> list N -> list N -> list N.
  Variable mac : list N -> list N -> list N.
  Variable avail : Z -> bool.

  Lemma find_key_name : forall name l k, find_key name l = Some k -> beq (k_name k) name = true /\ In k l.
  Proof.
    induction l as [|a l IH]; cbn [find_key]; intros k H; [discriminate|].
    destruct (beq (k_name a) name) eqn:B.
    - injection H as <-. split; auto. left; reflexivity.
    - destruct (IH k H). split; auto. right; auto.
  Qed.

  Lemma last_key_In : forall l k, last_key l = Some k -> In k l.
  Proof. intros l k H. unfold last_key in H. destruct (rev l) eqn:R; [discriminate|]. injection H as <-. apply in_rev. rewrite R. left; reflexivity. Qed.

  Lemma key_add_In : forall n s sl h hl st k, In k (s_keys st) -> In k (s_keys (snd (key_add n s sl h hl st))).
  Proof.
    intros n s sl h hl st k H. unfold key_add.
    destruct (_ && _); [exact H|]. destruct (negb _); [exact H|].
    destruct (s_keys st) as [|a l] eqn:K; [destruct H|].
    destruct (_ >? _); cbn [snd set_keys s_keys]; [rewrite K; exact H | apply in_or_app; left; exact H].
  Qed.

  (* the rest of matrixUnlockSessionTicket sees only the chosen key *)
  Lemma unlock_singleton : forall c tk st k, find_key (firstn 16 tk) (s_keys st) = Some k ->
    ticket_unlock dec mac avail c tk (set_keys st [k]) = ticket_unlock dec mac avail c tk st.
  Proof.
    intros c tk st k H. destruct (find_key_name _ _ _ H) as [B _].
    unfold ticket_unlock. cbn [set_keys s_keys find_key]. rewrite B, H. reflexivity.
  Qed.

  (* without a callback nothing changes with respect to ticket_unlock *)
  Theorem unlock_cb_none : forall c tk st,
    ticket_unlock_cb dec mac avail None c tk st = (let '(rc, c') := ticket_unlock dec mac avail c tk st in (rc, c', st)).
  Proof.
    intros c tk st. unfold ticket_unlock_cb, get_ticket_keys.
    destruct (negb (Z.of_nat (length tk) =? TICKETLEN)) eqn:L.
    - unfold ticket_unlock. rewrite L. reflexivity.
    - destruct (find_key (firstn 16 tk) (s_keys st)) as [k|] eqn:F.
      + rewrite (unlock_singleton c tk st k F). reflexivity.
      + unfold ticket_unlock. rewrite L, F. reflexivity.
  Qed.

  (* For ALL key lists and ALL callback behaviours: a ticket is honoured only if the registered callback was asked
     about its key (with the correct found-in-list flag) and did not reject it; the key used is in the key list as the
     callback left it, carries the ticket's key name, is the LAST key when it had to be supplied by the callback, and
     the ticket passes every check of matrixUnlockSessionTicket under that key. *)
  Theorem ticket_callback_respected : forall (f : cbfun) c tk st rc c' st',
    ticket_unlock_cb dec mac avail (Some f) c tk st = (rc, c', st') -> rc = k_PS_SUCCESS ->
    let name := firstn 16 tk in
    let found := match find_key name (s_keys st) with Some _ => true | None => false end in
    f name found <> CbReject /\
    exists k, In k (s_keys st') /\ beq (k_name k) name = true /\
              (found = true -> find_key name (s_keys st) = Some k) /\
              (found = false -> last_key (s_keys st') = Some k) /\
              ticket_unlock dec mac avail c tk (set_keys st' [k]) = (k_PS_SUCCESS, c') /\
              mac (hkey k) (ticket_body tk) = ticket_tag tk.
  Proof.
    intros f c tk st rc c' st' E Hrc name found. subst rc.
    unfold ticket_unlock_cb in E.
    destruct (negb (Z.of_nat (length tk) =? TICKETLEN)); [injection E as E _ _; discriminate E|].
    fold name in E. unfold get_ticket_keys in E. fold name in E.
    assert (Fin : forall k st1, (let '(rc, c1) := ticket_unlock dec mac avail c tk (set_keys st1 [k]) in (rc, c1, st1)) = (k_PS_SUCCESS, c', st') ->
                  beq (k_name k) name = true ->
                  st1 = st' /\ ticket_unlock dec mac avail c tk (set_keys st' [k]) = (k_PS_SUCCESS, c') /\ mac (hkey k) (ticket_body tk) = ticket_tag tk).
    { intros k st1 Q B. destruct (ticket_unlock dec mac avail c tk (set_keys st1 [k])) as [rc1 c1] eqn:U. injection Q as -> -> ->.
      split; auto. split; auto.
      destruct (unlock_success dec mac avail c tk (set_keys st' [k]) c' U) as [_ [k' [Fk [M _]]]].
      cbn [set_keys s_keys find_key] in Fk. fold name in Fk. rewrite B in Fk. injection Fk as <-. exact M. }
    destruct (find_key name (s_keys st)) as [k0|] eqn:F0; subst found.
    - destruct (find_key_name _ _ _ F0) as [B0 In0].
      destruct (f name true) as [| |n s sl h hl] eqn:V; try (injection E as E _ _; discriminate E).
      + split; [discriminate|]. destruct (Fin k0 st E B0) as [<- [U M]].
        exists k0. repeat split; auto. intro Q; discriminate Q.
      + split; [discriminate|]. destruct (Fin k0 _ E B0) as [<- [U M]].
        exists k0. repeat split; auto; try (intro Q; discriminate Q).
        apply key_add_In; auto.
    - destruct (f name false) as [| |n s sl h hl] eqn:V; try (injection E as E _ _; discriminate E).
      + split; [discriminate|].
        destruct (last_key (s_keys st)) as [k|] eqn:Lk; [|injection E as E _ _; discriminate E].
        destruct (beq (k_name k) name) eqn:B; [|injection E as E _ _; discriminate E].
        destruct (Fin k st E B) as [<- [U M]]. exists k. repeat split; auto. * apply last_key_In; auto. * intro Q; discriminate Q.
      + split; [discriminate|].
        set (st1 := snd (key_add n s sl h hl st)) in *.
        destruct (last_key (s_keys st1)) as [k|] eqn:Lk; [|injection E as E _ _; discriminate E].
        destruct (beq (k_name k) name) eqn:B; [|injection E as E _ _; discriminate E].
        destruct (Fin k st1 E B) as [<- [U M]]. exists k. repeat split; auto. * apply last_key_In; auto. * intro Q; discriminate Q.
  Qed.

  (* with Hunf: what was honoured is a body the server MACed under a key the application did not reject *)
  Corollary ticket_callback_unforgeable : forall signed (f : cbfun) c tk st c' st',
    unforgeable mac signed tk ->
    ticket_unlock_cb dec mac avail (Some f) c tk st = (k_PS_SUCCESS, c', st') ->
    f (firstn 16 tk) (match find_key (firstn 16 tk) (s_keys st) with Some _ => true | None => false end) <> CbReject
    /\ exists k, In k (s_keys st') /\ In (hkey k, ticket_body tk) signed.
  Proof.
    intros signed f c tk st c' st' Hunf E.
    destruct (ticket_callback_respected f c tk st _ c' st' E eq_refl) as [R [k [Hin [_ [_ [_ [_ M]]]]]]].
    split; auto. exists k. split; auto.
  Qed.
End TicketCallback.
