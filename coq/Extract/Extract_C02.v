From Coq Require Import ExtrOcamlBasic.
From MV Require Import Gen.Consts Rec.RecModel Rec.RecInst.
Extraction Language OCaml.
Cd "../ocaml/gen".
Extraction "m_c02.ml" i_run_wire i_seal_cbc i_seal_gcm12 i_seal_chacha12 i_seal_tls13 i_seal_tls13_block i_open_tls13_orig Nat.add.
Cd "../../coq".
