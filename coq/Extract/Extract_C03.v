From Coq Require Import ExtrOcamlBasic.
From MV Require Import Chain.ChainModel.
Extraction Language OCaml.
Cd "../ocaml/gen".
Extraction "m_c03.ml" validate auth_api accepted parse_gate date_flag load_crls.
Cd "../../coq".
