From Coq Require Import ExtrOcamlBasic.
From MV Require Import Hs.HsModel Hs.HsSpec Hs.HsProofs.
Extraction Language OCaml.
Cd "../ocaml/gen".
Extraction "m_c06.ml" step check13 gate12 gate12d classify dstep init completeb prefix_okb negotiated legalb required kinds Nat.add N.add.
Cd "../../coq".
