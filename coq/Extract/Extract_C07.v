From Coq Require Import ExtrOcamlBasic.
From Coq Require Import ZArith.
From MV Require Import Neg.NegModel.
Extraction Language OCaml.
Cd "../ocaml/gen".
Extraction "m_c07.ml" check_client_hello_version check_supported_versions server_negotiate_version peer_of
  ver_get_highest ver_get_highest_tls ver_get_lowest_tls ver_from_encoding check_server_hello_version downgrade_check ips negotiate_group
  key_share_group client_accept_hrr_group client_accept_share_group choose_sigalg client_accept_sigalg
  get_cipher_spec choose_suite default_suite_list server_client_hello client_server_hello scsv_inappropriate run_ops dinit scfg_after parse_supported_groups parse_sigalgs choose_sigalg_int client_ske server_cv_alg server_client_hello_g mem Z.of_N.
Cd "../../coq".
