From Coq Require Import ExtrOcamlBasic.
From Coq Require Import ZArith.
From MV Require Import Auth.AuthModel.
Extraction Language OCaml.
Cd "../ocaml/gen".
Extraction "m_c04.ml" cert_run12 cert_run13 fixed pinned run run_hello init step Nat.add Z.of_nat.
Cd "../../coq".
