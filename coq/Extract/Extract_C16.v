From Coq Require Import ExtrOcamlBasic.
From MV Require Import Dtls.DtlsModel Dtls.FlightModel.
Extraction Language OCaml.
Cd "../ocaml/gen".
Extraction "m_c16.ml" chk_replay dtls_rx ccs_parsed run_verdicts run_win_bits run run_wraps compare_epoch incr_two_byte win_empty Nat.add flights hs_rx.
Cd "../../coq".
