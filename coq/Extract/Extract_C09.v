From Coq Require Import ExtrOcamlBasic.
From MV Require Import Asn.AsnModel.
Extraction Language OCaml.
Cd "../ocaml/gen".
Extraction "m_c09.ml" getAsnLength32 getAsnLength getAsnSequence32 getAsnSet32 getAsnSequence getAsnSet
  getAsnInteger getAsnEnumerated getAsnEnumerated_unfixed asnCopyOid getAsnOID getAsnAlgorithmIdentifier getAsnTagLenUnsafe
  crl_revoked crl_revoked_unfixed time_import parse_general_names parse_general_names_unfixed dn_attributes b64_decode pem_check_ok pem_decode pem_decode_pw pem_cert_list lenN.
Cd "../../coq".
