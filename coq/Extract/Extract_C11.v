From Coq Require Import ExtrOcamlBasic.
From MV Require Import Gen.ConstsPk Pk.PkModel Pk.PkExec.
Extraction Language OCaml.
Cd "../ocaml/gen".
Extraction "m_c11.ml" pkcs1_unpad_ext rsa_decrypt_pub decrypt_signed_element_ext verify_sig_rsa
  pss_decode_id verify_sig_pss ecdsa_parse_sig ecdsa_verify_gen ecdsa_verify ec_mul ec_add ec_mulsum on_curve
  ecc_import dh_pub_check curve_table pkn_PS_PUBKEY pkn_PS_PRIVKEY invmod.
Cd "../../coq".
