From Coq Require Import ExtrOcamlBasic.
From MV Require Import Sess.SessModel.
Extraction Language OCaml.
Cd "../ocaml/gen".
Extraction "m_sess.ml" decode run encode_app_ok dtls_getout.
Cd "../../coq".
