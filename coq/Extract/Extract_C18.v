From Coq Require Import ExtrOcamlBasic.
From MV Require Import Api.ApiModel Api.ApiProofs Api.ApiInst.
Extraction Language OCaml.
Cd "../ocaml/gen".
Extraction "m_c18.ml" tdec recv feed fresh send_all.
Cd "../../coq".
