From Coq Require Import ExtrOcamlBasic.
From MV Require Import Names.NamesModel.
Extraction Language OCaml.
Cd "../ocaml/gen".
Extraction "m_c05.ml" name_check opts_legal validate_general_name wildcard_match match_email ip_str c_PS_ARG_FAIL.
Cd "../../coq".
