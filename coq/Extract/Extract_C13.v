From Coq Require Import ExtrOcamlBasic.
From MV Require Import Big.BigModel.
Extraction Language OCaml.
Cd "../ocaml/gen".
Extraction "m_c13.ml" get set mk_pint pmag zflag pint_eqb err_code alloc
  pstm_add pstm_sub pstm_sub_s s_pstm_add pstm_add_d pstm_sub_d pstm_mul_d pstm_mul_2 pstm_div_2
  pstm_mul_2d pstm_mod_2d pstm_div_2d pstm_lshd pstm_rshd pstm_2expt
  pstm_cmp pstm_cmp_mag pstm_cmp_d pstm_count_bits pstm_unsigned_bin_size
  pstm_copy pstm_abs pstm_clamp pstm_zero pstm_set
  pstm_mul_comba pstm_sqr_comba pstm_read_unsigned_bin pstm_to_unsigned_bin
  pstm_montgomery_setup pstm_montgomery_calc_normalization pstm_montgomery_reduce.
Cd "../../coq".
