From Coq Require Import ExtrOcamlBasic.
From MV Require Import Gen.ConstsCache Cache.CacheModel.
Extraction Language OCaml.
Cd "../ocaml/gen".
Extraction "m_c14.ml" init_state conn0 step tick key_add key_del ticket_create ticket_ext ticket_ext_cb tls13_validate tls13_issue
  k_versions k_suites_rsa_tls12 zeros IDLEN MSLEN.
Cd "../../coq".
