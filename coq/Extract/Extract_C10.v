From Coq Require Import ExtrOcamlBasic.
From MV Require Import Crypto.CryptoSpec Crypto.CryptoModel Tls.TlsSpec Tls.TlsModel.
Extraction Language OCaml.
Cd "../ocaml/gen".
Extraction "m_c10.ml" tls12_handshake tls13_handshake suite_of key_block_len seal12_gcm seal12_chacha seal12_cbc open12_cbc seal13 open13
  resumption_psk nst_nonce body_len12 body_len13 digest_info ske_signed_content hs_hash Hash tls_prf hkdf_expand_label HKDF_Extract
  transcript_hash cv13_content rfc_labels psk_selected selected_psk dhe_selected schedule13 traffic_key traffic_iv early_secret_of handshake_salt client_early_secret_model server_early_secret_model msg_type nonce_xor aad12 aad13 ver_bytes str
  tls_prf_model hkdf_expand_label_model hkdf_extract_model derive_master_model derive_ext_master_model gen_key_block_model key_block_ptrs
  cipher_sizes finished_model verify_data_model resumption_psk_model make_tbs_model reinit_chunk_model
  gcm12_nonce_model aad12_model chacha12_nonce_model tls13_nonce_model tls13_aad_model md5_spec sha1_spec sha512_spec Nat.add.
Cd "../../coq".
