From Coq Require Import ExtrOcamlBasic.
From MV Require Import Nonce.NonceModel.
Extraction Language OCaml.
Cd "../ocaml/gen".
Extraction "m_c17.ml" step guard c_init getw w_seq w_key w_alg incr_seq be_val be_bytes nonce_of.
Cd "../../coq".
