From Coq Require Import ExtrOcamlBasic.
From MV Require Import Gen.Consts Gen.ConstsDtls Gen.ConstsWire Dtls.DtlsModel Wire.WireModel.
Extraction Language OCaml.
Cd "../ocaml/gen".
Extraction "m_c08.ml" decode12 hdr13 hs_record_tls hs13_loop hs_record_dtls received_data processed_data cbc_mac_layout
  all_fixed as_found frag_none c_TLS_1_3_MAX_PLAINTEXT_FRAGMENT_LEN c_DTLS_RETRANSMIT Nat.add.
Cd "../../coq".
