From Coq Require Import ExtrOcamlBasic.
From MV Require Import Gen.Consts Gen.ConstsDtls Gen.ConstsWire Dtls.DtlsModel Wire.WireModel Wire.PbufModel.
Extraction Language OCaml.
Cd "../ocaml/gen".
Extraction "m_c08.ml" decode12 hdr13 hs_record_tls hs13_loop hs_record_dtls received_data processed_data cbc_mac_layout
  parse_tls_vec pb_from pb_can_read pb_remaining pb_octet pb_be16 pb_be32 pb_try_octets pb_try_forward pb_rec_hdr pb_hs_hdr
  pb_tls_vector pb_copy_n all_fixed as_found frag_none c_TLS_1_3_MAX_PLAINTEXT_FRAGMENT_LEN c_DTLS_RETRANSMIT Nat.add.
Cd "../../coq".
