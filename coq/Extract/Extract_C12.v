From Coq Require Import ExtrOcamlBasic.
From MV Require Import Gen.Consts Crypto.CryptoPrims Crypto.CryptoSpec Crypto.CryptoModel Crypto.CryptoSym Crypto.CryptoSymModel
                       Crypto.CryptoDes Crypto.CryptoDesModel Crypto.CryptoLegacy.
Extraction Language OCaml.
Cd "../ocaml/gen".
Extraction "m_c12.ml"
  sha256_spec sha1_spec sha384_spec sha512_spec md5_spec
  sha256_init sha256_update sha256_final sha1_init sha1_update sha1_final
  sha384_init sha384_update sha384_final sha512_init sha512_update sha512_final
  md5_init md5_update md5_final
  hmac_sha256_spec hmac_sha1_spec hmac_sha384_spec hmac_md5_spec
  hmac_sha256_init hmac_sha256_update hmac_sha256_final ps_hmac_sha256
  hmac_sha1_init hmac_sha1_update hmac_sha1_final ps_hmac_sha1
  hmac_sha384_init hmac_sha384_update hmac_sha384_final ps_hmac_sha384
  hmac_md5_init hmac_md5_update hmac_md5_final ps_hmac_md5
  hkdf_extract_sha256_spec hkdf_expand_sha256_spec hkdf_extract_sha384_spec hkdf_expand_sha384_spec hkdf_expand_sha1_spec
  hkdf_extract_sha256 hkdf_expand_sha256 hkdf_extract_sha384 hkdf_expand_sha384 hkdf_extract_sha1 hkdf_expand_sha1
  pbkdf2_sha1_spec pbkdf2_sha1
  aes_cbc_encrypt_spec aes_cbc_decrypt_spec aes_cbc_encrypt_calls aes_cbc_decrypt_calls
  aes_gcm_encrypt_spec aes_gcm_decrypt_spec aes_gcm_encrypt aes_gcm_decrypt aes_gcm_decrypt2 aes_gcm_reuse
  chachapoly_seal_spec chachapoly_open_spec
  des_block des3_cbc_encrypt_spec des3_cbc_decrypt_spec ps_des3_encrypt_calls ps_des3_decrypt_calls
  md5sha1_spec md5sha1_init md5sha1_update md5sha1_final pbkdf1_md5 pbkdf1_md5_spec aes_encrypt_block aes_decrypt_block
  c_PS_ARG_FAIL c_PS_LIMIT_FAIL c_PS_AUTH_FAIL c_PS_UNSUPPORTED_FAIL.
Cd "../../coq".
