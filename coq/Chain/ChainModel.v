(* C03 - executable, code-shaped model of X.509 chain validation.

   psX509AuthenticateCert      crypto/keyformat/x509.c 5916-6222
   matrixValidateCertsExt      matrixssl/matrixssl.c   2343-2644   (expectedName = NULL: names are C05)
   checkPathLenConstraint      matrixssl/matrixssl.c   2268-2300
   validateDateRange           crypto/keyformat/x509.c 5072-5145   (as the verdict it leaves in authFailFlags)
   psCRL_determineRevokedStatus, internalGetCrlForCert, internalCrlIsRevoked, psX509AuthenticateCRL,
   psCRL_Insert / psCRL_Update  crypto/keyformat/crl.c 75-106, 262-332, 336-365, 406-432, 461-505, 551-634, 713-835
   parse-time gate             crypto/keyformat/x509.c 786-822 (version), 1186-1195 (sigAlg match),
                               1224-1386 (hash selection, SHA-1 rule), 4846-4870 (unknown critical extension)

   No proofs in this file.  The first parameter [fx] of the functions selects the code version:
     fx = false : the pinned code (shortcut on equal signature bytes only; SHA-1 rule with the
                  inverted length test)
     fx = true  : the repaired code (pending-fixes/C03-*.patch).
   The CRL part is the code with pending-fixes/C03-crl-without-nextupdate.patch (a cached CRL without nextUpdate is
   never stale; the unrepaired code dereferences NULL there, which no model value stands for).
   Signature verification (psVerifySig) is the Section variable [sig_ok]. *)
From Coq Require Import List ZArith NArith Bool.
From MV Require Import Gen.Consts Gen.ConstsChain.
Import ListNotations.

(* ------------------------------------------------------------------------------------------ *)
(* abstract psX509Cert_t: every field the validator reads.  Byte strings that are only compared
   for equality or handed to psVerifySig are identifiers: equal id <-> equal length and bytes. *)
Record cert := mkCert {
  c_subj : N;        (* subject.hash *)
  c_iss : N;         (* issuer.hash *)
  c_tbs : N;         (* sigHash / sigHashLen : digest of the TBSCertificate *)
  c_sig : N;         (* signature / signatureLen *)
  c_alg : N;         (* sigAlgorithm *)
  c_key : N;         (* publicKey *)
  c_ver : Z;         (* version: 0 = v1, 1 = v2, 2 = v3 *)
  c_ca : Z;          (* extensions.bc.cA *)
  c_pathlen : Z;     (* extensions.bc.pathLenConstraint, negative = absent *)
  c_ku : N;          (* extensions.keyUsageFlags, 0 = extension absent *)
  c_eku : N;         (* extensions.ekuFlags *)
  c_eku_crit : bool; (* critFlags & EXT_CRIT_FLAG(id_ce_extKeyUsage) *)
  c_ak_len : N; c_ak_val : N;   (* extensions.ak.keyLen / keyId *)
  c_sk_len : N; c_sk_val : N;   (* extensions.sk.len / id *)
  c_serial : list N; (* serialNumber / serialNumberLen: the content octets of the INTEGER, as parsed *)
  c_crldist : bool;  (* extensions.crlDist != NULL *)
  c_pre3280 : Z;     (* issuedBefore(RFC_3280, cert): 1 yes, 0 no, negative = date does not parse *)
  c_date_now : Z;    (* validateDateRange now: 0 in range, positive = sets the DATE flag, negative = error *)
  c_fl0 : N;         (* authFailFlags at entry (parse-time DATE flag lives here) *)
  c_st0 : Z          (* authStatus at entry (0 after parsing) *)
}.

(* the mutable part of a psX509Cert_t *)
Record cst := mkCst { st : Z; fl : N }.
Definition set_st (s : cst) (v : Z) : cst := mkCst v (fl s).
Definition init (c : cert) : cst := mkCst (c_st0 c) (c_fl0 c).
Definition reset (c : cert) : cst := mkCst 0 (c_fl0 c).

Definition has_flag (f m : N) : bool := negb (N.land f m =? 0)%N.

(* abstract psX509Crl_t as the validator sees it; the revoked list is what psX509ParseCRL stored *)
Record crl := mkCrl {
  r_id : nat;                 (* identity (position in the case), not read by the code *)
  r_iss : N;                  (* issuer.hash *)
  r_tbs : N; r_sig : N; r_alg : N;   (* sigHash, sig, sigAlg *)
  r_auth : bool;              (* authenticated *)
  r_expired : bool;           (* expired (sticky once set) *)
  r_next : Z;                 (* nextUpdateTest(nextUpdate) now: 0 fine (or no nextUpdate), negative = past / unparsable *)
  r_serials : list (list N)   (* revoked: userCertificate content octets, in list order *)
}.
(* the global CRL cache g_CRL in list order, and the log of lookup results (newest first) *)
Record kst := mkK { k_cache : list crl; k_log : list Z }.

Inductive found := FNone | FChain (i : nat) | FAnchor (i : nat).
Record vres := mkRes { v_rc : Z; v_states : list cst; v_found : found; v_k : kst }.

Section Validator.
Variable sig_ok : N -> N -> N -> N -> bool.   (* key, tbs digest, signature bytes, algorithm *)

(* x509.c 6003-6013 (ALLOW_INTERMEDIATES_AS_ROOTS is #defined inside the function: always on) *)
Definition shortcut (fx self : bool) (sc ic : cert) : bool :=
  if fx then negb self && (c_tbs sc =? c_tbs ic)%N && (c_sig sc =? c_sig ic)%N
  else (c_sig sc =? c_sig ic)%N.

(* x509.c 6181-6195: L_INTERMEDIATE_ROOT tail *)
Definition tail (s : cst) : cst :=
  let s1 := if (st s =? 0)%Z && has_flag (fl s) n_PS_CERT_AUTH_FAIL_DATE_FLAG
            then set_st s c_PS_CERT_AUTH_FAIL_EXTENSION else s in
  if (st s1 =? 0)%Z then set_st s1 c_PS_CERT_AUTH_PASS else s1.

(* x509.c 6099-6149 *)
Definition aki_check (sc ic : cert) (s : cst) : cst :=
  if f_DISABLE_AUTH_KEY_ID_CHECK then s else
  if (0 <? c_ak_len sc)%N || (0 <? c_sk_len ic)%N then
    if negb (c_sk_len ic =? c_ak_len sc)%N then
      if (c_sig sc =? c_sig ic)%N then
        if negb (c_ak_len sc =? 0)%N then set_st s c_PS_CERT_AUTH_FAIL_AUTHKEY else s
      else set_st s c_PS_CERT_AUTH_FAIL_AUTHKEY
    else if negb (c_sk_val ic =? c_ak_val sc)%N then set_st s c_PS_CERT_AUTH_FAIL_AUTHKEY else s
  else s.

(* x509.c 6151-6177: Some rc = the function returns rc here *)
Definition ku_check (ic : cert) (s : cst) : option Z * cst :=
  if (N.land (c_ku ic) n_KEY_USAGE_KEY_CERT_SIGN =? 0)%N then
    let rc := if (c_ku ic =? 0)%N then c_pre3280 ic else 0%Z in
    if (rc =? 0)%Z then
      (None, mkCst c_PS_CERT_AUTH_FAIL_EXTENSION (N.lor (fl s) n_PS_CERT_AUTH_FAIL_KEY_USAGE_FLAG))
    else if (rc <? 0)%Z then (Some c_PS_PARSE_FAIL, s)
    else (None, s)
  else (None, s).

(* ---- the CRL cache (crl.c) ------------------------------------------------------------------ *)
Fixpoint serial_eq (a b : list N) : bool :=      (* crl.c 490-493: same length, same octets *)
  match a, b with
  | [], [] => true
  | x :: a', y :: b' => (x =? y)%N && serial_eq a' b'
  | _, _ => false
  end.

Definition set_auth (r : crl) (b : bool) : crl :=
  mkCrl (r_id r) (r_iss r) (r_tbs r) (r_sig r) (r_alg r) b (r_expired r) (r_next r) (r_serials r).
Definition set_expired (r : crl) : crl :=
  mkCrl (r_id r) (r_iss r) (r_tbs r) (r_sig r) (r_alg r) (r_auth r) true (r_next r) (r_serials r).

(* psX509AuthenticateCRL(CA, CRL) (crl.c 780-835, internalMatchIssuer 713-769): the flag is reset
   first; cRLSign, issuer name, signature.  No test that CA is a CA or is itself trusted. *)
Definition crl_authenticate (ca : cert) (r : crl) : Z * crl :=
  let r0 := set_auth r false in
  if (N.land (c_ku ca) n_KEY_USAGE_CRL_SIGN =? 0)%N &&
     negb (f_ALLOW_CRL_ISSUERS_WITHOUT_KEYUSAGE && (c_ku ca =? 0)%N) then (c_PS_CERT_AUTH_FAIL_EXTENSION, r0)
  else if negb (r_iss r =? c_subj ca)%N then (c_PS_CERT_AUTH_FAIL_DN, r0)
  else if negb (sig_ok (c_key ca) (r_tbs r) (r_sig r) (r_alg r)) then (c_PS_CERT_AUTH_FAIL_SIG, r0)
  else (c_PS_SUCCESS, set_auth r true).

Definition crl_status (revoked authenticated : bool) : Z :=
  match revoked, authenticated with
  | false, true => c_CRL_CHECK_PASSED_AND_AUTHENTICATED
  | false, false => c_CRL_CHECK_PASSED_BUT_NOT_AUTHENTICATED
  | true, true => c_CRL_CHECK_REVOKED_AND_AUTHENTICATED
  | true, false => c_CRL_CHECK_REVOKED_BUT_NOT_AUTHENTICATED
  end.

(* psCRL_determineRevokedStatus(sc) with sc->next = parent (crl.c 551-634): the FIRST cached CRL
   whose issuer name equals the certificate's issuer name decides (internalGetCrlForCert 406-432);
   it is marked expired when nextUpdate is over; an unauthenticated one is first offered to the
   certificate's chain parent for authentication; then the serial is looked up (461-505). *)
Fixpoint crl_lookup (K : list crl) (sc : cert) (parent : option cert) : Z * list crl :=
  match K with
  | [] => (if c_crldist sc then c_CRL_CHECK_EXPECTED else c_CRL_CHECK_NOT_EXPECTED, [])
  | r :: K' =>
      if (r_iss r =? c_iss sc)%N then
        let r1 := if (r_next r <? 0)%Z then set_expired r else r in
        if r_expired r1 then (c_CRL_CHECK_CRL_EXPIRED, r1 :: K')
        else
          let r2 := match parent with
                    | Some p => if r_auth r1 then r1 else snd (crl_authenticate p r1)
                    | None => r1
                    end in
          (crl_status (existsb (serial_eq (c_serial sc)) (r_serials r2)) (r_auth r2), r2 :: K')
      else let (st, K'') := crl_lookup K' sc parent in (st, r :: K'')
  end.

(* psCRL_Insert (75-124) and psCRL_Update(crl, 0) (293-332): Update first takes the first cached CRL
   with the same issuer name out of the list, whatever its authentication state *)
Fixpoint remove_first_iss (i : N) (K : list crl) : list crl :=
  match K with
  | [] => []
  | r :: K' => if (r_iss r =? i)%N then K' else r :: remove_first_iss i K'
  end.
Definition crl_insert (r : crl) (K : list crl) : list crl := K ++ [r].
Definition crl_update (r : crl) (K : list crl) : list crl := remove_first_iss (r_iss r) K ++ [r].

(* how a case loads its cache: optional psX509AuthenticateCRL by a given certificate, then Update or Insert.
   Result: cache, the psX509AuthenticateCRL return codes, the CRLs that Update displaced *)
Fixpoint load_crls (l : list (crl * option cert * bool)) (K : list crl) (rcs : list Z) (gone : list crl)
  : list crl * list Z * list crl :=
  match l with
  | [] => (K, rev rcs, gone)
  | (r, by_, up) :: l' =>
      let '(rcs', r') := match by_ with Some ca => let (rc, r1) := crl_authenticate ca r in (rc :: rcs, r1) | None => (rcs, r) end in
      let gone' := if up then match find (fun x => (r_iss x =? r_iss r')%N) K with Some x => x :: gone | None => gone end else gone in
      load_crls l' (if up then crl_update r' K else crl_insert r' K) rcs' gone'
  end.

Definition bc_fail (self : bool) (ic : cert) : bool :=
  (c_ver ic >? 1)%Z && negb (c_ca ic =? c_CA_TRUE)%Z && negb self.

(* one iteration of the while (ic) loop, x509.c 5961-6195.  [self] = (sc == ic), the self-signed
   test.  [rs] is what psCRL_determineRevokedStatus(sc) answers at line 6029 (only consulted once the
   CA flag and the names have matched).  Some rc = early return with rc; None = fell through. *)
Definition auth_one (fx self : bool) (sc ic : cert) (s : cst) (rs : Z) : option Z * cst :=
  if bc_fail self ic then
    (Some c_PS_CERT_AUTH_FAIL_BC, set_st s c_PS_CERT_AUTH_FAIL_BC)
  else if negb (c_iss sc =? c_subj ic)%N then
    if shortcut fx self sc ic then (None, tail s)
    else (Some c_PS_CERT_AUTH_FAIL_DN, set_st s c_PS_CERT_AUTH_FAIL_DN)
  else if f_USE_CRL && (rs =? c_CRL_CHECK_REVOKED_AND_AUTHENTICATED)%Z then
    (Some c_PS_CERT_AUTH_FAIL_REVOKED, set_st s c_PS_CERT_AUTH_FAIL_REVOKED)
  else if negb (sig_ok (c_key ic) (c_tbs sc) (c_sig sc) (c_alg sc)) then
    (Some c_PS_CERT_AUTH_FAIL_SIG, set_st s c_PS_CERT_AUTH_FAIL_SIG)
  else
    match ku_check ic (aki_check sc ic s) with
    | (Some rc, s2) => (Some rc, s2)
    | (None, s2) => (None, tail s2)
    end.

(* the same iteration with the cache consultation in place: it happens (and may change the cache)
   exactly when the CA-flag test and the name comparison have been passed *)
Definition reaches_crl (self : bool) (sc ic : cert) : bool :=
  negb (bc_fail self ic) && (c_iss sc =? c_subj ic)%N.
Definition auth_one_k (fx self : bool) (sc ic : cert) (s : cst) (parent : option cert) (k : kst)
  : option Z * cst * kst :=
  if f_USE_CRL && reaches_crl self sc ic then
    let (rs, K') := crl_lookup (k_cache k) sc parent in
    (auth_one fx self sc ic s rs, mkK K' (rs :: k_log k))
  else (auth_one fx self sc ic s 0, k).

(* ---- psX509AuthenticateCert with issuerCert == NULL: the chain authenticates itself and the
   parent-most certificate is tested as self-signed (x509.c 5931-5950, 6199-6218) *)
Fixpoint cm_walk (fx : bool) (sc : cert) (rest : list cert) (idx : nat) (k : kst) : Z * list cst * found * kst :=
  match rest with
  | [] => match auth_one_k fx true sc sc (reset sc) None k with
          | (Some rc, s', k') => (rc, [s'], FNone, k')
          | (None, s', k') => (c_PS_SUCCESS, [s'], FChain idx, k')
          end
  | ic :: rest' =>
          match auth_one_k fx false sc ic (reset sc) (Some ic) k with
          | (Some rc, s', k') => (rc, s' :: map reset rest, FNone, k')
          | (None, s', k') => let '(rc, l, f, k'') := cm_walk fx ic rest' (S idx) k' in (rc, s' :: l, f, k'')
          end
  end.

(* psX509AuthenticateCert(subjectCert = chain, issuerCert): both calling conventions *)
Definition auth_api (fx : bool) (chain : list cert) (issuer : option cert) (k : kst) : vres :=
  match chain with
  | [] => mkRes c_PS_ARG_FAIL [] FNone k
  | sc :: rest =>
    match issuer with
    | None => let '(rc, l, f, k') := cm_walk fx sc rest 0 k in mkRes rc l f k'
    | Some ic =>
        match auth_one_k fx false sc ic (init sc) (hd_error rest) k with
        | (Some rc, s', k') => mkRes rc (s' :: map init rest) FNone k'
        | (None, s', k') => mkRes c_PS_SUCCESS (s' :: map init rest) (FAnchor 0) k'
        end
    end
  end.

(* ---- checkPathLenConstraint (matrixssl.c 2268-2300): true = PS_SUCCESS.
   "sc and ic are the same CA": pinned code compares sigHash only, the repaired code asks
   psX509IsSameCert (TBS digest and signature value) *)
Definition same_ca (fx : bool) (sc ic : cert) : bool :=
  (c_tbs sc =? c_tbs ic)%N && (if fx then (c_sig sc =? c_sig ic)%N else true).
Definition pathlen_check (fx : bool) (ic sc : cert) (pl : Z) : bool :=
  if (c_pathlen ic >=? 0)%Z then
    let pl' := if same_ca fx sc ic && (pl >? 0)%Z then (pl - 1)%Z else pl in
    negb (c_pathlen ic <? pl')%Z
  else true.

(* ---- VCERTS_FLAG_REVALIDATE_DATES pass over the subject chain (matrixssl.c 2386-2405) *)
Fixpoint reval_chain (cs : list cert) : option Z * list cst :=
  match cs with
  | [] => (None, [])
  | c :: r =>
      if (c_date_now c <? 0)%Z then (Some c_PS_PARSE_FAIL, map init cs)
      else
        let f := if (0 <? c_date_now c)%Z then N.lor (c_fl0 c) n_PS_CERT_AUTH_FAIL_DATE_FLAG else c_fl0 c in
        if has_flag f n_PS_CERT_AUTH_FAIL_DATE_FLAG then
          (Some c_PS_CERT_AUTH_FAIL_EXTENSION, mkCst c_PS_CERT_AUTH_FAIL_EXTENSION f :: map init r)
        else let (o, l) := reval_chain r in (o, mkCst (c_st0 c) f :: l)
  end.

(* ---- walk of the supplied chain, leaf first (matrixssl.c 2419-2463).
   inl (rc, states, foundIssuer) : returned with rc
   inr (pathLen, states, top)    : chain authenticated; [top] is the parent-most certificate, the
                                   states are those of the certificates below it.
   [idx] is the position of [sc]; [f] the current value of *foundIssuer (every successful
   psX509AuthenticateCert call stores its issuer there). *)
Fixpoint walk (fx : bool) (pl : Z) (sc : cert) (s : cst) (rest : list cert) (idx : nat) (f : found) (k : kst)
  : ((Z * list cst * found) + (Z * list cst * cert)) * kst :=
  match rest with
  | [] => (inr (pl, [], sc), k)
  | ic :: rest' =>
      (* psX509AuthenticateCert(sc, ic) first does issuerCert->authStatus = PS_FALSE; sc->next is ic *)
      let '(r, s', k') := auth_one_k fx false sc ic s (Some ic) k in
      let rc := match r with Some rc => rc | None => c_PS_SUCCESS end in
      let f' := match r with Some _ => f | None => FChain (S idx) end in
      if (rc <? c_PS_SUCCESS)%Z then (inl (rc, s' :: reset ic :: map init rest', f'), k')
      else if negb (pathlen_check fx ic sc pl) then
        (inl (c_PS_CERT_AUTH_FAIL_PATH_LEN, set_st s' c_PS_CERT_AUTH_FAIL_PATH_LEN :: reset ic :: map init rest', f'), k')
      else
        match walk fx (pl + 1) ic (reset ic) rest' (S idx) f' k' with
        | (inl (rc', l, f''), k'') => (inl (rc', s' :: l, f''), k'')
        | (inr (pl', l, top), k'') => (inr (pl', s' :: l, top), k'')
        end
  end.

Definition eku_bad (leaf : cert) : bool :=
  c_eku_crit leaf && (N.land (c_eku leaf) (N.lor n_EXT_KEY_USAGE_TLS_SERVER_AUTH n_EXT_KEY_USAGE_TLS_CLIENT_AUTH) =? 0)%N.

(* ---- loop over the trusted issuers (matrixssl.c 2470-2643, expectedName == NULL).
   Result: rc, state of [sc], whether the leaf's EKU failure must be recorded, foundIssuer *)
Fixpoint anchor_loop (fx rv : bool) (leaf : cert) (pl : Z) (sc : cert) (s : cst)
         (anchors : list cert) (i : nat) (k : kst) : Z * cst * bool * found * kst :=
  match anchors with
  | [] => (c_PS_CERT_AUTH_FAIL, s, false, FNone, k)
  | a :: more =>
      (* sc is the parent-most certificate of the chain: sc->next == NULL *)
      let '(r, s1, k') := auth_one_k fx false sc a (set_st s 0) None k in
      let rc := match r with Some rc => rc | None => c_PS_SUCCESS end in
      if (rc =? c_PS_SUCCESS)%Z then
        if negb (pathlen_check fx a sc pl) then
          (c_PS_CERT_AUTH_FAIL_PATH_LEN, set_st s1 c_PS_CERT_AUTH_FAIL_PATH_LEN, false, FAnchor i, k')
        else if rv && (c_date_now a <? 0)%Z then (c_PS_PARSE_FAIL, s1, false, FAnchor i, k')
        else if rv && has_flag (if (0 <? c_date_now a)%Z then N.lor (c_fl0 a) n_PS_CERT_AUTH_FAIL_DATE_FLAG else c_fl0 a)
                               n_PS_CERT_AUTH_FAIL_DATE_FLAG then
          (c_PS_CERT_AUTH_FAIL_EXTENSION, set_st s1 c_PS_CERT_AUTH_FAIL_EXTENSION, false, FAnchor i, k')
        else if eku_bad leaf then (c_PS_CERT_AUTH_FAIL_EXTENSION, s1, true, FAnchor i, k')
        else (rc, s1, false, FAnchor i, k')
      else if (rc =? c_PS_MEM_FAIL)%Z then (rc, s1, false, FNone, k')
      else anchor_loop fx rv leaf pl sc s1 more (S i) k'
  end.

Definition eku_apply (l : list cst) : list cst :=
  match l with
  | [] => []
  | h :: t => mkCst c_PS_CERT_AUTH_FAIL_EXTENSION (N.lor (fl h) n_PS_CERT_AUTH_FAIL_EKU_FLAG) :: t
  end.

(* ---- matrixValidateCertsExt(subjectCerts = chain, issuerCerts = anchors, expectedName = NULL,
   opts.flags & VCERTS_FLAG_REVALIDATE_DATES = rv) on the CRL cache k.  An empty subject chain is a NULL dereference
   in the C code when issuers are given; the model answers PS_ARG_FAIL for it (never generated). *)
Definition validate (fx rv : bool) (chain anchors : list cert) (k : kst) : vres :=
  match chain with
  | [] => mkRes c_PS_ARG_FAIL [] FNone k
  | leaf :: rest =>
    match (if rv then reval_chain chain else (None, map init chain)) with
    | (Some rc, sts) => mkRes rc sts FNone k
    | (None, _) =>
      match anchors with
      | [] => let '(rc, l, f, k') := cm_walk fx leaf rest 0 k in mkRes rc l f k'
      | _ :: _ =>
        match walk fx 0 leaf (init leaf) rest 0 FNone k with
        | (inl (rc, l, f), k') => mkRes rc l f k'
        | (inr (pl, below, top), k') =>
            let '(rc, stop, eku, f, k'') := anchor_loop fx rv leaf pl top (init top) anchors 0 k' in
            let l := below ++ [stop] in
            mkRes rc (if eku then eku_apply l else l) f k''
        end
      end
    end
  end.

Definition accepted (r : vres) : bool :=
  (v_rc r =? c_PS_SUCCESS)%Z && forallb (fun s => (st s =? c_PS_CERT_AUTH_PASS)%Z) (v_states r).

End Validator.

(* ------------------------------------------------------------------------------------------ *)
(* Parse-time gate: what psX509ParseCert demands before a certificate can reach the validator.
   The description is of the DER as the generator built it. *)
Record pdesc := mkPdesc {
  p_ver : Z;            (* version INTEGER *)
  p_alg_in : N;         (* TBSCertificate.signature OID, as the library's OID sum *)
  p_alg_out : N;        (* Certificate.signatureAlgorithm *)
  p_cn_s_len : N; p_cn_s : N;   (* subject commonName: length, content id *)
  p_cn_i_len : N; p_cn_i : N;   (* issuer commonName *)
  p_unk_crit : bool     (* an extension the library does not handle is marked critical *)
}.

Definition alg_sha2 (a : N) : bool :=
  (a =? n_OID_SHA256_RSA_SIG)%N || (a =? n_OID_SHA384_RSA_SIG)%N || (a =? n_OID_SHA512_RSA_SIG)%N ||
  (a =? n_OID_SHA256_ECDSA_SIG)%N || (a =? n_OID_SHA384_ECDSA_SIG)%N || (a =? n_OID_SHA512_ECDSA_SIG)%N ||
  (a =? n_OID_RSASSA_PSS)%N ||     (* with a SHA-2 hash parameter (x509.c 1315-1368); the parameter is not varied *)
  (f_USE_SHA224 && ((a =? n_OID_SHA224_RSA_SIG)%N || (a =? n_OID_SHA224_ECDSA_SIG)%N)).
Definition alg_sha1 (a : N) : bool :=
  (a =? n_OID_SHA1_RSA_SIG)%N || (a =? n_OID_SHA1_RSA_SIG2)%N || (a =? n_OID_SHA1_ECDSA_SIG)%N.

(* x509.c 1254-1265: "SHA-1 based signatures are only allowed for root certs" *)
Definition sha1_rejected (fx : bool) (d : pdesc) : bool :=
  if f_ENABLE_SHA1_SIGNED_CERTS then false else
  if fx then negb ((p_cn_s_len d =? p_cn_i_len d)%N && (p_cn_s d =? p_cn_i d)%N)
  else (p_cn_s_len d =? p_cn_i_len d)%N && negb (p_cn_s d =? p_cn_i d)%N.

Definition parse_gate (fx : bool) (d : pdesc) : bool :=
  (if f_ALLOW_VERSION_1_ROOT_CERT_PARSE then (0 <=? p_ver d)%Z && (p_ver d <=? 2)%Z else (p_ver d =? 2)%Z) &&
  (negb (p_unk_crit d) || f_ALLOW_UNKNOWN_CRITICAL_EXTENSIONS) &&
  (p_alg_in d =? p_alg_out d)%N &&
  (alg_sha2 (p_alg_in d) || (alg_sha1 (p_alg_in d) && negb (sha1_rejected fx d))).

(* validateDateRange (x509.c 5072-5145) as run at parse time: times are seconds on one common
   scale, PS_X509_TIME_LINGER = 24 h; the result is the DATE flag *)
Definition date_flag (now nb na : Z) : bool :=
  (now >? na + 86400)%Z || (nb >? now + 86400)%Z || (nb >? na)%Z.
