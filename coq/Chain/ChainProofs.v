From Coq Require Import List ZArith NArith Bool Lia.
From MV Require Import Gen.Consts Gen.ConstsChain Chain.ChainModel Chain.ChainSpec.
Import ListNotations.
Lemma stub : True. Proof. exact I. Qed.
