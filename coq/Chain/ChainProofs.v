(* C03 - proofs about the chain-validation model (fx = true: the repaired code). *)
From Coq Require Import List ZArith NArith Bool Lia.
From MV Require Import Gen.Consts Gen.ConstsChain Chain.ChainModel Chain.ChainSpec.
Import ListNotations.

(* ------------------------------------------------------------------------------------------ *)
(* facts about the generated constants that the proofs rely on (re-checked on every build: a
   renumbering in the headers that breaks one of them breaks the theorems, not silently the model) *)
Lemma pass_nonzero : c_PS_CERT_AUTH_PASS <> 0%Z. Proof. discriminate. Qed.
Lemma ext_nonzero : c_PS_CERT_AUTH_FAIL_EXTENSION <> 0%Z. Proof. discriminate. Qed.
Lemma authkey_nonzero : c_PS_CERT_AUTH_FAIL_AUTHKEY <> 0%Z. Proof. discriminate. Qed.
Lemma ext_not_pass : c_PS_CERT_AUTH_FAIL_EXTENSION <> c_PS_CERT_AUTH_PASS. Proof. discriminate. Qed.
Lemma authkey_not_pass : c_PS_CERT_AUTH_FAIL_AUTHKEY <> c_PS_CERT_AUTH_PASS. Proof. discriminate. Qed.
Lemma pathlen_not_pass : c_PS_CERT_AUTH_FAIL_PATH_LEN <> c_PS_CERT_AUTH_PASS. Proof. discriminate. Qed.
Lemma success_zero : c_PS_SUCCESS = 0%Z. Proof. reflexivity. Qed.

Ltac bdestr X :=
  let H := fresh "B" in
  destruct X eqn:H.

(* turn boolean comparisons in the context into propositions *)
Ltac b2p :=
  repeat match goal with
  | H : (_ =? _)%Z = true |- _ => apply Z.eqb_eq in H
  | H : (_ =? _)%Z = false |- _ => apply Z.eqb_neq in H
  | H : (_ =? _)%N = true |- _ => apply N.eqb_eq in H
  | H : (_ =? _)%N = false |- _ => apply N.eqb_neq in H
  | H : (_ <? _)%Z = true |- _ => apply Z.ltb_lt in H
  | H : (_ <? _)%Z = false |- _ => apply Z.ltb_ge in H
  | H : (_ >? _)%Z = true |- _ => rewrite Z.gtb_ltb in H; apply Z.ltb_lt in H
  | H : (_ >? _)%Z = false |- _ => rewrite Z.gtb_ltb in H; apply Z.ltb_ge in H
  | H : (_ >=? _)%Z = true |- _ => rewrite Z.geb_leb in H; apply Z.leb_le in H
  | H : (_ >=? _)%Z = false |- _ => rewrite Z.geb_leb in H; apply Z.leb_gt in H
  | H : (_ <? _)%N = true |- _ => apply N.ltb_lt in H
  | H : (_ <? _)%N = false |- _ => apply N.ltb_ge in H
  | H : negb _ = true |- _ => apply negb_true_iff in H
  | H : negb _ = false |- _ => apply negb_false_iff in H
  | H : (_ && _)%bool = true |- _ => apply andb_true_iff in H; destruct H
  | H : (_ || _)%bool = false |- _ => apply orb_false_iff in H; destruct H
  end.

Section Proofs.
Variable sig_ok : N -> N -> N -> N -> bool.
Variable K0 : list crl.       (* the CRL cache when validation starts *)

Notation REVOKED := c_CRL_CHECK_REVOKED_AND_AUTHENTICATED.
Notation issued_by := (issued_by sig_ok K0).
Notation step := (step sig_ok K0).
Notation steps := (steps sig_ok K0).
Notation step_weak := (step_weak sig_ok K0).
Notation steps_weak := (steps_weak sig_ok K0).
Notation issued_by_weak := (issued_by_weak sig_ok K0).
Notation not_revoked := (not_revoked K0).
Notation not_listed := (not_listed K0).

Notation DATE := n_PS_CERT_AUTH_FAIL_DATE_FLAG.
Notation PASS := c_PS_CERT_AUTH_PASS.
Definition date_clear (c : cert) : Prop := has_flag (c_fl0 c) DATE = false.
Definition is_pass (s : cst) : Prop := st s = PASS.

(* ------------------------------------------------------------------------------------------ *)
(* the tail: PASS exactly when nothing was recorded and the DATE flag is clear *)
Lemma tail_pass : forall s, st (tail s) = PASS -> st s <> PASS -> st s = 0%Z /\ has_flag (fl s) DATE = false.
Proof.
  intros s H Hn. unfold tail in H.
  destruct (st s =? 0)%Z eqn:B.
  - destruct (has_flag (fl s) DATE) eqn:D; cbn [andb] in H.
    + cbn in H. discriminate H.
    + rewrite B in H. cbn in H. apply Z.eqb_eq in B. auto.
  - cbn [andb] in H. rewrite B in H. contradiction.
Qed.

Lemma tail_fl : forall s, fl (tail s) = fl s.
Proof.
  intros s. unfold tail. destruct ((st s =? 0)%Z && has_flag (fl s) DATE).
  - destruct (st (set_st s c_PS_CERT_AUTH_FAIL_EXTENSION) =? 0)%Z; reflexivity.
  - destruct (st s =? 0)%Z; reflexivity.
Qed.

Lemma tail_nonzero : forall s, st s <> 0%Z -> tail s = s.
Proof.
  intros s H. unfold tail. apply Z.eqb_neq in H. rewrite H. cbn [andb]. rewrite H. reflexivity.
Qed.

Lemma tail_clean : forall s, st s = 0%Z -> has_flag (fl s) DATE = false -> tail s = set_st s PASS.
Proof.
  intros s H0 Hd. unfold tail. rewrite H0, Hd. cbn. rewrite H0. reflexivity.
Qed.

Lemma aki_check_cases : forall sc ic s, aki_check sc ic s = s \/ aki_check sc ic s = set_st s c_PS_CERT_AUTH_FAIL_AUTHKEY.
Proof.
  intros. unfold aki_check.
  repeat match goal with |- context[if ?b then _ else _] => destruct b end; auto.
Qed.

Lemma ku_check_cases : forall ic s r s2, ku_check ic s = (r, s2) ->
  (r = None /\ s2 = s /\ ((N.land (c_ku ic) n_KEY_USAGE_KEY_CERT_SIGN <> 0)%N \/ (c_ku ic = 0%N /\ (0 < c_pre3280 ic)%Z))) \/
  (r = None /\ st s2 = c_PS_CERT_AUTH_FAIL_EXTENSION) \/
  (r = Some c_PS_PARSE_FAIL /\ s2 = s).
Proof.
  intros ic s r s2 H. unfold ku_check in H.
  bdestr (N.land (c_ku ic) n_KEY_USAGE_KEY_CERT_SIGN =? 0)%N; b2p.
  - bdestr (c_ku ic =? 0)%N; b2p.
    + bdestr (c_pre3280 ic =? 0)%Z; b2p.
      * inversion H; subst. right; left. auto.
      * bdestr (c_pre3280 ic <? 0)%Z; b2p; inversion H; subst.
        -- right; right; auto.
        -- left. repeat split; auto. right. split; auto. lia.
    + cbn in H. inversion H; subst. right; left; auto.
  - inversion H; subst. left. auto.
Qed.


(* ------------------------------------------------------------------------------------------ *)
(* the CRL cache during a validation: entries keep their place and their content; the
   authenticated flag is only ever switched on, the expired flag only when nextUpdate is over *)
Definition crl_le (r0 r : crl) : Prop :=
  r_iss r0 = r_iss r /\ r_serials r0 = r_serials r /\ r_next r0 = r_next r /\
  (r_auth r0 = true -> r_auth r = true) /\
  (r_expired r = true -> r_expired r0 = true \/ (r_next r0 < 0)%Z).
Definition evolves (K : list crl) : Prop := Forall2 crl_le K0 K.

Lemma crl_le_refl : forall r, crl_le r r.
Proof. intros r. unfold crl_le. repeat split; auto. Qed.

Lemma evolves_refl : evolves K0.
Proof. unfold evolves. induction K0; constructor; auto using crl_le_refl. Qed.

Lemma authenticate_static : forall p r,
  let r' := snd (crl_authenticate sig_ok p r) in
  r_iss r' = r_iss r /\ r_serials r' = r_serials r /\ r_next r' = r_next r /\ r_expired r' = r_expired r.
Proof.
  intros p r. unfold crl_authenticate.
  repeat match goal with |- context[if ?b then _ else _] => destruct b end; cbn; auto.
Qed.

Lemma lookup_evolves : forall K sc p, evolves K -> evolves (snd (crl_lookup sig_ok K sc p)).
Proof.
  unfold evolves. intros K sc p H. induction H as [|r0 r l0 l Hr Hl IH]; [constructor|].
  cbn [crl_lookup].
  destruct (r_iss r =? c_iss sc)%N.
  - destruct Hr as [E1 [E2 [E3 [E4 E5]]]].
    assert (L1 : crl_le r0 (if (r_next r <? 0)%Z then set_expired r else r)).
    { destruct (r_next r <? 0)%Z eqn:B; [|repeat split; auto].
      apply Z.ltb_lt in B. unfold crl_le. cbn. repeat split; auto. intros _. right. rewrite E3. exact B. }
    set (r1 := if (r_next r <? 0)%Z then set_expired r else r) in *.
    destruct (r_expired r1); cbn [snd]; [constructor; auto|].
    constructor; [|exact Hl].
    destruct p as [p|]; [|exact L1].
    destruct (r_auth r1) eqn:A; [exact L1|].
    destruct L1 as [F1 [F2 [F3 [F4 F5]]]].
    destruct (authenticate_static p r1) as [S1 [S2 [S3 S4]]].
    unfold crl_le. rewrite S1, S2, S3, S4. repeat split; auto.
    intros X. specialize (F4 X). rewrite F4 in A. discriminate A.
  - destruct (crl_lookup sig_ok l sc p) as [st' K''] eqn:L. cbn [snd] in *. constructor; auto.
Qed.

Lemma lookup_revoked : forall K sc p, evolves K -> revoked_in K0 sc ->
  fst (crl_lookup sig_ok K sc p) = REVOKED.
Proof.
  unfold evolves, revoked_in, crl_for. intros K sc p H [r [Hf [Ha [[Hc1 Hc2] Hl]]]].
  induction H as [|r0 r' l0 l Hr Hl' IH]; [discriminate Hf|].
  cbn [find] in Hf. cbn [crl_lookup].
  destruct Hr as [E1 [E2 [E3 [E4 E5]]]]. rewrite <- E1.
  destruct (r_iss r0 =? c_iss sc)%N.
  - inversion Hf; subst r0. clear Hf IH.
    assert (B : (r_next r' <? 0)%Z = false) by (apply Z.ltb_ge; rewrite <- E3; exact Hc2).
    rewrite B.
    assert (X : r_expired r' = false).
    { destruct (r_expired r') eqn:Y; auto. destruct (E5 eq_refl) as [Z1|Z1]; [rewrite Z1 in Hc1; discriminate|lia]. }
    rewrite X. rewrite (E4 Ha).
    assert (R2 : match p with Some _ => r' | None => r' end = r') by (destruct p; reflexivity).
    rewrite R2. cbn [fst]. rewrite <- E2. unfold listed in Hl. rewrite Hl, (E4 Ha). reflexivity.
  - destruct (crl_lookup sig_ok l sc p) as [st' K''] eqn:L. cbn [fst] in *. apply IH. exact Hf.
Qed.

Lemma lookup_not_listed : forall K sc p, evolves K -> not_listed sc ->
  fst (crl_lookup sig_ok K sc p) <> REVOKED.
Proof.
  unfold evolves, ChainSpec.not_listed, crl_for. intros K sc p H HN.
  induction H as [|r0 r' l0 l Hr Hl' IH].
  - cbn. destruct (c_crldist sc); discriminate.
  - cbn [find] in HN. cbn [crl_lookup].
    destruct Hr as [E1 [E2 [E3 [E4 E5]]]]. rewrite <- E1.
    destruct (r_iss r0 =? c_iss sc)%N.
    + specialize (HN r0 eq_refl). unfold listed in HN.
      set (r1 := if (r_next r' <? 0)%Z then set_expired r' else r').
      destruct (r_expired r1); [cbn; discriminate|]. cbn [fst].
      assert (S : forall r2, r_serials r2 = r_serials r0 ->
                  crl_status (existsb (serial_eq (c_serial sc)) (r_serials r2)) (r_auth r2) <> REVOKED).
      { intros r2 E. rewrite E. destruct (existsb (serial_eq (c_serial sc)) (r_serials r0)); [contradiction|].
        destruct (r_auth r2); discriminate. }
      apply S.
      assert (S1 : r_serials r1 = r_serials r0) by (unfold r1; destruct (r_next r' <? 0)%Z; cbn; auto).
      destruct p as [p|]; [|exact S1].
      destruct (r_auth r1); [exact S1|].
      destruct (authenticate_static p r1) as [_ [S2 _]]. rewrite S2. exact S1.
    + destruct (crl_lookup sig_ok l sc p) as [st' K''] eqn:L. cbn [fst] in *. apply IH. exact HN.
Qed.

(* flags never change on a path that returns early; the status only moves away from 0 *)
Lemma auth_one_some_fl : forall fx self sc ic s rs rc s', auth_one sig_ok fx self sc ic s rs = (Some rc, s') -> fl s' = fl s.
Proof.
  intros fx self sc ic s rs rc s' H. unfold auth_one in H.
  repeat match type of H with
  | context[if ?b then _ else _] => destruct b
  end; try (inversion H; subst; reflexivity).
  destruct (ku_check ic (aki_check sc ic s)) as [r s2] eqn:K.
  destruct r; inversion H; subst.
  apply ku_check_cases in K. destruct K as [[K _]|[[K _]|[_ K]]]; try discriminate K.
  subst. destruct (aki_check_cases sc ic s) as [E|E]; rewrite E; reflexivity.
Qed.

(* every early return carries a negative code other than PS_MEM_FAIL *)
Lemma auth_one_some_neg : forall fx self sc ic s rs rc s', auth_one sig_ok fx self sc ic s rs = (Some rc, s') ->
  (rc < 0)%Z /\ rc <> c_PS_MEM_FAIL.
Proof.
  intros fx self sc ic s rs rc s' H. unfold auth_one in H.
  repeat match type of H with
  | context[if ?b then _ else _] => destruct b
  end; try discriminate H; try (inversion H; subst; split; [reflexivity|discriminate]).
  destruct (ku_check ic (aki_check sc ic s)) as [r s2] eqn:K.
  destruct r; inversion H; subst.
  apply ku_check_cases in K. destruct K as [[K _]|[[K _]|[K _]]]; try discriminate K.
  inversion K; subst. split; [reflexivity|discriminate].
Qed.

(* ------------------------------------------------------------------------------------------ *)
(* soundness of one authentication step (repaired code) *)
Lemma auth_one_pass : forall self sc ic s rs s',
  auth_one sig_ok true self sc ic s rs = (None, s') -> st s = 0%Z -> st s' = PASS ->
  has_flag (fl s) DATE = false /\ fl s' = fl s /\
  (self = false -> parsed ic -> is_ca ic) /\
  ((c_iss sc = c_subj ic /\ bc_fail self ic = false /\ sig_ok (c_key ic) (c_tbs sc) (c_sig sc) (c_alg sc) = true /\
    ku_certsign ic /\ rs <> REVOKED) \/
   (self = false /\ same_cert sc ic)).
Proof.
  intros self sc ic s rs s' H H0 HP. unfold auth_one in H.
  assert (Hne : st s <> PASS) by (rewrite H0; intro X; symmetry in X; exact (pass_nonzero X)).
  bdestr (bc_fail self ic); [inversion H|].
  assert (CA : self = false -> parsed ic -> is_ca ic).
  { intros Hs Hp. unfold parsed in Hp. unfold is_ca. subst self. unfold bc_fail in B.
    rewrite Hp in B. cbn in B. rewrite andb_true_r in B. b2p. exact B. }
  bdestr (negb (c_iss sc =? c_subj ic)%N).
  - (* names differ: only the same-certificate shortcut gets through *)
    bdestr (shortcut true self sc ic); inversion H; subst.
    apply tail_pass in HP; auto. destruct HP as [_ HD].
    rewrite tail_fl. repeat split; auto.
    right. unfold shortcut in B1. b2p. split; [auto|]. split; auto.
  - b2p.
    bdestr (f_USE_CRL && (rs =? c_CRL_CHECK_REVOKED_AND_AUTHENTICATED)%Z); [inversion H|].
    bdestr (negb (sig_ok (c_key ic) (c_tbs sc) (c_sig sc) (c_alg sc))); [inversion H|].
    b2p.
    destruct (ku_check ic (aki_check sc ic s)) as [r s2] eqn:K.
    destruct r; inversion H; subst. clear H.
    apply ku_check_cases in K. destruct K as [[_ [K1 K2]]|[[_ K]|[K _]]]; try discriminate K.
    + subst s2.
      destruct (aki_check_cases sc ic s) as [E|E]; rewrite E in *.
      * apply tail_pass in HP; auto. destruct HP as [_ HD].
        rewrite tail_fl. repeat split; auto.
        left. repeat split; auto.
        -- unfold ku_certsign. intros Hk. destruct K2 as [K2|[K2 _]]; [exact K2|contradiction].
        -- cbn in B1. b2p. exact B1.
      * exfalso. rewrite tail_nonzero in HP by (cbn; exact authkey_nonzero).
        exact (authkey_not_pass HP).
    + exfalso. rewrite tail_nonzero in HP by (rewrite K; exact ext_nonzero).
      rewrite K in HP. exact (ext_not_pass HP).
Qed.

(* what a fall-through (return code 0) alone guarantees *)
Lemma auth_one_none : forall self sc ic s rs s',
  auth_one sig_ok true self sc ic s rs = (None, s') ->
  (self = false -> parsed ic -> is_ca ic) /\
  ((c_iss sc = c_subj ic /\ bc_fail self ic = false /\ sig_ok (c_key ic) (c_tbs sc) (c_sig sc) (c_alg sc) = true /\ rs <> REVOKED) \/
   (self = false /\ same_cert sc ic)).
Proof.
  intros self sc ic s rs s' H. unfold auth_one in H.
  bdestr (bc_fail self ic); [inversion H|].
  assert (CA : self = false -> parsed ic -> is_ca ic).
  { intros Hs Hp. unfold parsed in Hp. unfold is_ca. subst self. unfold bc_fail in B.
    rewrite Hp in B. cbn in B. rewrite andb_true_r in B. b2p. exact B. }
  split; auto.
  bdestr (negb (c_iss sc =? c_subj ic)%N).
  - bdestr (shortcut true self sc ic); inversion H; subst.
    right. unfold shortcut in B1. b2p. split; [auto|]. split; auto.
  - b2p.
    bdestr (f_USE_CRL && (rs =? c_CRL_CHECK_REVOKED_AND_AUTHENTICATED)%Z); [inversion H|].
    bdestr (negb (sig_ok (c_key ic) (c_tbs sc) (c_sig sc) (c_alg sc))); [inversion H|].
    b2p. left. repeat split; auto. cbn in B1. b2p. exact B1.
Qed.

(* ---- the same step with the cache consultation in place *)
Lemma auth_one_k_evolves : forall fx self sc ic s p k r s' k',
  auth_one_k sig_ok fx self sc ic s p k = (r, s', k') -> evolves (k_cache k) -> evolves (k_cache k').
Proof.
  intros fx self sc ic s p k r s' k' H E. unfold auth_one_k in H.
  destruct (f_USE_CRL && reaches_crl self sc ic).
  - destruct (crl_lookup sig_ok (k_cache k) sc p) as [rs K'] eqn:L.
    inversion H; subst. cbn. pose proof (lookup_evolves _ sc p E) as X. rewrite L in X. exact X.
  - inversion H; subst. exact E.
Qed.

Lemma auth_one_k_some : forall fx self sc ic s p k rc s' k',
  auth_one_k sig_ok fx self sc ic s p k = (Some rc, s', k') -> (rc < 0)%Z /\ rc <> c_PS_MEM_FAIL /\ fl s' = fl s.
Proof.
  intros fx self sc ic s p k rc s' k' H. unfold auth_one_k in H.
  destruct (f_USE_CRL && reaches_crl self sc ic).
  - destruct (crl_lookup sig_ok (k_cache k) sc p) as [rs K'].
    inversion H as [[H1 H2]]. destruct (auth_one_some_neg _ _ _ _ _ _ _ _ H1). split; auto. split; auto.
    eapply auth_one_some_fl; eauto.
  - inversion H as [[H1 H2]]. destruct (auth_one_some_neg _ _ _ _ _ _ _ _ H1). split; auto. split; auto.
    eapply auth_one_some_fl; eauto.
Qed.

Lemma reaches_intro : forall self sc ic, c_iss sc = c_subj ic -> bc_fail self ic = false -> reaches_crl self sc ic = true.
Proof. intros self sc ic E B. unfold reaches_crl. rewrite B, E, N.eqb_refl. reflexivity. Qed.

Lemma auth_one_k_pass : forall self sc ic s p k s' k',
  auth_one_k sig_ok true self sc ic s p k = (None, s', k') -> st s = 0%Z -> st s' = PASS -> evolves (k_cache k) ->
  has_flag (fl s) DATE = false /\ fl s' = fl s /\
  (self = false -> parsed ic -> is_ca ic) /\
  ((c_iss sc = c_subj ic /\ sig_ok (c_key ic) (c_tbs sc) (c_sig sc) (c_alg sc) = true /\
    ku_certsign ic /\ not_revoked sc) \/
   (self = false /\ same_cert sc ic)).
Proof.
  intros self sc ic s p k s' k' H H0 HP E. unfold auth_one_k, f_USE_CRL in H. cbn [andb] in H.
  destruct (reaches_crl self sc ic) eqn:R.
  - destruct (crl_lookup sig_ok (k_cache k) sc p) as [rs K'] eqn:L.
    inversion H as [[H1 H2]].
    destruct (auth_one_pass _ _ _ _ _ _ H1 H0 HP) as [A1 [A2 [A3 A4]]].
    repeat split; auto.
    destruct A4 as [[B1 [B2 [B3 [B4 B5]]]]|A4]; [left|right; exact A4].
    repeat split; auto.
    intros RV. apply B5. pose proof (lookup_revoked _ sc p E RV) as X. rewrite L in X. exact X.
  - inversion H as [[H1 H2]].
    destruct (auth_one_pass _ _ _ _ _ _ H1 H0 HP) as [A1 [A2 [A3 A4]]].
    repeat split; auto.
    destruct A4 as [[B1 [B2 _]]|A4]; [|right; exact A4].
    rewrite (reaches_intro _ _ _ B1 B2) in R. discriminate R.
Qed.

Lemma auth_one_k_none : forall self sc ic s p k s' k',
  auth_one_k sig_ok true self sc ic s p k = (None, s', k') -> evolves (k_cache k) ->
  (self = false -> parsed ic -> is_ca ic) /\
  ((c_iss sc = c_subj ic /\ sig_ok (c_key ic) (c_tbs sc) (c_sig sc) (c_alg sc) = true /\ not_revoked sc) \/
   (self = false /\ same_cert sc ic)).
Proof.
  intros self sc ic s p k s' k' H E. unfold auth_one_k, f_USE_CRL in H. cbn [andb] in H.
  destruct (reaches_crl self sc ic) eqn:R.
  - destruct (crl_lookup sig_ok (k_cache k) sc p) as [rs K'] eqn:L.
    inversion H as [[H1 H2]].
    destruct (auth_one_none _ _ _ _ _ _ H1) as [A3 A4]. split; auto.
    destruct A4 as [[B1 [B2 [B3 B5]]]|A4]; [left|right; exact A4].
    repeat split; auto.
    intros RV. apply B5. pose proof (lookup_revoked _ sc p E RV) as X. rewrite L in X. exact X.
  - inversion H as [[H1 H2]].
    destruct (auth_one_none _ _ _ _ _ _ H1) as [A3 A4]. split; auto.
    destruct A4 as [[B1 [B2 _]]|A4]; [|right; exact A4].
    rewrite (reaches_intro _ _ _ B1 B2) in R. discriminate R.
Qed.

Lemma pathlen_check_ok : forall ic sc pl, pathlen_check true ic sc pl = true -> pathlen_ok sc ic pl.
Proof.
  intros ic sc pl H. unfold pathlen_check, same_ca in H. unfold pathlen_ok, depth_below.
  bdestr (c_pathlen ic >=? 0)%Z; b2p; [|left; lia].
  right. destruct ((c_tbs sc =? c_tbs ic)%N && (c_sig sc =? c_sig ic)%N && (pl >? 0)%Z); b2p; lia.
Qed.

Lemma pathlen_ok_check : forall ic sc pl, pathlen_ok sc ic pl -> pathlen_check true ic sc pl = true.
Proof.
  intros ic sc pl H. unfold pathlen_check, same_ca. unfold pathlen_ok, depth_below in H.
  bdestr (c_pathlen ic >=? 0)%Z; b2p; auto.
  destruct H as [H|H]; [lia|].
  apply negb_true_iff. apply Z.ltb_ge.
  destruct ((c_tbs sc =? c_tbs ic)%N && (c_sig sc =? c_sig ic)%N && (pl >? 0)%Z); lia.
Qed.

(* ------------------------------------------------------------------------------------------ *)
(* list helpers *)
Lemma last_cons : forall (p : list cert) (c d : cert), last (c :: p) d = last p c.
Proof.
  induction p as [|x p IH]; intros c d; [reflexivity|].
  change (last (c :: x :: p) d) with (last (x :: p) d).
  rewrite (IH x d), (IH x c). reflexivity.
Qed.

Lemma linked_snoc : forall R p sc a,
  linked R (sc :: p) -> R (last p sc) a -> linked R ((sc :: p) ++ [a]).
Proof.
  intros R p. induction p as [|c p IH]; intros sc a H HL.
  - cbn in *. auto.
  - destruct H as [H1 H2]. change ((sc :: c :: p) ++ [a]) with (sc :: ((c :: p) ++ [a])).
    split; [exact H1|].
    apply (IH c a H2). rewrite last_cons in HL. exact HL.
Qed.

Lemma pathlens_snoc : forall p k sc a,
  pathlens k (sc :: p) -> pathlen_ok (last p sc) a (k + Z.of_nat (length p)) -> pathlens k ((sc :: p) ++ [a]).
Proof.
  induction p as [|c p IH]; intros k sc a H HL.
  - cbn in *. rewrite Z.add_0_r in HL. auto.
  - destruct H as [H1 H2]. cbn [app]. split; [exact H1|].
    apply (IH (k + 1)%Z c a H2).
    replace (k + 1 + Z.of_nat (length p))%Z with (k + Z.of_nat (length (c :: p)))%Z by (cbn [length]; lia).
    rewrite last_cons in HL. exact HL.
Qed.

(* ------------------------------------------------------------------------------------------ *)
(* the walk over the supplied chain *)
Lemma walk_sound : forall rest pl sc idx f k pl' below top k',
  walk sig_ok true pl sc (reset sc) rest idx f k = (inr (pl', below, top), k') ->
  evolves (k_cache k) -> Forall parsed rest -> Forall is_pass below ->
  steps (sc :: rest) /\ pathlens pl (sc :: rest) /\ top = last rest sc /\
  pl' = (pl + Z.of_nat (length rest))%Z /\ Forall date_clear (removelast (sc :: rest)) /\ evolves (k_cache k').
Proof.
  induction rest as [|ic rest IH]; intros pl sc idx f k pl' below top k' H E HP HB.
  - cbn in H. inversion H; subst. cbn. repeat split; auto. lia.
  - cbn [walk] in H.
    destruct (auth_one_k sig_ok true false sc ic (reset sc) (Some ic) k) as [[r s'] k1] eqn:A.
    bdestr ((match r with Some rc => rc | None => c_PS_SUCCESS end <? c_PS_SUCCESS)%Z); [inversion H|].
    bdestr (negb (pathlen_check true ic sc pl)); [inversion H|]. b2p.
    destruct (walk sig_ok true (pl + 1) ic (reset ic) rest (S idx)
               match r with Some _ => f | None => FChain (S idx) end k1) as [[[[rc' l] f'']|[[pl'' l] top']] k2] eqn:W;
      inversion H; subst; clear H.
    inversion HB as [|s0 l0 Hs' Hl]; subst.
    inversion HP as [|c0 r0 Hic Hrest]; subst.
    pose proof (auth_one_k_evolves _ _ _ _ _ _ _ _ _ _ A E) as E1.
    destruct r as [rc|].
    + exfalso. apply auth_one_k_some in A. destruct A as [A _]. unfold c_PS_SUCCESS in B. lia.
    + apply auth_one_k_pass in A; auto. destruct A as [HD [_ [CA L]]].
      destruct (IH _ _ _ _ _ _ _ _ _ W E1 Hrest Hl) as [S1 [P1 [T1 [PL1 [D1 E2]]]]].
      repeat split.
      * unfold ChainSpec.step, ChainSpec.issued_by. destruct L as [[L1 [L2 [L3 L4]]]|[_ L]]; [left|right; exact L].
        repeat split; auto.
      * exact S1.
      * apply pathlen_check_ok. exact B0.
      * exact P1.
      * subst top. symmetry. apply last_cons.
      * subst pl'. cbn [length]. lia.
      * change (removelast (sc :: ic :: rest)) with (sc :: removelast (ic :: rest)).
        constructor; [exact HD|exact D1].
      * exact E2.
Qed.

(* ------------------------------------------------------------------------------------------ *)
(* the loop over the trust anchors *)
Lemma anchor_loop_sound : forall anchors rv leaf pl sc s i k rc s' eku f k',
  anchor_loop sig_ok true rv leaf pl sc s anchors i k = (rc, s', eku, f, k') ->
  rc = 0%Z -> is_pass s' -> fl s = c_fl0 sc -> evolves (k_cache k) -> Forall parsed anchors ->
  exists a, In a anchors /\ step sc a /\ pathlen_ok sc a pl /\ date_clear sc /\ eku = false.
Proof.
  induction anchors as [|a more IH]; intros rv leaf pl sc s i k rc s' eku f k' H Hrc HP Hfl E HPa.
  - cbn in H. inversion H; subst. discriminate.
  - cbn [anchor_loop] in H.
    destruct (auth_one_k sig_ok true false sc a (set_st s 0) None k) as [[r s1] k1] eqn:A.
    inversion HPa as [|a0 m0 Ha Hmore]; subst a0 m0.
    pose proof (auth_one_k_evolves _ _ _ _ _ _ _ _ _ _ A E) as E1.
    bdestr ((match r with Some rc0 => rc0 | None => c_PS_SUCCESS end =? c_PS_SUCCESS)%Z).
    + destruct r as [rc0|].
      * exfalso. b2p. apply auth_one_k_some in A. destruct A as [A _]. unfold c_PS_SUCCESS in B. lia.
      * bdestr (negb (pathlen_check true a sc pl)).
        { inversion H; subst. discriminate. }
        bdestr (rv && (c_date_now a <? 0)%Z).
        { inversion H; subst. discriminate. }
        match type of H with context[if ?b then _ else _] => bdestr b end.
        { inversion H; subst. discriminate. }
        bdestr (eku_bad leaf).
        { inversion H; subst. discriminate. }
        inversion H; subst. b2p.
        apply auth_one_k_pass in A; auto. destruct A as [HD [_ [CA L]]].
        exists a. split; [left; reflexivity|].
        cbn in HD. rewrite Hfl in HD.
        repeat split; auto.
        -- unfold ChainSpec.step, ChainSpec.issued_by. destruct L as [[L1 [L2 [L3 L4]]]|[_ L]]; [left|right; exact L].
           repeat split; auto.
        -- apply pathlen_check_ok. exact B0.
    + bdestr ((match r with Some rc0 => rc0 | None => c_PS_SUCCESS end =? c_PS_MEM_FAIL)%Z).
      * exfalso. b2p. destruct r as [rc0|]; [|discriminate B0].
        apply auth_one_k_some in A. destruct A as [_ [A _]]. contradiction.
      * assert (Hfl1 : fl s1 = c_fl0 sc).
        { destruct r as [rc0|].
          - apply auth_one_k_some in A. destruct A as [_ [_ A]]. rewrite A. cbn. exact Hfl.
          - b2p. contradiction. }
        destruct (IH _ _ _ _ _ _ _ _ _ _ _ _ H Hrc HP Hfl1 E1 Hmore) as [a' [I R]].
        exists a'. split; [right; exact I|exact R].
Qed.

Lemma anchor_loop_eku : forall anchors fx rv leaf pl sc s i k rc s' f k',
  anchor_loop sig_ok fx rv leaf pl sc s anchors i k = (rc, s', true, f, k') -> rc = c_PS_CERT_AUTH_FAIL_EXTENSION.
Proof.
  induction anchors as [|a more IH]; intros fx rv leaf pl sc s i k rc s' f k' H.
  - cbn in H. inversion H.
  - cbn [anchor_loop] in H.
    destruct (auth_one_k sig_ok fx false sc a (set_st s 0) None k) as [[r s1] k1].
    repeat match type of H with context[if ?b then _ else _] => destruct b end;
      try (inversion H; subst; reflexivity); try (inversion H; fail).
    eapply IH; eauto.
Qed.

(* return code 0 from the anchor loop alone: the cryptographic link *)
Lemma anchor_loop_rc0 : forall anchors rv leaf pl sc s i k s' eku f k',
  anchor_loop sig_ok true rv leaf pl sc s anchors i k = (0%Z, s', eku, f, k') -> evolves (k_cache k) -> Forall parsed anchors ->
  exists a, In a anchors /\ step_weak sc a /\ pathlen_ok sc a pl.
Proof.
  induction anchors as [|a more IH]; intros rv leaf pl sc s i k s' eku f k' H E HPa.
  - cbn in H. inversion H.
  - cbn [anchor_loop] in H.
    destruct (auth_one_k sig_ok true false sc a (set_st s 0) None k) as [[r s1] k1] eqn:A.
    inversion HPa as [|a0 m0 Ha Hmore]; subst a0 m0.
    pose proof (auth_one_k_evolves _ _ _ _ _ _ _ _ _ _ A E) as E1.
    bdestr ((match r with Some rc0 => rc0 | None => c_PS_SUCCESS end =? c_PS_SUCCESS)%Z).
    + destruct r as [rc0|].
      * exfalso. b2p. apply auth_one_k_some in A. destruct A as [A _]. unfold c_PS_SUCCESS in B. lia.
      * bdestr (negb (pathlen_check true a sc pl)); [inversion H|].
        b2p. apply auth_one_k_none in A; auto. destruct A as [CA L].
        exists a. split; [left; reflexivity|]. split; [|apply pathlen_check_ok; exact B0].
        unfold ChainSpec.step_weak, ChainSpec.issued_by_weak. destruct L as [[L1 [L2 L3]]|[_ L]]; [left|right; exact L].
        repeat split; auto.
    + bdestr ((match r with Some rc0 => rc0 | None => c_PS_SUCCESS end =? c_PS_MEM_FAIL)%Z).
      * exfalso. b2p. destruct r as [rc0|]; [|discriminate B0].
        apply auth_one_k_some in A. destruct A as [_ [A _]]. contradiction.
      * destruct (IH _ _ _ _ _ _ _ _ _ _ _ H E1 Hmore) as [a' [I R]].
        exists a'. split; [right; exact I|exact R].
Qed.

Lemma walk_rc0 : forall rest pl sc s idx f k pl' below top k',
  walk sig_ok true pl sc s rest idx f k = (inr (pl', below, top), k') -> evolves (k_cache k) -> Forall parsed rest ->
  steps_weak (sc :: rest) /\ pathlens pl (sc :: rest) /\ top = last rest sc /\
  pl' = (pl + Z.of_nat (length rest))%Z /\ evolves (k_cache k').
Proof.
  induction rest as [|ic rest IH]; intros pl sc s idx f k pl' below top k' H E HP.
  - cbn in H. inversion H; subst. cbn. repeat split; auto. lia.
  - cbn [walk] in H.
    destruct (auth_one_k sig_ok true false sc ic s (Some ic) k) as [[r s'] k1] eqn:A.
    bdestr ((match r with Some rc => rc | None => c_PS_SUCCESS end <? c_PS_SUCCESS)%Z); [inversion H|].
    bdestr (negb (pathlen_check true ic sc pl)); [inversion H|]. b2p.
    destruct (walk sig_ok true (pl + 1) ic (reset ic) rest (S idx)
               match r with Some _ => f | None => FChain (S idx) end k1) as [[[[rc' l] f'']|[[pl'' l] top']] k2] eqn:W;
      inversion H; subst; clear H.
    inversion HP as [|c0 r0 Hic Hrest]; subst.
    pose proof (auth_one_k_evolves _ _ _ _ _ _ _ _ _ _ A E) as E1.
    destruct r as [rc|].
    + exfalso. apply auth_one_k_some in A. destruct A as [A _]. unfold c_PS_SUCCESS in B. lia.
    + apply auth_one_k_none in A; auto. destruct A as [CA L].
      destruct (IH _ _ _ _ _ _ _ _ _ _ W E1 Hrest) as [S1 [P1 [T1 [PL1 E2]]]].
      repeat split.
      * unfold ChainSpec.step_weak, ChainSpec.issued_by_weak. destruct L as [[L1 [L2 L3]]|[_ L]]; [left|right; exact L].
        repeat split; auto.
      * exact S1.
      * apply pathlen_check_ok. exact B0.
      * exact P1.
      * subst top. symmetry. apply last_cons.
      * subst pl'. cbn [length]. lia.
      * exact E2.
Qed.

Lemma walk_inl_neg : forall rest fx pl sc s idx f k rc l f' k',
  walk sig_ok fx pl sc s rest idx f k = (inl (rc, l, f'), k') -> (rc < 0)%Z.
Proof.
  induction rest as [|ic rest IH]; intros fx pl sc s idx f k rc l f' k' H.
  - cbn in H. inversion H.
  - cbn [walk] in H.
    destruct (auth_one_k sig_ok fx false sc ic s (Some ic) k) as [[r s'] k1] eqn:A.
    bdestr ((match r with Some rc => rc | None => c_PS_SUCCESS end <? c_PS_SUCCESS)%Z).
    + inversion H; subst. b2p. unfold c_PS_SUCCESS in B. exact B.
    + bdestr (negb (pathlen_check fx ic sc pl)).
      * inversion H; subst. reflexivity.
      * destruct (walk sig_ok fx (pl + 1) ic (reset ic) rest (S idx)
               match r with Some _ => f | None => FChain (S idx) end k1) as [[[[rc' l'] f'']|[[pl'' l'] top']] k2] eqn:W;
          inversion H; subst. eapply IH; eauto.
Qed.

Lemma reval_cases : forall cs o l, reval_chain cs = (o, l) ->
  (o = None /\ Forall (fun c => c_date_now c = 0%Z /\ date_clear c) cs) \/
  o = Some c_PS_PARSE_FAIL \/ o = Some c_PS_CERT_AUTH_FAIL_EXTENSION.
Proof.
  induction cs as [|c r IH]; intros o l H.
  - cbn in H. inversion H. left. split; auto.
  - cbn [reval_chain] in H.
    bdestr (c_date_now c <? 0)%Z; [inversion H; auto|].
    bdestr (0 <? c_date_now c)%Z.
    + assert (X : has_flag (N.lor (c_fl0 c) DATE) DATE = true).
      { unfold has_flag. apply negb_true_iff. apply N.eqb_neq.
        rewrite N.land_lor_distr_l. intro E. apply N.lor_eq_0_iff in E. destruct E as [_ E]. discriminate E. }
      rewrite X in H. inversion H; auto.
    + bdestr (has_flag (c_fl0 c) DATE); [inversion H; auto|].
      destruct (reval_chain r) as [o' l'] eqn:R. inversion H; subst.
      destruct (IH _ _ eq_refl) as [[E F]|[E|E]]; auto.
      left. split; auto. constructor; auto. b2p. split; [lia|exact B1].
Qed.

Lemma Forall_removelast_last : forall (P : cert -> Prop) l d,
  l <> [] -> Forall P (removelast l) -> P (last l d) -> Forall P l.
Proof.
  intros P l d Hne HF HL. rewrite (app_removelast_last d Hne).
  apply Forall_app. split; auto.
Qed.

Lemma accepted_iff : forall r, accepted r = true <-> v_rc r = 0%Z /\ Forall is_pass (v_states r).
Proof.
  intros r. unfold accepted. rewrite andb_true_iff, forallb_forall, Forall_forall, Z.eqb_eq.
  unfold is_pass. split; intros [A B]; split; auto; intros x Hx; specialize (B x Hx); [apply Z.eqb_eq|apply Z.eqb_eq]; exact B.
Qed.

(* ------------------------------------------------------------------------------------------ *)
(* main soundness theorem (repaired code) *)
Theorem validate_sound : forall rv chain anchors lg,
  anchors <> [] -> Forall parsed (chain ++ anchors) -> hd_fresh chain ->
  accepted (validate sig_ok true rv chain anchors (mkK K0 lg)) = true ->
  genuine_path sig_ok K0 rv chain anchors.
Proof.
  intros rv chain anchors lg Hne HP Hfresh Hacc.
  pose proof evolves_refl as EV.
  apply accepted_iff in Hacc. destruct Hacc as [Hrc Hst].
  destruct chain as [|leaf rest]; [cbn in Hrc; discriminate Hrc|].
  cbn in Hfresh.
  apply Forall_app in HP. destruct HP as [HPc HPa].
  inversion HPc as [|x y Hleaf HPr]; subst x y.
  unfold validate in Hrc, Hst.
  assert (RV : rv = true -> Forall (fun c => c_date_now c = 0%Z) (leaf :: rest)).
  { intros E. subst rv. destruct (reval_chain (leaf :: rest)) as [o l0] eqn:R.
    destruct (reval_cases _ _ _ R) as [[E F]|[E|E]]; subst o.
    - eapply Forall_impl; [|exact F]. intros c [X _]; exact X.
    - cbn in Hrc. discriminate Hrc.
    - cbn in Hrc. discriminate Hrc. }
  assert (CONT : (if rv then reval_chain (leaf :: rest) else (None, map init (leaf :: rest))) = (None, snd (if rv then reval_chain (leaf :: rest) else (None, map init (leaf :: rest))))).
  { destruct rv; [|reflexivity].
    destruct (reval_chain (leaf :: rest)) as [o l0] eqn:R.
    destruct (reval_cases _ _ _ R) as [[E F]|[E|E]]; subst o; [reflexivity| |]; cbn in Hrc; discriminate Hrc. }
  rewrite CONT in Hrc, Hst. clear CONT.
  destruct anchors as [|a0 more]; [contradiction|].
  assert (IL : init leaf = reset leaf) by (unfold init, reset; rewrite Hfresh; reflexivity).
  rewrite IL in Hrc, Hst.
  destruct (walk sig_ok true 0 leaf (reset leaf) rest 0 FNone (mkK K0 lg)) as [[[[rc l] f]|[[pl below] top]] k1] eqn:W.
  - exfalso. apply walk_inl_neg in W. cbn in Hrc. lia.
  - destruct (anchor_loop sig_ok true rv leaf pl top (init top) (a0 :: more) 0 k1) as [[[[rc stop] eku] f] k2] eqn:AL.
    cbn in Hrc. subst rc.
    destruct eku.
    { apply anchor_loop_eku in AL. discriminate AL. }
    cbn in Hst. apply Forall_app in Hst. destruct Hst as [Hb Hs]. inversion Hs as [|x y Hstop _]; subst x y.
    destruct (walk_sound _ _ _ _ _ _ _ _ _ _ W EV HPr Hb) as [S1 [P1 [T1 [PL1 [D1 E1]]]]].
    destruct (anchor_loop_sound _ _ _ _ _ _ _ _ _ _ _ _ _ AL eq_refl Hstop eq_refl E1 HPa) as [a [Ia [Sa [Pa [Da _]]]]].
    exists a. split; [exact Ia|].
    unfold path_to. repeat split.
    + apply linked_snoc; [exact S1|]. rewrite <- T1. exact Sa.
    + apply pathlens_snoc; [exact P1|]. rewrite <- T1. rewrite <- PL1. exact Pa.
    + assert (DC : Forall date_clear (leaf :: rest)).
      { apply (Forall_removelast_last date_clear (leaf :: rest) leaf); [discriminate|exact D1|].
        rewrite last_cons. rewrite <- T1. exact Da. }
      apply Forall_forall. intros c Hc. unfold valid_now. split.
      * rewrite Forall_forall in DC. exact (DC c Hc).
      * intros E. specialize (RV E). rewrite Forall_forall in RV. exact (RV c Hc).
Qed.

(* what return code 0 alone guarantees: the signed path, not the soft checks *)
Theorem validate_rc0_signed_path : forall rv chain anchors lg,
  anchors <> [] -> Forall parsed (chain ++ anchors) ->
  v_rc (validate sig_ok true rv chain anchors (mkK K0 lg)) = 0%Z ->
  signed_path sig_ok K0 chain anchors.
Proof.
  intros rv chain anchors lg Hne HP Hrc.
  pose proof evolves_refl as EV.
  destruct chain as [|leaf rest]; [cbn in Hrc; discriminate Hrc|].
  apply Forall_app in HP. destruct HP as [HPc HPa].
  inversion HPc as [|x y Hleaf HPr]; subst x y.
  unfold validate in Hrc.
  destruct (if rv then reval_chain (leaf :: rest) else (None, map init (leaf :: rest))) as [o l0] eqn:R.
  assert (o = None).
  { destruct rv.
    - destruct (reval_cases _ _ _ R) as [[E F]|[E|E]]; subst o; auto; cbn in Hrc; discriminate Hrc.
    - inversion R; reflexivity. }
  subst o.
  destruct anchors as [|a0 more]; [contradiction|].
  destruct (walk sig_ok true 0 leaf (init leaf) rest 0 FNone (mkK K0 lg)) as [[[[rc l] f]|[[pl below] top]] k1] eqn:W.
  - exfalso. apply walk_inl_neg in W. cbn in Hrc. lia.
  - destruct (anchor_loop sig_ok true rv leaf pl top (init top) (a0 :: more) 0 k1) as [[[[rc stop] eku] f] k2] eqn:AL.
    cbn in Hrc. subst rc.
    destruct (walk_rc0 _ _ _ _ _ _ _ _ _ _ _ W EV HPr) as [S1 [P1 [T1 [PL1 E1]]]].
    destruct (anchor_loop_rc0 _ _ _ _ _ _ _ _ _ _ _ _ AL E1 HPa) as [a [Ia [Sa Pa]]].
    exists a. split; [exact Ia|]. split.
    + apply linked_snoc; [exact S1|]. rewrite <- T1. exact Sa.
    + apply pathlens_snoc; [exact P1|]. rewrite <- T1. rewrite <- PL1. exact Pa.
Qed.

(* ------------------------------------------------------------------------------------------ *)
(* no trust anchors: the chain authenticates itself and must end self-signed *)
Lemma cm_walk_sound : forall rest sc idx k rc l f k',
  cm_walk sig_ok true sc rest idx k = (rc, l, f, k') -> rc = 0%Z -> Forall is_pass l -> Forall parsed rest -> evolves (k_cache k) ->
  steps (sc :: rest) /\ self_signed sig_ok (last rest sc) /\ Forall date_clear (sc :: rest).
Proof.
  induction rest as [|ic rest IH]; intros sc idx k rc l f k' H Hrc HPs HPa E.
  - cbn [cm_walk] in H.
    destruct (auth_one_k sig_ok true true sc sc (reset sc) None k) as [[r s'] k1] eqn:A.
    destruct r as [rc0|]; inversion H; subst.
    + exfalso. apply auth_one_k_some in A. lia.
    + inversion HPs as [|x y Hs _]; subst x y.
      apply auth_one_k_pass in A; auto. destruct A as [HD [_ [_ L]]].
      destruct L as [[L1 [L2 _]]|[L _]]; [|discriminate L].
      cbn. repeat split; auto.
  - cbn [cm_walk] in H.
    destruct (auth_one_k sig_ok true false sc ic (reset sc) (Some ic) k) as [[r s'] k1] eqn:A.
    pose proof (auth_one_k_evolves _ _ _ _ _ _ _ _ _ _ A E) as E1.
    destruct r as [rc0|].
    + inversion H; subst. exfalso. apply auth_one_k_some in A. lia.
    + destruct (cm_walk sig_ok true ic rest (S idx) k1) as [[[rc' l'] f'] k2] eqn:W. inversion H; subst.
      inversion HPs as [|x y Hs Hl]; subst x y.
      inversion HPa as [|x y Hic Hrest]; subst x y.
      destruct (IH _ _ _ _ _ _ _ W eq_refl Hl Hrest E1) as [S1 [SS D1]].
      apply auth_one_k_pass in A; auto. destruct A as [HD [_ [CA L]]].
      split; [|split].
      * split; [|exact S1].
        unfold ChainSpec.step, ChainSpec.issued_by. destruct L as [[L1 [L2 [L3 L4]]]|[_ L]]; [left|right; exact L].
        repeat split; auto.
      * rewrite last_cons. exact SS.
      * constructor; [exact HD|exact D1].
Qed.

Theorem validate_noanchor_sound : forall rv chain lg,
  Forall parsed chain -> accepted (validate sig_ok true rv chain [] (mkK K0 lg)) = true ->
  self_contained sig_ok K0 chain /\ Forall (valid_now rv) chain.
Proof.
  intros rv chain lg HP Hacc.
  apply accepted_iff in Hacc. destruct Hacc as [Hrc Hst].
  destruct chain as [|leaf rest]; [cbn in Hrc; discriminate Hrc|].
  inversion HP as [|x y Hleaf HPr]; subst x y.
  unfold validate in Hrc, Hst.
  destruct (if rv then reval_chain (leaf :: rest) else (None, map init (leaf :: rest))) as [o l0] eqn:R.
  assert (RV : o = None /\ (rv = true -> Forall (fun c => c_date_now c = 0%Z) (leaf :: rest))).
  { destruct rv.
    - destruct (reval_cases _ _ _ R) as [[E F]|[E|E]]; subst o; try (cbn in Hrc; discriminate Hrc).
      split; auto. intros _. eapply Forall_impl; [|exact F]. intros c [X _]; exact X.
    - inversion R. split; auto. discriminate. }
  destruct RV as [E RV]. subst o.
  destruct (cm_walk sig_ok true leaf rest 0 (mkK K0 lg)) as [[[rc l] f] k1] eqn:W.
  cbn in Hrc, Hst. subst rc.
  destruct (cm_walk_sound _ _ _ _ _ _ _ _ W eq_refl Hst HPr evolves_refl) as [S1 [SS D1]].
  split.
  - unfold self_contained. split; [exact S1|]. rewrite last_cons. exact SS.
  - apply Forall_forall. intros c Hc. split.
    + rewrite Forall_forall in D1. exact (D1 c Hc).
    + intros Erv. specialize (RV Erv). rewrite Forall_forall in RV. exact (RV c Hc).
Qed.

(* ------------------------------------------------------------------------------------------ *)
(* converse direction *)
Definition pass_state (c : cert) : cst := mkCst PASS (c_fl0 c).

Lemma aki_check_ok : forall sc ic s, aki_ok sc ic -> aki_check sc ic s = s.
Proof.
  intros sc ic s H. unfold aki_check, f_DISABLE_AUTH_KEY_ID_CHECK.
  bdestr ((0 <? c_ak_len sc)%N || (0 <? c_sk_len ic)%N); [|reflexivity].
  bdestr (negb (c_sk_len ic =? c_ak_len sc)%N); b2p.
  - bdestr (c_sig sc =? c_sig ic)%N; b2p.
    + destruct H as [[H1 H2]|[[H1 H2]|[H1 H2]]].
      * exfalso. rewrite H1, H2 in B0. contradiction.
      * exfalso. symmetry in H1. contradiction.
      * rewrite H1. reflexivity.
    + exfalso. destruct H as [[H1 H2]|[[H1 H2]|[H1 H2]]].
      * rewrite H1, H2 in B0. contradiction.
      * symmetry in H1. contradiction.
      * contradiction.
  - bdestr (negb (c_sk_val ic =? c_ak_val sc)%N); [|reflexivity]. b2p. exfalso.
    destruct H as [[H1 H2]|[[H1 H2]|[H1 H2]]].
    + rewrite H1, H2 in B. discriminate B.
    + symmetry in H2. contradiction.
    + rewrite H1 in B0. rewrite H1, B0 in B. discriminate B.
Qed.

Lemma ku_check_ok : forall ic s, ku_supported ic -> ku_check ic s = (None, s).
Proof.
  intros ic s H. unfold ku_check.
  bdestr (N.land (c_ku ic) n_KEY_USAGE_KEY_CERT_SIGN =? 0)%N; [|reflexivity]. b2p.
  destruct H as [H|[H1 H2]]; [contradiction|].
  rewrite H1. cbn [N.eqb].
  bdestr (c_pre3280 ic =? 0)%Z; b2p; [lia|].
  bdestr (c_pre3280 ic <? 0)%Z; b2p; [lia|]. reflexivity.
Qed.

Lemma auth_one_link : forall sc ic s rs,
  c_iss sc = c_subj ic -> sig_ok (c_key ic) (c_tbs sc) (c_sig sc) (c_alg sc) = true -> is_ca ic ->
  link_supported sc ic -> rs <> REVOKED -> st s = 0%Z -> has_flag (fl s) DATE = false ->
  auth_one sig_ok true false sc ic s rs = (None, set_st s PASS).
Proof.
  intros sc ic s rs I1 I2 I3 [L1 L2] I5 H0 HD. unfold auth_one, bc_fail.
  unfold is_ca in I3. rewrite I3, Z.eqb_refl. cbn [negb andb]. rewrite andb_false_r. cbn [andb].
  rewrite I1, N.eqb_refl. cbn [negb].
  apply Z.eqb_neq in I5. rewrite I5, andb_false_r.
  rewrite I2. cbn [negb].
  rewrite (aki_check_ok _ _ _ L1), (ku_check_ok _ _ L2).
  rewrite (tail_clean _ H0 HD). reflexivity.
Qed.

Lemma auth_one_k_link : forall sc ic s p k,
  issued_by sc ic -> link_supported sc ic -> not_listed sc -> evolves (k_cache k) ->
  st s = 0%Z -> has_flag (fl s) DATE = false ->
  exists k', auth_one_k sig_ok true false sc ic s p k = (None, set_st s PASS, k') /\ evolves (k_cache k').
Proof.
  intros sc ic s p k [I1 [I2 [I3 [I4 I5]]]] L NL E H0 HD. unfold auth_one_k, f_USE_CRL. cbn [andb].
  assert (R : reaches_crl false sc ic = true).
  { apply reaches_intro; auto. unfold bc_fail. unfold is_ca in I3. rewrite I3, Z.eqb_refl. cbn [negb]. rewrite andb_false_r. reflexivity. }
  rewrite R.
  destruct (crl_lookup sig_ok (k_cache k) sc p) as [rs K'] eqn:LK.
  pose proof (lookup_not_listed _ sc p E NL) as X. rewrite LK in X. cbn [fst] in X.
  pose proof (lookup_evolves _ sc p E) as Y. rewrite LK in Y. cbn [snd] in Y.
  rewrite (auth_one_link sc ic s rs I1 I2 I3 L X H0 HD).
  eexists. split; [reflexivity|exact Y].
Qed.

Lemma auth_one_k_copy : forall sc ic s p k,
  same_cert sc ic -> c_iss sc <> c_subj ic -> is_ca ic -> st s = 0%Z -> has_flag (fl s) DATE = false ->
  auth_one_k sig_ok true false sc ic s p k = (None, set_st s PASS, k).
Proof.
  intros sc ic s p k [S1 S2] Hdn Hca H0 HD. unfold auth_one_k, reaches_crl.
  apply N.eqb_neq in Hdn. rewrite Hdn, !andb_false_r.
  unfold auth_one, bc_fail.
  unfold is_ca in Hca. rewrite Hca, Z.eqb_refl. cbn [negb andb]. rewrite andb_false_r. cbn [andb].
  rewrite Hdn. cbn [negb].
  unfold shortcut. rewrite S1, S2, !N.eqb_refl. cbn [negb andb].
  rewrite (tail_clean _ H0 HD). reflexivity.
Qed.

Lemma auth_one_unclaimed : forall sc a s rs, ~ claims sig_ok sc a ->
  exists rc s1, auth_one sig_ok true false sc a s rs = (Some rc, s1).
Proof.
  intros sc a s rs H. unfold auth_one.
  destruct (bc_fail false a); [eauto|].
  bdestr (negb (c_iss sc =? c_subj a)%N).
  - bdestr (shortcut true false sc a); [|eauto].
    exfalso. apply H. right. unfold shortcut in B0. b2p. split; auto.
  - b2p. destruct (f_USE_CRL && (rs =? c_CRL_CHECK_REVOKED_AND_AUTHENTICATED)%Z); [eauto|].
    bdestr (negb (sig_ok (c_key a) (c_tbs sc) (c_sig sc) (c_alg sc))); [eauto|].
    exfalso. apply H. left. b2p. split; auto.
Qed.

Lemma auth_one_k_unclaimed : forall sc a s p k, ~ claims sig_ok sc a -> evolves (k_cache k) ->
  exists rc s1 k1, auth_one_k sig_ok true false sc a s p k = (Some rc, s1, k1) /\ evolves (k_cache k1).
Proof.
  intros sc a s p k H E.
  destruct (auth_one_k sig_ok true false sc a s p k) as [[r s1] k1] eqn:A.
  pose proof (auth_one_k_evolves _ _ _ _ _ _ _ _ _ _ A E) as E1.
  unfold auth_one_k in A.
  destruct (f_USE_CRL && reaches_crl false sc a).
  - destruct (crl_lookup sig_ok (k_cache k) sc p) as [rs K'].
    destruct (auth_one_unclaimed sc a s rs H) as [rc [s2 X]]. rewrite X in A. inversion A; subst. eauto.
  - destruct (auth_one_unclaimed sc a s 0%Z H) as [rc [s2 X]]. rewrite X in A. inversion A; subst. eauto.
Qed.

Lemma last_in : forall (l : list cert) d, l <> [] -> In (last l d) l.
Proof.
  induction l as [|x l IH]; intros d H; [contradiction|].
  destruct l as [|y l]; [left; reflexivity|].
  right. change (last (x :: y :: l) d) with (last (y :: l) d). apply IH. discriminate.
Qed.

Lemma walk_complete' : forall rest pl sc idx f k,
  links_supported sig_ok K0 (sc :: rest) -> pathlens pl (sc :: rest) -> Forall date_clear (removelast (sc :: rest)) ->
  Forall not_listed (sc :: rest) -> evolves (k_cache k) ->
  exists k', walk sig_ok true pl sc (reset sc) rest idx f k =
    (inr ((pl + Z.of_nat (length rest))%Z, map pass_state (removelast (sc :: rest)), last rest sc), k') /\ evolves (k_cache k').
Proof.
  induction rest as [|ic rest IH]; intros pl sc idx f k HL HP HD HN E.
  - cbn. rewrite Z.add_0_r. eauto.
  - destruct HL as [[L1 L2] L3]. destruct HP as [P1 P2].
    change (removelast (sc :: ic :: rest)) with (sc :: removelast (ic :: rest)) in *.
    inversion HD as [|x y D1 D2]; subst x y.
    inversion HN as [|x y N1 N2]; subst x y.
    cbn [walk].
    destruct (auth_one_k_link sc ic (reset sc) (Some ic) k L1 L2 N1 E eq_refl D1) as [k1 [A E1]].
    rewrite A.
    change ((c_PS_SUCCESS <? c_PS_SUCCESS)%Z) with false. cbn iota.
    rewrite (pathlen_ok_check _ _ _ P1). cbn [negb].
    destruct (IH (pl + 1)%Z ic (S idx) (FChain (S idx)) k1 L3 P2 D2 N2 E1) as [k2 [W E2]].
    rewrite W.
    rewrite last_cons. cbn [map length]. exists k2. split; [|exact E2].
    f_equal. f_equal. f_equal. f_equal. lia.
Qed.

Lemma anchor_loop_complete : forall before rv leaf pl top s a after i k,
  fl s = c_fl0 top -> date_clear top -> not_listed top -> evolves (k_cache k) ->
  Forall (fun a' => ~ claims sig_ok top a') before ->
  top_supported sig_ok K0 top a -> pathlen_ok top a pl -> (rv = true -> valid_now rv a) -> eku_ok leaf ->
  exists k', anchor_loop sig_ok true rv leaf pl top s (before ++ a :: after) i k =
  (0%Z, pass_state top, false, FAnchor (i + length before), k').
Proof.
  induction before as [|b before IH]; intros rv leaf pl top s a after i k Hfl HD HNL E HB HT HPl HV HE.
  - cbn [app anchor_loop].
    assert (A : exists k', auth_one_k sig_ok true false top a (set_st s 0) None k = (None, set_st (set_st s 0) PASS, k')).
    { destruct HT as [[T1 T2]|[T1 [T2 T3]]].
      - destruct (auth_one_k_link top a (set_st s 0) None k T1 T2 HNL E eq_refl) as [k' [X _]]; eauto.
        cbn. rewrite Hfl. exact HD.
      - exists k. apply auth_one_k_copy; auto. cbn. rewrite Hfl. exact HD. }
    destruct A as [k' A]. rewrite A. rewrite Z.eqb_refl.
    rewrite (pathlen_ok_check _ _ _ HPl). cbn [negb].
    assert (E1 : rv && (c_date_now a <? 0)%Z = false).
    { destruct rv; [|reflexivity]. destruct (HV eq_refl) as [_ V]. rewrite (V eq_refl). reflexivity. }
    rewrite E1.
    assert (E2 : rv && has_flag (if (0 <? c_date_now a)%Z then N.lor (c_fl0 a) DATE else c_fl0 a) DATE = false).
    { destruct rv; [|reflexivity]. destruct (HV eq_refl) as [V0 V]. rewrite (V eq_refl). cbn. exact V0. }
    rewrite E2.
    assert (E3 : eku_bad leaf = false).
    { unfold eku_bad. unfold eku_ok in HE. destruct (c_eku_crit leaf); [|reflexivity].
      apply N.eqb_neq. apply HE. reflexivity. }
    rewrite E3. unfold pass_state, set_st. cbn. rewrite Hfl, Nat.add_0_r. eauto.
  - inversion HB as [|x y HB1 HB2]; subst x y.
    cbn [app anchor_loop].
    destruct (auth_one_k_unclaimed top b (set_st s 0) None k HB1 E) as [rc [s1 [k1 [A EK]]]].
    rewrite A.
    destruct (auth_one_k_some _ _ _ _ _ _ _ _ _ _ A) as [N1 [N2 N3]].
    assert (E1 : (rc =? c_PS_SUCCESS)%Z = false) by (apply Z.eqb_neq; unfold c_PS_SUCCESS; lia).
    assert (E2 : (rc =? c_PS_MEM_FAIL)%Z = false) by (apply Z.eqb_neq; exact N2).
    rewrite E1, E2.
    destruct (IH rv leaf pl top s1 a after (S i) k1) as [k' X]; auto.
    + rewrite N3. cbn. exact Hfl.
    + rewrite X. exists k'. cbn [length]. replace (S i + length before) with (i + S (length before)) by lia. reflexivity.
Qed.

Lemma reval_complete : forall cs, Forall (valid_now true) cs -> reval_chain cs = (None, map init cs).
Proof.
  induction cs as [|c r IH]; intros H; [reflexivity|].
  inversion H as [|x y [V0 V1] Hr]; subst x y.
  cbn [reval_chain]. rewrite (V1 eq_refl). cbn. rewrite V0. rewrite (IH Hr). reflexivity.
Qed.

Lemma Forall_pass_states : forall l, forallb (fun s => (st s =? PASS)%Z) (map pass_state l) = true.
Proof. induction l; cbn; auto. Qed.

Theorem validate_complete : forall rv chain before a after lg,
  supported_path sig_ok K0 rv chain before a ->
  accepted (validate sig_ok true rv chain (before ++ a :: after) (mkK K0 lg)) = true.
Proof.
  intros rv chain before a after lg [leaf [below [top [Hc [Ht [HL [HT [HP [HV [HNL [HVa [HE [Hst HB]]]]]]]]]]]]].
  subst chain.
  assert (RV : (if rv then reval_chain (leaf :: below) else (None, map init (leaf :: below))) = (None, map init (leaf :: below))).
  { destruct rv; [|reflexivity]. apply reval_complete. exact HV. }
  unfold validate. rewrite RV.
  destruct (before ++ a :: after) as [|a0 more] eqn:EA; [destruct before; discriminate EA|].
  rewrite <- EA. clear EA a0 more.
  assert (IL : init leaf = reset leaf) by (unfold init, reset; rewrite Hst; reflexivity).
  rewrite IL.
  assert (DC : Forall date_clear (leaf :: below)).
  { eapply Forall_impl; [|exact HV]. intros c [X _]. exact X. }
  assert (DCr : Forall date_clear (removelast (leaf :: below))).
  { rewrite Forall_forall in *. intros c Hc. apply DC.
    rewrite (app_removelast_last leaf (l := leaf :: below)) by discriminate.
    apply in_or_app. left. exact Hc. }
  assert (PL : pathlens 0 (leaf :: below) /\ pathlen_ok top a (0 + Z.of_nat (length below))).
  { clear - HP Ht. revert HP. generalize 0%Z as k. revert leaf Ht.
    induction below as [|c below IH]; intros leaf Ht k HP.
    - cbn in *. subst top. rewrite Z.add_0_r. destruct HP as [HP _]. split; auto.
    - change ((leaf :: c :: below) ++ [a]) with (leaf :: ((c :: below) ++ [a])) in HP.
      destruct HP as [P1 P2]. rewrite last_cons in Ht.
      assert (Ht' : last (c :: below) c = top).
      { rewrite last_cons. rewrite <- Ht. symmetry. apply last_cons. }
      destruct (IH c Ht' (k + 1)%Z P2) as [Q1 Q2].
      split; [split; auto|].
      replace (k + Z.of_nat (length (c :: below)))%Z with (k + 1 + Z.of_nat (length below))%Z by (cbn [length]; lia).
      exact Q2. }
  destruct PL as [PL1 PL2].
  destruct (walk_complete' below 0 leaf 0 FNone (mkK K0 lg) HL PL1 DCr HNL evolves_refl) as [k1 [W E1]].
  rewrite W.
  assert (Ttop : last below leaf = top) by (rewrite <- Ht; symmetry; apply last_cons).
  rewrite Ttop.
  assert (Itop : In top (leaf :: below)) by (rewrite <- Ht; apply last_in; discriminate).
  assert (Dtop : date_clear top) by (rewrite Forall_forall in DC; apply DC; exact Itop).
  assert (Ntop : not_listed top) by (rewrite Forall_forall in HNL; apply HNL; exact Itop).
  destruct (anchor_loop_complete before rv leaf (0 + Z.of_nat (length below))%Z top (init top) a after 0 k1 eq_refl Dtop Ntop E1 HB HT PL2 HVa HE) as [k2 AL].
  rewrite AL.
  unfold accepted. cbn [v_rc v_states]. rewrite Z.eqb_refl. cbn [andb].
  rewrite forallb_app. rewrite Forall_pass_states. cbn. reflexivity.
Qed.


(* with a tidy cache (one CRL per issuer name, none stale) "not revoked" is the property's clause verbatim *)
Lemma find_unique : forall (l : list crl) r v, NoDup (map r_iss l) -> In r l -> r_iss r = v ->
  find (fun x => (r_iss x =? v)%N) l = Some r.
Proof.
  induction l as [|x l IH]; intros r v ND HI Hv; [contradiction|].
  cbn [find]. inversion ND as [|y m Hnin ND']; subst y m.
  destruct HI as [HI|HI].
  - subst x. rewrite Hv, N.eqb_refl. reflexivity.
  - destruct (r_iss x =? v)%N eqn:B; [|apply IH; auto].
    exfalso. apply N.eqb_eq in B. apply Hnin. rewrite B, <- Hv. apply in_map. exact HI.
Qed.

Theorem tidy_not_revoked : forall c, cache_tidy K0 -> not_revoked c -> ~ revoked_by_loaded_crl K0 c.
Proof.
  intros c [ND FC] NR [r [HI [Hi [Ha Hl]]]]. apply NR. exists r.
  split; [unfold crl_for; apply find_unique; auto|].
  split; [exact Ha|]. split; [|exact Hl]. rewrite Forall_forall in FC. exact (FC r HI).
Qed.

End Proofs.


(* ------------------------------------------------------------------------------------------ *)
(* parse-time gate *)
Theorem parse_gate_sound : forall d, parse_gate true d = true -> gate_demands d.
Proof.
  intros d H. unfold parse_gate, sha1_rejected, f_ALLOW_VERSION_1_ROOT_CERT_PARSE,
    f_ALLOW_UNKNOWN_CRITICAL_EXTENSIONS, f_ENABLE_SHA1_SIGNED_CERTS in H.
  rewrite orb_false_r in H. b2p.
  unfold gate_demands. repeat split; auto.
  apply orb_true_iff in H0. destruct H0 as [E|E]; [left; exact E|right].
  rewrite negb_involutive in E. b2p. auto.
Qed.

Theorem parse_gate_complete : forall d, gate_demands d -> parse_gate true d = true.
Proof.
  intros d [V [U [A S]]]. unfold parse_gate, sha1_rejected, f_ALLOW_VERSION_1_ROOT_CERT_PARSE,
    f_ALLOW_UNKNOWN_CRITICAL_EXTENSIONS, f_ENABLE_SHA1_SIGNED_CERTS.
  rewrite V, U, <- A, N.eqb_refl. cbn [Z.eqb negb orb andb Pos.eqb].
  destruct S as [S|[S1 [S2 S3]]]; [rewrite S; reflexivity|].
  rewrite S1, S2, S3, !N.eqb_refl. cbn. apply orb_true_r.
Qed.

Theorem parse_gate_iff : forall d, parse_gate true d = true <-> gate_demands d.
Proof. intros d; split; [exact (parse_gate_sound d)|exact (parse_gate_complete d)]. Qed.

(* the pinned SHA-1 rule lets a SHA-1 signed certificate through whenever the two common names
   differ in LENGTH (e.g. testkeys/RSA/2048_RSA_SHA1.pem) *)
Definition w_sha1 : pdesc := mkPdesc 2 n_OID_SHA1_RSA_SIG n_OID_SHA1_RSA_SIG 34 1 44 2 false.
Theorem parse_gate_pinned_refuted : exists d, parse_gate false d = true /\ ~ gate_demands d.
Proof.
  exists w_sha1. split; [vm_compute; reflexivity|].
  intros [_ [_ [_ [S|[_ [S _]]]]]]; vm_compute in S; discriminate S.
Qed.

(* ------------------------------------------------------------------------------------------ *)
(* witnesses *)
Definition no_sig : N -> N -> N -> N -> bool := fun _ _ _ _ => false.
Definition all_sig : N -> N -> N -> N -> bool := fun _ _ _ _ => true.

(*                       subj iss tbs sig alg  key ver ca  pathlen ku  eku crit  ak    sk   serial crldist p3 dn fl st *)
Definition w_leaf := mkCert 1 9 10 21 1679 5 2 0 (-1) 224 6 false 0 0 0 0 [1%N] false 0 0 0 0.
Definition w_anchor := mkCert 2 2 11 21 1679 7 2 255 (-1) 6 0 false 0 0 0 0 [2%N] false 0 0 0 0.

(* pinned code: a leaf carrying a copy of the trust anchor's signature BYTES under a foreign issuer
   name is accepted even when no signature in the world verifies *)
Theorem validate_sound_pinned_refuted :
  exists sig_ok rv chain anchors,
    anchors <> [] /\ Forall parsed (chain ++ anchors) /\ hd_fresh chain /\
    accepted (validate sig_ok false rv chain anchors (mkK [] [])) = true /\
    ~ genuine_path sig_ok [] rv chain anchors.
Proof.
  exists no_sig, false, [w_leaf], [w_anchor].
  split; [discriminate|]. split; [repeat constructor|]. split; [reflexivity|].
  split; [vm_compute; reflexivity|].
  intros [a [Ia [[S _] _]]]. destruct Ia as [Ia|[]]. subst a.
  destruct S as [[_ [S _]]|[S _]]; vm_compute in S; discriminate S.
Qed.

Example witness_rejected_by_repaired_code : accepted (validate no_sig true false [w_leaf] [w_anchor] (mkK [] [])) = false.
Proof. vm_compute. reflexivity. Qed.

(* pinned code, no trust anchors: any single certificate "is self-signed" *)
Theorem validate_noanchor_pinned_refuted :
  exists sig_ok rv chain, Forall parsed chain /\
    accepted (validate sig_ok false rv chain [] (mkK [] [])) = true /\ ~ self_contained sig_ok [] chain.
Proof.
  exists no_sig, false, [w_leaf]. split; [repeat constructor|]. split; [vm_compute; reflexivity|].
  intros [_ [S _]]. vm_compute in S. discriminate S.
Qed.

(* return code 0 does NOT mean every certificate passed (the lemma C04 would like):
   the date / keyUsage / key-identifier verdicts only live in authStatus *)
Definition w_leaf_dated := mkCert 1 2 10 20 1679 5 2 0 (-1) 224 6 false 0 0 0 0 [1%N] false 0 0 8 0.
Definition w_root := mkCert 2 2 11 21 1679 7 2 255 (-1) 6 0 false 0 0 0 0 [2%N] false 0 0 0 0.
Theorem status_consistent_refuted :
  exists sig_ok rv chain anchors,
    anchors <> [] /\ Forall parsed (chain ++ anchors) /\ hd_fresh chain /\
    v_rc (validate sig_ok true rv chain anchors (mkK [] [])) = 0%Z /\
    ~ Forall (fun s => st s = c_PS_CERT_AUTH_PASS) (v_states (validate sig_ok true rv chain anchors (mkK [] []))).
Proof.
  exists all_sig, false, [w_leaf_dated], [w_root].
  split; [discriminate|]. split; [repeat constructor|]. split; [reflexivity|].
  split; [vm_compute; reflexivity|].
  intros H. vm_compute in H. inversion H as [|x y E _]. discriminate E.
Qed.

(* ------------------------------------------------------------------------------------------ *)
(* non-vacuity: the hypotheses of the two main theorems are satisfiable together *)
Definition key_sig : N -> N -> N -> N -> bool :=   (* TBS t is signed by key t+100, signature id 2t *)
  fun key tbs sg alg => (key =? tbs + 100)%N && (sg =? 2 * tbs)%N && (alg =? 1679)%N.
(*                      subj iss tbs sig alg  key ver ca  pathlen ku  eku crit  ak    sk     serial crldist p3 dn fl st *)
Definition e_leaf := mkCert 1 2 10 20 1679 5 2 0 (-1) 224 6 true 20 51 20 50 [0%N;196%N] false 0 0 0 0.
Definition e_int := mkCert 2 3 11 22 1679 110 2 255 0 6 0 false 20 52 20 51 [5%N] false 0 0 0 0.
Definition e_root := mkCert 3 3 12 24 1679 111 2 255 1 4 0 false 0 0 20 52 [6%N] false 0 0 0 0.
Definition e_decoy := mkCert 3 3 13 26 1679 999 2 255 (-1) 6 0 false 0 0 20 52 [7%N] false 0 0 0 0.

(* a cache that speaks for both issuers: leaf's issuer (name 2) has an authenticated current CRL that lists
   other serials - among them C4, which is not the leaf's 00 C4 -, the intermediate's issuer an unauthenticated one *)
Definition e_crl2 := mkCrl 0 2 50 60 1679 true false 0 [[196%N]; [0%N; 197%N]; []].
Definition e_crl3 := mkCrl 1 3 51 61 1679 false false 0 [[9%N]].
Definition e_K := [e_crl2; e_crl3].

Example supported_example : supported_path key_sig e_K true [e_leaf; e_int] [e_decoy] e_root.
Proof.
  exists e_leaf, [e_int], e_int.
  split; [reflexivity|]. split; [reflexivity|].
  assert (NR : forall c, c = e_leaf \/ c = e_int -> not_revoked e_K c).
  { intros c Hc [r [F [_ [_ L]]]]. destruct Hc; subst c; vm_compute in F; inversion F; subst r; vm_compute in L; discriminate L. }
  split.
  { cbn. split; [|exact I]. split.
    - unfold issued_by, is_ca, ku_certsign. cbn. repeat split; try discriminate; auto.
    - unfold link_supported, aki_ok, ku_supported. cbn. split; [right; left; auto|left; discriminate]. }
  split.
  { left. split.
    - unfold issued_by, is_ca, ku_certsign. cbn. repeat split; try discriminate; auto.
    - unfold link_supported, aki_ok, ku_supported. cbn. split; [right; left; auto|left; discriminate]. }
  split.
  { cbn. unfold pathlen_ok, depth_below. cbn. repeat split; right; lia. }
  split.
  { repeat constructor; cbn; auto. }
  split.
  { repeat constructor; intros r F L; vm_compute in F; inversion F; subst r; vm_compute in L; discriminate L. }
  split.
  { intros _. split; cbn; auto. }
  split.
  { unfold eku_ok. cbn. discriminate. }
  split; [reflexivity|].
  constructor; [|constructor].
  intros [[_ C]|[C _]]; vm_compute in C; discriminate C.
Qed.

Example supported_example_accepted :
  accepted (validate key_sig true true [e_leaf; e_int] [e_decoy; e_root] (mkK e_K [])) = true.
Proof. vm_compute. reflexivity. Qed.

(* ------------------------------------------------------------------------------------------ *)
(* revocation witnesses *)
(* the leaf's serial 00 C4 listed in the authenticated CRL of its issuer: refused *)
Definition r_listing := mkCrl 0 2 50 60 1679 true false 0 [[1%N]; [0%N; 196%N]].
Example revoked_leaf_refused :
  let r := validate key_sig true false [e_leaf; e_int] [e_root] (mkK [r_listing] []) in
  accepted r = false /\ v_rc r = c_PS_CERT_AUTH_FAIL_REVOKED /\ k_log (v_k r) = [c_CRL_CHECK_REVOKED_AND_AUTHENTICATED].
Proof. vm_compute. auto. Qed.
Example revoked_in_example : revoked_in [r_listing] e_leaf.
Proof. exists r_listing. repeat split; try reflexivity; cbn; lia. Qed.
(* an unauthenticated CRL is authenticated on the way by the chain parent, when that parent signed it *)
Definition r_by_int := mkCrl 0 2 10 20 1679 false false 0 [[0%N; 196%N]].   (* TBS 10 / signature 20: verifies under key 110 *)
Example unauthenticated_crl_adopted :
  let r := validate key_sig true false [e_leaf; e_int] [e_root] (mkK [r_by_int] []) in
  accepted r = false /\ map r_auth (k_cache (v_k r)) = [true].
Proof. vm_compute. auto. Qed.

(* the literal clause "no certificate is revoked by ANY authenticated CRL the application loaded" needs the tidy cache:
   only the first CRL under an issuer name is consulted, and a CRL past its nextUpdate is not consulted at all *)
Definition r_shadow := mkCrl 0 2 52 62 1679 false false 0 [].
Definition r_listing1 := mkCrl 1 2 50 60 1679 true false 0 [[0%N; 196%N]].
Definition r_stale := mkCrl 0 2 50 60 1679 true false (-1) [[0%N; 196%N]].
Theorem revocation_shadowed_refuted :
  exists sig_ok K rv chain anchors,
    anchors <> [] /\ Forall parsed (chain ++ anchors) /\ hd_fresh chain /\ Forall crl_current K /\
    accepted (validate sig_ok true rv chain anchors (mkK K [])) = true /\
    exists c, In c chain /\ revoked_by_loaded_crl K c.
Proof.
  exists key_sig, [r_shadow; r_listing1], false, [e_leaf; e_int], [e_root].
  split; [discriminate|]. split; [repeat constructor|]. split; [reflexivity|].
  split; [repeat constructor; cbn; lia|].
  split; [vm_compute; reflexivity|].
  exists e_leaf. split; [left; reflexivity|]. exists r_listing1. repeat split; try reflexivity; cbn; auto.
Qed.
Theorem revocation_stale_refuted :
  exists sig_ok K rv chain anchors,
    anchors <> [] /\ Forall parsed (chain ++ anchors) /\ hd_fresh chain /\ NoDup (map r_iss K) /\
    accepted (validate sig_ok true rv chain anchors (mkK K [])) = true /\
    exists c, In c chain /\ revoked_by_loaded_crl K c.
Proof.
  exists key_sig, [r_stale], false, [e_leaf; e_int], [e_root].
  split; [discriminate|]. split; [repeat constructor|]. split; [reflexivity|].
  split; [repeat constructor; intros []|].
  split; [vm_compute; reflexivity|].
  exists e_leaf. split; [left; reflexivity|]. exists r_stale. repeat split; try reflexivity; cbn; auto.
Qed.

(* ------------------------------------------------------------------------------------------ *)
(* the revocation clause on its own, for a tidy cache *)
Lemma linked_impl : forall (R S : cert -> cert -> Prop) p, (forall a b, R a b -> S a b) -> linked R p -> linked S p.
Proof.
  intros R S p H. induction p as [|a p IH]; [auto|].
  destruct p as [|b p]; [auto|]. intros [H1 H2]. split; [apply H; exact H1|apply IH; exact H2].
Qed.

Definition step_unrevoked (sig_ok : N -> N -> N -> N -> bool) (K : list crl) (sc ic : cert) : Prop :=
  same_cert sc ic \/ (issued_by sig_ok K sc ic /\ ~ revoked_by_loaded_crl K sc).

Theorem validate_unrevoked : forall (sig_ok : N -> N -> N -> N -> bool) K rv chain anchors lg,
  anchors <> [] -> Forall parsed (chain ++ anchors) -> hd_fresh chain -> cache_tidy K ->
  accepted (validate sig_ok true rv chain anchors (mkK K lg)) = true ->
  exists a, In a anchors /\ linked (step_unrevoked sig_ok K) (chain ++ [a]).
Proof.
  intros sig_ok K rv chain anchors lg H1 H2 H3 HT H4.
  destruct (validate_sound sig_ok K rv chain anchors lg H1 H2 H3 H4) as [a [Ia [S _]]].
  exists a. split; [exact Ia|].
  eapply linked_impl; [|exact S].
  intros x y [I|C]; [right|left; exact C]. split; [exact I|].
  apply tidy_not_revoked; [exact HT|]. destruct I as [_ [_ [_ [_ NR]]]]. exact NR.
Qed.
