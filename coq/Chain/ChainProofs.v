(* C03 - proofs about the chain-validation model (fx = true: the repaired code). *)
From Coq Require Import List ZArith NArith Bool Lia.
From MV Require Import Gen.Consts Gen.ConstsChain Chain.ChainModel Chain.ChainSpec.
Import ListNotations.

(* ------------------------------------------------------------------------------------------ *)
(* facts about the generated constants that the proofs rely on (re-checked on every build: a
   renumbering in the headers that breaks one of them breaks the theorems, not silently the model) *)
Lemma pass_nonzero : c_PS_CERT_AUTH_PASS <> 0%Z. Proof. discriminate. Qed.
Lemma ext_nonzero : c_PS_CERT_AUTH_FAIL_EXTENSION <> 0%Z. Proof. discriminate. Qed.
Lemma authkey_nonzero : c_PS_CERT_AUTH_FAIL_AUTHKEY <> 0%Z. Proof. discriminate. Qed.
Lemma ext_not_pass : c_PS_CERT_AUTH_FAIL_EXTENSION <> c_PS_CERT_AUTH_PASS. Proof. discriminate. Qed.
Lemma authkey_not_pass : c_PS_CERT_AUTH_FAIL_AUTHKEY <> c_PS_CERT_AUTH_PASS. Proof. discriminate. Qed.
Lemma pathlen_not_pass : c_PS_CERT_AUTH_FAIL_PATH_LEN <> c_PS_CERT_AUTH_PASS. Proof. discriminate. Qed.
Lemma success_zero : c_PS_SUCCESS = 0%Z. Proof. reflexivity. Qed.

Ltac bdestr X :=
  let H := fresh "B" in
  destruct X eqn:H.

(* turn boolean comparisons in the context into propositions *)
Ltac b2p :=
  repeat match goal with
  | H : (_ =? _)%Z = true |- _ => apply Z.eqb_eq in H
  | H : (_ =? _)%Z = false |- _ => apply Z.eqb_neq in H
  | H : (_ =? _)%N = true |- _ => apply N.eqb_eq in H
  | H : (_ =? _)%N = false |- _ => apply N.eqb_neq in H
  | H : (_ <? _)%Z = true |- _ => apply Z.ltb_lt in H
  | H : (_ <? _)%Z = false |- _ => apply Z.ltb_ge in H
  | H : (_ >? _)%Z = true |- _ => rewrite Z.gtb_ltb in H; apply Z.ltb_lt in H
  | H : (_ >? _)%Z = false |- _ => rewrite Z.gtb_ltb in H; apply Z.ltb_ge in H
  | H : (_ >=? _)%Z = true |- _ => rewrite Z.geb_leb in H; apply Z.leb_le in H
  | H : (_ >=? _)%Z = false |- _ => rewrite Z.geb_leb in H; apply Z.leb_gt in H
  | H : (_ <? _)%N = true |- _ => apply N.ltb_lt in H
  | H : (_ <? _)%N = false |- _ => apply N.ltb_ge in H
  | H : negb _ = true |- _ => apply negb_true_iff in H
  | H : negb _ = false |- _ => apply negb_false_iff in H
  | H : (_ && _)%bool = true |- _ => apply andb_true_iff in H; destruct H
  | H : (_ || _)%bool = false |- _ => apply orb_false_iff in H; destruct H
  end.

Section Proofs.
Variable sig_ok : N -> N -> N -> N -> bool.

Notation DATE := n_PS_CERT_AUTH_FAIL_DATE_FLAG.
Notation PASS := c_PS_CERT_AUTH_PASS.
Definition date_clear (c : cert) : Prop := has_flag (c_fl0 c) DATE = false.
Definition is_pass (s : cst) : Prop := st s = PASS.

(* ------------------------------------------------------------------------------------------ *)
(* the tail: PASS exactly when nothing was recorded and the DATE flag is clear *)
Lemma tail_pass : forall s, st (tail s) = PASS -> st s <> PASS -> st s = 0%Z /\ has_flag (fl s) DATE = false.
Proof.
  intros s H Hn. unfold tail in H.
  destruct (st s =? 0)%Z eqn:B.
  - destruct (has_flag (fl s) DATE) eqn:D; cbn [andb] in H.
    + cbn in H. discriminate H.
    + rewrite B in H. cbn in H. apply Z.eqb_eq in B. auto.
  - cbn [andb] in H. rewrite B in H. contradiction.
Qed.

Lemma tail_fl : forall s, fl (tail s) = fl s.
Proof.
  intros s. unfold tail. destruct ((st s =? 0)%Z && has_flag (fl s) DATE).
  - destruct (st (set_st s c_PS_CERT_AUTH_FAIL_EXTENSION) =? 0)%Z; reflexivity.
  - destruct (st s =? 0)%Z; reflexivity.
Qed.

Lemma tail_nonzero : forall s, st s <> 0%Z -> tail s = s.
Proof.
  intros s H. unfold tail. apply Z.eqb_neq in H. rewrite H. cbn [andb]. rewrite H. reflexivity.
Qed.

Lemma tail_clean : forall s, st s = 0%Z -> has_flag (fl s) DATE = false -> tail s = set_st s PASS.
Proof.
  intros s H0 Hd. unfold tail. rewrite H0, Hd. cbn. rewrite H0. reflexivity.
Qed.

Lemma aki_check_cases : forall sc ic s, aki_check sc ic s = s \/ aki_check sc ic s = set_st s c_PS_CERT_AUTH_FAIL_AUTHKEY.
Proof.
  intros. unfold aki_check.
  repeat match goal with |- context[if ?b then _ else _] => destruct b end; auto.
Qed.

Lemma ku_check_cases : forall ic s r s2, ku_check ic s = (r, s2) ->
  (r = None /\ s2 = s /\ ((N.land (c_ku ic) n_KEY_USAGE_KEY_CERT_SIGN <> 0)%N \/ (c_ku ic = 0%N /\ (0 < c_pre3280 ic)%Z))) \/
  (r = None /\ st s2 = c_PS_CERT_AUTH_FAIL_EXTENSION) \/
  (r = Some c_PS_PARSE_FAIL /\ s2 = s).
Proof.
  intros ic s r s2 H. unfold ku_check in H.
  bdestr (N.land (c_ku ic) n_KEY_USAGE_KEY_CERT_SIGN =? 0)%N; b2p.
  - bdestr (c_ku ic =? 0)%N; b2p.
    + bdestr (c_pre3280 ic =? 0)%Z; b2p.
      * inversion H; subst. right; left. auto.
      * bdestr (c_pre3280 ic <? 0)%Z; b2p; inversion H; subst.
        -- right; right; auto.
        -- left. repeat split; auto. right. split; auto. lia.
    + cbn in H. inversion H; subst. right; left; auto.
  - inversion H; subst. left. auto.
Qed.

(* flags never change on a path that returns early; the status only moves away from 0 *)
Lemma auth_one_some_fl : forall fx self sc ic s rc s', auth_one sig_ok fx self sc ic s = (Some rc, s') -> fl s' = fl s.
Proof.
  intros fx self sc ic s rc s' H. unfold auth_one in H.
  repeat match type of H with
  | context[if ?b then _ else _] => destruct b
  end; try (inversion H; subst; reflexivity).
  destruct (ku_check ic (aki_check sc ic s)) as [r s2] eqn:K.
  destruct r; inversion H; subst.
  apply ku_check_cases in K. destruct K as [[K _]|[[K _]|[_ K]]]; try discriminate K.
  subst. destruct (aki_check_cases sc ic s) as [E|E]; rewrite E; reflexivity.
Qed.

(* every early return carries a negative code other than PS_MEM_FAIL *)
Lemma auth_one_some_neg : forall fx self sc ic s rc s', auth_one sig_ok fx self sc ic s = (Some rc, s') ->
  (rc < 0)%Z /\ rc <> c_PS_MEM_FAIL.
Proof.
  intros fx self sc ic s rc s' H. unfold auth_one in H.
  repeat match type of H with
  | context[if ?b then _ else _] => destruct b
  end; try discriminate H; try (inversion H; subst; split; [reflexivity|discriminate]).
  destruct (ku_check ic (aki_check sc ic s)) as [r s2] eqn:K.
  destruct r; inversion H; subst.
  apply ku_check_cases in K. destruct K as [[K _]|[[K _]|[K _]]]; try discriminate K.
  inversion K; subst. split; [reflexivity|discriminate].
Qed.

(* ------------------------------------------------------------------------------------------ *)
(* soundness of one authentication step (repaired code) *)
Lemma auth_one_pass : forall self sc ic s s',
  auth_one sig_ok true self sc ic s = (None, s') -> st s = 0%Z -> st s' = PASS ->
  has_flag (fl s) DATE = false /\ fl s' = fl s /\
  (self = false -> parsed ic -> is_ca ic) /\
  ((c_iss sc = c_subj ic /\ sig_ok (c_key ic) (c_tbs sc) (c_sig sc) (c_alg sc) = true /\
    ku_certsign ic /\ not_revoked sc) \/
   (self = false /\ same_cert sc ic)).
Proof.
  intros self sc ic s s' H H0 HP. unfold auth_one in H.
  assert (Hne : st s <> PASS) by (rewrite H0; intro X; symmetry in X; exact (pass_nonzero X)).
  bdestr ((c_ver ic >? 1)%Z && negb (c_ca ic =? c_CA_TRUE)%Z && negb self); [inversion H|].
  assert (CA : self = false -> parsed ic -> is_ca ic).
  { intros Hs Hp. unfold parsed in Hp. unfold is_ca. subst self.
    rewrite Hp in B. cbn in B. rewrite andb_true_r in B. b2p. exact B. }
  bdestr (negb (c_iss sc =? c_subj ic)%N).
  - (* names differ: only the same-certificate shortcut gets through *)
    bdestr (shortcut true self sc ic); inversion H; subst.
    apply tail_pass in HP; auto. destruct HP as [_ HD].
    rewrite tail_fl. repeat split; auto.
    right. unfold shortcut in B1. b2p. split; [auto|]. split; auto.
  - b2p.
    bdestr (f_USE_CRL && (c_rev sc =? c_CRL_CHECK_REVOKED_AND_AUTHENTICATED)%Z); [inversion H|].
    bdestr (negb (sig_ok (c_key ic) (c_tbs sc) (c_sig sc) (c_alg sc))); [inversion H|].
    b2p.
    destruct (ku_check ic (aki_check sc ic s)) as [r s2] eqn:K.
    destruct r; inversion H; subst. clear H.
    apply ku_check_cases in K. destruct K as [[_ [K1 K2]]|[[_ K]|[K _]]]; try discriminate K.
    + subst s2.
      destruct (aki_check_cases sc ic s) as [E|E]; rewrite E in *.
      * apply tail_pass in HP; auto. destruct HP as [_ HD].
        rewrite tail_fl. repeat split; auto.
        left. repeat split; auto.
        -- unfold ku_certsign. intros Hk. destruct K2 as [K2|[K2 _]]; [exact K2|contradiction].
        -- unfold not_revoked. cbn in B1. b2p. exact B1.
      * exfalso. rewrite tail_nonzero in HP by (cbn; exact authkey_nonzero).
        exact (authkey_not_pass HP).
    + exfalso. rewrite tail_nonzero in HP by (rewrite K; exact ext_nonzero).
      rewrite K in HP. exact (ext_not_pass HP).
Qed.

(* what a fall-through (return code 0) alone guarantees *)
Lemma auth_one_none : forall self sc ic s s',
  auth_one sig_ok true self sc ic s = (None, s') ->
  (self = false -> parsed ic -> is_ca ic) /\
  ((c_iss sc = c_subj ic /\ sig_ok (c_key ic) (c_tbs sc) (c_sig sc) (c_alg sc) = true /\ not_revoked sc) \/
   (self = false /\ same_cert sc ic)).
Proof.
  intros self sc ic s s' H. unfold auth_one in H.
  bdestr ((c_ver ic >? 1)%Z && negb (c_ca ic =? c_CA_TRUE)%Z && negb self); [inversion H|].
  assert (CA : self = false -> parsed ic -> is_ca ic).
  { intros Hs Hp. unfold parsed in Hp. unfold is_ca. subst self.
    rewrite Hp in B. cbn in B. rewrite andb_true_r in B. b2p. exact B. }
  split; auto.
  bdestr (negb (c_iss sc =? c_subj ic)%N).
  - bdestr (shortcut true self sc ic); inversion H; subst.
    right. unfold shortcut in B1. b2p. split; [auto|]. split; auto.
  - b2p.
    bdestr (f_USE_CRL && (c_rev sc =? c_CRL_CHECK_REVOKED_AND_AUTHENTICATED)%Z); [inversion H|].
    bdestr (negb (sig_ok (c_key ic) (c_tbs sc) (c_sig sc) (c_alg sc))); [inversion H|].
    b2p. left. repeat split; auto. unfold not_revoked. cbn in B1. b2p. exact B1.
Qed.

Lemma pathlen_check_ok : forall ic sc pl, pathlen_check true ic sc pl = true -> pathlen_ok sc ic pl.
Proof.
  intros ic sc pl H. unfold pathlen_check, same_ca in H. unfold pathlen_ok, depth_below.
  bdestr (c_pathlen ic >=? 0)%Z; b2p; [|left; lia].
  right. destruct ((c_tbs sc =? c_tbs ic)%N && (c_sig sc =? c_sig ic)%N && (pl >? 0)%Z); b2p; lia.
Qed.

Lemma pathlen_ok_check : forall ic sc pl, pathlen_ok sc ic pl -> pathlen_check true ic sc pl = true.
Proof.
  intros ic sc pl H. unfold pathlen_check, same_ca. unfold pathlen_ok, depth_below in H.
  bdestr (c_pathlen ic >=? 0)%Z; b2p; auto.
  destruct H as [H|H]; [lia|].
  apply negb_true_iff. apply Z.ltb_ge.
  destruct ((c_tbs sc =? c_tbs ic)%N && (c_sig sc =? c_sig ic)%N && (pl >? 0)%Z); lia.
Qed.

(* ------------------------------------------------------------------------------------------ *)
(* list helpers *)
Lemma last_cons : forall (p : list cert) (c d : cert), last (c :: p) d = last p c.
Proof.
  induction p as [|x p IH]; intros c d; [reflexivity|].
  change (last (c :: x :: p) d) with (last (x :: p) d).
  rewrite (IH x d), (IH x c). reflexivity.
Qed.

Lemma linked_snoc : forall R p sc a,
  linked R (sc :: p) -> R (last p sc) a -> linked R ((sc :: p) ++ [a]).
Proof.
  intros R p. induction p as [|c p IH]; intros sc a H HL.
  - cbn in *. auto.
  - destruct H as [H1 H2]. change ((sc :: c :: p) ++ [a]) with (sc :: ((c :: p) ++ [a])).
    split; [exact H1|].
    apply (IH c a H2). rewrite last_cons in HL. exact HL.
Qed.

Lemma pathlens_snoc : forall p k sc a,
  pathlens k (sc :: p) -> pathlen_ok (last p sc) a (k + Z.of_nat (length p)) -> pathlens k ((sc :: p) ++ [a]).
Proof.
  induction p as [|c p IH]; intros k sc a H HL.
  - cbn in *. rewrite Z.add_0_r in HL. auto.
  - destruct H as [H1 H2]. cbn [app]. split; [exact H1|].
    apply (IH (k + 1)%Z c a H2).
    replace (k + 1 + Z.of_nat (length p))%Z with (k + Z.of_nat (length (c :: p)))%Z by (cbn [length]; lia).
    rewrite last_cons in HL. exact HL.
Qed.

(* ------------------------------------------------------------------------------------------ *)
(* the walk over the supplied chain *)
Lemma walk_sound : forall rest pl sc idx f pl' below top,
  walk sig_ok true pl sc (reset sc) rest idx f = inr (pl', below, top) ->
  Forall parsed rest -> Forall is_pass below ->
  steps sig_ok (sc :: rest) /\ pathlens pl (sc :: rest) /\ top = last rest sc /\
  pl' = (pl + Z.of_nat (length rest))%Z /\ Forall date_clear (removelast (sc :: rest)).
Proof.
  induction rest as [|ic rest IH]; intros pl sc idx f pl' below top H HP HB.
  - cbn in H. inversion H; subst. cbn. repeat split; auto. lia.
  - cbn [walk] in H.
    destruct (auth_one sig_ok true false sc ic (reset sc)) as [r s'] eqn:A.
    bdestr ((match r with Some rc => rc | None => c_PS_SUCCESS end <? c_PS_SUCCESS)%Z); [inversion H|].
    bdestr (negb (pathlen_check true ic sc pl)); [inversion H|]. b2p.
    destruct (walk sig_ok true (pl + 1) ic (reset ic) rest (S idx)
               match r with Some _ => f | None => FChain (S idx) end) as [[[rc' l] f'']|[[pl'' l] top']] eqn:W;
      inversion H; subst; clear H.
    inversion HB as [|s0 l0 Hs' Hl]; subst.
    inversion HP as [|c0 r0 Hic Hrest]; subst.
    destruct r as [rc|].
    + exfalso. apply auth_one_some_neg in A. destruct A as [A _]. unfold c_PS_SUCCESS in B. lia.
    + apply auth_one_pass in A; auto. destruct A as [HD [_ [CA L]]].
      destruct (IH _ _ _ _ _ _ _ W Hrest Hl) as [S1 [P1 [T1 [PL1 D1]]]].
      repeat split.
      * unfold step, issued_by. destruct L as [[L1 [L2 [L3 L4]]]|[_ L]]; [left|right; exact L].
        repeat split; auto.
      * exact S1.
      * apply pathlen_check_ok. exact B0.
      * exact P1.
      * subst top. symmetry. apply last_cons.
      * subst pl'. cbn [length]. lia.
      * change (removelast (sc :: ic :: rest)) with (sc :: removelast (ic :: rest)).
        constructor; [exact HD|exact D1].
Qed.

(* ------------------------------------------------------------------------------------------ *)
(* the loop over the trust anchors *)
Lemma anchor_loop_sound : forall anchors rv leaf pl sc s i rc s' eku f,
  anchor_loop sig_ok true rv leaf pl sc s anchors i = (rc, s', eku, f) ->
  rc = 0%Z -> is_pass s' -> fl s = c_fl0 sc -> Forall parsed anchors ->
  exists a, In a anchors /\ step sig_ok sc a /\ pathlen_ok sc a pl /\ date_clear sc /\ eku = false.
Proof.
  induction anchors as [|a more IH]; intros rv leaf pl sc s i rc s' eku f H Hrc HP Hfl HPa.
  - cbn in H. inversion H; subst. discriminate.
  - cbn [anchor_loop] in H.
    destruct (auth_one sig_ok true false sc a (set_st s 0)) as [r s1] eqn:A.
    inversion HPa as [|a0 m0 Ha Hmore]; subst a0 m0.
    bdestr ((match r with Some rc0 => rc0 | None => c_PS_SUCCESS end =? c_PS_SUCCESS)%Z).
    + destruct r as [rc0|].
      * exfalso. b2p. apply auth_one_some_neg in A. destruct A as [A _]. unfold c_PS_SUCCESS in B. lia.
      * bdestr (negb (pathlen_check true a sc pl)).
        { inversion H; subst. discriminate. }
        bdestr (rv && (c_date_now a <? 0)%Z).
        { inversion H; subst. discriminate. }
        match type of H with context[if ?b then _ else _] => bdestr b end.
        { inversion H; subst. discriminate. }
        bdestr (eku_bad leaf).
        { inversion H; subst. discriminate. }
        inversion H; subst. b2p.
        apply auth_one_pass in A; auto. destruct A as [HD [_ [CA L]]].
        exists a. split; [left; reflexivity|].
        cbn in HD. rewrite Hfl in HD.
        repeat split; auto.
        -- unfold step, issued_by. destruct L as [[L1 [L2 [L3 L4]]]|[_ L]]; [left|right; exact L].
           repeat split; auto.
        -- apply pathlen_check_ok. exact B0.
    + bdestr ((match r with Some rc0 => rc0 | None => c_PS_SUCCESS end =? c_PS_MEM_FAIL)%Z).
      * exfalso. b2p. destruct r as [rc0|]; [|discriminate B0].
        apply auth_one_some_neg in A. destruct A as [_ A]. contradiction.
      * assert (Hfl1 : fl s1 = c_fl0 sc).
        { destruct r as [rc0|].
          - apply auth_one_some_fl in A. rewrite A. cbn. exact Hfl.
          - b2p. contradiction. }
        destruct (IH _ _ _ _ _ _ _ _ _ _ H Hrc HP Hfl1 Hmore) as [a' [I R]].
        exists a'. split; [right; exact I|exact R].
Qed.

Lemma anchor_loop_eku : forall anchors fx rv leaf pl sc s i rc s' f,
  anchor_loop sig_ok fx rv leaf pl sc s anchors i = (rc, s', true, f) -> rc = c_PS_CERT_AUTH_FAIL_EXTENSION.
Proof.
  induction anchors as [|a more IH]; intros fx rv leaf pl sc s i rc s' f H.
  - cbn in H. inversion H.
  - cbn [anchor_loop] in H.
    destruct (auth_one sig_ok fx false sc a (set_st s 0)) as [r s1].
    repeat match type of H with context[if ?b then _ else _] => destruct b end;
      try (inversion H; subst; reflexivity); try (inversion H; fail).
    eapply IH; eauto.
Qed.

(* return code 0 from the anchor loop alone: the cryptographic link *)
Lemma anchor_loop_rc0 : forall anchors rv leaf pl sc s i s' eku f,
  anchor_loop sig_ok true rv leaf pl sc s anchors i = (0%Z, s', eku, f) -> Forall parsed anchors ->
  exists a, In a anchors /\ step_weak sig_ok sc a /\ pathlen_ok sc a pl.
Proof.
  induction anchors as [|a more IH]; intros rv leaf pl sc s i s' eku f H HPa.
  - cbn in H. inversion H.
  - cbn [anchor_loop] in H.
    destruct (auth_one sig_ok true false sc a (set_st s 0)) as [r s1] eqn:A.
    inversion HPa as [|a0 m0 Ha Hmore]; subst a0 m0.
    bdestr ((match r with Some rc0 => rc0 | None => c_PS_SUCCESS end =? c_PS_SUCCESS)%Z).
    + destruct r as [rc0|].
      * exfalso. b2p. apply auth_one_some_neg in A. destruct A as [A _]. unfold c_PS_SUCCESS in B. lia.
      * bdestr (negb (pathlen_check true a sc pl)); [inversion H|].
        b2p. apply auth_one_none in A. destruct A as [CA L].
        exists a. split; [left; reflexivity|]. split; [|apply pathlen_check_ok; exact B0].
        unfold step_weak, issued_by_weak. destruct L as [[L1 [L2 L3]]|[_ L]]; [left|right; exact L].
        repeat split; auto.
    + bdestr ((match r with Some rc0 => rc0 | None => c_PS_SUCCESS end =? c_PS_MEM_FAIL)%Z).
      * exfalso. b2p. destruct r as [rc0|]; [|discriminate B0].
        apply auth_one_some_neg in A. destruct A as [_ A]. contradiction.
      * destruct (IH _ _ _ _ _ _ _ _ _ H Hmore) as [a' [I R]].
        exists a'. split; [right; exact I|exact R].
Qed.

Lemma walk_rc0 : forall rest pl sc s idx f pl' below top,
  walk sig_ok true pl sc s rest idx f = inr (pl', below, top) -> Forall parsed rest ->
  steps_weak sig_ok (sc :: rest) /\ pathlens pl (sc :: rest) /\ top = last rest sc /\
  pl' = (pl + Z.of_nat (length rest))%Z.
Proof.
  induction rest as [|ic rest IH]; intros pl sc s idx f pl' below top H HP.
  - cbn in H. inversion H; subst. cbn. repeat split; auto. lia.
  - cbn [walk] in H.
    destruct (auth_one sig_ok true false sc ic s) as [r s'] eqn:A.
    bdestr ((match r with Some rc => rc | None => c_PS_SUCCESS end <? c_PS_SUCCESS)%Z); [inversion H|].
    bdestr (negb (pathlen_check true ic sc pl)); [inversion H|]. b2p.
    destruct (walk sig_ok true (pl + 1) ic (reset ic) rest (S idx)
               match r with Some _ => f | None => FChain (S idx) end) as [[[rc' l] f'']|[[pl'' l] top']] eqn:W;
      inversion H; subst; clear H.
    inversion HP as [|c0 r0 Hic Hrest]; subst.
    destruct r as [rc|].
    + exfalso. apply auth_one_some_neg in A. destruct A as [A _]. unfold c_PS_SUCCESS in B. lia.
    + apply auth_one_none in A. destruct A as [CA L].
      destruct (IH _ _ _ _ _ _ _ _ W Hrest) as [S1 [P1 [T1 PL1]]].
      repeat split.
      * unfold step_weak, issued_by_weak. destruct L as [[L1 [L2 L3]]|[_ L]]; [left|right; exact L].
        repeat split; auto.
      * exact S1.
      * apply pathlen_check_ok. exact B0.
      * exact P1.
      * subst top. symmetry. apply last_cons.
      * subst pl'. cbn [length]. lia.
Qed.

Lemma walk_inl_neg : forall rest fx pl sc s idx f rc l f',
  walk sig_ok fx pl sc s rest idx f = inl (rc, l, f') -> (rc < 0)%Z.
Proof.
  induction rest as [|ic rest IH]; intros fx pl sc s idx f rc l f' H.
  - cbn in H. inversion H.
  - cbn [walk] in H.
    destruct (auth_one sig_ok fx false sc ic s) as [r s'] eqn:A.
    bdestr ((match r with Some rc => rc | None => c_PS_SUCCESS end <? c_PS_SUCCESS)%Z).
    + inversion H; subst. b2p. unfold c_PS_SUCCESS in B. exact B.
    + bdestr (negb (pathlen_check fx ic sc pl)).
      * inversion H; subst. reflexivity.
      * destruct (walk sig_ok fx (pl + 1) ic (reset ic) rest (S idx)
               match r with Some _ => f | None => FChain (S idx) end) as [[[rc' l'] f'']|[[pl'' l'] top']] eqn:W;
          inversion H; subst. eapply IH; eauto.
Qed.

Lemma reval_cases : forall cs o l, reval_chain cs = (o, l) ->
  (o = None /\ Forall (fun c => c_date_now c = 0%Z /\ date_clear c) cs) \/
  o = Some c_PS_PARSE_FAIL \/ o = Some c_PS_CERT_AUTH_FAIL_EXTENSION.
Proof.
  induction cs as [|c r IH]; intros o l H.
  - cbn in H. inversion H. left. split; auto.
  - cbn [reval_chain] in H.
    bdestr (c_date_now c <? 0)%Z; [inversion H; auto|].
    bdestr (0 <? c_date_now c)%Z.
    + assert (X : has_flag (N.lor (c_fl0 c) DATE) DATE = true).
      { unfold has_flag. apply negb_true_iff. apply N.eqb_neq.
        rewrite N.land_lor_distr_l. intro E. apply N.lor_eq_0_iff in E. destruct E as [_ E]. discriminate E. }
      rewrite X in H. inversion H; auto.
    + bdestr (has_flag (c_fl0 c) DATE); [inversion H; auto|].
      destruct (reval_chain r) as [o' l'] eqn:R. inversion H; subst.
      destruct (IH _ _ eq_refl) as [[E F]|[E|E]]; auto.
      left. split; auto. constructor; auto. b2p. split; [lia|exact B1].
Qed.

Lemma Forall_removelast_last : forall (P : cert -> Prop) l d,
  l <> [] -> Forall P (removelast l) -> P (last l d) -> Forall P l.
Proof.
  intros P l d Hne HF HL. rewrite (app_removelast_last d Hne).
  apply Forall_app. split; auto.
Qed.

Lemma accepted_iff : forall r, accepted r = true <-> v_rc r = 0%Z /\ Forall is_pass (v_states r).
Proof.
  intros r. unfold accepted. rewrite andb_true_iff, forallb_forall, Forall_forall, Z.eqb_eq.
  unfold is_pass. split; intros [A B]; split; auto; intros x Hx; specialize (B x Hx); [apply Z.eqb_eq|apply Z.eqb_eq]; exact B.
Qed.

(* ------------------------------------------------------------------------------------------ *)
(* main soundness theorem (repaired code) *)
Theorem validate_sound : forall rv chain anchors,
  anchors <> [] -> Forall parsed (chain ++ anchors) -> hd_fresh chain ->
  accepted (validate sig_ok true rv chain anchors) = true ->
  genuine_path sig_ok rv chain anchors.
Proof.
  intros rv chain anchors Hne HP Hfresh Hacc.
  apply accepted_iff in Hacc. destruct Hacc as [Hrc Hst].
  destruct chain as [|leaf rest]; [cbn in Hrc; discriminate Hrc|].
  cbn in Hfresh.
  apply Forall_app in HP. destruct HP as [HPc HPa].
  inversion HPc as [|x y Hleaf HPr]; subst x y.
  unfold validate in Hrc, Hst.
  assert (RV : rv = true -> Forall (fun c => c_date_now c = 0%Z) (leaf :: rest)).
  { intros E. subst rv. destruct (reval_chain (leaf :: rest)) as [o l0] eqn:R.
    destruct (reval_cases _ _ _ R) as [[E F]|[E|E]]; subst o.
    - eapply Forall_impl; [|exact F]. intros c [X _]; exact X.
    - cbn in Hrc. discriminate Hrc.
    - cbn in Hrc. discriminate Hrc. }
  assert (CONT : (if rv then reval_chain (leaf :: rest) else (None, map init (leaf :: rest))) = (None, snd (if rv then reval_chain (leaf :: rest) else (None, map init (leaf :: rest))))).
  { destruct rv; [|reflexivity].
    destruct (reval_chain (leaf :: rest)) as [o l0] eqn:R.
    destruct (reval_cases _ _ _ R) as [[E F]|[E|E]]; subst o; [reflexivity| |]; cbn in Hrc; discriminate Hrc. }
  rewrite CONT in Hrc, Hst. clear CONT.
  destruct anchors as [|a0 more]; [contradiction|].
  assert (IL : init leaf = reset leaf) by (unfold init, reset; rewrite Hfresh; reflexivity).
  rewrite IL in Hrc, Hst.
  destruct (walk sig_ok true 0 leaf (reset leaf) rest 0 FNone) as [[[rc l] f]|[[pl below] top]] eqn:W.
  - exfalso. apply walk_inl_neg in W. cbn in Hrc. lia.
  - destruct (anchor_loop sig_ok true rv leaf pl top (init top) (a0 :: more) 0) as [[[rc stop] eku] f] eqn:AL.
    cbn in Hrc. subst rc.
    destruct eku.
    { apply anchor_loop_eku in AL. discriminate AL. }
    cbn in Hst. apply Forall_app in Hst. destruct Hst as [Hb Hs]. inversion Hs as [|x y Hstop _]; subst x y.
    destruct (walk_sound _ _ _ _ _ _ _ _ W HPr Hb) as [S1 [P1 [T1 [PL1 D1]]]].
    destruct (anchor_loop_sound _ _ _ _ _ _ _ _ _ _ _ AL eq_refl Hstop eq_refl HPa) as [a [Ia [Sa [Pa [Da _]]]]].
    exists a. split; [exact Ia|].
    unfold path_to. repeat split.
    + apply linked_snoc; [exact S1|]. rewrite <- T1. exact Sa.
    + apply pathlens_snoc; [exact P1|]. rewrite <- T1. rewrite <- PL1. exact Pa.
    + assert (DC : Forall date_clear (leaf :: rest)).
      { apply (Forall_removelast_last date_clear (leaf :: rest) leaf); [discriminate|exact D1|].
        rewrite last_cons. rewrite <- T1. exact Da. }
      apply Forall_forall. intros c Hc. unfold valid_now. split.
      * rewrite Forall_forall in DC. exact (DC c Hc).
      * intros E. specialize (RV E). rewrite Forall_forall in RV. exact (RV c Hc).
Qed.

(* what return code 0 alone guarantees: the signed path, not the soft checks *)
Theorem validate_rc0_signed_path : forall rv chain anchors,
  anchors <> [] -> Forall parsed (chain ++ anchors) ->
  v_rc (validate sig_ok true rv chain anchors) = 0%Z ->
  signed_path sig_ok chain anchors.
Proof.
  intros rv chain anchors Hne HP Hrc.
  destruct chain as [|leaf rest]; [cbn in Hrc; discriminate Hrc|].
  apply Forall_app in HP. destruct HP as [HPc HPa].
  inversion HPc as [|x y Hleaf HPr]; subst x y.
  unfold validate in Hrc.
  destruct (if rv then reval_chain (leaf :: rest) else (None, map init (leaf :: rest))) as [o l0] eqn:R.
  assert (o = None).
  { destruct rv.
    - destruct (reval_cases _ _ _ R) as [[E F]|[E|E]]; subst o; auto; cbn in Hrc; discriminate Hrc.
    - inversion R; reflexivity. }
  subst o.
  destruct anchors as [|a0 more]; [contradiction|].
  destruct (walk sig_ok true 0 leaf (init leaf) rest 0 FNone) as [[[rc l] f]|[[pl below] top]] eqn:W.
  - exfalso. apply walk_inl_neg in W. cbn in Hrc. lia.
  - destruct (anchor_loop sig_ok true rv leaf pl top (init top) (a0 :: more) 0) as [[[rc stop] eku] f] eqn:AL.
    cbn in Hrc. subst rc.
    destruct (walk_rc0 _ _ _ _ _ _ _ _ _ W HPr) as [S1 [P1 [T1 PL1]]].
    destruct (anchor_loop_rc0 _ _ _ _ _ _ _ _ _ _ AL HPa) as [a [Ia [Sa Pa]]].
    exists a. split; [exact Ia|]. split.
    + apply linked_snoc; [exact S1|]. rewrite <- T1. exact Sa.
    + apply pathlens_snoc; [exact P1|]. rewrite <- T1. rewrite <- PL1. exact Pa.
Qed.

(* ------------------------------------------------------------------------------------------ *)
(* no trust anchors: the chain authenticates itself and must end self-signed *)
Lemma cm_walk_sound : forall rest sc idx rc l f,
  cm_walk sig_ok true sc rest idx = (rc, l, f) -> rc = 0%Z -> Forall is_pass l -> Forall parsed rest ->
  steps sig_ok (sc :: rest) /\ self_signed sig_ok (last rest sc) /\ Forall date_clear (sc :: rest).
Proof.
  induction rest as [|ic rest IH]; intros sc idx rc l f H Hrc HPs HPa.
  - cbn [cm_walk] in H.
    destruct (auth_one sig_ok true true sc sc (reset sc)) as [r s'] eqn:A.
    destruct r as [rc0|]; inversion H; subst.
    + exfalso. apply auth_one_some_neg in A. lia.
    + inversion HPs as [|x y Hs _]; subst x y.
      apply auth_one_pass in A; auto. destruct A as [HD [_ [_ L]]].
      destruct L as [[L1 [L2 _]]|[L _]]; [|discriminate L].
      cbn. repeat split; auto.
  - cbn [cm_walk] in H.
    destruct (auth_one sig_ok true false sc ic (reset sc)) as [r s'] eqn:A.
    destruct r as [rc0|].
    + inversion H; subst. exfalso. apply auth_one_some_neg in A. lia.
    + destruct (cm_walk sig_ok true ic rest (S idx)) as [[rc' l'] f'] eqn:W. inversion H; subst.
      inversion HPs as [|x y Hs Hl]; subst x y.
      inversion HPa as [|x y Hic Hrest]; subst x y.
      destruct (IH _ _ _ _ _ W eq_refl Hl Hrest) as [S1 [SS D1]].
      apply auth_one_pass in A; auto. destruct A as [HD [_ [CA L]]].
      split; [|split].
      * split; [|exact S1].
        unfold step, issued_by. destruct L as [[L1 [L2 [L3 L4]]]|[_ L]]; [left|right; exact L].
        repeat split; auto.
      * rewrite last_cons. exact SS.
      * constructor; [exact HD|exact D1].
Qed.

Theorem validate_noanchor_sound : forall rv chain,
  Forall parsed chain -> accepted (validate sig_ok true rv chain []) = true ->
  self_contained sig_ok chain /\ Forall (valid_now rv) chain.
Proof.
  intros rv chain HP Hacc.
  apply accepted_iff in Hacc. destruct Hacc as [Hrc Hst].
  destruct chain as [|leaf rest]; [cbn in Hrc; discriminate Hrc|].
  inversion HP as [|x y Hleaf HPr]; subst x y.
  unfold validate in Hrc, Hst.
  destruct (if rv then reval_chain (leaf :: rest) else (None, map init (leaf :: rest))) as [o l0] eqn:R.
  assert (RV : o = None /\ (rv = true -> Forall (fun c => c_date_now c = 0%Z) (leaf :: rest))).
  { destruct rv.
    - destruct (reval_cases _ _ _ R) as [[E F]|[E|E]]; subst o; try (cbn in Hrc; discriminate Hrc).
      split; auto. intros _. eapply Forall_impl; [|exact F]. intros c [X _]; exact X.
    - inversion R. split; auto. discriminate. }
  destruct RV as [E RV]. subst o.
  destruct (cm_walk sig_ok true leaf rest 0) as [[rc l] f] eqn:W.
  cbn in Hrc, Hst. subst rc.
  destruct (cm_walk_sound _ _ _ _ _ _ W eq_refl Hst HPr) as [S1 [SS D1]].
  split.
  - unfold self_contained. split; [exact S1|]. rewrite last_cons. exact SS.
  - apply Forall_forall. intros c Hc. split.
    + rewrite Forall_forall in D1. exact (D1 c Hc).
    + intros Erv. specialize (RV Erv). rewrite Forall_forall in RV. exact (RV c Hc).
Qed.

(* ------------------------------------------------------------------------------------------ *)
(* converse direction *)
Definition pass_state (c : cert) : cst := mkCst PASS (c_fl0 c).

Lemma aki_check_ok : forall sc ic s, aki_ok sc ic -> aki_check sc ic s = s.
Proof.
  intros sc ic s H. unfold aki_check, f_DISABLE_AUTH_KEY_ID_CHECK.
  bdestr ((0 <? c_ak_len sc)%N || (0 <? c_sk_len ic)%N); [|reflexivity].
  bdestr (negb (c_sk_len ic =? c_ak_len sc)%N); b2p.
  - bdestr (c_sig sc =? c_sig ic)%N; b2p.
    + destruct H as [[H1 H2]|[[H1 H2]|[H1 H2]]].
      * exfalso. rewrite H1, H2 in B0. contradiction.
      * exfalso. symmetry in H1. contradiction.
      * rewrite H1. reflexivity.
    + exfalso. destruct H as [[H1 H2]|[[H1 H2]|[H1 H2]]].
      * rewrite H1, H2 in B0. contradiction.
      * symmetry in H1. contradiction.
      * contradiction.
  - bdestr (negb (c_sk_val ic =? c_ak_val sc)%N); [|reflexivity]. b2p. exfalso.
    destruct H as [[H1 H2]|[[H1 H2]|[H1 H2]]].
    + rewrite H1, H2 in B. discriminate B.
    + symmetry in H2. contradiction.
    + rewrite H1 in B0. rewrite H1, B0 in B. discriminate B.
Qed.

Lemma ku_check_ok : forall ic s, ku_supported ic -> ku_check ic s = (None, s).
Proof.
  intros ic s H. unfold ku_check.
  bdestr (N.land (c_ku ic) n_KEY_USAGE_KEY_CERT_SIGN =? 0)%N; [|reflexivity]. b2p.
  destruct H as [H|[H1 H2]]; [contradiction|].
  rewrite H1. cbn [N.eqb].
  bdestr (c_pre3280 ic =? 0)%Z; b2p; [lia|].
  bdestr (c_pre3280 ic <? 0)%Z; b2p; [lia|]. reflexivity.
Qed.

Lemma auth_one_link : forall sc ic s,
  issued_by sig_ok sc ic -> link_supported sc ic -> st s = 0%Z -> has_flag (fl s) DATE = false ->
  auth_one sig_ok true false sc ic s = (None, set_st s PASS).
Proof.
  intros sc ic s [I1 [I2 [I3 [I4 I5]]]] [L1 L2] H0 HD. unfold auth_one.
  unfold is_ca in I3. rewrite I3, Z.eqb_refl. cbn [negb andb]. rewrite andb_false_r. cbn [andb].
  rewrite I1, N.eqb_refl. cbn [negb].
  unfold not_revoked in I5. apply Z.eqb_neq in I5. rewrite I5, andb_false_r.
  rewrite I2. cbn [negb].
  rewrite (aki_check_ok _ _ _ L1), (ku_check_ok _ _ L2).
  rewrite (tail_clean _ H0 HD). reflexivity.
Qed.

Lemma auth_one_copy : forall sc ic s,
  same_cert sc ic -> c_iss sc <> c_subj ic -> is_ca ic -> st s = 0%Z -> has_flag (fl s) DATE = false ->
  auth_one sig_ok true false sc ic s = (None, set_st s PASS).
Proof.
  intros sc ic s [S1 S2] Hdn Hca H0 HD. unfold auth_one.
  unfold is_ca in Hca. rewrite Hca, Z.eqb_refl. cbn [negb andb]. rewrite andb_false_r. cbn [andb].
  apply N.eqb_neq in Hdn. rewrite Hdn. cbn [negb].
  unfold shortcut. rewrite S1, S2, !N.eqb_refl. cbn [negb andb].
  rewrite (tail_clean _ H0 HD). reflexivity.
Qed.

Lemma auth_one_unclaimed : forall sc a s, ~ claims sig_ok sc a ->
  exists rc s1, auth_one sig_ok true false sc a s = (Some rc, s1).
Proof.
  intros sc a s H. unfold auth_one.
  destruct ((c_ver a >? 1)%Z && negb (c_ca a =? c_CA_TRUE)%Z && negb false); [eauto|].
  bdestr (negb (c_iss sc =? c_subj a)%N).
  - bdestr (shortcut true false sc a); [|eauto].
    exfalso. apply H. right. unfold shortcut in B0. b2p. split; auto.
  - b2p. destruct (f_USE_CRL && (c_rev sc =? c_CRL_CHECK_REVOKED_AND_AUTHENTICATED)%Z); [eauto|].
    bdestr (negb (sig_ok (c_key a) (c_tbs sc) (c_sig sc) (c_alg sc))); [eauto|].
    exfalso. apply H. left. b2p. split; auto.
Qed.

Lemma last_in : forall (l : list cert) d, l <> [] -> In (last l d) l.
Proof.
  induction l as [|x l IH]; intros d H; [contradiction|].
  destruct l as [|y l]; [left; reflexivity|].
  right. change (last (x :: y :: l) d) with (last (y :: l) d). apply IH. discriminate.
Qed.

Lemma walk_complete' : forall rest pl sc idx f,
  links_supported sig_ok (sc :: rest) -> pathlens pl (sc :: rest) -> Forall date_clear (removelast (sc :: rest)) ->
  walk sig_ok true pl sc (reset sc) rest idx f =
  inr ((pl + Z.of_nat (length rest))%Z, map pass_state (removelast (sc :: rest)), last rest sc).
Proof.
  induction rest as [|ic rest IH]; intros pl sc idx f HL HP HD.
  - cbn. rewrite Z.add_0_r. reflexivity.
  - destruct HL as [[L1 L2] L3]. destruct HP as [P1 P2].
    change (removelast (sc :: ic :: rest)) with (sc :: removelast (ic :: rest)) in *.
    inversion HD as [|x y D1 D2]; subst x y.
    cbn [walk].
    rewrite (auth_one_link sc ic (reset sc) L1 L2 eq_refl D1).
    change ((c_PS_SUCCESS <? c_PS_SUCCESS)%Z) with false. cbn iota.
    rewrite (pathlen_ok_check _ _ _ P1). cbn [negb].
    rewrite (IH (pl + 1)%Z ic (S idx) (FChain (S idx)) L3 P2 D2).
    rewrite last_cons. cbn [map length]. f_equal. f_equal. f_equal. lia.
Qed.

Lemma anchor_loop_complete : forall before rv leaf pl top s a after i,
  fl s = c_fl0 top -> date_clear top -> Forall (fun a' => ~ claims sig_ok top a') before ->
  top_supported sig_ok top a -> pathlen_ok top a pl -> (rv = true -> valid_now rv a) -> eku_ok leaf ->
  anchor_loop sig_ok true rv leaf pl top s (before ++ a :: after) i =
  (0%Z, pass_state top, false, FAnchor (i + length before)).
Proof.
  induction before as [|b before IH]; intros rv leaf pl top s a after i Hfl HD HB HT HPl HV HE.
  - cbn [app anchor_loop].
    assert (A : auth_one sig_ok true false top a (set_st s 0) = (None, set_st (set_st s 0) PASS)).
    { destruct HT as [[T1 T2]|[T1 [T2 [T3 T4]]]].
      - apply auth_one_link; auto. cbn. rewrite Hfl. exact HD.
      - apply auth_one_copy; auto. cbn. rewrite Hfl. exact HD. }
    rewrite A. rewrite Z.eqb_refl.
    rewrite (pathlen_ok_check _ _ _ HPl). cbn [negb].
    assert (E1 : rv && (c_date_now a <? 0)%Z = false).
    { destruct rv; [|reflexivity]. destruct (HV eq_refl) as [_ V]. rewrite (V eq_refl). reflexivity. }
    rewrite E1.
    assert (E2 : rv && has_flag (if (0 <? c_date_now a)%Z then N.lor (c_fl0 a) DATE else c_fl0 a) DATE = false).
    { destruct rv; [|reflexivity]. destruct (HV eq_refl) as [V0 V]. rewrite (V eq_refl). cbn. exact V0. }
    rewrite E2.
    assert (E3 : eku_bad leaf = false).
    { unfold eku_bad. unfold eku_ok in HE. destruct (c_eku_crit leaf); [|reflexivity].
      apply N.eqb_neq. apply HE. reflexivity. }
    rewrite E3. unfold pass_state, set_st. cbn. rewrite Hfl, Nat.add_0_r. reflexivity.
  - inversion HB as [|x y HB1 HB2]; subst x y.
    cbn [app anchor_loop].
    destruct (auth_one_unclaimed top b (set_st s 0) HB1) as [rc [s1 A]].
    rewrite A.
    destruct (auth_one_some_neg _ _ _ _ _ _ _ A) as [N1 N2].
    assert (E1 : (rc =? c_PS_SUCCESS)%Z = false) by (apply Z.eqb_neq; unfold c_PS_SUCCESS; lia).
    assert (E2 : (rc =? c_PS_MEM_FAIL)%Z = false) by (apply Z.eqb_neq; exact N2).
    rewrite E1, E2.
    rewrite (IH rv leaf pl top s1 a after (S i)); auto.
    + cbn [length]. f_equal. f_equal. lia.
    + rewrite (auth_one_some_fl _ _ _ _ _ _ _ A). cbn. exact Hfl.
Qed.

Lemma reval_complete : forall cs, Forall (valid_now true) cs -> reval_chain cs = (None, map init cs).
Proof.
  induction cs as [|c r IH]; intros H; [reflexivity|].
  inversion H as [|x y [V0 V1] Hr]; subst x y.
  cbn [reval_chain]. rewrite (V1 eq_refl). cbn. rewrite V0. rewrite (IH Hr). reflexivity.
Qed.

Lemma Forall_pass_states : forall l, forallb (fun s => (st s =? PASS)%Z) (map pass_state l) = true.
Proof. induction l; cbn; auto. Qed.

Theorem validate_complete : forall rv chain before a after,
  supported_path sig_ok rv chain before a ->
  accepted (validate sig_ok true rv chain (before ++ a :: after)) = true.
Proof.
  intros rv chain before a after [leaf [below [top [Hc [Ht [HL [HT [HP [HV [HVa [HE [Hst HB]]]]]]]]]]]].
  subst chain.
  assert (RV : (if rv then reval_chain (leaf :: below) else (None, map init (leaf :: below))) = (None, map init (leaf :: below))).
  { destruct rv; [|reflexivity]. apply reval_complete. exact HV. }
  unfold validate. rewrite RV.
  destruct (before ++ a :: after) as [|a0 more] eqn:EA; [destruct before; discriminate EA|].
  rewrite <- EA. clear EA a0 more.
  assert (IL : init leaf = reset leaf) by (unfold init, reset; rewrite Hst; reflexivity).
  rewrite IL.
  assert (DC : Forall date_clear (leaf :: below)).
  { eapply Forall_impl; [|exact HV]. intros c [X _]. exact X. }
  assert (DCr : Forall date_clear (removelast (leaf :: below))).
  { rewrite Forall_forall in *. intros c Hc. apply DC.
    rewrite (app_removelast_last leaf (l := leaf :: below)) by discriminate.
    apply in_or_app. left. exact Hc. }
  assert (PL : pathlens 0 (leaf :: below) /\ pathlen_ok top a (0 + Z.of_nat (length below))).
  { clear - HP Ht. revert HP. generalize 0%Z as k. revert leaf Ht.
    induction below as [|c below IH]; intros leaf Ht k HP.
    - cbn in *. subst top. rewrite Z.add_0_r. destruct HP as [HP _]. split; auto.
    - change ((leaf :: c :: below) ++ [a]) with (leaf :: ((c :: below) ++ [a])) in HP.
      destruct HP as [P1 P2]. rewrite last_cons in Ht.
      assert (Ht' : last (c :: below) c = top).
      { rewrite last_cons. rewrite <- Ht. symmetry. apply last_cons. }
      destruct (IH c Ht' (k + 1)%Z P2) as [Q1 Q2].
      split; [split; auto|].
      replace (k + Z.of_nat (length (c :: below)))%Z with (k + 1 + Z.of_nat (length below))%Z by (cbn [length]; lia).
      exact Q2. }
  destruct PL as [PL1 PL2].
  rewrite (walk_complete' below 0 leaf 0 FNone HL PL1 DCr).
  assert (Ttop : last below leaf = top) by (rewrite <- Ht; symmetry; apply last_cons).
  rewrite Ttop.
  assert (Dtop : date_clear top).
  { rewrite Forall_forall in DC. apply DC. rewrite <- Ht. apply last_in. discriminate. }
  rewrite (anchor_loop_complete before rv leaf _ top (init top) a after 0 eq_refl Dtop HB HT PL2 HVa HE).
  unfold accepted. cbn [v_rc v_states]. rewrite Z.eqb_refl. cbn [andb].
  rewrite forallb_app. rewrite Forall_pass_states. cbn. reflexivity.
Qed.

End Proofs.

(* ------------------------------------------------------------------------------------------ *)
(* parse-time gate *)
Theorem parse_gate_sound : forall d, parse_gate true d = true -> gate_demands d.
Proof.
  intros d H. unfold parse_gate, sha1_rejected, f_ALLOW_VERSION_1_ROOT_CERT_PARSE,
    f_ALLOW_UNKNOWN_CRITICAL_EXTENSIONS, f_ENABLE_SHA1_SIGNED_CERTS in H.
  rewrite orb_false_r in H. b2p.
  unfold gate_demands. repeat split; auto.
  apply orb_true_iff in H0. destruct H0 as [E|E]; [left; exact E|right].
  rewrite negb_involutive in E. b2p. auto.
Qed.

Theorem parse_gate_complete : forall d, gate_demands d -> parse_gate true d = true.
Proof.
  intros d [V [U [A S]]]. unfold parse_gate, sha1_rejected, f_ALLOW_VERSION_1_ROOT_CERT_PARSE,
    f_ALLOW_UNKNOWN_CRITICAL_EXTENSIONS, f_ENABLE_SHA1_SIGNED_CERTS.
  rewrite V, U, <- A, N.eqb_refl. cbn [Z.eqb negb orb andb Pos.eqb].
  destruct S as [S|[S1 [S2 S3]]]; [rewrite S; reflexivity|].
  rewrite S1, S2, S3, !N.eqb_refl. cbn. apply orb_true_r.
Qed.

Theorem parse_gate_iff : forall d, parse_gate true d = true <-> gate_demands d.
Proof. intros d; split; [exact (parse_gate_sound d)|exact (parse_gate_complete d)]. Qed.

(* the pinned SHA-1 rule lets a SHA-1 signed certificate through whenever the two common names
   differ in LENGTH (e.g. testkeys/RSA/2048_RSA_SHA1.pem) *)
Definition w_sha1 : pdesc := mkPdesc 2 n_OID_SHA1_RSA_SIG n_OID_SHA1_RSA_SIG 34 1 44 2 false.
Theorem parse_gate_pinned_refuted : exists d, parse_gate false d = true /\ ~ gate_demands d.
Proof.
  exists w_sha1. split; [vm_compute; reflexivity|].
  intros [_ [_ [_ [S|[_ [S _]]]]]]; vm_compute in S; discriminate S.
Qed.

(* ------------------------------------------------------------------------------------------ *)
(* witnesses *)
Definition no_sig : N -> N -> N -> N -> bool := fun _ _ _ _ => false.
Definition all_sig : N -> N -> N -> N -> bool := fun _ _ _ _ => true.

(*                       subj iss tbs sig alg  key ver ca  pathlen ku  eku crit  ak    sk   rev p3 dn fl st *)
Definition w_leaf   := mkCert 1  9  10  21 1679 5   2  0   (-1)   224 6  false 0 0   0 0   6   0  0  0  0.
Definition w_anchor := mkCert 2  2  11  21 1679 7   2  255 (-1)   6   0  false 0 0   0 0   6   0  0  0  0.

(* pinned code: a leaf carrying a copy of the trust anchor's signature BYTES under a foreign issuer
   name is accepted even when no signature in the world verifies *)
Theorem validate_sound_pinned_refuted :
  exists sig_ok rv chain anchors,
    anchors <> [] /\ Forall parsed (chain ++ anchors) /\ hd_fresh chain /\
    accepted (validate sig_ok false rv chain anchors) = true /\
    ~ genuine_path sig_ok rv chain anchors.
Proof.
  exists no_sig, false, [w_leaf], [w_anchor].
  split; [discriminate|]. split; [repeat constructor|]. split; [reflexivity|].
  split; [vm_compute; reflexivity|].
  intros [a [Ia [[S _] _]]]. destruct Ia as [Ia|[]]. subst a.
  destruct S as [[_ [S _]]|[S _]]; vm_compute in S; discriminate S.
Qed.

Example witness_rejected_by_repaired_code : accepted (validate no_sig true false [w_leaf] [w_anchor]) = false.
Proof. vm_compute. reflexivity. Qed.

(* pinned code, no trust anchors: any single certificate "is self-signed" *)
Theorem validate_noanchor_pinned_refuted :
  exists sig_ok rv chain, Forall parsed chain /\
    accepted (validate sig_ok false rv chain []) = true /\ ~ self_contained sig_ok chain.
Proof.
  exists no_sig, false, [w_leaf]. split; [repeat constructor|]. split; [vm_compute; reflexivity|].
  intros [_ [S _]]. vm_compute in S. discriminate S.
Qed.

(* return code 0 does NOT mean every certificate passed (the lemma C04 would like):
   the date / keyUsage / key-identifier verdicts only live in authStatus *)
Definition w_leaf_dated := mkCert 1 2 10 20 1679 5 2 0 (-1) 224 6 false 0 0 0 0 6 0 0 8 0.
Definition w_root := mkCert 2 2 11 21 1679 7 2 255 (-1) 6 0 false 0 0 0 0 6 0 0 0 0.
Theorem status_consistent_refuted :
  exists sig_ok rv chain anchors,
    anchors <> [] /\ Forall parsed (chain ++ anchors) /\ hd_fresh chain /\
    v_rc (validate sig_ok true rv chain anchors) = 0%Z /\
    ~ Forall (fun s => st s = c_PS_CERT_AUTH_PASS) (v_states (validate sig_ok true rv chain anchors)).
Proof.
  exists all_sig, false, [w_leaf_dated], [w_root].
  split; [discriminate|]. split; [repeat constructor|]. split; [reflexivity|].
  split; [vm_compute; reflexivity|].
  intros H. vm_compute in H. inversion H as [|x y E _]. discriminate E.
Qed.

(* ------------------------------------------------------------------------------------------ *)
(* non-vacuity: the hypotheses of the two main theorems are satisfiable together *)
Definition key_sig : N -> N -> N -> N -> bool :=   (* TBS t is signed by key t+100, signature id 2t *)
  fun key tbs sg alg => (key =? tbs + 100)%N && (sg =? 2 * tbs)%N && (alg =? 1679)%N.
(*                      subj iss tbs sig alg  key ver ca  pathlen ku  eku crit  ak    sk     rev p3 dn fl st *)
Definition e_leaf  := mkCert 1  2  10  20 1679 5   2  0   (-1)   224 6  true  20 51 20 50  6   0  0  0  0.
Definition e_int   := mkCert 2  3  11  22 1679 110 2  255 0      6   0  false 20 52 20 51  6   0  0  0  0.
Definition e_root  := mkCert 3  3  12  24 1679 111 2  255 1      4   0  false 0  0  20 52  6   0  0  0  0.
Definition e_decoy := mkCert 3  3  13  26 1679 999 2  255 (-1)   6   0  false 0  0  20 52  6   0  0  0  0.

Example supported_example : supported_path key_sig true [e_leaf; e_int] [e_decoy] e_root.
Proof.
  exists e_leaf, [e_int], e_int.
  split; [reflexivity|]. split; [reflexivity|].
  split.
  { cbn. split; [|exact I]. split.
    - unfold issued_by, is_ca, ku_certsign, not_revoked. cbn. repeat split; try discriminate; auto.
    - unfold link_supported, aki_ok, ku_supported. cbn. split; [right; left; auto|left; discriminate]. }
  split.
  { left. split.
    - unfold issued_by, is_ca, ku_certsign, not_revoked. cbn. repeat split; try discriminate; auto.
    - unfold link_supported, aki_ok, ku_supported. cbn. split; [right; left; auto|left; discriminate]. }
  split.
  { cbn. unfold pathlen_ok, depth_below. cbn. repeat split; right; lia. }
  split.
  { repeat constructor; cbn; auto. }
  split.
  { intros _. split; cbn; auto. }
  split.
  { unfold eku_ok. cbn. discriminate. }
  split; [reflexivity|].
  constructor; [|constructor].
  intros [[_ C]|[C _]]; vm_compute in C; discriminate C.
Qed.

Example supported_example_accepted :
  accepted (validate key_sig true true [e_leaf; e_int] [e_decoy; e_root]) = true.
Proof. vm_compute. reflexivity. Qed.
