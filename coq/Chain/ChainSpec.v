(* C03 - what the property demands of chain validation, independent of the code's shape.

   "Certificate-chain validation reports success only if there is a path from the presented
    end-entity certificate to one of the caller's trust anchors in which each certificate's
    signature verifies under its issuer's public key with an enabled algorithm, each issuer is a CA
    (basicConstraints CA, keyCertSign when keyUsage is present, path length respected), each
    certificate below the trust anchor is inside its validity period now, no unrecognised critical
    extension occurs, and no certificate is revoked by an authenticated CRL the application loaded.
    Conversely a chain that meets these rules and uses only supported features is accepted."

   "Reports success" is the documented interface of matrixValidateCerts: return code 0 AND every
   supplied certificate's authStatus = PS_CERT_AUTH_PASS (ChainModel.accepted). *)
From Coq Require Import List ZArith NArith Bool.
From MV Require Import Gen.Consts Gen.ConstsChain Chain.ChainModel.
Import ListNotations.

Section Spec.
Variable sig_ok : N -> N -> N -> N -> bool.
Variable K : list crl.        (* the CRLs the application has loaded, in cache order, before validation *)

(* what the parser guarantees about every certificate that reaches the validator (parse_gate):
   X.509 v3.  Unknown critical extensions and disabled algorithms never get this far. *)
Definition parsed (c : cert) : Prop := c_ver c = 2%Z.

Definition is_ca (c : cert) : Prop := c_ca c = c_CA_TRUE.
(* keyCertSign when keyUsage is present *)
Definition ku_certsign (c : cert) : Prop :=
  c_ku c <> 0%N -> N.land (c_ku c) n_KEY_USAGE_KEY_CERT_SIGN <> 0%N.

(* Revocation.  A certificate is identified by (issuer name, serial number); the serial number is the
   INTEGER value, which for DER (minimal two's-complement content octets - assumed of every certificate
   and CRL entry, neither parser enforces it) is the same as equality of the content octets: 00 C4 and C4
   are different numbers (196 and -60), 00 C4 and 00 00 C4 would be the same number but the second is not DER.
   The CRL that speaks for an issuer name is the first one in the cache with that name (the library never
   looks further); it counts when the application (or an earlier validation) authenticated it and it is
   current: not marked expired and nextUpdate not over. *)
Definition crl_for (c : cert) : option crl := find (fun r => (r_iss r =? c_iss c)%N) K.
Definition crl_current (r : crl) : Prop := r_expired r = false /\ (0 <= r_next r)%Z.
Definition listed (c : cert) (r : crl) : Prop := existsb (serial_eq (c_serial c)) (r_serials r) = true.
Definition revoked_in (c : cert) : Prop :=
  exists r, crl_for c = Some r /\ r_auth r = true /\ crl_current r /\ listed c r.
Definition not_revoked (c : cert) : Prop := ~ revoked_in c.
(* nothing at all is said about the certificate by the CRL that speaks for its issuer *)
Definition not_listed (c : cert) : Prop := forall r, crl_for c = Some r -> ~ listed c r.
(* at most one cached CRL per issuer name (what psCRL_Update maintains), none of them stale:
   then "the first one" is "the one", and revoked_in is the property's clause word for word *)
Definition cache_tidy : Prop :=
  NoDup (map r_iss K) /\ Forall crl_current K.
Definition revoked_by_loaded_crl (c : cert) : Prop :=
  exists r, In r K /\ r_iss r = c_iss c /\ r_auth r = true /\ listed c r.

(* [ic] genuinely issued [sc] *)
Definition issued_by (sc ic : cert) : Prop :=
  c_iss sc = c_subj ic /\
  sig_ok (c_key ic) (c_tbs sc) (c_sig sc) (c_alg sc) = true /\
  is_ca ic /\ ku_certsign ic /\ not_revoked sc.

(* [sc] is a copy of the certificate [ic]: same TBSCertificate digest and same signature value.
   A copy stands for the certificate itself (peer repeats a certificate, or the application
   trusts an intermediate directly and the peer sends it). *)
Definition same_cert (sc ic : cert) : Prop := c_tbs sc = c_tbs ic /\ c_sig sc = c_sig ic.

Definition step (sc ic : cert) : Prop := issued_by sc ic \/ same_cert sc ic.

(* every certificate of the list is related to the next one *)
Fixpoint linked (R : cert -> cert -> Prop) (p : list cert) : Prop :=
  match p with
  | sc :: ((ic :: _) as r) => R sc ic /\ linked R r
  | _ => True
  end.
Definition steps (p : list cert) : Prop := linked step p.

(* path length: [k] certificates (not counting the end entity) lie below [sc]'s issuer [ic];
   an immediately repeated certificate is counted once *)
Definition depth_below (sc ic : cert) (k : Z) : Z :=
  if (c_tbs sc =? c_tbs ic)%N && (c_sig sc =? c_sig ic)%N && (k >? 0)%Z then (k - 1)%Z else k.
Definition pathlen_ok (sc ic : cert) (k : Z) : Prop :=
  (c_pathlen ic < 0)%Z \/ (depth_below sc ic k <= c_pathlen ic)%Z.
Fixpoint pathlens (k : Z) (p : list cert) : Prop :=
  match p with
  | sc :: ((ic :: _) as r) => pathlen_ok sc ic k /\ pathlens (k + 1) r
  | _ => True
  end.

(* inside the validity period: the verdict recorded when the certificate was parsed and, when the
   caller asks for re-validation, the verdict now *)
Definition valid_now (rv : bool) (c : cert) : Prop :=
  has_flag (c_fl0 c) n_PS_CERT_AUTH_FAIL_DATE_FLAG = false /\ (rv = true -> c_date_now c = 0%Z).

Definition path_to (rv : bool) (chain : list cert) (a : cert) : Prop :=
  steps (chain ++ [a]) /\ pathlens 0 (chain ++ [a]) /\ Forall (valid_now rv) chain.

Definition genuine_path (rv : bool) (chain anchors : list cert) : Prop :=
  exists a, In a anchors /\ path_to rv chain a.

(* what return code 0 alone guarantees (needed by C04): the cryptographic path - names,
   signatures, CA flags, revocation, path length - but not keyUsage, key identifiers or dates *)
Definition issued_by_weak (sc ic : cert) : Prop :=
  c_iss sc = c_subj ic /\ sig_ok (c_key ic) (c_tbs sc) (c_sig sc) (c_alg sc) = true /\ is_ca ic /\ not_revoked sc.
Definition step_weak (sc ic : cert) : Prop := issued_by_weak sc ic \/ same_cert sc ic.
Definition steps_weak (p : list cert) : Prop := linked step_weak p.
Definition signed_path (chain anchors : list cert) : Prop :=
  exists a, In a anchors /\ steps_weak (chain ++ [a]) /\ pathlens 0 (chain ++ [a]).

(* no trust anchors given: the function only checks that the chain is consistent and ends in a
   genuinely self-signed certificate (no trust is implied; the TLS layer answers unknown_ca) *)
Definition self_signed (c : cert) : Prop :=
  c_iss c = c_subj c /\ sig_ok (c_key c) (c_tbs c) (c_sig c) (c_alg c) = true.
Definition self_contained (chain : list cert) : Prop :=
  match chain with
  | [] => False
  | c :: _ => steps chain /\ self_signed (last chain c)
  end.

(* ------------------------------------------------------------------------------------------ *)
(* supported features, for the converse direction *)

(* authority / subject key identifiers agree (both absent, or equal; a self-signed root that omits
   its authority key identifier is the one tolerated asymmetry) *)
Definition aki_ok (sc ic : cert) : Prop :=
  (c_ak_len sc = 0%N /\ c_sk_len ic = 0%N) \/
  (c_ak_len sc = c_sk_len ic /\ c_ak_val sc = c_sk_val ic) \/
  (c_ak_len sc = 0%N /\ c_sig sc = c_sig ic).
(* CA certificates carry keyUsage (mandatory since RFC 3280) unless issued before it *)
Definition ku_supported (ic : cert) : Prop :=
  N.land (c_ku ic) n_KEY_USAGE_KEY_CERT_SIGN <> 0%N \/ (c_ku ic = 0%N /\ (0 < c_pre3280 ic)%Z).
Definition link_supported (sc ic : cert) : Prop := aki_ok sc ic /\ ku_supported ic.

Definition eku_ok (leaf : cert) : Prop :=
  c_eku_crit leaf = true ->
  N.land (c_eku leaf) (N.lor n_EXT_KEY_USAGE_TLS_SERVER_AUTH n_EXT_KEY_USAGE_TLS_CLIENT_AUTH) <> 0%N.

Definition links_supported (p : list cert) : Prop :=
  linked (fun sc ic => issued_by sc ic /\ link_supported sc ic) p.

(* an anchor that answers for [top] in the issuer loop: the first one that does decides *)
Definition claims (top a : cert) : Prop :=
  (c_iss top = c_subj a /\ sig_ok (c_key a) (c_tbs top) (c_sig top) (c_alg top) = true) \/ same_cert top a.

(* the last link: signed by the anchor, or the top certificate is a copy of a trusted
   non-self-issued CA certificate *)
Definition top_supported (top a : cert) : Prop :=
  (issued_by top a /\ link_supported top a) \/
  (same_cert top a /\ c_iss top <> c_subj a /\ is_ca a).

Definition supported_path (rv : bool) (chain : list cert) (before : list cert) (a : cert) : Prop :=
  exists leaf below top,
    chain = leaf :: below /\ last chain leaf = top /\
    links_supported chain /\ top_supported top a /\
    pathlens 0 (chain ++ [a]) /\ Forall (valid_now rv) chain /\ Forall not_listed chain /\
    (rv = true -> valid_now rv a) /\
    eku_ok leaf /\ c_st0 leaf = 0%Z /\
    Forall (fun a' => ~ claims top a') before.

End Spec.

(* the leaf has not been through an earlier validation (authStatus 0 as the parser leaves it) *)
Definition hd_fresh (chain : list cert) : Prop :=
  match chain with c :: _ => c_st0 c = 0%Z | [] => True end.

(* what a DER certificate must look like to get past psX509ParseCert, and all it must look like
   as far as version, algorithms and critical extensions go *)
Definition gate_demands (d : pdesc) : Prop :=
  p_ver d = 2%Z /\ p_unk_crit d = false /\ p_alg_in d = p_alg_out d /\
  (alg_sha2 (p_alg_in d) = true \/
   (alg_sha1 (p_alg_in d) = true /\ p_cn_s_len d = p_cn_i_len d /\ p_cn_s d = p_cn_i d)).
