(* Receive loop of the public API (matrixssl/matrixsslApi.c matrixSslReceivedData /
   matrixSslProcessedData) and the send side (matrixSslGetOutdata / matrixSslSentData), over an
   abstract record decoder.  Property C18: what a session does is a function of the byte stream,
   not of how the stream is cut into receive calls or how the output buffer is drained.

   The decoder is a parameter [dec : sigma -> bytes -> dres]:
     Partial          - SSL_PARTIAL: no complete record at the front of the buffer
     Step n ev s' k   - consumed n bytes (one or more whole records), reported events ev,
                        new decoder state s'; k says whether the loop continues decoding
                        (MATRIXSSL_SUCCESS with data left / app data / alert) or stops with a response
                        that empties the input buffer (SSL_SEND_RESPONSE: ssl->inlen = 0). *)
From Coq Require Export List Arith Lia Bool.
Export ListNotations.

Section Api.
Variable byte : Type.
Variable sigma : Type.      (* decoder (session) state *)
Variable event : Type.

Inductive cont := Continue | RespondDropRest.
Inductive dres :=
| Partial
| Step (n : nat) (ev : list event) (s' : sigma) (k : cont).

Variable dec : sigma -> list byte -> dres.

Record api := { ast : sigma; inbuf : list byte }.

(* DECODE_MORE loop on the bytes currently buffered; fuel = number of buffered bytes + 1 *)
Fixpoint drain (fuel : nat) (s : sigma) (buf : list byte) : api * list event :=
  match fuel with
  | O => ({| ast := s; inbuf := buf |}, [])
  | S f =>
    match buf with
    | [] => ({| ast := s; inbuf := [] |}, [])
    | _ =>
      match dec s buf with
      | Partial => ({| ast := s; inbuf := buf |}, [])
      | Step n ev s' Continue =>
          let '(a, evs) := drain f s' (skipn n buf) in (a, ev ++ evs)
      | Step n ev s' RespondDropRest => ({| ast := s'; inbuf := [] |}, ev)
      end
    end
  end.

(* one matrixSslReceivedData call (with the ProcessedData re-entries folded in) *)
Definition recv (a : api) (chunk : list byte) : api * list event :=
  let buf := inbuf a ++ chunk in drain (S (length buf)) (ast a) buf.

Fixpoint feed (a : api) (chunks : list (list byte)) : api * list event :=
  match chunks with
  | [] => (a, [])
  | c :: cs => let '(a1, e1) := recv a c in let '(a2, e2) := feed a1 cs in (a2, e1 ++ e2)
  end.

(* ---- send side: outbuf drained by arbitrary partial sends (matrixSslSentData compaction) *)
Fixpoint send_all (outbuf : list byte) (takes : list nat) : list byte * list byte :=
  (* returns (bytes put on the wire so far, bytes still queued) *)
  match takes with
  | [] => ([], outbuf)
  | t :: ts =>
      let n := Nat.min t (length outbuf) in
      let '(w, rest) := send_all (skipn n outbuf) ts in (firstn n outbuf ++ w, rest)
  end.
End Api.

Arguments Partial {sigma event}.
Arguments Step {sigma event}.
Arguments ast {byte sigma}.
Arguments inbuf {byte sigma}.
Arguments Build_api {byte sigma}.
Arguments drain {byte sigma event}.
Arguments recv {byte sigma event}.
Arguments feed {byte sigma event}.
Arguments send_all {byte}.
