From MV Require Import Api.ApiModel.

Section ApiProofs.
Variable byte : Type.
Variable sigma : Type.
Variable event : Type.
Variable dec : sigma -> list byte -> dres sigma event.

Notation drain' := (drain dec).
Notation recv' := (recv dec).
Notation feed' := (feed dec).
Notation api' := (api byte sigma).

(* ---- the decoder contract (validated against matrixSslDecode by the correspondence run) *)
(* Hconsume: a decoded step consumes at least one and at most the available bytes *)
Definition Hconsume := forall s buf n ev s' k, dec s buf = Step n ev s' k -> 0 < n <= length buf.
(* Hframe: the result depends only on the complete record(s) at the front of the buffer *)
Definition Hframe := forall s buf n ev s' k extra,
  dec s buf = Step n ev s' k -> dec s (buf ++ extra) = Step n ev s' k.

(* a response that empties the input buffer only happens when nothing follows it in the bytes
   received so far: the peer waits for the answer (lock-step flights) *)
Fixpoint drop_free (fuel : nat) (s : sigma) (buf : list byte) : bool :=
  match fuel with
  | O => true
  | S f =>
    match buf with
    | [] => true
    | _ =>
      match dec s buf with
      | Partial => true
      | Step n ev s' Continue => drop_free f s' (skipn n buf)
      | Step n ev s' RespondDropRest => Nat.eqb n (length buf)
      end
    end
  end.

Hypothesis HC : Hconsume.
Hypothesis HF : Hframe.

Lemma drain_fuel : forall f1 f2 s buf, length buf < f1 -> length buf < f2 -> drain' f1 s buf = drain' f2 s buf.
Proof.
  induction f1 as [|f1 IH]; intros f2 s buf H1 H2; [lia|].
  destruct f2 as [|f2]; [lia|]. cbn [drain].
  destruct buf as [|b buf']; [reflexivity|].
  destruct (dec s (b :: buf')) as [|n ev s' k] eqn:E; [reflexivity|].
  destruct k; [|reflexivity].
  pose proof (HC _ _ _ _ _ _ E) as Hn.
  rewrite (IH f2 s' (skipn n (b :: buf'))); [reflexivity| |]; rewrite skipn_length; lia.
Qed.

Lemma drop_free_fuel : forall f1 f2 s buf, length buf < f1 -> length buf < f2 -> drop_free f1 s buf = drop_free f2 s buf.
Proof.
  induction f1 as [|f1 IH]; intros f2 s buf H1 H2; [lia|].
  destruct f2 as [|f2]; [lia|]. cbn [drop_free].
  destruct buf as [|b buf']; [reflexivity|].
  destruct (dec s (b :: buf')) as [|n ev s' k] eqn:E; [reflexivity|].
  destruct k; [|reflexivity].
  pose proof (HC _ _ _ _ _ _ E) as Hn.
  apply IH; rewrite skipn_length; lia.
Qed.

Lemma drain_inbuf_len : forall f s buf, length (inbuf (fst (drain' f s buf))) <= length buf.
Proof.
  induction f as [|f IH]; intros s buf; cbn [drain]; [cbn; lia|].
  destruct buf as [|b buf']; [cbn; lia|].
  destruct (dec s (b :: buf')) as [|n ev s' k] eqn:E; [cbn; lia|].
  destruct k; [|cbn; lia].
  specialize (IH s' (skipn n (b :: buf'))).
  destruct (drain' f s' (skipn n (b :: buf'))) as [a evs]. cbn [fst] in *.
  rewrite skipn_length in IH. lia.
Qed.

(* decoding [buf ++ extra] at once = decoding [buf], then continuing with the leftover and [extra] *)
Lemma drain_app : forall m buf, length buf <= m -> forall s extra f1 f2 f3,
  length (buf ++ extra) < f1 -> length buf < f2 -> length (buf ++ extra) < f3 ->
  drop_free f1 s (buf ++ extra) = true ->
  drain' f1 s (buf ++ extra) =
    let '(a1, e1) := drain' f2 s buf in
    let '(a2, e2) := drain' f3 (ast a1) (inbuf a1 ++ extra) in (a2, e1 ++ e2).
Proof.
  induction m as [|m IH]; intros buf Hm s extra f1 f2 f3 H1 H2 H3 Hd.
  - destruct buf; [|cbn in Hm; lia]. cbn [app] in *.
    destruct f2; [lia|]. cbn [drain inbuf ast app].
    rewrite (drain_fuel f1 f3 s extra) by assumption.
    destruct (drain' f3 s extra). reflexivity.
  - destruct buf as [|b buf'].
    { cbn [app] in *. destruct f2; [lia|]. cbn [drain inbuf ast app].
      rewrite (drain_fuel f1 f3 s extra) by assumption. destruct (drain' f3 s extra). reflexivity. }
    destruct f2 as [|f2]; [lia|]. cbn [drain].
    destruct (dec s (b :: buf')) as [|n ev s' k] eqn:E.
    + (* Partial on the short buffer: nothing consumed, everything is retried with the extra bytes *)
      cbn [inbuf ast].
      rewrite (drain_fuel f1 f3 s ((b :: buf') ++ extra)) by assumption.
      destruct (drain' f3 s ((b :: buf') ++ extra)). reflexivity.
    + pose proof (HC _ _ _ _ _ _ E) as Hn.
      pose proof (HF _ _ _ _ _ _ extra E) as E'.
      destruct f1 as [|f1]; [lia|].
      cbn [drain]. cbn [drop_free] in Hd.
      destruct ((b :: buf') ++ extra) as [|x rest] eqn:Eb; [discriminate|]. rewrite <- Eb in *.
      rewrite E' in *.
      destruct k.
      * (* Continue *)
        rewrite skipn_app in *. replace (n - length (b :: buf')) with 0 in * by lia. cbn [skipn] in *.
        assert (Hl : length (skipn n (b :: buf')) <= m) by (rewrite skipn_length; cbn [length] in *; lia).
        rewrite (IH (skipn n (b :: buf')) Hl s' extra f1 f2 f3); try assumption.
        -- destruct (drain' f2 s' (skipn n (b :: buf'))) as [a1 e1].
           destruct (drain' f3 (ast a1) (inbuf a1 ++ extra)) as [a2 e2]. rewrite app_assoc. reflexivity.
        -- rewrite ?app_length, ?skipn_length in *; cbn [length] in *; lia.
        -- rewrite skipn_length. lia.
        -- rewrite ?app_length, ?skipn_length in *; cbn [length] in *; lia.
      * (* RespondDropRest: by drop_free nothing follows *)
        apply Nat.eqb_eq in Hd. rewrite app_length in Hd.
        assert (extra = []) as Hx by (destruct extra; [reflexivity|cbn [length] in *; lia]). subst extra.
        cbn [inbuf ast app]. destruct f3; [lia|]. cbn [drain]. rewrite app_nil_r. reflexivity.
Qed.

Definition stream_ok (a : api') (stream : list byte) : Prop :=
  drop_free (S (length (inbuf a ++ stream))) (ast a) (inbuf a ++ stream) = true.

Lemma recv_app : forall a c1 c2, stream_ok a (c1 ++ c2) ->
  recv' a (c1 ++ c2) =
    let '(a1, e1) := recv' a c1 in let '(a2, e2) := recv' a1 c2 in (a2, e1 ++ e2).
Proof.
  intros a c1 c2 Hok. unfold recv, stream_ok in *. rewrite app_assoc in *.
  rewrite (drain_app (length (inbuf a ++ c1)) (inbuf a ++ c1) (le_n _) (ast a) c2
             _ (S (length (inbuf a ++ c1))) (S (length ((inbuf a ++ c1) ++ c2)))); try lia; try assumption.
  destruct (drain' (S (length (inbuf a ++ c1))) (ast a) (inbuf a ++ c1)) as [a1 e1] eqn:Ed.
  (* the second stage runs with fuel for the whole buffer; recv a1 c2 uses fuel for its own buffer *)
  assert (Hlen : length (inbuf a1 ++ c2) <= length ((inbuf a ++ c1) ++ c2)).
  { pose proof (drain_inbuf_len (S (length (inbuf a ++ c1))) (ast a) (inbuf a ++ c1)) as Hl.
    rewrite Ed in Hl. cbn [fst] in Hl. rewrite !app_length in *. lia. }
  rewrite (drain_fuel (S (length ((inbuf a ++ c1) ++ c2))) (S (length (inbuf a1 ++ c2)))); try lia.
  reflexivity.
Qed.

(* a prefix of an acceptable stream is acceptable, and so is the rest after the prefix was received *)
Lemma drop_free_app : forall m buf, length buf <= m -> forall s extra f1 f2,
  length (buf ++ extra) < f1 -> length buf < f2 ->
  drop_free f1 s (buf ++ extra) = true ->
  drop_free f2 s buf = true /\
  forall f3, length (inbuf (fst (drain' f2 s buf)) ++ extra) < f3 ->
    drop_free f3 (ast (fst (drain' f2 s buf))) (inbuf (fst (drain' f2 s buf)) ++ extra) = true.
Proof.
  induction m as [|m IH]; intros buf Hm s extra f1 f2 H1 H2 Hd.
  - destruct buf; [|cbn in Hm; lia]. destruct f2; [lia|]. cbn [drop_free drain fst inbuf ast app] in *.
    split; [reflexivity|]. intros f3 H3. rewrite (drop_free_fuel f3 f1); assumption.
  - destruct buf as [|b buf'].
    { destruct f2; [lia|]. cbn [drop_free drain fst inbuf ast app] in *.
      split; [reflexivity|]. intros f3 H3. rewrite (drop_free_fuel f3 f1); assumption. }
    destruct f2 as [|f2]; [lia|]. cbn [drop_free drain].
    destruct (dec s (b :: buf')) as [|n ev s' k] eqn:E.
    + cbn [fst inbuf ast]. split; [reflexivity|]. intros f3 H3. rewrite (drop_free_fuel f3 f1); assumption.
    + pose proof (HC _ _ _ _ _ _ E) as Hn.
      pose proof (HF _ _ _ _ _ _ extra E) as E'.
      destruct f1 as [|f1]; [lia|]. cbn [drop_free] in Hd.
      destruct ((b :: buf') ++ extra) as [|x rest] eqn:Eb; [discriminate|]. rewrite <- Eb in *.
      rewrite E' in Hd.
      destruct k.
      * rewrite skipn_app in Hd. replace (n - length (b :: buf')) with 0 in Hd by lia. cbn [skipn] in Hd.
        assert (Hl : length (skipn n (b :: buf')) <= m) by (rewrite skipn_length; cbn [length] in *; lia).
        destruct (IH (skipn n (b :: buf')) Hl s' extra f1 f2) as [I1 I2]; try assumption.
        -- rewrite ?app_length, ?skipn_length in *; cbn [length] in *; lia.
        -- rewrite skipn_length. lia.
        -- split; [assumption|]. intros f3 H3.
           destruct (drain' f2 s' (skipn n (b :: buf'))) as [a1 e1] eqn:Ed. cbn [fst] in *. apply I2. assumption.
      * apply Nat.eqb_eq in Hd. rewrite app_length in Hd.
        assert (extra = []) as Hx by (destruct extra; [reflexivity|cbn [length] in *; lia]). subst extra.
        split; [apply Nat.eqb_eq; lia|]. intros f3 H3. cbn [fst inbuf ast app]. destruct f3; reflexivity.
Qed.

Lemma stream_ok_split : forall a c1 c2, stream_ok a (c1 ++ c2) ->
  stream_ok a c1 /\ stream_ok (fst (recv' a c1)) c2.
Proof.
  intros a c1 c2 Hok. unfold stream_ok, recv in *. rewrite app_assoc in Hok.
  destruct (drop_free_app (length (inbuf a ++ c1)) (inbuf a ++ c1) (le_n _) (ast a) c2
              (S (length ((inbuf a ++ c1) ++ c2))) (S (length (inbuf a ++ c1))) ltac:(lia) ltac:(lia) Hok) as [H1 H2].
  split; [assumption|]. apply H2. lia.
Qed.

(* C18: any two ways of cutting the same byte stream into receive calls give the same events and
   leave the session (decoder state and undecoded remainder) in the same state *)
Theorem feed_concat : forall cs c a, stream_ok a (concat (c :: cs)) ->
  feed' a (c :: cs) = recv' a (concat (c :: cs)).
Proof.
  induction cs as [|c2 cs IH]; intros c a Hok.
  - cbn [feed concat]. rewrite app_nil_r. destruct (recv' a c) as [a1 e1]. rewrite app_nil_r. reflexivity.
  - change (concat (c :: c2 :: cs)) with (c ++ concat (c2 :: cs)) in *.
    rewrite recv_app by assumption.
    destruct (stream_ok_split a c (concat (c2 :: cs)) Hok) as [_ H2].
    change (feed' a (c :: c2 :: cs)) with (let '(a1, e1) := recv' a c in let '(a2, e2) := feed' a1 (c2 :: cs) in (a2, e1 ++ e2)).
    destruct (recv' a c) as [a1 e1]. cbn [fst] in H2. rewrite (IH c2 a1 H2). reflexivity.
Qed.

Definition fresh (s : sigma) : api' := {| ast := s; inbuf := [] |}.

Lemma feed_fresh_nil : forall s cs, concat cs = [] -> feed' (fresh s) cs = (fresh s, []).
Proof.
  intros s cs. induction cs as [|c cs IH]; intro H; [reflexivity|].
  cbn [concat] in H. apply app_eq_nil in H. destruct H as [Hc Hcs]. subst c.
  cbn [feed]. unfold recv at 1. cbn [fresh inbuf ast app length drain]. fold (fresh s). rewrite (IH Hcs). reflexivity.
Qed.

Theorem chunk_invariant : forall s cs cs',
  concat cs = concat cs' -> stream_ok (fresh s) (concat cs) ->
  feed' (fresh s) cs = feed' (fresh s) cs'.
Proof.
  intros s cs cs' Heq Hok.
  destruct cs as [|c cs].
  - cbn [concat] in Heq. symmetry in Heq. rewrite (feed_fresh_nil s cs' Heq). reflexivity.
  - destruct cs' as [|c' cs'].
    + change (concat (@nil (list byte))) with (@nil byte) in Heq. rewrite (feed_fresh_nil s (c :: cs) Heq). reflexivity.
    + rewrite (feed_concat cs c (fresh s) Hok). rewrite Heq in Hok. rewrite (feed_concat cs' c' (fresh s) Hok).
      rewrite Heq. reflexivity.
Qed.

(* ---- send side: whatever the pattern of partial sends, the wire sees the queued bytes in order, none lost or repeated *)
Theorem send_invariant : forall takes (outbuf : list byte),
  let '(w, rest) := send_all outbuf takes in w ++ rest = outbuf.
Proof.
  induction takes as [|t ts IH]; intro outbuf; cbn [send_all]; [reflexivity|].
  specialize (IH (skipn (Nat.min t (length outbuf)) outbuf)).
  destruct (send_all (skipn (Nat.min t (length outbuf)) outbuf) ts) as [w rest].
  rewrite <- app_assoc, IH. apply firstn_skipn.
Qed.
End ApiProofs.
