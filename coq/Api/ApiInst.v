(* A concrete decoder for the API loop: the table of decode steps logged from a canonical
   (one record per call) run of the real library.  Step i needs [t_n] bytes, reports [t_ev] and either
   lets the loop continue or answers with a response that empties the input buffer.  It satisfies the
   decoder contract, so it shows the hypotheses of C18's theorem are satisfiable, and it is the
   executable model the correspondence run compares with matrixSslReceivedData on re-chunked input. *)
From MV Require Import Api.ApiModel Api.ApiProofs.
From Coq Require Import NArith.

Record tentry := { t_n : nat; t_ev : list N; t_k : cont }.

Definition tdec (tab : list tentry) (i : nat) (buf : list unit) : dres nat N :=
  match nth_error tab i with
  | None => Partial
  | Some e => if (t_n e <=? length buf) && (0 <? t_n e) then Step (t_n e) (t_ev e) (S i) (t_k e) else Partial
  end.

Lemma tdec_consume tab : Hconsume unit nat N (tdec tab).
Proof.
  intros s buf n ev s' k H. unfold tdec in H. destruct (nth_error tab s) as [e|]; [|discriminate].
  destruct ((t_n e <=? length buf) && (0 <? t_n e)) eqn:E; [|discriminate].
  injection H as H1 _ _ _. subst n. apply andb_prop in E. destruct E as [E1 E2].
  apply Nat.leb_le in E1. apply Nat.ltb_lt in E2. lia.
Qed.

Lemma tdec_frame tab : Hframe unit nat N (tdec tab).
Proof.
  intros s buf n ev s' k extra H. unfold tdec in *. destruct (nth_error tab s) as [e|]; [|discriminate].
  destruct ((t_n e <=? length buf) && (0 <? t_n e)) eqn:E; [|discriminate].
  apply andb_prop in E. destruct E as [E1 E2]. apply Nat.leb_le in E1.
  assert (t_n e <=? length (buf ++ extra) = true) as E3 by (apply Nat.leb_le; rewrite app_length; lia).
  rewrite E3, E2. exact H.
Qed.

Theorem tdec_chunk_invariant : forall tab cs cs',
  concat cs = concat cs' -> stream_ok unit nat N (tdec tab) (fresh unit nat 0) (concat cs) ->
  feed (tdec tab) (fresh unit nat 0) cs = feed (tdec tab) (fresh unit nat 0) cs'.
Proof.
  intros tab cs cs' He Hok. apply (chunk_invariant unit nat N (tdec tab) (tdec_consume tab) (tdec_frame tab)); assumption.
Qed.

(* non-vacuity: a 3-step table (two silent handshake records, then one that answers), cut two ways *)
Definition u (n : nat) : list unit := repeat tt n.
Definition ex_tab := [ {| t_n := 9; t_ev := []; t_k := Continue |}; {| t_n := 20; t_ev := [7%N]; t_k := Continue |};
                       {| t_n := 6; t_ev := [1%N]; t_k := RespondDropRest |} ].
Example ex_ok : stream_ok unit nat N (tdec ex_tab) (fresh unit nat 0) (u 35).
Proof. vm_compute. reflexivity. Qed.
Example ex_same : snd (feed (tdec ex_tab) (fresh unit nat 0) [u 35]) = snd (feed (tdec ex_tab) (fresh unit nat 0) [u 1; u 10; u 3; u 20; u 1])
                  /\ snd (feed (tdec ex_tab) (fresh unit nat 0) [u 35]) = [7%N; 1%N].
Proof. vm_compute. split; reflexivity. Qed.
