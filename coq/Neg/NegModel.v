(* Executable, code-shaped model of MatrixSSL's parameter negotiation (property C07).
   C sources (functions cited at each definition):
     matrixssl/hsNegotiateVersion.c   psVerGetHighest/Lowest, checkClientHelloVersion, checkServerHelloVersion,
                                      tlsServerNegotiateVersion, checkSupportedVersions, performTls13DowngradeCheck
     matrixssl/tls13KeyAgree.c        tls13IntersectionPrioritySelect, tls13NegotiateGroup
     matrixssl/tls13DecodeExt.c       tls13ParseKeyShare (server), tls13ParseServerKeyShare, tls13ParseServerSupportedVersions,
                                      tls13ParseServerHelloExtensions
     matrixssl/tls13SigVer.c          tls13ChooseSigAlg (intersection step);  tls13Decode.c tls13ParseCertificateVerify, tls13ParseServerHello
     matrixssl/cipherSuite.c          sslGetCipherSpec, chooseCS/chooseCipherSuite, sslGetCipherSpecListExt, clientOfferedCipherSuite
     matrixssl/hsDecode.c             parseClientHello (SCSV, version, suite), parseServerHello
     matrixssl/extDecode.c            extended_master_secret handling in parseClientHelloExtensions / ServerHelloExt /
                                      parseServerHelloExtensions
   Versions are the library's internal bit identifiers (psProtocolVersion_t); a set of versions is the OR of its members.
   No proofs here: the model must still run when a proof breaks. *)
From Coq Require Export List NArith Bool Lia.
From MV Require Export Gen.ConstsNeg.
Export ListNotations.
Local Open Scope N_scope.

(* ------------------------------------------------------------------ results *)
Inductive res (A : Type) : Type :=
| Ok (a : A)
| Err (alert : N).            (* MATRIXSSL_ERROR with ssl->err = alert *)
Arguments Ok {A} a.
Arguments Err {A} alert.

Definition mem (x : N) (l : list N) : bool := existsb (N.eqb x) l.

(* ------------------------------------------------------------------ version sets (matrixssllib_version.h) *)
Definition has (set v : N) : bool := negb (N.land set v =? 0).          (* SUPP_VER / PEER_SUPP_VER / ACTV_VER: (set & v) != 0 *)
Definition ver_raw (v : N) : N := N.land v c_VER_RAW_MASK.              (* VER_GET_RAW *)
Definition ngtd (active v : N) : bool := has active v && has active c_v_tls_negotiated.     (* NGTD_VER *)
Definition set_ngtd (v : N) : N := N.lor v c_v_tls_negotiated.          (* SET_NGTD_VER *)
Definition set_of (l : list N) : N := fold_right N.lor 0 l.             (* ADD_SUPP_VER over the priority list *)

(* psVerFromEncoding: generated table, v_undefined when absent *)
Fixpoint assoc (k : N) (t : list (N * N)) : N :=
  match t with [] => 0 | (a, b) :: r => if a =? k then b else assoc k r end.
Definition ver_from_encoding (enc : N) : N := assoc enc c_ver_enc.

(* psVerGetHighest(ver, allowDtls): for (i = VER_MAX_BIT; i > 0; i--) - bit 0 is never looked at *)
Fixpoint highest_loop (fuel : nat) (mask ver : N) (allow_dtls : bool) : N :=
  match fuel with
  | O => 0
  | S f => if has ver mask && (allow_dtls || has mask c_v_tls_any) then mask
           else highest_loop f (N.div2 mask) ver allow_dtls
  end.
Definition ver_get_highest (ver : N) (allow_dtls : bool) : N :=
  highest_loop (N.to_nat c_VER_MAX_BIT) (N.shiftl 1 c_VER_MAX_BIT) (ver_raw ver) allow_dtls.
Definition ver_get_highest_tls (ver : N) : N := ver_get_highest ver false.

(* psVerGetLowest: for (i = 0; i <= VER_MAX_BIT; i++) *)
Fixpoint lowest_loop (fuel : nat) (mask ver : N) (allow_dtls : bool) : N :=
  match fuel with
  | O => 0
  | S f => if has ver mask && (allow_dtls || has mask c_v_tls_any) then mask
           else lowest_loop f (N.double mask) ver allow_dtls
  end.
Definition ver_get_lowest_tls (ver : N) : N := lowest_loop (S (N.to_nat c_VER_MAX_BIT)) 1 (ver_raw ver) false.

(* what the negotiation code reads of an endpoint: ssl->supportedVersions, ssl->supportedVersionsPriority[] *)
Record vcfg := { v_supp : N; v_prio : list N }.

(* ------------------------------------------------------------------ checkClientHelloVersion *)
Fixpoint legacy_loop (prio : list N) (client_highest : N) (wants_dtls : bool) : option N :=
  match prio with
  | [] => None
  | ver :: r =>
      let is_dtls := has ver c_v_dtls_any in
      if xorb wants_dtls is_dtls then legacy_loop r client_highest wants_dtls       (* never TLS <-> DTLS *)
      else if ver <? client_highest then Some ver
      else legacy_loop r client_highest wants_dtls
  end.

Definition check_client_hello_version (s : vcfg) (client_highest : N) : res N :=
  if has (v_supp s) client_highest then Ok client_highest
  else match legacy_loop (v_prio s) client_highest (has client_highest c_v_dtls_any) with
       | Some v => Ok v
       | None => Err c_SSL_ALERT_PROTOCOL_VERSION
       end.

(* ------------------------------------------------------------------ tls13IntersectionPrioritySelect(a, b, f)
   the two nested loops, in order; state = (minSum, best, foundCommon) *)
Definition ips_state := (nat * N * bool)%type.
Definition ips_step (f : list N) (ai : N) (i : nat) (st : ips_state) (kb : nat * N) : ips_state :=
  let '(k, bk) := kb in
  if (ai =? bk) && negb (mem ai f) then
    let '(ms, best, fnd) := st in
    if Nat.leb (i + k) ms then ((i + k)%nat, ai, true) else st
  else st.
Fixpoint indexed_from {A} (n : nat) (l : list A) : list (nat * A) :=
  match l with [] => [] | x :: r => (n, x) :: indexed_from (S n) r end.
Definition indexed {A} (l : list A) := indexed_from 0 l.
Definition ips_row (f b : list N) (st : ips_state) (ia : nat * N) : ips_state :=
  let '(i, ai) := ia in fold_left (ips_step f ai i) (indexed b) st.
Definition ips (a b f : list N) : option N :=
  match a, b with
  | [], _ => None                                   (* aLen == 0 || bLen == 0: PS_ARG_FAIL *)
  | _, [] => None
  | a0 :: _, _ =>
      let '(_, best, fnd) := fold_left (ips_row f b) (indexed a) ((length a + length b - 2)%nat, a0, false) in
      if fnd then Some best else None
  end.

(* ------------------------------------------------------------------ checkSupportedVersions
   peer = versions of the ClientHello's supported_versions (unknown encodings already dropped by
   tls13ParseSupportedVersions); got13 = gotTls13CiphersuiteInCH *)
Definition check_supported_versions (s : vcfg) (peer : vcfg) (got13 : bool) : res N :=
  if got13 && has (v_supp s) c_v_tls_1_3 && has (v_supp peer) c_v_tls_1_3 then Ok c_v_tls_1_3     (* "1.3 if both have it" *)
  else
    let forbidden := if got13 then c_forbidden_drafts else c_forbidden_no13suite in
    match ips (v_prio s) (v_prio peer) forbidden with
    | Some v => Ok v
    | None => Err c_SSL_ALERT_PROTOCOL_VERSION
    end.

(* the version part of a ClientHello as the server sees it *)
Record chv := { ch_legacy : N;                 (* psVerFromEncoding(client_version) *)
                ch_sv : option (list N) }.     (* supported_versions, decoded, unknown entries dropped *)
Definition peer_of (l : list N) : vcfg := {| v_supp := set_of l; v_prio := l |}.

(* tlsServerNegotiateVersion; parseClientHello computes the same (legacy result overridden by supported_versions) *)
Definition server_negotiate_version (s : vcfg) (c : chv) (got13 : bool) : res N :=
  match ch_sv c with
  | Some l => check_supported_versions s (peer_of l) got13
  | None => check_client_hello_version s (ch_legacy c)
  end.

(* ------------------------------------------------------------------ client: checkServerHelloVersion, performTls13DowngradeCheck *)
Definition check_server_hello_version (supp server_ver : N) : res N :=
  if has supp server_ver then Ok server_ver else Err c_SSL_ALERT_PROTOCOL_VERSION.

Definition we_only_support_tls13 (supp : N) : bool :=
  has supp c_v_tls_1_3_any && negb (has supp c_v_tls_1_0) && negb (has supp c_v_tls_1_1) && negb (has supp c_v_tls_1_2).

Fixpoint bytes_eq (a b : list N) : bool :=
  match a, b with
  | [], [] => true
  | x :: a', y :: b' => (x =? y) && bytes_eq a' b'
  | _, _ => false
  end.
Definition is_sentinel (tail : list N) : bool := bytes_eq tail c_sentinel_tls12 || bytes_eq tail c_sentinel_tls11.

(* tail = serverRandom[24..31] *)
Definition downgrade_check (supp : N) (tail : list N) : res unit :=
  if we_only_support_tls13 supp then Err c_SSL_ALERT_PROTOCOL_VERSION
  else if has supp c_v_tls_1_3 && is_sentinel tail then Err c_SSL_ALERT_ILLEGAL_PARAMETER
  else Ok tt.

(* ------------------------------------------------------------------ cipher suites *)
Record suite := { s_id : N; s_type : N; s_flags : N }.
Definition suite_table : list suite := map (fun t => match t with (i, ty, fl) => {| s_id := i; s_type := ty; s_flags := fl |} end) c_suites.
Definition null_suite : suite := {| s_id := c_SSL_NULL_WITH_NULL_NULL; s_type := c_CS_NULL; s_flags := 0 |}.   (* terminator entry *)
Definition hasf (s : suite) (fl : N) : bool := negb (N.land (s_flags s) fl =? 0).
Definition find_suite (id : N) : option suite :=
  match find (fun s => s_id s =? id) suite_table with
  | Some s => Some s
  | None => if id =? c_SSL_NULL_WITH_NULL_NULL then Some null_suite else None
  end.
Definition is_tls13_suite_id (id : N) : bool := mem id c_tls13_suite_ids.           (* isTls13Ciphersuite *)

(* what sslGetCipherSpec reads of a session *)
Record scfg := { g_server : bool;             (* SSL_FLAGS_SERVER *)
                 g_supp : N;                  (* supportedVersions *)
                 g_active : N;                (* activeVersion (with the negotiated bit) *)
                 g_disabled_global : list N;  (* idents whose bit is set in disabledCipherFlags *)
                 g_disabled : list N }.       (* ssl->disabledCiphers[] *)

(* sslGetCipherSpec(ssl, id); keyok = answer of haveKeyMaterial for the session's keys (asked for servers with keys only) *)
Definition get_cipher_spec (g : scfg) (keyok : N -> bool) (id : N) : option suite :=
  match find_suite id with
  | None => None
  | Some s =>
      if negb f_USE_MD5 && hasf s c_CRYPTO_FLAGS_MD5 then None
      else if negb f_USE_SHA1 && hasf s c_CRYPTO_FLAGS_SHA1 then None
      else if negb f_USE_SHA2 && hasf s c_CRYPTO_FLAGS_SHA2 then None
      else if negb f_USE_ARC4 && hasf s c_CRYPTO_FLAGS_ARC4INIT then None
      else if negb f_USE_3DES && hasf s c_CRYPTO_FLAGS_3DES then None
      else if mem id (g_disabled_global g) then None
      else if negb (id =? 0) && mem id (g_disabled g) then None
      else if negb (g_supp g =? 0) &&
              ((negb (has (g_supp g) c_v_tls_sha2) || ngtd (g_active g) c_v_tls_no_sha2)
                 && (hasf s c_CRYPTO_FLAGS_SHA3 || hasf s c_CRYPTO_FLAGS_SHA2)) then None
      else if negb (g_supp g =? 0) && ngtd (g_active g) c_v_tls_1_3_any
              && negb (s_type s =? c_CS_TLS13) && negb (s_type s =? c_CS_NULL) then None
      else if negb (g_supp g =? 0) && g_server g && negb (has (g_supp g) c_v_tls_1_3_any) && (s_type s =? c_CS_TLS13) then None
      else if negb (g_supp g =? 0) && ngtd (g_active g) (N.lor (N.lor c_v_dtls_1_2 c_v_tls_1_2) c_v_tls_1_3_any)
              && hasf s c_CRYPTO_FLAGS_MD5 then None
      else if g_server g && negb (keyok id) then None
      else Some s
  end.

(* chooseCS: walk the client's list in the client's order (no SNI, no pubkey callback, no HTTP2, no CS fallback);
   keyfit = haveCorrectKeyAlg && validateKeyForExtensions for one of the loaded identities *)
Fixpoint choose_suite (g : scfg) (keyok keyfit : N -> bool) (suites : list N) : option suite :=
  match suites with
  | [] => None
  | id :: r =>
      match get_cipher_spec g keyok id with
      | None => choose_suite g keyok keyfit r
      | Some s =>
          if ngtd (g_active g) c_v_tls_1_3_any then
            if s_type s =? c_CS_TLS13 then Some s else choose_suite g keyok keyfit r
          else if s_type s =? c_CS_TLS13 then choose_suite g keyok keyfit r
          else if s_type s =? c_CS_DH_ANON then Some s
          else if keyfit id then Some s
          else choose_suite g keyok keyfit r
      end
  end.

(* sslGetCipherSpecListExt: the client's default list (ckeyok = haveKeyMaterial for the client's CA material) *)
Definition default_suite_list (supp : N) (ckeyok : N -> bool) : list N :=
  map s_id (filter (fun s =>
      negb (negb (has supp c_v_tls_sha2) && (hasf s c_CRYPTO_FLAGS_SHA3 || hasf s c_CRYPTO_FLAGS_SHA2))
      && negb (negb (has supp c_v_tls_legacy) && negb (s_type s =? c_CS_TLS13))
      && negb (negb (has supp c_v_tls_1_3_any) && (s_type s =? c_CS_TLS13))
      && ckeyok (s_id s)) suite_table).

(* ------------------------------------------------------------------ server: ClientHello (parseClientHello; tls13ParseClientHello
   for the TLS 1.3 track) *)
Record server_cfg := { sv_ver : vcfg;
                       sv_disabled_global : list N; sv_disabled : list N;
                       sv_require_ems : bool }.              (* extFlags.require_extended_master_secret *)
Record client_hello := { h_ver : chv;
                         h_suites : list N;                  (* cipher_suites incl. the signalling values *)
                         h_null_comp : bool;                 (* compression_methods contains null *)
                         h_ems : option N }.                 (* extended_master_secret extension: its length *)
Inductive accepted :=
| Acc13 (v : N) (suite : N)                                  (* continues on the TLS 1.3 track *)
| AccLegacy (v : N) (suite : N) (ems : bool).

Definition got13 (h : client_hello) : bool := existsb is_tls13_suite_id (h_suites h).

Definition gcfg_server (s : server_cfg) (active : N) : scfg :=
  {| g_server := true; g_supp := v_supp (sv_ver s); g_active := active;
     g_disabled_global := sv_disabled_global s; g_disabled := sv_disabled s |}.

(* TLS_FALLBACK_SCSV test of parseClientHello (fix C07-fallback-scsv-dtls: a DTLS client_version is compared with the
   highest DTLS version) *)
Definition scsv_inappropriate (supp legacy : N) : bool :=
  legacy <? ver_get_highest supp (has legacy c_v_dtls_any).

(* parseClientHello once the version question is settled (nv): fallback SCSV, compression, extensions, version verdict, suite *)
Definition legacy_client_hello (s : server_cfg) (keyok keyfit : N -> bool) (h : client_hello) (nv : res N) : res accepted :=
  if mem c_TLS_FALLBACK_SCSV (h_suites h) && scsv_inappropriate (v_supp (sv_ver s)) (ch_legacy (h_ver h))
  then Err c_SSL_ALERT_INAPPROPRIATE_FALLBACK
  else if negb (h_null_comp h) then Err c_SSL_ALERT_DECODE_ERROR
  else match h_ems h with
       | Some (Npos _) => Err c_SSL_ALERT_HANDSHAKE_FAILURE           (* "Bad extended master secret extension" *)
       | _ =>
         let ems := match h_ems h with Some _ => true | None => false end in
         if sv_require_ems s && negb ems then Err c_SSL_ALERT_HANDSHAKE_FAILURE
         else match nv with
              | Err a => Err a
              | Ok v =>
                  match choose_suite (gcfg_server s (set_ngtd v)) keyok keyfit (h_suites h) with
                  | None => Err c_SSL_ALERT_HANDSHAKE_FAILURE
                  | Some su => if s_id su =? 0 then Err c_SSL_ALERT_HANDSHAKE_FAILURE
                               else Ok (AccLegacy v (s_id su) ems)
                  end
              end
       end.

Definition server_client_hello (s : server_cfg) (keyok keyfit : N -> bool) (h : client_hello) : res accepted :=
  if has (v_supp (sv_ver s)) c_v_tls_1_3_any then
    (* matrixSslDecodeTls13: tls13ParseClientHello(dry run) sets gotTls13CiphersuiteInCH, then tlsServerNegotiateVersion *)
    match server_negotiate_version (sv_ver s) (h_ver h) (got13 h) with
    | Err a => Err a
    | Ok v =>
        if has v c_v_tls_1_3_any then
          match choose_suite (gcfg_server s (set_ngtd v)) keyok keyfit (h_suites h) with
          | Some su => Ok (Acc13 v (s_id su))
          | None => Err c_SSL_ALERT_DECODE_ERROR        (* tls13ParseClientHello returns chooseCipherSuite's rc with ssl->err unset: matrixSslDecodeTls13 then picks decode_error *)
          end
        else legacy_client_hello s keyok keyfit h (Ok v)        (* SSL_NO_TLS_1_3: drop to parseClientHello *)
    end
  else
    (* a server without TLS 1.3 never looks for TLS 1.3 suites: gotTls13CiphersuiteInCH stays 0 *)
    legacy_client_hello s keyok keyfit h (server_negotiate_version (sv_ver s) (h_ver h) false).

(* ------------------------------------------------------------------ client: ServerHello
   (tls13ParseServerHello first when the client enabled TLS 1.3, then parseServerHello) *)
Inductive ext :=
| XEms (len : N)                   (* extended_master_secret with this data length *)
| XSuppVer (v : N)                 (* supported_versions: psVerFromEncoding(selected_version) *)
| XKeyShare (err : N)              (* key_share; err = alert raised by tls13ParseServerKeyShare, 255 = none (oracle) *)
| XPsk (err : N)                   (* pre_shared_key, same convention *)
| XOther (solicited : bool) (tls13_allowed : bool).   (* any other extension: answers one we sent? allowed in a TLS 1.3 ServerHello? *)

Record client_cfg := { cl_ver : vcfg;
                       cl_offered : option (list N);         (* explicit suite list given to matrixSslNewClientSession, or the default list *)
                       cl_disabled_global : list N;
                       cl_ems_sent : bool;                   (* extFlags.req_extended_master_secret *)
                       cl_ems_required : bool }.             (* extFlags.require_extended_master_secret *)
Record server_hello := { sh_rec_ver : N;                     (* psVerFromEncoding(version of the record carrying it) *)
                         sh_ver : N;                         (* psVerFromEncoding(legacy_version) *)
                         sh_tail : list N;                   (* random[24..31] *)
                         sh_hrr : bool;                      (* random == SHA-256("HelloRetryRequest") *)
                         sh_suite : N; sh_comp : N;
                         sh_ext_bytes : N;                   (* bytes after legacy_compression_method *)
                         sh_exts : list ext }.

Definition gcfg_client (c : client_cfg) (active : N) : scfg :=
  {| g_server := false; g_supp := v_supp (cl_ver c); g_active := active;
     g_disabled_global := cl_disabled_global c; g_disabled := [] |}.

(* clientOfferedCipherSuite (fix C07-offered-suite) *)
Definition client_offered (c : client_cfg) (ckeyok : N -> bool) (id : N) : bool :=
  match cl_offered c with
  | Some l => mem id l
  | None => mem id (default_suite_list (v_supp (cl_ver c)) ckeyok)
  end.

(* ServerHelloExt / parseServerHelloExtensions: state = (req_extended_master_secret, extended_master_secret) *)
Fixpoint legacy_exts (unsupp_alert : N) (l : list ext) (req ems : bool) : res (bool * bool) :=
  match l with
  | [] => Ok (req, ems)
  | XEms len :: r =>
      if negb (len =? 0) then Err c_SSL_ALERT_ILLEGAL_PARAMETER
      else if req then legacy_exts unsupp_alert r false true
      else Err unsupp_alert                                    (* unsolicited or duplicate *)
  | XOther true _ :: r => legacy_exts unsupp_alert r req ems
  | _ :: _ => Err unsupp_alert                                 (* supported_versions, key_share, ... are not ServerHello extensions here *)
  end.

Definition legacy_server_hello (c : client_cfg) (ckeyok : N -> bool) (h : server_hello) : res accepted :=
  match check_server_hello_version (v_supp (cl_ver c)) (sh_ver h) with
  | Err a => Err a
  | Ok v =>
      let act := set_ngtd v in
      match get_cipher_spec (gcfg_client c act) (fun _ => true) (sh_suite h) with
      | None => Err c_SSL_ALERT_HANDSHAKE_FAILURE
      | Some su =>
          if s_id su =? 0 then Err c_SSL_ALERT_HANDSHAKE_FAILURE
          else if (s_type su =? c_CS_TLS13) || negb (client_offered c ckeyok (sh_suite h)) then Err c_SSL_ALERT_ILLEGAL_PARAMETER
          else if negb (sh_comp h =? 0) then Err c_SSL_ALERT_DECODE_ERROR
          else
            let unsupp := if has act c_v_tls_with_unsupported_extension_alert
                          then c_SSL_ALERT_UNSUPPORTED_EXTENSION else c_SSL_ALERT_ILLEGAL_PARAMETER in
            let r := if sh_ext_bytes h =? 0 then Ok (cl_ems_sent c, false)
                     else if sh_ext_bytes h <? 2 then Err c_SSL_ALERT_DECODE_ERROR
                     else match legacy_exts unsupp (sh_exts h) (cl_ems_sent c) false with
                          | Err a => Err a
                          | Ok (req, ems) => if req && cl_ems_required c then Err c_SSL_ALERT_HANDSHAKE_FAILURE else Ok (req, ems)
                          end in
            match r with
            | Err a => Err a
            | Ok (req, ems) =>
                (* fix C07-sentinel-without-extensions: checked for every shape of ServerHello *)
                match (if ngtd act c_v_tls_1_3_any then Ok tt else downgrade_check (v_supp (cl_ver c)) (sh_tail h)) with
                | Err a => Err a
                | Ok _ =>
                    (* fix C07-required-ems-without-extensions *)
                    if req && cl_ems_required c then Err c_SSL_ALERT_HANDSHAKE_FAILURE
                    else Ok (AccLegacy v (sh_suite h) ems)
                end
            end
      end
  end.

(* tls13ParseServerHelloExtensions: (negotiated version, gotKeyShare, gotPsk, gotForbidden) *)
Inductive t13ext := T13Err (a : N) | T13Legacy (v : N) | T13Go (sv : option N) (ks psk forb : bool).
Fixpoint tls13_exts (supp : N) (l : list ext) (sv : option N) (ks psk forb : bool) : t13ext :=
  match l with
  | [] => T13Go sv ks psk forb
  | XKeyShare e :: r => if e =? c_SSL_ALERT_NONE then tls13_exts supp r sv true psk forb else T13Err e
  | XPsk e :: r => if e =? c_SSL_ALERT_NONE then tls13_exts supp r sv ks true forb else T13Err e
  | XSuppVer v :: r =>
      if negb (has supp v) then T13Err c_SSL_ALERT_ILLEGAL_PARAMETER
      else if has v c_v_tls_1_3_any then tls13_exts supp r (Some v) ks psk forb
      else T13Legacy v                                         (* SET_NGTD_VER(v); SSL_NO_TLS_1_3 *)
  | XEms _ :: r => tls13_exts supp r sv ks psk true            (* not allowed in a TLS 1.3 ServerHello *)
  | XOther _ allowed :: r => tls13_exts supp r sv ks psk (forb || negb allowed)
  end.

Inductive sh_result := ShAcc (a : accepted) | ShErr (alert : N) | ShRetry.     (* ShRetry: HelloRetryRequest, new ClientHello *)

Definition of_res (r : res accepted) : sh_result := match r with Ok a => ShAcc a | Err a => ShErr a end.

Definition client_server_hello (c : client_cfg) (ckeyok : N -> bool) (h : server_hello) : sh_result :=
  if negb (has (v_supp (cl_ver c)) c_v_tls_1_3_any) then of_res (legacy_server_hello c ckeyok h)
  else if sh_ext_bytes h <? 8 then of_res (legacy_server_hello c ckeyok h)
  else match tls13_exts (v_supp (cl_ver c)) (sh_exts h) None false false false with
       | T13Err a => ShErr a
       | T13Legacy v =>
           (* SSL_NO_TLS_1_3 without moving hsState to SSL_HS_SERVER_HELLO: the legacy decoder re-reads the record with v
              negotiated - record version check - and then refuses the message in this state *)
           if v =? sh_rec_ver h then ShErr c_SSL_ALERT_UNEXPECTED_MESSAGE else ShErr c_SSL_ALERT_ILLEGAL_PARAMETER
       | T13Go None _ _ _ => of_res (legacy_server_hello c ckeyok h)
       | T13Go (Some v) ks psk forb =>
           if forb then ShErr c_SSL_ALERT_ILLEGAL_PARAMETER
           else if negb ks && negb psk then ShErr c_SSL_ALERT_ILLEGAL_PARAMETER
           else if sh_hrr h then ShRetry
           else match get_cipher_spec (gcfg_client c (set_ngtd v)) (fun _ => true) (sh_suite h) with
                | None => ShErr c_SSL_ALERT_ILLEGAL_PARAMETER
                | Some su =>
                    if (s_id su =? 0) || negb (client_offered c ckeyok (sh_suite h)) then ShErr c_SSL_ALERT_ILLEGAL_PARAMETER
                    else if negb (sh_comp h =? 0) then ShErr c_SSL_ALERT_ILLEGAL_PARAMETER
                    else ShAcc (Acc13 v (sh_suite h))
                end
       end.

(* ------------------------------------------------------------------ TLS 1.3 key-exchange group and signature algorithm *)
(* tls13NegotiateGroup (HelloRetryRequest group): our first group when nothing is shared *)
Definition negotiate_group (ours peer : list N) : N :=
  match ips ours peer [] with Some g => g | None => hd 0 ours end.

(* tls13ParseKeyShare on the server: first client share whose group we support *)
Fixpoint key_share_group (ours shares : list N) : option N :=
  match shares with
  | [] => None
  | g :: r => if mem g ours then Some g else key_share_group ours r
  end.

(* tls13ParseServerKeyShare on the client *)
Definition client_accept_hrr_group (cgroups cshares : list N) (g : N) : res unit :=
  if negb (mem g cgroups) then Err c_SSL_ALERT_ILLEGAL_PARAMETER
  else if mem g cshares then Err c_SSL_ALERT_ILLEGAL_PARAMETER
  else Ok tt.
Definition client_accept_share_group (cshares : list N) (g : N) : res unit :=
  if mem g cshares then Ok tt else Err c_SSL_ALERT_HANDSHAKE_FAILURE.

(* tls13ChooseSigAlg for one identity: ours = the algorithms usable with that key; 0 = none *)
Definition choose_sigalg (ours peer : list N) : option N := ips ours peer [].
(* tls13ParseCertificateVerify: findFromUint16Array(ssl->supportedSigAlgs, ..) *)
Definition client_accept_sigalg (supported : list N) (alg : N) : bool := mem alg supported.

(* ------------------------------------------------------------------ matrixSslSetCipherSuiteEnabledStatus (cipherSuite.c)
   Per-session list: ssl->disabledCiphers[SSL_MAX_DISABLED_CIPHERS], 0 = empty slot.  Slots are reused in place, so the
   array can contain holes and - after a hole opened in front of an entry - the same ident twice.
   Global list (ssl == NULL): one bit per table entry in disabledCipherFlags. *)
Inductive rc := RcOk | RcLimit | RcNotFound.           (* PS_SUCCESS | PS_LIMIT_FAIL | PS_FAILURE (cipher not in supportedCiphers[]) *)
Inductive dop := DDis (id : N) | DEn (id : N)          (* matrixSslSetCipherSuiteEnabledStatus(ssl, id, PS_FALSE / PS_TRUE) *)
               | GDis (id : N) | GEn (id : N).         (* the same with ssl == NULL *)

Definition in_table (id : N) : bool := existsb (fun s => s_id s =? id) suite_table.     (* the loop stops at the terminator: 0 is never found *)
Definition empty_slots : list N := repeat 0 (N.to_nat c_SSL_MAX_DISABLED_CIPHERS).

(* flags == PS_FALSE: "Find first empty spot to add disabled cipher": first slot that is empty OR already holds id *)
Fixpoint disable_slot (slots : list N) (id : N) : option (list N) :=
  match slots with
  | [] => None                                          (* PS_LIMIT_FAIL *)
  | s :: r => if (s =? 0) || (s =? id) then Some (id :: r)
              else match disable_slot r id with Some r' => Some (s :: r') | None => None end
  end.
(* flags == PS_TRUE: zero the FIRST slot holding id, then return *)
Fixpoint enable_slot (slots : list N) (id : N) : list N :=
  match slots with
  | [] => []
  | s :: r => if s =? id then 0 :: r else s :: enable_slot r id
  end.

Record dstate := { d_slots : list N; d_global : list N }.
Definition dinit : dstate := {| d_slots := empty_slots; d_global := [] |}.

Definition set_status (st : dstate) (op : dop) : dstate * rc :=
  match op with
  | DDis id => if negb (in_table id) then (st, RcNotFound)
               else match disable_slot (d_slots st) id with
                    | Some s' => ({| d_slots := s'; d_global := d_global st |}, RcOk)
                    | None => (st, RcLimit)
                    end
  | DEn id => if negb (in_table id) then (st, RcNotFound)
              else ({| d_slots := enable_slot (d_slots st) id; d_global := d_global st |}, RcOk)
  | GDis id => if negb (in_table id) then (st, RcNotFound)
               else ({| d_slots := d_slots st; d_global := if mem id (d_global st) then d_global st else id :: d_global st |}, RcOk)
  | GEn id => if negb (in_table id) then (st, RcNotFound)
              else ({| d_slots := d_slots st; d_global := filter (fun x => negb (x =? id)) (d_global st) |}, RcOk)
  end.

Fixpoint run_ops (st : dstate) (ops : list dop) : dstate * list rc :=
  match ops with
  | [] => (st, [])
  | op :: r => let '(st1, c) := set_status st op in
               let '(st2, cs) := run_ops st1 r in (st2, c :: cs)
  end.

(* the scan in sslGetCipherSpec: every slot is looked at ([mem id (g_disabled g)] in get_cipher_spec) *)
Definition scfg_after (server : bool) (supp active : N) (st : dstate) : scfg :=
  {| g_server := server; g_supp := supp; g_active := active; g_disabled_global := d_global st; g_disabled := d_slots st |}.

(* ================================================================== (D)TLS <= 1.2: ECDHE curve (RFC 4492) *)
(* curveIdToFlag / psTestUserEcID over matrixCurveIdFlag[] (matrixsslKeys.c); flags = ssl->ecInfo.ecFlags *)
Definition curve_flag (id : N) : N := assoc id c_curve_flags.
Definition curve_enabled (id flags : N) : bool :=                    (* psTestUserEcID(id, flags) == PS_SUCCESS *)
  negb (curve_flag id =? 0) && negb (N.land flags (curve_flag id) =? 0).

(* tlsParseSupportedGroups (extDecode.c), server: [cfg] = the session's configured set, which stays in ssl->ecInfo.ecFlags
   while the list is walked; acc = local ecFlags, cid = ssl->ecInfo.ecCurveId *)
Fixpoint groups_loop (cfg : N) (l : list N) (acc cid : N) : N * N :=
  match l with
  | [] => (acc, cid)
  | g :: r => if curve_enabled g cfg
              then groups_loop cfg r (N.lor acc (curve_flag g)) (if acc =? c_IS_RECVD_EXT then g else cid)
              else groups_loop cfg r acc cid
  end.
Definition parse_supported_groups (cfg : N) (l : list N) : N * N := groups_loop cfg l c_IS_RECVD_EXT 0.

(* parseClientHello, ECDHE suite chosen (fix C07-default-curve-enabled: without the extension the first compiled-in curve
   that the session enabled is taken, not blindly eccCurves[0]) *)
Definition first_enabled_curve (flags : N) : option N := find (fun id => curve_enabled id flags) c_ecc_curve_ids.
Definition server_ecdhe_curve (flags cid : N) : res N :=
  if (cid =? 0) && has flags c_IS_RECVD_EXT then Err c_SSL_ALERT_HANDSHAKE_FAILURE     (* "Did not share any EC curves with client" *)
  else
    let cid' := if cid =? 0 then match first_enabled_curve flags with Some c => c | None => 0 end else cid in
    if cid' =? 0 then Err c_SSL_ALERT_HANDSHAKE_FAILURE
    else if mem cid' c_ecc_curve_ids then Ok cid'                       (* getEccParamById *)
    else Err c_SSL_ALERT_INTERNAL_ERROR.                                (* enabled by flag but not compiled in: MATRIXSSL_ERROR *)

Definition is_ecdhe_type (ty : N) : bool := (ty =? c_CS_ECDHE_RSA) || (ty =? c_CS_ECDHE_ECDSA).
Definition is_ecdh_type (ty : N) : bool := (ty =? c_CS_ECDH_RSA) || (ty =? c_CS_ECDH_ECDSA).

(* state of ecInfo after the ClientHello extensions: (ecFlags, ecCurveId) *)
Definition ec_after_hello (cfg : N) (groups : option (list N)) : N * N :=
  match groups with Some l => parse_supported_groups cfg l | None => (cfg, 0) end.

(* validateKeyForExtensions, EC part: static-ECDH suites need the certificate's curve among the shared ones ((D)TLS 1.2) *)
Definition keyfit12 (base : N -> bool) (active flags key_curve : N) (id : N) : bool :=
  base id &&
  match find_suite id with
  | Some su => if is_ecdh_type (s_type su) && ngtd active (N.lor c_v_tls_1_2 (N.lor c_v_dtls_1_2 c_v_tls_1_3_any))
               then negb (flags =? 0) && ((key_curve =? 0) || curve_enabled key_curve flags)
               else true
  | None => true
  end.

(* the ClientHello's curve list and what the server does with it once the suite is known *)
Definition server_group (cfg : N) (groups : option (list N)) (suite : N) : res (option N) :=
  match find_suite suite with
  | Some su => if is_ecdhe_type (s_type su)
               then let '(fl, cid) := ec_after_hello cfg groups in
                    match server_ecdhe_curve fl cid with Ok c => Ok (Some c) | Err a => Err a end
               else Ok None
  | None => Ok None
  end.

Definition server_client_hello_g (s : server_cfg) (ecflags key_curve : N) (keyok keyfit : N -> bool) (h : client_hello)
                                 (groups : option (list N)) : res (accepted * option N) :=
  let fl := fst (ec_after_hello ecflags groups) in
  let act v := set_ngtd v in
  (* the key-fitness test sees the negotiated version: computed per candidate version by the caller of choose_suite *)
  match server_client_hello s keyok (fun id =>
          match server_negotiate_version (sv_ver s) (h_ver h) (if has (v_supp (sv_ver s)) c_v_tls_1_3_any then got13 h else false) with
          | Ok v => keyfit12 keyfit (act v) fl key_curve id
          | Err _ => keyfit id
          end) h with
  | Err a => Err a
  | Ok (Acc13 v su) => Ok (Acc13 v su, None)
  | Ok (AccLegacy v su e) =>
      match server_group ecflags groups su with
      | Err a => Err a
      | Ok g => Ok (AccLegacy v su e, g)
      end
  end.

(* client: parseServerKeyExchange, ECDHE part + tlsVerify's algorithm checks (fix C07-ske-curve-offered) *)
Record ske := { k_curve_type : N; k_curve : N;
                k_alg : option N;            (* SignatureAndHashAlgorithm ((D)TLS 1.2 only) *)
                k_point_ok : bool;           (* oracle: psEccX963ImportKey accepts the point for that curve *)
                k_sig_ok : bool }.           (* oracle: psVerifySig's verdict *)
Record ske_cfg := { q_tls13_hello : bool;    (* SUPP_VER(v_tls_1_3_any): supported_groups was written from tls13SupportedGroups *)
                    q_groups13 : list N;     (* tls13SupportedGroups[] (non-empty slots) *)
                    q_ecflags : N;           (* ssl->ecInfo.ecFlags = what the legacy hello listed *)
                    q_sigalgs : list N;      (* ssl->supportedSigAlgs[] = signature_algorithms we sent *)
                    q_active : N;
                    q_rsa_suite : bool;      (* SSL_FLAGS_DHE_WITH_RSA *)
                    q_dsa_suite : bool }.    (* SSL_FLAGS_DHE_WITH_DSA (ECDSA suites) *)

Definition client_offered_group (q : ske_cfg) (id : N) : bool :=
  if q_tls13_hello q then mem id (q_groups13 q) else curve_enabled id (q_ecflags q).

Definition tls_sigalg_hashlen (a : N) : N := assoc a c_tls_sigalg_hashlen.

(* tlsVerify up to the signature itself *)
Definition tls_verify_alg (q : ske_cfg) (alg : option N) (sig_ok : bool) : res unit :=
  let r := if has (q_active q) (N.lor c_v_tls_1_2 (N.lor c_v_dtls_1_2 c_v_tls_1_3_any)) && has (q_active q) c_v_tls_negotiated then
             match alg with
             | None => Err c_SSL_ALERT_DECODE_ERROR
             | Some a => if negb (mem a (q_sigalgs q)) then Err c_SSL_ALERT_ILLEGAL_PARAMETER      (* "signature algorithm we did not offer" *)
                         else if tls_sigalg_hashlen a =? 0 then Err c_SSL_ALERT_DECODE_ERROR
                         else Ok (q_rsa_suite q || mem a c_tls_rsa_sigalgs)
             end
           else Ok (q_rsa_suite q) in
  match r with
  | Err a => Err a
  | Ok use_rsa =>
      if negb use_rsa && q_rsa_suite q then Err c_SSL_ALERT_DECODE_ERROR
      else if use_rsa && q_dsa_suite q then Err c_SSL_ALERT_DECODE_ERROR
      else if sig_ok then Ok tt else Err c_SSL_ALERT_DECRYPT_ERROR
  end.

Definition client_ske (q : ske_cfg) (k : ske) : res unit :=
  if negb (k_curve_type k =? 3) then Err c_SSL_ALERT_ILLEGAL_PARAMETER
  else if negb (mem (k_curve k) c_ecdhe_groups) then Err c_SSL_ALERT_ILLEGAL_PARAMETER
  else if negb (client_offered_group q (k_curve k)) then Err c_SSL_ALERT_ILLEGAL_PARAMETER
  else if negb (k_curve k =? c_namedgroup_x25519) && negb (mem (k_curve k) c_ecc_curve_ids) then Err c_SSL_ALERT_ILLEGAL_PARAMETER
  else if negb (k_point_ok k) then (if k_curve k =? c_namedgroup_x25519 then Err c_SSL_ALERT_ILLEGAL_PARAMETER else Err c_SSL_ALERT_DECODE_ERROR)
  else tls_verify_alg q (k_alg k) (k_sig_ok k).

(* ================================================================== (D)TLS 1.2: SignatureAndHashAlgorithm *)
(* HASH_SIG_MASK(hash, sig) on a 16-bit SignatureAndHashAlgorithm *)
Definition hash_sig_mask (alg : N) : N :=
  let h := N.shiftl 1 (N.land (N.shiftr alg 8) 7) in
  if N.land alg 255 =? c_HASH_SIG_RSA then h else N.shiftl h 8.

(* tlsParseSignatureAlgorithms (server): (hashSigAlg = shared with our list, peerSigAlg = everything the client listed) *)
Fixpoint parse_sigalgs (supported l : list N) (shared peer : N) : N * N :=
  match l with
  | [] => (shared, peer)
  | a :: r => parse_sigalgs supported r (if mem a supported then N.lor shared (hash_sig_mask a) else shared) (N.lor peer (hash_sig_mask a))
  end.

(* peerSupportsSigAlg / weSupportSigAlg / upgradeSigAlg / chooseSigAlgInt (tlsSigVer.c); algorithms are the library's OIDs,
   None = PS_UNSUPPORTED_FAIL *)
Definition oid_mask (o : N) : N :=
  if o =? c_OID_MD5_RSA_SIG then c_HASH_SIG_MD5_RSA_MASK else if o =? c_OID_SHA1_RSA_SIG then c_HASH_SIG_SHA1_RSA_MASK
  else if o =? c_OID_SHA256_RSA_SIG then c_HASH_SIG_SHA256_RSA_MASK else if o =? c_OID_SHA384_RSA_SIG then c_HASH_SIG_SHA384_RSA_MASK
  else if o =? c_OID_SHA512_RSA_SIG then c_HASH_SIG_SHA512_RSA_MASK else if o =? c_OID_SHA1_ECDSA_SIG then c_HASH_SIG_SHA1_ECDSA_MASK
  else if o =? c_OID_SHA256_ECDSA_SIG then c_HASH_SIG_SHA256_ECDSA_MASK else if o =? c_OID_SHA384_ECDSA_SIG then c_HASH_SIG_SHA384_ECDSA_MASK
  else if o =? c_OID_SHA512_ECDSA_SIG then c_HASH_SIG_SHA512_ECDSA_MASK else 0.
Definition peer_supports (o : option N) (mask : N) : bool :=
  match o with Some a => negb (N.land mask (oid_mask a) =? 0) | None => false end.
Definition is_ecdsa_oid (o : N) : bool :=
  (o =? c_OID_SHA1_ECDSA_SIG) || (o =? c_OID_SHA256_ECDSA_SIG) || (o =? c_OID_SHA384_ECDSA_SIG) || (o =? c_OID_SHA512_ECDSA_SIG).
Definition we_support (o : option N) (keyalg : N) : bool :=
  match o with
  | None => false
  | Some a =>
      if keyalg =? c_OID_RSA_KEY_ALG then
        if (a =? c_OID_MD2_RSA_SIG) || (a =? c_OID_MD5_RSA_SIG) then false
        else if a =? c_OID_SHA1_RSA_SIG then f_USE_SHA1 else if a =? c_OID_SHA256_RSA_SIG then f_USE_SHA256
        else if a =? c_OID_SHA384_RSA_SIG then f_USE_SHA384 else if a =? c_OID_SHA512_RSA_SIG then f_USE_SHA512 else false
      else if keyalg =? c_OID_ECDSA_KEY_ALG then
        if a =? c_OID_SHA1_ECDSA_SIG then f_USE_SHA1 else if a =? c_OID_SHA256_ECDSA_SIG then f_USE_SHA256
        else if a =? c_OID_SHA384_ECDSA_SIG then f_USE_SHA384 else if a =? c_OID_SHA512_ECDSA_SIG then f_USE_SHA512 else false
      else false
  end.
Definition can_use (o : option N) (keyalg mask : N) : bool := we_support o keyalg && peer_supports o mask.
Definition upgrade_sigalg (o : option N) (keyalg : N) : option N :=
  match o with
  | None => None
  | Some a =>
      if keyalg =? c_OID_RSA_KEY_ALG then
        if (a =? c_OID_MD2_RSA_SIG) || (a =? c_OID_MD5_RSA_SIG) || (a =? c_OID_SHA1_RSA_SIG) then Some c_OID_SHA256_RSA_SIG
        else if a =? c_OID_SHA256_RSA_SIG then Some c_OID_SHA384_RSA_SIG
        else if a =? c_OID_SHA384_RSA_SIG then Some c_OID_SHA512_RSA_SIG
        else if a =? c_OID_SHA512_RSA_SIG then Some c_OID_SHA256_RSA_SIG else None
      else if keyalg =? c_OID_ECDSA_KEY_ALG then
        if a =? c_OID_SHA1_ECDSA_SIG then Some c_OID_SHA256_ECDSA_SIG
        else if a =? c_OID_SHA256_ECDSA_SIG then Some c_OID_SHA384_ECDSA_SIG
        else if a =? c_OID_SHA384_ECDSA_SIG then Some c_OID_SHA512_ECDSA_SIG
        else if a =? c_OID_SHA512_ECDSA_SIG then Some c_OID_SHA256_ECDSA_SIG else None
      else None
  end.
Definition ecdsa_to_rsa (a : N) : N :=
  if a =? c_OID_SHA1_ECDSA_SIG then c_OID_SHA1_RSA_SIG else if a =? c_OID_SHA256_ECDSA_SIG then c_OID_SHA256_RSA_SIG
  else if a =? c_OID_SHA384_ECDSA_SIG then c_OID_SHA384_RSA_SIG else if a =? c_OID_SHA512_ECDSA_SIG then c_OID_SHA512_RSA_SIG
  else c_OID_SHA256_RSA_SIG.
Definition rsa_to_ecdsa (a : N) : N :=
  if a =? c_OID_SHA1_RSA_SIG then c_OID_SHA1_ECDSA_SIG else if a =? c_OID_SHA256_RSA_SIG then c_OID_SHA256_ECDSA_SIG
  else if a =? c_OID_SHA384_RSA_SIG then c_OID_SHA384_ECDSA_SIG else if a =? c_OID_SHA512_RSA_SIG then c_OID_SHA512_ECDSA_SIG
  else c_OID_SHA256_ECDSA_SIG.
Definition insecure_sigalg (a keyalg keysize hashlen : N) : bool :=          (* psIsInsecureSigAlg *)
  (a =? c_OID_MD2_RSA_SIG) || (a =? c_OID_MD5_RSA_SIG) || (a =? c_OID_SHA1_RSA_SIG) || (a =? c_OID_SHA1_ECDSA_SIG)
  || ((keyalg =? c_OID_RSA_KEY_ALG) && ((hashlen =? 0) || (keysize <? hashlen + 11))).

(* chooseSigAlgInt(certSigAlg, key, keySize, keyAlgorithm, peerSigAlgs): ServerKeyExchange / CertificateVerify algorithm *)
Definition choose_sigalg_int (cert keyalg keysize mask : N) : option N :=
  let a0 := if keyalg =? c_OID_RSA_KEY_ALG then (if is_ecdsa_oid cert then ecdsa_to_rsa cert else cert)
            else if keyalg =? c_OID_ECDSA_KEY_ALG then (if is_ecdsa_oid cert then cert else rsa_to_ecdsa cert)
            else cert in
  let hl := assoc a0 c_oid_hashlen in
  if hl =? 0 then None                                                      (* psSigAlgToHashLen < 0 is returned *)
  else if insecure_sigalg a0 keyalg keysize hl || negb (can_use (Some a0) keyalg mask) then
    let a1 := upgrade_sigalg (Some a0) keyalg in
    if can_use a1 keyalg mask then a1
    else let a2 := upgrade_sigalg a1 keyalg in
         if can_use a2 keyalg mask then a2
         else Some cert                                                     (* "Fallback to certificate sigAlg" *)
  else Some a0.

(* parseCertificateVerify (server, (D)TLS 1.2): the algorithm must be among the shared ones *)
Definition server_cv_alg (shared alg : N) : res unit :=
  if N.land shared (hash_sig_mask alg) =? 0 then Err c_SSL_ALERT_DECODE_ERROR
  else let h := N.shiftr alg 8 in
       if (h =? 2) || (h =? 4) || (h =? 5) || (h =? 6) then Ok tt else Err c_SSL_ALERT_DECODE_ERROR.
