(* Lemmas and main theorems for property C07 (model: NegModel.v, spec: NegSpec.v). *)
From Coq Require Import Sorted Arith PeanoNat.
From MV Require Export Neg.NegSpec.
Local Open Scope N_scope.

(* ================================================================== small facts *)
Lemma mem_In : forall x l, mem x l = true <-> In x l.
Proof.
  intros x l. unfold mem. rewrite existsb_exists. split.
  - intros [y [Hy He]]. apply N.eqb_eq in He. subst. exact Hy.
  - intros H. exists x. split; [exact H | apply N.eqb_refl].
Qed.
Lemma mem_false : forall x l, mem x l = false <-> ~ In x l.
Proof. intros. rewrite <- mem_In. destruct (mem x l); split; congruence. Qed.

(* ================================================================== tls13IntersectionPrioritySelect *)
Definition upd (st : ips_state) (c : nat * N) : ips_state :=
  let '(ms, best, fnd) := st in if Nat.leb (fst c) ms then (fst c, snd c, true) else st.

Definition row_cands (f : list N) (ai : N) (i : nat) (kb : list (nat * N)) : list (nat * N) :=
  flat_map (fun kbk : nat * N => if (ai =? snd kbk) && negb (mem ai f) then [((i + fst kbk)%nat, ai)] else []) kb.
Definition all_cands (f : list N) (ia : list (nat * N)) (kb : list (nat * N)) : list (nat * N) :=
  flat_map (fun x : nat * N => row_cands f (snd x) (fst x) kb) ia.

Lemma row_fold : forall f ai i kb st,
  fold_left (ips_step f ai i) kb st = fold_left upd (row_cands f ai i kb) st.
Proof.
  induction kb as [|[k bk] r IH]; intros st; [reflexivity|].
  cbn [fold_left row_cands flat_map fst snd]. rewrite fold_left_app. rewrite <- IH. f_equal.
  unfold ips_step. destruct ((ai =? bk) && negb (mem ai f)); [|reflexivity].
  cbn [fold_left]. unfold upd. destruct st as [[ms best] fnd]. reflexivity.
Qed.

Lemma all_fold : forall f b ia st,
  fold_left (ips_row f b) ia st = fold_left upd (all_cands f ia (indexed b)) st.
Proof.
  induction ia as [|[i ai] r IH]; intros st; [reflexivity|].
  cbn [fold_left all_cands flat_map fst snd]. rewrite fold_left_app. rewrite <- IH. f_equal.
  unfold ips_row. apply row_fold.
Qed.

(* folding [upd]: the minimum moves down only, the winner is one of the candidates *)
Lemma upd_fold_min : forall L st,
  let '(ms', _, _) := fold_left upd L st in
  let '(ms, _, _) := st in (ms' <= ms)%nat /\ forall c, In c L -> (ms' <= fst c)%nat.
Proof.
  induction L as [|c L IH]; intros [[ms best] fnd].
  - cbn. split; [lia | intros c []].
  - cbn [fold_left]. specialize (IH (upd (ms, best, fnd) c)).
    destruct (fold_left upd L (upd (ms, best, fnd) c)) as [[ms' b'] f'].
    unfold upd in IH. destruct (Nat.leb (fst c) ms) eqn:E.
    + apply Nat.leb_le in E. destruct IH as [A B]. split; [lia|]. intros d [->|Hd]; [lia | auto].
    + apply Nat.leb_gt in E. destruct IH as [A B]. split; [lia|]. intros d [->|Hd]; [lia | auto].
Qed.

Lemma upd_fold_winner : forall L st,
  let '(ms', b', f') := fold_left upd L st in
  let '(ms, b, f) := st in
  (f' = true -> In (ms', b') L \/ (f = true /\ ms' = ms /\ b' = b)) /\ (f = true -> f' = true).
Proof.
  induction L as [|c L IH]; intros [[ms best] fnd].
  - cbn. split; [intros; right; auto | auto].
  - cbn [fold_left]. specialize (IH (upd (ms, best, fnd) c)).
    destruct (fold_left upd L (upd (ms, best, fnd) c)) as [[ms' b'] f'].
    unfold upd in IH. destruct (Nat.leb (fst c) ms) eqn:E.
    + destruct IH as [A B]. split; [|intros; apply B; reflexivity].
      intros H. destruct (A H) as [H1|[_ [H2 H3]]]; [left; right; exact H1|].
      left; left. destruct c; cbn in *; subst; reflexivity.
    + destruct IH as [A B]. split; [|exact B].
      intros H. destruct (A H) as [H1|H1]; [left; right; exact H1 | right; exact H1].
Qed.

Lemma indexed_from_In : forall (l : list N) n i x,
  In (i, x) (indexed_from n l) <-> (n <= i)%nat /\ nth_error l (i - n) = Some x.
Proof.
  induction l as [|y l IH]; intros n i x; cbn [indexed_from].
  - split; [intros [] | intros [_ H]; destruct (i - n)%nat; discriminate].
  - cbn [In]. rewrite IH. split.
    + intros [H|[H1 H2]].
      * inversion H; subst. split; [lia|]. replace (i - i)%nat with O by lia. reflexivity.
      * split; [lia|]. replace (i - n)%nat with (S (i - S n)) by lia. exact H2.
    + intros [H1 H2]. destruct (Nat.eq_dec n i) as [->|Hne].
      * left. replace (i - i)%nat with O in H2 by lia. cbn in H2. congruence.
      * right. split; [lia|]. replace (i - n)%nat with (S (i - S n)) in H2 by lia. exact H2.
Qed.
Lemma indexed_In : forall (l : list N) i x, In (i, x) (indexed l) <-> nth_error l i = Some x.
Proof. intros. unfold indexed. rewrite indexed_from_In. replace (i - 0)%nat with i by lia. split; [tauto | split; [lia | assumption]]. Qed.

Lemma all_cands_In : forall f a b s x,
  In (s, x) (all_cands f (indexed a) (indexed b)) <->
  exists i k, nth_error a i = Some x /\ nth_error b k = Some x /\ mem x f = false /\ s = (i + k)%nat.
Proof.
  intros. unfold all_cands. rewrite in_flat_map. split.
  - intros [[i ai] [Hi Hr]]. cbn [fst snd] in Hr. unfold row_cands in Hr. rewrite in_flat_map in Hr.
    destruct Hr as [[k bk] [Hk Hc]]. cbn [fst snd] in Hc.
    destruct ((ai =? bk) && negb (mem ai f)) eqn:E; [|destruct Hc].
    destruct Hc as [Hc|[]]. inversion Hc; subst. apply andb_true_iff in E. destruct E as [E1 E2].
    apply N.eqb_eq in E1. subst. apply negb_true_iff in E2.
    exists i, k. apply indexed_In in Hi. apply indexed_In in Hk. auto.
  - intros [i [k [Ha [Hb [Hf Hs]]]]]. exists (i, x). split; [apply indexed_In; exact Ha|].
    cbn [fst snd]. unfold row_cands. rewrite in_flat_map. exists (k, x). split; [apply indexed_In; exact Hb|].
    cbn [fst snd]. rewrite N.eqb_refl, Hf. cbn. left. subst. reflexivity.
Qed.

(* the selected element: a common, non-forbidden element with minimal index sum *)
Lemma ips_char : forall a b f x, ips a b f = Some x ->
  exists i k, nth_error a i = Some x /\ nth_error b k = Some x /\ mem x f = false /\
    forall i' k' y, nth_error a i' = Some y -> nth_error b k' = Some y -> mem y f = false -> (i + k <= i' + k')%nat.
Proof.
  intros a b f x H. unfold ips in H. destruct a as [|a0 a']; [discriminate|]. destruct b as [|b0 b']; [discriminate|].
  remember (a0 :: a') as a. remember (b0 :: b') as b.
  rewrite all_fold in H.
  pose proof (upd_fold_min (all_cands f (indexed a) (indexed b)) ((length a + length b - 2)%nat, a0, false)) as Hm.
  pose proof (upd_fold_winner (all_cands f (indexed a) (indexed b)) ((length a + length b - 2)%nat, a0, false)) as Hw.
  destruct (fold_left upd (all_cands f (indexed a) (indexed b)) ((length a + length b - 2)%nat, a0, false)) as [[ms best] fnd].
  destruct fnd; [|discriminate]. inversion H; subst best. clear H.
  destruct Hw as [Hw _]. destruct (Hw eq_refl) as [Hin|[Hc _]]; [|discriminate].
  apply all_cands_In in Hin. destruct Hin as [i [k [Ha [Hb [Hf Hs]]]]].
  exists i, k. repeat split; auto. intros i' k' y Ha' Hb' Hf'.
  destruct Hm as [_ Hm]. specialize (Hm ((i' + k')%nat, y)). cbn [fst] in Hm. subst ms. apply Hm.
  apply all_cands_In. exists i', k'. auto.
Qed.

Theorem ips_sound : forall a b f x, ips a b f = Some x -> In x a /\ In x b /\ ~ In x f.
Proof.
  intros a b f x H. apply ips_char in H. destruct H as [i [k [Ha [Hb [Hf _]]]]].
  repeat split; [eapply nth_error_In; eauto | eapply nth_error_In; eauto | apply mem_false; exact Hf].
Qed.

Lemma desc_nth : forall l i j x y, desc l -> nth_error l i = Some x -> nth_error l j = Some y -> (i < j)%nat -> y < x.
Proof.
  unfold desc. induction l as [|z l IH]; intros i j x y Hs Hi Hj Hlt.
  - destruct i; discriminate.
  - inversion Hs as [|? ? Hs' Hall]; subst. destruct j as [|j]; [lia|]. cbn in Hj.
    destruct i as [|i].
    + cbn in Hi. inversion Hi; subst. apply nth_error_In in Hj. rewrite Forall_forall in Hall. specialize (Hall _ Hj). lia.
    + cbn in Hi. eapply IH; eauto. lia.
Qed.

Theorem ips_highest : forall a b f x, desc a -> desc b -> ips a b f = Some x ->
  forall y, In y a -> In y b -> ~ In y f -> y <= x.
Proof.
  intros a b f x Da Db H y Ya Yb Yf. apply ips_char in H. destruct H as [i [k [Ha [Hb [_ Hmin]]]]].
  apply In_nth_error in Ya. destruct Ya as [i' Ya]. apply In_nth_error in Yb. destruct Yb as [k' Yb].
  apply mem_false in Yf. specialize (Hmin i' k' y Ya Yb Yf).
  destruct (N.le_gt_cases y x) as [Hle|Hgt]; [exact Hle|]. exfalso.
  assert (i' < i)%nat.
  { destruct (Nat.lt_trichotomy i' i) as [L|[E|G]]; [exact L| |].
    - subst. rewrite Ya in Ha. inversion Ha. lia.
    - pose proof (desc_nth a i i' x y Da Ha Ya G). lia. }
  assert (k' < k)%nat.
  { destruct (Nat.lt_trichotomy k' k) as [L|[E|G]]; [exact L| |].
    - subst. rewrite Yb in Hb. inversion Hb. lia.
    - pose proof (desc_nth b k k' x y Db Hb Yb G). lia. }
  lia.
Qed.

(* ================================================================== version identifiers and sets *)
Lemma valid_cases : forall v, valid_ver v ->
  v = 1 \/ v = 2 \/ v = 4 \/ v = 8 \/ v = 16 \/ v = 32 \/ v = 64 \/ v = 128 \/ v = 256 \/ v = 512 \/ v = 1024 \/ v = 2048.
Proof. unfold valid_ver. intros v H. vm_compute in H. intuition. Qed.
(* the case list above is the generated list: if the header gains a version this proof - an obligation - breaks *)

Lemma valid_nonzero : forall v, valid_ver v -> v <> 0.
Proof. intros v H. apply valid_cases in H. intuition; subst; discriminate. Qed.
Lemma valid_le_13 : forall v, valid_ver v -> v <= c_v_tls_1_3.
Proof. intros v H. apply valid_cases in H. unfold c_v_tls_1_3. intuition; subst; vm_compute; discriminate. Qed.
Lemma has_single : forall a v, valid_ver a -> valid_ver v -> has a v = true -> a = v.
Proof.
  intros a v Ha Hv. apply valid_cases in Ha. apply valid_cases in Hv.
  intuition; subst; vm_compute; intros; try reflexivity; discriminate.
Qed.

Lemma has_lor : forall a b v, has (N.lor a b) v = has a v || has b v.
Proof.
  intros. unfold has. rewrite N.land_lor_distr_l.
  destruct (N.eqb_spec (N.land a v) 0) as [E1|E1]; destruct (N.eqb_spec (N.land b v) 0) as [E2|E2]; cbn.
  - rewrite E1, E2. reflexivity.
  - apply negb_true_iff. apply N.eqb_neq. intro H. apply N.lor_eq_0_iff in H. tauto.
  - apply negb_true_iff. apply N.eqb_neq. intro H. apply N.lor_eq_0_iff in H. tauto.
  - apply negb_true_iff. apply N.eqb_neq. intro H. apply N.lor_eq_0_iff in H. tauto.
Qed.
Lemma has_zero_l : forall v, has 0 v = false.
Proof. intros. unfold has. rewrite N.land_0_l. reflexivity. Qed.
Lemma has_zero_r : forall s, has s 0 = false.
Proof. intros. unfold has. rewrite N.land_0_r. reflexivity. Qed.
Lemma has_self : forall v, v <> 0 -> has v v = true.
Proof. intros. unfold has. rewrite N.land_diag. apply negb_true_iff. apply N.eqb_neq. assumption. Qed.

Lemma has_set_of_In : forall l v, Forall valid_ver l -> valid_ver v -> has (set_of l) v = true -> In v l.
Proof.
  induction l as [|a l IH]; intros v Hl Hv H; cbn [set_of fold_right] in H.
  - rewrite has_zero_l in H. discriminate.
  - inversion Hl; subst. change (fold_right N.lor 0 l) with (set_of l) in H. rewrite has_lor in H.
    apply orb_true_iff in H. destruct H as [H|H]; [left; apply has_single; assumption | right; apply IH; assumption].
Qed.
Lemma In_has_set_of : forall l v, v <> 0 -> In v l -> has (set_of l) v = true.
Proof.
  induction l as [|a l IH]; intros v Hv H; [destruct H|]. cbn [set_of fold_right].
  change (fold_right N.lor 0 l) with (set_of l). rewrite has_lor. destruct H as [->|H].
  - rewrite has_self by assumption. reflexivity.
  - rewrite (IH v Hv H). apply orb_true_r.
Qed.

Lemma decoded_enc : forall e, decoded (ver_from_encoding e).
Proof.
  intros e. unfold ver_from_encoding, c_ver_enc, decoded, valid_ver. cbn [assoc].
  repeat match goal with |- context [if ?c then _ else _] => destruct c; [right; vm_compute; tauto|] end.
  left; reflexivity.
Qed.

(* ================================================================== checkClientHelloVersion *)
Lemma legacy_loop_spec : forall prio ch wd v, legacy_loop prio ch wd = Some v ->
  In v prio /\ v < ch /\ has v c_v_dtls_any = wd /\
  (desc prio -> forall w, In w prio -> has w c_v_dtls_any = wd -> w < ch -> w <= v).
Proof.
  induction prio as [|a r IH]; intros ch wd v H; [discriminate|]. cbn [legacy_loop] in H.
  destruct (xorb wd (has a c_v_dtls_any)) eqn:X.
  - destruct (IH _ _ _ H) as [A [B [C D]]]. repeat split; auto; [right; exact A|].
    intros Hd w [->|Hw] Hf Hlt.
    + rewrite Hf in X. rewrite xorb_nilpotent in X. discriminate.
    + inversion Hd; subst. apply D; auto.
  - destruct (a <? ch) eqn:L.
    + inversion H; subst. apply N.ltb_lt in L. apply xorb_eq in X. repeat split; auto; [left; reflexivity|].
      intros Hd w [->|Hw] _ _; [lia|]. inversion Hd as [|? ? _ Hall]; subst. rewrite Forall_forall in Hall. specialize (Hall _ Hw). lia.
    + destruct (IH _ _ _ H) as [A [B [C D]]]. repeat split; auto; [right; exact A|].
      intros Hd w [->|Hw] Hf Hlt.
      * apply N.ltb_ge in L. lia.
      * inversion Hd; subst. apply D; auto.
Qed.

Theorem legacy_version_ok : forall s ch v, wf_vcfg s -> decoded ch ->
  check_client_hello_version s ch = Ok v ->
  version_ok s {| ch_legacy := ch; ch_sv := None |} [] v.
Proof.
  intros s ch v [Hsupp Hval] Hdec H. unfold check_client_hello_version in H. unfold version_ok, enabled, ch_offers. cbn [ch_sv ch_legacy].
  destruct (has (v_supp s) ch) eqn:Hs.
  - inversion H; subst v. destruct Hdec as [->|Hv]; [rewrite has_zero_r in Hs; discriminate|].
    rewrite Hsupp in Hs. split; [apply has_set_of_In; assumption|]. split; [split; [lia | reflexivity]|].
    intros _ _ w _ [Hle _] _. exact Hle.
  - destruct (legacy_loop (v_prio s) ch (has ch c_v_dtls_any)) eqn:L; [|discriminate]. inversion H; subst n.
    destruct (legacy_loop_spec _ _ _ _ L) as [A [B [C D]]]. split; [exact A|]. split; [split; [lia | exact C]|].
    intros Hd _ w Hw [Hle Hfam] _. apply D; auto.
    destruct (N.eq_dec w ch) as [->|Hne]; [|lia]. exfalso.
    rewrite Forall_forall in Hval. specialize (Hval _ Hw). rewrite Hsupp in Hs.
    rewrite (In_has_set_of _ _ (valid_nonzero _ Hval) Hw) in Hs. discriminate.
Qed.

(* ================================================================== checkSupportedVersions *)
Theorem sv_version_ok : forall s l g13 v, wf_vcfg s -> Forall valid_ver l ->
  check_supported_versions s (peer_of l) g13 = Ok v ->
  version_ok s {| ch_legacy := 0; ch_sv := Some l |} (if g13 then c_forbidden_drafts else c_forbidden_no13suite) v.
Proof.
  intros s l g13 v [Hsupp Hval] Hl H. unfold check_supported_versions in H. unfold version_ok, enabled, ch_offers, ch_desc. cbn [ch_sv].
  assert (V13 : valid_ver c_v_tls_1_3) by (vm_compute; tauto).
  destruct (g13 && has (v_supp s) c_v_tls_1_3 && has (v_supp (peer_of l)) c_v_tls_1_3) eqn:E.
  - inversion H; subst v. apply andb_true_iff in E. destruct E as [E E3]. apply andb_true_iff in E. destruct E as [_ E2].
    rewrite Hsupp in E2. cbn [peer_of v_supp] in E3.
    split; [apply has_set_of_In; assumption|]. split; [apply has_set_of_In; assumption|].
    intros _ _ w Hw _ _. rewrite Forall_forall in Hval. apply valid_le_13. apply Hval. exact Hw.
  - cbn [peer_of v_prio] in H.
    destruct (ips (v_prio s) l (if g13 then c_forbidden_drafts else c_forbidden_no13suite)) eqn:I; [|discriminate].
    inversion H; subst n. destruct (ips_sound _ _ _ _ I) as [A [B C]]. split; [exact A|]. split; [exact B|].
    intros Ds Dl w Hw Hwl Hf. exact (ips_highest _ _ _ _ Ds Dl I w Hw Hwl Hf).
Qed.

Theorem version_common_highest : forall s c g13 v, wf_vcfg s -> ch_decoded c ->
  server_negotiate_version s c g13 = Ok v ->
  version_ok s c (if g13 then c_forbidden_drafts else c_forbidden_no13suite) v.
Proof.
  intros s [ch sv] g13 v Hwf [Hd Hl] H. unfold server_negotiate_version in H. cbn [ch_sv ch_legacy] in *.
  destruct sv as [l|].
  - pose proof (sv_version_ok s l g13 v Hwf Hl H) as K. unfold version_ok, ch_offers, ch_desc in *. cbn [ch_sv] in *. exact K.
  - pose proof (legacy_version_ok s ch v Hwf Hd H) as K. unfold version_ok, ch_offers, ch_desc in *. cbn [ch_sv ch_legacy] in *.
    destruct K as [A [B C]]. split; [exact A|]. split; [exact B|]. intros Ds _ w Hw Ho _. apply C; auto.
Qed.

(* non-vacuity: both priority orders of {1.2, 1.3} against a 1.3 client and a 1.2-only hello *)
Example version_ex1 : server_negotiate_version (peer_of [2048; 16]) {| ch_legacy := 16; ch_sv := Some [2048; 16] |} true = Ok 2048.
Proof. vm_compute. reflexivity. Qed.
Example version_ex2 : server_negotiate_version (peer_of [2048; 16; 4]) {| ch_legacy := 16; ch_sv := None |} false = Ok 16.
Proof. vm_compute. reflexivity. Qed.
Example version_ex3 : server_negotiate_version (peer_of [4]) {| ch_legacy := 16; ch_sv := None |} false = Ok 4.
Proof. vm_compute. reflexivity. Qed.
Example wf_ex : wf_vcfg (peer_of [2048; 16; 4]) /\ desc [2048; 16; 4].
Proof. split; [split; [reflexivity | repeat constructor; vm_compute; tauto] | repeat constructor; reflexivity]. Qed.

(* ================================================================== cipher suites *)
Lemma find_suite_id : forall id s, find_suite id = Some s -> s_id s = id /\ In s (null_suite :: suite_table).
Proof.
  intros id s H. unfold find_suite in H. destruct (find (fun s0 => s_id s0 =? id) suite_table) eqn:F.
  - inversion H; subst. apply find_some in F. destruct F as [F1 F2]. apply N.eqb_eq in F2. split; [exact F2 | right; exact F1].
  - destruct (id =? c_SSL_NULL_WITH_NULL_NULL) eqn:E; [|discriminate]. inversion H; subst. apply N.eqb_eq in E.
    split; [cbn; symmetry; exact E | left; reflexivity].
Qed.

Lemma gcs_some : forall g k id s, get_cipher_spec g k id = Some s ->
  find_suite id = Some s /\
  mem id (g_disabled_global g) = false /\
  negb (id =? 0) && mem id (g_disabled g) = false /\
  negb (g_supp g =? 0) && ((negb (has (g_supp g) c_v_tls_sha2) || ngtd (g_active g) c_v_tls_no_sha2)
                              && (hasf s c_CRYPTO_FLAGS_SHA3 || hasf s c_CRYPTO_FLAGS_SHA2)) = false /\
  negb (g_supp g =? 0) && ngtd (g_active g) c_v_tls_1_3_any && negb (s_type s =? c_CS_TLS13) && negb (s_type s =? c_CS_NULL) = false /\
  g_server g && negb (k id) = false.
Proof.
  intros g k id s H. unfold get_cipher_spec in H. destruct (find_suite id) as [s'|] eqn:F; [|discriminate].
  repeat match type of H with (if ?c then _ else _) = _ => destruct c eqn:?; [discriminate|] end.
  inversion H; subst s'. repeat split; assumption.
Qed.

Theorem gcs_usable : forall g k id s, get_cipher_spec g k id = Some s -> s_id s = id /\ suite_usable g k id.
Proof.
  intros g k id s H. apply gcs_some in H. destruct H as [F [D1 [D2 [V1 [V2 K]]]]].
  destruct (find_suite_id _ _ F) as [Hid Hin]. split; [exact Hid|]. exists s. split; [exact Hin|]. split; [exact Hid|].
  split; [apply mem_false; exact D1|]. split.
  - intros Hz. apply mem_false. destruct (N.eqb_spec id 0); [contradiction|]. cbn in D2. exact D2.
  - split; [|split].
    + intros Hs Hn. destruct (N.eqb_spec (g_supp g) 0); [contradiction|]. cbn [negb andb] in V1. rewrite Hn in V1.
      rewrite orb_true_r in V1. cbn [andb] in V1. apply orb_false_iff in V1. tauto.
    + intros Hs Hn. destruct (N.eqb_spec (g_supp g) 0); [contradiction|]. cbn [negb andb] in V2. rewrite Hn in V2. cbn [andb] in V2.
      destruct (N.eqb_spec (s_type s) c_CS_TLS13); [left; assumption|]. destruct (N.eqb_spec (s_type s) c_CS_NULL); [right; assumption|].
      cbn in V2. discriminate.
    + intros Hsrv. rewrite Hsrv in K. cbn in K. apply negb_false_iff in K. exact K.
Qed.

(* the server's choice: from the client's list, usable by the server *)
Theorem choose_suite_sound : forall g k kf suites s, choose_suite g k kf suites = Some s ->
  In (s_id s) suites /\ get_cipher_spec g k (s_id s) = Some s /\
  (ngtd (g_active g) c_v_tls_1_3_any = true -> s_type s = c_CS_TLS13).
Proof.
  induction suites as [|id r IH]; intros s H; [discriminate|]. cbn [choose_suite] in H.
  destruct (get_cipher_spec g k id) as [s'|] eqn:G.
  - assert (Hid : s_id s' = id) by (apply gcs_usable in G; tauto).
    assert (Hrec : choose_suite g k kf r = Some s -> In (s_id s) (id :: r) /\ get_cipher_spec g k (s_id s) = Some s /\
                   (ngtd (g_active g) c_v_tls_1_3_any = true -> s_type s = c_CS_TLS13)).
    { intros E. destruct (IH _ E) as [A [B C]]. split; [right; assumption | split; assumption]. }
    destruct (ngtd (g_active g) c_v_tls_1_3_any) eqn:N13.
    + destruct (N.eqb_spec (s_type s') c_CS_TLS13) as [T|T]; [|auto].
      inversion H; subst s'. rewrite Hid. split; [left; reflexivity | split; [exact G | intros _; exact T]].
    + assert (Here : Some s' = Some s -> In (s_id s) (id :: r) /\ get_cipher_spec g k (s_id s) = Some s /\
                     (false = true -> s_type s = c_CS_TLS13)).
      { intros E. inversion E; subst s'. rewrite Hid. split; [left; reflexivity | split; [exact G | discriminate]]. }
      destruct (s_type s' =? c_CS_TLS13); auto. destruct (s_type s' =? c_CS_DH_ANON); auto. destruct (kf id); auto.
  - destruct (IH _ H) as [A [B C]]. split; [right; assumption | split; assumption].
Qed.

Lemma ngtd_set : forall v x, N.land c_v_tls_negotiated x = 0 -> ngtd (set_ngtd v) x = has v x.
Proof.
  intros v x Hx. unfold ngtd, set_ngtd. rewrite !has_lor. unfold has at 2. rewrite Hx. cbn [N.eqb negb]. rewrite orb_false_r.
  rewrite has_self by discriminate. rewrite orb_true_r. apply andb_true_r.
Qed.

(* table facts (generated table; recomputed on every run) *)
Lemma table_null_type : forallb (fun s => negb (s_type s =? c_CS_NULL)) suite_table = true.
Proof. vm_compute. reflexivity. Qed.
Lemma table_no_zero_id : forallb (fun s => negb (s_id s =? 0)) suite_table = true.
Proof. vm_compute. reflexivity. Qed.
Lemma table_contiguous : c_suites_contiguous = true.
Proof. reflexivity. Qed.
Lemma null_type_is_null : forall s, In s (null_suite :: suite_table) -> s_type s = c_CS_NULL -> s_id s = 0.
Proof.
  intros s [<-|H] T; [reflexivity|]. pose proof table_null_type as P. rewrite forallb_forall in P. specialize (P _ H).
  rewrite T in P. rewrite N.eqb_refl in P. discriminate.
Qed.

(* ================================================================== server: ClientHello *)
Theorem server_suite_ok : forall s k kf h a, server_client_hello s k kf h = Ok a ->
  In (acc_suite a) (h_suites h) /\ suite_usable (gcfg_server s (set_ngtd (acc_version a))) k (acc_suite a) /\ acc_suite a <> 0.
Proof.
  intros s k kf h a H. unfold server_client_hello in H.
  assert (L : forall nv, legacy_client_hello s k kf h nv = Ok a ->
     In (acc_suite a) (h_suites h) /\ suite_usable (gcfg_server s (set_ngtd (acc_version a))) k (acc_suite a) /\ acc_suite a <> 0).
  { intros nv Hl. unfold legacy_client_hello in Hl.
    destruct (mem c_TLS_FALLBACK_SCSV (h_suites h) && scsv_inappropriate (v_supp (sv_ver s)) (ch_legacy (h_ver h))); [discriminate|].
    destruct (negb (h_null_comp h)); [discriminate|].
    assert (Hcore : (if sv_require_ems s && negb (match h_ems h with Some _ => true | None => false end) then Err c_SSL_ALERT_HANDSHAKE_FAILURE
                     else match nv with
                          | Err a0 => Err a0
                          | Ok v => match choose_suite (gcfg_server s (set_ngtd v)) k kf (h_suites h) with
                                    | None => Err c_SSL_ALERT_HANDSHAKE_FAILURE
                                    | Some su => if s_id su =? 0 then Err c_SSL_ALERT_HANDSHAKE_FAILURE
                                                 else Ok (AccLegacy v (s_id su) (match h_ems h with Some _ => true | None => false end))
                                    end
                          end) = Ok a).
    { destruct (h_ems h) as [[|p]|]; [exact Hl | discriminate | exact Hl]. }
    clear Hl. destruct (sv_require_ems s && negb _); [discriminate|]. destruct nv as [v|]; [|discriminate].
    destruct (choose_suite (gcfg_server s (set_ngtd v)) k kf (h_suites h)) as [su|] eqn:C; [|discriminate].
    destruct (N.eqb_spec (s_id su) 0); [discriminate|]. inversion Hcore; subst a. cbn [acc_suite acc_version].
    destruct (choose_suite_sound _ _ _ _ _ C) as [A [B _]]. apply gcs_usable in B. tauto. }
  destruct (has (v_supp (sv_ver s)) c_v_tls_1_3_any).
  - destruct (server_negotiate_version (sv_ver s) (h_ver h) (got13 h)) as [v|]; [|discriminate].
    destruct (has v c_v_tls_1_3_any) eqn:Hv13.
    + destruct (choose_suite (gcfg_server s (set_ngtd v)) k kf (h_suites h)) as [su|] eqn:C; [|discriminate].
      inversion H; subst a. cbn [acc_suite acc_version].
      destruct (choose_suite_sound _ _ _ _ _ C) as [A [B T]]. pose proof (gcs_some _ _ _ _ B) as [F _]. apply gcs_usable in B.
      split; [exact A|]. split; [tauto|]. intros Z.
      cbn [gcfg_server g_active] in T. rewrite ngtd_set in T by reflexivity. specialize (T Hv13).
      destruct (find_suite_id _ _ F) as [_ Hin]. destruct Hin as [<-|Hin]; [vm_compute in T; discriminate|].
      pose proof table_no_zero_id as P. rewrite forallb_forall in P. specialize (P _ Hin). rewrite Z in P. discriminate.
    + eapply L; eauto.
  - eapply L; eauto.
Qed.

(* ================================================================== client: ServerHello *)
Lemma legacy_exts_inv : forall u l req ems req' ems', legacy_exts u l req ems = Ok (req', ems') ->
  (ems = true -> ems' = true) /\ (req = true -> req' = false -> ems' = true) /\ (req = false -> req' = false).
Proof.
  induction l as [|e l IH]; intros req ems req' ems' H; cbn [legacy_exts] in H.
  - inversion H; subst. repeat split; auto; intros; congruence.
  - destruct e as [len|v|er|er|sol al].
    + destruct (negb (len =? 0)); [discriminate|]. destruct req; [|discriminate].
      destruct (IH _ _ _ _ H) as [A [B C]]. repeat split; auto; intros; try congruence; auto.
    + discriminate.
    + discriminate.
    + discriminate.
    + destruct sol; [|discriminate]. exact (IH _ _ _ _ H).
Qed.

Lemma downgrade_ok : forall supp tail, downgrade_check supp tail = Ok tt -> has supp c_v_tls_1_3 = true -> is_sentinel tail = false.
Proof.
  intros supp tail H S. unfold downgrade_check in H. destruct (we_only_support_tls13 supp); [discriminate|].
  rewrite S in H. cbn [andb] in H. destruct (is_sentinel tail); [discriminate | reflexivity].
Qed.

Record legacy_acc (c : client_cfg) (k : N -> bool) (h : server_hello) (a : accepted) : Prop := {
  la_shape : exists e, a = AccLegacy (sh_ver h) (sh_suite h) e;
  la_version : has (v_supp (cl_ver c)) (sh_ver h) = true;
  la_not13 : has (sh_ver h) c_v_tls_1_3_any = false;
  la_offered : client_offered c k (sh_suite h) = true;
  la_usable : suite_usable (gcfg_client c (set_ngtd (sh_ver h))) (fun _ => true) (sh_suite h);
  la_nonnull : sh_suite h <> 0;
  la_sentinel : has (v_supp (cl_ver c)) c_v_tls_1_3 = true -> is_sentinel (sh_tail h) = false;
  la_ems : cl_ems_required c = true -> cl_ems_sent c = true -> a = AccLegacy (sh_ver h) (sh_suite h) true
}.

Theorem legacy_sh_ok : forall c k h a, legacy_server_hello c k h = Ok a -> legacy_acc c k h a.
Proof.
  intros c k h a H. unfold legacy_server_hello in H. unfold check_server_hello_version in H.
  destruct (has (v_supp (cl_ver c)) (sh_ver h)) eqn:Hv; [|discriminate].
  destruct (get_cipher_spec (gcfg_client c (set_ngtd (sh_ver h))) (fun _ => true) (sh_suite h)) as [su|] eqn:G; [|discriminate].
  destruct (N.eqb_spec (s_id su) 0) as [Z|Z]; [discriminate|].
  destruct ((s_type su =? c_CS_TLS13) || negb (client_offered c k (sh_suite h))) eqn:O; [discriminate|].
  apply orb_false_iff in O. destruct O as [T O]. apply negb_false_iff in O. apply N.eqb_neq in T.
  destruct (negb (sh_comp h =? 0)); [discriminate|].
  pose proof (gcs_some _ _ _ _ G) as [F [_ [_ [_ [V2 _]]]]]. pose proof (gcs_usable _ _ _ _ G) as [Hid U].
  assert (N13 : has (sh_ver h) c_v_tls_1_3_any = false).
  { destruct (has (sh_ver h) c_v_tls_1_3_any) eqn:E; [|reflexivity]. exfalso.
    cbn [gcfg_client g_supp g_active] in V2. rewrite ngtd_set in V2 by reflexivity. rewrite E in V2.
    assert (Sz : (v_supp (cl_ver c) =? 0) = false).
    { apply N.eqb_neq. intro Sz. rewrite Sz in Hv. rewrite has_zero_l in Hv. discriminate. }
    rewrite Sz in V2. cbn [negb andb] in V2.
    destruct (N.eqb_spec (s_type su) c_CS_TLS13); [contradiction|]. destruct (N.eqb_spec (s_type su) c_CS_NULL) as [En|En]; [|cbn in V2; discriminate].
    destruct (find_suite_id _ _ F) as [_ Hin]. apply Z. apply null_type_is_null; assumption. }
  rewrite ngtd_set in H by reflexivity. rewrite N13 in H.
  set (r := if sh_ext_bytes h =? 0 then Ok (cl_ems_sent c, false)
            else if sh_ext_bytes h <? 2 then Err c_SSL_ALERT_DECODE_ERROR
            else match legacy_exts (if has (set_ngtd (sh_ver h)) c_v_tls_with_unsupported_extension_alert
                                    then c_SSL_ALERT_UNSUPPORTED_EXTENSION else c_SSL_ALERT_ILLEGAL_PARAMETER) (sh_exts h) (cl_ems_sent c) false with
                 | Err a0 => Err a0
                 | Ok (req, ems) => if req && cl_ems_required c then Err c_SSL_ALERT_HANDSHAKE_FAILURE else Ok (req, ems)
                 end) in *.
  destruct r as [[req ems]|] eqn:R; [|discriminate].
  destruct (downgrade_check (v_supp (cl_ver c)) (sh_tail h)) as [[]|] eqn:D; [|discriminate].
  destruct (req && cl_ems_required c) eqn:Q; [discriminate|]. inversion H; subst a.
  assert (Hsu : s_id su = sh_suite h) by exact Hid.
  constructor; auto.
  - exists ems. reflexivity.
  - rewrite <- Hsu. exact Z.
  - intros S. eapply downgrade_ok; eauto.
  - intros Rq Sn. f_equal. rewrite Rq in Q. rewrite andb_true_r in Q. subst req.
    subst r. destruct (sh_ext_bytes h =? 0); [inversion R; congruence|]. destruct (sh_ext_bytes h <? 2); [discriminate|].
    destruct (legacy_exts _ (sh_exts h) (cl_ems_sent c) false) as [[rq em]|] eqn:LE; [|discriminate].
    destruct (rq && cl_ems_required c); [discriminate|]. inversion R; subst rq em.
    destruct (legacy_exts_inv _ _ _ _ _ _ LE) as [_ [B _]]. apply B; auto.
Qed.

Lemma tls13_exts_inv : forall supp l sv ks psk forb v ks' psk' forb',
  tls13_exts supp l sv ks psk forb = T13Go (Some v) ks' psk' forb' ->
  sv = Some v \/ (has supp v = true /\ has v c_v_tls_1_3_any = true).
Proof.
  induction l as [|e l IH]; intros sv ks psk forb v ks' psk' forb' H; cbn [tls13_exts] in H.
  - inversion H; subst. left; reflexivity.
  - destruct e as [len|w|er|er|sol al].
    + eapply IH; eauto.
    + destruct (has supp w) eqn:S; [|discriminate]. cbn [negb] in H. destruct (has w c_v_tls_1_3_any) eqn:T; [|discriminate].
      destruct (IH _ _ _ _ _ _ _ _ H) as [E|E]; [inversion E; subst; right; auto | right; exact E].
    + destruct (er =? c_SSL_ALERT_NONE); [|discriminate]. eapply IH; eauto.
    + destruct (er =? c_SSL_ALERT_NONE); [|discriminate]. eapply IH; eauto.
    + eapply IH; eauto.
Qed.

(* everything the client has checked when it accepts a ServerHello *)
Record client_acc (c : client_cfg) (k : N -> bool) (h : server_hello) (a : accepted) : Prop := {
  ca_version : has (v_supp (cl_ver c)) (acc_version a) = true;
  ca_offered : client_offered c k (acc_suite a) = true;
  ca_suite : acc_suite a = sh_suite h /\ acc_suite a <> 0;
  ca_usable : suite_usable (gcfg_client c (set_ngtd (acc_version a))) (fun _ => true) (acc_suite a);
  ca_legacy : forall v s e, a = AccLegacy v s e ->
              has v c_v_tls_1_3_any = false /\
              (has (v_supp (cl_ver c)) c_v_tls_1_3 = true -> is_sentinel (sh_tail h) = false) /\
              (cl_ems_required c = true -> cl_ems_sent c = true -> e = true)
}.

Theorem client_sh_ok : forall c k h a, client_server_hello c k h = ShAcc a -> client_acc c k h a.
Proof.
  intros c k h a H.
  assert (L : of_res (legacy_server_hello c k h) = ShAcc a -> client_acc c k h a).
  { intros E. destruct (legacy_server_hello c k h) as [a'|] eqn:LS; [|discriminate]. cbn in E. inversion E; subst a'.
    destruct (legacy_sh_ok _ _ _ _ LS) as [[e Sh] Vv N13 Of Us Nn Se Em]. subst a. cbn [acc_version acc_suite].
    constructor; auto. intros v s e' E'. inversion E'; subst. repeat split; auto.
    intros R S. specialize (Em R S). inversion Em. reflexivity. }
  unfold client_server_hello in H.
  destruct (negb (has (v_supp (cl_ver c)) c_v_tls_1_3_any)); [auto|].
  destruct (sh_ext_bytes h <? 8); [auto|].
  destruct (tls13_exts (v_supp (cl_ver c)) (sh_exts h) None false false false) as [al|lv|sv ks psk forb] eqn:T; [discriminate | destruct (lv =? sh_rec_ver h); discriminate |].
  destruct sv as [v|]; [|auto].
  destruct forb; [discriminate|]. destruct (negb ks && negb psk); [discriminate|]. destruct (sh_hrr h); [discriminate|].
  destruct (get_cipher_spec (gcfg_client c (set_ngtd v)) (fun _ => true) (sh_suite h)) as [su|] eqn:G; [|discriminate].
  destruct ((s_id su =? 0) || negb (client_offered c k (sh_suite h))) eqn:O; [discriminate|].
  destruct (negb (sh_comp h =? 0)); [discriminate|]. inversion H; subst a. cbn [acc_version acc_suite].
  apply orb_false_iff in O. destruct O as [Z O]. apply negb_false_iff in O. apply N.eqb_neq in Z.
  destruct (tls13_exts_inv _ _ _ _ _ _ _ _ _ _ T) as [E|[S _]]; [discriminate|].
  pose proof (gcs_usable _ _ _ _ G) as [Hid U].
  constructor; auto.
  - split; [reflexivity | rewrite <- Hid; exact Z].
  - intros v' s' e' E'. discriminate.
Qed.

(* ================================================================== fallback SCSV *)
(* on well-formed configurations the scan of psVerGetHighestTls finds every enabled TLS version *)
Lemma set_of_small : forall l, Forall valid_ver l -> set_of l = N.land (set_of l) 4095.
Proof.
  induction l as [|a l IH]; intros H; [reflexivity|]. inversion H; subst. cbn [set_of fold_right].
  change (fold_right N.lor 0 l) with (set_of l). rewrite N.land_lor_distr_l. rewrite <- (IH H3). f_equal.
  apply valid_cases in H2. intuition; subst; reflexivity.
Qed.
Lemma land_4095_lt : forall x, N.land x 4095 < 4096.
Proof.
  intros x. change 4095 with (N.ones 12). rewrite N.land_ones. apply N.mod_lt. discriminate.
Qed.
Lemma highest_bf :
  forallb (fun s => forallb (fun w => forallb (fun b =>
             implb (has s w && (b || has c_v_tls_any w) && has (N.lor c_v_tls_any c_v_dtls_any) w) (w <=? ver_get_highest s b)) [true; false])
           c_all_versions) (map N.of_nat (seq 0 4096)) = true.
Proof. vm_compute. reflexivity. Qed.
Lemma highest_ge : forall s w b, wf_vcfg s -> enabled s w -> has (N.lor c_v_tls_any c_v_dtls_any) w = true ->
  (b = true \/ has c_v_tls_any w = true) -> w <= ver_get_highest (v_supp s) b.
Proof.
  intros s w b [Hs Hv] Hw Ht Hb.
  assert (Hlt : v_supp s < 4096) by (rewrite Hs, (set_of_small _ Hv); apply land_4095_lt).
  pose proof highest_bf as P. rewrite forallb_forall in P.
  assert (Hin : In (v_supp s) (map N.of_nat (seq 0 4096))).
  { apply in_map_iff. exists (N.to_nat (v_supp s)). split; [apply N2Nat.id|]. apply in_seq. lia. }
  specialize (P _ Hin). rewrite forallb_forall in P.
  rewrite Forall_forall in Hv. specialize (P w (Hv _ Hw)). rewrite forallb_forall in P.
  assert (Hbin : In b [true; false]) by (destruct b; cbn; auto). specialize (P b Hbin).
  rewrite Hs in P at 1. rewrite (In_has_set_of _ _ (valid_nonzero _ (Hv _ Hw)) Hw), Ht in P.
  assert (Hc : b || has c_v_tls_any w = true) by (destruct Hb as [-> | ->]; [reflexivity | apply orb_true_r]).
  rewrite Hc in P. cbn in P. apply N.leb_le. exact P.
Qed.

Theorem scsv_refused : forall s k kf h w, wf_vcfg (sv_ver s) ->
  In c_TLS_FALLBACK_SCSV (h_suites h) ->
  enabled (sv_ver s) w -> has (N.lor c_v_tls_any c_v_dtls_any) w = true -> same_family w (ch_legacy (h_ver h)) -> ch_legacy (h_ver h) < w ->
  (forall v su e, server_client_hello s k kf h <> Ok (AccLegacy v su e)) /\
  (has (v_supp (sv_ver s)) c_v_tls_1_3_any = false -> server_client_hello s k kf h = Err c_SSL_ALERT_INAPPROPRIATE_FALLBACK).
Proof.
  intros s k kf h w Hwf Hscsv Hw Ht Hfam Hlt.
  assert (Hge : w <= ver_get_highest (v_supp (sv_ver s)) (has (ch_legacy (h_ver h)) c_v_dtls_any)).
  { apply highest_ge; auto. unfold same_family in Hfam. destruct (has (ch_legacy (h_ver h)) c_v_dtls_any) eqn:Hld; [left; reflexivity|].
    right. rewrite has_lor in Ht. apply orb_true_iff in Ht. destruct Ht as [Ht|Ht]; [exact Ht|].
    (* w is a DTLS version but the client_version is not: excluded by same_family *)
    exfalso. destruct Hwf as [_ Hv]. rewrite Forall_forall in Hv. specialize (Hv _ Hw). apply valid_cases in Hv.
    assert (Hd : has w c_v_dtls_any = true).
    { clear - Hv Ht. intuition; subst; vm_compute in Ht; try discriminate; reflexivity. }
    rewrite Hd in Hfam. discriminate. }
  assert (C : mem c_TLS_FALLBACK_SCSV (h_suites h) && scsv_inappropriate (v_supp (sv_ver s)) (ch_legacy (h_ver h)) = true).
  { apply andb_true_iff. split; [apply mem_In; exact Hscsv | unfold scsv_inappropriate; apply N.ltb_lt; lia]. }
  assert (L : forall nv, legacy_client_hello s k kf h nv = Err c_SSL_ALERT_INAPPROPRIATE_FALLBACK).
  { intros nv. unfold legacy_client_hello. rewrite C. reflexivity. }
  split.
  - intros v su e E. unfold server_client_hello in E. destruct (has (v_supp (sv_ver s)) c_v_tls_1_3_any).
    + destruct (server_negotiate_version (sv_ver s) (h_ver h) (got13 h)) as [v'|]; [|discriminate].
      destruct (has v' c_v_tls_1_3_any).
      * destruct (choose_suite _ _ _ _); discriminate.
      * rewrite L in E. discriminate.
    + rewrite L in E. discriminate.
  - intros N13. unfold server_client_hello. rewrite N13. apply L.
Qed.

(* ================================================================== TLS 1.3 group and signature algorithm *)
Lemma key_share_group_sound : forall ours shares g, key_share_group ours shares = Some g -> In g ours /\ In g shares.
Proof.
  induction shares as [|x r IH]; intros g H; [discriminate|]. cbn [key_share_group] in H.
  destruct (mem x ours) eqn:M.
  - inversion H; subst. split; [apply mem_In; exact M | left; reflexivity].
  - destruct (IH _ H). split; [assumption | right; assumption].
Qed.

Theorem group_sigalg_in_both :
  (* group taken from the client's key shares *)
  (forall ours shares g, key_share_group ours shares = Some g -> In g ours /\ In g shares) /\
  (* the client continues only with a group it sent a share for *)
  (forall cshares g, client_accept_share_group cshares g = Ok tt -> In g cshares) /\
  (* HelloRetryRequest group: the server's pick is its own; the client accepts it only from its supported_groups *)
  (forall ours cgroups cshares g, negotiate_group ours cgroups = g -> ours <> [] ->
     client_accept_hrr_group cgroups cshares g = Ok tt -> In g ours /\ In g cgroups /\ ~ In g cshares) /\
  (* signature algorithm: usable with the server's key and sent by the client; the client accepts only its own list *)
  (forall ours peer a, choose_sigalg ours peer = Some a -> In a ours /\ In a peer) /\
  (forall supported a, client_accept_sigalg supported a = true -> In a supported).
Proof.
  repeat split.
  - apply (key_share_group_sound _ _ _ H).
  - apply (key_share_group_sound _ _ _ H).
  - intros cshares g H. unfold client_accept_share_group in H. destruct (mem g cshares) eqn:M; [apply mem_In; exact M | discriminate].
  - unfold negotiate_group in H. destruct (ips ours cgroups []) eqn:I.
    + subst. apply ips_sound in I. tauto.
    + subst. destruct ours; [contradiction | left; reflexivity].
  - unfold client_accept_hrr_group in H1. destruct (mem g cgroups) eqn:M; [apply mem_In; exact M | discriminate].
  - unfold client_accept_hrr_group in H1. destruct (mem g cgroups); [|discriminate]. cbn [negb] in H1.
    destruct (mem g cshares) eqn:M; [discriminate | apply mem_false; exact M].
  - unfold choose_sigalg in H. apply ips_sound in H. tauto.
  - unfold choose_sigalg in H. apply ips_sound in H. tauto.
  - intros supported a H. apply mem_In. exact H.
Qed.

(* non-vacuity *)
Example scsv_ex : server_client_hello {| sv_ver := peer_of [16; 4]; sv_disabled_global := []; sv_disabled := []; sv_require_ems := false |}
                    (fun _ => true) (fun _ => true)
                    {| h_ver := {| ch_legacy := 4; ch_sv := None |}; h_suites := [49199; 22016]; h_null_comp := true; h_ems := None |}
                  = Err c_SSL_ALERT_INAPPROPRIATE_FALLBACK.
Proof. vm_compute. reflexivity. Qed.
Example sentinel_ex : (* 1.3-capable client, TLS 1.2 ServerHello WITHOUT extensions carrying the sentinel: refused *)
  client_server_hello {| cl_ver := peer_of [2048; 16]; cl_offered := Some [49199; 4865]; cl_disabled_global := []; cl_ems_sent := true; cl_ems_required := false |}
    (fun _ => true)
    {| sh_rec_ver := 16; sh_ver := 16; sh_tail := c_sentinel_tls12; sh_hrr := false; sh_suite := 49199; sh_comp := 0; sh_ext_bytes := 0; sh_exts := [] |}
  = ShErr c_SSL_ALERT_ILLEGAL_PARAMETER.
Proof. vm_compute. reflexivity. Qed.
Example accept_ex :
  client_server_hello {| cl_ver := peer_of [2048; 16]; cl_offered := Some [49199; 4865]; cl_disabled_global := []; cl_ems_sent := true; cl_ems_required := false |}
    (fun _ => true)
    {| sh_rec_ver := 16; sh_ver := 16; sh_tail := [1;2;3;4;5;6;7;8]; sh_hrr := false; sh_suite := 49199; sh_comp := 0; sh_ext_bytes := 0; sh_exts := [] |}
  = ShAcc (AccLegacy 16 49199 false).
Proof. vm_compute. reflexivity. Qed.
Example not_offered_ex : (* the design-time witness: client offered c02f only, server answers 002f *)
  client_server_hello {| cl_ver := peer_of [16]; cl_offered := Some [49199]; cl_disabled_global := []; cl_ems_sent := true; cl_ems_required := false |}
    (fun _ => true)
    {| sh_rec_ver := 16; sh_ver := 16; sh_tail := [1;2;3;4;5;6;7;8]; sh_hrr := false; sh_suite := 47; sh_comp := 0; sh_ext_bytes := 0; sh_exts := [] |}
  = ShErr c_SSL_ALERT_ILLEGAL_PARAMETER.
Proof. vm_compute. reflexivity. Qed.

(* ================================================================== statements used by Properties_C07.v *)
Lemma tls13_exts_src : forall supp l sv ks psk forb v ks' psk' forb',
  tls13_exts supp l sv ks psk forb = T13Go (Some v) ks' psk' forb' -> sv = Some v \/ In (XSuppVer v) l.
Proof.
  induction l as [|e l IH]; intros sv ks psk forb v ks' psk' forb' H; cbn [tls13_exts] in H.
  - inversion H; subst. left; reflexivity.
  - destruct e as [len|w|er|er|sol al].
    + destruct (IH _ _ _ _ _ _ _ _ H); [left | right; right]; assumption.
    + destruct (negb (has supp w)); [discriminate|]. destruct (has w c_v_tls_1_3_any); [|discriminate].
      destruct (IH _ _ _ _ _ _ _ _ H) as [E|E]; [inversion E; subst; right; left; reflexivity | right; right; exact E].
    + destruct (er =? c_SSL_ALERT_NONE); [|discriminate]. destruct (IH _ _ _ _ _ _ _ _ H); [left | right; right]; assumption.
    + destruct (er =? c_SSL_ALERT_NONE); [|discriminate]. destruct (IH _ _ _ _ _ _ _ _ H); [left | right; right]; assumption.
    + destruct (IH _ _ _ _ _ _ _ _ H); [left | right; right]; assumption.
Qed.

Lemma client_version_src : forall c k h a, client_server_hello c k h = ShAcc a ->
  acc_version a = sh_ver h \/ In (XSuppVer (acc_version a)) (sh_exts h).
Proof.
  intros c k h a H.
  assert (L : of_res (legacy_server_hello c k h) = ShAcc a -> acc_version a = sh_ver h).
  { intros E. destruct (legacy_server_hello c k h) as [a'|] eqn:LS; [|discriminate]. cbn in E. inversion E; subst a'.
    destruct (legacy_sh_ok _ _ _ _ LS) as [[e Sh] _ _ _ _ _ _ _]. subst a. reflexivity. }
  unfold client_server_hello in H.
  destruct (negb (has (v_supp (cl_ver c)) c_v_tls_1_3_any)); [left; auto|].
  destruct (sh_ext_bytes h <? 8); [left; auto|].
  destruct (tls13_exts (v_supp (cl_ver c)) (sh_exts h) None false false false) as [al|lv|sv ks psk forb] eqn:T; [discriminate | destruct (lv =? sh_rec_ver h); discriminate |].
  destruct sv as [v|]; [|left; auto].
  destruct forb; [discriminate|]. destruct (negb ks && negb psk); [discriminate|]. destruct (sh_hrr h); [discriminate|].
  destruct (get_cipher_spec _ _ _); [|discriminate]. destruct (_ || _); [discriminate|]. destruct (negb _); [discriminate|].
  inversion H; subst a. cbn [acc_version]. destruct (tls13_exts_src _ _ _ _ _ _ _ _ _ _ T) as [E|E]; [discriminate | right; exact E].
Qed.

Theorem client_version_check : forall c k h a, wf_vcfg (cl_ver c) -> sh_decoded h ->
  client_server_hello c k h = ShAcc a -> enabled (cl_ver c) (acc_version a).
Proof.
  intros c k h a [Hs Hv] [Hd He] H. pose proof (client_sh_ok _ _ _ _ H) as [Vv _ _ _ _].
  assert (Dv : decoded (acc_version a)).
  { destruct (client_version_src _ _ _ _ H) as [E|E]; [rewrite E; exact Hd|].
    rewrite Forall_forall in He. exact (He _ E). }
  destruct Dv as [Z|Dv]; [rewrite Z, has_zero_r in Vv; discriminate|].
  unfold enabled. rewrite Hs in Vv. apply has_set_of_In; assumption.
Qed.

Theorem suite_in_both_and_offered :
  (forall s k kf h a, server_client_hello s k kf h = Ok a ->
     In (acc_suite a) (h_suites h) /\ suite_usable (gcfg_server s (set_ngtd (acc_version a))) k (acc_suite a) /\ acc_suite a <> 0) /\
  (forall c k h a, client_server_hello c k h = ShAcc a ->
     acc_suite a = sh_suite h /\ offered_spec c k (acc_suite a) /\
     suite_usable (gcfg_client c (set_ngtd (acc_version a))) (fun _ => true) (acc_suite a) /\ acc_suite a <> 0).
Proof.
  split; [exact server_suite_ok|]. intros c k h a H. destruct (client_sh_ok _ _ _ _ H) as [_ Of [Su Nz] Us _].
  repeat split; auto. unfold offered_spec. unfold client_offered in Of. destruct (cl_offered c); apply mem_In; exact Of.
Qed.

Theorem sentinel_refused : forall c k h v s e, has (v_supp (cl_ver c)) c_v_tls_1_3 = true ->
  client_server_hello c k h = ShAcc (AccLegacy v s e) -> is_sentinel (sh_tail h) = false /\ has v c_v_tls_1_3_any = false.
Proof.
  intros c k h v s e S H. destruct (client_sh_ok _ _ _ _ H) as [_ _ _ _ Lg]. destruct (Lg v s e eq_refl) as [A [B _]]. auto.
Qed.

Theorem ems_required :
  (forall c k h v s e, cl_ems_required c = true -> cl_ems_sent c = true ->
     client_server_hello c k h = ShAcc (AccLegacy v s e) -> e = true) /\
  (forall s k kf h v su e, sv_require_ems s = true -> server_client_hello s k kf h = Ok (AccLegacy v su e) -> e = true).
Proof.
  split.
  - intros c k h v s e R S H. destruct (client_sh_ok _ _ _ _ H) as [_ _ _ _ Lg]. destruct (Lg v s e eq_refl) as [_ [_ C]]. auto.
  - intros s k kf h v su e R H. unfold server_client_hello in H.
    assert (L : forall nv, legacy_client_hello s k kf h nv = Ok (AccLegacy v su e) -> e = true).
    { intros nv Hl. unfold legacy_client_hello in Hl. destruct (_ && _); [discriminate|]. destruct (negb (h_null_comp h)); [discriminate|].
      rewrite R in Hl. destruct (h_ems h) as [[|p]|]; cbn in Hl; try discriminate.
      destruct nv; [|discriminate]. destruct (choose_suite _ _ _ _); [|discriminate]. destruct (_ =? 0); [discriminate|]. inversion Hl; reflexivity. }
    destruct (has (v_supp (sv_ver s)) c_v_tls_1_3_any); [|eauto].
    destruct (server_negotiate_version _ _ _); [|discriminate]. destruct (has _ c_v_tls_1_3_any); [|eauto].
    destruct (choose_suite _ _ _ _); discriminate.
Qed.

(* ================================================================== enable/disable histories (matrixSslSetCipherSuiteEnabledStatus) *)
Lemma mem_cons : forall x a l, mem x (a :: l) = (x =? a) || mem x l.
Proof. reflexivity. Qed.

Lemma disable_slot_mem : forall s b s', disable_slot s b = Some s' -> mem b s' = true.
Proof.
  induction s as [|a s IH]; intros b s' H; cbn [disable_slot] in H; [discriminate|].
  destruct ((a =? 0) || (a =? b)).
  - inversion H; subst. rewrite mem_cons, N.eqb_refl. reflexivity.
  - destruct (disable_slot s b) eqn:E; [|discriminate]. inversion H; subst. rewrite mem_cons, (IH _ _ E). apply orb_true_r.
Qed.
Lemma disable_slot_pres : forall s b s' x, disable_slot s b = Some s' -> x <> b -> x <> 0 -> mem x s' = mem x s.
Proof.
  induction s as [|a s IH]; intros b s' x H Hb H0; cbn [disable_slot] in H; [discriminate|].
  destruct ((a =? 0) || (a =? b)) eqn:C.
  - inversion H; subst. rewrite !mem_cons. f_equal. apply orb_true_iff in C.
    destruct C as [C|C]; apply N.eqb_eq in C; subst; destruct (N.eqb_spec x b); destruct (N.eqb_spec x 0); try contradiction; try reflexivity.
  - destruct (disable_slot s b) eqn:E; [|discriminate]. inversion H; subst. rewrite !mem_cons, (IH _ _ _ E Hb H0). reflexivity.
Qed.
Lemma enable_slot_pres : forall s b x, x <> b -> x <> 0 -> mem x (enable_slot s b) = mem x s.
Proof.
  induction s as [|a s IH]; intros b x Hb H0; [reflexivity|]. cbn [enable_slot]. destruct (N.eqb_spec a b).
  - subst. rewrite !mem_cons. destruct (N.eqb_spec x 0); [contradiction|]. destruct (N.eqb_spec x b); [contradiction | reflexivity].
  - rewrite !mem_cons, IH by assumption. reflexivity.
Qed.
Lemma mem_filter_neq : forall x b l, mem x (filter (fun y => negb (y =? b)) l) = mem x l && negb (x =? b).
Proof.
  induction l as [|a l IH]; [reflexivity|]. cbn [filter]. destruct (N.eqb_spec a b).
  - subst. cbn [negb]. rewrite IH, mem_cons. destruct (N.eqb_spec x b); cbn; [rewrite andb_false_r; reflexivity | reflexivity].
  - cbn [negb]. rewrite !mem_cons, IH. destruct (N.eqb_spec x a); [subst; destruct (N.eqb_spec a b); [contradiction | reflexivity] | reflexivity].
Qed.

(* one step: the flags "currently disabled" (session / global) stay below "is on the list" *)
Lemma set_status_sound : forall st op st' c id accs accg, id <> 0 -> set_status st op = (st', c) ->
  (accs = true -> mem id (d_slots st) = true) -> (accg = true <-> mem id (d_global st) = true) ->
  let accs' := match c with RcOk => let '(g, i) := op_target op in if Bool.eqb g false && (i =? id) then op_disables op else accs | _ => accs end in
  let accg' := match c with RcOk => let '(g, i) := op_target op in if Bool.eqb g true && (i =? id) then op_disables op else accg | _ => accg end in
  (accs' = true -> mem id (d_slots st') = true) /\ (accg' = true <-> mem id (d_global st') = true).
Proof.
  intros st op st' c id accs accg Hid H Hs Hg. destruct op as [b|b|b|b]; cbn [set_status] in H; destruct (negb (in_table b)); try (inversion H; subst; cbn; tauto).
  - destruct (disable_slot (d_slots st) b) eqn:E; inversion H; subst; cbn [op_target op_disables Bool.eqb andb d_slots d_global]; [|tauto].
    split; [|exact Hg]. destruct (N.eqb_spec b id).
    + subst. intros _. eapply disable_slot_mem; eauto.
    + intros A. rewrite (disable_slot_pres _ _ _ id E); auto.
  - inversion H; subst; cbn [op_target op_disables Bool.eqb andb d_slots d_global]. split; [|exact Hg]. destruct (N.eqb_spec b id).
    + discriminate.
    + intros A. rewrite enable_slot_pres; auto.
  - inversion H; subst; cbn [op_target op_disables Bool.eqb andb d_slots d_global]. split; [exact Hs|]. destruct (N.eqb_spec b id).
    + subst. destruct (mem id (d_global st)) eqn:M; [tauto|]. rewrite mem_cons, N.eqb_refl. tauto.
    + destruct (mem b (d_global st)); [exact Hg|]. rewrite mem_cons. destruct (N.eqb_spec id b); [subst; contradiction | exact Hg].
  - inversion H; subst; cbn [op_target op_disables Bool.eqb andb d_slots d_global]. split; [exact Hs|]. rewrite mem_filter_neq. destruct (N.eqb_spec b id).
    + subst. rewrite N.eqb_refl. cbn. rewrite andb_false_r. split; discriminate.
    + destruct (N.eqb_spec id b); [subst; contradiction|]. cbn. rewrite andb_true_r. exact Hg.
Qed.

Lemma history_inv : forall ops st id accs accg, id <> 0 ->
  (accs = true -> mem id (d_slots st) = true) -> (accg = true <-> mem id (d_global st) = true) ->
  (cur_disabled false id (combine ops (snd (run_ops st ops))) accs = true -> mem id (d_slots (fst (run_ops st ops))) = true) /\
  (cur_disabled true id (combine ops (snd (run_ops st ops))) accg = true <-> mem id (d_global (fst (run_ops st ops))) = true).
Proof.
  induction ops as [|op ops IH]; intros st id accs accg Hid Hs Hg; [cbn; tauto|].
  cbn [run_ops]. destruct (set_status st op) as [st1 c] eqn:E. destruct (run_ops st1 ops) as [st2 cs] eqn:R. cbn [fst snd combine cur_disabled].
  pose proof (set_status_sound _ _ _ _ id accs accg Hid E Hs Hg) as [A B].
  assert (R1 : st2 = fst (run_ops st1 ops)) by (rewrite R; reflexivity). assert (R2 : cs = snd (run_ops st1 ops)) by (rewrite R; reflexivity).
  destruct c.
  - destruct (op_target op) as [g i] eqn:T. subst st2 cs.
    replace (Bool.eqb g false && (i =? id)) with (Bool.eqb g false && (i =? id)) in * by reflexivity.
    assert (Hgl : forall glob acc, (if Bool.eqb g glob && (i =? id) then op_disables op else acc) =
                                   (if Bool.eqb g glob && (i =? id) then op_disables op else acc)) by reflexivity.
    destruct (IH st1 id (if Bool.eqb g false && (i =? id) then op_disables op else accs)
                        (if Bool.eqb g true && (i =? id) then op_disables op else accg) Hid A B) as [P Q]. split; assumption.
  - subst st2 cs. exact (IH st1 id accs accg Hid A B).
  - subst st2 cs. exact (IH st1 id accs accg Hid A B).
Qed.

Lemma gcs_disabled_none : forall g k id, id <> 0 ->
  mem id (g_disabled_global g) = true \/ mem id (g_disabled g) = true -> get_cipher_spec g k id = None.
Proof.
  intros g k id Hid H. destruct (get_cipher_spec g k id) eqn:G; [|reflexivity]. exfalso.
  apply gcs_some in G. destruct G as [_ [D1 [D2 _]]]. destruct H as [H|H]; [congruence|].
  destruct (N.eqb_spec id 0); [contradiction|]. cbn [negb andb] in D2. congruence.
Qed.

(* MAIN: after ANY history of enable/disable calls, a suite whose last successful operation was a disable (per session or
   globally) is refused by sslGetCipherSpec, hence never chosen; globally the converse holds as well *)
Theorem disabled_history_sound : forall ops id server supp active k,
  id <> 0 ->
  (cur_disabled false id (combine ops (snd (run_ops dinit ops))) false = true \/
   cur_disabled true id (combine ops (snd (run_ops dinit ops))) false = true ->
     get_cipher_spec (scfg_after server supp active (fst (run_ops dinit ops))) k id = None /\
     forall kf suites s, choose_suite (scfg_after server supp active (fst (run_ops dinit ops))) k kf suites = Some s -> s_id s <> id) /\
  (mem id (d_global (fst (run_ops dinit ops))) = true <-> cur_disabled true id (combine ops (snd (run_ops dinit ops))) false = true).
Proof.
  intros ops id server supp active k Hid.
  assert (I0 : false = true -> mem id (d_slots dinit) = true) by discriminate.
  assert (I1 : false = true <-> mem id (d_global dinit) = true) by (split; discriminate).
  destruct (history_inv ops dinit id false false Hid I0 I1) as [P Q].
  assert (G : cur_disabled false id (combine ops (snd (run_ops dinit ops))) false = true \/
              cur_disabled true id (combine ops (snd (run_ops dinit ops))) false = true ->
              get_cipher_spec (scfg_after server supp active (fst (run_ops dinit ops))) k id = None).
  { intros H. apply gcs_disabled_none; [exact Hid|]. cbn [scfg_after g_disabled_global g_disabled].
    destruct H as [H|H]; [right; exact (P H) | left; apply Q; exact H]. }
  split; [|symmetry; exact Q]. intros H. split; [exact (G H)|].
  intros kf suites s C E. destruct (choose_suite_sound _ _ _ _ _ C) as [_ [B _]]. rewrite E, (G H) in B. discriminate.
Qed.

(* ---- the converse for the per-session list, for histories that never disable a suite already on the list
   (otherwise a second copy can be written into a hole in front of the first one and survives the next enable) *)
Definition cnt (x : N) (l : list N) : nat := count_occ N.eq_dec l x.
Lemma cnt_cons : forall x a l, cnt x (a :: l) = ((if N.eqb a x then 1 else 0) + cnt x l)%nat.
Proof. intros. unfold cnt. cbn [count_occ]. destruct (N.eq_dec a x) as [->|n]; [rewrite N.eqb_refl; reflexivity | destruct (N.eqb_spec a x); [contradiction | reflexivity]]. Qed.
Lemma mem_cnt : forall x l, mem x l = true <-> (cnt x l > 0)%nat.
Proof. intros. rewrite mem_In. unfold cnt. apply count_occ_In. Qed.
Lemma mem_cnt0 : forall x l, mem x l = false <-> cnt x l = O.
Proof.
  intros. pose proof (mem_cnt x l) as H. destruct (mem x l) eqn:M.
  - split; [discriminate|]. intros Z. destruct H as [H _]. specialize (H eq_refl). lia.
  - split; [|reflexivity]. intros _. destruct (cnt x l) eqn:C; [reflexivity|]. destruct H as [_ H].
    assert (K : (S n > 0)%nat) by lia. specialize (H K). discriminate.
Qed.

Lemma disable_slot_cnt : forall s b s' x, disable_slot s b = Some s' -> b <> 0 -> mem b s = false -> x <> 0 ->
  cnt x s' = (cnt x s + (if N.eqb x b then 1 else 0))%nat.
Proof.
  induction s as [|a s IH]; intros b s' x H Hb M Hx; cbn [disable_slot] in H; [discriminate|].
  rewrite mem_cons in M. apply orb_false_iff in M. destruct M as [M1 M2]. apply N.eqb_neq in M1.
  destruct (N.eqb_spec a 0) as [A0|A0].
  - cbn [orb] in H. inversion H; subst. rewrite !cnt_cons. destruct (N.eqb_spec 0 x); [congruence|].
    destruct (N.eqb_spec b x); destruct (N.eqb_spec x b); try congruence; lia.
  - destruct (N.eqb_spec a b); [congruence|]. cbn [orb] in H. destruct (disable_slot s b) eqn:E; [|discriminate]. inversion H; subst.
    rewrite !cnt_cons, (IH _ _ _ E Hb M2 Hx). lia.
Qed.
Lemma enable_slot_cnt : forall s b x, x <> 0 -> cnt x (enable_slot s b) = (cnt x s - (if N.eqb x b && mem b s then 1 else 0))%nat.
Proof.
  induction s as [|a s IH]; intros b x Hx; [cbn; destruct ((x =? b) && false); reflexivity|]. cbn [enable_slot]. rewrite mem_cons.
  destruct (N.eqb_spec a b) as [E|E].
  - subst. rewrite N.eqb_refl. cbn [orb]. rewrite !cnt_cons. destruct (N.eqb_spec 0 x); [congruence|].
    destruct (N.eqb_spec b x); destruct (N.eqb_spec x b); try congruence; cbn; lia.
  - destruct (N.eqb_spec b a); [congruence|]. cbn [orb]. rewrite !cnt_cons, IH by assumption.
    destruct (N.eqb_spec a x); [|lia]. subst. destruct (N.eqb_spec x b); [congruence|]. cbn. lia.
Qed.

Definition once (s : list N) : Prop := forall x, x <> 0 -> (cnt x s <= 1)%nat.

Lemma history_iff_inv : forall ops st id acc, id <> 0 -> once (d_slots st) -> no_redundant st ops = true ->
  (acc = true <-> mem id (d_slots st) = true) ->
  (cur_disabled false id (combine ops (snd (run_ops st ops))) acc = true <-> mem id (d_slots (fst (run_ops st ops))) = true).
Proof.
  induction ops as [|op ops IH]; intros st id acc Hid Ho Hn Ha; [cbn; exact Ha|].
  cbn [no_redundant] in Hn. apply andb_true_iff in Hn. destruct Hn as [Hn1 Hn2].
  cbn [run_ops]. destruct (set_status st op) as [st1 c] eqn:E. destruct (run_ops st1 ops) as [st2 cs] eqn:R. cbn [fst snd combine cur_disabled].
  cbn [fst] in Hn2.
  assert (R1 : st2 = fst (run_ops st1 ops)) by (rewrite R; reflexivity). assert (R2 : cs = snd (run_ops st1 ops)) by (rewrite R; reflexivity). subst st2 cs.
  destruct op as [b|b|b|b]; cbn [set_status] in E; destruct (in_table b) eqn:T; cbn [negb] in E;
    try (inversion E; subst; cbn [op_target]; apply IH; auto; fail).
  - (* DDis b *)
    apply negb_true_iff in Hn1.
    assert (Hb : b <> 0). { intro Z. subst. pose proof table_no_zero_id as P. rewrite forallb_forall in P. unfold in_table in T. apply existsb_exists in T.
      destruct T as [s0 [I0 Z0]]. specialize (P _ I0). rewrite Z0 in P. discriminate. }
    destruct (disable_slot (d_slots st) b) as [s'|] eqn:D; inversion E; subst; [|apply IH; auto].
    cbn [op_target op_disables Bool.eqb andb]. apply IH; auto; cbn [d_slots].
    + intros x Hx. rewrite (disable_slot_cnt _ _ _ x D Hb Hn1 Hx). destruct (N.eqb_spec x b); [subst; apply mem_cnt0 in Hn1; lia | specialize (Ho x Hx); lia].
    + destruct (N.eqb_spec b id).
      * subst. split; [intros _; eapply disable_slot_mem; eauto | reflexivity].
      * rewrite (disable_slot_pres _ _ _ id D); auto.
  - (* DEn b *)
    inversion E; subst. cbn [op_target op_disables Bool.eqb andb]. apply IH; auto; cbn [d_slots].
    + intros x Hx. rewrite enable_slot_cnt by assumption. specialize (Ho x Hx). lia.
    + destruct (N.eqb_spec b id).
      * subst. split; [discriminate|]. intros M. exfalso. apply mem_cnt in M. rewrite enable_slot_cnt in M by assumption.
        rewrite N.eqb_refl in M. cbn [andb] in M. specialize (Ho id Hid). destruct (mem id (d_slots st)) eqn:MM; [lia|]. apply mem_cnt0 in MM. lia.
      * rewrite enable_slot_pres; auto.
Qed.

Theorem disabled_history_iff_partial : forall ops id, id <> 0 -> no_redundant dinit ops = true ->
  (mem id (d_slots (fst (run_ops dinit ops))) = true <-> cur_disabled false id (combine ops (snd (run_ops dinit ops))) false = true).
Proof.
  intros ops id Hid Hn. symmetry. apply history_iff_inv; auto.
  - intros x Hx. unfold dinit, empty_slots. cbn [d_slots]. unfold cnt. rewrite count_occ_repeat_neq by congruence. lia.
  - split; [discriminate|]. unfold dinit, empty_slots. cbn [d_slots]. intros M. apply mem_In in M. apply repeat_spec in M. congruence.
Qed.

(* without that hypothesis the converse fails: disable A, disable B, re-enable A (hole in front of B), disable B again
   (second copy in the hole), enable B (only the first copy goes) - B stays refused although its last operation was an
   enable.  Fails closed; reproduced on the library by the correspondence run (corpus/C07/histories.case). *)
Example reenable_duplicate_witness :
  let ops := [DDis 49199; DDis 49200; DEn 49199; DDis 49200; DEn 49200] in
  cur_disabled false 49200 (combine ops (snd (run_ops dinit ops))) false = false /\
  mem 49200 (d_slots (fst (run_ops dinit ops))) = true.
Proof. vm_compute. split; reflexivity. Qed.

(* ================================================================== (D)TLS <= 1.2: ECDHE curve *)
Lemma land_lor_absorb : forall a b, N.land a (N.lor b a) = a.
Proof. intros. apply N.bits_inj. intro n. rewrite N.land_spec, N.lor_spec. destruct (N.testbit a n), (N.testbit b n); reflexivity. Qed.
Lemma land_lor_absorb_l : forall a b, N.land a (N.lor a b) = a.
Proof. intros. rewrite N.lor_comm. apply land_lor_absorb. Qed.

(* table fact: no curve flag overlaps the IS_RECVD_EXT marker *)
Lemma curve_flags_disjoint : forallb (fun p => N.land (snd p) c_IS_RECVD_EXT =? 0) c_curve_flags = true.
Proof. vm_compute. reflexivity. Qed.
Lemma assoc_In : forall k t, assoc k t <> 0 -> In (k, assoc k t) t.
Proof.
  induction t as [|[a b] t IH]; cbn [assoc]; intros H; [congruence|]. destruct (N.eqb_spec a k); [subst; left; reflexivity | right; auto].
Qed.
Lemma curve_flag_disjoint : forall g, N.land (curve_flag g) c_IS_RECVD_EXT = 0.
Proof.
  intros g. destruct (N.eq_dec (curve_flag g) 0) as [E|E]; [rewrite E; reflexivity|].
  pose proof curve_flags_disjoint as P. rewrite forallb_forall in P. specialize (P _ (assoc_In _ _ E)). apply N.eqb_eq in P. exact P.
Qed.

Lemma groups_loop_marked : forall cfg l acc cid, N.land acc c_IS_RECVD_EXT = c_IS_RECVD_EXT -> acc <> c_IS_RECVD_EXT ->
  snd (groups_loop cfg l acc cid) = cid /\ fst (groups_loop cfg l acc cid) <> c_IS_RECVD_EXT /\
  N.land (fst (groups_loop cfg l acc cid)) c_IS_RECVD_EXT = c_IS_RECVD_EXT.
Proof.
  induction l as [|g l IH]; intros acc cid Hs Hne; cbn [groups_loop]; [cbn; auto|].
  destruct (curve_enabled g cfg); [|apply IH; auto].
  destruct (N.eqb_spec acc c_IS_RECVD_EXT); [contradiction|]. apply IH.
  - rewrite N.land_lor_distr_l, Hs, curve_flag_disjoint. apply N.lor_0_r.
  - intro E. apply Hne. rewrite <- (land_lor_absorb_l acc (curve_flag g)), E. exact Hs.
Qed.

Theorem parse_groups_first : forall cfg l,
  snd (parse_supported_groups cfg l) = match first_enabled_in cfg l with Some g => g | None => 0 end /\
  has (fst (parse_supported_groups cfg l)) c_IS_RECVD_EXT = true.
Proof.
  intros cfg l. unfold parse_supported_groups, first_enabled_in.
  assert (R : N.land c_IS_RECVD_EXT c_IS_RECVD_EXT = c_IS_RECVD_EXT) by apply N.land_diag.
  assert (Hh : forall x, N.land x c_IS_RECVD_EXT = c_IS_RECVD_EXT -> has x c_IS_RECVD_EXT = true).
  { intros x E. unfold has. rewrite E. reflexivity. }
  induction l as [|g l IH]; cbn [groups_loop find]; [split; [reflexivity | apply Hh; exact R]|].
  destruct (curve_enabled g cfg) eqn:En; [|exact IH].
  rewrite N.eqb_refl.
  assert (Hne : N.lor c_IS_RECVD_EXT (curve_flag g) <> c_IS_RECVD_EXT).
  { intro E. unfold curve_enabled in En. apply andb_true_iff in En. destruct En as [En _]. apply negb_true_iff in En. apply N.eqb_neq in En.
    apply En. rewrite <- (land_lor_absorb (curve_flag g) c_IS_RECVD_EXT), E. apply curve_flag_disjoint. }
  assert (Hs : N.land (N.lor c_IS_RECVD_EXT (curve_flag g)) c_IS_RECVD_EXT = c_IS_RECVD_EXT).
  { rewrite N.land_lor_distr_l, R, curve_flag_disjoint. apply N.lor_0_r. }
  destruct (groups_loop_marked cfg l _ g Hs Hne) as [A [_ C]]. split; [exact A | apply Hh; exact C].
Qed.

Lemma curve_enabled_nonzero : forall g f, curve_enabled g f = true -> g <> 0.
Proof. intros g f H E. subst. vm_compute in H. discriminate. Qed.

(* server: the ECDHE curve is listed by the client (when it sent the extension), enabled for this session and compiled in;
   a ClientHello whose list has nothing in common with the session's set is refused *)
Theorem server_curve_ok : forall cfg groups c,
  (let '(fl, cid) := ec_after_hello cfg groups in server_ecdhe_curve fl cid) = Ok c -> curve_ok cfg groups c.
Proof.
  intros cfg groups c H. unfold curve_ok. destruct groups as [l|]; cbn [ec_after_hello] in H.
  - destruct (parse_supported_groups cfg l) as [fl cid] eqn:P.
    destruct (parse_groups_first cfg l) as [A B]. rewrite P in A, B. cbn [fst snd] in A, B.
    unfold server_ecdhe_curve in H. rewrite B in H. rewrite andb_true_r in H.
    destruct (N.eqb_spec cid 0) as [Z|Z]; [discriminate|]. destruct (N.eqb_spec cid 0); [contradiction|].
    destruct (mem cid c_ecc_curve_ids) eqn:M; [|discriminate]. inversion H; subst c.
    unfold first_enabled_in in A. destruct (find (fun g => curve_enabled g cfg) l) eqn:F; [|congruence]. subst cid.
    apply find_some in F. destruct F as [F1 F2]. repeat split; auto. apply mem_In; exact M.
  - unfold server_ecdhe_curve in H. cbn [N.eqb andb] in H.
    destruct (has cfg c_IS_RECVD_EXT); [discriminate|]. unfold first_enabled_curve in H.
    destruct (find (fun id => curve_enabled id cfg) c_ecc_curve_ids) as [c0|] eqn:F; [|discriminate].
    apply find_some in F. destruct F as [F1 F2]. destruct (N.eqb_spec c0 0); [discriminate|].
    destruct (mem c0 c_ecc_curve_ids); [|discriminate]. inversion H; subst. repeat split; auto.
Qed.
Theorem server_curve_disjoint_refused : forall cfg l,
  (forall g, In g l -> curve_enabled g cfg = false) ->
  (let '(fl, cid) := ec_after_hello cfg (Some l) in server_ecdhe_curve fl cid) = Err c_SSL_ALERT_HANDSHAKE_FAILURE.
Proof.
  intros cfg l H. cbn [ec_after_hello]. destruct (parse_supported_groups cfg l) as [fl cid] eqn:P.
  destruct (parse_groups_first cfg l) as [A B]. rewrite P in A, B. cbn [fst snd] in A, B.
  unfold first_enabled_in in A. destruct (find (fun g => curve_enabled g cfg) l) eqn:F.
  - apply find_some in F. destruct F as [F1 F2]. rewrite (H _ F1) in F2. discriminate.
  - subst cid. unfold server_ecdhe_curve. rewrite B. reflexivity.
Qed.

(* client: an accepted ServerKeyExchange names a curve the ClientHello listed, and (TLS 1.2) an algorithm we sent *)
Theorem client_ske_ok : forall q k, client_ske q k = Ok tt ->
  client_offered_group q (k_curve k) = true /\ k_sig_ok k = true /\
  (ngtd (q_active q) (N.lor c_v_tls_1_2 (N.lor c_v_dtls_1_2 c_v_tls_1_3_any)) = true -> exists a, k_alg k = Some a /\ In a (q_sigalgs q)).
Proof.
  intros q k H. unfold client_ske in H.
  destruct (negb (k_curve_type k =? 3)); [discriminate|]. destruct (negb (mem (k_curve k) c_ecdhe_groups)); [discriminate|].
  destruct (client_offered_group q (k_curve k)); [|discriminate]. cbn [negb] in H.
  destruct (negb (k_curve k =? c_namedgroup_x25519) && negb (mem (k_curve k) c_ecc_curve_ids)); [discriminate|].
  destruct (negb (k_point_ok k)); [destruct (k_curve k =? c_namedgroup_x25519); discriminate|].
  unfold tls_verify_alg in H. split; [reflexivity|].
  unfold ngtd. destruct (has (q_active q) (N.lor c_v_tls_1_2 (N.lor c_v_dtls_1_2 c_v_tls_1_3_any)) && has (q_active q) c_v_tls_negotiated) eqn:V.
  - destruct (k_alg k) as [a|]; [|discriminate]. destruct (mem a (q_sigalgs q)) eqn:M; [|discriminate]. cbn [negb] in H.
    destruct (tls_sigalg_hashlen a =? 0); [discriminate|].
    destruct (negb (q_rsa_suite q || mem a c_tls_rsa_sigalgs) && q_rsa_suite q); [discriminate|].
    destruct ((q_rsa_suite q || mem a c_tls_rsa_sigalgs) && q_dsa_suite q); [discriminate|].
    destruct (k_sig_ok k); [|discriminate]. split; [reflexivity|]. intros _. exists a. split; [reflexivity | apply mem_In; exact M].
  - destruct (negb (q_rsa_suite q) && q_rsa_suite q); [discriminate|]. destruct (q_rsa_suite q && q_dsa_suite q); [discriminate|].
    destruct (k_sig_ok k); [|discriminate]. split; [reflexivity | discriminate].
Qed.

(* ================================================================== (D)TLS 1.2: SignatureAndHashAlgorithm *)
(* the signer's choice is one the peer listed, or - last resort - the algorithm its certificate is signed with (which
   validateKeyForExtensions / parseCertificateRequest have matched against the peer's list beforehand) *)
Theorem choose_sigalg_sound : forall cert keyalg keysize mask a,
  choose_sigalg_int cert keyalg keysize mask = Some a -> peer_supports (Some a) mask = true \/ a = cert.
Proof.
  intros cert keyalg keysize mask a H. unfold choose_sigalg_int in H.
  set (a0 := if keyalg =? c_OID_RSA_KEY_ALG then if is_ecdsa_oid cert then ecdsa_to_rsa cert else cert
             else if keyalg =? c_OID_ECDSA_KEY_ALG then if is_ecdsa_oid cert then cert else rsa_to_ecdsa cert else cert) in *.
  destruct (assoc a0 c_oid_hashlen =? 0); [discriminate|].
  destruct (insecure_sigalg a0 keyalg keysize (assoc a0 c_oid_hashlen) || negb (can_use (Some a0) keyalg mask)) eqn:C.
  - destruct (can_use (upgrade_sigalg (Some a0) keyalg) keyalg mask) eqn:U1.
    + rewrite H in U1. unfold can_use in U1. apply andb_true_iff in U1. left; tauto.
    + destruct (can_use (upgrade_sigalg (upgrade_sigalg (Some a0) keyalg) keyalg) keyalg mask) eqn:U2.
      * rewrite H in U2. unfold can_use in U2. apply andb_true_iff in U2. left; tauto.
      * inversion H. right; reflexivity.
  - apply orb_false_iff in C. destruct C as [_ C]. apply negb_false_iff in C. inversion H; subst a. unfold can_use in C. apply andb_true_iff in C. left; tauto.
Qed.

(* the verifier of a CertificateVerify accepts only an algorithm whose class was both listed by the peer and is on our list *)
Lemma parse_sigalgs_shared : forall supported l shared peer m,
  N.land (fst (parse_sigalgs supported l shared peer)) m <> 0 ->
  N.land shared m <> 0 \/ exists a, In a l /\ In a supported /\ N.land (hash_sig_mask a) m <> 0.
Proof.
  induction l as [|a l IH]; intros shared peer m H; cbn [parse_sigalgs] in H; [left; exact H|].
  destruct (IH _ _ _ H) as [S|[a' [I1 [I2 I3]]]].
  - destruct (mem a supported) eqn:M; [|left; exact S].
    rewrite N.land_lor_distr_l in S. destruct (N.eq_dec (N.land shared m) 0) as [Z|Z]; [|left; exact Z].
    right. exists a. split; [left; reflexivity|]. split; [apply mem_In; exact M|]. rewrite Z, N.lor_0_l in S. exact S.
  - right. exists a'. split; [right; exact I1 | split; assumption].
Qed.
Theorem server_cv_alg_ok : forall supported l alg,
  server_cv_alg (fst (parse_sigalgs supported l 0 0)) alg = Ok tt ->
  exists a, In a l /\ In a supported /\ N.land (hash_sig_mask a) (hash_sig_mask alg) <> 0.
Proof.
  intros supported l alg H. unfold server_cv_alg in H.
  destruct (N.eqb_spec (N.land (fst (parse_sigalgs supported l 0 0)) (hash_sig_mask alg)) 0) as [Z|Z]; [discriminate|].
  destruct (parse_sigalgs_shared _ _ _ _ _ Z) as [S|S]; [rewrite N.land_0_l in S; congruence | exact S].
Qed.

Example disjoint_curves_ex : (* client {P-384}, server {P-256}: refused *)
  server_group 4 (Some [24]) 49199 = Err c_SSL_ALERT_HANDSHAKE_FAILURE.
Proof. vm_compute. reflexivity. Qed.
Example default_curve_ex : (* no extension, server enabled only P-384: P-384, not the library default P-256 *)
  server_group 8 None 49199 = Ok (Some 24).
Proof. vm_compute. reflexivity. Qed.
Example ske_unoffered_curve_ex : (* legacy client that listed P-384 only is shown P-256 *)
  client_ske {| q_tls13_hello := false; q_groups13 := []; q_ecflags := 8; q_sigalgs := [1025]; q_active := set_ngtd 16; q_rsa_suite := true; q_dsa_suite := false |}
             {| k_curve_type := 3; k_curve := 23; k_alg := Some 1025; k_point_ok := true; k_sig_ok := true |} = Err c_SSL_ALERT_ILLEGAL_PARAMETER.
Proof. vm_compute. reflexivity. Qed.
