(* What property C07 demands of a completed negotiation, stated without reference to the shape of the code:
   sets of enabled versions / suites / groups / algorithms per endpoint, "offered by the client", "highest common". *)
From Coq Require Import Sorted.
From MV Require Export Neg.NegModel.
Local Open Scope N_scope.

(* ---- versions *)
Definition valid_ver (v : N) : Prop := In v c_all_versions.                 (* one of the library's version identifiers *)
Definition decoded (v : N) : Prop := v = 0 \/ valid_ver v.                  (* result of psVerFromEncoding *)
(* an endpoint's configuration: the set is exactly the priority list's members *)
Definition wf_vcfg (s : vcfg) : Prop := v_supp s = set_of (v_prio s) /\ Forall valid_ver (v_prio s).
Definition enabled (s : vcfg) (v : N) : Prop := In v (v_prio s).
Definition same_family (a b : N) : Prop := has a c_v_dtls_any = has b c_v_dtls_any.
(* what a ClientHello offers: the supported_versions list, or - without that extension - everything up to client_version *)
Definition ch_offers (c : chv) (v : N) : Prop :=
  match ch_sv c with
  | Some l => In v l
  | None => v <= ch_legacy c /\ same_family v (ch_legacy c)
  end.
(* default priority: most recent first *)
Definition desc (l : list N) : Prop := StronglySorted N.gt l.
Definition ch_desc (c : chv) : Prop := match ch_sv c with Some l => desc l | None => True end.

(* v is enabled by the server and offered by the client; under default priorities it is the highest such version
   outside the list the server refuses for this hello *)
Definition version_ok (s : vcfg) (c : chv) (refused : list N) (v : N) : Prop :=
  enabled s v /\ ch_offers c v /\
  (desc (v_prio s) -> ch_desc c -> forall w, enabled s w -> ch_offers c w -> ~ In w refused -> w <= v).

(* ---- cipher suites *)
(* the suite is usable by this endpoint at the negotiated version: compiled in, not disabled, fits the version,
   (server) key material present *)
Definition suite_usable (g : scfg) (keyok : N -> bool) (id : N) : Prop :=
  exists s, In s (null_suite :: suite_table) /\ s_id s = id /\
    ~ In id (g_disabled_global g) /\ (id <> 0 -> ~ In id (g_disabled g)) /\
    (g_supp g <> 0 -> ngtd (g_active g) c_v_tls_no_sha2 = true -> hasf s c_CRYPTO_FLAGS_SHA2 = false /\ hasf s c_CRYPTO_FLAGS_SHA3 = false) /\
    (g_supp g <> 0 -> ngtd (g_active g) c_v_tls_1_3_any = true -> s_type s = c_CS_TLS13 \/ s_type s = c_CS_NULL) /\
    (g_server g = true -> keyok id = true).

Definition acc_version (a : accepted) : N := match a with Acc13 v _ => v | AccLegacy v _ _ => v end.
Definition acc_suite (a : accepted) : N := match a with Acc13 _ s => s | AccLegacy _ s _ => s end.

(* what the client's ClientHello offered *)
Definition offered_spec (c : client_cfg) (ckeyok : N -> bool) (id : N) : Prop :=
  match cl_offered c with
  | Some l => In id l
  | None => In id (default_suite_list (v_supp (cl_ver c)) ckeyok)
  end.

(* ---- hellos as decoded from the wire *)
Definition ext_decoded (e : ext) : Prop := match e with XSuppVer v => decoded v | _ => True end.
Definition sh_decoded (h : server_hello) : Prop := decoded (sh_ver h) /\ Forall ext_decoded (sh_exts h).
Definition ch_decoded (c : chv) : Prop :=
  decoded (ch_legacy c) /\ match ch_sv c with Some l => Forall valid_ver l | None => True end.

(* ---- enable/disable histories: what the application was told.  A suite is currently disabled (per session / globally)
   when the last operation on it that reported success was a disable. *)
Definition op_target (op : dop) : bool * N := match op with DDis i => (false, i) | DEn i => (false, i) | GDis i => (true, i) | GEn i => (true, i) end.
Definition op_disables (op : dop) : bool := match op with DDis _ | GDis _ => true | _ => false end.
Fixpoint cur_disabled (glob : bool) (id : N) (trace : list (dop * rc)) (acc : bool) : bool :=
  match trace with
  | [] => acc
  | (op, RcOk) :: r => let '(g, i) := op_target op in
                       cur_disabled glob id r (if Bool.eqb g glob && (i =? id) then op_disables op else acc)
  | _ :: r => cur_disabled glob id r acc
  end.
(* a history that never disables (per session) a suite that is already on the session's list *)
Fixpoint no_redundant (st : dstate) (ops : list dop) : bool :=
  match ops with
  | [] => true
  | op :: r => (match op with DDis i => negb (mem i (d_slots st)) | _ => true end) && no_redundant (fst (set_status st op)) r
  end.

(* ---- (D)TLS <= 1.2 key-exchange curve and signature algorithm *)
Definition first_enabled_in (cfg : N) (l : list N) : option N := find (fun g => curve_enabled g cfg) l.
(* the curve an ECDHE ServerKeyExchange may name: listed by the client (or, without the extension, any) and enabled by
   this server session, compiled in *)
Definition curve_ok (cfg : N) (groups : option (list N)) (c : N) : Prop :=
  curve_enabled c cfg = true /\ In c c_ecc_curve_ids /\
  match groups with Some l => In c l | None => True end.
