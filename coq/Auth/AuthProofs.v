(* Proofs for property C04 about the model of the REPAIRED code (Auth/AuthModel.v with [fixed]);
   the defects of the pinned code are kept as refutations ([pinned]). *)
From MV Require Import Auth.AuthModel Auth.AuthSpec.
Local Open Scope Z_scope.

(* ------------------------------------------------------------------ alerts the verdict mapping can choose *)
Definition alertset (e : Z) : Prop :=
  e = a_SSL_ALERT_BAD_CERTIFICATE \/ e = a_SSL_ALERT_CERTIFICATE_REVOKED \/ e = a_SSL_ALERT_CERTIFICATE_EXPIRED \/
  e = a_SSL_ALERT_CERTIFICATE_UNKNOWN \/ e = a_SSL_ALERT_ILLEGAL_PARAMETER \/ e = a_SSL_ALERT_UNKNOWN_CA.

Ltac consts := unfold NONE, a_SSL_ALERT_NONE, a_SSL_ALERT_BAD_CERTIFICATE, a_SSL_ALERT_CERTIFICATE_REVOKED, a_SSL_ALERT_CERTIFICATE_EXPIRED,
  a_SSL_ALERT_CERTIFICATE_UNKNOWN, a_SSL_ALERT_ILLEGAL_PARAMETER, a_SSL_ALERT_UNKNOWN_CA, a_SSL_ALERT_INTERNAL_ERROR,
  a_PS_CERT_AUTH_PASS, a_PS_CERT_AUTH_FAIL_BC, a_PS_CERT_AUTH_FAIL_DN, a_PS_CERT_AUTH_FAIL_SIG, a_PS_CERT_AUTH_FAIL_REVOKED,
  a_PS_CERT_AUTH_FAIL, a_PS_CERT_AUTH_FAIL_EXTENSION, a_PS_CERT_AUTH_FAIL_PATH_LEN, a_PS_CERT_AUTH_FAIL_AUTHKEY, a_PS_MEM_FAIL,
  a_PS_SUCCESS, a_MATRIXSSL_ERROR, a_SSL_ALLOW_ANON_CONNECTION in *.

Lemma alertset_pos e : alertset e -> 0 < e /\ e <> NONE.
Proof. unfold alertset; consts; intros H; lia. Qed.

Lemma status_alert_cases c hn err :
  status_alert c hn err = err \/ (alertset (status_alert c hn err) /\ cv_status c <> a_PS_CERT_AUTH_PASS).
Proof.
  unfold status_alert.
  repeat match goal with
         | |- context [if ?b then _ else _] => let E := fresh "E" in destruct b eqn:E
         end;
  try (left; reflexivity);
  right; (split; [unfold alertset; tauto |]);
  repeat match goal with
         | H : (_ || _) = true |- _ => apply orb_true_iff in H; destruct H
         | H : (_ =? _) = true |- _ => apply Z.eqb_eq in H
         end; consts; lia.
Qed.

Lemma status_alert_keeps c hn err : err <> NONE -> status_alert c hn err <> NONE.
Proof.
  intros H. destruct (status_alert_cases c hn err) as [E | [A _]]; [rewrite E; exact H | apply alertset_pos in A; tauto].
Qed.

Lemma status_alert_set c hn err : err = NONE \/ alertset err -> status_alert c hn err = NONE \/ alertset (status_alert c hn err).
Proof. intros H. destruct (status_alert_cases c hn err) as [E | [A _]]; [rewrite E; exact H | right; exact A]. Qed.

(* ------------------------------------------------------------------ the depth check *)
Fixpoint any_exceeded (maxd pl : Z) (cs : list certv) : bool :=
  match cs with [] => false | c :: r => depth_exceeded maxd (pl + 1) c || any_exceeded maxd (pl + 1) r end.

Lemma mark_not_pass c : cv_status (mark_depth c) <> a_PS_CERT_AUTH_PASS.
Proof.
  unfold mark_depth; cbn [cv_status]. consts.
  assert (Z.lor (cv_status c) (-38) < 0) by (apply Z.lor_neg; right; lia). lia.
Qed.

(* how the walk may have rewritten the chain: certificates at an exceeded position are marked *)
Inductive marked (maxd : Z) : Z -> list certv -> list certv -> Prop :=
| mk_nil pl : marked maxd pl [] []
| mk_same pl c r r' : marked maxd (pl + 1) r r' -> marked maxd pl (c :: r) (c :: r')
| mk_mark pl c r r' : depth_exceeded maxd (pl + 1) c = true -> marked maxd (pl + 1) r r' -> marked maxd pl (c :: r) (mark_depth c :: r').

Lemma marked_refl maxd cs : forall pl, marked maxd pl cs cs.
Proof. induction cs; intros; constructor; auto. Qed.

Lemma marked_all_pass maxd pl cs cs' : marked maxd pl cs cs' ->
  (all_pass cs' = true -> all_pass cs = true) /\
  (all_pass cs' = false -> all_pass cs = false \/ any_exceeded maxd pl cs = true).
Proof.
  induction 1; cbn [all_pass forallb any_exceeded] in *.
  - split; auto.
  - destruct IHmarked as [I1 I2]. fold (all_pass r) (all_pass r') in *. split.
    + intros H0. apply andb_true_iff in H0 as [A B]. rewrite A, (I1 B). reflexivity.
    + intros H0. apply andb_false_iff in H0 as [A | B].
      * left. rewrite A. reflexivity.
      * destruct (I2 B) as [C | C]; [left; rewrite C; apply andb_false_r | right; rewrite C; apply orb_true_r].
  - destruct IHmarked as [I1 I2]. fold (all_pass r) (all_pass r') in *. split.
    + intros H1. apply andb_true_iff in H1 as [A _]. apply Z.eqb_eq in A. exfalso. exact (mark_not_pass c A).
    + intros _. right. rewrite H. reflexivity.
Qed.

Lemma all_pass_false_in cs : all_pass cs = false <-> exists c, In c cs /\ cv_status c <> a_PS_CERT_AUTH_PASS.
Proof.
  unfold all_pass. split.
  - intros H. induction cs as [|c r IH]; cbn in H; [discriminate|].
    apply andb_false_iff in H as [A | B].
    + exists c. split; [left; reflexivity | apply Z.eqb_neq; exact A].
    + destruct (IH B) as [x [I N]]. exists x. split; [right; exact I | exact N].
  - intros [c [I N]]. destruct (forallb (fun c0 => cv_status c0 =? a_PS_CERT_AUTH_PASS) cs) eqn:E; [|reflexivity].
    rewrite forallb_forall in E. specialize (E c I). apply Z.eqb_eq in E. contradiction.
Qed.

(* ------------------------------------------------------------------ TLS <= 1.2 walk *)
Lemma walk12_spec : forall cs maxd pl err e cs', walk12 maxd pl err cs = (e, cs') ->
  marked maxd pl cs cs' /\
  (err <> NONE -> e <> NONE) /\
  (any_exceeded maxd pl cs = true -> e <> NONE) /\
  (e <> NONE -> err <> NONE \/ any_exceeded maxd pl cs = true \/ all_pass cs = false) /\
  (err = NONE \/ alertset err -> e = NONE \/ alertset e).
Proof.
  induction cs as [|c r IH]; intros maxd pl err e cs' H; cbn [walk12] in H.
  - inversion H; subst. cbn. repeat split; auto; try constructor; try discriminate.
  - cbn [any_exceeded all_pass forallb]. fold (all_pass r).
    destruct (depth_exceeded maxd (pl + 1) c) eqn:EX.
    + (* exceeded: err := UNKNOWN_CA, break *)
      replace (negb (a_SSL_ALERT_UNKNOWN_CA =? NONE)) with true in H by reflexivity.
      inversion H; subst. split; [|split; [|split; [|split]]].
      * apply mk_mark; [exact EX | apply marked_refl].
      * intros _. consts. lia.
      * intros _. consts. lia.
      * intros _. right. left. reflexivity.
      * intros _. right. unfold alertset. tauto.
    + destruct (negb (err =? NONE)) eqn:EN.
      * (* an alert is already pending: break *)
        inversion H; subst. apply negb_true_iff, Z.eqb_neq in EN.
        repeat split; intros; auto; try (apply mk_same, marked_refl).
      * apply negb_false_iff, Z.eqb_eq in EN. subst err.
        destruct (walk12 maxd (pl + 1) (status_alert c (has_next r) NONE) r) as [e1 r1] eqn:W.
        inversion H; subst. destruct (IH _ _ _ _ _ W) as [M [K1 [K2 [K3 K4]]]].
        repeat split.
        -- apply mk_same. exact M.
        -- intros X. exfalso. apply X. reflexivity.
        -- cbn [orb]. exact K2.
        -- intros X. destruct (K3 X) as [A | [A | A]].
           ++ destruct (status_alert_cases c (has_next r) NONE) as [E | [_ N]]; [rewrite E in A; contradiction|].
              right. right. apply Z.eqb_neq in N. rewrite N. reflexivity.
           ++ right. left. rewrite A. apply orb_true_r.
           ++ right. right. rewrite A. apply andb_false_r.
        -- intros _. apply K4. apply status_alert_set. left. reflexivity.
Qed.

(* ------------------------------------------------------------------ TLS 1.3 walks *)
Lemma pathlen13_spec : forall cs maxd pl err e cs', pathlen13 maxd pl err cs = (e, cs') ->
  marked maxd pl cs cs' /\
  (err <> NONE -> e <> NONE) /\
  (any_exceeded maxd pl cs = true -> e <> NONE) /\
  (e <> NONE -> err <> NONE \/ any_exceeded maxd pl cs = true) /\
  (err = NONE \/ alertset err -> e = NONE \/ alertset e).
Proof.
  induction cs as [|c r IH]; intros maxd pl err e cs' H; cbn [pathlen13] in H.
  - inversion H; subst. cbn. repeat split; auto; try constructor; try discriminate.
  - cbn [any_exceeded]. destruct (depth_exceeded maxd (pl + 1) c) eqn:EX.
    + replace (negb (a_SSL_ALERT_UNKNOWN_CA =? NONE)) with true in H by reflexivity.
      inversion H; subst. split; [|split; [|split; [|split]]].
      * apply mk_mark; [exact EX | apply marked_refl].
      * intros _. consts. lia.
      * intros _. consts. lia.
      * intros _. right. reflexivity.
      * intros _. right. unfold alertset. tauto.
    + destruct (negb (err =? NONE)) eqn:EN.
      * inversion H; subst. apply negb_true_iff, Z.eqb_neq in EN.
        repeat split; intros; auto; try (apply mk_same, marked_refl).
      * apply negb_false_iff, Z.eqb_eq in EN. subst err.
        destruct (pathlen13 maxd (pl + 1) NONE r) as [e1 r1] eqn:W.
        inversion H; subst. destruct (IH _ _ _ _ _ W) as [M [K1 [K2 [K3 K4]]]].
        split; [apply mk_same; exact M | split; [intros X; exfalso; apply X; reflexivity | split; [exact K2 | split; [|exact K4]]]].
        intros X. destruct (K3 X) as [A | A]; [exfalso; apply A; reflexivity | right; exact A].
Qed.

Lemma result13_spec : forall cs err,
  (err <> NONE -> result13 err cs <> NONE) /\
  (result13 err cs <> NONE -> err <> NONE \/ all_pass cs = false) /\
  (err = NONE \/ alertset err -> result13 err cs = NONE \/ alertset (result13 err cs)).
Proof.
  induction cs as [|c r IH]; intros err; cbn [result13 all_pass forallb].
  - repeat split; auto.
  - fold (all_pass r). destruct (IH (status_alert c (has_next r) err)) as [K1 [K2 K3]]. repeat split.
    + intros X. apply K1. apply status_alert_keeps. exact X.
    + intros X. destruct (K2 X) as [A | A].
      * destruct (status_alert_cases c (has_next r) err) as [E | [_ N]]; [rewrite E in A; left; exact A|].
        right. apply Z.eqb_neq in N. rewrite N. reflexivity.
      * right. rewrite A. apply andb_false_r.
    + intros X. apply K3. apply status_alert_set. exact X.
Qed.

(* ------------------------------------------------------------------ one shape for both versions *)
Definition auth_failure_b (v : verdict) : bool :=
  (v_rc v <? 0) || negb (all_pass (v_chain v)) || negb (v_ca v) || any_exceeded (v_maxdepth v) 0 (v_chain v).

Definition shape (fail : bool) (e : Z) (cb : cbmode) : option Z * outcome :=
  match cb with
  | None => (None, if fail then Fatal e else Continue false)
  | Some f => user_validate (Some f) (if fail then e else NONE)
  end.

Lemma decide_fail rc err cb : rc < 0 -> err = NONE \/ alertset err ->
  exists e, decide fixed rc err cb = shape true e cb /\ alertset e.
Proof.
  intros R A. unfold decide. apply Z.ltb_lt in R. rewrite R. cbn [fx_cbalert fixed andb].
  destruct A as [A | A].
  - subst err. rewrite Z.eqb_refl. exists a_SSL_ALERT_BAD_CERTIFICATE. split; [|unfold alertset; tauto].
    destruct cb; reflexivity.
  - pose proof (alertset_pos _ A) as [_ N]. apply Z.eqb_neq in N. rewrite N. exists err. split; [|exact A].
    destruct cb; cbn [is_none shape]; [reflexivity | rewrite N; reflexivity].
Qed.

Lemma decide_ok rc cb : 0 <= rc -> forall e, decide fixed rc NONE cb = shape false e cb.
Proof.
  intros R e. unfold decide. assert (rc <? 0 = false) as -> by (apply Z.ltb_ge; exact R). destruct cb; reflexivity.
Qed.

(* ------------------------------------------------------------------ the repaired chain -> alert mapping (all versions) *)
Lemma rank_range a : 0 <= rank a <= 3.
Proof. unfold rank. repeat match goal with |- context [if ?b then _ else _] => destruct b end; lia. Qed.

Lemma rank_zero a : rank a = 0 -> a = NONE.
Proof.
  unfold rank. destruct (a =? NONE) eqn:E; [intros _; apply Z.eqb_eq; exact E|].
  repeat match goal with |- context [if ?b then _ else _] => destruct b end; lia.
Qed.

Lemma rank_alertset a : alertset a -> 1 <= rank a.
Proof. unfold alertset. intros H. decompose [or] H; subst; vm_compute; discriminate. Qed.

Lemma raise_cases e a : raise e a = e \/ raise e a = a.
Proof. unfold raise. destruct (rank e <? rank a); auto. Qed.

Lemma raise_rank e a : rank (raise e a) = Z.max (rank e) (rank a).
Proof. unfold raise. destruct (rank e <? rank a) eqn:E; [apply Z.ltb_lt in E | apply Z.ltb_ge in E]; lia. Qed.

Lemma raise_set e a : e = NONE \/ alertset e -> alertset a -> alertset (raise e a).
Proof.
  intros He Ha. unfold raise. destruct (rank e <? rank a) eqn:E; [exact Ha|].
  destruct He as [-> | He]; [|exact He]. apply Z.ltb_ge in E. pose proof (rank_alertset _ Ha).
  assert (rank NONE = 0) by reflexivity. lia.
Qed.

Lemma soft_split fl : Z.land fl soft_flags <> 0 ->
  has_flag fl a_PS_CERT_AUTH_FAIL_DATE_FLAG = true \/ has_flag fl a_PS_CERT_AUTH_FAIL_SUBJECT_FLAG = true.
Proof.
  unfold soft_flags, has_flag. rewrite Z.land_lor_distr_r. intros H.
  destruct (Z.land fl a_PS_CERT_AUTH_FAIL_DATE_FLAG =? 0) eqn:A; [|left; reflexivity].
  destruct (Z.land fl a_PS_CERT_AUTH_FAIL_SUBJECT_FLAG =? 0) eqn:B; [|right; reflexivity].
  apply Z.eqb_eq in A, B. rewrite A, B in H. exfalso. apply H. reflexivity.
Qed.

Lemma in_app3 {A} (x : A) l1 l2 l3 : In x (l1 ++ l2 ++ l3) -> In x l1 \/ In x l2 \/ In x l3.
Proof. intros H. apply in_app_or in H as [H | H]; [auto|]. apply in_app_or in H as [H | H]; auto. Qed.

Ltac alset := unfold alertset; tauto.

Lemma cert_raise_spec c hn e : e = NONE \/ alertset e ->
  (cert_raise c hn e = NONE \/ alertset (cert_raise c hn e)) /\
  rank e <= rank (cert_raise c hn e) /\
  (cv_status c = a_PS_CERT_AUTH_PASS -> cert_raise c hn e = e) /\
  (cv_status c <> a_PS_CERT_AUTH_PASS -> alertset (cert_raise c hn e)) /\
  (forall d, In d (cert_defects c hn) -> rank d <= rank (cert_raise c hn e)).
Proof.
  intros He. unfold cert_raise, cert_defects.
  destruct (cv_status c =? a_PS_CERT_AUTH_PASS) eqn:SP.
  { apply Z.eqb_eq in SP. split; [exact He|]. split; [lia|]. split; [intros _; reflexivity|]. split; [intros X; contradiction | intros d []]. }
  apply Z.eqb_neq in SP.
  assert (forall a, alertset a ->
            (raise e a = NONE \/ alertset (raise e a)) /\ rank e <= rank (raise e a) /\
            (cv_status c = a_PS_CERT_AUTH_PASS -> raise e a = e) /\ (cv_status c <> a_PS_CERT_AUTH_PASS -> alertset (raise e a)) /\
            (forall d, In d [a] -> rank d <= rank (raise e a))) as ONE.
  { intros a Ha. pose proof (raise_set e a He Ha) as RS. rewrite raise_rank.
    split; [right; exact RS|]. split; [lia|]. split; [intros X; contradiction|]. split; [intros _; exact RS|]. intros d [<- | []]. lia. }
  destruct (cv_status c =? a_PS_CERT_AUTH_FAIL_REVOKED); [apply ONE; alset|].
  destruct (cv_status c =? a_PS_CERT_AUTH_FAIL_EXTENSION).
  2:{ destruct ((cv_status c =? a_PS_CERT_AUTH_FAIL_BC) || (cv_status c =? a_PS_CERT_AUTH_FAIL_DN)); [destruct hn|]; apply ONE; alset. }
  (* FAIL_EXTENSION: up to three raises *)
  set (a1 := if hn then a_SSL_ALERT_BAD_CERTIFICATE else a_SSL_ALERT_ILLEGAL_PARAMETER).
  assert (alertset a1) as Ha1 by (unfold a1; destruct hn; alset).
  set (e1 := if ext_other (cv_flags c) then raise e a1 else e).
  set (e2 := if has_flag (cv_flags c) a_PS_CERT_AUTH_FAIL_SUBJECT_FLAG then raise e1 a_SSL_ALERT_CERTIFICATE_UNKNOWN else e1).
  set (e3 := if has_flag (cv_flags c) a_PS_CERT_AUTH_FAIL_DATE_FLAG then raise e2 a_SSL_ALERT_CERTIFICATE_EXPIRED else e2).
  assert (alertset a_SSL_ALERT_CERTIFICATE_UNKNOWN) as HU by alset. assert (alertset a_SSL_ALERT_CERTIFICATE_EXPIRED) as HX by alset.
  assert ((e1 = NONE \/ alertset e1) /\ rank e <= rank e1) as [S1 R1].
  { unfold e1. destruct (ext_other (cv_flags c)); [split; [right; apply raise_set; assumption | rewrite raise_rank; lia] | split; [exact He | lia]]. }
  assert ((e2 = NONE \/ alertset e2) /\ rank e1 <= rank e2) as [S2 R2].
  { unfold e2. destruct (has_flag (cv_flags c) a_PS_CERT_AUTH_FAIL_SUBJECT_FLAG); [split; [right; apply raise_set; assumption | rewrite raise_rank; lia] | split; [exact S1 | lia]]. }
  assert ((e3 = NONE \/ alertset e3) /\ rank e2 <= rank e3) as [S3 R3].
  { unfold e3. destruct (has_flag (cv_flags c) a_PS_CERT_AUTH_FAIL_DATE_FLAG); [split; [right; apply raise_set; assumption | rewrite raise_rank; lia] | split; [exact S2 | lia]]. }
  split; [exact S3|]. split; [lia|]. split; [intros X; contradiction|]. split.
  - intros _. (* at least one of the three raises happened *)
    destruct (ext_other (cv_flags c)) eqn:EO.
    + assert (alertset e1) as A1 by (unfold e1; apply raise_set; assumption).
      assert (alertset e2) as A2 by (unfold e2; destruct (has_flag (cv_flags c) a_PS_CERT_AUTH_FAIL_SUBJECT_FLAG); [apply raise_set; auto | exact A1]).
      unfold e3; destruct (has_flag (cv_flags c) a_PS_CERT_AUTH_FAIL_DATE_FLAG); [apply raise_set; auto | exact A2].
    + unfold ext_other in EO. apply orb_false_iff in EO as [_ EO]. apply Z.eqb_neq in EO. apply soft_split in EO as [D | S].
      * unfold e3. rewrite D. apply raise_set; auto.
      * assert (alertset e2) as A2 by (unfold e2; rewrite S; apply raise_set; auto).
        unfold e3; destruct (has_flag (cv_flags c) a_PS_CERT_AUTH_FAIL_DATE_FLAG); [apply raise_set; auto | exact A2].
  - intros d H. apply in_app3 in H as [H | [H | H]].
    + fold a1 in H. destruct (ext_other (cv_flags c)) eqn:EO; [|destruct H]. destruct H as [<- | []].
      assert (rank a1 <= rank e1) by (unfold e1; cbv iota; rewrite raise_rank; lia). lia.
    + destruct (has_flag (cv_flags c) a_PS_CERT_AUTH_FAIL_SUBJECT_FLAG) eqn:S; [|destruct H]. destruct H as [<- | []].
      assert (rank a_SSL_ALERT_CERTIFICATE_UNKNOWN <= rank e2) by (unfold e2; cbv iota; rewrite raise_rank; lia). lia.
    + destruct (has_flag (cv_flags c) a_PS_CERT_AUTH_FAIL_DATE_FLAG) eqn:D; [|destruct H]. destruct H as [<- | []].
      unfold e3. cbv iota. rewrite raise_rank. lia.
Qed.

Lemma chain_alert_spec : forall cs maxd pl err e cs', err = NONE \/ alertset err -> chain_alert maxd pl err cs = (e, cs') ->
  marked maxd pl cs cs' /\ (e = NONE \/ alertset e) /\ rank err <= rank e /\
  (any_exceeded maxd pl cs = true -> rank e = 3) /\
  (all_pass cs = false -> alertset e) /\
  (e <> NONE -> err <> NONE \/ any_exceeded maxd pl cs = true \/ all_pass cs = false) /\
  (forall d, In d (chain_defects cs) -> rank d <= rank e).
Proof.
  induction cs as [|c r IH]; intros maxd pl err e cs' He H; cbn [chain_alert] in H.
  - inversion H; subst. cbn. repeat split; auto; try constructor; try lia; try discriminate.
  - cbn [any_exceeded all_pass forallb chain_defects]. fold (all_pass r).
    destruct (depth_exceeded maxd (pl + 1) c) eqn:EX.
    + (* depth exceeded at this certificate: unknown_ca raised, certificate marked *)
      assert (alertset (raise err a_SSL_ALERT_UNKNOWN_CA)) as A1 by (apply raise_set; [exact He | alset]).
      assert (rank (raise err a_SSL_ALERT_UNKNOWN_CA) = 3) as R1.
      { rewrite raise_rank. pose proof (rank_range err). assert (rank a_SSL_ALERT_UNKNOWN_CA = 3) by reflexivity. lia. }
      destruct (cert_raise_spec (mark_depth c) (has_next r) _ (or_intror A1)) as [S2 [R2 [_ [N2 _]]]].
      specialize (N2 (mark_not_pass c)).
      destruct (chain_alert maxd (pl + 1) (cert_raise (mark_depth c) (has_next r) (raise err a_SSL_ALERT_UNKNOWN_CA)) r) as [e1 r1] eqn:W.
      inversion H; subst. destruct (IH _ _ _ _ _ (or_intror N2) W) as [M [K1 [K2 _]]].
      pose proof (rank_range e) as RR. assert (rank e = 3) as R3 by lia.
      assert (alertset e) as AE. { destruct K1 as [K1 | K1]; [subst e; vm_compute in R3; discriminate | exact K1]. }
      split; [apply mk_mark; [exact EX | exact M]|]. split; [right; exact AE|]. split; [pose proof (rank_range err); lia|].
      split; [intros _; exact R3|]. split; [intros _; exact AE|]. split; [intros _; right; left; reflexivity|].
      intros d _. pose proof (rank_range d). lia.
    + destruct (cert_raise_spec c (has_next r) err He) as [S2 [R2 [P2 [N2 D2]]]].
      destruct (chain_alert maxd (pl + 1) (cert_raise c (has_next r) err) r) as [e1 r1] eqn:W.
      inversion H; subst. destruct (IH _ _ _ _ _ S2 W) as [M [K1 [K2 [K3 [K4 [K5 K6]]]]]].
      split; [apply mk_same; exact M|]. split; [exact K1|]. split; [lia|]. split; [cbn [orb]; exact K3|]. split; [|split].
      * intros X. apply andb_false_iff in X as [X | X]; [|exact (K4 X)].
        apply Z.eqb_neq in X. specialize (N2 X). pose proof (rank_alertset _ N2).
        destruct K1 as [K1 | K1]; [subst e; assert (rank NONE = 0) by reflexivity; lia | exact K1].
      * intros X. destruct (K5 X) as [A | [A | A]].
        -- destruct (Z.eq_dec (cv_status c) a_PS_CERT_AUTH_PASS) as [Q | Q].
           ++ rewrite (P2 Q) in A. left. exact A.
           ++ right. right. apply Z.eqb_neq in Q. rewrite Q. reflexivity.
        -- right. left. exact A.
        -- right. right. rewrite A. apply andb_false_r.
      * intros d X. apply in_app_or in X as [X | X]; [specialize (D2 d X); lia | exact (K6 d X)].
Qed.

(* the tail of both versions only looks at the sign of rc *)
Lemma decide_sign fx r1 r2 err cb : (r1 <? 0) = (r2 <? 0) -> decide fx r1 err cb = decide fx r2 err cb.
Proof. intros H. unfold decide. rewrite H. reflexivity. Qed.

Theorem versions_identical : forall v cb, cert_run12 fixed v cb = cert_run13 fixed v cb.
Proof.
  intros v cb. unfold cert_run12, cert_run13. destruct (v_rc v =? a_PS_MEM_FAIL); [reflexivity|].
  cbn [fx_severity fx_status fixed andb]. destruct (chain_alert_full v) as [err cs].
  apply decide_sign.
  destruct (v_rc v <? 0) eqn:R.
  - assert ((0 <=? v_rc v) = false) as -> by (apply Z.leb_gt, Z.ltb_lt; exact R). cbn [andb]. rewrite R. reflexivity.
  - assert ((0 <=? v_rc v) = true) as -> by (apply Z.leb_le, Z.ltb_ge; exact R). cbn [andb].
    destruct (err =? NONE) eqn:E; cbn [negb orb].
    + assert ((0 <=? a_PS_SUCCESS) = true) as -> by reflexivity. cbn [andb].
      destruct (all_pass cs); cbn [negb]; [rewrite R; reflexivity | reflexivity].
    + assert ((0 <=? a_MATRIXSSL_ERROR) = false) as -> by reflexivity. reflexivity.
Qed.

Lemma run12_shape v cb : v_rc v <> a_PS_MEM_FAIL ->
  exists e, cert_run12 fixed v cb = shape (auth_failure_b v) e cb /\ (auth_failure_b v = true -> alertset e).
Proof.
  intros NM. unfold cert_run12. apply Z.eqb_neq in NM. rewrite NM. cbn [fx_severity fx_status fixed andb].
  unfold chain_alert_full.
  destruct (chain_alert (v_maxdepth v) 0 NONE (v_chain v)) as [e0 cs] eqn:W.
  destruct (chain_alert_spec _ _ _ _ _ _ (or_introl eq_refl) W) as [M [K1 [_ [K3 [K4 [K5 _]]]]]].
  destruct (marked_all_pass _ _ _ _ M) as [P1 P2].
  set (err := if v_ca v then e0 else raise e0 a_SSL_ALERT_UNKNOWN_CA).
  assert (err = NONE \/ alertset err) as SE.
  { unfold err. destruct (v_ca v); [exact K1 | right; apply raise_set; [exact K1 | alset]]. }
  unfold auth_failure_b.
  destruct (err =? NONE) eqn:EN.
  - apply Z.eqb_eq in EN.
    assert (v_ca v = true) as CA.
    { destruct (v_ca v) eqn:C; [reflexivity|]. unfold err in EN.
      assert (alertset (raise e0 a_SSL_ALERT_UNKNOWN_CA)) as A by (apply raise_set; [exact K1 | alset]).
      rewrite EN in A. apply alertset_pos in A. tauto. }
    assert (e0 = NONE) as E0 by (unfold err in EN; rewrite CA in EN; exact EN).
    assert (any_exceeded (v_maxdepth v) 0 (v_chain v) = false) as AE.
    { destruct (any_exceeded (v_maxdepth v) 0 (v_chain v)); [specialize (K3 eq_refl); rewrite E0 in K3; vm_compute in K3; discriminate | reflexivity]. }
    assert (all_pass (v_chain v) = true) as AP.
    { destruct (all_pass (v_chain v)); [reflexivity | specialize (K4 eq_refl); rewrite E0 in K4; apply alertset_pos in K4; tauto]. }
    assert (all_pass cs = true) as APS.
    { destruct (all_pass cs) eqn:X; [reflexivity|]. destruct (P2 eq_refl) as [Y | Y]; [rewrite AP in Y | rewrite AE in Y]; discriminate. }
    rewrite AP, CA, AE, APS, EN. cbn [negb orb]. rewrite !orb_false_r, andb_false_r.
    destruct (v_rc v <? 0) eqn:R.
    + apply Z.ltb_lt in R. destruct (decide_fail (v_rc v) NONE cb R (or_introl eq_refl)) as [e [E A]].
      exists e. split; [exact E | intros _; exact A].
    + exists 0. split; [|discriminate]. apply decide_ok. apply Z.ltb_ge. exact R.
  - apply Z.eqb_neq in EN. destruct SE as [SE | SE]; [contradiction|]. cbn [negb orb]. rewrite andb_true_r.
    assert ((v_rc v <? 0) || negb (all_pass (v_chain v)) || negb (v_ca v) || any_exceeded (v_maxdepth v) 0 (v_chain v) = true) as ->.
    { destruct (v_ca v) eqn:C; [|cbn [negb]; rewrite orb_true_r; reflexivity].
      unfold err in EN. destruct (K5 EN) as [X | [X | X]]; [exfalso; apply X; reflexivity | rewrite X; apply orb_true_r | rewrite X].
      cbn [negb]. rewrite orb_true_r. reflexivity. }
    assert (exists rc, rc < 0 /\ (if 0 <=? v_rc v then a_PS_CERT_AUTH_FAIL else v_rc v) = rc) as [rc [L ->]].
    { destruct (0 <=? v_rc v) eqn:R.
      - exists a_PS_CERT_AUTH_FAIL. split; [consts; lia | reflexivity].
      - exists (v_rc v). split; [apply Z.leb_gt; exact R | reflexivity]. }
    destruct (decide_fail rc err cb L (or_intror SE)) as [e [E A]]. exists e. split; [exact E | intros _; exact A].
Qed.

Lemma run13_shape v cb : v_rc v <> a_PS_MEM_FAIL ->
  exists e, cert_run13 fixed v cb = shape (auth_failure_b v) e cb /\ (auth_failure_b v = true -> alertset e).
Proof. intros NM. rewrite <- versions_identical. apply run12_shape. exact NM. Qed.

(* ------------------------------------------------------------------ the boolean failure test is the spec's notion *)
Lemma any_exceeded_depth : forall cs maxd pl, 0 < maxd -> pl <= maxd ->
  (any_exceeded maxd pl cs = true <->
   cs <> [] /\ maxd < pl + Z.of_nat (length cs) + (if last (map cv_self cs) true then 0 else 1)).
Proof.
  induction cs as [|c r IH]; intros maxd pl HM HP.
  - cbn. split; [discriminate | intros [X _]; contradiction].
  - cbn [any_exceeded]. unfold depth_exceeded at 1.
    assert (0 <? maxd = true) as -> by (apply Z.ltb_lt; exact HM). cbn [andb].
    destruct r as [|c2 r2].
    + cbn [any_exceeded map last length]. rewrite orb_false_r.
      split.
      * intros H. split; [discriminate|]. apply orb_true_iff in H as [H | H].
        -- apply Z.ltb_lt in H. destruct (cv_self c); cbn; lia.
        -- apply andb_true_iff in H as [A B]. apply Z.eqb_eq in A. apply negb_true_iff in B. rewrite B. cbn. lia.
      * intros [_ H]. destruct (cv_self c) eqn:S; cbn in H.
        -- apply orb_true_iff. left. apply Z.ltb_lt. lia.
        -- destruct (Z.eq_dec (pl + 1) maxd) as [E | E].
           ++ apply orb_true_iff. right. rewrite E, Z.eqb_refl. reflexivity.
           ++ apply orb_true_iff. left. apply Z.ltb_lt. lia.
    + assert (last (map cv_self (c :: c2 :: r2)) true = last (map cv_self (c2 :: r2)) true) as -> by reflexivity.
      assert (Z.of_nat (length (c :: c2 :: r2)) = 1 + Z.of_nat (length (c2 :: r2))) as -> by (cbn [length]; lia).
      destruct (Z_lt_le_dec maxd (pl + 1)) as [G | G].
      * (* already too deep at this certificate *)
        split; [intros _; split; [discriminate | destruct (last (map cv_self (c2 :: r2)) true); lia]|].
        intros _. apply orb_true_iff. left. apply orb_true_iff. left. apply Z.ltb_lt. exact G.
      * specialize (IH maxd (pl + 1) HM G). split.
        -- intros H. split; [discriminate|]. apply orb_true_iff in H as [H | H].
           ++ apply orb_true_iff in H as [H | H]; [apply Z.ltb_lt in H; lia|].
              apply andb_true_iff in H as [A _]. apply Z.eqb_eq in A.
              destruct (last (map cv_self (c2 :: r2)) true); cbn [length]; lia.
           ++ apply IH in H as [_ H]. lia.
        -- intros [_ H]. apply orb_true_iff. right. apply IH. split; [discriminate | lia].
Qed.

Lemma too_deep_iff v : any_exceeded (v_maxdepth v) 0 (v_chain v) = true <-> too_deep v.
Proof.
  unfold too_deep, path_depth. destruct (Z_lt_le_dec 0 (v_maxdepth v)) as [G | G].
  - rewrite (any_exceeded_depth (v_chain v) (v_maxdepth v) 0 G (Z.lt_le_incl _ _ G)). split.
    + intros [_ H]. split; [exact G | lia].
    + intros [_ H]. split; [|lia]. intros E. rewrite E in H. cbn in H. lia.
  - split; [|intros [X _]; lia].
    assert (forall cs pl, any_exceeded (v_maxdepth v) pl cs = false) as F.
    { induction cs as [|c r IH]; intros pl; cbn [any_exceeded]; [reflexivity|]. rewrite IH. unfold depth_exceeded.
      assert (0 <? v_maxdepth v = false) as -> by (apply Z.ltb_ge; exact G). reflexivity. }
    rewrite F. discriminate.
Qed.

Lemma auth_failure_b_iff v : auth_failure_b v = true <-> auth_failure v.
Proof.
  unfold auth_failure_b, auth_failure, internal_failure, no_anchor. rewrite !orb_true_iff, negb_true_iff, negb_true_iff.
  rewrite all_pass_false_in, too_deep_iff, Z.ltb_lt. tauto.
Qed.

(* ------------------------------------------------------------------ theorems *)
Lemma shape_nocb_fail e : snd (shape true e None) = Fatal e. Proof. reflexivity. Qed.

Theorem nocb_fatal_strong : forall v, auth_failure v ->
  (exists a, cert_outcome12 v None = Fatal a) /\ (exists a, cert_outcome13 v None = Fatal a).
Proof.
  intros v F. apply auth_failure_b_iff in F. unfold cert_outcome12, cert_outcome13.
  destruct (Z.eq_dec (v_rc v) a_PS_MEM_FAIL) as [E | NE].
  - unfold cert_run12, cert_run13. apply Z.eqb_eq in E. rewrite E. cbn. eauto.
  - destruct (run12_shape v None NE) as [e1 [-> _]], (run13_shape v None NE) as [e2 [-> _]]. rewrite F. cbn. eauto.
Qed.

Theorem nocb_fatal : forall v, internal_failure v ->
  (exists a, cert_outcome12 v None = Fatal a) /\ (exists a, cert_outcome13 v None = Fatal a).
Proof. intros v F. apply nocb_fatal_strong. left. exact F. Qed.

Theorem valid_continues : forall v, ~ auth_failure v ->
  cert_outcome12 v None = Continue false /\ cert_outcome13 v None = Continue false.
Proof.
  intros v F. assert (auth_failure_b v = false) as B.
  { destruct (auth_failure_b v) eqn:X; [exfalso; apply F, auth_failure_b_iff; exact X | reflexivity]. }
  assert (v_rc v <> a_PS_MEM_FAIL) as NE.
  { intros E. apply F. left. left. rewrite E. consts. lia. }
  unfold cert_outcome12, cert_outcome13.
  destruct (run12_shape v None NE) as [e1 [-> _]], (run13_shape v None NE) as [e2 [-> _]]. rewrite B. split; reflexivity.
Qed.

(* versions agree: same decision without a callback; with a callback both versions consult it, both with a pending alert or
   both without, and whenever the callback gives the two alert values the same answer the outcomes are equal *)
Theorem versions_agree : forall v cb,
  (cb = None -> continues (cert_outcome12 v cb) = continues (cert_outcome13 v cb)) /\
  (forall f, cb = Some f -> v_rc v <> a_PS_MEM_FAIL ->
     exists a12 a13, cb_arg12 v cb = Some a12 /\ cb_arg13 v cb = Some a13 /\ (a12 = 0 <-> a13 = 0) /\
                     (f a12 = f a13 -> cert_outcome12 v cb = cert_outcome13 v cb)) /\
  (v_rc v = a_PS_MEM_FAIL -> cert_outcome12 v cb = Fatal a_SSL_ALERT_INTERNAL_ERROR /\ cert_outcome13 v cb = Fatal a_SSL_ALERT_INTERNAL_ERROR).
Proof.
  intros v cb. unfold cert_outcome12, cert_outcome13, cb_arg12, cb_arg13. split; [|split].
  - intros ->. destruct (Z.eq_dec (v_rc v) a_PS_MEM_FAIL) as [E | NE].
    + unfold cert_run12, cert_run13. apply Z.eqb_eq in E. rewrite E. reflexivity.
    + destruct (run12_shape v None NE) as [e1 [-> _]], (run13_shape v None NE) as [e2 [-> _]].
      destruct (auth_failure_b v); reflexivity.
  - intros f -> NE.
    destruct (run12_shape v (Some f) NE) as [e1 [-> A1]], (run13_shape v (Some f) NE) as [e2 [-> A2]].
    cbn [shape user_validate fst snd].
    destruct (auth_failure_b v) eqn:B.
    + pose proof (alertset_pos _ (A1 eq_refl)) as [P1 N1]. pose proof (alertset_pos _ (A2 eq_refl)) as [P2 N2].
      apply Z.eqb_neq in N1, N2. rewrite N1, N2. exists e1, e2. repeat split; try lia.
      intros ->. reflexivity.
    + rewrite Z.eqb_refl. exists 0, 0. repeat split; auto.
  - intros E. unfold cert_run12, cert_run13. apply Z.eqb_eq in E. rewrite E. split; reflexivity.
Qed.

Lemma user_validate_continue f err an : snd (user_validate (Some f) err) = Continue an ->
  cb_accepts (f (if err =? NONE then 0 else err)) an.
Proof.
  cbn [user_validate snd]. set (r := f (if err =? NONE then 0 else err)).
  destruct (r =? a_SSL_ALLOW_ANON_CONNECTION) eqn:A.
  - intros H. inversion H; subst. right. apply Z.eqb_eq in A. auto.
  - destruct (0 <? r) eqn:P; [discriminate|]. destruct (r <? 0) eqn:N; [discriminate|].
    intros H. inversion H; subst. left. apply Z.ltb_ge in P, N. split; [lia | reflexivity].
Qed.

Theorem cb_sees_failure : forall v f,
  (v_rc v = a_PS_MEM_FAIL ->
     cb_arg12 v (Some f) = None /\ cb_arg13 v (Some f) = None /\
     cert_outcome12 v (Some f) = Fatal a_SSL_ALERT_INTERNAL_ERROR /\ cert_outcome13 v (Some f) = Fatal a_SSL_ALERT_INTERNAL_ERROR) /\
  (v_rc v <> a_PS_MEM_FAIL ->
     (exists a, cb_arg12 v (Some f) = Some a /\ (a <> 0 <-> auth_failure v) /\
                forall an, cert_outcome12 v (Some f) = Continue an -> cb_accepts (f a) an) /\
     (exists a, cb_arg13 v (Some f) = Some a /\ (a <> 0 <-> auth_failure v) /\
                forall an, cert_outcome13 v (Some f) = Continue an -> cb_accepts (f a) an)).
Proof.
  intros v f. unfold cert_outcome12, cert_outcome13, cb_arg12, cb_arg13. split.
  - intros E. unfold cert_run12, cert_run13. apply Z.eqb_eq in E. rewrite E. cbn. auto.
  - intros NE.
    destruct (run12_shape v (Some f) NE) as [e1 [-> A1]], (run13_shape v (Some f) NE) as [e2 [-> A2]].
    cbn [shape]. split.
    + destruct (auth_failure_b v) eqn:B.
      * pose proof (alertset_pos _ (A1 eq_refl)) as [P N]. exists e1.
        split; [cbn; apply Z.eqb_neq in N; rewrite N; reflexivity|]. split; [split; intros _; [apply auth_failure_b_iff; exact B | lia]|].
        intros an H. apply user_validate_continue in H. apply Z.eqb_neq in N. rewrite N in H. exact H.
      * exists 0. split; [cbn; rewrite ?Z.eqb_refl; reflexivity|]. split; [split; intros X; [lia | apply auth_failure_b_iff in X; rewrite B in X; discriminate]|].
        intros an H. apply user_validate_continue in H. rewrite Z.eqb_refl in H. exact H.
    + destruct (auth_failure_b v) eqn:B.
      * pose proof (alertset_pos _ (A2 eq_refl)) as [P N]. exists e2.
        split; [cbn; apply Z.eqb_neq in N; rewrite N; reflexivity|]. split; [split; intros _; [apply auth_failure_b_iff; exact B | lia]|].
        intros an H. apply user_validate_continue in H. apply Z.eqb_neq in N. rewrite N in H. exact H.
      * exists 0. split; [cbn; rewrite ?Z.eqb_refl; reflexivity|]. split; [split; intros X; [lia | apply auth_failure_b_iff in X; rewrite B in X; discriminate]|].
        intros an H. apply user_validate_continue in H. rewrite Z.eqb_refl in H. exact H.
Qed.

(* ------------------------------------------------------------------ the alert given to the callback is the most severe defect *)
Lemma decide_arg rc err f : err = NONE \/ alertset err ->
  exists e', fst (decide fixed rc err (Some f)) = Some (if e' =? NONE then 0 else e') /\ (e' = NONE \/ alertset e') /\ rank err <= rank e'.
Proof.
  intros SE. unfold decide. cbn [fx_cbalert fixed andb is_none].
  assert (alertset a_SSL_ALERT_BAD_CERTIFICATE) as AB by alset.
  destruct (rc <? 0); [destruct (err =? NONE) eqn:E|].
  - exists a_SSL_ALERT_BAD_CERTIFICATE. split; [reflexivity|]. split; [right; exact AB|]. apply Z.eqb_eq in E. subst err.
    pose proof (rank_alertset _ AB). assert (rank NONE = 0) by reflexivity. lia.
  - exists err. split; [reflexivity|]. split; [exact SE | lia].
  - exists err. split; [reflexivity|]. split; [exact SE | lia].
Qed.

Lemma arg_severity_of e' : e' = NONE \/ alertset e' -> arg_severity (if e' =? NONE then 0 else e') = rank e'.
Proof.
  intros [-> | A]; [reflexivity|]. pose proof (alertset_pos _ A) as [P N]. apply Z.eqb_neq in N. rewrite N.
  unfold arg_severity. assert (e' =? 0 = false) as -> by (apply Z.eqb_neq; lia). reflexivity.
Qed.

Theorem alert_most_severe : forall v f a d, v_rc v <> a_PS_MEM_FAIL ->
  cb_arg12 v (Some f) = Some a -> is_defect v d -> severity d <= arg_severity a.
Proof.
  intros v f a d NM HA HD. unfold cb_arg12, cert_run12 in HA. apply Z.eqb_neq in NM. rewrite NM in HA.
  cbn [fx_severity fx_status fixed andb] in HA. unfold chain_alert_full in HA.
  destruct (chain_alert (v_maxdepth v) 0 NONE (v_chain v)) as [e0 cs] eqn:W.
  destruct (chain_alert_spec _ _ _ _ _ _ (or_introl eq_refl) W) as [_ [K1 [_ [K3 [_ [_ K7]]]]]].
  set (err := if v_ca v then e0 else raise e0 a_SSL_ALERT_UNKNOWN_CA) in *.
  assert (err = NONE \/ alertset err) as SE.
  { unfold err. destruct (v_ca v); [exact K1 | right; apply raise_set; [exact K1 | alset]]. }
  assert (rank e0 <= rank err) as RE by (unfold err; destruct (v_ca v); [lia | rewrite raise_rank; lia]).
  match type of HA with fst (decide fixed ?rc err (Some f)) = _ => destruct (decide_arg rc err f SE) as [e' [HE [SE' RR]]] end.
  rewrite HE in HA. inversion HA; subst a. rewrite (arg_severity_of _ SE'). unfold severity.
  pose proof (rank_range d) as RD.
  destruct HD as [HD | [[HD ->] | [HD ->]]].
  - specialize (K7 d HD). lia.
  - apply too_deep_iff in HD. specialize (K3 HD). lia.
  - unfold no_anchor in HD. unfold err in RR. rewrite HD in RR. rewrite raise_rank in RR.
    assert (rank a_SSL_ALERT_UNKNOWN_CA = 3) by reflexivity. lia.
Qed.

(* ------------------------------------------------------------------ proof of possession: invariant of the machine *)
Lemma prefix_refl l : prefix l l.
Proof. induction l; cbn; auto. Qed.
Lemma prefix_app a b x : prefix a b -> prefix a (b ++ x).
Proof. revert b. induction a as [|y a IH]; intros b H; [exact I|]. destruct b as [|z b]; cbn in *; [contradiction|]. destruct H; split; auto. Qed.

Lemma phase_eq_hello p : p = PHello \/ p <> PHello.
Proof. destruct p; auto; right; discriminate. Qed.

Section PopProof.
  Variable sig_ok : nat -> nat -> sigdata -> nat -> bool.
  Variable fin_ok : option nat -> list nat -> nat -> bool.
  Variable c : pcfg.

  Definition kt_mode : bool := match p_ver c, p_role c, p_kex c with V12, VClient, KRsa => true | _, _, _ => false end.

  Definition good_event (s : pst) (e : pop_event) : Prop :=
    match e with
    | PopSig k alg d sg => leaf s = Some k /\ sig_ok k alg d sg = true /\ own_data c (tr s) d /\
                           (p_fix_ske_alg c = true \/ (exists ctx t, d = DTranscript ctx t) -> In alg (p_offered c))
    | PopKeyTransport k t vd => leaf s = Some k /\ fin_ok (Some k) t vd = true /\ prefix t (tr s)
    end.

  Definition alive (p : phase) : bool := match p with PDead _ => false | _ => true end.

  Definition InvB (s : pst) : Prop :=
    (alive (ph s) = true ->
    (ph s = PWaitCert -> pops s = []) /\
    (ph s <> PWaitCert -> exists k, leaf s = Some k) /\
    (forall e, In e (pops s) -> good_event s e) /\
    (ph s = PWaitShd \/ ph s = PWaitFin -> kt_mode = true \/ pops s <> []) /\
    (ph s = PDone -> pops s <> [])).
  Definition Inv (s : pst) : Prop := ph s <> PHello /\ InvB s.

  Lemma step_not_hello s m : ph s <> PHello -> ph (step sig_ok fin_ok c s m) <> PHello.
  Proof.
    intros H. unfold step. destruct (dtls_ignored c s m); [exact H|]. destruct (ph s) eqn:P; try contradiction; rewrite <- ?P;
      repeat match goal with
             | |- context [match ?x with _ => _ end] => destruct x
             end; cbn; try discriminate; try (rewrite P; discriminate).
  Qed.

  Lemma good_event_ext s s' e : leaf s' = leaf s -> (exists x, tr s' = tr s ++ x) -> good_event s e -> good_event s' e.
  Proof.
    intros L [x T] G. destruct e as [k alg d sg | k t vd]; cbn in *.
    - destruct G as [G1 [G2 [G3 G4]]]. rewrite L, T. repeat split; auto.
      destruct d as [cr sr p | ctx t]; cbn in *; [exact G3|]. destruct G3; split; auto. apply prefix_app. assumption.
    - destruct G as [G1 [G2 G3]]. rewrite L, T. repeat split; auto. apply prefix_app. assumption.
  Qed.

  Lemma memn_in x l : memn x l = true -> In x l.
  Proof. unfold memn. intros H. apply existsb_exists in H as [y [I E]]. apply Nat.eqb_eq in E. subst. exact I. Qed.

  Ltac inv5 := split; [| split; [| split; [| split]]].

  Lemma step_inv s m : Inv s -> Inv (step sig_ok fin_ok c s m).
  Proof.
    intros [NH HI]. split; [apply step_not_hello; exact NH|]. unfold step. destruct (dtls_ignored c s m); [exact HI|]. unfold InvB at 1.
    destruct (ph s) eqn:P; try exact HI; try (exfalso; apply NH; reflexivity);
      try (destruct m; try (intros X; discriminate X)).
    - (* PWaitCert, MCertificate *)
      destruct (match p_ver c with V12 => cert_outcome12 v (p_cb c) | V13 => cert_outcome13 v (p_cb c) end) as [an | a];
        [|intros X; discriminate X].
      destruct (HI ltac:(rewrite P; reflexivity)) as [I0 _]. specialize (I0 P).
      intros _. cbn [ph leaf pops tr]. rewrite I0. unfold kt_mode.
      destruct (p_ver c), (p_role c), (p_kex c);
        (split; [intros X; try discriminate X; reflexivity
                | split; [intros _; eauto
                         | split; [intros e []
                                  | split; [intros [X | X]; try discriminate X; left; reflexivity | intros X; discriminate X]]]]).
    - (* PWaitSke, MServerKeyExchange *)
      destruct (HI ltac:(rewrite P; reflexivity)) as [_ [[k L] [I2 _]]]; [rewrite P; discriminate|].
      rewrite L.
      destruct (p_fix_ske_alg c && negb (memn alg (p_offered c))) eqn:FA; [intros X; discriminate X|].
      destruct (sig_ok k alg (DParams (p_cr c) (p_sr c) params) sg) eqn:SO; [|intros X; discriminate X].
      intros _. cbn [ph leaf pops tr]. inv5.
      + intros X. discriminate X.
      + intros _. eauto.
      + intros e [E | E].
        * subst e. cbn. repeat split; auto. intros [F | [ctx [t F]]]; [|discriminate F].
          rewrite F in FA. cbn in FA. apply negb_false_iff in FA. apply memn_in. exact FA.
        * apply (good_event_ext s); cbn; eauto.
      + intros _. right. discriminate.
      + intros X. discriminate X.
    - (* PWaitShd, MServerHelloDone *)
      destruct (HI ltac:(rewrite P; reflexivity)) as [_ [L [I2 [I3 _]]]].
      intros _. cbn [adv ph leaf pops tr]. inv5.
      + intros X. discriminate X.
      + intros _. apply L. rewrite P. discriminate.
      + intros e E. apply (good_event_ext s); cbn; eauto.
      + intros _. apply I3. left. exact P.
      + intros X. discriminate X.
    - (* PWaitCke, MClientKeyExchange *)
      destruct (HI ltac:(rewrite P; reflexivity)) as [_ [L [I2 _]]].
      intros _. cbn [adv ph leaf pops tr]. inv5.
      + intros X. discriminate X.
      + intros _. apply L. rewrite P. discriminate.
      + intros e E. apply (good_event_ext s); cbn; eauto.
      + intros [X | X]; discriminate X.
      + intros X. discriminate X.
    - (* PWaitCv, MCertificateVerify *)
      destruct (HI ltac:(rewrite P; reflexivity)) as [_ [[k L] [I2 _]]]; [rewrite P; discriminate|].
      rewrite L.
      destruct (negb (memn alg (p_offered c))) eqn:FA; [intros X; discriminate X|].
      destruct (sig_ok k alg (DTranscript (peer_ctx c) (tr s)) sg) eqn:SO; [|intros X; discriminate X].
      intros _. cbn [ph leaf pops tr]. inv5.
      + intros X. discriminate X.
      + intros _. eauto.
      + intros e [E | E].
        * subst e. cbn. repeat split; auto.
          -- apply prefix_app, prefix_refl.
          -- intros _. apply negb_false_iff in FA. apply memn_in. exact FA.
        * apply (good_event_ext s); cbn; eauto.
      + intros _. right. discriminate.
      + intros X. discriminate X.
    - (* PWaitFin, MFinished *)
      destruct (HI ltac:(rewrite P; reflexivity)) as [_ [[k L] [I2 [I3 _]]]]; [rewrite P; discriminate|].
      set (kt := match p_ver c, p_role c, p_kex c with V12, VClient, KRsa => leaf s | _, _, _ => None end).
      destruct (fin_ok kt (tr s) vd) eqn:FO; [|intros X; discriminate X].
      intros _. cbn [ph leaf pops tr]. inv5.
      + intros X. discriminate X.
      + intros _. eauto.
      + intros e E. destruct kt as [k'|] eqn:KT.
        * assert (k' = k) as ->.
          { unfold kt in KT. destruct (p_ver c), (p_role c), (p_kex c); try discriminate KT. rewrite L in KT. inversion KT. reflexivity. }
          destruct E as [E | E].
          -- subst e. cbn. repeat split; auto. apply prefix_app, prefix_refl.
          -- apply (good_event_ext s); cbn; eauto.
        * apply (good_event_ext s); cbn; eauto.
      + intros [X | X]; discriminate X.
      + intros _. destruct (I3 (or_intror P)) as [K | K].
        * unfold kt_mode in K. unfold kt. destruct (p_ver c), (p_role c), (p_kex c); try discriminate K. rewrite L. discriminate.
        * destruct kt; [discriminate | exact K].
  Qed.

  Lemma run_inv ms : forall s, Inv s -> Inv (fold_left (step sig_ok fin_ok c) ms s).
  Proof. induction ms as [|m r IH]; intros s H; [exact H | cbn; apply IH, step_inv, H]. Qed.

  Lemma init_inv t0 : Inv (init t0).
  Proof. split; [cbn; discriminate|]. intros _. cbn. inv5; [reflexivity | intros X; exfalso; apply X; reflexivity | intros e [] | intros [X | X]; discriminate X | intros X; discriminate X]. Qed.

  Lemma inv_done s : Inv s -> ph s = PDone -> exists k, leaf s = Some k /\ possession_proved sig_ok fin_ok c s k.
  Proof.
    intros [_ HI] D.
    destruct (HI ltac:(rewrite D; reflexivity)) as [_ [[k L] [I2 [_ I4]]]]; [rewrite D; discriminate|].
    exists k. split; [exact L|]. specialize (I4 D).
    destruct (pops s) as [|e r] eqn:PE; [contradiction|].
    unfold possession_proved. rewrite PE. exists e. split; [apply in_eq|]. specialize (I2 e (or_introl eq_refl)).
    destruct e as [k' alg d sg | k' t vd]; cbn in I2.
    - destruct I2 as [G1 [G2 [G3 G4]]]. rewrite L in G1. inversion G1; subst. auto.
    - destruct I2 as [G1 [G2 G3]]. rewrite L in G1. inversion G1; subst. auto.
  Qed.

  Theorem pop_on_done : forall t0 ms, let s := run sig_ok fin_ok c t0 ms in
    ph s = PDone -> exists k, leaf s = Some k /\ possession_proved sig_ok fin_ok c s k.
  Proof. intros t0 ms s D. apply inv_done; [|exact D]. apply run_inv, init_inv. Qed.

  (* ---- from the ClientHello on: the requirement "authenticate the client" is dropped by a successful resumption only *)
  Definition InvH (s : pst) : Prop :=
    alive (ph s) = true ->
    (ph s = PHello /\ pops s = [] /\ resumed s = None) \/ (ph s <> PHello /\ exists b, resumed s = Some b) \/ Inv s.

  Lemma step_resumed s m : ph s <> PHello -> resumed (step sig_ok fin_ok c s m) = resumed s.
  Proof.
    intros H. unfold step. destruct (dtls_ignored c s m); [reflexivity|]. destruct (ph s) eqn:P; try contradiction;
      repeat match goal with
             | |- context [match ?x with _ => _ end] => destruct x
             end; reflexivity.
  Qed.

  Lemma alive_step s m : alive (ph (step sig_ok fin_ok c s m)) = true -> alive (ph s) = true.
  Proof. unfold step. destruct (dtls_ignored c s m); [auto|]. destruct (ph s) eqn:P; try reflexivity. intros X. rewrite P in X. exact X. Qed.

  Lemma stepH s m : InvH s -> InvH (step sig_ok fin_ok c s m).
  Proof.
    intros HI A. destruct (HI (alive_step _ _ A)) as [[P [E R]] | [[NH [b R]] | I]].
    - unfold step in *. destruct (dtls_ignored c s m) eqn:DI; [left; auto|]. rewrite P in *. destruct m; try discriminate A.
      destruct (p_role c); [discriminate A|]. destruct hit as [b|].
      + right. left. cbn. split; [discriminate | eauto].
      + right. right. split; [cbn; discriminate|]. intros _. cbn [adv ph leaf pops tr]. rewrite E.
        inv5; [reflexivity | intros X; exfalso; apply X; reflexivity | intros e [] | intros [X | X]; discriminate X | intros X; discriminate X].
    - right. left. split; [apply step_not_hello; exact NH|]. exists b. rewrite step_resumed; assumption.
    - right. right. apply step_inv. exact I.
  Qed.

  Lemma runH ms : forall s, InvH s -> InvH (fold_left (step sig_ok fin_ok c) ms s).
  Proof. induction ms as [|m r IH]; intros s H; [exact H | cbn; apply IH, stepH, H]. Qed.

  Theorem auth_not_dropped : forall ms, let s := run_hello sig_ok fin_ok c ms in
    ph s = PDone ->
    (exists b, resumed s = Some b) \/ (exists k, leaf s = Some k /\ possession_proved sig_ok fin_ok c s k).
  Proof.
    intros ms s D. assert (InvH init_hello) as H0 by (intros _; left; cbn; auto).
    pose proof (runH ms _ H0) as HI. fold (run_hello sig_ok fin_ok c ms) in HI. fold s in HI.
    destruct (HI ltac:(rewrite D; reflexivity)) as [[P _] | [[_ R] | I]].
    - rewrite D in P. discriminate P.
    - left. exact R.
    - right. apply inv_done; assumption.
  Qed.

  Lemma fold_resumed ms : forall s, ph s <> PHello -> resumed (fold_left (step sig_ok fin_ok c) ms s) = resumed s.
  Proof.
    induction ms as [|m r IH]; intros s H; [reflexivity|]. cbn. rewrite IH; [apply step_resumed; exact H | apply step_not_hello; exact H].
  Qed.

  (* the resumed session is the one the lookup of a ClientHello's offer answered with - nothing else sets the field *)
  Lemma step_resumed_cases s m : resumed (step sig_ok fin_ok c s m) = resumed s \/
    (exists b, m = MClientHello (Some b) /\ p_role c = VServer /\ resumed (step sig_ok fin_ok c s m) = Some b).
  Proof.
    destruct (phase_eq_hello (ph s)) as [P | P]; [|left; apply step_resumed; exact P].
    unfold step. destruct (dtls_ignored c s m); [left; reflexivity|]. rewrite P.
    destruct m; try (left; reflexivity). destruct (p_role c) eqn:R; [left; reflexivity|].
    destruct hit as [b|]; [right; exists b; auto | left; reflexivity].
  Qed.

  Lemma fold_resumed_origin ms b : forall s, resumed (fold_left (step sig_ok fin_ok c) ms s) = Some b ->
    resumed s = Some b \/ (In (MClientHello (Some b)) ms /\ p_role c = VServer).
  Proof.
    induction ms as [|m r IH]; intros s H; [left; exact H|]. cbn [fold_left] in H.
    destruct (IH _ H) as [X | [X R]]; [|right; split; [right; exact X | exact R]].
    destruct (step_resumed_cases s m) as [E | [b' [-> [R E]]]].
    - left. rewrite <- E. exact X.
    - rewrite E in X. inversion X; subst. right. split; [left; reflexivity | exact R].
  Qed.

  Theorem resumed_only_by_lookup : forall ms b, resumed (run_hello sig_ok fin_ok c ms) = Some b ->
    p_role c = VServer /\ In (MClientHello (Some b)) ms.
  Proof.
    intros ms b H. destruct (fold_resumed_origin ms b init_hello H) as [X | [X R]]; [cbn in X; discriminate | auto].
  Qed.
End PopProof.

(* ------------------------------------------------------------------ the defects of the pinned code, and non-vacuity *)
Definition cv (s f : Z) (ss : bool) := {| cv_status := s; cv_flags := f; cv_self := ss |}.
Definition vd1 (rc s f : Z) (ca : bool) := {| v_rc := rc; v_chain := [cv s f false]; v_ca := ca; v_maxdepth := 0 |}.

(* expired leaf (rc = 0, FAIL_EXTENSION + DATE flag), no callback: the pinned TLS <= 1.2 code continues, TLS 1.3 does not *)
Example pinned12_expired_nocb_continues :
  snd (cert_run12 pinned (vd1 0 a_PS_CERT_AUTH_FAIL_EXTENSION a_PS_CERT_AUTH_FAIL_DATE_FLAG true) None) = Continue false /\
  snd (cert_run13 pinned (vd1 0 a_PS_CERT_AUTH_FAIL_EXTENSION a_PS_CERT_AUTH_FAIL_DATE_FLAG true) None) = Fatal a_SSL_ALERT_CERTIFICATE_EXPIRED.
Proof. split; reflexivity. Qed.
(* the validator fails without marking a certificate (PS_ARG_FAIL): the pinned TLS 1.3 code continues without a callback *)
Example pinned13_rc_ignored : snd (cert_run13 pinned (vd1 a_PS_ARG_FAIL 0 0 true) None) = Continue false /\
                              snd (cert_run12 pinned (vd1 a_PS_ARG_FAIL 0 0 true) None) = Fatal a_SSL_ALERT_BAD_CERTIFICATE.
Proof. split; reflexivity. Qed.
(* no CA loaded, chain internally consistent: the pinned TLS 1.3 code continues *)
Example pinned13_no_ca : snd (cert_run13 pinned (vd1 0 a_PS_CERT_AUTH_PASS 0 false) None) = Continue false /\
                         snd (cert_run12 pinned (vd1 0 a_PS_CERT_AUTH_PASS 0 false) None) = Fatal a_SSL_ALERT_UNKNOWN_CA.
Proof. split; reflexivity. Qed.
(* validator failure without an alert: the pinned code tells the callback "no alert" *)
Example pinned_cb_told_ok : fst (cert_run12 pinned (vd1 a_PS_ARG_FAIL 0 0 true) (Some (fun a => a))) = Some 0 /\
                            fst (cert_run13 pinned (vd1 a_PS_ARG_FAIL 0 0 true) (Some (fun a => a))) = Some 0.
Proof. split; reflexivity. Qed.

Theorem pinned_nocb_fatal_refuted :
  exists v, internal_failure v /\ (exists an, snd (cert_run12 pinned v None) = Continue an).
Proof.
  exists (vd1 0 a_PS_CERT_AUTH_FAIL_EXTENSION a_PS_CERT_AUTH_FAIL_DATE_FLAG true). split.
  - right. eexists. split; [left; reflexivity | cbn; consts; lia].
  - exists false. reflexivity.
Qed.
Theorem pinned_versions_agree_refuted :
  exists v, continues (snd (cert_run12 pinned v None)) <> continues (snd (cert_run13 pinned v None)).
Proof. exists (vd1 0 a_PS_CERT_AUTH_FAIL_EXTENSION a_PS_CERT_AUTH_FAIL_DATE_FLAG true). cbn. discriminate. Qed.

(* the repaired functions on the same witnesses, and a valid chain going through (hypotheses are satisfiable) *)
Example fixed_witnesses :
  cert_outcome12 (vd1 0 a_PS_CERT_AUTH_FAIL_EXTENSION a_PS_CERT_AUTH_FAIL_DATE_FLAG true) None = Fatal a_SSL_ALERT_CERTIFICATE_EXPIRED /\
  cert_outcome13 (vd1 a_PS_ARG_FAIL 0 0 true) None = Fatal a_SSL_ALERT_BAD_CERTIFICATE /\
  cert_outcome13 (vd1 0 a_PS_CERT_AUTH_PASS 0 false) None = Fatal a_SSL_ALERT_UNKNOWN_CA /\
  cb_arg12 (vd1 a_PS_ARG_FAIL 0 0 true) (Some (fun a => a)) = Some a_SSL_ALERT_BAD_CERTIFICATE /\
  cert_outcome12 (vd1 0 a_PS_CERT_AUTH_PASS 0 true) None = Continue false /\
  cert_outcome13 (vd1 0 a_PS_CERT_AUTH_PASS 0 true) None = Continue false /\
  cert_outcome12 (vd1 0 a_PS_CERT_AUTH_FAIL_EXTENSION a_PS_CERT_AUTH_FAIL_DATE_FLAG true) (Some (fun _ => 0)) = Continue false /\
  cert_outcome13 (vd1 0 a_PS_CERT_AUTH_FAIL_EXTENSION a_PS_CERT_AUTH_FAIL_DATE_FLAG true) (Some (fun _ => a_SSL_ALLOW_ANON_CONNECTION)) = Continue true.
Proof. repeat split; reflexivity. Qed.

(* a complete run of each mode reaches PDone (so [pop_on_done] is not vacuous) *)
Definition okv := vd1 0 a_PS_CERT_AUTH_PASS 0 true.
Definition cfg0 (ver : version) (r : vrole) (k : kexmode) :=
  {| p_ver := ver; p_role := r; p_kex := k; p_cb := None; p_offered := [4%nat]; p_cr := 1%nat; p_sr := 2%nat; p_fix_ske_alg := true; p_dtls := false |}.
Example legal_runs_reach_done :
  ph (run (fun _ _ _ _ => true) (fun _ _ _ => true) (cfg0 V12 VClient KDhe) [] [MCertificate 7 okv; MServerKeyExchange 3 4 9; MServerHelloDone; MFinished 5]) = PDone /\
  ph (run (fun _ _ _ _ => true) (fun _ _ _ => true) (cfg0 V12 VClient KRsa) [] [MCertificate 7 okv; MServerHelloDone; MFinished 5]) = PDone /\
  ph (run (fun _ _ _ _ => true) (fun _ _ _ => true) (cfg0 V12 VServer KDhe) [] [MCertificate 7 okv; MClientKeyExchange; MCertificateVerify 4 9; MFinished 5]) = PDone /\
  ph (run (fun _ _ _ _ => true) (fun _ _ _ => true) (cfg0 V13 VClient KDhe) [] [MCertificate 7 okv; MCertificateVerify 4 9; MFinished 5]) = PDone /\
  ph (run (fun _ _ _ _ => true) (fun _ _ _ => true) (cfg0 V13 VClient KDhe) [] [MCertificate 7 okv; MFinished 5]) = PDead a_SSL_ALERT_UNEXPECTED_MESSAGE.
Proof. repeat split; reflexivity. Qed.
