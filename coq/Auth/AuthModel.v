(* Executable, code-shaped model of what the HANDSHAKE does with the certificate validator's verdict, and of the
   proof-of-possession checks that follow (property C04).  No proofs here.

   C sources (cited at each definition):
     matrixssl/hsDecode.c           parseCertificate (after the call of matrixValidateCertsExt): depth check, alert selection,
                                    no-CA rule, no-callback decision, callback result conventions            [TLS <= 1.2]
     matrixssl/matrixssl.c          matrixUserCertValidator (returns success for a NULL callback; NONE is passed as 0)
     matrixssl/tls13Authenticate.c  matrixSslValidatePeerCerts, psCheckSetPathLenFailure, psCheckValidationResult,
                                    tls13HandleUserCertCbResult                                              [TLS 1.3]
     matrixssl/hsDecode.c           parseServerKeyExchange -> tlsVerify (tlsSigVer.c), parseCertificateVerify,
                                    parseClientKeyExchange (RSA key transport), parseFinished
     matrixssl/tls13Decode.c        tls13ParseHandshakeMessage (state gate tls13CheckHsState), tls13ParseCertificateVerify,
                                    tls13ParseFinished

   The functions take a [fixes] argument: [pinned] is the code as it was before the C04 repairs (kept so that the
   defects stay stated and checkable), [fixed] is the repaired code (pending-fixes/C04-*.patch) that the theorems
   are about and that the correspondence run compares with the library. *)
From Coq Require Export List ZArith Bool Lia.
From MV Require Export Gen.ConstsAuth.
Export ListNotations.
Local Open Scope Z_scope.

(* ------------------------------------------------------------------ the verdict handed to the handshake *)
Record certv := { cv_status : Z;      (* psX509Cert_t.authStatus  (PS_CERT_AUTH_PASS = 1, failures negative, 0 = not examined) *)
                  cv_flags : Z;       (* psX509Cert_t.authFailFlags *)
                  cv_self : bool }.   (* subject == issuer (memcmpct(&cert->subject, &cert->issuer, ...) == 0) *)
Record verdict := { v_rc : Z;                 (* return value of matrixValidateCertsExt *)
                    v_chain : list certv;     (* ssl->sec.cert, leaf first *)
                    v_ca : bool;              (* ssl->keys != NULL && ssl->keys->CAcerts != NULL *)
                    v_maxdepth : Z }.         (* ssl->validateCertsOpts.max_verify_depth *)
Definition cbmode := option (Z -> Z).         (* ssl->sec.validateCert: alert argument (0 = nothing pending) -> return value *)
Inductive outcome := Continue (anon : bool) | Fatal (alert : Z).

Record fixes := { fx_status : bool;     (* C04-nocb-authstatus / C04-3: pending alert or non-PASS authStatus (1.3: and rc < 0) is a failure *)
                  fx_noca13 : bool;     (* C04-2: TLS 1.3 gets the "no CA loaded => unknown_ca" rule *)
                  fx_cbalert : bool;    (* C04-4: the generic bad_certificate alert is set before the callback is consulted *)
                  fx_severity : bool }. (* C04-6: one chain -> alert mapping for every version (matrixSslSetCertChainAlert): most severe failure wins *)
Definition pinned := {| fx_status := false; fx_noca13 := false; fx_cbalert := false; fx_severity := false |}.
Definition fixed := {| fx_status := true; fx_noca13 := true; fx_cbalert := true; fx_severity := true |}.

Definition has_flag (fl f : Z) : bool := negb (Z.land fl f =? 0).
Definition NONE := a_SSL_ALERT_NONE.

(* the switch on cert->authStatus: hsDecode.c 3116-3174 = tls13Authenticate.c 151-209.  [err]: value kept by `default:` *)
Definition status_alert (c : certv) (has_next : bool) (err : Z) : Z :=
  let s := cv_status c in
  if s =? a_PS_CERT_AUTH_FAIL_SIG then a_SSL_ALERT_BAD_CERTIFICATE
  else if s =? a_PS_CERT_AUTH_FAIL_REVOKED then a_SSL_ALERT_CERTIFICATE_REVOKED
  else if (s =? a_PS_CERT_AUTH_FAIL_AUTHKEY) || (s =? a_PS_CERT_AUTH_FAIL_PATH_LEN) then a_SSL_ALERT_BAD_CERTIFICATE
  else if s =? a_PS_CERT_AUTH_FAIL_EXTENSION then
    if has_flag (cv_flags c) a_PS_CERT_AUTH_FAIL_DATE_FLAG then a_SSL_ALERT_CERTIFICATE_EXPIRED
    else if has_flag (cv_flags c) a_PS_CERT_AUTH_FAIL_SUBJECT_FLAG then a_SSL_ALERT_CERTIFICATE_UNKNOWN
    else if has_next then a_SSL_ALERT_BAD_CERTIFICATE
    else a_SSL_ALERT_ILLEGAL_PARAMETER
  else if (s =? a_PS_CERT_AUTH_FAIL_BC) || (s =? a_PS_CERT_AUTH_FAIL_DN) then
    if has_next then a_SSL_ALERT_BAD_CERTIFICATE else a_SSL_ALERT_UNKNOWN_CA
  else err.

Definition has_next (rest : list certv) : bool := match rest with [] => false | _ => true end.

(* max_verify_depth test of one certificate (identical text in both files): pathLen already incremented *)
Definition depth_exceeded (maxd pathLen : Z) (c : certv) : bool :=
  (0 <? maxd) && ((maxd <? pathLen) || ((pathLen =? maxd) && negb (cv_self c))).
Definition mark_depth (c : certv) : certv :=     (* cert->authStatus |= FAIL_PATH_LEN; cert->authFailFlags |= VERIFY_DEPTH_FLAG *)
  {| cv_status := Z.lor (cv_status c) a_PS_CERT_AUTH_FAIL_PATH_LEN;
     cv_flags := Z.lor (cv_flags c) a_PS_CERT_AUTH_FAIL_VERIFY_DEPTH_FLAG; cv_self := cv_self c |}.

(* ------------------------------------------------------------------ repaired code, every version: matrixssl.c
   certAlertRank / raiseCertAlert / matrixSslSetCertChainAlert *)
Definition rank (a : Z) : Z :=
  if a =? NONE then 0 else if a =? a_SSL_ALERT_CERTIFICATE_EXPIRED then 1 else if a =? a_SSL_ALERT_CERTIFICATE_UNKNOWN then 2 else 3.
Definition raise (err a : Z) : Z := if rank err <? rank a then a else err.          (* keep the more severe; the earlier one among equals *)
Definition soft_flags : Z := Z.lor a_PS_CERT_AUTH_FAIL_DATE_FLAG a_PS_CERT_AUTH_FAIL_SUBJECT_FLAG.
Definition ext_other (fl : Z) : bool :=                                              (* other || !(flags & (DATE|SUBJECT)) *)
  negb (Z.land fl (Z.lnot soft_flags) =? 0) || (Z.land fl soft_flags =? 0).
Definition cert_raise (c : certv) (hn : bool) (err : Z) : Z :=                       (* the switch on cert->authStatus *)
  let s := cv_status c in
  if s =? a_PS_CERT_AUTH_PASS then err
  else if s =? a_PS_CERT_AUTH_FAIL_REVOKED then raise err a_SSL_ALERT_CERTIFICATE_REVOKED
  else if s =? a_PS_CERT_AUTH_FAIL_EXTENSION then
    let e1 := if ext_other (cv_flags c) then raise err (if hn then a_SSL_ALERT_BAD_CERTIFICATE else a_SSL_ALERT_ILLEGAL_PARAMETER) else err in
    let e2 := if has_flag (cv_flags c) a_PS_CERT_AUTH_FAIL_SUBJECT_FLAG then raise e1 a_SSL_ALERT_CERTIFICATE_UNKNOWN else e1 in
    if has_flag (cv_flags c) a_PS_CERT_AUTH_FAIL_DATE_FLAG then raise e2 a_SSL_ALERT_CERTIFICATE_EXPIRED else e2
  else if (s =? a_PS_CERT_AUTH_FAIL_BC) || (s =? a_PS_CERT_AUTH_FAIL_DN) then
    raise err (if hn then a_SSL_ALERT_BAD_CERTIFICATE else a_SSL_ALERT_UNKNOWN_CA)
  else raise err a_SSL_ALERT_BAD_CERTIFICATE.
(* for (cert = leaf; cert; cert = cert->next) { ++pathLen; depth rule (raise unknown_ca, mark); switch } *)
Fixpoint chain_alert (maxd pathLen err : Z) (cs : list certv) : Z * list certv :=
  match cs with
  | [] => (err, [])
  | c :: rest =>
      let pl := pathLen + 1 in
      let ex := depth_exceeded maxd pl c in
      let err1 := if ex then raise err a_SSL_ALERT_UNKNOWN_CA else err in
      let c1 := if ex then mark_depth c else c in
      let '(e, r) := chain_alert maxd pl (cert_raise c1 (has_next rest) err1) rest in (e, c1 :: r)
  end.
Definition chain_alert_full (v : verdict) : Z * list certv :=
  let '(err, cs) := chain_alert (v_maxdepth v) 0 NONE (v_chain v) in
  ((if v_ca v then err else raise err a_SSL_ALERT_UNKNOWN_CA), cs).                   (* no CA loaded *)

(* ------------------------------------------------------------------ TLS <= 1.2: hsDecode.c parseCertificate 3071-3176 *)
(* while (cert) { ++pathLen; depth check (sets err, marks cert); if (err != NONE) break; switch (authStatus); cert = next } *)
Fixpoint walk12 (maxd pathLen err : Z) (cs : list certv) : Z * list certv :=
  match cs with
  | [] => (err, [])
  | c :: rest =>
      let pl := pathLen + 1 in
      let ex := depth_exceeded maxd pl c in
      let err1 := if ex then a_SSL_ALERT_UNKNOWN_CA else err in
      let c1 := if ex then mark_depth c else c in
      if negb (err1 =? NONE) then (err1, c1 :: rest)
      else let err2 := status_alert c1 (has_next rest) err1 in
           let '(e, r) := walk12 maxd pl err2 rest in (e, c1 :: r)
  end.

Definition all_pass (cs : list certv) : bool := forallb (fun c => cv_status c =? a_PS_CERT_AUTH_PASS) cs.

(* matrixUserCertValidator (matrixssl.c 2651-2692) + the tests of its result (hsDecode.c 3237-3267 =
   tls13HandleUserCertCbResult).  Returns (alert argument the callback saw, outcome). *)
Definition user_validate (cb : cbmode) (err : Z) : option Z * outcome :=
  match cb with
  | None => (None, Continue false)                       (* certValidator == NULL: return PS_SUCCESS *)
  | Some f =>
      let a := if err =? NONE then 0 else err in
      let r := f a in
      (Some a,
       if r =? a_SSL_ALLOW_ANON_CONNECTION then Continue true
       else if 0 <? r then Fatal r
       else if r <? 0 then Fatal a_SSL_ALERT_INTERNAL_ERROR
       else Continue false)
  end.

Definition is_none {A} (o : option A) : bool := match o with None => true | _ => false end.

(* tail shared by both versions: `if (rc < 0) { ... if (validateCert == NULL) return ERROR; }` then the callback *)
Definition decide (fx : fixes) (rc err : Z) (cb : cbmode) : option Z * outcome :=
  if rc <? 0 then
    let err' := if fx_cbalert fx && (err =? NONE) then a_SSL_ALERT_BAD_CERTIFICATE else err in
    if is_none cb then (None, Fatal (if err' =? NONE then a_SSL_ALERT_BAD_CERTIFICATE else err'))
    else user_validate cb err'
  else user_validate cb err.

Definition cert_run12 (fx : fixes) (v : verdict) (cb : cbmode) : option Z * outcome :=
  if v_rc v =? a_PS_MEM_FAIL then (None, Fatal a_SSL_ALERT_INTERNAL_ERROR)              (* 3062-3066 *)
  else if fx_severity fx then
    let '(err, cs) := chain_alert_full v in
    let rc := v_rc v in
    let rc := if fx_status fx && (0 <=? rc) && (negb (err =? NONE) || negb (all_pass cs)) then a_PS_CERT_AUTH_FAIL else rc in
    decide fx rc err cb
  else
    let '(err, cs) := walk12 (v_maxdepth v) 0 NONE (v_chain v) in
    (* 3206-3212: no CA loaded *)
    let noca := (err =? NONE) && negb (v_ca v) in
    let err := if noca then a_SSL_ALERT_UNKNOWN_CA else err in
    let rc := if noca then -1 else v_rc v in
    (* repair: pending alert or certificate without PS_CERT_AUTH_PASS *)
    let rc := if fx_status fx && (0 <=? rc) && (negb (err =? NONE) || negb (all_pass cs)) then a_PS_CERT_AUTH_FAIL else rc in
    decide fx rc err cb.

(* ------------------------------------------------------------------ TLS 1.3: tls13Authenticate.c *)
(* psCheckSetPathLenFailure 224-282 *)
Fixpoint pathlen13 (maxd pathLen err : Z) (cs : list certv) : Z * list certv :=
  match cs with
  | [] => (err, [])
  | c :: rest =>
      let pl := pathLen + 1 in
      let ex := depth_exceeded maxd pl c in
      let err1 := if ex then a_SSL_ALERT_UNKNOWN_CA else err in
      let c1 := if ex then mark_depth c else c in
      if negb (err1 =? NONE) then (err1, c1 :: rest)
      else let '(e, r) := pathlen13 maxd pl err1 rest in (e, c1 :: r)
  end.
(* psCheckValidationResult 143-221: every certificate is looked at, a later alert replaces an earlier one *)
Fixpoint result13 (err : Z) (cs : list certv) : Z :=
  match cs with
  | [] => err
  | c :: rest => result13 (status_alert c (has_next rest) err) rest
  end.

Definition cert_run13 (fx : fixes) (v : verdict) (cb : cbmode) : option Z * outcome :=
  if v_rc v =? a_PS_MEM_FAIL then (None, Fatal a_SSL_ALERT_INTERNAL_ERROR)              (* 76-80 *)
  else if fx_severity fx then
    let '(err, cs) := chain_alert_full v in
    let rc := if err =? NONE then a_PS_SUCCESS else a_MATRIXSSL_ERROR in
    let rc := if fx_status fx && (v_rc v <? 0) then v_rc v else rc in
    let rc := if fx_status fx && (0 <=? rc) && negb (all_pass cs) then a_PS_CERT_AUTH_FAIL else rc in
    decide fx rc err cb
  else
    let '(err, cs) := pathlen13 (v_maxdepth v) 0 NONE (v_chain v) in
    let err := result13 err cs in
    let rc := if err =? NONE then a_PS_SUCCESS else a_MATRIXSSL_ERROR in
    (* repair C04-3: keep the validator's failure, any non-PASS certificate *)
    let rc := if fx_status fx && (v_rc v <? 0) then v_rc v else rc in
    let rc := if fx_status fx && (0 <=? rc) && negb (all_pass cs) then a_PS_CERT_AUTH_FAIL else rc in
    (* repair C04-2: the no-CA rule *)
    let noca := fx_noca13 fx && (err =? NONE) && negb (v_ca v) in
    let err := if noca then a_SSL_ALERT_UNKNOWN_CA else err in
    let rc := if noca then a_MATRIXSSL_ERROR else rc in
    decide fx rc err cb.

(* the functions of the property: the repaired code *)
Definition cert_outcome12 (v : verdict) (cb : cbmode) : outcome := snd (cert_run12 fixed v cb).
Definition cert_outcome13 (v : verdict) (cb : cbmode) : outcome := snd (cert_run13 fixed v cb).
Definition cb_arg12 (v : verdict) (cb : cbmode) : option Z := fst (cert_run12 fixed v cb).
Definition cb_arg13 (v : verdict) (cb : cbmode) : option Z := fst (cert_run13 fixed v cb).

(* ------------------------------------------------------------------ message-level machine of the VERIFYING side *)
(* keys, algorithms, randoms, signature values are opaque numbers; the transcript is the list of message ids hashed so far *)
Inductive sigdata :=
| DParams (cr sr params : nat)          (* client_random || server_random || ServerKeyExchange params  (tlsVerify / computeSkeHash) *)
| DTranscript (ctx : nat) (tr : list nat).   (* TLS 1.3: context string || Transcript-Hash;  TLS <= 1.2 CertificateVerify: ctx = 0 *)

Inductive version := V12 | V13.
Inductive vrole := VClient | VServer.       (* which side verifies: the client checks the server, or the server checks the client *)
Inductive kexmode := KRsa | KDhe.           (* TLS <= 1.2 client only: RSA key transport / (EC)DHE with signed params *)

Record pcfg := { p_ver : version; p_role : vrole; p_kex : kexmode; p_cb : cbmode;
                 p_offered : list nat;      (* signature algorithms this side listed (signature_algorithms / CertificateRequest) *)
                 p_cr : nat; p_sr : nat;    (* this handshake's randoms *)
                 p_fix_ske_alg : bool;      (* C04-5: tlsVerify checks the algorithm against the offered list *)
                 p_dtls : bool }.           (* DTLS 1.0 / 1.2: same handshake parsers as TLS 1.1 / 1.2 behind a datagram layer *)

Inductive msg :=
| MClientHello (hit : option bool)               (* server side: what the lookup of the offered resumption material (session id in the cache,
                                                    session ticket, TLS 1.3 ticket PSK) answers: None = nothing offered / unknown / expired /
                                                    does not decrypt; Some b = a resumable session, b = its original handshake authenticated
                                                    the client by certificate *)
| MCertificate (lk : nat) (v : verdict)          (* parsed chain: key of the first certificate + validator's verdict *)
| MCertificateEmpty                              (* a Certificate message without any certificate *)
| MServerKeyExchange (params alg : nat) (sg : nat)
| MServerKeyExchangeUnsigned (params : nat)      (* the message ends after the key-exchange parameters: no algorithm, no signature *)
| MServerHelloDone
| MClientKeyExchange
| MCertificateVerify (alg : nat) (sg : nat)
| MFinished (vd : nat).

Inductive phase := PHello | PWaitCert | PWaitSke | PWaitShd | PWaitCke | PWaitCv | PWaitFin | PDone | PDead (alert : Z).

Inductive pop_event :=
| PopSig (k alg : nat) (d : sigdata) (sg : nat)      (* a signature check that succeeded, with exactly these arguments *)
| PopKeyTransport (k : nat) (tr : list nat) (vd : nat).   (* Finished verified under keys derived from a premaster sent encrypted to key k *)

Record pst := { ph : phase; leaf : option nat; anon : bool; tr : list nat; pops : list pop_event;
                 resumed : option bool }.     (* Some b: this handshake resumed a session whose ORIGINAL handshake had (b = true) / had not
                                                 authenticated the peer by certificate *)

Definition ctx_server := 1%nat.    (* "TLS 1.3, server CertificateVerify" *)
Definition ctx_client := 2%nat.    (* "TLS 1.3, client CertificateVerify" *)
Definition peer_ctx (c : pcfg) : nat :=
  match p_ver c with V12 => 0%nat | V13 => match p_role c with VClient => ctx_server | VServer => ctx_client end end.

(* message ids for the transcript *)
Definition mid (m : msg) : nat :=
  match m with MClientHello _ => 1 | MCertificate _ _ => 11 | MCertificateEmpty => 11 | MServerKeyExchange _ _ _ => 12 | MServerKeyExchangeUnsigned _ => 12 | MServerHelloDone => 14 | MClientKeyExchange => 16
             | MCertificateVerify _ _ => 15 | MFinished _ => 20 end%nat.

Section Machine.
  Variable sig_ok : nat -> nat -> sigdata -> nat -> bool.      (* psVerifySig / tls13Verify: key, algorithm, signed data, signature *)
  Variable fin_ok : option nat -> list nat -> nat -> bool.     (* Finished MAC check; Some k: the keys derive from a premaster
                                                                  encrypted to public key k (RSA key transport) *)

  Definition dead (s : pst) (a : Z) : pst := {| ph := PDead a; leaf := leaf s; anon := anon s; tr := tr s; pops := pops s; resumed := resumed s |}.
  Definition adv (s : pst) (m : msg) (p : phase) : pst := {| ph := p; leaf := leaf s; anon := anon s; tr := tr s ++ [mid m]; pops := pops s; resumed := resumed s |}.
  Definition memn (x : nat) (l : list nat) : bool := existsb (Nat.eqb x) l.

  (* DTLS: MFinished stands for ChangeCipherSpec + Finished.  A ChangeCipherSpec that arrives while another handshake message is
     expected is dropped as out of order (sslDecode.c `if (ssl->hsState != SSL_HS_FINISHED) ... goto decodeMore`) and the Finished
     behind it is a record of an epoch whose keys are not active: the datagram layer drops both, the state does not move. *)
  Definition dtls_ignored (c : pcfg) (s : pst) (m : msg) : bool :=
    p_dtls c && match m with MFinished _ => true | _ => false end &&
    match ph s with PWaitFin | PDone | PDead _ => false | _ => true end.

  Definition step (c : pcfg) (s : pst) (m : msg) : pst :=
    if dtls_ignored c s m then s else
    match ph s, m with
    | PDone, _ => s
    | PDead _, _ => s
    | PHello, MClientHello hit =>
        (* hsDecode.c parseClientHello: `if (matrixResumeSession(ssl) >= 0) { ssl->flags &= ~SSL_FLAGS_CLIENT_AUTH; ssl->flags |= RESUMED ...`
           (the session-ticket path and TLS 1.3 PSK selection likewise); ONLY a successful lookup drops the requirement: otherwise the
           full handshake asks for the certificate.  The code does not record in the cache entry / ticket whether the original
           handshake authenticated the client (open finding when the same server keys serve connections without client auth). *)
        match p_role c, hit with
        | VServer, Some b => {| ph := PWaitFin; leaf := leaf s; anon := anon s; tr := tr s ++ [mid m]; pops := pops s; resumed := Some b |}
        | VServer, None => adv s m PWaitCert
        | VClient, _ => dead s a_SSL_ALERT_UNEXPECTED_MESSAGE
        end
    | PWaitCert, MCertificate k v =>
        let o := match p_ver c with V12 => cert_outcome12 v (p_cb c) | V13 => cert_outcome13 v (p_cb c) end in
        match o with
        | Fatal a => dead s a
        | Continue an =>
            let nxt := match p_ver c, p_role c with
                       | V13, _ => PWaitCv                                            (* tls13Decode.c 1036 *)
                       | V12, VServer => PWaitCke                                     (* hsDecode.c 3274 *)
                       | V12, VClient => match p_kex c with KDhe => PWaitSke | KRsa => PWaitShd end   (* 3278-3282 *)
                       end in
            {| ph := nxt; leaf := Some k; anon := an; tr := tr s ++ [mid m]; pops := pops s; resumed := resumed s |}
        end
    | PWaitCert, MCertificateEmpty =>
        (* hsDecode.c 2890-2910 (SERVER_WILL_ACCEPT_EMPTY_CLIENT_CERT_MSG off: Gen/ConstsAuth a_cfg_accept_empty_client_cert = false),
           tls13Decode.c 1726-1753 *)
        dead s (match p_ver c with V12 => a_SSL_ALERT_BAD_CERTIFICATE | V13 => a_SSL_ALERT_CERTIFICATE_UNKNOWN end)
    | PWaitSke, MServerKeyExchange params alg sg =>                                    (* parseServerKeyExchange -> tlsVerify *)
        match leaf s with
        | None => dead s a_SSL_ALERT_INTERNAL_ERROR
        | Some k =>
            if p_fix_ske_alg c && negb (memn alg (p_offered c)) then dead s a_SSL_ALERT_ILLEGAL_PARAMETER
            else let d := DParams (p_cr c) (p_sr c) params in
                 if sig_ok k alg d sg
                 then {| ph := PWaitShd; leaf := leaf s; anon := anon s; tr := tr s ++ [mid m]; pops := PopSig k alg d sg :: pops s; resumed := resumed s |}
                 else dead s a_SSL_ALERT_DECRYPT_ERROR
        end
    | PWaitSke, MServerKeyExchangeUnsigned _ => dead s a_SSL_ALERT_DECODE_ERROR        (* tlsVerify: `if (end - c < 2) goto out_decode_error` *)
    | PWaitShd, MServerHelloDone => adv s m PWaitFin           (* the client answers with ClientKeyExchange, CCS, Finished *)
    | PWaitCke, MClientKeyExchange => adv s m PWaitCv          (* hsDecode.c 1308-1311: SSL_FLAGS_CLIENT_AUTH => CERTIFICATE_VERIFY *)
    | PWaitCv, MCertificateVerify alg sg =>
        match leaf s with
        | None => dead s a_SSL_ALERT_INTERNAL_ERROR
        | Some k =>
            if negb (memn alg (p_offered c))                                           (* hsDecode.c 1422 / tls13Decode.c 1908 *)
            then dead s (match p_ver c with V12 => a_SSL_ALERT_DECODE_ERROR | V13 => a_SSL_ALERT_HANDSHAKE_FAILURE end)
            else let d := DTranscript (peer_ctx c) (tr s) in                           (* snapshot BEFORE this message is hashed *)
                 if sig_ok k alg d sg
                 then {| ph := PWaitFin; leaf := leaf s; anon := anon s; tr := tr s ++ [mid m]; pops := PopSig k alg d sg :: pops s; resumed := resumed s |}
                 else dead s a_SSL_ALERT_DECRYPT_ERROR
        end
    | PWaitFin, MFinished vd =>
        let kt := match p_ver c, p_role c, p_kex c with V12, VClient, KRsa => leaf s | _, _, _ => None end in
        if fin_ok kt (tr s) vd
        then {| ph := PDone; leaf := leaf s; anon := anon s; tr := tr s ++ [mid m];
                pops := match kt with Some k => PopKeyTransport k (tr s) vd :: pops s | None => pops s end; resumed := resumed s |}
        else dead s (match p_ver c with V12 => a_SSL_ALERT_DECRYPT_ERROR | V13 => a_SSL_ALERT_DECRYPT_ERROR end)
    | _, _ => dead s a_SSL_ALERT_UNEXPECTED_MESSAGE            (* state gates: parseSSLHandshake / tls13CheckHsState *)
    end.

  Definition init (t0 : list nat) : pst := {| ph := PWaitCert; leaf := None; anon := false; tr := t0; pops := []; resumed := None |}.
  Definition run (c : pcfg) (t0 : list nat) (ms : list msg) : pst := fold_left (step c) ms (init t0).
  (* a server connection configured for client authentication, from the ClientHello on *)
  Definition init_hello : pst := {| ph := PHello; leaf := None; anon := false; tr := []; pops := []; resumed := None |}.
  Definition run_hello (c : pcfg) (ms : list msg) : pst := fold_left (step c) ms init_hello.
End Machine.
