(* What property C04 demands, stated from the property text and independent of the shape of the code. *)
From MV Require Import Auth.AuthModel.
Local Open Scope Z_scope.

(* "internal chain validation succeeded": the validator returned success and every certificate of the chain passed *)
Definition internal_failure (v : verdict) : Prop :=
  v_rc v < 0 \/ exists c, In c (v_chain v) /\ cv_status c <> a_PS_CERT_AUTH_PASS.

(* two further reasons for which the chain is not authenticated although the validator is content:
   this peer has no trust anchor at all; the path (chain + its root) is longer than the application allows *)
Definition no_anchor (v : verdict) : Prop := v_ca v = false.
Definition path_depth (v : verdict) : Z :=
  Z.of_nat (length (v_chain v)) + (if last (map cv_self (v_chain v)) true then 0 else 1).
Definition too_deep (v : verdict) : Prop := 0 < v_maxdepth v /\ v_maxdepth v < path_depth v.
Definition auth_failure (v : verdict) : Prop := internal_failure v \/ no_anchor v \/ too_deep v.

(* every defect a chain has, named by the alert description that stands for it (from the property text: signature / issuer /
   constraint problems, revocation, unknown CA, expiry, name).  [hn]: the certificate is not the last one of the chain. *)
Definition cert_defects (c : certv) (hn : bool) : list Z :=
  let s := cv_status c in
  if s =? a_PS_CERT_AUTH_PASS then []
  else if s =? a_PS_CERT_AUTH_FAIL_REVOKED then [a_SSL_ALERT_CERTIFICATE_REVOKED]
  else if s =? a_PS_CERT_AUTH_FAIL_EXTENSION then
    (if ext_other (cv_flags c) then [if hn then a_SSL_ALERT_BAD_CERTIFICATE else a_SSL_ALERT_ILLEGAL_PARAMETER] else []) ++
    (if has_flag (cv_flags c) a_PS_CERT_AUTH_FAIL_SUBJECT_FLAG then [a_SSL_ALERT_CERTIFICATE_UNKNOWN] else []) ++
    (if has_flag (cv_flags c) a_PS_CERT_AUTH_FAIL_DATE_FLAG then [a_SSL_ALERT_CERTIFICATE_EXPIRED] else [])
  else if (s =? a_PS_CERT_AUTH_FAIL_BC) || (s =? a_PS_CERT_AUTH_FAIL_DN) then [if hn then a_SSL_ALERT_BAD_CERTIFICATE else a_SSL_ALERT_UNKNOWN_CA]
  else [a_SSL_ALERT_BAD_CERTIFICATE].
Fixpoint chain_defects (cs : list certv) : list Z :=
  match cs with [] => [] | c :: rest => cert_defects c (has_next rest) ++ chain_defects rest end.
Definition is_defect (v : verdict) (d : Z) : Prop :=
  In d (chain_defects (v_chain v)) \/ (too_deep v /\ d = a_SSL_ALERT_UNKNOWN_CA) \/ (no_anchor v /\ d = a_SSL_ALERT_UNKNOWN_CA).
(* severity: an application that tolerates the alert it is given (expiry on a device without a clock, a name it checks itself)
   must not thereby tolerate a worse defect: expired < name mismatch < everything that breaks the trust path *)
Definition severity (d : Z) : Z := rank d.
Definition arg_severity (a : Z) : Z := if a =? 0 then 0 else rank a.      (* the callback's argument: 0 = nothing pending *)

Definition continues (o : outcome) : bool := match o with Continue _ => true | Fatal _ => false end.

(* the only two callback answers that let a handshake go on *)
Definition cb_accepts (r : Z) (anon : bool) : Prop :=
  (r = 0 /\ anon = false) \/ (r = a_SSL_ALLOW_ANON_CONNECTION /\ anon = true).

(* proof of possession: a successful check made with the leaf key [k] over this handshake's own data *)
Fixpoint prefix (a b : list nat) : Prop :=
  match a, b with
  | [], _ => True
  | x :: a', y :: b' => x = y /\ prefix a' b'
  | _ :: _, [] => False
  end.

Section PopSpec.
  Variable sig_ok : nat -> nat -> sigdata -> nat -> bool.
  Variable fin_ok : option nat -> list nat -> nat -> bool.

  Definition own_data (c : pcfg) (final_tr : list nat) (d : sigdata) : Prop :=
    match d with
    | DParams cr sr _ => cr = p_cr c /\ sr = p_sr c                                  (* this handshake's randoms *)
    | DTranscript ctx t => ctx = peer_ctx c /\ prefix t final_tr                    (* this handshake's transcript at that point *)
    end.

  Definition possession_proved (c : pcfg) (s : pst) (k : nat) : Prop :=
    exists e, In e (pops s) /\
      match e with
      | PopSig k' alg d sg => k' = k /\ sig_ok k alg d sg = true /\ own_data c (tr s) d /\
                              (p_fix_ske_alg c = true \/ (exists ctx t, d = DTranscript ctx t) -> In alg (p_offered c))
      | PopKeyTransport k' t vd => k' = k /\ fin_ok (Some k) t vd = true /\ prefix t (tr s)
      end.
End PopSpec.
